/-
C18 — executable model of the line-number machinery of the LPC compiler and of the error reporter.

Mirrors, function by function (quirks included):
  * `switch_to_line`               lib/lpc/program/icode.c   (ENCODER of `line_info`: runs `<len:uchar><line:16 bit>`)
  * `save_file_info`, the `#include` push in `handle_include`, the include pop in `yylex` (LEX_EOF) and the final
    `save_file_info` of `i_generate_final_program`            lib/lpc/compiler.c, lib/lpc/lex.c   (ENCODER of `file_info`)
  * `find_line`, `get_line_number`                            src/simulate.c                      (DECODER)
  * `translate_absolute_line`                                 lib/lpc/program.c                   (DECODER, two passes)
  * `push_control_stack` / `pop_control_stack`                src/frame.c
  * `get_svalue_trace` and the file/line/program/object part of `mudlib_error_handler`
                                                              src/simulate.c, src/error_context.c

C integer widths are explicit where the property is about them: the run length is an `unsigned char`, the stored
absolute line and the `file_info` counts are 16 bit (`u16`), the program size is an `unsigned short`.
A C access outside the tables is the explicit outcome `Dec.oob`.
-/
import NV.Gen.C18

namespace NV.C18

open NV.Gen.C18

/-! ## widths -/

/-- largest value of the `unsigned char` run length (`255` in `switch_to_line`) -/
def runMax : Nat := ucharMax
/-- number of values of a C `short` / `unsigned short` -/
def lineMod : Nat := 2 ^ shortBits

/-- the low 16 bits of an `int`, read as `unsigned short` -/
def u16 (n : Int) : Nat := (n % (lineMod : Int)).toNat
/-- the low 16 bits read as (signed) `short`: what `find_line` did before the fix -/
def s16 (n : Nat) : Int := if n % lineMod < lineMod / 2 then (n % lineMod : Nat) else ((n % lineMod : Nat) : Int) - lineMod
/-- `(unsigned char) sz` -/
def u8 (n : Int) : Nat := (n % ((runMax : Int) + 1)).toNat

theorem runMax_eq : runMax = 255 := rfl
theorem lineMod_eq : lineMod = 65536 := rfl

/-! ## tables -/

/-- one run of `line_info`: `len` code bytes generated under absolute line `line` (raw 16 bits) -/
structure Run where
  len : Nat
  line : Nat
deriving Repr, DecidableEq, BEq

/-- one pair of `file_info`: `count` absolute lines belong to file `file` (raw unsigned shorts) -/
structure Seg where
  count : Nat
  file : Nat
deriving Repr, DecidableEq, BEq

/-! ## encoder: `switch_to_line` -/

/-- the `while (sz > 255) {emit 255} emit sz` loop of `switch_to_line` for a positive size -/
def runsOf (n : Nat) (s : Nat) : List Run :=
  if h : n > runMax then ⟨runMax, s⟩ :: runsOf (n - runMax) s else [⟨n, s⟩]
termination_by n
decreasing_by
  have : runMax = 255 := rfl
  omega

/-- compiler state touched by the line-number bookkeeping -/
structure Enc where
  lastSize : Int := 0          -- last_size_generated
  lineBeing : Int := 0         -- line_being_generated
  liRev : List Run := []       -- A_LINENUMBERS, newest first
  fiRev : List Seg := []       -- A_FILE_INFO, newest first
  names : List (Nat × String) := []   -- file id -> name (add_program_file)
  psize : Nat := 0             -- program_size as stored (unsigned short)
  initLine : Int := 0          -- init_line_being_generated
  initRev : List (Int × Int) := []    -- A_INIT_LINES (line, offset in A_INITIALIZER), newest first
deriving Repr

def Enc.li (st : Enc) : List Run := st.liRev.reverse
def Enc.fi (st : Enc) : List Seg := st.fiRev.reverse

/-- `switch_to_line (line)` called when the code generator is at address `cur` of block `block`.
    Code of the variable initialiser block is moved to the end of the program later, so for `A_INITIALIZER` only the
    start of each new line is noted (`A_INIT_LINES`); other blocks are ignored (`if (current_block != A_PROGRAM) return;`). -/
def switchToLine (st : Enc) (line : Int) (cur : Int) (block : Nat) : Enc :=
  if block = aInitializer then
    (if line ≠ st.initLine then { st with initRev := (line, cur) :: st.initRev, initLine := line } else st)
  else if block ≠ aProgram then st else
  let sz := cur - st.lastSize
  let st1 : Enc :=
    if sz = 0 then st else
      let s := u16 st.lineBeing
      let runs := if sz > 0 then runsOf sz.toNat s else [⟨u8 sz, s⟩]
      { st with lastSize := st.lastSize + sz, liRev := runs.reverse ++ st.liRev }
  { st1 with lineBeing := line }

/-- `i_generate___INIT`: the initialiser block has been appended at `base`; visit the start of every noted line the
    way the code generator would have (`prog_code = base + offset; switch_to_line (line)`) -/
def placeInit (st : Enc) (base : Int) : Enc :=
  st.initRev.reverse.foldl (fun st e => switchToLine st e.1 (base + e.2) aProgram) st

/-- `i_generate_node`: `if (expr->line && expr->line != (current_block == A_INITIALIZER ? init_line_being_generated :
    line_being_generated)) switch_to_line (expr->line);` — does the visit of a node with this line switch? -/
def nodeSwitches (st : Enc) (line : Int) (block : Nat) : Bool :=
  decide (line ≠ 0) && decide (line ≠ (if block = aInitializer then st.initLine else st.lineBeing))

/-- the visit of one parse node at code address `cur` -/
def genNode (st : Enc) (line : Int) (cur : Int) (block : Nat) : Enc :=
  if nodeSwitches st line block then switchToLine st line cur block else st

/-- what `i_generate_node` sees, in order (harness `nv` line) -/
inductive NEv where
  | visit (line : Int) (addr : Int) (block : Nat) (count : Nat)   -- + count-1 further visits, same line and block, no switch
  | other (line : Int) (addr : Int) (block : Nat)                  -- switch_to_line called from elsewhere
  | init (base : Nat)
deriving Repr

/-- replay the visits: the compiler state and the `switch_to_line` calls the node visits make (newest first); a merged
    visit that WOULD switch is recorded with address -1 -/
def nodeStep (acc : Enc × List (Int × Int × Nat)) : NEv → Enc × List (Int × Int × Nat)
  | .visit line addr block count =>
    let sw := nodeSwitches acc.1 line block
    let st1 := genNode acc.1 line addr block
    let calls := if sw then (line, addr, block) :: acc.2 else acc.2
    -- the merged visits: same line, same block, state after the first one
    if count > 1 ∧ nodeSwitches st1 line block then (st1, (line, -1, block) :: calls) else (st1, calls)
  | .other line addr block => (switchToLine acc.1 line addr block, acc.2)
  | .init base => (placeInit acc.1 base, acc.2)

def nodeRun (evs : List NEv) : Enc × List (Int × Int × Nat) := evs.foldl nodeStep ({}, [])

/-- `save_file_info (file_id, lines)`: both values are stored through a `short` -/
def saveFileInfo (st : Enc) (fileId : Int) (lines : Int) : Enc :=
  { st with fiRev := ⟨u16 lines, u16 fileId⟩ :: st.fiRev }

/-- hook events of one compilation (harness `ev` line) -/
inductive CEv where
  | begin
  | sw (line : Int) (addr : Int) (block : Nat)
  | fi (fileId : Int) (lines : Int)
  | addFile (fileId : Nat) (name : String)
  | init (base : Nat) (size : Nat)
  | replay (line : Int) (addr : Int)     -- a switch_to_line call made by i_generate___INIT (already modelled by `init`)
  | fin (psize : Int)
deriving Repr

def encStep (st : Enc) : CEv → Enc
  | .begin => {}
  | .sw l a b => switchToLine st l a b
  | .fi f n => saveFileInfo st f n
  | .addFile f nm => { st with names := st.names ++ [(f, nm)] }
  | .init base _ => placeInit st base
  | .replay _ _ => st
  | .fin p => { st with psize := u16 p }

def encRun (evs : List CEv) : Enc := evs.foldl encStep {}

/-! ## lexer bookkeeping across `#include` -/

/-- the lexer counters that define absolute lines -/
structure Lex where
  curLine : Int := 1       -- current_line
  base : Int := 0          -- current_line_base
  saved : Int := 0         -- current_line_saved
  fileId : Nat := 1        -- current_file_id
  stack : List (Int × Nat) := []   -- incstate: (line, file_id)
  fi : List Seg := []      -- file_info in order
deriving Repr

inductive LexEv where
  | nl                     -- a newline of ordinary text was consumed
  | incl (f : Nat)         -- an `#include` directive (its own newline included) opening file id `f`
  | eof                    -- end of an included file
deriving Repr, DecidableEq

def Lex.save (s : Lex) (id : Nat) (lines : Int) : Lex := { s with fi := s.fi ++ [⟨u16 lines, u16 id⟩] }

def lexStep (s : Lex) : LexEv → Lex
  | .nl => { s with curLine := s.curLine + 1 }
  | .incl f =>
    -- yylex: current_line++ ; handle_include: is->line = current_line; current_line--; save_file_info; ...
    let l := s.curLine + 1
    let c := l - 1
    let s1 := s.save s.fileId (c - s.saved)
    { s1 with stack := (l, s.fileId) :: s.stack, base := s.base + c, saved := 0, curLine := 1, fileId := f }
  | .eof =>
    match s.stack with
    | [] => s
    | (l, fid) :: rest =>
      let s1 := s.save s.fileId (s.curLine - s.saved)
      let saved' := l - 1
      { s1 with saved := saved', base := s.base + (s.curLine - saved'), fileId := fid, curLine := l, stack := rest }

def lexRun (s : Lex) (evs : List LexEv) : Lex := evs.foldl lexStep s

/-- `i_generate_final_program`: the last segment -/
def lexFinish (s : Lex) : Lex := s.save s.fileId (s.curLine - s.saved)

/-- the absolute line a parse node created now would carry (before the `(short)` cast) -/
def Lex.abs (s : Lex) : Int := s.base + s.curLine

/-! ## file ids: `add_program_file` / `program_file_id` and the program string table -/

/-- lexer counters plus what decides the file ids: the program string table (slot `i` holds a string, file id =
    slot + 1), `current_file` and the `file` fields of the include stack (strings are abstract identities) -/
structure LexN where
  lex : Lex := {}
  tbl : List Nat := []          -- A_STRINGS
  curName : Nat := 0            -- current_file
  nameStack : List Nat := []    -- is->file of the include stack
deriving Repr

inductive LexEvN where
  | nl
  | incl (name : Nat)           -- `#include` of the file whose path is the string `name`
  | eof
  | store (name : Nat)          -- any other `store_prog_string` of the compiler (string literals, identifiers …)
deriving Repr, DecidableEq

/-- slot of the newest table entry holding `name` (`store_prog_string` walks the hash chain from its head) -/
def lastIdx (tbl : List Nat) (name : Nat) : Option Nat :=
  (List.range tbl.length).reverse.find? (fun i => tbl.getD i 0 == name)

/-- `store_prog_string`: (index + 1, table) -/
def storeStr (tbl : List Nat) (name : Nat) : Nat × List Nat :=
  match lastIdx tbl name with
  | some i => (i + 1, tbl)
  | none => (tbl.length + 1, tbl ++ [name])

/-- `program_file_id (name, 0)`: the id `store_prog_string` gives, unless a segment of `A_FILE_INFO` already uses it
    (`fi[i] == (unsigned short) file_id`): then `store_prog_string_again` appends an entry of its own -/
def fileIdFor (fi : List Seg) (tbl : List Nat) (name : Nat) : Nat × List Nat :=
  let r := storeStr tbl name
  if fi.any (fun s => s.file == u16 r.1) then (r.2.length + 1, r.2 ++ [name]) else r

/-! ### the scan of `A_FILE_INFO` as `program_file_id` performs it (parameters transcribed from the source) -/

/-- `A_FILE_INFO` as the flat array of `unsigned short`s that `save_file_info` appends: `<lines> <file id>` per segment -/
def flatFi (fi : List Seg) : List Nat := fi.flatMap fun s => [s.count, s.file]

/-- `for (i = start; i < n; i += step) if (fi[i] == (T) file_id) …` over the flat array, `i` = index of the head -/
def scanFlat (n : Nat) (id : Nat) : List Nat → Nat → Bool
  | [], _ => false
  | x :: xs, i =>
    (decide (i < n ∨ (fidScanIncl = true ∧ i = n)) && decide (fidScanStart ≤ i) && decide ((i - fidScanStart) % fidScanStep = 0) &&
      decide (x = id % fidCastMod)) || scanFlat n id xs (i + 1)

/-- is file id `id` used by a segment written so far?  `n = A_FILE_INFO.current_size / sizeof (…)` entries are looked at -/
def fileIdInUse (fi : List Seg) (id : Nat) : Bool :=
  scanFlat (fidEntries (fidElemBytes * (flatFi fi).length)) id (flatFi fi) 0

def lexStepN (s : LexN) : LexEvN → LexN
  | .nl => { s with lex := lexStep s.lex .nl }
  | .store name => { s with tbl := (storeStr s.tbl name).2 }
  | .incl name =>
    -- handle_include: save_file_info of the parent FIRST, then add_program_file
    let l := s.lex.curLine + 1
    let c := l - 1
    let s1 := s.lex.save s.lex.fileId (c - s.lex.saved)
    let r := fileIdFor s1.fi s.tbl name
    { lex := { s1 with stack := (l, s.lex.fileId) :: s.lex.stack, base := s.lex.base + c, saved := 0, curLine := 1,
                       fileId := r.1 },
      tbl := r.2, curName := name, nameStack := s.curName :: s.nameStack }
  | .eof =>
    match s.nameStack with
    | [] => { s with lex := lexStep s.lex .eof }
    | n :: rest => { s with lex := lexStep s.lex .eof, curName := n, nameStack := rest }

def lexRunN (s : LexN) (evs : List LexEvN) : LexN := evs.foldl lexStepN s

/-- start of a compilation: `add_program_file (name, 1)` on the empty table gives the main file id 1 -/
def initN (main : Nat) : LexN := { lex := { fileId := 1 }, tbl := [main], curName := main }

/-! ## decoder -/

inductive Dec where
  | ok (file : Nat) (line : Int)
  | noLine           -- find_line returns 4: "(no line numbers)"
  | oob              -- the C code would read outside the table
deriving Repr, DecidableEq, BEq

/-- `while (offset > *lns) { offset -= *lns; lns += 3; }` — the guard is `Gen.C18.scanContinues`, transcribed from the
    source on every run; `none` when the scan leaves the table -/
def findRun : List Run → Int → Option Run
  | [], _ => none
  | r :: rest, off => if scanContinues off r.len then findRun rest (off - r.len) else some r

/-- first pass of `translate_absolute_line` (guard `Gen.C18.pass1Continues`, transcribed from the source on every
    run); `pre` collects the skipped segments -/
def pass1 : List Seg → Int → List Seg → Option (List Seg × Int × Nat)
  | [], _, _ => none
  | s :: rest, t, pre =>
    if pass1Continues t s.count then
      match rest with
      | [] => none                                  -- `if (p1 >= end) return -1;`
      | _ => pass1 rest (t - s.count) (pre ++ [s])
    else some (pre, t, s.file)

/-- second pass: add the counts of the earlier segments of the same file -/
def pass2 (pre : List Seg) (file : Nat) (t : Int) : Int :=
  pre.foldl (fun acc s => if pass2Adds s.file file then acc + pass2Sign * s.count else acc) t

def translateAbs (abs : Int) (fi : List Seg) : Option (Nat × Int) :=
  match pass1 fi abs [] with
  | none => none
  | some (pre, t, f) => some (f, pass2 pre f t)

/-- the line tables of one program as dumped from the real driver -/
structure Tab where
  psize : Nat := 0
  fi : List Seg := []
  li : List Run := []
  names : List (Nat × String) := []
  noInfo : Bool := false      -- no line_info at all
  sizeField : Nat := 0        -- file_info[0]: size in bytes of both tables as STORED (unsigned short)
deriving Repr

/-- width of the two header words of `file_info` (they are elements of the same `unsigned short` array) -/
def hdrMod : Nat := 2 ^ fileInfoBits

/-- `epilog`: `lnoff = 2 + A_FILE_INFO.current_size / sizeof (short)` (two shorts per segment) -/
def lnoffOf (segs : Nat) : Nat := 2 + 2 * segs
/-- `epilog`: `lnsz = lnoff * sizeof (short) + A_LINENUMBERS.current_size` (three bytes per run) -/
def lnszOf (segs runs : Nat) : Nat := 2 * lnoffOf segs + 3 * runs
/-- `prog->file_info[0] = (unsigned short) lnsz` -/
def sizeFieldOf (segs runs : Nat) : Nat := lnszOf segs runs % hdrMod

/-- the walk of `find_line` WITH an end pointer `lns_end = (unsigned char *) file_info + file_info[0]` and the test
    `if (lns >= lns_end) return 4;` after every `lns += 3` (the shape `Gen.C18.scanBounded` recognises): does it give up?
    `allowed` = bytes between `line_info` and the end pointer (negative when the stored size has wrapped below the
    header), `k` = runs walked so far -/
def givesUp (allowed : Int) : List Run → Int → Int → Bool
  | [], _, _ => false
  | r :: rest, off, k =>
    if scanContinues off r.len then
      (if 3 * (k + 1) ≥ allowed then true else givesUp allowed rest (off - r.len) (k + 1))
    else false

/-- bytes between `line_info` and the end pointer computed from the stored size -/
def Tab.allowed (t : Tab) : Int := (t.sizeField : Int) - 2 * (lnoffOf t.fi.length : Int)

/-- `find_line` (after the fix: the absolute line is read as `unsigned short`) on code offset `off` -/
def findLine (t : Tab) (off : Int) : Dec :=
  if t.noInfo then .noLine else
  if psizeRejects off t.psize then .noLine else      -- `if (offset > (int) progp->program_size)`, transcribed (Gen)
  if scanBounded && givesUp t.allowed t.li off 0 then .noLine else   -- end-pointer test, when the source has one (Gen)
  match findRun t.li off with
  | none => .oob
  | some r =>
    match t.fi with
    | [] => .oob                                     -- `*p1` is read before any bound check
    | _ =>
      match translateAbs r.line t.fi with
      | none => .noLine
      | some (f, l) => .ok f l

/-- `find_line` as it was before the fix (`short abs_line`) — kept for the witness of the 2^15 bound -/
def findLineSigned (t : Tab) (off : Int) : Dec :=
  if t.noInfo then .noLine else
  if off > t.psize then .noLine else
  match findRun t.li off with
  | none => .oob
  | some r =>
    match t.fi with
    | [] => .oob
    | _ =>
      match translateAbs (s16 r.line) t.fi with
      | none => .noLine
      | some (f, l) => .ok f l

def Tab.nameOf (t : Tab) (f : Nat) : String :=
  match t.names.find? (fun e => e.1 == f) with
  | some e => e.2
  | none => "?"

/-- text of `get_line_number` (blanks replaced by `_` as the harness prints it) -/
def renderDec (t : Tab) : Dec → String
  | .ok f l => s!"/{t.nameOf f}:{l}"
  | .noLine => "(no_line_numbers)"
  | .oob => "!oob"

/-! ## control stack and trace assembly -/

/-- one `control_stack_t` element: kind and function of the frame it opens, registers of the frame it suspends -/
structure CsEntry where
  kind : Nat
  tableIndex : Nat
  prog : String      -- saved current_prog (`-` = NULL)
  ob : String        -- saved current_object
  pc : Int           -- saved pc as offset into `prog`
deriving Repr, DecidableEq, BEq

/-- the registers current_prog / current_object / pc -/
structure Regs where
  prog : String
  ob : String
  pc : Int
deriving Repr, DecidableEq, BEq

structure Machine where
  cs : List CsEntry := []     -- control_stack[0 .. csp]
  cur : Regs := ⟨"-", "-", -1⟩
deriving Repr

/-- `push_control_stack (kind)` followed by the callee set-up (`csp->fr.table_index`, new registers) -/
def Machine.push (m : Machine) (kind idx : Nat) (callee : Regs) : Machine :=
  { cs := m.cs ++ [⟨kind, idx, m.cur.prog, m.cur.ob, m.cur.pc⟩], cur := callee }

/-- one slot of a program's function table as far as frames are concerned -/
structure FunEnt where
  name : String := "?"
  runtimeIndex : Nat := 0
deriving Repr, Inhabited

/-- `apply_low`: the frame opened for slot `ei` of the function table `tbl` of the callee's program; on a cache hit and on
    a cache miss the index stored into `csp->fr.table_index` is the expression transcribed from the source
    (`Gen.C18.hitIndex` / `Gen.C18.missIndex`) -/
def Machine.applyFrame (m : Machine) (hit : Bool) (tbl : List FunEnt) (ei : Nat) (callee : Regs) : Machine :=
  let ri := (tbl.getD ei default).runtimeIndex
  m.push frameFunction (if hit then hitIndex ei ri else missIndex ei ri) callee

/-- `pop_control_stack` -/
def Machine.pop (m : Machine) : Machine :=
  match m.cs.getLast? with
  | none => m
  | some e => { cs := m.cs.dropLast, cur := ⟨e.prog, e.ob, e.pc⟩ }

/-- the frame list `get_svalue_trace` walks: element `p` supplies kind/function, `p[1]` (or the live registers
    for the innermost frame) supplies program, object and pc -/
def framesOf : List CsEntry → Regs → List (CsEntry × Regs)
  | [], _ => []
  | [e], cur => [(e, cur)]
  | e :: e' :: rest, cur => (e, ⟨e'.prog, e'.ob, e'.pc⟩) :: framesOf (e' :: rest) cur

structure TraceEnt where
  fn : String
  prog : String
  ob : String
  file : String
  line : Int
deriving Repr, DecidableEq, BEq

/-- what the decoder needs to know about the loaded programs -/
structure World where
  tabs : List (String × Tab) := []
  fns : List (String × List String) := []

def World.tab? (w : World) (p : String) : Option Tab := (w.tabs.find? (fun e => e.1 == p)).map (·.2)
def World.fnName (w : World) (p : String) (i : Nat) : String :=
  match w.fns.find? (fun e => e.1 == p) with
  | some e => e.2.getD i "?"
  | none => "?"

/-- file and line as `find_line` leaves them in `*ret_file`, `*ret_line` (`""`, 0 unless it returns 0) -/
def fileLine (w : World) (r : Regs) : String × Int :=
  match w.tab? r.prog with
  | none => ("", 0)
  | some t =>
    match findLine t r.pc with
    | .ok f l => (t.nameOf f, l)
    | _ => ("", 0)

def fnOf (w : World) (e : CsEntry) (r : Regs) : String :=
  if e.kind % (frameMask + 1) = frameFunction then w.fnName r.prog e.tableIndex
  else if e.kind % (frameMask + 1) = frameCatch then "CATCH"
  else "<function>"

/-- `get_svalue_trace (0)` -/
def svalueTrace (w : World) (m : Machine) : List TraceEnt :=
  if m.cur.prog = "-" then [] else
  (framesOf m.cs m.cur).map fun (e, r) =>
    let fl := fileLine w r
    ⟨fnOf w e r, r.prog, r.ob, fl.1, fl.2⟩

/-- efun `call_stack`: item `i` is about control stack element `csp - i`; its program / object are the live registers for
    `i = 0` and those saved in element `csp - i + 1` otherwise (`(csp - i + 1)->prog`), its function is looked up in that
    program.  The list of (element, registers) pairs, innermost first. -/
def callFrames (m : Machine) : List (CsEntry × Regs) :=
  m.cs.reverse.zip (m.cur :: m.cs.reverse.map fun e => ⟨e.prog, e.ob, e.pc⟩)

/-- `call_stack (2)`: function names (`CATCH`, `<function>` for the other frame kinds) -/
def callStackFns (w : World) (m : Machine) : List String := (callFrames m).map fun (e, r) => fnOf w e r
/-- `call_stack (0)`: program names with a leading slash -/
def callStackProgs (m : Machine) : List String := (callFrames m).map fun (_, r) => "/" ++ r.prog
/-- `call_stack (1)`: objects -/
def callStackObs (m : Machine) : List String := (callFrames m).map fun (_, r) => r.ob

/-- the mapping `mudlib_error_handler` hands to the master -/
structure ErrInfo where
  file : String
  line : Int
  program : String
  object : String
  trace : List TraceEnt
deriving Repr, DecidableEq, BEq

def errInfo (w : World) (m : Machine) : ErrInfo :=
  let fl := fileLine w m.cur
  { file := fl.1, line := fl.2, program := m.cur.prog, object := m.cur.ob, trace := svalueTrace w m }

/-! ## `dump_trace`: the textual trace written to the log (blanks are printed as `~` by the harness) -/

/-- text of `get_line_number (pc, prog)`: `find_line` answers 2 for `fake_prog` (program `<function>`, frames of efun
    pointers) and the buffer stays empty; 4 is "(no line numbers)" -/
def locText (w : World) (r : Regs) : String :=
  match w.tab? r.prog with
  | none => if r.prog = "<function>" then "" else "?"
  | some t =>
    match findLine t r.pc with
    | .ok f l => s!"/{t.nameOf f}:{l}"
    | .noLine => "(no~line~numbers)"
    | .oob => "!oob"

/-- the object name printed for a frame: `p[1].ob->name` for the outer frames (no NULL test: `!null` = the C code
    dereferences NULL), `current_object ? current_object->name : "<none>"` for an innermost FRAME_FUNCTION frame,
    `current_object->name` for the other innermost kinds -/
def dtOb (inner : Bool) (k : Nat) (r : Regs) : String :=
  if r.ob = "-" then (if inner ∧ k = frameFunction then "<none>" else "!null") else r.ob

/-- what `dump_trace` prints in front of ` at `: `<name>()`, `(function)` (FRAME_FUNP and FRAME_FAKE), `(catch)` -/
def dtHead (w : World) (e : CsEntry) (r : Regs) : Option String :=
  let k := e.kind % (frameMask + 1)
  if k = frameFunction then some (w.fnName r.prog e.tableIndex ++ "()")
  else if k = frameFunp then some "(function)"
  else if k = frameFake then some "(function)"
  else if k = frameCatch then some "(catch)"
  else none                                        -- the `switch` has no default: nothing is printed

def dtTail (w : World) (inner : Bool) (e : CsEntry) (r : Regs) : String :=
  s!"~at~{locText w r},~in~program~/{r.prog}~(object~{dtOb inner (e.kind % (frameMask + 1)) r})"

/-- one line of the log: `\t<head> at <file:line>, in program /<prog> (object <ob>)` -/
def dtLine (w : World) (inner : Bool) (e : CsEntry) (r : Regs) : Option String :=
  (dtHead w e r).map (· ++ dtTail w inner e r)

/-- `for (p = &control_stack[0]; p < csp; p++) { … p[1] … }` followed by the block for `current_prog` -/
def dtLines (w : World) : List CsEntry → Regs → List String
  | [], _ => []
  | [e], cur => (dtLine w true e cur).toList
  | e :: e' :: rest, cur => (dtLine w false e ⟨e'.prog, e'.ob, e'.pc⟩).toList ++ dtLines w (e' :: rest) cur

/-- `dump_trace (0)`: the lines written (`if (current_prog == 0) return 0;`) -/
def dumpTrace (w : World) (m : Machine) : List String :=
  if m.cur.prog = "-" then [] else dtLines w m.cs m.cur

/-- the value `dump_trace` returns: inside the loop over the OUTER frames, `if (strcmp (ftd.name, "heart_beat") == 0)
    ret = p[1].ob ? p[1].ob->name : 0;` — the object of the frame the element opens (after the fix; it used to be
    `p->ob`, the object register saved by the CALLER of `heart_beat`, which is NULL when the driver makes the call);
    an innermost `heart_beat` frame is not looked at; the last match wins -/
def dtRetGo (w : World) : List CsEntry → String → String
  | e :: e' :: rest, acc =>
    let acc' := if e.kind % (frameMask + 1) = frameFunction ∧ w.fnName e'.prog e.tableIndex = "heart_beat"
                then (if e'.ob = "-" then "0" else e'.ob) else acc
    dtRetGo w (e' :: rest) acc'
  | _, acc => acc

def dumpTraceRet (w : World) (m : Machine) : String :=
  if m.cur.prog = "-" then "0" else dtRetGo w m.cs "0"

/-- `dump_trace (DUMP_WITH_ARGS | DUMP_WITH_LOCALVARS)`: which lines follow each frame line.  `num_arg` and
    `num_local` are variables of the whole function (initially -1): FRAME_FUNCTION and FRAME_FUNP set both,
    FRAME_FAKE and FRAME_CATCH reset `num_arg` only; "arguments:" is printed when `num_arg != -1`, "local variables:"
    when `num_local > 0 && num_arg != -1`.  For the INNERMOST frame (the last element) there is one more test in front of
    the two blocks: `if (num_arg != -1 && fp + num_arg + num_local - 1 > sp) num_arg = -1;` (`Gen.C18.innerUnbuilt`,
    transcribed; `d` = sp - fp) — a frame that is still being set up shows no variables.
    Input per frame: kind and the counts the frame would supply. -/
def dtaGo (d : Int) : List (Nat × Int × Int) → Int × Int → List String
  | [], _ => []
  | (kind, na, nl) :: rest, (pa, pl) =>
    let k := kind % (frameMask + 1)
    let st : Option (Int × Int) :=
      if k = frameFunction then some (na, nl) else if k = frameFunp then some (na, nl)
      else if k = frameFake then some (-1, pl) else if k = frameCatch then some (-1, pl) else none
    match st with
    | none =>                               -- no frame line; the two blocks below still look at the stale counters
      ((if pa ≠ -1 then "A" else "") ++ (if pl > 0 ∧ pa ≠ -1 then "L" else "")) :: dtaGo d rest (pa, pl)
    | some (a, l) =>
      let a' := if rest.isEmpty ∧ a ≠ -1 ∧ innerUnbuilt a l d = true then -1 else a
      ("F" ++ (if a' ≠ -1 then "A" else "") ++ (if l > 0 ∧ a' ≠ -1 then "L" else "")) :: dtaGo d rest (a', l)

def dumpTraceArgs (m : Machine) (counts : List (Int × Int)) (d : Int) : List String :=
  if m.cur.prog = "-" then [] else
  dtaGo d ((m.cs.zip counts).map fun (e, c) => (e.kind, c.1, c.2)) (-1, -1)

end NV.C18
