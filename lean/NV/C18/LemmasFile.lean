/-
C18 — helper lemmas: `file_info` (lexer bookkeeping across #include) against `translate_absolute_line`.
-/
import NV.C18.Model

namespace NV.C18

/-- total number of absolute lines covered by a table -/
def segTotal (F : List Seg) : Int := (F.map (fun s => (s.count : Int))).sum
/-- lines of file `f` covered by a table -/
def segOf (F : List Seg) (f : Nat) : Int := ((F.filter (fun s => s.file = f)).map (fun s => (s.count : Int))).sum

theorem segTotal_nonneg (F : List Seg) : 0 ≤ segTotal F := by
  induction F with
  | nil => simp [segTotal]
  | cons a r ih => simp only [segTotal, List.map_cons, List.sum_cons] at ih ⊢; omega

theorem segTotal_append (F G : List Seg) : segTotal (F ++ G) = segTotal F + segTotal G := by
  simp [segTotal, List.sum_append]

theorem segOf_append (F G : List Seg) (f : Nat) : segOf (F ++ G) f = segOf F f + segOf G f := by
  simp [segOf, List.sum_append]

theorem segOf_single (s : Seg) (f : Nat) : segOf [s] f = if s.file = f then (s.count : Int) else 0 := by
  by_cases h : s.file = f <;> simp [segOf, h]

theorem segTotal_single (s : Seg) : segTotal [s] = s.count := by simp [segTotal]

/-! ## the decoder on a table `F ++ s :: rest` -/

/-- the first pass of `translate_absolute_line` goes on exactly while MORE lines are left than the segment has
    (guard transcribed from the source: `NV.Gen.C18.pass1Continues`) -/
theorem pass1Continues_iff (t : Int) (c : Nat) : NV.Gen.C18.pass1Continues t c = true ↔ t > (c : Int) := by
  simp [NV.Gen.C18.pass1Continues]

theorem pass1_cons_stop (s : Seg) (rest : List Seg) (t : Int) (P : List Seg) (h : ¬ t > (s.count : Int)) :
    pass1 (s :: rest) t P = some (P, t, s.file) := by
  have : ¬ ((s.count : Int) < t) := by omega
  simp [pass1, NV.Gen.C18.pass1Continues, this]

theorem pass1_cons_go (s b : Seg) (rest : List Seg) (t : Int) (P : List Seg) (h : t > (s.count : Int)) :
    pass1 (s :: b :: rest) t P = pass1 (b :: rest) (t - s.count) (P ++ [s]) := by
  have : (s.count : Int) < t := by omega
  simp [pass1, NV.Gen.C18.pass1Continues, this]

theorem pass1_skip (F : List Seg) : ∀ (s : Seg) (rest : List Seg) (t : Int) (P : List Seg), t > segTotal F →
    pass1 (F ++ s :: rest) t P = pass1 (s :: rest) (t - segTotal F) (P ++ F) := by
  induction F with
  | nil => intro s rest t P _; simp [segTotal]
  | cons a F' ih =>
    intro s rest t P h
    have hnn := segTotal_nonneg F'
    have hsplit : segTotal (a :: F') = a.count + segTotal F' := by simp [segTotal]
    have h1 : t > (a.count : Int) := by omega
    have hne : F' ++ s :: rest ≠ [] := by simp
    simp only [List.cons_append]
    cases hl : F' ++ s :: rest with
    | nil => exact absurd hl hne
    | cons b l' =>
      rw [pass1_cons_go a b l' t P h1, ← hl, ih s rest (t - a.count) (P ++ [a]) (by omega)]
      have harith : t - (a.count : Int) - segTotal F' = t - segTotal (a :: F') := by omega
      rw [harith]
      simp only [List.append_assoc, List.singleton_append]

/-- bridging lemma for the second pass as transcribed from the source: a segment in front of the one found counts
    exactly when it belongs to the same file, it is ADDED, and the loop visits the segments in front (`p2 < p1`) -/
theorem pass2_agrees (a b : Nat) :
    (NV.Gen.C18.pass2Adds a b = true ↔ a = b) ∧ NV.Gen.C18.pass2Sign = 1 ∧ NV.Gen.C18.pass2LoopOp = "<" := by
  refine ⟨by simp [NV.Gen.C18.pass2Adds], rfl, by decide⟩

theorem pass2_eq (P : List Seg) (f : Nat) : ∀ t : Int, pass2 P f t = t + segOf P f := by
  unfold pass2
  induction P with
  | nil => intro t; simp [segOf]
  | cons a r ih =>
    intro t
    simp only [List.foldl_cons]
    rw [ih]
    have hs : NV.Gen.C18.pass2Sign = 1 := (pass2_agrees 0 0).2.1
    by_cases h : a.file = f
    · have hb : NV.Gen.C18.pass2Adds a.file f = true := (pass2_agrees a.file f).1.2 h
      simp only [hb, hs, if_true]
      simp [h, segOf]; omega
    · have hb : NV.Gen.C18.pass2Adds a.file f = false := by
        cases hx : NV.Gen.C18.pass2Adds a.file f with
        | false => rfl
        | true => exact absurd ((pass2_agrees a.file f).1.1 hx) h
      simp only [hb, Bool.false_eq_true, if_false]
      simp [h, segOf]

/-- an absolute line that falls into segment `s` decodes to file `s.file`, continuing the earlier segments of
    that file -/
theorem translateAbs_at (F : List Seg) (s : Seg) (rest : List Seg) (abs : Int)
    (h1 : segTotal F < abs) (h2 : abs ≤ segTotal F + s.count) :
    translateAbs abs (F ++ s :: rest) = some (s.file, abs - segTotal F + segOf F s.file) := by
  unfold translateAbs
  rw [pass1_skip F s rest abs [] h1]
  have : ¬ (abs - segTotal F > (s.count : Int)) := by omega
  rw [pass1_cons_stop s rest _ _ this]
  simp only [List.nil_append]
  rw [pass2_eq]

/-! ## the lexer bookkeeping -/

theorem u16_id (n : Int) (h0 : 0 ≤ n) (h1 : n < (lineMod : Int)) : ((u16 n : Nat) : Int) = n := by
  unfold u16
  rw [Int.emod_eq_of_lt h0 h1]
  omega

theorem u16_nat (n : Nat) (h1 : n < lineMod) : u16 (n : Int) = n := by
  have := u16_id (n : Int) (by omega) (by omega)
  omega

/-- invariant of the lexer counters with respect to the table written so far -/
structure Inv (s : Lex) : Prop where
  hT : s.base + s.saved = segTotal s.fi
  hC : s.saved = segOf s.fi s.fileId
  hpos : s.saved < s.curLine
  hsv : 0 ≤ s.saved
  hstk : ∀ p ∈ s.stack, segOf s.fi p.2 = p.1 - 1
  hnot : s.fileId ∉ s.stack.map (·.2)
  hnd : (s.stack.map (·.2)).Nodup
  hid : s.fileId < lineMod
  hids : ∀ p ∈ s.stack, p.2 < lineMod

/-- file ids the compilation has used so far -/
def used (s : Lex) : List Nat := s.fileId :: (s.stack.map (·.2) ++ s.fi.map (·.file))

/-- every `#include` opens a file that was not used before in this compilation (and whose id fits 16 bits) -/
def Fresh : Lex → List LexEv → Prop
  | _, [] => True
  | s, .incl f :: rest => f ∉ used s ∧ f < lineMod ∧ Fresh (lexStep s (.incl f)) rest
  | s, .nl :: rest => Fresh (lexStep s .nl) rest
  | s, .eof :: rest => Fresh (lexStep s .eof) rest

theorem inv_init (f : Nat) (hf : f < lineMod) : Inv { fileId := f } := by
  constructor <;> simp [segTotal, segOf, hf]

theorem abs_ge (s : Lex) (hi : Inv s) : s.curLine - s.saved ≤ s.abs := by
  have := segTotal_nonneg s.fi
  have := hi.hT
  unfold Lex.abs
  omega

theorem segOf_not_mem (F : List Seg) (f : Nat) (h : f ∉ F.map (·.file)) : segOf F f = 0 := by
  induction F with
  | nil => simp [segOf]
  | cons a r ih =>
    simp only [List.map_cons, List.mem_cons, not_or] at h
    have h1 : ¬ a.file = f := fun e => h.1 e.symm
    have := ih h.2
    simp only [segOf, List.filter_cons, h1, decide_false] at this ⊢
    simpa using this

theorem inv_step (s : Lex) (e : LexEv) (hi : Inv s) (hb : s.abs < (lineMod : Int))
    (hf : Fresh s [e]) : Inv (lexStep s e) := by
  cases e with
  | nl =>
    have := hi.hpos
    exact { hi with hpos := by simp [lexStep]; omega }
  | incl f =>
    obtain ⟨hfu, hfl, _⟩ := hf
    simp only [used, List.mem_cons, List.mem_append, not_or] at hfu
    have hge := abs_ge s hi
    have hpos := hi.hpos
    have hsv := hi.hsv
    have hcnt : ((u16 (s.curLine + 1 - 1 - s.saved) : Nat) : Int) = s.curLine - s.saved := by
      rw [u16_id] <;> omega
    have hidn : u16 (s.fileId : Int) = s.fileId := u16_nat _ hi.hid
    constructor
    · simp only [lexStep, Lex.save, segTotal_append, segTotal_single, hcnt]
      have := hi.hT
      omega
    · simp only [lexStep, Lex.save, segOf_append, segOf_single, hidn]
      have h0 := segOf_not_mem s.fi f hfu.2.2
      have hne : ¬ s.fileId = f := fun e => hfu.1 e.symm
      simp [h0, hne]
    · simp [lexStep]
    · simp [lexStep]
    · intro p hp
      simp only [lexStep, Lex.save, List.mem_cons] at hp
      simp only [lexStep, Lex.save, segOf_append, segOf_single, hidn, hcnt]
      rcases hp with rfl | hp
      · simp only [if_true]
        have := hi.hC
        omega
      · have hne : ¬ s.fileId = p.2 := by
          intro e
          exact hi.hnot (by rw [e]; exact List.mem_map_of_mem hp)
        simp only [hne, if_false]
        have := hi.hstk p hp
        omega
    · simp only [lexStep, Lex.save, List.map_cons, List.mem_cons, not_or]
      exact ⟨hfu.1, hfu.2.1⟩
    · simp only [lexStep, Lex.save, List.map_cons, List.nodup_cons]
      exact ⟨hi.hnot, hi.hnd⟩
    · simpa [lexStep] using hfl
    · intro p hp
      simp only [lexStep, Lex.save, List.mem_cons] at hp
      rcases hp with rfl | hp
      · exact hi.hid
      · exact hi.hids p hp
  | eof =>
    cases hs : s.stack with
    | nil => simpa [lexStep, hs] using hi
    | cons top rest =>
      obtain ⟨l, fid⟩ := top
      have hge := abs_ge s hi
      have hpos := hi.hpos
      have hsv := hi.hsv
      have hcnt : ((u16 (s.curLine - s.saved) : Nat) : Int) = s.curLine - s.saved := by
        rw [u16_id] <;> omega
      have hidn : u16 (s.fileId : Int) = s.fileId := u16_nat _ hi.hid
      have htop : (l, fid) ∈ s.stack := by rw [hs]; exact List.mem_cons_self
      have hstop := hi.hstk (l, fid) htop
      have hnd := hi.hnd
      rw [hs] at hnd
      simp only [List.map_cons, List.nodup_cons] at hnd
      have hnot := hi.hnot
      rw [hs] at hnot
      simp only [List.map_cons, List.mem_cons, not_or] at hnot
      have hsegnn : 0 ≤ segOf s.fi fid := by
        unfold segOf
        have := segTotal_nonneg (s.fi.filter (fun s => s.file = fid))
        simpa [segTotal] using this
      constructor
      · simp only [lexStep, hs, Lex.save, segTotal_append, segTotal_single, hcnt]
        have := hi.hT
        omega
      · simp only [lexStep, hs, Lex.save, segOf_append, segOf_single, hidn]
        have hne : ¬ s.fileId = fid := hnot.1
        simp only [hne, if_false]
        simp only at hstop
        omega
      · simp only [lexStep, hs]; omega
      · simp only [lexStep, hs]
        simp only at hstop
        omega
      · intro p hp
        simp only [lexStep, hs, Lex.save] at hp
        simp only [lexStep, hs, Lex.save, segOf_append, segOf_single, hidn]
        have hp' : p ∈ s.stack := by rw [hs]; exact List.mem_cons_of_mem _ hp
        have hne : ¬ s.fileId = p.2 := by
          intro e
          exact hnot.2 (by rw [e]; exact List.mem_map_of_mem hp)
        simp only [hne, if_false]
        have := hi.hstk p hp'
        omega
      · simp only [lexStep, hs]
        exact hnd.1
      · simp only [lexStep, hs]
        exact hnd.2
      · simp only [lexStep, hs]
        exact hi.hids (l, fid) htop
      · intro p hp
        simp only [lexStep, hs] at hp
        exact hi.hids p (by rw [hs]; exact List.mem_cons_of_mem _ hp)

/-- the absolute line never decreases -/
theorem abs_step (s : Lex) (e : LexEv) : s.abs ≤ (lexStep s e).abs := by
  cases e with
  | nl => simp only [lexStep, Lex.abs]; omega
  | incl f => simp only [lexStep, Lex.abs, Lex.save]; omega
  | eof =>
    cases hs : s.stack with
    | nil => simp [lexStep, hs]
    | cons top rest =>
      obtain ⟨l, fid⟩ := top
      simp only [lexStep, hs, Lex.abs, Lex.save]
      omega

theorem abs_run (evs : List LexEv) : ∀ s : Lex, s.abs ≤ (lexRun s evs).abs := by
  induction evs with
  | nil => intro s; exact Int.le_refl _
  | cons e rest ih =>
    intro s
    simp only [lexRun, List.foldl_cons] at ih ⊢
    exact Int.le_trans (abs_step s e) (ih (lexStep s e))

/-- the table only grows -/
theorem fi_step (s : Lex) (e : LexEv) : ∃ X, (lexStep s e).fi = s.fi ++ X := by
  cases e with
  | nl => exact ⟨[], by simp [lexStep]⟩
  | incl f => exact ⟨_, by simp [lexStep, Lex.save]; rfl⟩
  | eof =>
    cases hs : s.stack with
    | nil => exact ⟨[], by simp [lexStep, hs]⟩
    | cons top rest =>
      obtain ⟨l, fid⟩ := top
      exact ⟨_, by simp [lexStep, hs, Lex.save]; rfl⟩

theorem fi_run (evs : List LexEv) : ∀ s : Lex, ∃ X, (lexFinish (lexRun s evs)).fi = s.fi ++ X := by
  induction evs with
  | nil => intro s; exact ⟨_, by simp [lexRun, lexFinish, Lex.save]; rfl⟩
  | cons e rest ih =>
    intro s
    obtain ⟨X, hX⟩ := fi_step s e
    obtain ⟨Y, hY⟩ := ih (lexStep s e)
    refine ⟨X ++ Y, ?_⟩
    simp only [lexRun, List.foldl_cons] at hY ⊢
    rw [hY, hX, List.append_assoc]

theorem fresh_head (s : Lex) (e : LexEv) (rest : List LexEv) (h : Fresh s (e :: rest)) :
    Fresh s [e] ∧ Fresh (lexStep s e) rest := by
  cases e with
  | nl => exact ⟨trivial, h⟩
  | eof => exact ⟨trivial, h⟩
  | incl f => exact ⟨⟨h.1, h.2.1, trivial⟩, h.2.2⟩

/-- the next segment that will be written is the one of the current file and it covers the current line -/
theorem next_seg (evs : List LexEv) : ∀ s : Lex, Inv s → Fresh s evs → (lexRun s evs).abs < (lineMod : Int) →
    ∃ n rest, (lexFinish (lexRun s evs)).fi = s.fi ++ (⟨n, s.fileId⟩ : Seg) :: rest ∧ s.curLine - s.saved ≤ (n : Int) := by
  induction evs with
  | nil =>
    intro s hi _ hb
    have hge := abs_ge s hi
    have hpos := hi.hpos
    have hsv := hi.hsv
    simp only [lexRun, List.foldl_nil] at hb
    have hcnt : ((u16 (s.curLine - s.saved) : Nat) : Int) = s.curLine - s.saved := by
      rw [u16_id] <;> omega
    refine ⟨u16 (s.curLine - s.saved), [], ?_, by omega⟩
    simp [lexRun, lexFinish, Lex.save, u16_nat _ hi.hid]
  | cons e rest ih =>
    intro s hi hf hb
    obtain ⟨hf1, hf2⟩ := fresh_head s e rest hf
    have hb' : (lexRun (lexStep s e) rest).abs < (lineMod : Int) := by simpa [lexRun] using hb
    have hbs : s.abs < (lineMod : Int) :=
      Int.lt_of_le_of_lt (Int.le_trans (abs_step s e) (abs_run rest (lexStep s e))) hb'
    have hge := abs_ge s hi
    have hpos := hi.hpos
    have hsv := hi.hsv
    have hrun : lexRun s (e :: rest) = lexRun (lexStep s e) rest := by simp [lexRun]
    rw [hrun]
    cases e with
    | nl =>
      obtain ⟨n, r, h1, h2⟩ := ih (lexStep s .nl) (inv_step s .nl hi hbs hf1) hf2 hb'
      refine ⟨n, r, ?_, ?_⟩
      · simpa [lexStep] using h1
      · simp [lexStep] at h2; omega
    | incl f =>
      obtain ⟨X, hX⟩ := fi_run rest (lexStep s (.incl f))
      have hcnt : ((u16 (s.curLine + 1 - 1 - s.saved) : Nat) : Int) = s.curLine - s.saved := by
        rw [u16_id] <;> omega
      refine ⟨u16 (s.curLine + 1 - 1 - s.saved), X, ?_, by omega⟩
      rw [hX]
      simp [lexStep, Lex.save, u16_nat _ hi.hid]
    | eof =>
      cases hs : s.stack with
      | nil =>
        have hst : lexStep s .eof = s := by simp [lexStep, hs]
        rw [hst] at hf2 hb' ⊢
        exact ih s hi hf2 hb'
      | cons top rest' =>
        obtain ⟨l, fid⟩ := top
        obtain ⟨X, hX⟩ := fi_run rest (lexStep s .eof)
        have hcnt : ((u16 (s.curLine - s.saved) : Nat) : Int) = s.curLine - s.saved := by
          rw [u16_id] <;> omega
        refine ⟨u16 (s.curLine - s.saved), X, ?_, by omega⟩
        rw [hX]
        simp [lexStep, hs, Lex.save, u16_nat _ hi.hid]

/-- the position of the lexer in state `s` decodes, against the table as it will be at the end of the compilation,
    to the current file and the current line -/
theorem roundtrip_from (evs : List LexEv) (s : Lex) (hi : Inv s) (hf : Fresh s evs)
    (hb : (lexRun s evs).abs < (lineMod : Int)) :
    translateAbs s.abs (lexFinish (lexRun s evs)).fi = some (s.fileId, s.curLine) := by
  obtain ⟨n, rest, hfi, hn⟩ := next_seg evs s hi hf hb
  rw [hfi]
  have hT := hi.hT
  have hC := hi.hC
  have hpos := hi.hpos
  rw [translateAbs_at s.fi ⟨n, s.fileId⟩ rest s.abs (by unfold Lex.abs; omega) (by unfold Lex.abs; simp only; omega)]
  simp only [Lex.abs]
  congr 2
  omega

theorem inv_run (evs : List LexEv) : ∀ s : Lex, Inv s → Fresh s evs → (lexRun s evs).abs < (lineMod : Int) →
    Inv (lexRun s evs) := by
  induction evs with
  | nil => intro s hi _ _; exact hi
  | cons e rest ih =>
    intro s hi hf hb
    obtain ⟨hf1, hf2⟩ := fresh_head s e rest hf
    have hb' : (lexRun (lexStep s e) rest).abs < (lineMod : Int) := by simpa [lexRun] using hb
    have hbs : s.abs < (lineMod : Int) :=
      Int.lt_of_le_of_lt (Int.le_trans (abs_step s e) (abs_run rest (lexStep s e))) hb'
    have := ih (lexStep s e) (inv_step s e hi hbs hf1) hf2 hb'
    simpa [lexRun] using this

theorem fresh_split (p : List LexEv) : ∀ (s : Lex) (q : List LexEv), Fresh s (p ++ q) → Fresh s p ∧ Fresh (lexRun s p) q := by
  induction p with
  | nil => intro s q h; exact ⟨trivial, h⟩
  | cons e rest ih =>
    intro s q h
    obtain ⟨h1, h2⟩ := fresh_head s e (rest ++ q) h
    obtain ⟨h3, h4⟩ := ih (lexStep s e) q h2
    refine ⟨?_, by simpa [lexRun] using h4⟩
    cases e with
    | nl => exact h3
    | eof => exact h3
    | incl f => exact ⟨h1.1, h1.2.1, h3⟩

end NV.C18
