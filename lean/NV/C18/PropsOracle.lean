/-
C18 — clause-level top theorems: the oracle's declarative meaning of a `file_info` table (`positions`, clause J6) against
the modelled decoder, for ALL tables.
-/
import NV.C18.Props

namespace NV.C18

open NV.Gen.C18

/-- how many lines of file `f` the oracle has seen so far -/
def seenCount (seen : List (Nat × Nat)) (f : Nat) : Nat :=
  match seen.find? (fun e => e.1 == f) with
  | some e => e.2
  | none => 0

theorem positionsGo_cons (n f : Nat) (rest seen : List (Nat × Nat)) :
    positionsGo ((n, f) :: rest) seen =
      (List.range n).map (fun i => (f, seenCount seen f + i + 1)) ++
        positionsGo rest ((f, seenCount seen f + n) :: seen) := by
  rfl

theorem seenCount_cons (f c : Nat) (seen : List (Nat × Nat)) (g : Nat) :
    seenCount ((f, c) :: seen) g = if f = g then c else seenCount seen g := by
  by_cases h : f = g
  · simp [seenCount, List.find?, h]
  · have : (f == g) = false := by simp [h]
    simp [seenCount, List.find?, this, h]

/-- the oracle's view of a table: (count, file) pairs -/
def pairsOf (F : List Seg) : List (Nat × Nat) := F.map fun s => (s.count, s.file)

/-- the oracle's position list, index by index: absolute line `a` lies in some segment `s` of the table, and its
    position is (file of `s`, lines of that file seen before + lines of that file in the earlier segments + offset) -/
theorem positionsGo_spec (F : List Seg) : ∀ (seen : List (Nat × Nat)) (a : Nat), 1 ≤ a → (a : Int) ≤ segTotal F →
    ∃ pre s rest, F = pre ++ s :: rest ∧ segTotal pre < (a : Int) ∧ (a : Int) ≤ segTotal pre + s.count ∧
      ((positionsGo (pairsOf F) seen)[a - 1]?).map (fun p => (p.1, (p.2 : Int))) =
        some (s.file, (seenCount seen s.file : Int) + segOf pre s.file + ((a : Int) - segTotal pre)) := by
  induction F with
  | nil =>
    intro seen a h1 h2
    simp [segTotal] at h2
    omega
  | cons s0 F' ih =>
    intro seen a h1 h2
    have hsplit : segTotal (s0 :: F') = s0.count + segTotal F' := by simp [segTotal]
    have hpg : positionsGo (pairsOf (s0 :: F')) seen =
        (List.range s0.count).map (fun i => (s0.file, seenCount seen s0.file + i + 1)) ++
          positionsGo (pairsOf F') ((s0.file, seenCount seen s0.file + s0.count) :: seen) := by
      simp only [pairsOf, List.map_cons]
      exact positionsGo_cons _ _ _ _
    by_cases hin : a ≤ s0.count
    · refine ⟨[], s0, F', rfl, by simp [segTotal]; omega, by simp [segTotal]; omega, ?_⟩
      rw [hpg]
      have hlt : a - 1 < ((List.range s0.count).map (fun i => (s0.file, seenCount seen s0.file + i + 1))).length := by
        simp; omega
      rw [List.getElem?_append_left hlt]
      simp only [List.getElem?_map, List.getElem?_range (by omega : a - 1 < s0.count), Option.map_some]
      simp only [segOf, segTotal, List.filter_nil, List.map_nil, List.sum_nil]
      congr 2
      omega
    · have hgt : s0.count < a := by omega
      have hnn := segTotal_nonneg F'
      obtain ⟨pre, s, rest, hF, hlo, hhi, hval⟩ :=
        ih ((s0.file, seenCount seen s0.file + s0.count) :: seen) (a - s0.count) (by omega) (by omega)
      refine ⟨s0 :: pre, s, rest, by rw [hF]; rfl, ?_, ?_, ?_⟩
      · have : segTotal (s0 :: pre) = s0.count + segTotal pre := by simp [segTotal]
        omega
      · have : segTotal (s0 :: pre) = s0.count + segTotal pre := by simp [segTotal]
        omega
      · rw [hpg]
        have hlen : ((List.range s0.count).map (fun i => (s0.file, seenCount seen s0.file + i + 1))).length = s0.count := by
          simp
        rw [List.getElem?_append_right (by rw [hlen]; omega), hlen]
        have hidx : a - 1 - s0.count = a - s0.count - 1 := by omega
        rw [hidx, hval]
        have h1' : segTotal (s0 :: pre) = s0.count + segTotal pre := by simp [segTotal]
        have h2' : segOf (s0 :: pre) s.file = (if s0.file = s.file then (s0.count : Int) else 0) + segOf pre s.file := by
          have := segOf_append [s0] pre s.file
          rw [segOf_single] at this
          simpa using this
        rw [h1', h2', seenCount_cons]
        by_cases hf : s0.file = s.file
        · simp only [hf, if_true]
          congr 2
          push_cast
          omega
        · simp only [hf, if_false]
          congr 2
          push_cast
          omega

/-- **translate_eq_positions** (oracle clause J6 against the modelled decoder, for ALL tables).  For EVERY `file_info`
table — any number of segments, any counts (zero-length segments included), any file ids, the same id any number of
times — and EVERY absolute line `1 ≤ a ≤ total`, the modelled `translate_absolute_line` (first pass with the guard
transcribed from the source, second pass) returns exactly the source position the specification oracle assigns to
that line (`positions`: a segment of `n` lines of file `f` continues `f` where it was left).  Hence `judgeTra` never
reports a mismatch on the model decoder's answers: clause J6 of the top theorem. -/
theorem translate_eq_positions (F : List Seg) (a : Nat) (h1 : 1 ≤ a) (h2 : (a : Int) ≤ segTotal F) :
    translateAbs (a : Int) F = ((positions (pairsOf F))[a - 1]?).map (fun p => (p.1, (p.2 : Int))) := by
  obtain ⟨pre, s, rest, hF, hlo, hhi, hval⟩ := positionsGo_spec F [] a h1 h2
  unfold positions
  rw [hval, hF, translateAbs_at pre s rest (a : Int) hlo hhi]
  simp [seenCount]
  omega

/-- non-vacuity: the table of a header included twice under ONE id (what the code did before the fix): the oracle
and the decoder agree on every line — the defect was in the encoder's choice of ids, which J1/J5 see -/
example :
    let F : List Seg := [⟨2, 1⟩, ⟨3, 2⟩, ⟨0, 1⟩, ⟨3, 2⟩, ⟨2, 1⟩]
    segTotal F = 10 ∧ positions (pairsOf F) = [(1, 1), (1, 2), (2, 1), (2, 2), (2, 3), (2, 4), (2, 5), (2, 6), (1, 3), (1, 4)] ∧
    translateAbs 6 F = some (2, 4) ∧ translateAbs 9 F = some (1, 3) := by
  decide

end NV.C18
