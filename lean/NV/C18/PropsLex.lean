/-
C18 — tie of the lexer model to the source: the line arithmetic of `#include` (directive + `handle_include`), of the
include pop in `yylex`, of the final `save_file_info` and of `new_node` is TRANSCRIBED statement by statement from the
C source on every run (`NV.Gen.C18.lexPushGen`, `lexPopGen`, `lexFinalGen`, `nodeLineGen`: assignments applied in source
order).  The obligations below say that the hand-written model `lexStep` / `lexFinish` / `Lex.abs` — about which
`file_roundtrip` and `compile_roundtrip` are proved — computes exactly what the transcribed statements compute, for
every state.  An edited constant, operator, operand or statement order in those C lines changes the generated functions
and breaks these obligations (the check then searches for a failing input through J1/J6/J7).
-/
import NV.C18.Props

namespace NV.C18

open NV.Gen.C18

/-- `#include`: yylex's `current_line++`, then `handle_include` -/
theorem lex_push_agrees (s : Lex) (f : Nat) :
    let g := lexPushGen s.curLine s.saved s.base s.fileId f
    let t := lexStep s (.incl f)
    t.curLine = g.2.2.2.2.1 ∧ t.saved = g.2.2.2.2.2.1 ∧ t.base = g.2.2.2.2.2.2.1 ∧ (t.fileId : Int) = g.2.2.2.2.2.2.2 ∧
    t.stack = (g.2.2.1, s.fileId) :: s.stack ∧ (s.fileId : Int) = g.2.2.2.1 ∧
    t.fi = s.fi ++ [⟨u16 g.2.1, u16 g.1⟩] := by
  intro g t
  refine ⟨?_, ?_, ?_, ?_, ?_, ?_, ?_⟩ <;> simp only [g, t, lexPushGen, lexStep, Lex.save]

/-- end of an included file -/
theorem lex_pop_agrees (s : Lex) (l : Int) (fid : Nat) (rest : List (Int × Nat)) (hs : s.stack = (l, fid) :: rest) :
    let g := lexPopGen s.curLine s.saved s.base s.fileId l fid
    let t := lexStep s .eof
    t.curLine = g.2.2.1 ∧ t.saved = g.2.2.2.1 ∧ t.base = g.2.2.2.2.1 ∧ (t.fileId : Int) = g.2.2.2.2.2 ∧
    t.stack = rest ∧ t.fi = s.fi ++ [⟨u16 g.2.1, u16 g.1⟩] := by
  intro g t
  refine ⟨?_, ?_, ?_, ?_, ?_, ?_⟩ <;> simp only [g, t, lexPopGen, lexStep, hs, Lex.save]

/-- `i_generate_final_program` -/
theorem lex_final_agrees (s : Lex) :
    let g := lexFinalGen s.curLine s.saved s.fileId
    (lexFinish s).fi = s.fi ++ [⟨u16 g.2, u16 g.1⟩] := by
  simp [lexFinalGen, lexFinish, Lex.save]

/-- `new_node`: the absolute line a parse node carries (before the `(short)` cast) -/
theorem node_line_agrees (s : Lex) : s.abs = nodeLineGen s.curLine s.base := by
  simp [Lex.abs, nodeLineGen]

end NV.C18
