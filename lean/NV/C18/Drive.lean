/-
C18 driver.

`model` mode: the case body is  <case line>* / -- / <implementation output line>* .  The observations that are
INPUTS of the modelled functions are echoed (`ev` hook events, `fn` function tables, `cs` control stack and
registers, `r` results) and everything the modelled functions COMPUTE is recomputed:
   tab  = tables produced by the MODEL encoder replaying the `ev` events       (byte for byte)
   dec  = MODEL decoder on the dumped real tables, for every code offset
   eh   = MODEL `mudlib_error_handler`/`get_svalue_trace` on the dumped control stack and tables
so the output equals the implementation's output iff model and code agree.

`judge` mode: `expect` lines of the case + implementation output -> `judgeEv`.
-/
import NV.Common.Proto
import NV.C18.Model
import NV.C18.Spec
import NV.C18.OracleTests

namespace NV.C18

open NV.Proto

/-! ## parsing helpers -/

def kv? (ts : List String) (key : String) : Option String :=
  (ts.find? (fun t => t.startsWith (key ++ "="))).map (fun t => (t.drop (key.length + 1)).toString)

def natD (s : String) : Nat := s.toNat?.getD 0
def intD (s : String) : Int := s.toInt?.getD 0

def parsePairs (s : String) : List (Nat × Nat) :=
  if s == "-" || s == "" then [] else
  (s.splitOn ",").filterMap fun p =>
    match p.splitOn ":" with
    | [a, b] => some (natD a, natD b)
    | _ => none

def parseNames (s : String) : List (Nat × String) :=
  if s == "-" || s == "" then [] else
  (s.splitOn ",").filterMap fun p =>
    match p.splitOn ":" with
    | a :: rest => some (natD a, ":".intercalate rest)
    | _ => none

def parseCEv (t : String) : Option CEv :=
  match t.splitOn ":" with
  | ["b"] => some .begin
  | ["s", l, a, b] => some (.sw (intD l) (intD a) (natD b))
  | ["f", f, n] => some (.fi (intD f) (intD n))
  | "a" :: f :: rest => some (.addFile (natD f) (":".intercalate rest))
  | ["i", b, s] => some (.init (natD b) (natD s))
  | ["r", l, a, _] => some (.replay (intD l) (intD a))
  | ["e", p] => some (.fin (intD p))
  | _ => none

def parseNEv (t : String) : Option NEv :=
  match t.splitOn ":" with
  | ["n", l, a, b, c] => some (.visit (intD l) (intD a) (natD b) (natD c))
  | ["x", l, a, b] => some (.other (intD l) (intD a) (natD b))
  | ["i", b, _] => some (.init (natD b))
  | _ => none

def parseTab (ts : List String) : Tab :=
  if ts.contains "none" then { psize := natD ((kv? ts "psize").getD "0"), noInfo := true } else
  { psize := natD ((kv? ts "psize").getD "0"),
    fi := (parsePairs ((kv? ts "fi").getD "-")).map (fun p => ⟨p.1, p.2⟩),
    li := (parsePairs ((kv? ts "li").getD "-")).map (fun p => ⟨p.1, p.2⟩),
    names := parseNames ((kv? ts "files").getD "-"),
    sizeField := natD ((((kv? ts "hdr").getD "0:0").splitOn ":").headD "0") }

def parseDecRuns (ts : List String) : List (Nat × String) :=
  ts.filterMap fun t =>
    match t.splitOn "*" with
    | n :: rest => some (natD n, "*".intercalate rest)
    | _ => none

def parseTraRuns (ts : List String) : List (Nat × Option (Nat × Int)) :=
  ts.filterMap fun t =>
    match t.splitOn "*" with
    | [n, "-"] => some (natD n, none)
    | [n, fl] =>
      match fl.splitOn ":" with
      | [f, l] => some (natD n, some (natD f, intD l))
      | _ => none
    | _ => none

def parseTraceEnt (s : String) : Option TraceEnt :=
  match s.splitOn "@" with
  | [fn, p, o, f, l] => some ⟨fn, p, o, f, intD l⟩
  | _ => none

def parseRange (s : String) : Int × Int :=
  -- lo-hi with non-negative bounds
  match s.splitOn "-" with
  | [a, b] => (intD a, intD b)
  | [a] => (intD a, intD a)
  | _ => (0, -1)

def parseExpEnt (s : String) : Option ExpEnt :=
  match s.splitOn "@" with
  | [fn, p, o, f, r] => let (lo, hi) := parseRange r; some ⟨fn, p, o, f, lo, hi⟩
  | _ => none

def parseExpect (ts : List String) : Expect :=
  let (lo, hi) := parseRange ((kv? ts "lines").getD "0")
  let tr := (kv? ts "trace").getD "-"
  { kind := (kv? ts "kind").getD "plain", phase := (kv? ts "phase").getD (if (kv? ts "kind").getD "plain" == "init" then "load" else "call"), file := (kv? ts "file").getD "", lo := lo, hi := hi,
    program := (kv? ts "program").getD "", object := (kv? ts "object").getD "",
    trace := if tr == "-" then [] else (tr.splitOn "|").filterMap parseExpEnt }

def parseEh (ts : List String) : EhRec :=
  let tr := (kv? ts "trace").getD "-"
  { caught := natD ((kv? ts "caught").getD "0"), error := (kv? ts "error").getD "",
    file := (kv? ts "file").getD "", line := intD ((kv? ts "line").getD "0"),
    program := (kv? ts "program").getD "", object := (kv? ts "object").getD "",
    trace := if tr == "-" then [] else (tr.splitOn "|").filterMap parseTraceEnt }

def parseObs (line : String) : Obs :=
  match toks line with
  | "eh" :: ts => .eh (parseEh ts)
  | "ev" :: p :: ts => .ev p (ts.filterMap parseCEv)
  | "tab" :: p :: _ => .tab p line
  | "dec" :: p :: ts => .dec p (parseDecRuns ts)
  | "tra" :: p :: ts => .tra p (parseTraRuns ts)
  | ["dt", ret, body] => .dt ((ret.drop 4).toString) (if body == "-" then [] else body.splitOn "|")
  | ["dta", body] => .dta (if body == "-" then [] else body.splitOn "|") none
  | ["dta", body, inner] =>
    .dta (if body == "-" then [] else body.splitOn "|")
      (match ((inner.drop 6).toString).splitOn ":" with
       | [a, l, d] => some (intD a, intD l, intD d)
       | _ => none)
  | ["ce", t] => .ce t
  | ["cst", f, p, o] =>
    let lst (t : String) (n : Nat) : List String := let b := (t.drop n).toString; if b == "-" then [] else b.splitOn ","
    .cst (lst f 4) (lst p 6) (lst o 4)
  | ["r", "load", _, "!fail"] => .loadFail
  | "crash" :: _ => .crash line
  | "sanitizer" :: _ => .crash line
  | _ => .other

/-! ## rendering -/

def renderPairs (ps : List (Nat × Nat)) : String :=
  if ps.isEmpty then "-" else ",".intercalate (ps.map fun p => s!"{p.1}:{p.2}")

def distinctFiles (fi : List Seg) : List Nat :=
  fi.foldl (fun acc s => if acc.contains s.file then acc else acc ++ [s.file]) []

def renderTab (prog : String) (st : Enc) : String :=
  let fi := st.fi
  let files := distinctFiles fi
  let nm (f : Nat) : String :=
    match st.names.find? (fun e => e.1 == f) with
    | some e => e.2
    | none => "?"
  let fs := if files.isEmpty then "-" else ",".intercalate (files.map fun f => s!"{f}:{nm f}")
  s!"tab {prog} psize={st.psize} hdr={sizeFieldOf fi.length st.li.length}:{lnoffOf fi.length % hdrMod} fi={renderPairs (fi.map fun s => (s.count, s.file))} li={renderPairs (st.li.map fun r => (r.len, r.line))} files={fs}"

def rle (xs : List String) : List (Nat × String) :=
  (xs.foldl (fun (acc : List (Nat × String)) x =>
    match acc with
    | (n, y) :: rest => if x == y then (n + 1, y) :: rest else (1, x) :: acc
    | [] => [(1, x)]) []).reverse

def renderDecLine (prog : String) (t : Tab) : String :=
  let texts := (List.range (t.psize + 1)).map fun (off : Nat) => renderDec t (findLine t (off : Int))
  let body := " ".intercalate ((rle texts).map fun p => s!"{p.1}*{p.2}")
  s!"dec {prog} {body}"

/-- the MODEL `translate_absolute_line` for every absolute line 0 … total+2 of a dumped table, compressed like the
    harness does -/
def traCompress (xs : List (Option (Nat × Int))) : List (Nat × Option (Nat × Int)) :=
  (xs.foldl (fun (acc : List (Nat × Option (Nat × Int))) x =>
    match acc, x with
    | (n, none) :: rest, none => (n + 1, none) :: rest
    | (n, some (f, l)) :: rest, some (f', l') =>
      if f' = f ∧ l' = l + (n : Int) then (n + 1, some (f, l)) :: rest else (1, x) :: acc
    | _, _ => (1, x) :: acc) []).reverse

def renderTraLine (prog : String) (t : Tab) : String :=
  let total := (t.fi.map (·.count)).sum
  let xs := (List.range (total + 3)).map fun (a : Nat) => translateAbs (a : Int) t.fi
  let body := " ".intercalate ((traCompress xs).map fun p =>
    match p.2 with
    | none => s!"{p.1}*-"
    | some (f, l) => s!"{p.1}*{f}:{l}")
  s!"tra {prog} {body}"

def renderOb (o : String) : String := if o == "-" then "0" else "/" ++ o
def renderProg (p : String) : String := if p == "-" then "0" else p

def renderEh (caught : String) (err : String) (e : ErrInfo) : String :=
  let tr := if e.trace.isEmpty then "-" else
    "|".intercalate (e.trace.map fun t => s!"{t.fn}@{t.prog}@{renderOb t.ob}@{t.file}@{t.line}")
  s!"eh caught={caught} error={err} file={e.file} line={e.line} program={renderProg e.program} object={renderOb e.object} trace={tr}"

/-! ## model mode -/

structure MState where
  evs : List (String × List CEv) := []
  world : World := {}
  machine : Option (Machine × String × String) := none   -- machine, caught, err
  counts : List (Int × Int) := []                        -- num_arg / num_local per control stack element
  nvs : List (String × List NEv) := []                   -- node visits per program
  room : Int := 0                                        -- sp - fp at the moment of the error
  out : List String := []

def parseCsEntry (t : String) : Option CsEntry :=
  match t.splitOn ":" with
  | [k, i, p, o, pc] => some ⟨natD k, natD i, p, o, intD pc⟩
  | [k, i, p, o, pc, _, _] => some ⟨natD k, natD i, p, o, intD pc⟩
  | _ => none

def parseCsCounts (t : String) : Option (Int × Int) :=
  match t.splitOn ":" with
  | [_, _, _, _, _] => some (-1, -1)
  | [_, _, _, _, _, a, l] => some (intD a, intD l)
  | _ => none

def parseCs (ts : List String) : Machine × String × String :=
  let caught := (kv? ts "caught").getD "0"
  let err := (kv? ts "err").getD ""
  let cur := match ((kv? ts "cur").getD "-:-:-1").splitOn ":" with
    | [p, o, pc] => (⟨p, o, intD pc⟩ : Regs)
    | _ => ⟨"-", "-", -1⟩
  let ents := ts.filterMap fun t => if t.contains '=' then none else parseCsEntry t
  ({ cs := ents, cur := cur }, caught, err)

def setAssoc {α : Type} (xs : List (String × α)) (k : String) (v : α) : List (String × α) :=
  (k, v) :: xs.filter (fun e => e.1 != k)

def modelLine (st : MState) (line : String) : MState :=
  match toks line with
  | "ev" :: p :: ts =>
    { st with evs := setAssoc st.evs p (ts.filterMap parseCEv), out := line :: st.out }
  | "nv" :: p :: ts =>
    { st with nvs := setAssoc st.nvs p (ts.filterMap parseNEv), out := line :: st.out }
  | "sw" :: p :: _ =>
    match st.nvs.find? (fun e => e.1 == p) with
    | some e =>
      let calls := (nodeRun e.2).2.reverse                       -- MODEL i_generate_node on the visited nodes
      let body := if calls.isEmpty then "-" else " ".intercalate (calls.map fun c => s!"{c.1}:{c.2.1}:{c.2.2}")
      { st with out := s!"sw {p} {body}" :: st.out }
    | none => { st with out := s!"sw {p} !nonv" :: st.out }
  | "fn" :: p :: ns :: _ =>
    let names := if ns == "-" then [] else ns.splitOn ","
    { st with world := { st.world with fns := setAssoc st.world.fns p names }, out := line :: st.out }
  | "tab" :: p :: ts =>
    let t := parseTab ts
    let st := { st with world := { st.world with tabs := setAssoc st.world.tabs p t } }
    match st.evs.find? (fun e => e.1 == p) with
    | some e => { st with out := renderTab p (encRun e.2) :: st.out }     -- MODEL encoder on the events
    | none => { st with out := line :: st.out }                           -- compiled before the hook / from a binary
  | "tra" :: p :: _ =>
    match st.world.tab? p with
    | some t => { st with out := renderTraLine p t :: st.out }           -- MODEL translate_absolute_line, every line
    | none => { st with out := s!"tra {p} !notab" :: st.out }
  | "dec" :: p :: _ =>
    match st.world.tab? p with
    | some t => { st with out := renderDecLine p t :: st.out }           -- MODEL decoder on the real tables
    | none => { st with out := s!"dec {p} !notab" :: st.out }
  | "cst" :: _ =>
    -- what call_stack() returned in the frame that fails next: predicted from the control stack of that error
    { st with out := "\x01cst" :: st.out }
  | "cs" :: ts =>
    { st with machine := some (parseCs ts), out := line :: st.out,
              counts := ts.filterMap fun t => if t.contains '=' then none else parseCsCounts t,
              room := intD ((kv? ts "room").getD "0") }
  | "dt" :: _ =>
    match st.machine with
    | some (m, _, _) =>
      let ls := dumpTrace st.world m                                     -- MODEL dump_trace (0)
      { st with out := s!"dt ret={dumpTraceRet st.world m} {if ls.isEmpty then "-" else "|".intercalate ls}" :: st.out }
    | none => { st with out := "dt !nocs" :: st.out }
  | "dta" :: _ =>
    match st.machine with
    | some (m, _, _) =>
      let ls := dumpTraceArgs m st.counts st.room                        -- MODEL dump_trace (ARGS | LOCALVARS)
      let inner := (st.counts.getLast?).getD (-1, -1)
      { st with out := s!"dta {if ls.isEmpty then "-" else "|".intercalate ls} inner={inner.1}:{inner.2}:{st.room}" :: st.out }
    | none => { st with out := "dta !nocs" :: st.out }
  | "ce" :: _ => { st with out := line :: st.out }
  | "eh" :: _ =>
    match st.machine with
    | some (m, caught, err) =>
      -- a pending call_stack() observation of this failing frame: predicted now that the function tables are known
      let join (xs : List String) : String := if xs.isEmpty then "-" else ",".intercalate xs
      let pred := s!"cst fns={join (callStackFns st.world m)} progs={join (callStackProgs m)} obs={join ((callStackObs m).map fun o => if o == "-" then "0" else "/" ++ o)}"
      let out := st.out.map fun l => if l == "\x01cst" then pred else l
      { st with out := renderEh caught err (errInfo st.world m) :: out }
    | none => { st with out := "eh !nocs" :: st.out }
  | "r" :: _ => { st with out := line :: st.out }
  | "dump" :: _ => { st with out := line :: st.out }
  | _ => st            -- crash / sanitizer / badcmd lines are never predicted

def runModel (body : List String) : List String :=
  let (_input, impl) := splitJudge body
  (impl.foldl modelLine {}).out.reverse

/-! ## judge mode -/

def runJudge (body : List String) : List String :=
  let (input, impl) := splitJudge body
  let exps := input.filterMap fun l =>
    match toks l with
    | "expect" :: ts => some (parseExpect ts)
    | _ => none
  let ces := input.filterMap fun l =>
    match toks l with
    | "expectce" :: ts => some ({ file := (kv? ts "file").getD "", line := intD ((kv? ts "line").getD "0"),
                                  text := (kv? ts "text").getD "" } : ExpectCe)
    | _ => none
  let has (w : String) := input.any fun l => l.startsWith w
  -- a case without its set-up lines is not an observation about C18 (keeps the shrinker honest)
  -- every source file the records name must be written by the case itself (the simul_efun object is part of the mudlib)
  let named := exps.flatMap fun e => [e.file, e.program] ++ e.trace.flatMap fun t => [t.file, t.prog]
  let missing := named.any fun n => n != "" && !n.startsWith "c18/simul_efun" && !(has ("file /" ++ n ++ " "))
  if missing || (has "load " && !has "file ") || ((!exps.isEmpty || !ces.isEmpty) && !has "load ") then
    ["bad setup incomplete-case"] else
  match judgeEv exps (impl.map parseObs) ces with
  | [] => ["ok"]
  | vs => vs.map (fun v => s!"bad {v}")

def main (mode : String) : IO Unit :=
  match mode with
  | "model" => serve runModel
  | "judge" => serve runJudge
  | "selftest" =>
    let bad := (OracleTests.tests.zipIdx.filter (fun p => !p.1)).map (·.2)
    IO.println (if bad.isEmpty then s!"selftest ok {OracleTests.tests.length}" else s!"selftest FAILED {bad}")
  | _ => IO.eprintln s!"C18: unknown mode {mode}"

end NV.C18
