/-
C18 — frozen copies of the source regions tied in the extend round (dump_trace, get_trace_details, get_line_number,
pop_control_stack, the frame set-up, the line of an inherited initialiser call); compared with the regenerated texts of
NV/Gen/C18.lean by the obligation `source_statements_agree2`.
-/
import NV.Gen.C18

namespace NV.C18

open NV.Gen.C18

def expDumpTrace : List String := [
  "char *ret = 0",
  "int num_arg = -1, num_local = -1",
  "if (current_prog == 0)",
  "return 0",
  "if (csp < &control_stack[0])",
  "return 0",
  "for (p = &control_stack[0]; p < csp; p++)",
  "switch (p[0].framekind & FRAME_MASK)",
  "case FRAME_FUNCTION:",
  "get_trace_details (p[1].prog, p[0].fr.table_index, &ftd)",
  "num_arg = ftd.num_arg",
  "num_local = ftd.num_local",
  "log_message (NULL, \"\\t%s() at %s, in program /%s (object %s)\\n\", ftd.name,",
  "get_line_number (p[1].pc, p[1].prog), p[1].prog->name, p[1].ob->name)",
  "if (strcmp (ftd.name, \"heart_beat\") == 0)",
  "ret = p[1].ob ? p[1].ob->name : 0",
  "case FRAME_FUNP:",
  "log_message (NULL, \"\\t(function) at %s, in program /%s (object %s)\\n\",",
  "get_line_number (p[1].pc, p[1].prog), p[1].prog->name, p[1].ob->name)",
  "num_arg = p[0].fr.funp->f.functional.num_arg",
  "num_local = p[0].fr.funp->f.functional.num_local",
  "case FRAME_FAKE:",
  "log_message (NULL, \"\\t(function) at %s, in program /%s (object %s)\\n\",",
  "get_line_number (p[1].pc, p[1].prog), p[1].prog->name, p[1].ob->name)",
  "num_arg = -1",
  "case FRAME_CATCH:",
  "log_message (NULL, \"\\t(catch) at %s, in program /%s (object %s)\\n\",",
  "get_line_number (p[1].pc, p[1].prog), p[1].prog->name, p[1].ob->name)",
  "num_arg = -1",
  "if ((how & DUMP_WITH_ARGS) && (num_arg != -1))",
  "if ((how & DUMP_WITH_LOCALVARS) && num_local > 0 && num_arg != -1)",
  "switch (p[0].framekind & FRAME_MASK)",
  "case FRAME_FUNCTION:",
  "get_trace_details (current_prog, p[0].fr.table_index, &ftd)",
  "num_arg = ftd.num_arg",
  "num_local = ftd.num_local",
  "log_message (NULL, \"\\t%s() at %s, in program /%s (object %s)\\n\", ftd.name,",
  "get_line_number (pc, current_prog), current_prog->name, current_object ? current_object->name : \"<none>\")",
  "case FRAME_FUNP:",
  "log_message (NULL, \"\\t(function) at %s, in program /%s (object %s)\\n\",",
  "get_line_number (pc, current_prog), current_prog->name, current_object->name)",
  "num_arg = p[0].fr.funp->f.functional.num_arg",
  "num_local = p[0].fr.funp->f.functional.num_local",
  "case FRAME_FAKE:",
  "log_message (NULL, \"\\t(function) at %s, in program /%s (object %s)\\n\",",
  "get_line_number (pc, current_prog), current_prog->name, current_object->name)",
  "num_arg = -1",
  "case FRAME_CATCH:",
  "log_message (NULL, \"\\t(catch) at %s, in program /%s (object %s)\\n\",",
  "get_line_number (pc, current_prog), current_prog->name, current_object->name)",
  "num_arg = -1",
  "if (num_arg != -1 && fp + num_arg + num_local - 1 > sp)",
  "num_arg = -1",
  "if ((how & DUMP_WITH_ARGS) && (num_arg != -1))",
  "if ((how & DUMP_WITH_LOCALVARS) && num_local > 0 && num_arg != -1)"]

def expTraceDetails : List String := [
  "static void get_trace_details (const program_t* prog, int index, function_trace_details_t* ftd) {",
  "compiler_function_t *cfp = &prog->function_table[index]",
  "runtime_function_u *func_entry = FIND_FUNC_ENTRY (prog, cfp->runtime_index)",
  "if (ftd)",
  "ftd->name = cfp->name",
  "ftd->program_offset = cfp->address",
  "ftd->num_arg = func_entry->def.num_arg",
  "ftd->num_local = func_entry->def.num_local"]

def expGetLineNumber : List String := [
  "char* get_line_number (const char *p, const program_t * progp) {",
  "static char buf[PATH_MAX + 32]",
  "int i",
  "char *file = \"???\"",
  "int line = -1",
  "i = find_line (p, progp, &file, &line)",
  "switch (i)",
  "case 1:",
  "strcpy (buf, \"(no program)\")",
  "return buf",
  "case 2:",
  "*buf = 0",
  "return buf",
  "case 3:",
  "strcpy (buf, \"(compiled program)\")",
  "return buf",
  "case 4:",
  "strcpy (buf, \"(no line numbers)\")",
  "return buf",
  "case 5:",
  "strcpy (buf, \"(includes too deep)\")",
  "return buf",
  "if (!file)",
  "file = progp->name",
  "snprintf (buf, sizeof buf, \"/%s:%d\", file, line)",
  "return buf"]

def expPopControl : List String := [
  "current_object = csp->ob",
  "current_prog = csp->prog",
  "pc = csp->pc"]

def expSetupFrame : List String := [
  "csp->fr.table_index = findex"]

def expInheritedInit : List String := [
  "switch_to_line ((short)(current_line_base + current_line))"]

/-- **source_statements_agree2**: the regions tied in the extend round still read as they did when the model was written -/
theorem source_statements_agree2 :
    srcDumpTrace = expDumpTrace ∧
    srcTraceDetails = expTraceDetails ∧
    srcGetLineNumber = expGetLineNumber ∧
    srcPopControl = expPopControl ∧
    srcSetupFrame = expSetupFrame ∧
    srcInheritedInit = expInheritedInit := by
  refine ⟨?_, ?_, ?_, ?_, ?_, ?_⟩ <;> rfl

end NV.C18
