/-
C18 — helper lemmas: file ids as `program_file_id` allocates them are always fresh, so the round trip of
NV/C18/LemmasFile.lean holds for EVERY include layout (repeated and recursive inclusion included).
-/
import NV.C18.Model
import NV.C18.LemmasFile

namespace NV.C18

/-- the id-level events the lexer bookkeeping sees -/
def evOf (s : LexN) : LexEvN → List LexEv
  | .nl => [.nl]
  | .eof => [.eof]
  | .store _ => []
  | .incl name => [.incl (lexStepN s (.incl name)).lex.fileId]

def idsOf : LexN → List LexEvN → List LexEv
  | _, [] => []
  | s, e :: rest => evOf s e ++ idsOf (lexStepN s e) rest

theorem step_lex (s : LexN) (e : LexEvN) : (lexStepN s e).lex = lexRun s.lex (evOf s e) := by
  cases e with
  | nl => simp [lexStepN, evOf, lexRun]
  | store n => simp [lexStepN, evOf, lexRun]
  | incl n => simp [lexStepN, evOf, lexRun, lexStep]
  | eof => cases h : s.nameStack <;> simp [lexStepN, evOf, lexRun, h]

theorem lexRun_append (s : Lex) (a b : List LexEv) : lexRun s (a ++ b) = lexRun (lexRun s a) b := by
  simp [lexRun, List.foldl_append]

theorem run_lex (evs : List LexEvN) : ∀ s : LexN, (lexRunN s evs).lex = lexRun s.lex (idsOf s evs) := by
  induction evs with
  | nil => intro s; rfl
  | cons e rest ih =>
    intro s
    have h := ih (lexStepN s e)
    simp only [lexRunN, List.foldl_cons, idsOf] at h ⊢
    rw [h, step_lex, lexRun_append]

theorem idsOf_append (p : List LexEvN) : ∀ (s : LexN) (q : List LexEvN),
    idsOf s (p ++ q) = idsOf s p ++ idsOf (lexRunN s p) q := by
  induction p with
  | nil => intro s q; rfl
  | cons e rest ih =>
    intro s q
    simp only [List.cons_append, idsOf, lexRunN, List.foldl_cons, List.append_assoc]
    rw [ih]
    rfl

/-! ## the string table only grows -/

theorem storeStr_len (tbl : List Nat) (n : Nat) : tbl.length ≤ (storeStr tbl n).2.length := by
  unfold storeStr
  cases lastIdx tbl n <;> simp

theorem storeStr_id_le (tbl : List Nat) (n : Nat) : (storeStr tbl n).1 ≤ (storeStr tbl n).2.length := by
  unfold storeStr
  cases h : lastIdx tbl n with
  | none => simp
  | some i =>
    simp only
    unfold lastIdx at h
    have := List.mem_of_find?_eq_some h
    simp at this
    omega

theorem fileIdFor_len (fi : List Seg) (tbl : List Nat) (n : Nat) : tbl.length ≤ (fileIdFor fi tbl n).2.length := by
  have := storeStr_len tbl n
  unfold fileIdFor
  by_cases h : (fi.any fun s => s.file == u16 ((storeStr tbl n).1 : Int)) = true
  · simp [h]; omega
  · simp [h]; omega

theorem fileIdFor_id_le (fi : List Seg) (tbl : List Nat) (n : Nat) :
    (fileIdFor fi tbl n).1 ≤ (fileIdFor fi tbl n).2.length := by
  have := storeStr_id_le tbl n
  unfold fileIdFor
  by_cases h : (fi.any fun s => s.file == u16 ((storeStr tbl n).1 : Int)) = true
  · simp [h]
  · simp [h]; omega

theorem tbl_step (s : LexN) (e : LexEvN) : s.tbl.length ≤ (lexStepN s e).tbl.length := by
  cases e with
  | nl => simp [lexStepN]
  | store n => simpa [lexStepN] using storeStr_len s.tbl n
  | incl n => simpa [lexStepN] using fileIdFor_len _ s.tbl n
  | eof => cases h : s.nameStack <;> simp [lexStepN, h]

theorem tbl_run (evs : List LexEvN) : ∀ s : LexN, s.tbl.length ≤ (lexRunN s evs).tbl.length := by
  induction evs with
  | nil => intro s; exact Nat.le_refl _
  | cons e rest ih =>
    intro s
    simp only [lexRunN, List.foldl_cons] at ih ⊢
    exact Nat.le_trans (tbl_step s e) (ih (lexStepN s e))

/-! ## allocated ids are fresh -/

/-- every id in use names a slot of the table, and every file on the include stack already has a segment -/
structure TInv (s : LexN) : Prop where
  hused : ∀ id ∈ used s.lex, id ≤ s.tbl.length
  hstk : ∀ p ∈ s.lex.stack, p.2 ∈ s.lex.fi.map (·.file)

theorem tinv_init (main : Nat) : TInv (initN main) := by
  constructor <;> simp [initN, used]

/-- the id chosen for an `#include` is not in use -/
theorem incl_fresh (s : LexN) (n : Nat) (hi : Inv s.lex) (ht : TInv s)
    (hb : (lexStepN s (.incl n)).tbl.length < lineMod) :
    (lexStepN s (.incl n)).lex.fileId ∉ used s.lex ∧ (lexStepN s (.incl n)).lex.fileId < lineMod := by
  have hidn : u16 (s.lex.fileId : Int) = s.lex.fileId := u16_nat _ hi.hid
  simp only [lexStepN] at hb ⊢
  generalize hfi : (s.lex.save s.lex.fileId (s.lex.curLine + 1 - 1 - s.lex.saved)).fi = fi1 at hb ⊢
  have hfi1 : fi1 = s.lex.fi ++ [⟨u16 (s.lex.curLine + 1 - 1 - s.lex.saved), s.lex.fileId⟩] := by
    rw [← hfi]; simp [Lex.save, hidn]
  have hle := fileIdFor_id_le fi1 s.tbl n
  refine ⟨?_, by omega⟩
  unfold fileIdFor at hb hle ⊢
  by_cases hany : (fi1.any fun sg => sg.file == u16 ((storeStr s.tbl n).1 : Int)) = true
  · -- a table entry of its own: larger than every id in use
    simp only [hany, if_true] at hb hle ⊢
    intro hmem
    have h1 := ht.hused _ hmem
    have h2 := storeStr_len s.tbl n
    omega
  · simp only [hany] at hb hle ⊢
    simp only [Bool.false_eq_true, if_false] at hb hle ⊢
    have hlt : (storeStr s.tbl n).1 < lineMod := by omega
    have hu : u16 ((storeStr s.tbl n).1 : Int) = (storeStr s.tbl n).1 := u16_nat _ hlt
    rw [hu] at hany
    simp only [List.any_eq_true, beq_iff_eq, not_exists, not_and] at hany
    intro hmem
    simp only [used, List.mem_cons, List.mem_append, List.mem_map] at hmem
    rcases hmem with h | h | h
    · exact hany ⟨u16 (s.lex.curLine + 1 - 1 - s.lex.saved), s.lex.fileId⟩ (by rw [hfi1]; simp) h.symm
    · obtain ⟨p, hp, hpe⟩ := h
      have := ht.hstk p hp
      simp only [List.mem_map] at this
      obtain ⟨sg, hsg, hsge⟩ := this
      exact hany sg (by rw [hfi1]; simp [hsg]) (by rw [hsge, hpe])
    · obtain ⟨sg, hsg, hsge⟩ := h
      exact hany sg (by rw [hfi1]; simp [hsg]) hsge

theorem tinv_step (s : LexN) (e : LexEvN) (hi : Inv s.lex) (ht : TInv s) : TInv (lexStepN s e) := by
  have hidn : u16 (s.lex.fileId : Int) = s.lex.fileId := u16_nat _ hi.hid
  cases e with
  | nl =>
    constructor
    · intro id hid; exact ht.hused id (by simpa [lexStepN, lexStep, used] using hid)
    · intro p hp; exact ht.hstk p (by simpa [lexStepN, lexStep] using hp)
  | store n =>
    constructor
    · intro id hid
      have := ht.hused id (by simpa [lexStepN] using hid)
      have := storeStr_len s.tbl n
      simp only [lexStepN]; omega
    · intro p hp; exact ht.hstk p (by simpa [lexStepN] using hp)
  | incl n =>
    have hle := fileIdFor_id_le (s.lex.fi ++ [⟨u16 (s.lex.curLine + 1 - 1 - s.lex.saved), s.lex.fileId⟩]) s.tbl n
    have hlen := fileIdFor_len (s.lex.fi ++ [⟨u16 (s.lex.curLine + 1 - 1 - s.lex.saved), s.lex.fileId⟩]) s.tbl n
    constructor
    · intro id hid
      simp only [lexStepN, used, Lex.save, List.mem_cons, List.mem_append, List.mem_map, List.map_cons,
        List.map_append, hidn] at hid
      simp only [lexStepN, Lex.save, hidn]
      rcases hid with h | h | h
      · rw [h]; exact hle
      · rcases h with h | h
        · have := ht.hused s.lex.fileId (by simp [used]); omega
        · obtain ⟨p, hp, hpe⟩ := h
          have := ht.hused id (by simp only [used, List.mem_cons, List.mem_append, List.mem_map]; exact Or.inr (Or.inl ⟨p, hp, hpe⟩))
          omega
      · rcases h with h | h
        · obtain ⟨sg, hsg, hsge⟩ := h
          have := ht.hused id (by simp only [used, List.mem_cons, List.mem_append, List.mem_map]; exact Or.inr (Or.inr ⟨sg, hsg, hsge⟩))
          omega
        · simp at h
          have := ht.hused s.lex.fileId (by simp [used]); omega
    · intro p hp
      simp only [lexStepN, Lex.save, List.mem_cons] at hp
      simp only [lexStepN, Lex.save, List.map_append, List.mem_append, List.map_cons, List.map_nil, List.mem_singleton, hidn]
      rcases hp with rfl | hp
      · exact Or.inr rfl
      · exact Or.inl (ht.hstk p hp)
  | eof =>
    have key : TInv { s with lex := lexStep s.lex .eof } := by
      cases hs : s.lex.stack with
      | nil =>
        have : lexStep s.lex .eof = s.lex := by simp [lexStep, hs]
        rw [this]; exact ⟨ht.hused, ht.hstk⟩
      | cons top rest =>
        obtain ⟨l, fid⟩ := top
        constructor
        · intro id hid
          simp only [lexStep, hs, used, Lex.save, List.mem_cons, List.mem_append, List.mem_map, List.map_append,
            List.map_cons, List.map_nil, hidn] at hid
          apply ht.hused id
          simp only [used, hs, List.mem_cons, List.mem_append, List.mem_map, List.map_cons]
          rcases hid with h | h | h
          · exact Or.inr (Or.inl (Or.inl h))
          · exact Or.inr (Or.inl (Or.inr h))
          · rcases h with h | h
            · exact Or.inr (Or.inr h)
            · simp at h; exact Or.inl h
        · intro p hp
          simp only [lexStep, hs, Lex.save] at hp
          simp only [lexStep, hs, Lex.save, List.map_append, List.mem_append]
          exact Or.inl (ht.hstk p (by rw [hs]; exact List.mem_cons_of_mem _ hp))
    cases hn : s.nameStack with
    | nil => simpa [lexStepN, hn] using key
    | cons a r => exact ⟨by simpa [lexStepN, hn] using key.hused, by simpa [lexStepN, hn] using key.hstk⟩

/-- the ids chosen along any run satisfy the freshness condition of `roundtrip_from` -/
theorem fresh_idsOf (evs : List LexEvN) : ∀ s : LexN, Inv s.lex → TInv s →
    (lexRunN s evs).lex.abs < (lineMod : Int) → (lexRunN s evs).tbl.length < lineMod → Fresh s.lex (idsOf s evs) := by
  induction evs with
  | nil => intro s _ _ _ _; trivial
  | cons e rest ih =>
    intro s hi ht hb htb
    have hb' : (lexRunN (lexStepN s e) rest).lex.abs < (lineMod : Int) := by simpa [lexRunN] using hb
    have htb' : (lexRunN (lexStepN s e) rest).tbl.length < lineMod := by simpa [lexRunN] using htb
    have habs1 : (lexStepN s e).lex.abs < (lineMod : Int) := by
      rw [run_lex] at hb'
      exact Int.lt_of_le_of_lt (abs_run _ _) hb'
    have habs0 : s.lex.abs < (lineMod : Int) := by
      rw [step_lex] at habs1
      exact Int.lt_of_le_of_lt (abs_run _ _) habs1
    have htb1 : (lexStepN s e).tbl.length < lineMod := Nat.lt_of_le_of_lt (tbl_run rest _) htb'
    have ht' := tinv_step s e hi ht
    simp only [idsOf]
    cases e with
    | store n =>
      have hl : (lexStepN s (.store n)).lex = s.lex := by simp [lexStepN]
      have := ih (lexStepN s (.store n)) (by rw [hl]; exact hi) ht' hb' htb'
      simpa [evOf, hl] using this
    | nl =>
      have hl : (lexStepN s .nl).lex = lexStep s.lex .nl := by simp [lexStepN]
      have hi' := inv_step s.lex .nl hi habs0 trivial
      have := ih (lexStepN s .nl) (by rw [hl]; exact hi') ht' hb' htb'
      simp only [evOf, List.singleton_append, Fresh]
      rw [← hl]; exact this
    | eof =>
      have hl : (lexStepN s .eof).lex = lexStep s.lex .eof := by
        cases h : s.nameStack <;> simp [lexStepN, h]
      have hi' := inv_step s.lex .eof hi habs0 trivial
      have := ih (lexStepN s .eof) (by rw [hl]; exact hi') ht' hb' htb'
      simp only [evOf, List.singleton_append, Fresh]
      rw [← hl]; exact this
    | incl n =>
      have hfr := incl_fresh s n hi ht htb1
      have hl : (lexStepN s (.incl n)).lex = lexStep s.lex (.incl (lexStepN s (.incl n)).lex.fileId) := by
        simp [lexStepN, lexStep]
      have hi' := inv_step s.lex (.incl (lexStepN s (.incl n)).lex.fileId) hi habs0 ⟨hfr.1, hfr.2, trivial⟩
      have := ih (lexStepN s (.incl n)) (by rw [hl]; exact hi') ht' hb' htb'
      simp only [evOf, List.singleton_append, Fresh]
      refine ⟨hfr.1, hfr.2, ?_⟩
      rw [← hl]; exact this

end NV.C18

namespace NV.C18

/-! ## the chosen id names the file being read -/

theorem storeStr_prefix (tbl : List Nat) (n : Nat) : ∃ X, (storeStr tbl n).2 = tbl ++ X := by
  unfold storeStr
  cases lastIdx tbl n with
  | none => exact ⟨[n], rfl⟩
  | some i => exact ⟨[], by simp⟩

theorem storeStr_name (tbl : List Nat) (n : Nat) :
    1 ≤ (storeStr tbl n).1 ∧ (storeStr tbl n).2[(storeStr tbl n).1 - 1]? = some n := by
  unfold storeStr
  cases h : lastIdx tbl n with
  | none => simp
  | some i =>
    unfold lastIdx at h
    have hm := List.mem_of_find?_eq_some h
    have hp := List.find?_some h
    simp at hm
    simp only [beq_iff_eq] at hp
    refine ⟨by simp, ?_⟩
    simp only [Nat.add_sub_cancel]
    rw [List.getD_eq_getElem?_getD] at hp
    rw [List.getElem?_eq_getElem hm] at hp ⊢
    simpa using hp

theorem fileIdFor_prefix (fi : List Seg) (tbl : List Nat) (n : Nat) : ∃ X, (fileIdFor fi tbl n).2 = tbl ++ X := by
  obtain ⟨X, hX⟩ := storeStr_prefix tbl n
  unfold fileIdFor
  by_cases h : (fi.any fun s => s.file == u16 ((storeStr tbl n).1 : Int)) = true
  · exact ⟨X ++ [n], by simp [h, hX]⟩
  · exact ⟨X, by simp [h, hX]⟩

theorem fileIdFor_name (fi : List Seg) (tbl : List Nat) (n : Nat) :
    1 ≤ (fileIdFor fi tbl n).1 ∧ (fileIdFor fi tbl n).2[(fileIdFor fi tbl n).1 - 1]? = some n := by
  have := storeStr_name tbl n
  unfold fileIdFor
  by_cases h : (fi.any fun s => s.file == u16 ((storeStr tbl n).1 : Int)) = true
  · simp [h]
  · simpa [h] using this

theorem tbl_prefix_step (s : LexN) (e : LexEvN) : ∃ X, (lexStepN s e).tbl = s.tbl ++ X := by
  cases e with
  | nl => exact ⟨[], by simp [lexStepN]⟩
  | store n => simpa [lexStepN] using storeStr_prefix s.tbl n
  | incl n => simpa [lexStepN] using fileIdFor_prefix _ s.tbl n
  | eof => cases h : s.nameStack <;> exact ⟨[], by simp [lexStepN, h]⟩

theorem tbl_prefix_run (evs : List LexEvN) : ∀ s : LexN, ∃ X, (lexRunN s evs).tbl = s.tbl ++ X := by
  induction evs with
  | nil => intro s; exact ⟨[], by simp [lexRunN]⟩
  | cons e rest ih =>
    intro s
    obtain ⟨X, hX⟩ := tbl_prefix_step s e
    obtain ⟨Y, hY⟩ := ih (lexStepN s e)
    refine ⟨X ++ Y, ?_⟩
    simp only [lexRunN, List.foldl_cons] at hY ⊢
    rw [hY, hX, List.append_assoc]

theorem getElem?_append_some {α : Type} (l X : List α) (i : Nat) (x : α) (h : l[i]? = some x) :
    (l ++ X)[i]? = some x := by
  have hi : i < l.length := by
    by_cases hc : i < l.length
    · exact hc
    · rw [List.getElem?_eq_none (by omega)] at h
      cases h
  rw [List.getElem?_append_left hi]; exact h

/-- the include stack and the stack of file names run in parallel and the table maps each id to its name -/
def NamesOk (tbl : List Nat) : List (Int × Nat) → List Nat → Prop
  | [], [] => True
  | p :: ps, n :: ns => (1 ≤ p.2 ∧ tbl[p.2 - 1]? = some n) ∧ NamesOk tbl ps ns
  | _, _ => False

/-- the table names the current file and every file on the include stack -/
structure NInv (s : LexN) : Prop where
  hcur : 1 ≤ s.lex.fileId ∧ s.tbl[s.lex.fileId - 1]? = some s.curName
  hstk : NamesOk s.tbl s.lex.stack s.nameStack

theorem ninv_init (main : Nat) : NInv (initN main) := by
  constructor
  · simp [initN]
  · simp [initN, NamesOk]

theorem namesOk_lift (tbl X : List Nat) : ∀ (a : List (Int × Nat)) (b : List Nat),
    NamesOk tbl a b → NamesOk (tbl ++ X) a b := by
  intro a
  induction a with
  | nil => intro b h; cases b <;> simpa [NamesOk] using h
  | cons p ps ih =>
    intro b h
    cases b with
    | nil => simp [NamesOk] at h
    | cons n ns =>
      simp only [NamesOk] at h ⊢
      exact ⟨⟨h.1.1, getElem?_append_some _ _ _ _ h.1.2⟩, ih ns h.2⟩

theorem ninv_step (s : LexN) (e : LexEvN) (hn : NInv s) : NInv (lexStepN s e) := by
  cases e with
  | nl => exact ⟨by simpa [lexStepN, lexStep] using hn.hcur, by simpa [lexStepN, lexStep] using hn.hstk⟩
  | store n =>
    obtain ⟨X, hX⟩ := storeStr_prefix s.tbl n
    constructor
    · simp only [lexStepN, hX]
      exact ⟨hn.hcur.1, getElem?_append_some _ _ _ _ hn.hcur.2⟩
    · simp only [lexStepN, hX]
      exact namesOk_lift _ _ _ _ hn.hstk
  | incl n =>
    obtain ⟨X, hX⟩ := fileIdFor_prefix (s.lex.save s.lex.fileId (s.lex.curLine + 1 - 1 - s.lex.saved)).fi s.tbl n
    have hnm := fileIdFor_name (s.lex.save s.lex.fileId (s.lex.curLine + 1 - 1 - s.lex.saved)).fi s.tbl n
    constructor
    · simpa [lexStepN] using hnm
    · simp only [lexStepN, NamesOk]
      rw [hX]
      exact ⟨⟨hn.hcur.1, getElem?_append_some _ _ _ _ hn.hcur.2⟩, namesOk_lift _ _ _ _ hn.hstk⟩
  | eof =>
    cases hs : s.lex.stack with
    | nil =>
      have h2 := hn.hstk
      rw [hs] at h2
      cases hns : s.nameStack with
      | cons nm nrest => rw [hns] at h2; simp [NamesOk] at h2
      | nil =>
        have hl : lexStep s.lex .eof = s.lex := by simp [lexStep, hs]
        have : lexStepN s .eof = s := by
          cases s
          simp_all [lexStepN]
        rw [this]; exact hn
    | cons top rest =>
      obtain ⟨l, fid⟩ := top
      have h2 := hn.hstk
      rw [hs] at h2
      cases hns : s.nameStack with
      | nil => rw [hns] at h2; simp [NamesOk] at h2
      | cons nm nrest =>
        rw [hns] at h2
        simp only [NamesOk] at h2
        constructor
        · simpa [lexStepN, hns, lexStep, hs, Lex.save] using h2.1
        · simpa [lexStepN, hns, lexStep, hs, Lex.save] using h2.2

theorem ninv_run (evs : List LexEvN) : ∀ s : LexN, NInv s → NInv (lexRunN s evs) := by
  induction evs with
  | nil => intro s h; exact h
  | cons e rest ih =>
    intro s h
    simp only [lexRunN, List.foldl_cons] at ih ⊢
    exact ih _ (ninv_step s e h)

end NV.C18
