/-
C18 — specification oracle.

The oracle sees only observations: what the master's `error_handler` was given (`eh`), the generator's record of
where it put the failing statement and which calls are active (`expect`), the compiler's bookkeeping calls as traced
by the hook (`ev`: "these bytes were generated while that line was current", "this many lines were read from that
file") and the answer of the real decoder for every code offset (`dec`).  It knows nothing about runs, the scan
loop or the two passes: the meaning of the events is defined declaratively below.

 J1  every reported error matches the record: file, line within the statement's extent, program, object, and the
     trace lists exactly the active calls, innermost last (pseudo frames `CATCH` and `<function>` may be interleaved)
 J2  for every code offset the decoded (file, line) is the source position of the line under which the byte in
     front of that offset was generated (bytes generated under no line are skipped)
 J3  the tables of a program do not change when it is loaded again from its saved binary
 J4  no crash
 J6  every absolute line 1 … total of every compiled program translates to its source position (segment boundaries
     included, whether or not code was generated under the line)
 J5  an opened file never gets a file id that a file_info segment written before already uses
 J7  the textual trace `dump_trace` writes to the log for the same error lists the same active calls, innermost last:
     `<function>()`, file:line inside the recorded extent, program and object of every recorded call
 J8  every compile-time diagnostic the generator provoked (`expectce` record: a warning placed on a known line of a known
     file, main file or include at any nesting) is reported to the master's log_error with that file and that line
-/
import NV.C18.Model

namespace NV.C18

/-! ## records -/

structure ExpEnt where
  fn : String
  prog : String
  obj : String
  file : String
  lo : Int
  hi : Int
deriving Repr

/-- the generator's record of one failing evaluation -/
structure Expect where
  kind : String := "plain"
  phase : String := "call"      -- "load": the failing code runs while the object is loaded (variable initialiser)
  file : String
  lo : Int
  hi : Int
  program : String
  object : String
  trace : List ExpEnt
deriving Repr

/-- what the master's error handler logged -/
structure EhRec where
  caught : Nat
  error : String
  file : String
  line : Int
  program : String
  object : String
  trace : List TraceEnt
deriving Repr

inductive Obs where
  | eh (r : EhRec)
  | ev (prog : String) (evs : List CEv)
  | tab (prog : String) (raw : String)
  | dec (prog : String) (runs : List (Nat × String))
  | tra (prog : String) (runs : List (Nat × Option (Nat × Int)))
  | dt (ret : String) (lines : List String)
  | dta (entries : List String) (inner : Option (Int × Int × Int))   -- innermost frame: num_arg, num_local, sp - fp
  | ce (text : String)
  | cst (fns progs obs : List String)
  | crash (text : String)
  | loadFail
  | other
deriving Repr

/-! ## declarative meaning of the compiler events -/

/-- the `switch_to_line` calls made in one block: (line, address), in order -/
def switchesOf (evs : List CEv) (block : Nat) : List (Int × Int) :=
  evs.filterMap fun
    | .sw l a b => if b = block then some (l, a) else none
    | _ => none

/-- "under line l, n bytes were generated": consecutive differences of the addresses, starting under line 0 at 0 -/
def emissionsFrom : Int → Int → List (Int × Int) → Int → List (Int × Nat)
  | l, a, [], endA => [(l, (endA - a).toNat)]
  | l, a, (l', a') :: rest, endA => (l, (a' - a).toNat) :: emissionsFrom l' a' rest endA

/-- the line under which byte `b` was generated -/
def specLine : List (Int × Nat) → Nat → Option Int
  | [], _ => none
  | (l, n) :: rest, b => if b < n then some l else specLine rest (b - n)

/-- source positions of the absolute lines 1, 2, 3 …: a segment of `n` lines of file `f` continues `f` where it
    was left -/
def positionsGo : List (Nat × Nat) → List (Nat × Nat) → List (Nat × Nat)
  | [], _ => []
  | (n, f) :: rest, seen =>
    let k := match seen.find? (fun e => e.1 == f) with
      | some e => e.2
      | none => 0
    (List.range n).map (fun i => (f, k + i + 1)) ++ positionsGo rest ((f, k + n) :: seen)

def positions (segs : List (Nat × Nat)) : List (Nat × Nat) := positionsGo segs []

def segsOf (evs : List CEv) : List (Nat × Nat) :=
  evs.filterMap fun
    | .fi f n => some (n.toNat, f.toNat)
    | _ => none

def namesOf (evs : List CEv) : List (Nat × String) :=
  evs.filterMap fun
    | .addFile f nm => some (f, nm)
    | _ => none

def initOf (evs : List CEv) : Option (Nat × Nat) :=
  evs.findSome? fun
    | .init b s => some (b, s)
    | _ => none

def finOf (evs : List CEv) : Option Int :=
  evs.findSome? fun
    | .fin p => some p
    | _ => none

/-- expected text for every offset `1 … psize` (none = nothing to check) together with "is in the initialiser" -/
def expectedDec (evs : List CEv) : List (Option String × Bool) :=
  match finOf evs with
  | none => []
  | some psz =>
    let prog := emissionsFrom 0 0 (switchesOf evs NV.Gen.C18.aProgram) psz
    let ini := initOf evs
    let initEm := match ini with
      | some (_, s) => emissionsFrom 0 0 (switchesOf evs NV.Gen.C18.aInitializer) s
      | none => []
    let pos := (positions (segsOf evs)).toArray
    let names := namesOf evs
    (List.range psz.toNat).map fun b =>
      let inInit := match ini with
        | some (base, s) => decide (base ≤ b ∧ b < base + s)
        | none => false
      let l := if inInit then specLine initEm (b - (ini.getD (0, 0)).1) else specLine prog b
      match l with
      | none => (none, inInit)
      | some l =>
        let a := u16 l
        if a = 0 then (none, inInit) else
        match pos[a - 1]? with
        | none => (none, inInit)
        | some (f, ln) =>
          let nm := match names.find? (fun e => e.1 == f) with
            | some e => e.2
            | none => "?"
          (some s!"/{nm}:{ln}", inInit)

def expandRuns (rs : List (Nat × String)) : List String :=
  rs.flatMap fun (n, s) => List.replicate n s

/-- J2 for one program: first mismatch only -/
def judgeDec (prog : String) (evs : List CEv) (runs : List (Nat × String)) : List String :=
  let got := (expandRuns runs).drop 1          -- offsets 1 …
  let exp := expectedDec evs
  let rec go (off : Nat) (es : List (Option String × Bool)) (gs : List String) : List String :=
    match es, gs with
    | [], _ => []
    | _ :: _, [] => [s!"dec-short prog={prog} off={off}"]
    | (none, _) :: es', _ :: gs' => go (off + 1) es' gs'
    | (some e, ini) :: es', g :: gs' =>
      if e == g then go (off + 1) es' gs'
      else [s!"dec-mismatch prog={prog} off={off}{if ini then " (initialiser)" else ""} expected={e} got={g}"]
  go 1 exp got

/-- the answers for absolute lines 0, 1, 2 … from the compressed form `<count>*<file>:<first line>` / `<count>*-` -/
def expandTra (rs : List (Nat × Option (Nat × Int))) : List (Option (Nat × Int)) :=
  rs.flatMap fun (n, x) =>
    match x with
    | none => List.replicate n none
    | some (f, l) => (List.range n).map fun (i : Nat) => some (f, l + (i : Int))

/-- J6 for one program: EVERY absolute line 1 … total (whether code was generated under it or not, segment
    boundaries included) translates to its source position; first mismatch only.  Not judged when a segment count
    does not fit 16 bit (that is finding C18-F3). -/
def judgeTra (prog : String) (evs : List CEv) (runs : List (Nat × Option (Nat × Int))) : List String :=
  let segs := segsOf evs
  if segs.any (fun sg => sg.1 ≥ lineMod ∨ sg.2 ≥ lineMod) then [] else
  let pos := positions segs
  let got := (expandTra runs).drop 1
  let rec go (a : Nat) (ps : List (Nat × Nat)) (gs : List (Option (Nat × Int))) : List String :=
    match ps, gs with
    | [], _ => []
    | _ :: _, [] => [s!"tra-short prog={prog} abs={a}"]
    | (f, l) :: ps', g :: gs' =>
      if g == some (f, (l : Int)) then go (a + 1) ps' gs'
      else [s!"tra-mismatch prog={prog} abs={a} expected={f}:{l} got={match g with | some (gf, gl) => s!"{gf}:{gl}" | none => "-"}"]
  go 1 pos got

/-- object names are compared literally; a record ending in `#*` stands for any clone of that blueprint -/
def objMatch (expected got : String) : Bool :=
  if expected.endsWith "#*" then got.startsWith (expected.dropEnd 1).toString && got.length > expected.length - 1
  else expected == got

/-! ## J1 -/

def isPseudo (t : TraceEnt) : Bool := t.fn == "CATCH" || t.prog == "<function>"

def judgeTrace (kind : String) (exp : List ExpEnt) (got : List TraceEnt) : List String :=
  let real := got.filter (fun t => !isPseudo t)
  if exp.length ≠ real.length then [s!"trace-length kind={kind} expected={exp.length} got={real.length}"] else
  let rec go (i : Nat) (es : List ExpEnt) (gs : List TraceEnt) : List String :=
    match es, gs with
    | e :: es', g :: gs' =>
      (if e.fn ≠ g.fn then [s!"trace-entry kind={kind} i={i} field=fn expected={e.fn} got={g.fn}"] else []) ++
      (if e.prog ≠ g.prog then [s!"trace-entry kind={kind} i={i} field=prog expected={e.prog} got={g.prog}"] else []) ++
      (if !objMatch e.obj g.ob then [s!"trace-entry kind={kind} i={i} field=obj expected={e.obj} got={g.ob}"] else []) ++
      (if e.file ≠ g.file then [s!"trace-entry kind={kind} i={i} field=file expected={e.file} got={g.file}"] else []) ++
      (if g.line < e.lo ∨ e.hi < g.line then
         [s!"trace-line kind={kind} i={i} expected={e.lo}-{e.hi} got={g.line}{if (e.lo - g.line) % (lineMod : Int) = 0 then " wrap16" else ""}"] else []) ++
      go (i + 1) es' gs'
    | _, _ => []
  go 0 exp real

def judgeEh (e : Expect) (r : EhRec) : List String :=
  (if e.file ≠ r.file then [s!"eh-file kind={e.kind} expected={e.file} got={r.file}"] else []) ++
  (if r.line < e.lo ∨ e.hi < r.line then
     [s!"eh-line kind={e.kind} expected={e.lo}-{e.hi} got={r.line}{if (e.lo - r.line) % (lineMod : Int) = 0 then " wrap16" else ""}"] else []) ++
  (if e.program ≠ r.program then [s!"eh-prog kind={e.kind} expected={e.program} got={r.program}"] else []) ++
  (if !objMatch e.object r.object then [s!"eh-object kind={e.kind} expected={e.object} got={r.object}"] else []) ++
  judgeTrace e.kind e.trace r.trace

def ehsOf (obs : List Obs) : List EhRec := obs.filterMap fun | .eh r => some r | _ => none

def judgeEhs : List Expect → List EhRec → List String
  | [], [] => []
  | e :: es, r :: rs => judgeEh e r ++ judgeEhs es rs
  | es, rs => [s!"eh-count missing={es.length} extra={rs.length}"]

/-! ## J7: the log text of `dump_trace` -/

/-- one line of `dump_trace` taken apart: `<head>~at~<loc>,~in~program~/<prog>~(object~<ob>)` -/
structure DtRec where
  head : String
  loc : String
  prog : String
  ob : String
deriving Repr, DecidableEq

def parseDtLine (s : String) : Option DtRec :=
  match s.splitOn "~at~" with
  | [head, rest] =>
    match rest.splitOn ",~in~program~/" with
    | [loc, rest2] =>
      match rest2.splitOn "~(object~" with
      | [prog, ob] => some ⟨head, loc, prog, if ob.endsWith ")" then (ob.dropEnd 1).toString else ob⟩
      | _ => none
    | _ => none
  | _ => none

/-- `/file:line` -/
def parseLoc (loc : String) : Option (String × Int) :=
  if !loc.startsWith "/" then none else
  match ((loc.drop 1).toString.splitOn ":").reverse with
  | l :: (f :: fs) =>
    match l.toInt? with
    | some n => some (":".intercalate (f :: fs).reverse, n)
    | none => none
  | _ => none

def dtPseudo (d : DtRec) : Bool := d.head == "(catch)" || d.prog == "<function>"

def judgeDtLines (kind : String) (exp : List ExpEnt) (lines : List String) : List String :=
  let recs := lines.map parseDtLine
  if recs.any (·.isNone) then [s!"dt-syntax kind={kind}"] else
  let real := (recs.filterMap id).filter (fun d => !dtPseudo d)
  if exp.length ≠ real.length then [s!"dt-length kind={kind} expected={exp.length} got={real.length}"] else
  let rec go (i : Nat) (es : List ExpEnt) (gs : List DtRec) : List String :=
    match es, gs with
    | e :: es', g :: gs' =>
      let wantHead := if e.fn == "<function>" then "(function)" else e.fn ++ "()"
      (if wantHead ≠ g.head then [s!"dt-entry kind={kind} i={i} field=fn expected={wantHead} got={g.head}"] else []) ++
      (if e.prog ≠ g.prog then [s!"dt-entry kind={kind} i={i} field=prog expected={e.prog} got={g.prog}"] else []) ++
      (if !objMatch e.obj ("/" ++ g.ob) then [s!"dt-entry kind={kind} i={i} field=obj expected={e.obj} got=/{g.ob}"] else []) ++
      (match parseLoc g.loc with
       | none => [s!"dt-entry kind={kind} i={i} field=loc expected=/{e.file}:{e.lo} got={g.loc}"]
       | some (f, l) =>
         (if e.file ≠ f then [s!"dt-entry kind={kind} i={i} field=file expected={e.file} got={f}"] else []) ++
         (if l < e.lo ∨ e.hi < l then
            [s!"dt-line kind={kind} i={i} expected={e.lo}-{e.hi} got={l}{if (e.lo - l) % (lineMod : Int) = 0 then " wrap16" else ""}"] else [])) ++
      go (i + 1) es' gs'
    | _, _ => []
  go 0 exp real

def dtsOf (obs : List Obs) : List (List String) := obs.filterMap fun | .dt _ ls => some ls | _ => none
def dtRetsOf (obs : List Obs) : List String := obs.filterMap fun | .dt r _ => some r | _ => none

/-- J7, return value of `dump_trace`: the name of the object whose `heart_beat` is among the OUTER active calls
    (the last one), 0 when there is none -/
def expectedDtRet (e : Expect) : String :=
  match (e.trace.dropLast.filter (fun t => t.fn == "heart_beat")).getLast? with
  | some t => (t.obj.drop 1).toString
  | none => "0"

def judgeDtRets : List Expect → List String → List String
  | e :: es, r :: rs =>
    (if expectedDtRet e ≠ r then [s!"dt-ret kind={e.kind} expected={expectedDtRet e} got={r}"] else []) ++ judgeDtRets es rs
  | _, _ => []

def judgeDts : List Expect → List (List String) → List String
  | [], [] => []
  | e :: es, d :: ds => judgeDtLines e.kind e.trace d ++ judgeDts es ds
  | es, ds => [s!"dt-count missing={es.length} extra={ds.length}"]

/-- J7, lines that follow a frame line when arguments and local variables are printed (`dta`: per frame `F`, then `A` for
    an "arguments:" line, `L` for a "local variables:" line): a `(catch)` frame has no arguments of its own — anything
    printed there are stack slots of ANOTHER frame — and a named function always gets its "arguments:" line -/
def judgeDta (lines : List String) (entries : List String) (inner : Option (Int × Int × Int) := none) : List String :=
  if lines.length ≠ entries.length then [s!"dta-length frames={lines.length} entries={entries.length}"] else
  -- the innermost frame shows no variables while it is still being set up (an error raised by the stack check of the
  -- frame set-up: its `num_arg + num_local` slots are not on the stack yet, i.e. reach beyond `sp`)
  let unbuilt := match inner with
    | some (na, nl, d) => decide (na ≠ -1 ∧ na + nl - 1 > d)
    | none => false
  let n := lines.length
  let rec go (i : Nat) (ls es : List String) : List String :=
    match ls, es with
    | l :: ls', e :: es' =>
      let head := (l.splitOn "~at~").headD ""
      (if head == "(catch)" && e != "F" then [s!"dta-catch-args i={i} got={e}"] else []) ++
      (if head.endsWith "()" && !(i + 1 == n && unbuilt) && !e.startsWith "FA" then [s!"dta-no-args i={i} fn={head} got={e}"] else []) ++
      (if i + 1 == n && unbuilt && e != "F" then [s!"dta-unbuilt-frame-shown i={i} got={e}"] else []) ++
      go (i + 1) ls' es'
    | _, _ => []
  (go 0 lines entries).take 2

def judgeDtas : List (List String) → List (List String × Option (Int × Int × Int)) → List String
  | d :: ds, e :: es => judgeDta d e.1 e.2 ++ judgeDtas ds es
  | _, _ => []

/-! ## J9: efun call_stack() -/

/-- J9: what `call_stack ()` returned in the failing frame lists the recorded calls innermost FIRST: function names
    (`call_stack (2)`), programs (`call_stack (0)`, leading slash) and objects (`call_stack (1)`); pseudo frames (`CATCH`,
    program `<function>`) are not recorded calls -/
def judgeCst (e : Expect) (fns progs obs : List String) : List String :=
  if fns.length ≠ progs.length ∨ fns.length ≠ obs.length then [s!"cst-length fns={fns.length} progs={progs.length} obs={obs.length}"] else
  let rows := ((fns.zip (progs.zip obs)).filter fun r => !(r.1 == "CATCH" || r.2.1 == "/<function>")).reverse
  if rows.length ≠ e.trace.length then [s!"cst-length kind={e.kind} expected={e.trace.length} got={rows.length}"] else
  let rec go (i : Nat) (es : List ExpEnt) (rs : List (String × String × String)) : List String :=
    match es, rs with
    | x :: es', r :: rs' =>
      (if x.fn ≠ r.1 then [s!"cst-entry kind={e.kind} i={i} field=fn expected={x.fn} got={r.1}"] else []) ++
      (if "/" ++ x.prog ≠ r.2.1 then [s!"cst-entry kind={e.kind} i={i} field=prog expected=/{x.prog} got={r.2.1}"] else []) ++
      (if !objMatch x.obj r.2.2 then [s!"cst-entry kind={e.kind} i={i} field=obj expected={x.obj} got={r.2.2}"] else []) ++
      go (i + 1) es' rs'
    | _, _ => []
  (go 0 e.trace rows).take 3

/-- every `cst` observation belongs to the error reported right after it: pair them by walking the observations -/
def judgeCsts : List Expect → List Obs → List String
  | _, [] => []
  | es, .cst f p o :: rest =>
    (match es with
     | e :: _ => judgeCst e f p o
     | [] => ["cst-without-record"]) ++ judgeCsts es rest
  | es, .eh r :: rest => if r.error.startsWith "Error_in_loading_object" && r.trace.isEmpty then judgeCsts es rest else judgeCsts (es.drop 1) rest
  | es, _ :: rest => judgeCsts es rest

/-! ## J8: compile-time diagnostics -/

/-- the generator's record of a diagnostic it provoked: file, line, first words of the text (blanks as `_`) -/
structure ExpectCe where
  file : String
  line : Int
  text : String
deriving Repr

/-- `<file>_line_<n>:_<text>` as the compiler's `smart_log` formats it -/
def parseCe (s : String) : Option (String × Int × String) :=
  match s.splitOn "_line_" with
  | file :: rest@(_ :: _) =>
    let r := "_line_".intercalate rest
    match r.splitOn ":_" with
    | n :: more@(_ :: _) =>
      match n.toInt? with
      | some k => some (file, k, ":_".intercalate more)
      | none => none
    | _ => none
  | _ => none

/-- J8: every provoked diagnostic is reported with its file and line; a report of the same text for the same file on
    ANOTHER line than any record is a misattribution -/
def judgeCes (exps : List ExpectCe) (ces : List String) : List String :=
  if exps.isEmpty then [] else
  let got := ces.filterMap parseCe
  -- a record with line -1 fixes file and text only (the text itself then carries the positions that matter)
  let missing := exps.filter fun e => !(got.any fun g => g.1 == e.file && (e.line == -1 || g.2.1 == e.line) && g.2.2.startsWith e.text)
  let stray := got.filter fun g =>
    (exps.any fun e => g.2.2.startsWith e.text) &&
      !(exps.any fun e => g.1 == e.file && (e.line == -1 || g.2.1 == e.line) && g.2.2.startsWith e.text)
  (missing.take 1).map (fun e =>
    let near := got.filter fun g => g.2.2.startsWith e.text && g.1 == e.file
    let sameFile := got.filter fun g => g.1 == e.file
    s!"ce-missing file={e.file} line={e.line} text={e.text} reported={match near, sameFile with | g :: _, _ => s!"{g.1}:{g.2.1}" | [], g :: _ => s!"{g.1}:{g.2.1}:{g.2.2}" | [], [] => "-"}") ++
  (stray.take 1).map (fun g => s!"ce-stray file={g.1} line={g.2.1} text={g.2.2}")

/-- J5: a file that is opened gets a file id that no `file_info` segment written so far uses (this is the
    freshness condition `Fresh` of the round-trip theorem, checked on every real compilation) -/
def reusedIds (evs : List CEv) : List Nat :=
  (evs.foldl (fun (acc : List Nat × List Nat) e =>
    match e with
    | .fi f _ => (f.toNat :: acc.1, acc.2)
    | .addFile f _ => if acc.1.contains f then (acc.1, f :: acc.2) else acc
    | _ => acc) ([], [])).2.reverse

/-! ## J2, J3, J4, J5 over the observation list -/

def judgeObs : List Obs → List (String × List CEv) → List (String × String) → List String
  | [], _, _ => []
  | .ev p evs :: rest, known, tabs =>
    ((reusedIds evs).take 1).map (fun f => s!"file-id-reused prog={p} id={f}") ++ judgeObs rest ((p, evs) :: known) tabs
  | .dec p runs :: rest, known, tabs =>
    (match known.find? (fun e => e.1 == p) with
     | some e => judgeDec p e.2 runs
     | none => []) ++ judgeObs rest known tabs
  | .tra p runs :: rest, known, tabs =>
    (match known.find? (fun e => e.1 == p) with
     | some e => judgeTra p e.2 runs
     | none => []) ++ judgeObs rest known tabs
  | .tab p raw :: rest, known, tabs =>
    (match tabs.find? (fun e => e.1 == p) with
     | some e => if e.2 == raw then [] else [s!"tab-changed prog={p}"]
     | none => []) ++ judgeObs rest known ((p, raw) :: tabs)
  | .crash t :: rest, known, tabs => s!"crash {t}" :: judgeObs rest known tabs
  | _ :: rest, known, tabs => judgeObs rest known tabs

/-- the specification oracle: list of violations (empty = the property held on this run) -/
def judgeEv (exps : List Expect) (obs : List Obs) (ces : List ExpectCe := []) : List String :=
  let loadFailed := obs.any fun | .loadFail => true | _ => false
  if exps.isEmpty && !ces.isEmpty then
    -- a case about a compile-time ERROR: the program is expected not to load; only J8 (and J4) apply
    let crashes := obs.filterMap fun | .crash t => some s!"crash {t}" | _ => none
    if !crashes.isEmpty then crashes.take 1 else judgeCes ces (obs.filterMap fun | .ce t => some t | _ => none)
  else
  if loadFailed && ces.isEmpty && !(exps.any fun e => e.phase == "load") then
    -- the generated program did not compile: a defect of the generator, not an observation about C18
    ["setup load-failed"]
  else
    let crashes := obs.filterMap fun | .crash t => some s!"crash {t}" | _ => none
    -- a crash hides the rest of the run: report it alone (J4)
    if !crashes.isEmpty then crashes.take 1
    else
      -- a case that also provokes a compile-time error (`expectce`) sees the loader's own error for the program that
      -- did not compile: that report (no program, no trace) is not one of the recorded runtime errors
      let isLoadErr (r : EhRec) : Bool := !ces.isEmpty && r.error.startsWith "Error_in_loading_object" && r.trace.isEmpty
      let ehsAll := ehsOf obs
      let keep := ehsAll.map (fun r => !isLoadErr r)
      let sel {α : Type} (xs : List α) : List α :=
        if xs.length = keep.length then (xs.zip keep).filterMap (fun p => if p.2 then some p.1 else none) else xs
      let ehs := sel ehsAll
      let dts := sel (dtsOf obs)
      let dtas := sel (obs.filterMap fun | .dta es inner => some (es, inner) | _ => none)
      let rets := sel (dtRetsOf obs)
      judgeEhs exps ehs ++ judgeObs obs [] [] ++
      -- J7 only where the log text was captured (one `dt` per reported error)
      (if dts.isEmpty then [] else judgeDts exps dts) ++
      judgeDtas dts dtas ++
      judgeDtRets exps rets ++
      judgeCsts exps obs ++
      judgeCes ces (obs.filterMap fun | .ce t => some t | _ => none)

end NV.C18
