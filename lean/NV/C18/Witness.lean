/-
C18 — Lean-checked witnesses: where the full statements fail for the code as it is (open known findings, each
confirmed on the real driver by the inputs in known/C18.jsonl), and what the fixed defect looked like.
-/
import NV.C18.Model
import NV.C18.Spec
import NV.C18.Lemmas
import NV.C18.Props

namespace NV.C18

open NV.Gen.C18

/-! ## the repaired defect F4: the same header included twice used to reuse the file id -/

/-- main file (id 1): line 1, `#include` t (id 2, two lines), `#include` t again; stop at line 2 of the second copy -/
def reincP : List LexEv := [.nl, .incl 2, .nl, .eof, .incl 2, .nl]

/-- with the same id for both copies the decoder adds the length of the first copy: line 2 is reported as line 4 -/
theorem reinclude_wrong :
    (lexRun { fileId := 1 } reincP).fileId = 2 ∧ (lexRun { fileId := 1 } reincP).curLine = 2 ∧
    translateAbs (lexRun { fileId := 1 } reincP).abs (lexFinish (lexRun { fileId := 1 } (reincP ++ [.eof, .nl]))).fi
      = some (2, 4) := by decide

/-- **¬ file_roundtrip_Full**: with a reused file id (what `add_program_file` did before the fix) the id-level
    statement is false; `NV.C18.file_roundtrip` proves that the repaired allocation never reuses an id -/
theorem file_roundtrip_Full_false : ¬ file_roundtrip_Full := by
  intro h
  have := h 1 reincP [.eof, .nl] (by decide) (by decide)
  revert this
  decide

/-! ## F3: the 16 bit width of the absolute line -/

/-- the full statement of `line_roundtrip` (no bound on the lines) -/
def line_roundtrip_Full : Prop :=
  ∀ (ems : List (Int × Nat)) (off : Int), 0 < off → off ≤ totalBytes ems →
    (findRun (runEms ems).li off).map (fun r => (r.line : Int)) = specLine ems (off - 1).toNat

/-- **¬ line_roundtrip_Full**: 3 bytes generated under absolute line 65541 = 2^16 + 5 decode to line 5
(known finding C18-F3; on the real driver: 70 000 blank lines in front of the statement, reported line 4469) -/
theorem line_roundtrip_Full_false : ¬ line_roundtrip_Full := by
  intro h
  have h1 := h [(65541, 3)] 2 (by decide) (by decide)
  have hli : (runEms [(65541, 3)]).li = [⟨3, 5⟩] := by
    rw [runEms_li]
    simp only [encodeEms]
    rw [runsOf_le (n := 3) (by decide)]
    decide
  rw [hli] at h1
  revert h1
  decide

/-- the tables the real driver produced for a statement on line 70 005 (dump of case `b-wide70000`): the segment
count 70 007 is stored as 4471, the line as 4469 -/
def wideTab : Tab := { psize := 11, fi := [⟨4471, 1⟩], li := [⟨1, 0⟩, ⟨4, 4468⟩, ⟨6, 4469⟩], names := [(1, "m.c")] }

theorem wide_wrong : findLine wideTab 10 = .ok 1 4469 := by decide

/-! ## the repaired defect: `short abs_line` in find_line -/

/-- tables of a statement on line 40 005 (dump of case `b-lines40000`) -/
def signedTab : Tab := { psize := 11, fi := [⟨40007, 1⟩], li := [⟨1, 0⟩, ⟨4, 40004⟩, ⟨6, 40005⟩], names := [(1, "m.c")] }

/-- before the fix the line was read as a signed short: −25 531; the repaired decoder returns 40 005 -/
theorem signed_short_wrong : findLineSigned signedTab 10 = .ok 1 (-25531) ∧ findLine signedTab 10 = .ok 1 40005 := by
  decide

/-! ## the repaired defect F1: code of variable initialisers had no runs -/

/-- while the initialiser block is generated `switch_to_line` only notes where a new line starts: the tables and the
    bookkeeping of the program block are untouched -/
theorem init_block_only_noted (st : Enc) (l a : Int) :
    (switchToLine st l a aInitializer).liRev = st.liRev ∧ (switchToLine st l a aInitializer).lastSize = st.lastSize ∧
    (switchToLine st l a aInitializer).lineBeing = st.lineBeing := by
  unfold switchToLine
  by_cases h : l = st.initLine <;> simp [h]

/-- replay of the real hook events of `… ⏎ ⏎ ⏎ mixed g_ = 10 / z_; int go() { return 1; }` (case `b-init`, initialiser
    on line 7): the 9 bytes of `__INIT` placed at address 3 get their own run under line 7.  Before the fix the
    table was the single run `12:0` and the error was reported at line 0. -/
theorem init_replay :
    (encRun [.begin, .addFile 1 "m.c", .sw 7 0 20, .init 3 9, .replay 7 3, .fi 1 9, .sw (-1) 12 0, .fin 12]).li
      = [⟨3, 0⟩, ⟨9, 7⟩] := by
  have h3 : runsOf 3 0 = [⟨3, 0⟩] := by rw [runsOf_le (by decide)]
  have h9 : runsOf 9 7 = [⟨9, 7⟩] := by rw [runsOf_le (by decide)]
  have hu : u16 0 = 0 := by decide
  have hu7 : u16 7 = 7 := by decide
  simp [encRun, encStep, placeInit, saveFileInfo, switchToLine, Enc.li, aProgram, aInitializer, hu, hu7, h3, h9]

/-- the same layout through the repaired id allocation: the second copy gets id 3 and decodes to its own line 2 -/
theorem reinclude_repaired :
    let p : List LexEvN := [.nl, .incl 7, .nl, .eof, .incl 7, .nl]
    let q : List LexEvN := [.eof, .nl]
    (lexRunN (initN 5) p).curName = 7 ∧
    translateAbs (lexRunN (initN 5) p).lex.abs (lexFinish (lexRunN (initN 5) (p ++ q)).lex).fi = some (3, 2) ∧
    (lexRunN (initN 5) (p ++ q)).tbl = [5, 7, 7] := by decide

/-- `dump_trace`'s return value BEFORE the fix: the name was taken from `p->ob` (the object register saved in the
    element that opens the `heart_beat` frame = the caller's object), so a heart beat called by the driver gave 0 -/
def dtRetOld (fnOf : String → Nat → String) : List CsEntry → String → String
  | e :: e' :: rest, acc =>
    let acc' := if e.kind % (NV.Gen.C18.frameMask + 1) = NV.Gen.C18.frameFunction ∧ fnOf e'.prog e.tableIndex = "heart_beat"
                then (if e.ob = "-" then "0" else e.ob) else acc
    dtRetOld fnOf (e' :: rest) acc'
  | _, acc => acc

/-- the control stack dumped from the real driver in case `again-hb-2` (first two frames): the driver calls
    `heart_beat` (slot 9 of m.c) of object m, which calls `go`; old code: 0, repaired code: the object's name -/
theorem heart_beat_ret_before_fix :
    let w : World := { fns := [("m.c", ["a", "b", "c", "d", "e", "go", "g", "h", "i", "heart_beat"])] }
    let cs : List CsEntry := [⟨0, 9, "-", "-", -1⟩, ⟨0, 5, "m.c", "m", 83⟩]
    dtRetOld w.fnName cs "0" = "0" ∧ dumpTraceRet w { cs := cs, cur := ⟨"m.c", "m", 141⟩ } = "m" := by
  decide

end NV.C18
