/-
C18 — helper lemmas: the control stack as a representation of the list of active frames.
-/
import NV.C18.Model

namespace NV.C18

/-- an active call as the specification sees it: which function (kind, index) and where it currently stands -/
structure AFrame where
  kind : Nat
  idx : Nat
  regs : Regs
deriving Repr, DecidableEq

/-- abstract machine: the registers of the caller of the outermost frame (the driver) and the active frames,
    INNERMOST FIRST -/
structure AState where
  outer : Regs
  frames : List AFrame

inductive TOp where
  | call (kind idx : Nat) (callee : Regs)   -- the innermost frame calls a function that starts at `callee`
  | ret                                     -- the innermost frame returns
  | step (pc : Int)                         -- the innermost frame advances to `pc`
deriving Repr

def aStep (a : AState) : TOp → AState
  | .call k i c => { a with frames := ⟨k, i, c⟩ :: a.frames }
  | .ret => { a with frames := a.frames.tail }
  | .step pc =>
    match a.frames with
    | [] => { a with outer := { a.outer with pc := pc } }
    | f :: rest => { a with frames := { f with regs := { f.regs with pc := pc } } :: rest }

def mStep (m : Machine) : TOp → Machine
  | .call k i c => m.push k i c
  | .ret => m.pop
  | .step pc => { m with cur := { m.cur with pc := pc } }

def aRun (a : AState) (ops : List TOp) : AState := ops.foldl aStep a
def mRun (m : Machine) (ops : List TOp) : Machine := ops.foldl mStep m

/-- position of the innermost frame (or of the driver) -/
def curOfR (outer : Regs) : List AFrame → Regs
  | [] => outer
  | f :: _ => f.regs

/-- control stack elements, innermost first: kind/function of the frame, registers of the frame below -/
def csR (outer : Regs) : List AFrame → List CsEntry
  | [] => []
  | f :: rest =>
    let below := curOfR outer rest
    ⟨f.kind, f.idx, below.prog, below.ob, below.pc⟩ :: csR outer rest

/-- the concrete machine that represents an abstract state -/
def conc (a : AState) : Machine := { cs := (csR a.outer a.frames).reverse, cur := curOfR a.outer a.frames }

theorem regs_eta (r : Regs) : (⟨r.prog, r.ob, r.pc⟩ : Regs) = r := by cases r; rfl

theorem conc_step (a : AState) (op : TOp) : mStep (conc a) op = conc (aStep a op) := by
  cases op with
  | call k i c =>
    simp [mStep, aStep, conc, Machine.push, csR, curOfR]
  | ret =>
    cases hf : a.frames with
    | nil => simp [mStep, aStep, conc, Machine.pop, csR, curOfR, hf]
    | cons f rest =>
      simp [mStep, aStep, conc, Machine.pop, csR, curOfR, hf, regs_eta]
  | step pc =>
    cases hf : a.frames with
    | nil => simp [mStep, aStep, conc, csR, curOfR, hf]
    | cons f rest => simp [mStep, aStep, conc, csR, curOfR, hf]

theorem conc_run (ops : List TOp) : ∀ a : AState, mRun (conc a) ops = conc (aRun a ops) := by
  induction ops with
  | nil => intro a; rfl
  | cons op rest ih =>
    intro a
    simp only [mRun, aRun, List.foldl_cons] at ih ⊢
    rw [conc_step]
    exact ih (aStep a op)

theorem framesOf_snoc (cs : List CsEntry) (e : CsEntry) (cur : Regs) :
    framesOf (cs ++ [e]) cur = framesOf cs ⟨e.prog, e.ob, e.pc⟩ ++ [(e, cur)] := by
  induction cs with
  | nil => simp [framesOf]
  | cons a rest ih =>
    cases rest with
    | nil => simp [framesOf]
    | cons b rest' =>
      simp only [List.cons_append, framesOf] at ih ⊢
      rw [ih]

/-- walking the represented control stack yields exactly the active frames, outermost first, each with its own
    current position -/
theorem framesOf_conc {β : Type} (g : Nat → Nat → Regs → β) (outer : Regs) (fs : List AFrame) :
    (framesOf (csR outer fs).reverse (curOfR outer fs)).map (fun p => g p.1.kind p.1.tableIndex p.2)
      = (fs.reverse).map (fun f => g f.kind f.idx f.regs) := by
  induction fs with
  | nil => simp [csR, framesOf]
  | cons f rest ih =>
    have hcur : curOfR outer (f :: rest) = f.regs := rfl
    rw [hcur]
    simp only [csR, List.reverse_cons]
    rw [framesOf_snoc]
    simp only [List.map_append, List.map_cons, List.map_nil, regs_eta]
    rw [ih]

end NV.C18
