import NV.C18.Model
import NV.C18.Spec
namespace NV.C18
end NV.C18
