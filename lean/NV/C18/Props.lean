/-
C18 — property theorems (statements; the work is in NV/C18/Lemmas*.lean).

All statements are about the executable model of NV/C18/Model.lean, which the check ties to the C code on every run
(model encoder = real tables byte for byte; model decoder = real `get_line_number` on every offset of every dumped
program; model trace assembly = what the master's `error_handler` receives).
-/
import NV.C18.Model
import NV.C18.Spec
import NV.C18.Lemmas
import NV.C18.LemmasTrace
import NV.C18.LemmasFile
import NV.C18.LemmasFileN

namespace NV.C18

open NV.Gen.C18

/-! ## widths (regenerated from the source on every run) -/

/-- the widths the model relies on, as the C declarations have them: the run length byte of `line_info` holds
`runMax`; the stored absolute line (`short`), the `file_info` elements, `parse_node_t.line` and `program_size` are
all `lineMod` wide.  A change of any of these declarations breaks this obligation. -/
theorem widths_agree :
    runMax + 1 = 2 ^ lineInfoLenBits ∧ 2 ^ fileInfoBits = lineMod ∧ 2 ^ nodeLineBits = lineMod ∧
    2 ^ progSizeBits = lineMod ∧ aProgram ≠ aInitializer := by decide

/-! ## line_roundtrip -/

/-- **line_roundtrip** (stored 16 bits).  For EVERY sequence of emissions `(line, nbytes)` fed to the modelled
`switch_to_line` (any number of them, any sizes, zero-byte line changes included, closed by `switch_to_line (-1)`) and
EVERY code offset `off` with `0 < off ≤ program size`, the modelled scan of `find_line` stops on a run whose stored
line is the low 16 bits of the line under which byte `off - 1` (the byte in front of the pc) was generated. -/
theorem line_roundtrip_raw (ems : List (Int × Nat)) (off : Int) (h1 : 0 < off) (h2 : off ≤ totalBytes ems) :
    (findRun (runEms ems).li off).map (·.line) = (specLine ems (off - 1).toNat).map u16 := by
  rw [runEms_li]
  exact findRun_encodeEms ems off h1 h2

/-- all lines of the emission sequence fit the 16 bit field -/
def LinesFit (ems : List (Int × Nat)) : Prop := ∀ e ∈ ems, 0 ≤ e.1 ∧ e.1 < (lineMod : Int)

theorem specLine_mem (ems : List (Int × Nat)) : ∀ (b : Nat) (l : Int), specLine ems b = some l → ∃ n, (l, n) ∈ ems := by
  induction ems with
  | nil => intro b l h; simp [specLine] at h
  | cons e rest ih =>
    intro b l h
    obtain ⟨l', n⟩ := e
    simp only [specLine] at h
    by_cases hb : b < n
    · simp only [hb, if_true] at h
      cases h
      exact ⟨n, List.mem_cons_self⟩
    · simp only [hb, if_false] at h
      obtain ⟨m, hm⟩ := ih (b - n) l h
      exact ⟨m, List.mem_cons_of_mem _ hm⟩

theorem u16_of_fit (l : Int) (h0 : 0 ≤ l) (h1 : l < (lineMod : Int)) : ((u16 l : Nat) : Int) = l := by
  unfold u16
  rw [Int.emod_eq_of_lt h0 h1]
  omega

/-- **line_roundtrip**.  With every absolute line in `[0, 2^16)` the decoder returns exactly the line under which the
byte was emitted: for every emission sequence and every offset. -/
theorem line_roundtrip (ems : List (Int × Nat)) (hfit : LinesFit ems) (off : Int) (h1 : 0 < off)
    (h2 : off ≤ totalBytes ems) :
    (findRun (runEms ems).li off).map (fun r => (r.line : Int)) = specLine ems (off - 1).toNat := by
  have h := line_roundtrip_raw ems off h1 h2
  cases hs : specLine ems (off - 1).toNat with
  | none =>
    rw [hs] at h
    cases hf : findRun (runEms ems).li off with
    | none => rfl
    | some r => rw [hf] at h; simp at h
  | some l =>
    rw [hs] at h
    cases hf : findRun (runEms ems).li off with
    | none => rw [hf] at h; simp at h
    | some r =>
      rw [hf] at h
      simp only [Option.map_some, Option.some.injEq] at h ⊢
      obtain ⟨n, hm⟩ := specLine_mem ems _ l hs
      have := hfit (l, n) hm
      rw [h]
      exact u16_of_fit l this.1 this.2

/-- non-vacuity: three statements (4 bytes on line 7, a line change without code, 300 bytes on line 9, 2 bytes on
line 12); offset 5 is the first byte of the long statement, 304 its last, 305 the next line -/
example : LinesFit [(7, 4), (8, 0), (9, 300), (12, 2)] ∧
    (runEms [(7, 4), (8, 0), (9, 300), (12, 2)]).li = [⟨4, 7⟩, ⟨255, 9⟩, ⟨45, 9⟩, ⟨2, 12⟩] ∧
    (findRun (runEms [(7, 4), (8, 0), (9, 300), (12, 2)]).li 4).map (·.line) = some 7 ∧
    (findRun (runEms [(7, 4), (8, 0), (9, 300), (12, 2)]).li 5).map (·.line) = some 9 ∧
    (findRun (runEms [(7, 4), (8, 0), (9, 300), (12, 2)]).li 304).map (·.line) = some 9 ∧
    (findRun (runEms [(7, 4), (8, 0), (9, 300), (12, 2)]).li 305).map (·.line) = some 12 := by
  have hli : (runEms [(7, 4), (8, 0), (9, 300), (12, 2)]).li = [⟨4, 7⟩, ⟨255, 9⟩, ⟨45, 9⟩, ⟨2, 12⟩] := by
    rw [runEms_li]
    simp only [encodeEms]
    rw [runsOf_le (n := 4) (by decide), runsOf_gt (n := 300) (by decide), runsOf_le (n := 300 - runMax) (by decide),
      runsOf_le (n := 2) (by decide)]
    decide
  refine ⟨?_, hli, ?_, ?_, ?_, ?_⟩
  · intro e he
    simp only [List.mem_cons, List.not_mem_nil, or_false] at he
    rcases he with rfl | rfl | rfl | rfl <;> decide
  all_goals (rw [hli]; decide)

/-! ## long_statement_ok -/

/-- **long_statement_ok**.  A statement whose code is `n` bytes long — in particular `n > 255` — is split by
`switch_to_line` into runs that (a) all fit the `unsigned char` length, (b) add up to `n`, (c) all carry the
statement's line, and (d) every offset `1 … n` inside the statement decodes to a run with that line, whatever
follows in the table. -/
theorem long_statement_ok (n s : Nat) (rest : List Run) :
    (∀ r ∈ runsOf n s, r.len ≤ runMax) ∧ ((runsOf n s).map (·.len)).sum = n ∧ (∀ r ∈ runsOf n s, r.line = s) ∧
    (∀ off : Int, off ≤ n → (findRun (runsOf n s ++ rest) off).map (·.line) = some s) ∧
    (∀ off : Int, off > n → findRun (runsOf n s ++ rest) off = findRun rest (off - n)) := by
  refine ⟨runsOf_len_le n s, runsOf_sum n s, runsOf_line n s, ?_, ?_⟩
  · intro off h
    obtain ⟨k, hk⟩ := findRun_runsOf_in n s rest off h
    rw [hk]; rfl
  · intro off h
    exact findRun_runsOf_out n s rest off h

/-- non-vacuity: a 600 byte statement on line 41 becomes 255 + 255 + 90 -/
example : runsOf 600 41 = [⟨255, 41⟩, ⟨255, 41⟩, ⟨90, 41⟩] ∧
    (findRun (runsOf 600 41 ++ [⟨3, 42⟩]) 600).map (·.line) = some 41 ∧
    (findRun (runsOf 600 41 ++ [⟨3, 42⟩]) 601).map (·.line) = some 42 := by
  have h : runsOf 600 41 = [⟨255, 41⟩, ⟨255, 41⟩, ⟨90, 41⟩] := by
    rw [runsOf_gt (n := 600) (by decide), runsOf_gt (n := 600 - runMax) (by decide),
      runsOf_le (n := 600 - runMax - runMax) (by decide)]
    decide
  rw [h]
  decide

/-! ## file_roundtrip -/

/-- **file_roundtrip_ids** — the id-level core (`file_roundtrip` below discharges `Fresh` for the ids the repaired
`add_program_file` allocates; `NV.C18.file_roundtrip_Full_false` shows that it fails when an id is reused, which is
what the code did before the fix).
Take ANY include layout, given as the lexer's event sequence `p ++ q` over the main file `main`: ordinary lines,
`#include` directives at any nesting (each opening a file not used before in this compilation unit) and ends of
included files (resumption of the parent).  Stop after ANY prefix `p`: the lexer stands at line `curLine` of file
`fileId`, and a parse node created now is tagged with the absolute line `base + curLine`.  Decoding that absolute
line with `translate_absolute_line` against the `file_info` table as it is at the END of the compilation (all
`save_file_info` calls of `handle_include`, of the include pop and of `i_generate_final_program`) returns exactly
`(fileId, curLine)` — provided the compilation unit has fewer than 2^16 absolute lines. -/
theorem file_roundtrip_ids (main : Nat) (hmain : main < lineMod) (p q : List LexEv)
    (hfresh : Fresh { fileId := main } (p ++ q))
    (hfit : (lexRun { fileId := main } (p ++ q)).abs < (lineMod : Int)) :
    translateAbs (lexRun { fileId := main } p).abs (lexFinish (lexRun { fileId := main } (p ++ q))).fi
      = some ((lexRun { fileId := main } p).fileId, (lexRun { fileId := main } p).curLine) := by
  have hsplit : lexRun { fileId := main } (p ++ q) = lexRun (lexRun { fileId := main } p) q := by
    simp [lexRun, List.foldl_append]
  obtain ⟨hf1, hf2⟩ := fresh_split p { fileId := main } q hfresh
  rw [hsplit] at hfit ⊢
  have hbp : (lexRun { fileId := main } p).abs < (lineMod : Int) :=
    Int.lt_of_le_of_lt (abs_run q _) hfit
  have hinv := inv_run p { fileId := main } (inv_init main hmain) hf1 hbp
  exact roundtrip_from q _ hinv hf2 hfit

/-- the name under which the guide's convention lists a statement proved under a side condition -/
theorem file_roundtrip_partial (main : Nat) (hmain : main < lineMod) (p q : List LexEv)
    (hfresh : Fresh { fileId := main } (p ++ q))
    (hfit : (lexRun { fileId := main } (p ++ q)).abs < (lineMod : Int)) :
    translateAbs (lexRun { fileId := main } p).abs (lexFinish (lexRun { fileId := main } (p ++ q))).fi
      = some ((lexRun { fileId := main } p).fileId, (lexRun { fileId := main } p).curLine) :=
  file_roundtrip_ids main hmain p q hfresh hfit

/-- **file_roundtrip** (full: no condition on the include layout).  Take ANY sequence of lexer events over the main
file `main`: ordinary lines, `#include` directives of ANY file at ANY nesting — the same header any number of times,
a header including itself or its includer — ends of included files, and arbitrary other insertions into the program
string table.  File ids are chosen as the repaired `add_program_file`/`program_file_id` does (the id of the string
table entry, or an entry of its own when a `file_info` segment already uses that id).  Stop after ANY prefix `p`: the
lexer reads line `curLine` of the file named `curName`.  Decoding the absolute line of that position against the
FINAL `file_info` table returns a file id and a line such that the line is `curLine` and the final string table
maps the id to `curName` — i.e. exactly the source position.  Size conditions only: fewer than 2^16 absolute lines
and fewer than 2^16 program strings. -/
theorem file_roundtrip (main : Nat) (p q : List LexEvN)
    (hfit : (lexRunN (initN main) (p ++ q)).lex.abs < (lineMod : Int))
    (htbl : (lexRunN (initN main) (p ++ q)).tbl.length < lineMod) :
    translateAbs (lexRunN (initN main) p).lex.abs (lexFinish (lexRunN (initN main) (p ++ q)).lex).fi
      = some ((lexRunN (initN main) p).lex.fileId, (lexRunN (initN main) p).lex.curLine) ∧
    1 ≤ (lexRunN (initN main) p).lex.fileId ∧
    (lexRunN (initN main) (p ++ q)).tbl[(lexRunN (initN main) p).lex.fileId - 1]? = some (lexRunN (initN main) p).curName := by
  have h1 : (1 : Nat) < lineMod := by decide
  have hfresh := fresh_idsOf (p ++ q) (initN main) (inv_init 1 h1) (tinv_init main) hfit htbl
  rw [idsOf_append] at hfresh
  have hids := file_roundtrip_ids 1 h1 (idsOf (initN main) p) (idsOf (lexRunN (initN main) p) q) hfresh
    (by
      have h := run_lex (p ++ q) (initN main)
      rw [idsOf_append] at h
      have h' : lexRun { fileId := 1 } (idsOf (initN main) p ++ idsOf (lexRunN (initN main) p) q)
          = (lexRunN (initN main) (p ++ q)).lex := h.symm
      rw [h']; exact hfit)
  have hlexp : (lexRunN (initN main) p).lex = lexRun { fileId := 1 } (idsOf (initN main) p) := run_lex p (initN main)
  have hlexpq : (lexRunN (initN main) (p ++ q)).lex
      = lexRun { fileId := 1 } (idsOf (initN main) p ++ idsOf (lexRunN (initN main) p) q) := by
    rw [← idsOf_append]; exact run_lex (p ++ q) (initN main)
  rw [hlexp, hlexpq]
  refine ⟨hids, ?_⟩
  have hn := ninv_run p (initN main) (ninv_init main)
  have hsplit : lexRunN (initN main) (p ++ q) = lexRunN (lexRunN (initN main) p) q := by
    simp [lexRunN, List.foldl_append]
  obtain ⟨X, hX⟩ := tbl_prefix_run q (lexRunN (initN main) p)
  rw [← hlexp, hsplit, hX]
  exact ⟨hn.hcur.1, getElem?_append_some _ _ _ _ hn.hcur.2⟩

/-- non-vacuity: header 7 included three times from the main file 5 (twice directly, once through header 8, which
is in turn included by … header 7's second copy): stop inside the third copy -/
example :
    let p : List LexEvN := [.nl, .incl 7, .nl, .eof, .store 99, .incl 7, .incl 8, .nl, .incl 7, .nl, .nl]
    let q : List LexEvN := [.eof, .nl, .eof, .eof, .nl]
    (lexRunN (initN 5) (p ++ q)).lex.abs < (lineMod : Int) ∧ (lexRunN (initN 5) (p ++ q)).tbl = [5, 7, 99, 7, 8, 7] ∧
    (lexRunN (initN 5) p).curName = 7 ∧ (lexRunN (initN 5) p).lex.curLine = 3 ∧
    translateAbs (lexRunN (initN 5) p).lex.abs (lexFinish (lexRunN (initN 5) (p ++ q)).lex).fi = some (6, 3) := by
  decide

/-- the full statement (no freshness condition): false for the code as it is, see NV/C18/Witness.lean -/
def file_roundtrip_Full : Prop :=
  ∀ (main : Nat) (p q : List LexEv), main < lineMod →
    (lexRun { fileId := main } (p ++ q)).abs < (lineMod : Int) →
    translateAbs (lexRun { fileId := main } p).abs (lexFinish (lexRun { fileId := main } (p ++ q))).fi
      = some ((lexRun { fileId := main } p).fileId, (lexRun { fileId := main } p).curLine)

/-- the layout of the non-vacuity example: main file (id 1): 2 lines, `#include` a (id 2); a: 1 line, `#include` b
(id 3); b: 2 lines; back in a: 1 more line; back in main: 2 more lines -/
def exLayout : List LexEv := [.nl, .nl, .incl 2, .nl, .incl 3, .nl, .nl, .eof, .nl, .eof, .nl, .nl]

/-- non-vacuity: the hypotheses hold for a two level include tree, and e.g. after 6 events (line 2 of b) or after
10 events (main file resumed behind the include) the decoded position is the source position -/
example : Fresh { fileId := 1 } exLayout ∧ (lexRun { fileId := 1 } exLayout).abs < (lineMod : Int) ∧
    (lexFinish (lexRun { fileId := 1 } exLayout)).fi = [⟨3, 1⟩, ⟨2, 2⟩, ⟨3, 3⟩, ⟨2, 2⟩, ⟨3, 1⟩] ∧
    translateAbs (lexRun { fileId := 1 } (exLayout.take 6)).abs (lexFinish (lexRun { fileId := 1 } exLayout)).fi = some (3, 2) ∧
    translateAbs (lexRun { fileId := 1 } (exLayout.take 10)).abs (lexFinish (lexRun { fileId := 1 } exLayout)).fi = some (1, 4) := by
  refine ⟨?_, by decide, by decide, by decide, by decide⟩
  simp [exLayout, Fresh, used, lexStep, Lex.save, lineMod, NV.Gen.C18.shortBits, u16]

/-- `file_roundtrip` covers the lines that END a segment (the quantifier is over every prefix, so also the position
right in front of an end of file): the included file 7 has two lines and NO newline at its end, the lexer stands on
its last line — absolute line 4, which is exactly where the segment `(2 lines, id 2)` ends — and the decoder returns
(id 2, line 2).  (A decoder that hands the boundary line to the next segment — `<` for `<=` in the first pass —
fails here; on the real code this is what the `tra` comparison over ALL absolute lines and oracle J6 check.) -/
example :
    let p : List LexEvN := [.nl, .incl 7, .nl]
    let q : List LexEvN := [.eof, .nl]
    (lexRunN (initN 5) p).lex.abs = 4 ∧ (lexFinish (lexRunN (initN 5) (p ++ q)).lex).fi = [⟨2, 1⟩, ⟨2, 2⟩, ⟨2, 1⟩] ∧
    translateAbs 4 (lexFinish (lexRunN (initN 5) (p ++ q)).lex).fi = some (2, 2) ∧
    translateAbs 2 (lexFinish (lexRunN (initN 5) (p ++ q)).lex).fi = some (1, 2) ∧
    translateAbs 6 (lexFinish (lexRunN (initN 5) (p ++ q)).lex).fi = some (1, 4) ∧
    translateAbs 7 (lexFinish (lexRunN (initN 5) (p ++ q)).lex).fi = none := by
  decide

/-! ## trace_order -/

/-- the trace entry the specification expects for an active frame -/
def entOf (w : World) (f : AFrame) : TraceEnt :=
  let fl := fileLine w f.regs
  ⟨fnOf w ⟨f.kind, f.idx, "", "", 0⟩ f.regs, f.regs.prog, f.regs.ob, fl.1, fl.2⟩

/-- **trace_order**.  Start from any driver context `outer` with an empty control stack and perform ANY sequence of
calls (`push_control_stack` + callee set-up), returns (`pop_control_stack`) and pc movements.  Then the trace
assembled by the modelled `get_svalue_trace` has exactly one entry per active frame, in call order — outermost
first, INNERMOST LAST — and each entry shows that frame's own function, program, object and current position
(the callers' saved pcs, the live pc for the innermost frame). -/
theorem trace_order (w : World) (outer : Regs) (ops : List TOp) :
    let a := aRun ⟨outer, []⟩ ops
    let m := mRun ⟨[], outer⟩ ops
    m.cur.prog ≠ "-" →
    svalueTrace w m = a.frames.reverse.map (entOf w) ∧ (svalueTrace w m).length = a.frames.length := by
  intro a m hcur
  have hm : m = conc a := by
    have := conc_run ops ⟨outer, []⟩
    simpa [conc, csR, curOfR] using this
  have key : svalueTrace w m = a.frames.reverse.map (entOf w) := by
    unfold svalueTrace
    simp only [hcur, if_false]
    rw [hm]
    exact framesOf_conc (fun k i r => (⟨fnOf w ⟨k, i, "", "", 0⟩ r, r.prog, r.ob, (fileLine w r).1, (fileLine w r).2⟩ : TraceEnt))
      a.outer a.frames
  exact ⟨key, by rw [key]; simp⟩

/-- **apply_paths_store_table_index** (bridging lemma for the expressions transcribed from `apply_low`): on the cache-hit
path and on the cache-miss path the new frame stores the FUNCTION-TABLE index of the applied function (never its
runtime index). -/
theorem apply_paths_store_table_index (ei ri : Nat) : hitIndex ei ri = ei ∧ missIndex ei ri = ei := ⟨rfl, rfl⟩

/-- **apply_frame_named**.  Whatever is on the control stack, a frame opened by `apply_low` — first apply (cache miss) or
any later apply of the same function (cache hit) — for slot `ei` of the callee program's function table is listed by
`get_svalue_trace` as the innermost entry, under the NAME of that slot, with the callee's program and object. -/
theorem apply_frame_named (w : World) (m : Machine) (hit : Bool) (tbl : List FunEnt) (ei : Nat) (callee : Regs)
    (hprog : callee.prog ≠ "-") :
    (svalueTrace w (m.applyFrame hit tbl ei callee)).getLast? =
      some ⟨w.fnName callee.prog ei, callee.prog, callee.ob, (fileLine w callee).1, (fileLine w callee).2⟩ := by
  have hidx : (if hit then hitIndex ei (tbl.getD ei default).runtimeIndex else missIndex ei (tbl.getD ei default).runtimeIndex) = ei := by
    cases hit <;> simp [(apply_paths_store_table_index ei _).1, (apply_paths_store_table_index ei _).2]
  unfold svalueTrace Machine.applyFrame Machine.push
  simp only [hprog, if_false, hidx]
  rw [framesOf_snoc]
  simp [fnOf, frameFunction, frameMask]

/-- non-vacuity: a second apply of `go` (slot 2, runtime index 0 — the two numberings differ) is traced as `go` -/
example :
    let w : World := { fns := [("m.c", ["set_oid", "f1", "go"])] }
    let tbl : List FunEnt := [⟨"set_oid", 1⟩, ⟨"f1", 2⟩, ⟨"go", 0⟩]
    ((svalueTrace w (({} : Machine).applyFrame true tbl 2 ⟨"m.c", "m", 9⟩)).map (·.fn)) = ["go"] := by decide

/-- non-vacuity: the driver applies `go`, which calls `f1` in another program, which evaluates a function literal;
the trace has three entries, innermost last -/
example :
    let ops := [TOp.call 0 2 ⟨"m.c", "m", 0⟩, .step 22, .call 0 1 ⟨"base.c", "m", 0⟩, .step 9, .call 1 0 ⟨"base.c", "m", 40⟩,
                .step 44]
    (svalueTrace {} (mRun ⟨[], ⟨"x", "-", -1⟩⟩ ops)).map (fun t => (t.fn, t.prog)) =
      [("?", "m.c"), ("?", "base.c"), ("<function>", "base.c")] := by
  decide

end NV.C18
