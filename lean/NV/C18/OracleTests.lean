/-
C18 — the specification oracle rejects what it should reject: positive and NEGATIVE examples per clause (audit):
J1 file / line / program / object / function NAME / order / missing and extra frames / caller line, program, object, file /
report count / clone records; J2 run boundary, wrong file, short answer; J6 segment boundary both ways; J5 id reuse;
J3 changed tables; J4 crash; set-up failure.
-/
import NV.C18.Spec

namespace NV.C18.OracleTests

open NV.C18

def rec0 : Expect :=
  { file := "m.c", lo := 5, hi := 6, program := "m.c", object := "/m",
    trace := [⟨"go", "m.c", "/m", "m.c", 9, 9⟩, ⟨"f1", "m.c", "/m", "m.c", 5, 6⟩] }

def eh0 : EhRec :=
  { caught := 0, error := "boom", file := "m.c", line := 5, program := "m.c", object := "/m",
    trace := [⟨"go", "m.c", "/m", "m.c", 9⟩, ⟨"CATCH", "m.c", "/m", "m.c", 9⟩, ⟨"<function>", "<function>", "/m", "", 0⟩,
              ⟨"f1", "m.c", "/m", "m.c", 6⟩] }


-- J1 negatives

/-! J2 / J5 / J6: events of a program whose main file (id 1) has 3 lines and includes file 2 (2 lines) after line 1;
    4 bytes under absolute line 1, 6 bytes under absolute line 3 (= line 2 of the include) -/
def evs0 : List CEv :=
  [.begin, .addFile 1 "m.c", .fi 1 1, .addFile 2 "inc.h", .sw 1 0 0, .sw 3 4 0, .fi 2 2, .fi 1 2, .sw (-1) 10 0, .fin 10]


/-- every entry must evaluate to `true`; run by `nvdrive C18 selftest` on every check (the oracle uses `String` functions
    the kernel cannot unfold, so these are executable checks, not `decide` proofs) -/
def tests : List Bool := [
  (judgeEv [rec0] [.eh eh0]) == [],
  (judgeEv [rec0] [.eh { eh0 with file := "inc.h" }]) != [],
  (judgeEv [rec0] [.eh { eh0 with line := 7 }]) != [],
  (judgeEv [rec0] [.eh { eh0 with line := 0 }]) != [],
  (judgeEv [rec0] [.eh { eh0 with program := "base.c" }]) != [],
  (judgeEv [rec0] [.eh { eh0 with object := "/other" }]) != [],
  (judgeEv [rec0] [.eh { eh0 with trace := [⟨"set_oid", "m.c", "/m", "m.c", 9⟩, ⟨"f1", "m.c", "/m", "m.c", 6⟩] }]) != [],
  (judgeEv [rec0] [.eh { eh0 with trace := [⟨"f1", "m.c", "/m", "m.c", 6⟩, ⟨"go", "m.c", "/m", "m.c", 9⟩] }]) != [],
  (judgeEv [rec0] [.eh { eh0 with trace := [⟨"f1", "m.c", "/m", "m.c", 6⟩] }]) != [],
  (judgeEv [rec0] [.eh { eh0 with trace := eh0.trace ++ [⟨"f2", "m.c", "/m", "m.c", 6⟩] }]) != [],
  (judgeEv [rec0] [.eh { eh0 with trace := [⟨"go", "m.c", "/m", "m.c", 10⟩, ⟨"f1", "m.c", "/m", "m.c", 6⟩] }]) != [],
  (judgeEv [rec0] [.eh { eh0 with trace := [⟨"go", "base.c", "/m", "m.c", 9⟩, ⟨"f1", "m.c", "/m", "m.c", 6⟩] }]) != [],
  (judgeEv [rec0] [.eh { eh0 with trace := [⟨"go", "m.c", "/m#3", "m.c", 9⟩, ⟨"f1", "m.c", "/m", "m.c", 6⟩] }]) != [],
  (judgeEv [rec0] [.eh { eh0 with trace := [⟨"go", "m.c", "/m", "", 9⟩, ⟨"f1", "m.c", "/m", "m.c", 6⟩] }]) != [],
  (judgeEv [rec0] []) != [],
  (judgeEv [rec0] [.eh eh0, .eh eh0]) != [],
  (objMatch "/m#*" "/m#12" && !objMatch "/m#*" "/m" && !objMatch "/m#*" "/mx#1" && !objMatch "/m" "/m#1"),
  (judgeEv [] [.ev "m.c" evs0, .dec "m.c" [(5, "/m.c:1"), (6, "/inc.h:2")]]) == [],
  (judgeEv [] [.ev "m.c" evs0, .dec "m.c" [(4, "/m.c:1"), (7, "/inc.h:2")]]) != [],
  (judgeEv [] [.ev "m.c" evs0, .dec "m.c" [(5, "/m.c:1"), (6, "/m.c:2")]]) != [],
  (judgeEv [] [.ev "m.c" evs0, .dec "m.c" [(5, "/m.c:1"), (2, "/inc.h:2")]]) != [],
  (judgeEv [] [.ev "m.c" evs0, .tra "m.c" [(2, some (1, 0)), (2, some (2, 1)), (2, some (1, 2)), (2, none)]]) == [],
  (judgeEv [] [.ev "m.c" evs0, .tra "m.c" [(2, some (1, 0)), (1, some (2, 1)), (3, some (1, 1)), (2, none)]]) != [],
  (judgeEv [] [.ev "m.c" evs0, .tra "m.c" [(2, some (1, 0)), (2, some (2, 1)), (1, some (1, 2)), (3, none)]]) != [],
  (judgeEv [] [.ev "m.c" [.begin, .addFile 1 "m.c", .fi 1 1, .addFile 2 "t.h", .fi 2 3, .fi 1 1, .addFile 2 "t.h", .fi 2 3, .fi 1 2, .fin 0]]) != [],
  (judgeEv [] [.tab "m.c" "tab m.c psize=10 li=4:1,6:3", .tab "m.c" "tab m.c psize=10 li=4:1,6:2"]) != [],
  (judgeEv [] [.tab "m.c" "tab m.c psize=10 li=4:1,6:3", .tab "m.c" "tab m.c psize=10 li=4:1,6:3"]) == [],
  (judgeEv [rec0] [.eh eh0, .crash "sanitizer heap-buffer-overflow"]) != [],
  (judgeEv [rec0] [.loadFail] == ["setup load-failed"])]

end NV.C18.OracleTests
