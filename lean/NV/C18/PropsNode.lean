/-
C18 — `i_generate_node`: which line the bytes of a parse node are generated under.
-/
import NV.C18.Props

namespace NV.C18

open NV.Gen.C18

/-- **node_line_pending** (function code).  After `i_generate_node` has visited a node that carries a line (`expr->line
!= 0`) while function code is generated, `line_being_generated` IS that line — whether the visit called
`switch_to_line` or skipped it because the counter already held the line — for every compiler state.  Since
`switch_to_line` attributes the bytes that are pending to `line_being_generated` (`switchToLine_li`), every byte generated
between this visit and the next one that changes the counter is recorded under the visited node's line; a node without
line (0) leaves the counter alone, its bytes go to the line of the node in front. -/
theorem node_line_pending (st : Enc) (line cur : Int) (h : line ≠ 0) :
    (genNode st line cur aProgram).lineBeing = line ∧
    (genNode st 0 cur aProgram) = st := by
  constructor
  · unfold genNode nodeSwitches
    simp only [aProgram_ne_aInitializer, if_false, h, ne_eq, not_false_eq_true, decide_true, Bool.true_and]
    by_cases hl : line = st.lineBeing
    · simp [hl]
    · simp only [hl, not_false_eq_true, decide_true, if_true]
      exact switchToLine_lineBeing st line cur
  · simp [genNode, nodeSwitches]

/-- **node_line_noted** (initialiser code).  The same for the block of variable initialisers: after the visit
`init_line_being_generated` is the node's line, and when the visit switched, the line has been noted with the current
offset of the block (what `i_generate___INIT` replays, `init_block_roundtrip`). -/
theorem node_line_noted (st : Enc) (line cur : Int) (h : line ≠ 0) :
    (genNode st line cur aInitializer).initLine = line ∧
    (line ≠ st.initLine → (genNode st line cur aInitializer).initRev = (line, cur) :: st.initRev) ∧
    (line = st.initLine → genNode st line cur aInitializer = st) := by
  unfold genNode nodeSwitches switchToLine
  refine ⟨?_, ?_, ?_⟩
  · by_cases hl : line = st.initLine <;> simp [h, hl]
  · intro hl; simp [h, hl]
  · intro hl; simp [hl]

/-- non-vacuity: visiting line 7 twice switches once; a node without line in between does nothing -/
example :
    let r := nodeRun [.visit 7 1 aProgram 1, .visit 0 4 aProgram 1, .visit 7 4 aProgram 3, .visit 9 12 aProgram 1]
    r.2.reverse = [(7, 1, aProgram), (9, 12, aProgram)] ∧ r.1.lineBeing = 9 ∧ r.1.lastSize = 12 := by
  decide

end NV.C18
