/-
C18 — the stored size of the line tables (`file_info[0]`, an `unsigned short`) and a walk of `find_line` that trusts it.

The current `find_line` never looks at `file_info[0]` (`scan_unbounded`), so `compile_roundtrip` needs no bound on the
size of the tables.  A "hardened" walk that stops at the end pointer `(unsigned char *) file_info + file_info[0]` is
harmless exactly while the tables are smaller than 2^16 bytes (`scan_bound_harmless`); above that the stored size has
wrapped and the walk gives up in front of runs that exist (`bounded_scan_fails_above_64k`: Lean-checked witness with
21 846 runs and 22 KB of code).  The model mirrors such a test when the source has one (`Gen.C18.scanBounded`,
transcribed on every run), so the changed code is compared, judged (J1/J2/J7 on the large-program family) and breaks
the obligation `scan_unbounded`.
-/
import NV.C18.Props
import NV.C18.PropsInit

namespace NV.C18

open NV.Gen.C18

/-- the stored size is the real size exactly while the tables are smaller than 2^16 bytes -/
theorem size_field_exact (segs runs : Nat) (h : lnszOf segs runs < hdrMod) : sizeFieldOf segs runs = lnszOf segs runs := by
  unfold sizeFieldOf
  exact Nat.mod_eq_of_lt h

theorem hdrMod_eq : hdrMod = 65536 := rfl

/-- with `3 * (k + number of runs left)` bytes allowed the bounded walk never gives up in front of a run the unbounded
    walk stops on -/
theorem givesUp_false_of_found : ∀ (li : List Run) (off k : Int) (r : Run),
    findRun li off = some r → givesUp (3 * (k + li.length)) li off k = false := by
  intro li
  induction li with
  | nil => intro off k r h; simp [findRun] at h
  | cons a rest ih =>
    intro off k r h
    rw [findRun_cons] at h
    by_cases hc : off > (a.len : Int)
    · simp only [hc, if_true] at h
      have hne : rest ≠ [] := by
        intro e; rw [e] at h; simp [findRun] at h
      have hlen : 1 ≤ rest.length := by
        cases rest with
        | nil => exact absurd rfl hne
        | cons _ _ => simp
      have hsc : scanContinues off a.len = true := (scanContinues_iff off a.len).2 hc
      have hnot : ¬ (3 * (k + 1) ≥ 3 * (k + ((a :: rest).length : Int))) := by
        simp only [List.length_cons]; push_cast; omega
      have hrec := ih (off - a.len) (k + 1) r h
      have heq : 3 * (k + ((a :: rest).length : Int)) = 3 * (k + 1 + (rest.length : Int)) := by
        simp only [List.length_cons]; push_cast; omega
      simp only [givesUp, hsc, if_true, hnot, if_false]
      rw [heq]
      exact hrec
    · have hsc : scanContinues off a.len = false := by
        cases hx : scanContinues off a.len with
        | false => rfl
        | true => exact absurd ((scanContinues_iff off a.len).1 hx) hc
      simp [givesUp, hsc]

/-- **scan_bound_harmless** (the decode theorem with the explicit bound).  For EVERY table whose size in bytes fits the
16 bit size field (`lnsz = 4 + 4·segments + 3·runs < 2^16`, so `file_info[0]` holds the real size) and EVERY offset on
which the walk of `find_line` stops on a run, a walk that additionally stops at the end pointer computed from
`file_info[0]` does NOT give up: bounded and unbounded decoder agree.  (`compile_roundtrip` then holds for the bounded
decoder as well, under this additional size condition.) -/
theorem scan_bound_harmless (t : Tab) (off : Int) (r : Run)
    (hsz : lnszOf t.fi.length t.li.length < hdrMod) (hfield : t.sizeField = sizeFieldOf t.fi.length t.li.length)
    (hfound : findRun t.li off = some r) :
    givesUp t.allowed t.li off 0 = false := by
  have hexact := size_field_exact _ _ hsz
  have hall : t.allowed = 3 * (0 + (t.li.length : Int)) := by
    unfold Tab.allowed
    rw [hfield, hexact]
    unfold lnszOf
    push_cast
    omega
  rw [hall]
  exact givesUp_false_of_found t.li off 0 r hfound

/-! ## above the bound -/

theorem lenSum_replicate (n len line : Nat) : lenSum (List.replicate n ⟨len, line⟩) = (n : Int) * len := by
  induction n with
  | zero => simp [lenSum]
  | succ m ih =>
    have : lenSum (List.replicate (m + 1) ⟨len, line⟩) = (len : Int) + lenSum (List.replicate m ⟨len, line⟩) := by
      simp [lenSum, List.replicate_succ]
    rw [this, ih]
    push_cast
    rw [Int.add_mul]
    omega

/-- walking over `n ≥ 1` one-byte runs towards an offset behind them, with at most `3 * (k + n)` bytes allowed, gives up -/
theorem givesUp_replicate (allowed : Int) (line : Nat) (rest : List Run) : ∀ (n : Nat) (off k : Int),
    1 ≤ n → off > (n : Int) → allowed ≤ 3 * (k + n) →
    givesUp allowed (List.replicate n ⟨1, line⟩ ++ rest) off k = true := by
  intro n
  induction n with
  | zero => intro off k h; omega
  | succ m ih =>
    intro off k _ hoff hall
    have hsc : scanContinues off ((⟨1, line⟩ : Run).len) = true := by
      apply (scanContinues_iff off 1).2
      omega
    simp only [List.replicate_succ, List.cons_append, givesUp, hsc, if_true]
    by_cases hk : 3 * (k + 1) ≥ allowed
    · simp [hk]
    · simp only [hk, if_false]
      have hm : 1 ≤ m := by
        rcases Nat.eq_zero_or_pos m with h0 | h0
        · subst h0
          push_cast at hall
          omega
        · exact h0
      exact ih (off - 1) (k + 1) hm (by push_cast at hoff ⊢; omega) (by push_cast at hall ⊢; omega)

/-- the witness table: 21 845 one-byte runs (line 5) and a final run of 10 bytes (line 6) — 21 855 bytes of code, one
    `file_info` segment; the tables are 4 + 4 + 3 · 21 846 = 65 546 bytes, so `file_info[0]` holds 10 -/
def bigTab : Tab :=
  { psize := 21855, fi := [⟨10, 1⟩], li := List.replicate 21845 ⟨1, 5⟩ ++ [⟨10, 6⟩], names := [(1, "m.c")],
    sizeField := sizeFieldOf 1 21846 }

theorem bigTab_li : bigTab.li = List.replicate 21845 ⟨1, 5⟩ ++ [⟨10, 6⟩] := rfl

/-- **bounded_scan_fails_above_64k** (witness above the bound).  For the table `bigTab` — 65 546 bytes of line tables
with only 21 855 bytes of code — the stored size has wrapped (`file_info[0] = 10`); the walk of `find_line` as it is
finds the run of the last statement (line 6) for the offset 21 850, while a walk that stops at the end pointer
computed from `file_info[0]` gives up: "(no line numbers)", file "" line 0 in the error mapping. -/
theorem bounded_scan_fails_above_64k :
    bigTab.sizeField = 10 ∧ lnszOf 1 21846 = 65546 ∧
    findRun bigTab.li 21850 = some ⟨10, 6⟩ ∧ findLine bigTab 21850 = .ok 1 6 ∧
    givesUp bigTab.allowed bigTab.li 21850 0 = true := by
  have hsz : bigTab.sizeField = 10 := by decide
  have hfr : findRun bigTab.li 21850 = some ⟨10, 6⟩ := by
    have h := findRun_append_out (List.replicate 21845 ⟨1, 5⟩) [⟨10, 6⟩] 5 (by decide)
    rw [lenSum_replicate] at h
    have e : ((21845 : Nat) : Int) * ((1 : Nat) : Int) + 5 = 21850 := by decide
    rw [e] at h
    rw [bigTab_li, h]
    decide
  refine ⟨hsz, by decide, hfr, ?_, ?_⟩
  · unfold findLine
    have h1 : bigTab.noInfo = false := rfl
    have h2 : psizeRejects 21850 (bigTab.psize : Int) = false := by decide
    simp only [h1, h2, scan_unbounded, Bool.false_and, Bool.false_eq_true, if_false, hfr]
    decide
  · have hall : bigTab.allowed = 2 := by
      unfold Tab.allowed
      rw [hsz]
      decide
    rw [hall, bigTab_li]
    exact givesUp_replicate 2 5 [⟨10, 6⟩] 21845 21850 0 (by decide) (by decide) (by decide)

end NV.C18
