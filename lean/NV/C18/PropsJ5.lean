/-
C18 — oracle clause J5 (no opened file gets a file id that a `file_info` segment written before already uses) holds for
the event stream of the modelled compiler, for every include layout: clause J5 of the top theorem.
-/
import NV.C18.Props

namespace NV.C18

open NV.Gen.C18

/-- the hook events (`f:<id>:<lines>`, `a:<id>:<name>`) the bookkeeping of one lexer step produces -/
def cevOf (s : Lex) : LexEv → List CEv
  | .nl => []
  | .incl f => [.fi s.fileId (s.curLine + 1 - 1 - s.saved), .addFile f ""]
  | .eof =>
    match s.stack with
    | [] => []
    | _ :: _ => [.fi s.fileId (s.curLine - s.saved)]

def cevsOf : Lex → List LexEv → List CEv
  | _, [] => []
  | s, e :: rest => cevOf s e ++ cevsOf (lexStep s e) rest

/-- one step of the oracle's scan (`reusedIds`) -/
def ridStep (acc : List Nat × List Nat) (e : CEv) : List Nat × List Nat :=
  match e with
  | .fi f _ => (f.toNat :: acc.1, acc.2)
  | .addFile f _ => if acc.1.contains f then (acc.1, f :: acc.2) else acc
  | _ => acc

theorem reusedIds_eq (evs : List CEv) : reusedIds evs = (evs.foldl ridStep ([], [])).2.reverse := rfl

/-- all ids in play fit 16 bits -/
def Small (s : Lex) : Prop := s.fileId < lineMod ∧ ∀ p ∈ s.stack, p.2 < lineMod

theorem j5_run (evs : List LexEv) : ∀ (s : Lex) (seen : List Nat), Small s → (∀ x ∈ seen, x ∈ used s) → Fresh s evs →
    ((cevsOf s evs).foldl ridStep (seen, [])).2 = [] := by
  induction evs with
  | nil => intro s seen _ _ _; rfl
  | cons e rest ih =>
    intro s seen hsm hseen hf
    simp only [cevsOf, List.foldl_append]
    cases e with
    | nl =>
      simp only [Fresh] at hf
      have hu : used (lexStep s .nl) = used s := by simp [used, lexStep]
      exact ih (lexStep s .nl) seen (by simpa [Small, lexStep] using hsm) (by rw [hu]; exact hseen) hf
    | incl f =>
      simp only [Fresh] at hf
      obtain ⟨hnot, hlt, hrest⟩ := hf
      have hself : s.fileId ∈ used s := by simp [used]
      have hfne : ¬ (s.fileId :: seen).contains f = true := by
        intro hc
        have hmem : f ∈ s.fileId :: seen := by simpa using hc
        rcases List.mem_cons.1 hmem with h | h
        · exact hnot (h ▸ hself)
        · exact hnot (hseen f h)
      have hstep : (cevOf s (.incl f)).foldl ridStep (seen, []) = (s.fileId :: seen, []) := by
        simp only [cevOf, List.foldl_cons, List.foldl_nil, ridStep, Int.toNat_natCast]
        have h1 : ¬ f = s.fileId := fun h => hnot (h ▸ hself)
        have h2 : ¬ f ∈ seen := fun h => hnot (hseen f h)
        simp [h1, h2]
      rw [hstep]
      refine ih (lexStep s (.incl f)) (s.fileId :: seen) ?_ ?_ hrest
      · refine ⟨by simpa [lexStep] using hlt, ?_⟩
        intro p hp
        simp only [lexStep, Lex.save, List.mem_cons] at hp
        rcases hp with h | h
        · rw [h]; exact hsm.1
        · exact hsm.2 p h
      · intro x hx
        have hx' : x ∈ used s := by
          rcases List.mem_cons.1 hx with h | h
          · exact h ▸ hself
          · exact hseen x h
        simp only [used, lexStep, Lex.save, List.map_cons, List.map_append, List.mem_cons, List.mem_append] at hx' ⊢
        rcases hx' with h | h | h
        · exact Or.inr (Or.inl (Or.inl h))
        · exact Or.inr (Or.inl (Or.inr h))
        · exact Or.inr (Or.inr (Or.inl h))
    | eof =>
      simp only [Fresh] at hf
      cases hs : s.stack with
      | nil =>
        have hl : lexStep s .eof = s := by simp [lexStep, hs]
        simp only [cevOf, hs, List.foldl_nil]
        rw [hl] at hf ⊢
        exact ih s seen hsm hseen hf
      | cons top r =>
        obtain ⟨l, fid⟩ := top
        have hstep : (cevOf s .eof).foldl ridStep (seen, []) = (s.fileId :: seen, []) := by
          simp [cevOf, hs, ridStep]
        rw [hstep]
        have hu16 : u16 (s.fileId : Int) = s.fileId := u16_nat _ hsm.1
        refine ih (lexStep s .eof) (s.fileId :: seen) ?_ ?_ hf
        · refine ⟨?_, ?_⟩
          · simpa [lexStep, hs] using hsm.2 (l, fid) (by rw [hs]; exact List.mem_cons_self)
          · intro p hp
            have : p ∈ r := by simpa [lexStep, hs] using hp
            exact hsm.2 p (by rw [hs]; exact List.mem_cons_of_mem _ this)
        · intro x hx
          simp only [used, lexStep, hs, Lex.save, List.map_append, List.map_cons, List.map_nil, List.mem_cons,
            List.mem_append, hu16]
          rcases List.mem_cons.1 hx with h | h
          · exact Or.inr (Or.inr (Or.inr (by simp [h])))
          · have hx' := hseen x h
            simp only [used, hs, List.map_cons, List.mem_cons, List.mem_append] at hx'
            rcases hx' with h1 | (h1 | h1) | h1
            · exact Or.inr (Or.inr (Or.inr (by simp [h1])))
            · exact Or.inl h1
            · exact Or.inr (Or.inl h1)
            · exact Or.inr (Or.inr (Or.inl h1))

/-- **model_never_reuses_ids** (clause J5 of the top theorem).  For EVERY include layout — the lexer events of a
compilation over main file `main`, with the file ids the repaired `program_file_id` allocates (`fresh_idsOf` shows that
they satisfy `Fresh`) — the oracle's scan of the compiler's hook events finds NO opened file whose id a segment written
before already uses: `reusedIds = []`. -/
theorem model_never_reuses_ids (main : Nat) (hm : main < lineMod) (evs : List LexEv)
    (hf : Fresh { fileId := main } evs) : reusedIds (cevsOf { fileId := main } evs) = [] := by
  rw [reusedIds_eq]
  have := j5_run evs { fileId := main } [] ⟨hm, by intro p hp; simp at hp⟩ (by intro x hx; simp at hx) hf
  rw [this]
  rfl

/-- … in particular for the ids the model of `program_file_id` chooses, whatever is included how often -/
theorem model_never_reuses_ids_N (main : Nat) (evs : List LexEvN)
    (hfit : (lexRunN (initN main) evs).lex.abs < (lineMod : Int))
    (htbl : (lexRunN (initN main) evs).tbl.length < lineMod) :
    reusedIds (cevsOf { fileId := 1 } (idsOf (initN main) evs)) = [] :=
  model_never_reuses_ids 1 (by decide) _ (fresh_idsOf evs (initN main) (inv_init 1 (by decide)) (tinv_init main) hfit htbl)

/-- non-vacuity: header 7 included twice and once more through header 8: ids 2, 3 (a fresh one for the second copy), 4, 5 -/
example :
    let evs : List LexEvN := [.nl, .incl 7, .nl, .eof, .incl 7, .incl 8, .incl 7, .nl, .eof, .eof, .eof, .nl]
    (cevsOf { fileId := 1 } (idsOf (initN 5) evs)).filterMap (fun | .addFile f _ => some f | _ => none) = [2, 3, 4, 5] ∧
    reusedIds (cevsOf { fileId := 1 } (idsOf (initN 5) evs)) = [] ∧
    reusedIds [.fi 1 3, .addFile 2 "t.h", .fi 2 2, .fi 1 1, .addFile 2 "t.h"] = [2] := by
  decide

end NV.C18
