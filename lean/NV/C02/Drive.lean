/-
C02 driver.  `model` mode REPLAYS an implementation trace: every `ev` line that starts a bookkeeping operation is
abstracted to its event (cursor and size are dropped, only the operation and its arguments are kept), the model
recomputes every (cursor, size) pair and prints the trace it predicts; all other lines are echoed.  The check diffs
that output against the implementation trace.  `judge` mode runs the specification oracle on the implementation trace.
-/
import NV.Common.Proto
import NV.C02.Model
import NV.C02.Spec
import NV.C02.LexBuf

namespace NV.C02

open NV.Proto

def boolStr (b : Bool) : String := if b then "1" else "0"
def nameStr (n : Id) : String := if n == "" then "-" else n

def render : Out → String
  | .ev name c s => s!"ev {name} {c} {s}"
  | .ident l sa n p lb sb => s!"ev local.ident {l} {sa} {nameStr n} {boolStr p} {lb} {sb}"
  | .identBind k a sa n p bf sb => s!"ev ident.bind.{k} {a} {sa} {nameStr n} {boolStr p} {bf} {sb}"
  | .identClean n d => s!"ev ident.clean {d} 0 {nameStr n}"
  | .identEnd n d f g c l => s!"ident.end {n} delta={d} fn={f} glob={g} cls={c} local={l}"
  | .localsEnd c m lo t => s!"locals.end cur={c} max={m} name={lo} type={t}"
  | .scr n t sz l lg none => s!"ev {n} {t} {sz} {l} {lg}"
  | .scr n t sz l lg (some k) => s!"ev {n} {t} {sz} {l} {lg} {k}"
  | .scrEnd l t lg => s!"scratch.end last={l} tail={t} large={lg}"
  | .crash w => s!"crash model {w}"

def afterEq (s : String) : Option Int := match s.splitOn "=" with
  | [_, v] => v.toInt?
  | _ => none

def parseLine (line : String) : Line :=
  match toks line with
  | ["ev", "local.ident", l, sa, n, p, lb, sb] =>
    match l.toInt?, sa.toInt?, lb.toInt?, sb.toInt? with
    | some l, some sa, some lb, some sb => .out (.ident l sa (if n == "-" then "" else n) (p == "1") lb sb)
    | _, _, _, _ => .other line
  | ["ev", "ident.clean", d, _, n] =>
    match d.toInt? with
    | some d => .out (.identClean (if n == "-" then "" else n) d)
    | none => .other line
  | ["ev", bname, a, sa, n, p, bf, sb] =>
    match a.toInt?, sa.toInt?, bf.toInt?, sb.toInt?, bname.startsWith "ident.bind." with
    | some a, some sa, some bf, some sb, true =>
      .out (.identBind (bname.drop 11).toString a sa (if n == "-" then "" else n) (p == "1") bf sb)
    | _, _, _, _, _ => .other line
  | ["ev", name, t, sz, l, lg] =>
    match t.toNat?, sz.toNat?, l.toNat?, lg.toNat?, name.startsWith "scr." with
    | some t, some sz, some l, some lg, true => .out (.scr name t sz l lg none)
    | _, _, _, _, _ => .other line
  | ["ev", name, t, sz, l, lg, k] =>
    match t.toNat?, sz.toNat?, l.toNat?, lg.toNat?, k.toNat?, name.startsWith "scr." with
    | some t, some sz, some l, some lg, some k, true => .out (.scr name t sz l lg (some k))
    | _, _, _, _, _, _ => .other line
  | ["ev", name, c, s] =>
    match c.toInt?, s.toInt? with
    | some c, some s => .out (.ev name c s)
    | _, _ => .other line
  | ["ident.end", n, d, f, g, c, l] =>
    match afterEq d, afterEq f, afterEq g, afterEq c, afterEq l with
    | some d, some f, some g, some c, some l => .out (.identEnd n d f g c l)
    | _, _, _, _, _ => .other line
  | ["locals.end", c, m, lo, t] =>
    match afterEq c, afterEq m, afterEq lo, afterEq t with
    | some c, some m, some lo, some t => .out (.localsEnd c.toNat m.toNat lo.toNat t.toNat)
    | _, _, _, _ => .other line
  | ["scratch.end", l, t, lg] =>
    match afterEq l, afterEq t, afterEq lg with
    | some l, some t, some lg => .out (.scrEnd l.toNat t.toNat lg.toNat)
    | _, _, _ => .other line
  | ["cfg", "maxlocals", n] => match n.toNat? with | some n => .cfg n | none => .other line
  | "result" :: rest => .result rest
  | "probe" :: _ => .probe (line.drop 6).toString
  | "crash" :: _ => .crashLine line
  | "sanitizer" :: _ => .crashLine line
  | ["ev-truncated"] => .truncated
  | "aprobe-differs" :: _ => .aprobeDiff line
  | "ident.base-odd" :: _ => .baseOdd line
  | _ => .other line

/-- names of trace points that continue an operation already started by an earlier line -/
def continuation (n : String) : Bool :=
  ["local.name", "local.pop", "locals.realloc.type", "locals.realloc.name", "literal.enter.type",
   "literal.enter.name", "literal.leave.type", "literal.leave.name", "local.reactivate", "mem.alloc", "mem.before", "inc.num",
   "lex.start.if", "lex.start.fnflag", "lex.end.if", "ident.free_unused",
   "lbuf.add.scan.nl", "lbuf.add.scan.eof", "lbuf.add.toolong", "lbuf.add.overflow", "lbuf.add.new", "lbuf.add.newend",
   "lbuf.add.inplace"].contains n

/-- one `add_input` call replayed through `addInput`: the request line carries (outptr offset, strlen), the scan line
    (present only on the no-room path) what the walk to the end of the line found.  Inside a buffer that add_input
    allocated itself (`inAdd`) the model also predicts the scan: the newline sits at DEFMAX - addEndSlack - 1. -/
def replayAdd (inAdd : Bool) (outp len : Nat) (rest : List Line) : List Out :=
  let reqName := if inAdd then "lbuf.add.req.a" else "lbuf.add.req"
  let traced : Option (Bool × Nat × Int) := match rest with
    | .out (.ev "lbuf.add.scan.nl" r a) :: _ => some (true, r.toNat, a)
    | .out (.ev "lbuf.add.scan.eof" r a) :: _ => some (false, r.toNat, a)
    | _ => none
  let scan : Option (Bool × Nat) :=
    if inAdd then
      (if outp + NV.Gen.C02.addEndSlack + 1 ≤ NV.Gen.C02.defmax then some (true, NV.Gen.C02.defmax - NV.Gen.C02.addEndSlack - 1 - outp) else none)
    else traced.map (fun t => (t.1, t.2.1))
  let avail : Int := if inAdd then ((NV.Gen.C02.defmax - NV.Gen.C02.addEndSlack - 1 - outp : Nat) : Int)
                     else match traced with | some t => t.2.2 | none => 0
  let scanLine (sc : Bool × Nat) : Out := .ev (if sc.1 then "lbuf.add.scan.nl" else "lbuf.add.scan.eof") sc.2 avail
  let req := Out.ev reqName outp len
  match addInput outp len scan, scan with
  | .tooLong, _ => [req, .ev "lbuf.add.toolong" 0 0]
  | .inplace o, _ => [req, .ev "lbuf.add.inplace" o NV.Gen.C02.defmax]
  | .overflow false, _ => [req, .crash "add_input: no room and no scan in the trace"]
  | .overflow true, some sc => [req, scanLine sc, .ev "lbuf.add.overflow" 0 0]
  | .fresh o e, some sc => [req, scanLine sc, .ev "lbuf.add.new" o NV.Gen.C02.defmax, .ev "lbuf.add.newend" e (NV.Gen.C02.defmax - 1)]
  | _, _ => [req, .crash "add_input: inconsistent replay"]

/-- the identifier line that follows `local.type` (within the same add_local_name) -/
def findIdent : List Line → Nat → Option (Id × Bool × Int)
  | _, 0 => none
  | [], _ => none
  | .out (.ident _ _ n p _ sb) :: _, _ => some (n, p, sb)
  | _ :: rest, k + 1 => findIdent rest k

/-- the name-table offset the implementation returned to (`literal.leave.name`, within the same literal end) -/
def findLeaveName : List Line → Nat → Option Int
  | _, 0 => none
  | [], _ => none
  | .out (.ev "literal.leave.name" lo _) :: _, _ => some lo
  | _ :: rest, k + 1 => findLeaveName rest k

/-- which open literal ends: the innermost saved block with these counts (and, when the trace shows it, this start
    offset); the blocks above it were abandoned by bison's error recovery -/
def frameIndex (fs : List Frame) (c m : Int) (lo : Option Int) : Option Nat :=
  fs.findIdx? (fun f => (f.c : Int) == c && (f.m : Int) == m &&
    (match lo with | some lo => (f.lo : Int) == lo | none => true))

/-- abstraction of one trace line (given the lines after it and the model state) to an event -/
def toEvent (s : St) (name : String) (c sz : Int) (rest : List Line) : Except String (Option Ev) :=
  match name with
  | "local.full" => .ok (some (.addLocal "" false 0))
  | "local.type" =>
    match findIdent rest 3 with
    | some (n, p, sb) => .ok (some (.addLocal n p sb))
    | none => .ok (some (.addLocal "?" false 0))
  | "local.pop_n" => .ok (some (.popN c.toNat))
  | "local.free_all" => .ok (some .freeAll)
  | "local.deactivate" => .ok (some .enterLit)
  | "literal.leave.saved" =>
    match frameIndex s.loc.frames c sz (findLeaveName rest 3) with
    | some d => .ok (some (.leaveLit d))
    | none => .error s!"desync: no open literal saved ({c},{sz})"
  | "local.argtypes" => .ok (some (.argTypes (c - s.loc.tOff).toNat))
  | "local.cleanup" => .ok (some .cleanup)
  | "local.fn_reset" => .ok (some .fnReset)
  | "mem.req" =>
    let sync := match rest with
      | .out (.ev "mem.before" c0 m0) :: _ => some (c0.toNat, m0.toNat)
      | _ => none
    .ok (some (.memReq c.toNat sz.toNat sync))
  | "inc.refused" => .ok (some (.incAttempt true))
  | "inc.push" => .ok (some (.incAttempt true))
  | "inc.fail" => .ok (some (.incAttempt false))
  | "inc.pop" => .ok (some .incPop)
  | "lex.start" => .ok (some .lexStart)
  | "lex.end" => .ok (some .lexEnd)
  | "if.push" => .ok (some .ifPush)
  | "if.pop" => .ok (some .ifPop)
  | "if.unwind" => .ok (some .ifUnwind)
  | "fnctx.push" => .ok (some .fnPush)
  | "fnctx.full" => .ok (some .fnPush)
  | "fnctx.pop" => .ok (some .fnPop)
  | "fnflag.set" => .ok (some .fnFlagSet)
  | _ => if continuation name then .ok none else .error s!"desync: unknown trace point {name}"

structure Replay where
  st : St := St.init NV.Gen.C02.defaultMaxLocals
  out : List String := []      -- newest first
  evs : List Ev := []          -- newest first
  echo : Bool := false         -- after a truncated trace everything is echoed

def replayGo : List Line → List String → Replay → Replay
  | [], _, r => r
  | _ :: _, [], r => r
  | l :: ls, raw :: raws, r =>
    if r.echo then replayGo ls raws { r with out := raw :: r.out } else
    match l with
    | .cfg n =>
      let r := if r.st.loc.N = n then r else { r with st := { r.st with loc := { r.st.loc with N := n, tsize := max r.st.loc.tsize n, lsize := max r.st.loc.lsize n } } }
      replayGo ls raws { r with out := raw :: r.out }
    | .truncated => replayGo ls raws { r with out := raw :: r.out, echo := true }
    | .out (.ev name c sz) =>
      if name.startsWith "obs." then replayGo ls raws { r with out := raw :: r.out } else
      if name == "lbuf.add.req" || name == "lbuf.add.req.a" then
        let os := replayAdd (name == "lbuf.add.req.a") c.toNat sz.toNat ls
        replayGo ls raws { r with out := (os.map render).reverse ++ r.out }
      else
      match toEvent r.st name c sz ls with
      | .error msg => replayGo ls raws { r with out := msg :: r.out }
      | .ok none => replayGo ls raws r
      | .ok (some e) =>
        let (st', os) := step r.st e
        replayGo ls raws { r with st := st', out := (os.map render).reverse ++ r.out, evs := e :: r.evs }
    | .out (.identBind k after _ name perm _ sb) =>
      match (match k with | "fn" => some Kind.fn | "global" => some Kind.glob | "class" => some Kind.cls | _ => none) with
      | none => replayGo ls raws { r with out := s!"desync: unknown name space {k}" :: r.out }
      | some kind =>
        let e := Ev.bind kind name perm after.toNat sb
        let (st', os) := step r.st e
        replayGo ls raws { r with st := st', out := (os.map render).reverse ++ r.out, evs := e :: r.evs }
    | .out (.scr name t _ l _ k) =>
      let ev : Option Ev := match name with
        | "scr.push" => some (.scrAlloc (t - l))
        | "scr.large" => some .scrLarge
        | "scr.free_last" => some (.scrFreeLast (k.getD 0))
        | "scr.resize" => some (.scrResize (t - l))
        | "scr.join" => some .scrJoin
        | "scr.mark" => some .scrMark
        | "scr.free_block" => some .scrFreeBlock
        | "scr.destroy" => some .scrDestroy
        | _ => none            -- scr.after is printed by the model together with scr.free_last
      match ev with
      | none => replayGo ls raws r
      | some e =>
        let (st', os) := step r.st e
        replayGo ls raws { r with st := st', out := (os.map render).reverse ++ r.out, evs := e :: r.evs }
    | .out _ => replayGo ls raws r          -- identifier / end-of-compile reports are produced by the model
    | _ => replayGo ls raws { r with out := raw :: r.out }

/-- names the trace marks as permanent identifiers (efun / simul_efun / reserved) -/
def permNames (ls : List Line) : List Id :=
  ls.filterMap (fun l => match l with
    | .out (.ident _ _ n true _ _) => some n
    | .out (.identBind _ _ _ n true _ _) => some n
    | _ => none)

def replay (lines : List String) : Replay :=
  let lines := lines.filter (fun l => l.trimAscii.toString ≠ "")
  let parsed := lines.map parseLine
  let perms := permNames parsed
  replayGo parsed lines { st := St.init NV.Gen.C02.defaultMaxLocals (fun id => perms.contains id) }

def runModel (lines : List String) : List String := (replay lines).out.reverse

def runJudge (body : List String) : List String :=
  let (_input, impl) := splitJudge body
  match judge (impl.map parseLine) with
  | [] => ["ok"]
  | vs => vs.map (fun v => s!"bad {v}")

def main (mode : String) : IO Unit :=
  match mode with
  | "model" => serve runModel
  | "judge" => serve runJudge
  | _ => IO.eprintln s!"C02: unknown mode {mode}"

end NV.C02
