/-
C02 — bridging lemmas between the hand-written steps of `stepLoc` (Model.lean) and the definitions REGENERATED from the
action text of grammar.y (function literal start / end) and from compiler.c (add_local_name, reallocate_locals):
which cursor guards `reallocate_locals()`, which counter moves which pointer, the statement order, the index of each
table store, the growth of each table, the width of the counters kept on bison's stack.  A changed guard / operand /
order in the source changes the generated definition and these lemmas stop being provable (obligation broken).
-/
import NV.C02.Props

namespace NV.C02

open NV.Gen.C02

/-- **literal_enter_matches_source** — the model's `enterLit` step is the grammar's action: the regenerated test decides
    whether the tables grow (by the regenerated amounts, all three tables together), the pointers move by the
    regenerated counters, the saved block is (num_local, max_num_locals, locals_off, type_off) and the statements
    stand in the modelled order. -/
theorem literal_enter_matches_source (l : Loc) (hb : l.bad = false) :
    enterOrderOk = true ∧ rtFollowsNames = true ∧
    (stepLoc l .enterLit).1.tsize =
      (if reallocTest l.tOff l.lOff l.cur l.max l.N l.tsize l.lsize then l.tsize + reallocGrowType l.N else l.tsize) ∧
    (stepLoc l .enterLit).1.lsize =
      (if reallocTest l.tOff l.lOff l.cur l.max l.N l.tsize l.lsize then l.lsize + reallocGrowName l.N else l.lsize) ∧
    ((stepLoc l .enterLit).1.bad = false →
      (stepLoc l .enterLit).1.lOff = l.lOff + enterNameAdv l.cur l.max ∧
      (stepLoc l .enterLit).1.lOff = l.lOff + enterRtAdv l.cur l.max ∧
      (stepLoc l .enterLit).1.tOff = l.tOff + enterTypeAdv l.cur l.max ∧
      (stepLoc l .enterLit).1.cur = 0 ∧ (stepLoc l .enterLit).1.max = 0 ∧
      (stepLoc l .enterLit).1.frames = ⟨l.cur, l.max, l.lOff, l.tOff⟩ :: l.frames) := by
  have hg : reallocTest l.tOff l.lOff l.cur l.max l.N l.tsize l.lsize = decide (l.tsize ≤ l.tOff + l.max + l.N) := by
    simp [reallocTest]
  refine ⟨by decide, by decide, ?_, ?_, ?_⟩
  · rw [hg]
    simp only [stepLoc, hb, Bool.false_eq_true, if_false, reallocGrowType]
    by_cases h1 : l.tsize ≤ l.tOff + l.max + l.N <;> simp only [h1, if_true, if_false, decide_true, decide_false] <;>
      split <;> simp [Loc.crash]
  · rw [hg]
    simp only [stepLoc, hb, Bool.false_eq_true, if_false, reallocGrowName]
    by_cases h1 : l.tsize ≤ l.tOff + l.max + l.N <;> simp only [h1, if_true, if_false, decide_true, decide_false] <;>
      split <;> simp [Loc.crash]
  · simp only [stepLoc, hb, Bool.false_eq_true, if_false, enterNameAdv, enterRtAdv, enterTypeAdv]
    by_cases h1 : l.tsize ≤ l.tOff + l.max + l.N <;> simp only [h1, if_true, if_false] <;>
      split <;> simp [Loc.crash]

/-- **add_local_matches_source** — add_local_name: the regenerated limit test is the model's `N ≤ max`, the type store
    goes to index max_num_locals and the name store to index current_number_of_locals of the current windows. -/
theorem add_local_matches_source (l : Loc) (id : Id) (p : Bool) (s0 : Int) (hb : l.bad = false) :
    (localFullTest l.cur l.max l.N = true → (stepLoc l (.addLocal id p s0)).1 = l) ∧
    (localFullTest l.cur l.max l.N = false →
      (stepLoc l (.addLocal id p s0)).2.take 2 =
        [Out.ev "local.type" ((l.tOff + addTypeIdx l.cur l.max + 1 : Nat) : Int) l.tsize,
         Out.ev "local.name" ((l.lOff + addNameIdx l.cur l.max + 1 : Nat) : Int) l.lsize]) := by
  have hg : localFullTest l.cur l.max l.N = decide (l.N ≤ l.max) := by simp [localFullTest]
  rw [hg]
  constructor
  · intro h
    have h' : l.N ≤ l.max := by simpa using h
    simp [stepLoc, hb, h']
  · intro h
    have h' : ¬ l.N ≤ l.max := by simpa using h
    simp only [stepLoc, hb, h', Bool.false_eq_true, if_false, addTypeIdx, addNameIdx]
    split <;> simp [Loc.crash]

/-- **literal_leave_matches_source** — the end-of-literal action restores every cursor from the field of the saved block
    the model uses, releases abandoned entries down to `locals_off + num_local`, in the modelled order. -/
theorem literal_leave_matches_source :
    leaveOrderOk = true ∧ ∀ c m lo to : Nat,
      leaveCur c m lo to = c ∧ leaveMax c m lo to = m ∧ leaveNameOff c m lo to = lo ∧ leaveTypeOff c m lo to = to ∧
      leaveRtOff c m lo to = lo ∧ leaveReleaseTo c m lo to = lo + c :=
  ⟨by decide, fun _ _ _ _ => ⟨rfl, rfl, rfl, rfl, rfl, rfl⟩⟩

theorem chain_all {N ts : Nat} : ∀ (fs : List Frame) {lo to : Nat}, Chain N ts lo to fs → ∀ f ∈ fs, f.c ≤ f.m ∧ f.m ≤ N
  | [], _, _, _, f, hf => by simp at hf
  | g :: rest, lo, to, h, f, hf => by
    simp only [Chain] at h
    obtain ⟨_, _, _, d, e, _, r⟩ := h
    simp only [List.mem_cons] at hf
    rcases hf with hf | hf
    · subst hf; exact ⟨d, e⟩
    · exact chain_all rest r f hf

/-- **counters_fit_their_fields** — widths.  Whatever the source text does, the two counts the grammar saves in
    `$<func_block>` for every open function literal and the local numbers parked in `runtime_locals[]` never exceed
    MaxLocalVariables; so they fit their C types (regenerated: `fbNumLocalMax`, `fbMaxNumLocalsMax`, `rtLocalNumMax`)
    for every configuration `N` up to those limits - in particular for the default and for values above 127. -/
theorem counters_fit_their_fields (N : Nat) (evs : List Ev)
    (h1 : N ≤ fbNumLocalMax) (h2 : N ≤ fbMaxNumLocalsMax) (h3 : N ≤ rtLocalNumMax + 1) :
    let l := (runLoc (Loc.init N) evs).1
    (∀ f ∈ l.frames, f.c ≤ fbNumLocalMax ∧ f.m ≤ fbMaxNumLocalsMax) ∧ l.cur ≤ l.max ∧ l.max ≤ rtLocalNumMax + 1 := by
  intro l
  have h := (runLoc_inv evs (Loc.init N) (locInv_init N)).1
  have hN : l.N = N := by
    exact runLoc_N evs (Loc.init N) (locInv_init N)
  refine ⟨?_, h.curMax, ?_⟩
  · intro f hf
    have hc : f.c ≤ f.m ∧ f.m ≤ l.N := chain_all l.frames h.chain f hf
    rw [hN] at hc
    exact ⟨by omega, by omega⟩
  · have hmax : l.max ≤ l.N := h.maxN
    rw [hN] at hmax
    omega
where
  runLoc_N : ∀ (evs : List Ev) (l0 : Loc), LocInv l0 → (runLoc l0 evs).1.N = l0.N := by
    intro evs
    induction evs with
    | nil => intro l0 _; rfl
    | cons e es ih =>
      intro l0 h0
      have h1 := (stepLoc_inv l0 e h0).1
      have hN : (stepLoc l0 e).1.N = l0.N := by
        cases e with
        | addLocal id p s0 =>
          by_cases hf : l0.N ≤ l0.max
          · simp only [stepLoc, h0.notBad, hf, if_true, Bool.false_eq_true, if_false]
          · rw [shape_addLocal l0 id p s0 h0 hf]
        | popN n => rw [shape_popN l0 n h0]
        | freeAll => rw [shape_freeAll l0 h0]
        | cleanup => rw [shape_cleanup l0 h0]
        | fnReset => rw [shape_fnReset l0 h0]
        | enterLit =>
          simp only [stepLoc, h0.notBad, Bool.false_eq_true, if_false]
          split <;> split <;> simp [Loc.crash]
        | leaveLit d =>
          simp only [stepLoc, h0.notBad, Bool.false_eq_true, if_false]
          split
          · rfl
          · split
            · split <;> simp [Loc.crash]
            · simp [Loc.crash]
        | argTypes k =>
          simp only [stepLoc, h0.notBad, Bool.false_eq_true, if_false]
          split <;> simp [Loc.crash]
        | _ => simp only [stepLoc, h0.notBad, Bool.false_eq_true, if_false]
      simp only [runLoc]
      rw [ih _ h1, hN]

/-- the default configuration and a configuration of 200 locals are inside the limits of `counters_fit_their_fields` -/
theorem default_locals_fit : defaultMaxLocals ≤ fbNumLocalMax ∧ defaultMaxLocals ≤ fbMaxNumLocalsMax ∧
    defaultMaxLocals ≤ rtLocalNumMax + 1 ∧ 200 ≤ fbNumLocalMax ∧ 200 ≤ rtLocalNumMax + 1 := by decide

example : ((runLoc (Loc.init 200) ((List.replicate 130 (Ev.addLocal "x" false 0)) ++ [.enterLit])).1.frames.map (·.c)) = [130] := by
  decide

end NV.C02
