/-
C02 — helper lemmas: invariant of the locals machine.
-/
import NV.C02.Model
import NV.C02.Spec

namespace NV.C02

open NV.Gen.C02

/-- the saved blocks of the open literals (innermost first) lie below the current pointers and below each other -/
def Chain (N tsize : Nat) : Nat → Nat → List Frame → Prop
  | _, _, [] => True
  | lo, to, f :: rest =>
    f.lo + f.c ≤ lo ∧ f.to + f.m ≤ to ∧ f.lo ≤ f.to ∧ f.c ≤ f.m ∧ f.m ≤ N ∧ f.to + N ≤ tsize ∧ Chain N tsize f.lo f.to rest

theorem chain_mono {N ts ts' : Nat} (hts : ts ≤ ts') : ∀ (fs : List Frame) {lo to lo' to' : Nat}, lo ≤ lo' → to ≤ to' →
    Chain N ts lo to fs → Chain N ts' lo' to' fs
  | [], _, _, _, _, _, _, _ => trivial
  | f :: rest, lo, to, lo', to', h1, h2, h => by
    simp only [Chain] at h ⊢
    obtain ⟨a, b, c, d, e, g, r⟩ := h
    exact ⟨by omega, by omega, c, d, e, by omega, chain_mono hts rest (Nat.le_refl _) (Nat.le_refl _) r⟩

theorem chain_drop {N ts : Nat} : ∀ (d : Nat) (fs : List Frame) {lo to : Nat}, Chain N ts lo to fs → Chain N ts lo to (fs.drop d)
  | 0, fs, _, _, h => by simpa using h
  | _ + 1, [], _, _, _ => by simp [Chain]
  | d + 1, f :: rest, lo, to, h => by
    simp only [Chain] at h
    obtain ⟨a, b, c, _, _, _, r⟩ := h
    simp only [List.drop_succ_cons]
    exact chain_drop d rest (chain_mono (Nat.le_refl _) rest (by omega) (by omega) r)

/-- invariant of the locals tables (repaired code) -/
structure LocInv (l : Loc) : Prop where
  notBad : l.bad = false
  curMax : l.cur ≤ l.max
  maxN : l.max ≤ l.N
  tFit : l.tOff + l.N ≤ l.tsize
  sizes : l.lsize = l.tsize
  lt : l.lOff ≤ l.tOff
  chain : Chain l.N l.tsize l.lOff l.tOff l.frames

theorem LocInv.lOff_le_tOff {l : Loc} (h : LocInv l) : l.lOff ≤ l.tOff := h.lt

theorem locInv_init (N : Nat) : LocInv (Loc.init N) := by
  constructor <;> simp [Loc.init, Chain]

end NV.C02
