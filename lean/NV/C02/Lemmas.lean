/-
C02 — helper lemmas: invariant of the locals machine.
-/
import NV.C02.Model
import NV.C02.Spec

namespace NV.C02

open NV.Gen.C02

def sumC : List Frame → Nat
  | [] => 0
  | f :: fs => f.c + sumC fs

def sumM : List Frame → Nat
  | [] => 0
  | f :: fs => f.m + sumM fs

theorem sumC_le_sumM : ∀ (fs : List Frame), (∀ f ∈ fs, f.c ≤ f.m) → sumC fs ≤ sumM fs
  | [], _ => Nat.le_refl _
  | f :: fs, h => by
    have h1 := h f (List.mem_cons_self ..)
    have h2 := sumC_le_sumM fs (fun g hg => h g (List.mem_cons_of_mem _ hg))
    simp only [sumC, sumM]; omega

/-- splitting the saved pairs at depth `d`: the dropped part accounts for at least as much of the type offset
    as of the name offset -/
theorem sum_drop : ∀ (d : Nat) (fs : List Frame), (∀ f ∈ fs, f.c ≤ f.m) →
    ∃ a b, sumC fs = a + sumC (fs.drop d) ∧ sumM fs = b + sumM (fs.drop d) ∧ a ≤ b
  | 0, fs, _ => ⟨0, 0, by simp⟩
  | _ + 1, [], _ => ⟨0, 0, by simp⟩
  | d + 1, f :: fs, h => by
    obtain ⟨a, b, h1, h2, h3⟩ := sum_drop d fs (fun g hg => h g (List.mem_cons_of_mem _ hg))
    have hf := h f (List.mem_cons_self ..)
    refine ⟨f.c + a, f.m + b, ?_, ?_, ?_⟩
    · simp only [sumC, List.drop_succ_cons]; omega
    · simp only [sumM, List.drop_succ_cons]; omega
    · omega

theorem mem_of_mem_drop {α} {x : α} {d : Nat} {l : List α} (h : x ∈ l.drop d) : x ∈ l :=
  List.mem_of_mem_drop h

/-- invariant of the locals tables (repaired code) -/
structure LocInv (l : Loc) : Prop where
  notBad : l.bad = false
  curMax : l.cur ≤ l.max
  maxN : l.max ≤ l.N
  tFit : l.tOff + l.N ≤ l.tsize
  sizes : l.lsize = l.tsize
  sc : sumC l.frames ≤ l.lOff
  sm : sumM l.frames ≤ l.tOff
  slack : l.lOff + sumM l.frames ≤ l.tOff + sumC l.frames
  fr : ∀ f ∈ l.frames, f.c ≤ f.m
  frN : ∀ f ∈ l.frames, f.m ≤ l.N

theorem LocInv.lOff_le_tOff {l : Loc} (h : LocInv l) : l.lOff ≤ l.tOff := by
  have := sumC_le_sumM l.frames h.fr
  have := h.slack
  omega

theorem locInv_init (N : Nat) : LocInv (Loc.init N) := by
  constructor <;> simp [Loc.init, sumC, sumM]

end NV.C02
