import NV.C02.Model
namespace NV.C02
end NV.C02
