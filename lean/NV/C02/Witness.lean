/-
C02 — concrete runs of the model (checked by evaluation).  All defects found for C02 were repaired in the source
(see notes/C02.md), so there is no open finding whose full statement needs a refutation here; the examples below
replay, in the model, the event sequences of the inputs that crashed the unrepaired driver.
-/
import NV.C02.Model
import NV.C02.Spec

namespace NV.C02

/-- `void f() { int o1..o10; g = function(int a) { int l0..l19; ... }; }` : with the repaired reallocate_locals the
    name table has grown to 50 entries and the 21 entries of the literal fit -/
example :
    let evs := List.replicate 10 (Ev.addLocal "o" false 0) ++ [.enterLit] ++ List.replicate 21 (Ev.addLocal "l" false 0)
    let r := runLoc (Loc.init 25) evs
    r.1.bad = false ∧ r.1.lsize = 50 ∧ r.1.lOff + r.1.cur = 31 := by decide

/-- 60 declared arguments: 25 are stored, the copy of argument types is clamped to the table -/
example :
    let r := runLoc (Loc.init 25) (List.replicate 60 (Ev.addLocal "a" false 0) ++ [.argTypes 60])
    r.1.bad = false ∧ r.1.max = 25 := by decide

/-- a literal abandoned by error recovery inside another literal: the outer literal's end skips the abandoned block,
    releases what it left in the table and returns the pointers to where the outer literal started (repaired code) -/
example :
    let evs := [Ev.addLocal "a" false 0, .addLocal "b" false 0, .enterLit, .addLocal "c" false 0, .addLocal "d" false 0,
                .addLocal "e" false 0, .enterLit, .addLocal "i" false 0, .freeAll, .leaveLit 1, .freeAll, .cleanup]
    let p := runLI (Loc.init 25, Ids.init (fun _ => false)) evs
    p.1.bad = false ∧ p.2.bad = false ∧ p.2.live = [] ∧ p.2.refs "a" = 0 ∧ p.2.refs "c" = 0 := by decide

example :
    let evs := [Ev.addLocal "a" false 0, .addLocal "b" false 0, .enterLit, .addLocal "c" false 0, .addLocal "d" false 0,
                .addLocal "e" false 0, .enterLit, .addLocal "i" false 0, .freeAll, .leaveLit 1]
    let p := runLI (Loc.init 25, Ids.init (fun _ => false)) evs
    p.1.lOff = 0 ∧ p.1.cur = 2 ∧ p.2.live = ["b", "a"] ∧ p.2.lnum "a" = 0 ∧ p.2.lnum "b" = 1 ∧ p.2.lnum "c" = -1 := by decide

end NV.C02
