import NV.C02.Model
import NV.C02.Spec
namespace NV.C02
end NV.C02
