/-
C02 — property theorems (PARTIAL property: they cover the compiler's bookkeeping, see notes/C02.md).
All statements quantify over ALL event sequences of the model (no bound on length, nesting depth, number of locals,
number of error-abandoned function literals) and over every value of MaxLocalVariables.
-/
import NV.C02.LemmasLI
import NV.C02.LemmasMem
import NV.C02.LemmasPad

namespace NV.C02

open NV.Gen.C02

/-- **table_writes_in_bounds** — whatever sequence of declarations, block ends, function-literal starts / ends
    (including ends that skip literals abandoned by bison's error recovery), argument-type copies and cleanups the
    parser performs, no access to `locals[]`, `type_of_locals[]` or `runtime_locals[]` leaves its current allocation:
    the model's explicit bounds checks never fire (`bad` stays false, no `crash` output). -/
theorem table_writes_in_bounds (N : Nat) (evs : List Ev) :
    (runLoc (Loc.init N) evs).1.bad = false ∧ ∀ w, Out.crash w ∉ (runLoc (Loc.init N) evs).2 := by
  have h := runLoc_inv evs (Loc.init N) (locInv_init N)
  refine ⟨h.1.notBad, ?_⟩
  intro w hw
  have := h.2 _ hw
  simp [okOut] at this

example : (runLoc (Loc.init 25) [.addLocal "a" false 0, .enterLit, .addLocal "b" false 0, .freeAll, .leaveLit 0]).1.cur = 1 := by
  decide

/-- **table_cursors_in_allocation** — the same fact in the vocabulary of the oracle: on every trace the model can emit
    for the locals tables, the specification oracle `judgeEv` (the function that also judges the real driver's
    traces) finds nothing: every (cursor, size) pair has 0 ≤ cursor ≤ size. -/
theorem table_cursors_in_allocation (N : Nat) (evs : List Ev) :
    judgeEv (runLoc (Loc.init N) evs).2 = [] := by
  have h := (runLoc_inv evs (Loc.init N) (locInv_init N)).2
  simp only [judgeEv, List.map_eq_nil_iff, List.filter_eq_nil_iff]
  intro o ho
  simp [h o ho]

example : judgeEv [Out.ev "local.name" 26 25] ≠ [] := by decide

/-- **mem_block_fits** — for every sequence of allocation requests against existing blocks (each carrying a consistent
    `(current_size, max_size)` pair where other code moved `current_size`), after the doubling loop of
    `realloc_mem_block` every block satisfies `current_size ≤ max_size` and `max_size > 0`, and the model's overflow
    check never fires. -/
theorem mem_block_fits (evs : List Ev) (h : ∀ e ∈ evs, reqOk e) :
    (runMem Mem.init evs).bad = false ∧ ∀ b ∈ (runMem Mem.init evs).blocks, b.cur ≤ b.max ∧ 0 < b.max := by
  have := runMem_inv evs Mem.init memInv_init h
  exact ⟨this.notBad, this.ok⟩

example : (runMem Mem.init [.memReq 0 (startBlockSize + 1) none, .memReq 0 startBlockSize none]).blocks[0]? =
    some ⟨2 * startBlockSize + 1, 4 * startBlockSize⟩ := by decide

/-- **include_depth_bounded** — within one compilation (no `start_new_file` in between) the include stack never gets
    deeper than `MAX_INCLUDE_DEPTH - 1`, whatever mix of successful, failing and refused `#include`s and ends of
    include files occurs.  (`IncInv`: real depth ≤ incnum ≤ MAX_INCLUDE_DEPTH - 1; it holds right after
    `start_new_file`, see `include_stack_empty_after_end`.) -/
theorem include_depth_bounded (s : Lex) (evs : List Ev) (h : IncInv s) (hns : ∀ e ∈ evs, e ≠ .lexStart) :
    (runLex s evs).incDepth ≤ maxIncludeDepth - 1 := by
  have := runLex_inc evs s h hns
  unfold IncInv incLimit at this
  omega

set_option maxRecDepth 20000 in
example : (runLex Lex.init ((List.replicate (maxIncludeDepth + 8) (Ev.incAttempt false)) ++
    List.replicate (maxIncludeDepth + 8) (Ev.incAttempt true))).incDepth = maxIncludeDepth - 1 := by
  decide

/-- **include_stack_empty_after_end** — `end_new_file` empties the include and #if stacks and the following
    `start_new_file` re-establishes the hypothesis of `include_depth_bounded`. -/
theorem include_stack_empty_after_end (s : Lex) (hb : s.bad = false) :
    (stepLex s .lexEnd).1.incDepth = 0 ∧ (stepLex s .lexEnd).1.ifDepth = 0 ∧
    IncInv (stepLex (stepLex s .lexEnd).1 .lexStart).1 := by
  simp only [stepLex, hb, Bool.false_eq_true, if_false, IncInv]
  exact ⟨trivial, trivial, Nat.le_refl _, Nat.zero_le _⟩

/-- **lexer_flag_clear_after_start** — whatever the lexer's `function_flag` was left at by the previous compilation
    (e.g. a file ending right after `(: name`), the first token of the next file is lexed with the flag clear. -/
theorem lexer_flag_clear_after_start (s : Lex) (evs : List Ev) (hb : (runLex s evs).bad = false) :
    (stepLex (runLex s evs) .lexStart).1.fnFlag = false := by
  simp only [stepLex, hb, Bool.false_eq_true, if_false]

example : (runLex Lex.init [.lexStart, .fnFlagSet, .lexEnd]).fnFlag = true := by decide

/-- **yytext_in_bounds** — every write into `yytext[MAXLINE]` made while scanning a token of any length (the at most
    one unguarded leading character, the characters stored through SAVEC, and the terminating NUL written after the
    loop or after "Line too long") has an index below MAXLINE.  The bound used is the weakest SAVEC-style guard found in
    lex.c (regenerated `savecBound`). -/
theorem yytext_in_bounds (pre n : Nat) (hpre : pre ≤ 1) : ∀ i ∈ scanWrites pre n, i < maxline := by
  intro i hi
  have hb : savecBound < (maxline : Int) := by decide
  have h1 : (1 : Int) ≤ savecBound := by decide
  simp only [scanWrites, List.mem_append, List.mem_range] at hi
  rcases hi with hi | hi
  · have : (1 : Int) < (maxline : Int) := by omega
    omega
  · have := scanFrom_le n pre i hi
    omega

example : scanWrites 1 3 = [0, 1, 2, 3, 4] := by decide
example : scanFrom savecBound.toNat 7 = [savecBound.toNat] ∧ scanFrom (savecBound.toNat - 1) 7 = [savecBound.toNat - 1, savecBound.toNat] := by
  decide

/-- **scratch_writes_in_bounds** — whatever sequence of scratchpad operations the lexer and the grammar perform
    (strings pushed by scratch_copy / scratch_alloc / scratch_copy_string / the string scanner, frees of the last
    string with any number of already freed strings below it, reallocs, joins, interior frees, malloc'ed blocks,
    destroys), the pad cursors stay inside `scratchblock[SCRATCHPAD_SIZE]`: `2 ≤ scr_last ≤ scr_tail ≤ SIZE - 1` (the
    length byte is written at `scr_tail`), the strings stay stacked without gaps, and the model's bounds checks
    never fire.  As the statement holds for every event list, it holds after every prefix, i.e. at every step. -/
theorem scratch_writes_in_bounds (evs : List Ev) :
    let p := (runPad Pad.init evs).1
    p.oob = false ∧ 2 ≤ p.last ∧ p.last ≤ p.tail ∧ p.tail ≤ scratchpadSize - 1 := by
  intro p
  have h : PadInv p := by
    simp only [p, runPad, runPad_fst]
    exact runPad_inv evs Pad.init padInv_init
  refine ⟨h.noOob, ?_, ?_, ?_⟩
  · rw [pad_last_eq]; exact lastOf_ge_two _ h.stacked
  · rw [pad_last_eq, pad_tail_eq]; exact lastOf_le_tailOf _
  · rw [pad_tail_eq]; exact h.fits

example : (runPad Pad.init [.scrAlloc 5, .scrAlloc 200, .scrAlloc 300, .scrFreeLast 0, .scrAlloc 3]).1.tail = 12
    ∧ (runPad Pad.init [.scrAlloc 5, .scrAlloc 200, .scrAlloc 300]).1.large = 1 := by decide

/-- **scratch_empty_after_destroy** — `scratch_destroy()` (run by epilog and clean_parser) leaves the scratchpad in
    its initial state, whatever was on it: no strings, no malloc'ed blocks, cursors at `&scratchblock[2]`. -/
theorem scratch_empty_after_destroy (evs : List Ev) :
    (runPad Pad.init (evs ++ [.scrDestroy])).1 = Pad.init := by
  simp only [runPad, runPad_fst, List.foldl_append, List.foldl_cons, List.foldl_nil, stepPad, Pad.init]

/-- **idents_restored** — the "compiler stays reusable" clause at model level, for every name space of every
    identifier.  After the end-of-compile cleanup (`clean_up_locals()` + `free_unused_identifiers()`, which both `epilog`
    and `clean_parser` run), whatever events preceded it — any mix of local declarations, function / global variable /
    class definitions under the same name (also names of efuns and simul efuns, `P` = the permanent identifiers), any
    prefix of a function parsed before an error, any number of open or abandoned function literals — every identifier
    has `sem_value` back at its initial value and no local, function, global-variable or class binding left, the
    dirty list is empty, and no access went outside the tables on the way. -/
theorem idents_restored (N : Nat) (P : Id → Bool) (evs : List Ev) :
    let p := runLI (Loc.init N, Ids.init P) (evs ++ [.cleanup])
    p.1.bad = false ∧ p.2.bad = false ∧ p.2.dirty = [] ∧
    ∀ j, p.2.refs j = 0 ∧ p.2.lnum j = -1 ∧ ∀ k, p.2.bnd k j = -1 := by
  intro p
  have h0 := runLI_inv evs (Loc.init N, Ids.init P) (liInv_init N P)
  have hp : p = stepLI (runLI (Loc.init N, Ids.init P) evs) .cleanup := by
    simp only [p, runLI, List.foldl_append, List.foldl_cons, List.foldl_nil]
  have h1 := stepLI_inv _ .cleanup h0
  have hpost := cleanup_post _ h0
  rw [← hp] at h1 hpost
  have hlen := h1.len
  have hshape : p.1.lOff = 0 ∧ p.1.cur = 0 := by
    rw [hp]
    simp only [stepLI, shape_cleanup _ h0.loc]
    exact ⟨trivial, trivial⟩
  rw [hshape.1, hshape.2] at hlen
  have hnil : p.2.live = [] := List.eq_nil_of_length_eq_zero hlen
  have hbnd : ∀ j k, p.2.bnd k j = -1 := by
    intro j k
    by_cases hpj : p.2.perm j = true
    · by_cases hz : p.2.bsum j = 0
      · exact bsum_eq_zero.mp hz k
      · have := h1.ids.dirtyOk j hpj hz
        rw [hpost.1] at this
        simp at this
    · exact hpost.2 j (by simpa using hpj) k
  refine ⟨h1.loc.notBad, h1.ids.notBad, hpost.1, fun j => ⟨?_, ?_, hbnd j⟩⟩
  · have := h1.ids.refs j
    rw [hnil, bsum_eq_zero.mpr (hbnd j)] at this
    simpa using this
  · by_cases hj : p.2.lnum j = -1
    · exact hj
    · have := h1.ids.act j hj
      rw [hnil] at this
      simp at this

example :
    let p := runLI (Loc.init 25, Ids.init (fun j => j == "write"))
      [.bind .glob "write" true 0 1, .bind .fn "write" true 0 2, .addLocal "write" true 3]
    p.2.refs "write" = 3 ∧ p.2.bnd .glob "write" = 0 ∧ p.2.bnd .fn "write" = 0 ∧ p.2.dirty = ["write"] := by decide

/-- **locals_reset_after_cleanup** — after `clean_up_locals()` the cursors of the locals tables are back at the
    start of the tables and no function literal is open, for every preceding event sequence. -/
theorem locals_reset_after_cleanup (N : Nat) (evs : List Ev) :
    let l := (runLoc (Loc.init N) (evs ++ [.cleanup])).1
    l.cur = 0 ∧ l.max = 0 ∧ l.lOff = 0 ∧ l.tOff = 0 ∧ l.frames = [] ∧ l.N = N := by
  have key : ∀ (evs : List Ev) (l0 : Loc), LocInv l0 →
      let l := (runLoc l0 (evs ++ [.cleanup])).1
      l.cur = 0 ∧ l.max = 0 ∧ l.lOff = 0 ∧ l.tOff = 0 ∧ l.frames = [] ∧ l.N = l0.N := by
    intro evs
    induction evs with
    | nil =>
      intro l0 h0
      simp only [List.nil_append, runLoc, shape_cleanup l0 h0]
      exact ⟨trivial, trivial, trivial, trivial, trivial, trivial⟩
    | cons e es ih =>
      intro l0 h0
      have h1 := (stepLoc_inv l0 e h0).1
      have hN : (stepLoc l0 e).1.N = l0.N := by
        cases e with
        | addLocal id p s0 =>
          by_cases hf : l0.N ≤ l0.max
          · simp only [stepLoc, h0.notBad, hf, if_true, Bool.false_eq_true, if_false]
          · rw [shape_addLocal l0 id p s0 h0 hf]
        | popN n => rw [shape_popN l0 n h0]
        | freeAll => rw [shape_freeAll l0 h0]
        | cleanup => rw [shape_cleanup l0 h0]
        | fnReset => rw [shape_fnReset l0 h0]
        | enterLit =>
          simp only [stepLoc, h0.notBad, Bool.false_eq_true, if_false]
          split <;> split <;> simp [Loc.crash]
        | leaveLit d =>
          simp only [stepLoc, h0.notBad, Bool.false_eq_true, if_false]
          split
          · rfl
          · split
            · split <;> simp [Loc.crash]
            · simp [Loc.crash]
        | argTypes k =>
          simp only [stepLoc, h0.notBad, Bool.false_eq_true, if_false]
          split <;> simp [Loc.crash]
        | _ => simp only [stepLoc, h0.notBad, Bool.false_eq_true, if_false]
      have := ih (stepLoc l0 e).1 h1
      simp only [List.cons_append, runLoc]
      rw [hN] at this
      exact this
  have := key evs (Loc.init N) (locInv_init N)
  simpa [Loc.init] using this


/-! ## the oracle rejects what it should (negative examples, one group per clause of `judge` / `judgeEv`) -/

-- cursor / allocation clause
example : judgeEv [Out.ev "local.type" 51 50] ≠ [] := by decide
example : judgeEv [Out.ev "local.pop" (-1) 25] ≠ [] := by decide
example : judgeEv [Out.ev "inc.push" 32 31] ≠ [] := by decide
example : judgeEv [Out.ev "mem.alloc" 4097 4096] ≠ [] := by decide
example : judgeEv [Out.ev "mem.req" numAreas 8] ≠ [] := by decide      -- block number outside NUMAREAS
example : judgeEv [Out.ev "lex.start.fnflag" 1 0] ≠ [] := by decide    -- function_flag leaked into the next file
example : judgeEv [Out.ev "fnctx.pop" (-1) 10] ≠ [] := by decide
-- identifier clauses
example : judgeEv [Out.identEnd "write" 1 (-1) (-1) (-1) (-1)] ≠ [] := by decide
example : judgeEv [Out.identEnd "write" 0 (-1) 0 (-1) (-1)] ≠ [] := by decide      -- stale global_num
example : judgeEv [Out.identEnd "time" 0 (-1) (-1) 2 (-1)] ≠ [] := by decide       -- stale class_num
example : judgeEv [Out.identEnd "time" 0 (-1) (-1) (-1) 3] ≠ [] := by decide       -- stale local_num
example : judgeEv [Out.identEnd "time" (-1) (-1) (-1) (-1) (-1)] ≠ [] := by decide -- sem_value dropped
example : judgeEv [Out.identClean "write" 1] ≠ [] := by decide
example : judgeEv [Out.identBind "fn" (-1) 1 "f" false (-1) 0] ≠ [] := by decide
example : judgeEv [Out.ident (-1) 1 "x" false (-1) 0] ≠ [] := by decide
-- locals reset clause
example : judgeEv [Out.localsEnd 1 1 0 0] ≠ [] := by decide
example : judgeEv [Out.localsEnd 0 0 3 0] ≠ [] := by decide
example : judgeEv [Out.localsEnd 0 0 0 7] ≠ [] := by decide
-- scratchpad clause
example : judgeEv [Out.scr "scr.push" 4096 4095 4000 0 none] ≠ [] := by decide    -- length byte outside the pad
example : judgeEv [Out.scr "scr.after" 1 4095 1 0 none] ≠ [] := by decide         -- walked below &scratchblock[2]
example : judgeEv [Out.scr "scr.after" 5 4095 9 0 none] ≠ [] := by decide         -- last above tail
example : judgeEv [Out.scrEnd 3 9 0] ≠ [] := by decide                           -- strings left on the pad after the compile
example : judgeEv [Out.scrEnd 2 2 1] ≠ [] := by decide                           -- malloc'ed block leaked
-- crash clause
example : judgeEv [Out.crash "anything"] ≠ [] := by decide
-- whole-trace clauses
example : judge [.result ["none"]] ≠ [] := by decide
example : judge [.crashLine "crash timeout"] ≠ [] := by decide
example : judge [.crashLine "sanitizer ERROR: AddressSanitizer: heap-buffer-overflow"] ≠ [] := by decide
-- (the probe clauses compare strings; they are checked by evaluation, `decide` does not reduce String.startsWith)
#guard judge [.probe "aaaa size=1", .probe "bbbb size=1"] != []
#guard judge [.probe "aaaa size=1", .probe "FAIL errors=1 thrown=0"] != []
#guard judge [.probe "FAIL errors=1 thrown=0", .probe "FAIL errors=1 thrown=0"] != []
example : judge [.aprobeDiff "aprobe-differs write r fresh=[errors 1] after=[prog x]"] ≠ [] := by decide
example : judge [.baseOdd "ident.base-odd write fn=-1 glob=0 cls=-1 local=-1"] ≠ [] := by decide
-- and accepts a clean trace
#guard judge [.cfg 25, .out (.ev "local.type" 1 25), .out (.localsEnd 0 0 0 0), .result ["prog"],
              .probe "aaaa", .probe "aaaa"] == []

end NV.C02
