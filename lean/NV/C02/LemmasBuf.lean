/-
C02 — theorems about the lexer's text buffers (model: NV/C02/LexBuf.lean).  Every statement is for ALL inputs (any
character stream, any macro body, any argument lengths, any cursor position) and is proved over the slack constants and
guard flags REGENERATED from lex.c: a guard that disappears or a constant that changes makes the proof fail.
-/
import NV.C02.LexBuf

namespace NV.C02

open NV.Gen.C02

/-! ## add_input -/

/-- **add_input_writes_in_bounds** — whatever the cursor position (`outp ≤ DEFMAX`), the length of the text and the
    result of the scan for the end of the line, `add_input` either reports an error and writes nothing, or copies in
    place without leaving the front of the buffer (`outp - len` is an exact subtraction, at least `addFrontSlack` bytes
    stay free), or fills a fresh linked buffer whose three stores (text, rest of the line, terminating zero) are inside
    `buf[DEFMAX]`. -/
theorem add_input_writes_in_bounds (outp len : Nat) (scan : Option (Bool × Nat)) (h : outp ≤ defmax) :
    (∀ r ∈ addWrites outp len scan, r.1 ≤ r.2 ∧ r.2 ≤ defmax) ∧
    (∀ o, addInput outp len scan = .inplace o → o + len = outp ∧ addFrontSlack ≤ o) ∧
    (∀ o e, addInput outp len scan = .fresh o e → ∃ r, scan = some (true, r) ∧ o + (r + len + 1) = e ∧ e < defmax) := by
  have c1 : addEndSlack ≤ addLineSlack := by decide
  have c2 : addLineSlack ≤ defmax := by decide
  have c3 : 1 ≤ addEndSlack := by decide
  have c4 : addEndSlack + 1 ≤ addLineSlack := by decide
  have key : addInput outp len scan =
      (if defmax - addMaxSlack ≤ len then AddRes.tooLong
       else if outp < len + addFrontSlack then
         match scan with
         | none => .overflow false
         | some (nl, r) =>
           if nl = false ∨ defmax - addLineSlack ≤ r + len then .overflow true
           else .fresh (defmax - addEndSlack - (r + len + 1)) (defmax - addEndSlack)
       else .inplace (outp - len)) := by
    unfold addInput
    split
    · rfl
    · split
      · cases scan with
        | none => rfl
        | some p => obtain ⟨nl, r⟩ := p; cases nl <;> simp
      · rfl
  refine ⟨?_, ?_, ?_⟩
  · intro r hr
    unfold addWrites at hr
    rw [key] at hr
    by_cases h1 : defmax - addMaxSlack ≤ len
    · simp [h1] at hr
    · by_cases h2 : outp < len + addFrontSlack
      · cases scan with
        | none => simp [h1, h2] at hr
        | some p =>
          obtain ⟨nl, r0⟩ := p
          by_cases h3 : nl = false ∨ defmax - addLineSlack ≤ r0 + len
          · simp only [h1, h2, h3, if_true, if_false] at hr
            simp at hr
          · simp only [h1, h2, h3, if_true, if_false] at hr
            simp only [not_or, Nat.not_le] at h3
            simp only [List.mem_cons, List.not_mem_nil, or_false] at hr
            rcases hr with hr | hr | hr <;> subst hr <;> simp only <;> omega
      · simp only [h1, h2, if_false] at hr
        simp only [List.mem_cons, List.not_mem_nil, or_false] at hr
        subst hr
        simp only
        omega
  · intro o ho
    rw [key] at ho
    by_cases h1 : defmax - addMaxSlack ≤ len
    · simp [h1] at ho
    · by_cases h2 : outp < len + addFrontSlack
      · cases scan with
        | none => simp [h1, h2] at ho
        | some p =>
          obtain ⟨nl, r0⟩ := p
          by_cases h3 : nl = false ∨ defmax - addLineSlack ≤ r0 + len
          · simp only [h1, h2, h3, if_true, if_false] at ho
            simp at ho
          · simp only [h1, h2, h3, if_true, if_false] at ho
            simp at ho
      · simp only [h1, h2, if_false, AddRes.inplace.injEq] at ho
        omega
  · intro o e ho
    rw [key] at ho
    by_cases h1 : defmax - addMaxSlack ≤ len
    · simp [h1] at ho
    · by_cases h2 : outp < len + addFrontSlack
      · cases scan with
        | none => simp [h1, h2] at ho
        | some p =>
          obtain ⟨nl, r0⟩ := p
          by_cases h3 : nl = false ∨ defmax - addLineSlack ≤ r0 + len
          · simp only [h1, h2, h3, if_true, if_false] at ho
            simp at ho
          · simp only [h1, h2, h3, if_true, if_false, AddRes.fresh.injEq] at ho
            simp only [not_or, Nat.not_le] at h3
            refine ⟨r0, ?_, ?_, ?_⟩
            · have : nl = true := by simpa using h3.1
              rw [this]
            · omega
            · omega
      · simp only [h1, h2, if_false] at ho
        simp at ho

/-- **add_input_never_nests** — inside a buffer that `add_input` itself allocated (its text is one line whose newline
    sits at `DEFMAX - addEndSlack - 1`), a further `add_input` never allocates another linked buffer: when the text no
    longer fits in front of the cursor, the rest-of-line test always reports "Macro expansion buffer overflow".  Hence
    the chain of linked buffers holds at most one TERM_ADD_INPUT buffer on top of the head / include buffers, whatever
    the macros do. -/
theorem add_input_never_nests (outp len : Nat) (h : outp + addEndSlack + 1 ≤ defmax) :
    ∀ o e, addInput outp len (some (true, defmax - addEndSlack - 1 - outp)) ≠ .fresh o e := by
  have c1 : addFrontSlack + addEndSlack + 1 ≤ addLineSlack := by decide
  have c2 : addLineSlack ≤ defmax := by decide
  intro o e ho
  unfold addInput at ho
  by_cases h1 : defmax - addMaxSlack ≤ len
  · simp [h1] at ho
  · by_cases h2 : outp < len + addFrontSlack
    · have h3 : defmax - addLineSlack ≤ defmax - addEndSlack - 1 - outp + len := by omega
      simp only [h1, h2, if_true, if_false, Bool.not_true, Bool.false_or, h3, decide_true] at ho
      simp at ho
    · simp only [h1, h2, if_false] at ho
      simp at ho

-- (stated relative to the regenerated constants: a harmless change of DEFMAX or of a slack keeps them true)
example : addInput (defmax / 2) 100 none = .inplace (defmax / 2 - 100) := by decide
example : addInput 50 100 (some (true, 30)) = .fresh (defmax - addEndSlack - 131) (defmax - addEndSlack) := by decide
example : addInput 50 100 (some (false, 30)) = .overflow true := by decide
example : addInput 50 100 (some (true, defmax - addLineSlack - 100)) = .overflow true := by decide
example : addInput 0 (defmax - addMaxSlack) none = .tooLong := by decide

/-! ## expand_define -/

theorem argWrites_lt : ∀ (ks : List CK) (q n : Nat), ∀ i ∈ argWrites ks q n, i < defmax := by
  have hT : argGuardAtTop = true := by decide
  have c1 : 2 ≤ argSlack := by decide
  have c2 : argSlack ≤ defmax := by decide
  intro ks
  induction ks with
  | nil => intro q n i hi; simp [argWrites] at hi
  | cons k ks ih =>
    intro q n i hi
    unfold argWrites at hi
    by_cases hn : nargs ≤ n
    · simp [hn] at hi
    · by_cases hq : defmax - argSlack ≤ q
      · simp [hn, hT, hq] at hi
      · simp only [hn, hT, hq, if_false, Bool.true_and, decide_false, Bool.false_eq_true] at hi
        cases k with
        | sep =>
          simp only [List.mem_cons] at hi
          rcases hi with hi | hi
          · omega
          · exact ih _ _ i hi
        | close =>
          simp only [List.mem_cons, List.not_mem_nil, or_false] at hi
          omega
        | plain =>
          simp only at hi
          split at hi
          · simp at hi
          · simp only [List.mem_cons] at hi
            rcases hi with hi | hi
            · omega
            · exact ih _ _ i hi
        | twice =>
          simp only at hi
          split at hi
          · simp only [List.mem_cons, List.not_mem_nil, or_false] at hi; omega
          · simp only [List.mem_cons] at hi
            rcases hi with hi | hi | hi
            · omega
            · omega
            · exact ih _ _ i hi
        | skip => exact ih _ _ i hi

/-- **macro_args_in_bounds** — collecting the arguments of a macro call: for EVERY stream of characters (ordinary,
    doubled `#` / `\`, separators, closing parenthesis) every store into `expbuf[DEFMAX]` has an index below DEFMAX.
    Needs the test at the start of every round (`argGuardAtTop`, regenerated): separators are stored without any other
    test. -/
theorem macro_args_in_bounds (ks : List CK) : ∀ i ∈ argWrites ks 0 0, i < defmax := argWrites_lt ks 0 0

example : argWrites [.plain, .sep, .twice, .close] 0 0 = [0, 1, 2, 3, 4] := by decide

theorem argCopy_lt : ∀ (k b : Nat), b < defmax →
    (∀ i ∈ (argCopy k b).1, i < defmax) ∧ (∀ b', (argCopy k b).2 = some b' → b' < defmax) := by
  have hG : bodyGuardArg = true := by decide
  intro k
  induction k with
  | zero => intro b hb; simp [argCopy, hb]
  | succ k ih =>
    intro b hb
    unfold argCopy
    unfold bodyStore
    by_cases h1 : defmax ≤ b + 1
    · simp [hG, h1, hb]
    · simp only [hG, h1, Bool.true_and, decide_false, Bool.false_eq_true, if_false]
      have := ih (b + 1) (by omega)
      refine ⟨?_, this.2⟩
      intro i hi
      simp only [List.mem_cons] at hi
      rcases hi with hi | hi
      · omega
      · exact this.1 i hi

theorem bodyWrites_lt : ∀ (ts : List BTok) (b : Nat), b < defmax → ∀ i ∈ bodyWrites ts b, i < defmax := by
  have hL : bodyGuardLit = true := by decide
  have hM : bodyGuardMarks = true := by decide
  intro ts
  induction ts with
  | nil => intro b hb i hi; simp [bodyWrites] at hi; omega
  | cons t ts ih =>
    intro b hb i hi
    cases t with
    | lit =>
      unfold bodyWrites at hi
      unfold bodyStore at hi
      by_cases h1 : defmax ≤ b + 1
      · simp [hL, h1] at hi; omega
      · simp only [hL, h1, Bool.true_and, decide_false, Bool.false_eq_true, if_false, List.mem_cons] at hi
        rcases hi with hi | hi
        · omega
        · exact ih (b + 1) (by omega) i hi
    | marks =>
      unfold bodyWrites at hi
      unfold bodyStore at hi
      by_cases h1 : defmax ≤ b + 1
      · simp [hM, h1] at hi; omega
      · simp only [hM, h1, Bool.true_and, decide_false, Bool.false_eq_true, if_false, List.mem_cons] at hi
        rcases hi with hi | hi
        · omega
        · exact ih (b + 1) (by omega) i hi
    | arg len =>
      unfold bodyWrites at hi
      have hc := argCopy_lt len b hb
      generalize hr : argCopy len b = r at hi hc
      obtain ⟨ws, ob⟩ := r
      cases ob with
      | none => simp only at hi; exact hc.1 i hi
      | some b' =>
        simp only [List.mem_append] at hi
        rcases hi with hi | hi
        · exact hc.1 i hi
        · exact ih b' (hc.2 b' rfl) i hi

/-- **macro_body_in_bounds** — expanding a macro body: for EVERY body (ordinary bytes, doubled `@`, parameters) and
    every argument length, each store into `buf[DEFMAX]`, the terminating zero included, has an index below DEFMAX.
    Needs the overflow test behind all three stores (`bodyGuard*`, regenerated). -/
theorem macro_body_in_bounds (ts : List BTok) : ∀ i ∈ bodyWrites ts 0, i < defmax :=
  bodyWrites_lt ts 0 (by decide)

example : bodyWrites [.lit, .arg 3, .marks] 0 = [0, 1, 2, 3, 4, 5] := by decide

/-! ## handle_define -/

theorem defWritesFn_lt : ∀ (ks : List DK) (q : Nat), 1 ≤ q → q + defFnSlack ≤ mlen → ∀ i ∈ defWritesFn ks q, i < mlen := by
  have c1 : 3 ≤ defFnSlack := by decide
  have c2 : defFnSlack ≤ mlen := by decide
  intro ks
  induction ks with
  | nil => intro q h1 h2 i hi; simp [defWritesFn] at hi; omega
  | cons k ks ih =>
    intro q h1 h2 i hi
    unfold defWritesFn at hi
    cases k with
    | ch =>
      simp only at hi
      split at hi
      · simp only [List.mem_append, List.mem_cons, List.not_mem_nil, or_false] at hi
        rcases hi with hi | hi
        · omega
        · exact ih (q + 1) (by omega) (by omega) i hi
      · simp only [List.mem_cons, List.not_mem_nil, or_false] at hi; omega
    | atSign =>
      simp only at hi
      split at hi
      · simp only [List.mem_append, List.mem_cons, List.not_mem_nil, or_false] at hi
        rcases hi with (hi | hi) | hi
        · omega
        · omega
        · exact ih (q + 1 + 1) (by omega) (by omega) i hi
      · simp only [List.mem_cons, List.not_mem_nil, or_false] at hi; omega
    | param idlen =>
      simp only at hi
      split at hi
      · simp at hi
      · rename_i hc
        simp only [not_or, Nat.not_lt] at hc
        split at hi
        · simp only [List.mem_append, List.mem_cons, List.not_mem_nil, or_false] at hi
          rcases hi with (hi | hi | hi) | hi
          · omega
          · omega
          · omega
          · exact ih (q - idlen + 2 + 1) (by omega) (by omega) i hi
        · simp only [List.mem_cons, List.not_mem_nil, or_false] at hi; omega
    | paramAt idlen =>
      simp only at hi
      split at hi
      · simp at hi
      · rename_i hc
        simp only [not_or, Nat.not_lt] at hc
        split at hi
        · simp only [List.mem_append, List.mem_cons, List.not_mem_nil, or_false] at hi
          rcases hi with (hi | hi | hi | hi) | hi
          · omega
          · omega
          · omega
          · omega
          · exact ih (q - idlen + 3 + 1) (by omega) (by omega) i hi
        · simp only [List.mem_cons, List.not_mem_nil, or_false] at hi; omega
    | cont =>
      simp only at hi
      split at hi
      · split at hi
        · simp only [List.mem_cons] at hi
          rcases hi with hi | hi | hi
          · omega
          · omega
          · exact ih q h1 h2 i hi
        · simp only [List.mem_cons, List.not_mem_nil, or_false] at hi
          rcases hi with hi | hi <;> omega
      · simp only [List.mem_cons, List.not_mem_nil, or_false] at hi; omega

theorem defWritesObj_lt : ∀ (n q : Nat), q + defObjSlack ≤ mlen → ∀ i ∈ defWritesObj n q, i < mlen := by
  have c1 : 2 ≤ defObjSlack := by decide
  have c2 : defObjSlack ≤ mlen := by decide
  intro n
  induction n with
  | zero => intro q h i hi; simp [defWritesObj] at hi; omega
  | succ n ih =>
    intro q h i hi
    unfold defWritesObj at hi
    split at hi
    · simp only [List.mem_cons] at hi
      rcases hi with hi | hi
      · omega
      · exact ih (q + 1) (by omega) i hi
    · simp only [List.mem_cons, List.not_mem_nil, or_false] at hi; omega

/-- **define_text_in_bounds** — storing the text of a `#define`: for EVERY body (ordinary characters, `@`, parameters
    of any length replaced by their two-byte marker - a one-letter parameter makes the cursor move forward without a
    test -, continuation lines) every store into `mtext[MLEN]` has an index below MLEN, in the function-like loop
    (cursor starts behind the leading blank) and in the object-like loop. -/
theorem define_text_in_bounds :
    (∀ ks : List DK, ∀ i ∈ defWritesFn ks 1, i < mlen) ∧ (∀ n : Nat, ∀ i ∈ defWritesObj n 0, i < mlen) :=
  ⟨fun ks => defWritesFn_lt ks 1 (Nat.le_refl 1) (by decide), fun n => defWritesObj_lt n 0 (by decide)⟩

example : defWritesFn [.ch, .param 1, .atSign] 1 = [1, 1, 2, 3, 4, 5, 5] := by decide

/-! ## get_terminator / handle_include -/

/-- **terminator_in_bounds** — a text-block terminator of ANY length (it is read from the input buffer, which can hold
    a macro expansion far longer than a line): every store into `terminator[MAXLINE + termBufSize]` is inside. -/
theorem terminator_in_bounds (n : Nat) : ∀ i ∈ termWrites n, i < maxline + termBufSize := by
  have hG : termGuard = true := by decide
  have c : termLimit < maxline + termBufSize := by decide
  intro i hi
  unfold termWrites at hi
  simp only [hG, if_true] at hi
  split at hi
  · simp only [List.mem_append, List.mem_range, List.mem_cons, List.not_mem_nil, or_false] at hi
    rcases hi with hi | hi <;> omega
  · simp only [List.mem_range] at hi; omega

example : termWrites 3 = [0, 1, 2, 3] := by decide

/-- **include_macro_hops_bounded** — `#include MACRO`: whatever the macros expand to (also a macro naming itself or a
    cycle), handle_include follows at most MAX_INCLUDE_DEPTH of them and then reports an error: no unbounded recursion. -/
theorem include_macro_hops_bounded (cyclic : Bool) (k : Nat) :
    ∃ h, includeHops cyclic k = some h ∧ h ≤ maxIncludeDepth := by
  have hG : includeHopGuard = true := by decide
  refine ⟨min k includeHopLimit, ?_, ?_⟩
  · simp [includeHops, hG]
  · exact Nat.min_le_right _ _

end NV.C02
