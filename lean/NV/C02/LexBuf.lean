/-
C02 — the lexer's text buffers (lib/lpc/lex.c): cursor arithmetic of

  * `add_input`            push text back in front of `outptr`, in place or into a fresh linked buffer
  * `expand_define`        argument collector (`expbuf[DEFMAX]`, cursor `q`) and body expansion (`buf[DEFMAX]`, cursor `b`)
  * `handle_define`        macro text (`mtext[MLEN]`, cursor `q`), function-like and object-like
  * `get_terminator`       text block terminator (`terminator[MAXLINE + 5]`, cursor `j`)
  * `handle_include`       `#include MACRO` hops

as functions on offsets.  Every slack constant and the presence of every guard comes from the regenerated
`NV/Gen/C02.lean` (located in the source on every run by props/c02.py:gen_extra); the functions mirror the REPAIRED code
(F22 - F27 in notes/C02.md).  Writes are reported as index lists / ranges so that the theorems in `LemmasBuf.lean` can
say "every write is inside its buffer" for every input.  Core Lean only (linked into nvdrive).
-/
import NV.Gen.C02

namespace NV.C02

open NV.Gen.C02

/-! ## add_input -/

/-- outcome of one `add_input(p)` call -/
inductive AddRes
  | tooLong                                   -- `len >= DEFMAX - 10`: error, nothing written
  | overflow (scanned : Bool)                 -- no room and the rest of the line does not fit / EOF first: error
  | inplace (outp : Nat)                      -- `outptr -= len; memcpy (outptr, p, len)`
  | fresh (outp : Nat) (endIdx : Nat)         -- new linked buffer: outptr offset, index of the terminating 0
  deriving Repr, DecidableEq

/-- `add_input`: `outp` = outptr - cur_lbuf->buf, `len` = strlen(p); `scan` = result of the `while (*q != '\n' &&
    *q != LEX_EOF) q++` walk, only looked at when there is no room in front of outptr: (stopped at a newline?, q - outptr) -/
def addInput (outp len : Nat) (scan : Option (Bool × Nat)) : AddRes :=
  if defmax - addMaxSlack ≤ len then .tooLong
  else if outp < len + addFrontSlack then
    match scan with
    | none => .overflow false
    | some (nl, r) =>
      if !nl || decide (defmax - addLineSlack ≤ r + len) then .overflow true
      else
        let size := r + len + 1
        .fresh (defmax - addEndSlack - size) (defmax - addEndSlack)
  else .inplace (outp - len)

/-- byte ranges `[a, b)` of the buffer (the current one, or the fresh one) written by the call -/
def addWrites (outp len : Nat) (scan : Option (Bool × Nat)) : List (Nat × Nat) :=
  match addInput outp len scan, scan with
  | .inplace o, _ => [(o, o + len)]
  | .fresh o e, some (_, r) => [(o, o + len), (o + len, o + len + r + 1), (e, e + 1)]
  | _, _ => []

/-! ## expand_define: argument collector -/

/-- what one round of the collector loop does with the current character -/
inductive CK
  | plain        -- stored once (after the overflow test)
  | twice        -- '#' outside quotes, '\\' inside quotes: stored once without a test, then once more as `plain`
  | sep          -- ',' at top level: `*q++ = 0`
  | close        -- ')' closing the call: `*q++ = 0`, loop ends
  | skip         -- nothing stored (never happens in the C code; keeps the model total for any stream)
  deriving Repr, DecidableEq

/-- indices of `expbuf[]` written by the collector for the character kinds `ks`, starting with cursor `q` and `n`
    arguments finished.  `argGuardAtTop` = the test `q >= expbuf + DEFMAX - argSlack` stands at the start of every
    round (repaired code); the inner test in front of the ordinary store is `argInnerGuard`. -/
def argWrites : List CK → Nat → Nat → List Nat
  | [], _, _ => []
  | k :: ks, q, n =>
    if nargs ≤ n then [] else
    if argGuardAtTop && decide (defmax - argSlack ≤ q) then [] else
    match k with
    | .sep => q :: argWrites ks (q + 1) (n + 1)
    | .close => [q]
    | .plain =>
      if argInnerGuard && decide (defmax - argSlack ≤ q) then [] else q :: argWrites ks (q + 1) n
    | .twice =>
      if argInnerGuard && decide (defmax - argSlack ≤ q + 1) then [q] else q :: (q + 1) :: argWrites ks (q + 2) n
    | .skip => argWrites ks q n

/-! ## expand_define: body expansion -/

/-- pieces of the stored macro body -/
inductive BTok
  | lit               -- ordinary byte
  | marks             -- MARKS MARKS: one '@' copied
  | arg (len : Nat)   -- MARKS n: the n-th argument, `len` bytes
  deriving Repr, DecidableEq

/-- one store of the expansion loop at cursor `b`: `none` = "Macro expansion overflow" (the store itself happened) -/
def bodyStore (guarded : Bool) (b : Nat) : Option Nat :=
  if guarded && decide (defmax ≤ b + 1) then none else some (b + 1)

def argCopy : Nat → Nat → List Nat × Option Nat
  | 0, b => ([], some b)
  | k + 1, b =>
    match bodyStore bodyGuardArg b with
    | none => ([b], none)
    | some b' => let r := argCopy k b'; (b :: r.1, r.2)

/-- indices of `buf[]` written while expanding the body `ts` from cursor `b`; the final `*b++ = 0` included -/
def bodyWrites : List BTok → Nat → List Nat
  | [], b => [b]
  | .lit :: ts, b =>
    match bodyStore bodyGuardLit b with
    | none => [b]
    | some b' => b :: bodyWrites ts b'
  | .marks :: ts, b =>
    match bodyStore bodyGuardMarks b with
    | none => [b]
    | some b' => b :: bodyWrites ts b'
  | .arg len :: ts, b =>
    match argCopy len b with
    | (ws, none) => ws
    | (ws, some b') => ws ++ bodyWrites ts b'

/-! ## handle_define: macro text -/

/-- one round of the function-like loop -/
inductive DK
  | ch                  -- ordinary character: `*q = *p`
  | atSign              -- MARKS: `*q = *p; *++q = MARKS`
  | param (idlen : Nat) -- the identifier just ended is a parameter: `q -= idlen; *q++ = MARKS; *q++ = n + MARKS + 1`, then `ch`
  | paramAt (idlen : Nat)
  | cont                -- line ends in '\\': both bytes stored, then `q -= 2; refill ()`
  deriving Repr, DecidableEq

/-- indices of `mtext[]` written by the function-like loop from cursor `q` (initially 1, after the leading blank).
    The cursor only advances while `q < mtext + MLEN - defFnSlack`. -/
def defWritesFn : List DK → Nat → List Nat
  | [], q => [q - 1]                                     -- `*--q = 0`
  | k :: ks, q =>
    let adv (q : Nat) (ws : List Nat) : List Nat := if q + defFnSlack < mlen then ws ++ defWritesFn ks (q + 1) else ws
    match k with
    | .ch => adv q [q]
    | .atSign => adv (q + 1) [q, q + 1]
    | .param idlen =>
      if idlen = 0 ∨ q < idlen + 1 then [] else          -- an identifier has at least one letter and lies behind the blank
      let q0 := q - idlen
      adv (q0 + 2) [q0, q0 + 1, q0 + 2]
    | .paramAt idlen =>
      if idlen = 0 ∨ q < idlen + 1 then [] else
      let q0 := q - idlen
      adv (q0 + 3) [q0, q0 + 1, q0 + 2, q0 + 3]
    | .cont =>
      -- the '\\' and the blank that refill() put behind it are stored like ordinary characters, then `q -= 2`
      if q + defFnSlack < mlen then
        (if q + 1 + defFnSlack < mlen then q :: (q + 1) :: defWritesFn ks q else [q, q + 1])
      else [q]

/-- object-like loop: `*q = *p++; if (q < mtext + MLEN - defObjSlack) q++; else error` -/
def defWritesObj : Nat → Nat → List Nat
  | 0, q => [q - 1]
  | n + 1, q => if q + defObjSlack < mlen then q :: defWritesObj n (q + 1) else [q]

/-! ## get_terminator -/

/-- indices of `terminator[]` written for a run of `n` identifier characters (the terminating zero included) -/
def termWrites (n : Nat) : List Nat :=
  if termGuard then
    (if n ≤ termLimit then List.range n ++ [n] else List.range termLimit)   -- beyond the limit: `return 0`, no zero stored
  else List.range n ++ [n]

/-! ## handle_include: `#include MACRO` -/

/-- number of macros followed before `handle_include` gives up on a chain of `k` macros naming each other (`none` = the
    chain is followed without bound: the unrepaired code on a cycle) -/
def includeHops (cyclic : Bool) (k : Nat) : Option Nat :=
  if includeHopGuard then some (min k includeHopLimit)
  else if cyclic then none else some k

end NV.C02
