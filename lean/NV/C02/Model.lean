/-
C02 — executable model `CompilerTables` of the LPC compiler's bookkeeping (lib/lpc/compiler.c, grammar.y, lex.c,
preprocess.c, identifier.c) as counters and cursors.  It mirrors the REPAIRED code (see notes/C02.md for the fix
commits); every table access carries an explicit bounds check whose failure is the outcome `crash`.

Four independent machines driven by one event alphabet `Ev`:
  * `Loc`  locals tables: sizes, `*_ptr` offsets, current_number_of_locals / max_num_locals, the (num_local,
           max_num_locals) pairs that the grammar keeps on bison's stack for every open function literal
  * `Ids`  identifier side of the same operations: which identifier sits in which live entry of locals[],
           sem_value references taken by locals, dn.local_num, runtime_locals[]
  * `Mem`  mem_block[] (current_size, max_size) with the doubling realloc_mem_block
  * `Lex`  include stack (incnum + real depth), #if stack depth, function_context_stack
plus the pure `scanWrites` model of the SAVEC-guarded writes into yytext[].
-/
import NV.Gen.C02

namespace NV.C02

open NV.Gen.C02

abbrev Id := String

/-- the per-compile name spaces of one identifier besides the local one: dn.function_num, dn.global_num, dn.class_num -/
inductive Kind
  | fn | glob | cls
  deriving Repr, DecidableEq

def Kind.name : Kind → String
  | .fn => "fn" | .glob => "global" | .cls => "class"

/-- events of the nesting grammar (one per bookkeeping operation of the compiler) -/
inductive Ev
  | addLocal (id : Id) (perm : Bool) (sem0 : Int)   -- add_local_name(id): permanent identifier?, sem_value before
  | popN (n : Nat)                                  -- pop_n_locals(n) at the end of a nested block / switch
  | freeAll                                         -- free_all_local_names()
  | enterLit                                        -- `function (` ... : reallocate_locals? + deactivate + pointer move
  | leaveLit (d : Nat)                              -- end of a literal whose saved block lies under d abandoned ones
  | argTypes (k : Nat)                              -- define_new_function's copy of k argument types
  | bind (k : Kind) (id : Id) (perm : Bool) (n : Nat) (sem0 : Int)
      -- find_or_add_ident(id, FOA_GLOBAL_SCOPE) + `if (dn.<k> == -1) sem_value++; dn.<k> = n` (define_new_function,
      -- copy_function, define_variable, class definitions); sem0 = sem_value before
  | fnReset                                         -- end of a function definition with the table pointers still inside
                                                    -- the tables (abandoned literal): release everything, back to the start
  | cleanup                                         -- clean_up_locals() + free_unused_identifiers() (epilog, clean_parser)
  | memReq (blk size : Nat) (sync : Option (Nat × Nat))
      -- allocate_in_mem_block / add_to_mem_block / insert_in_mem_block; `sync` = (current_size, max_size) found in
      -- the block: other code moves current_size too (icode.c grows the code blocks through prog_code,
      -- free_prog_string shrinks the string tables), which is not modelled
  | incAttempt (ok : Bool)                          -- handle_include reaching the depth test; ok = file could be opened
  | incPop                                          -- end of an include file
  | lexStart | lexEnd                               -- start_new_file / end_new_file
  | ifPush | ifPop | ifUnwind                       -- #if stack
  | fnPush | fnPop                                  -- push_function_context / pop_function_context
  | fnFlagSet                                       -- lexer saw `(:` followed by an identifier: function_flag = 1
  | scrAlloc (len : Nat)      -- a string of len bytes (with its zero) asked from the scratchpad: scratch_copy /
                              -- scratch_alloc / scratch_copy_string / the string scanner of yylex; pad or malloc
  | scrLarge                  -- scratch_large_alloc called directly
  | scrFreeLast (k : Nat)     -- scratch_free_last(); k strings below the top one are marked freed (first byte 0)
  | scrResize (size : Nat)    -- scratch_realloc of the last string, staying on the pad
  | scrJoin                   -- scratch_join of the two last strings on the pad
  | scrMark                   -- interior free: `*ptr = 0`
  | scrFreeBlock              -- scratch_free of a malloc'ed block
  | scrDestroy                -- scratch_destroy()
  deriving Repr, DecidableEq

/-- observable outputs: the trace points (event, cursor after, allocation size) and the end-of-compile reports -/
inductive Out
  | ev (name : String) (cursor : Int) (size : Int)
  | ident (lnumNew : Int) (semAfter : Int) (name : Id) (perm : Bool) (lnumBefore : Int) (semBefore : Int)
  | identBind (kind : String) (after : Int) (semAfter : Int) (name : Id) (perm : Bool) (before : Int) (semBefore : Int)
  | identClean (name : Id) (delta : Int)
  | identEnd (name : Id) (delta : Int) (fn glob cls : Int) (lnum : Int)
  | localsEnd (cur max lOff tOff : Nat)
  | scr (name : String) (tail : Nat) (size : Nat) (last : Nat) (large : Nat) (k : Option Nat)
  | scrEnd (last tail large : Nat)
  | crash (what : String)
  deriving Repr, DecidableEq

/-! ## locals tables -/

/-- what the grammar saves in `$<func_block>` when a function literal starts -/
structure Frame where
  c : Nat     -- num_local       = current_number_of_locals
  m : Nat     -- max_num_locals
  lo : Nat    -- locals_off      = locals_ptr - locals when the literal started
  to : Nat    -- type_off        = type_of_locals_ptr - type_of_locals when the literal started
  deriving Repr, DecidableEq

structure Loc where
  N : Nat                -- num_local_variables_allowed
  tsize : Nat            -- type_of_locals_size
  lsize : Nat            -- locals_size (also the size of runtime_locals)
  tOff : Nat             -- type_of_locals_ptr - type_of_locals
  lOff : Nat             -- locals_ptr - locals  (= runtime_locals_ptr - runtime_locals)
  cur : Nat              -- current_number_of_locals
  max : Nat              -- max_num_locals
  frames : List Frame    -- innermost first
  bad : Bool             -- an access outside a table happened
  deriving Repr

def Loc.init (N : Nat) : Loc := ⟨N, N, N, 0, 0, 0, 0, [], false⟩

def Loc.crash (l : Loc) (o : List Out) (what : String) : Loc × List Out :=
  ({ l with bad := true }, o ++ [.crash what])

def stepLoc (l : Loc) (e : Ev) : Loc × List Out :=
  if l.bad then (l, []) else
  match e with
  | .addLocal _ _ _ =>
    if l.N ≤ l.max then (l, [.ev "local.full" l.max l.N]) else
    let ti := l.tOff + l.max
    let ni := l.lOff + l.cur
    let o := [Out.ev "local.type" (ti + 1 : Nat) l.tsize, .ev "local.name" (ni + 1 : Nat) l.lsize]
    if ti < l.tsize ∧ ni < l.lsize then ({ l with cur := l.cur + 1, max := l.max + 1 }, o)
    else l.crash o "table-write-out-of-bounds add_local_name"
  | .popN n =>
    let k := min n l.cur
    let o := Out.ev "local.pop_n" k l.cur ::
      (List.range k).map (fun i => Out.ev "local.pop" ((l.lOff + l.cur - 1 - i : Nat)) l.lsize)
    if k = 0 ∨ l.lOff + l.cur ≤ l.lsize then ({ l with cur := l.cur - k }, o)
    else l.crash o "table-read-out-of-bounds pop_n_locals"
  | .freeAll =>
    let o := [Out.ev "local.free_all" (l.lOff + l.cur : Nat) l.lsize]
    if l.lOff + l.cur ≤ l.lsize then ({ l with cur := 0, max := 0 }, o)
    else l.crash o "table-read-out-of-bounds free_all_local_names"
  | .enterLit =>
    let grow := l.tsize ≤ l.tOff + l.max + l.N
    let l1 := if grow then { l with tsize := l.tsize + l.N, lsize := l.lsize + l.N } else l
    let o1 := if grow then [Out.ev "locals.realloc.type" l.tOff l1.tsize, .ev "locals.realloc.name" l.lOff l1.lsize] else []
    let o2 := o1 ++ [Out.ev "local.deactivate" (l.lOff + l.cur : Nat) l1.lsize]
    if l.lOff + l.cur ≤ l1.lsize then
      let l2 := { l1 with frames := ⟨l.cur, l.max, l.lOff, l.tOff⟩ :: l.frames, lOff := l.lOff + l.cur, tOff := l.tOff + l.max,
                          cur := 0, max := 0 }
      (l2, o2 ++ [Out.ev "literal.enter.type" l2.tOff l2.tsize, .ev "literal.enter.name" l2.lOff l2.lsize])
    else l1.crash o2 "table-write-out-of-bounds deactivate_current_locals"
  | .leaveLit d =>
    match l.frames.drop d with
    | [] => (l, [])
    | f :: rest =>
      -- repaired code: what literals abandoned by error recovery left above this literal's start is released
      -- (reads locals[f.lo + f.c .. lOff)), then the pointers return to where the literal started
      let o := [Out.ev "literal.leave.saved" f.c f.m]
      if f.lo + f.c ≤ l.lOff ∧ l.lOff ≤ l.lsize then
        let l' := { l with frames := rest, cur := f.c, max := f.m, lOff := f.lo, tOff := f.to }
        let o' := o ++ [Out.ev "literal.leave.type" l'.tOff l'.tsize, .ev "literal.leave.name" l'.lOff l'.lsize,
                        .ev "local.reactivate" (l'.lOff + l'.cur : Nat) l'.lsize]
        if l'.lOff + l'.cur ≤ l'.lsize then (l', o')
        else l'.crash o' "table-read-out-of-bounds reactivate_current_locals"
      else l.crash o "table-read-out-of-bounds leave literal"
  | .argTypes k =>
    let n := min k l.N
    let o := [Out.ev "local.argtypes" (l.tOff + n : Nat) l.tsize]
    if l.tOff + n ≤ l.tsize then (l, o) else l.crash o "table-read-out-of-bounds define_new_function"
  | .fnReset =>
    -- reads locals[0 .. lOff) while releasing; afterwards all cursors are at the start of the tables
    if l.lOff + l.cur ≤ l.lsize then
      ({ l with cur := 0, max := 0, lOff := 0, tOff := 0, frames := [] }, [Out.ev "local.fn_reset" (0 : Nat) l.lsize])
    else l.crash [] "table-read-out-of-bounds function end"
  | .cleanup =>
    let o := [Out.ev "local.cleanup" (l.lOff + l.cur : Nat) l.lsize]
    if l.lOff + l.cur ≤ l.lsize then ({ l with cur := 0, max := 0, lOff := 0, tOff := 0, frames := [] }, o)
    else l.crash o "table-read-out-of-bounds clean_up_locals"
  | _ => (l, [])

/-! ## identifiers bound by locals -/

structure Ids where
  perm : Id → Bool        -- which names are permanent identifiers (efuns, simul efuns, reserved words): never freed
  live : List Id          -- identifiers in locals[0 .. lOff+cur), newest first
  refs : Id → Int         -- sem_value, relative to its value before the first compile
  lnum : Id → Int         -- dn.local_num (-1 = none)
  bnd : Kind → Id → Int   -- dn.function_num / dn.global_num / dn.class_num (-1 = none)
  dirty : List Id         -- ident_dirty_list, newest first
  rt : List Int           -- runtime_locals[]
  perms : List Id         -- permanent identifiers seen so far (reported at end_new_file)
  bad : Bool

def Ids.init (P : Id → Bool) : Ids := ⟨P, [], fun _ => 0, fun _ => -1, fun _ _ => -1, [], [], [], false⟩

/-- 1 when a name-space binding is set -/
def b (x : Int) : Int := if x = -1 then 0 else 1

def Ids.bsum (s : Ids) (j : Id) : Int := b (s.bnd .fn j) + b (s.bnd .glob j) + b (s.bnd .cls j)

def updB (f : Kind → Id → Int) (k : Kind) (id : Id) (v : Int) : Kind → Id → Int :=
  fun k' j => if k' = k ∧ j = id then v else f k' j

/-- free_unused_identifiers, one dirty identifier: every set binding is cleared and gives back its reference -/
def clearOne (s : Ids) (id : Id) : Ids :=
  { s with refs := fun j => if j = id then s.refs j - s.bsum j else s.refs j,
           bnd := fun k j => if j = id then -1 else s.bnd k j }

def clearAll : List Id → Ids → Ids
  | [], s => s
  | id :: rest, s => clearAll rest (clearOne s id)

/-- the identifier structures that are not permanent are freed: the next compile finds fresh ones -/
def freeNonPerm (s : Ids) : Ids :=
  { s with refs := fun j => if s.perm j then s.refs j else 0,
           lnum := fun j => if s.perm j then s.lnum j else -1,
           bnd := fun k j => if s.perm j then s.bnd k j else -1 }

def upd (f : Id → Int) (k : Id) (v : Int) : Id → Int := fun j => if j = k then v else f j

/-- release the newest entry of locals[]: `sem_value--; dn.local_num = -1` -/
def popOne (s : Ids) : Ids :=
  match s.live with
  | [] => { s with bad := true }
  | id :: rest => { s with live := rest, refs := upd s.refs id (s.refs id - 1), lnum := upd s.lnum id (-1) }

def popMany : Nat → Ids → Ids
  | 0, s => s
  | n + 1, s => popMany n (popOne s)

def setAt (l : List Int) (i : Nat) (v : Int) : List Int :=
  if i < l.length then l.set i v else l ++ List.replicate (i - l.length) 0 ++ [v]

/-- identifier at index `i` (counted from the bottom) of a window of `c` entries on top of the live list -/
def windowId (s : Ids) (c i : Nat) : Option Id := s.live[c - 1 - i]?

def deactStep (lOff c : Nat) (s : Ids) (i : Nat) : Ids :=
  match windowId s c i with
  | none => { s with bad := true }
  | some id => { s with rt := setAt s.rt (lOff + i) (s.lnum id), lnum := upd s.lnum id (-1) }

/-- deactivate_current_locals: `runtime_locals_ptr[i] = local_num; local_num = -1` for the current window -/
def deactivate (s : Ids) (lOff c : Nat) : Ids := (List.range c).foldl (deactStep lOff c) s

def reactStep (lOff c : Nat) (s : Ids) (i : Nat) : Ids :=
  match windowId s c i with
  | none => { s with bad := true }
  | some id => { s with lnum := upd s.lnum id (s.rt.getD (lOff + i) 0) }

/-- reactivate_current_locals (repaired: no extra sem_value reference) -/
def reactivate (s : Ids) (lOff c : Nat) : Ids := (List.range c).foldl (reactStep lOff c) s

/-- identifier side of one event; `l` is the locals machine BEFORE the event, `l'` after it -/
def stepIds (l l' : Loc) (s : Ids) (e : Ev) : Ids × List Out :=
  if s.bad ∨ l.bad ∨ l'.bad then (s, []) else
  match e with
  | .addLocal id perm sem0 =>
    if l.N ≤ l.max then (s, []) else
    ({ s with live := id :: s.live, refs := upd s.refs id (s.refs id + 1), lnum := upd s.lnum id l.max,
              perms := if perm ∧ ¬ s.perms.contains id then s.perms ++ [id] else s.perms },
     [.ident l.max (sem0 + 1) id perm (s.lnum id) sem0])
  | .popN n => (popMany (min n l.cur) s, [])
  | .freeAll => (popMany l.cur s, [])
  | .enterLit => (deactivate s l.lOff l.cur, [])
  | .leaveLit d =>
    match l.frames.drop d with
    | [] => (s, [])
    | f :: _ => (reactivate (popMany (l.lOff + l.cur - (f.lo + f.c)) s) l'.lOff l'.cur, [])
  | .fnReset => (popMany (l.lOff + l.cur) s, [])
  | .bind k id perm n sem0 =>
    let before := s.bnd k id
    let inc : Int := if before = -1 then 1 else 0
    -- find_or_add_ident: a permanent identifier without per-compile bindings goes on the dirty list
    let dirty := if s.perm id ∧ s.bnd .fn id = -1 ∧ s.bnd .glob id = -1 ∧ s.bnd .cls id = -1 then id :: s.dirty else s.dirty
    ({ s with bnd := updB s.bnd k id n, refs := upd s.refs id (s.refs id + inc), dirty := dirty,
              perms := if perm ∧ ¬ s.perms.contains id then s.perms ++ [id] else s.perms },
     [.identBind k.name n (sem0 + inc) id perm before sem0])
  | .cleanup =>
    let s1 := popMany (l.lOff + l.cur) s
    let s2 := clearAll s1.dirty s1
    let o := (Out.ev "ident.free_unused" 0 0) :: s1.dirty.map (fun id => Out.identClean id (s2.refs id))
    (freeNonPerm { s2 with dirty := [] }, o)
  | .lexEnd =>
    (s, s.perms.map (fun id => Out.identEnd id (s.refs id) (s.bnd .fn id) (s.bnd .glob id) (s.bnd .cls id) (s.lnum id))
        ++ [.localsEnd l.cur l.max l.lOff l.tOff])
  | _ => (s, [])

/-! ## mem_block -/

structure Blk where
  cur : Nat     -- current_size
  max : Nat     -- max_size
  deriving Repr, DecidableEq

/-- realloc_mem_block: `while (size > max_size) max_size <<= 1` (fuel = need suffices because max ≥ 1) -/
def growTo (m need : Nat) : Nat → Nat
  | 0 => m
  | f + 1 => if m < need then growTo (2 * m) need f else m

structure Mem where
  blocks : List Blk
  bad : Bool
  deriving Repr

def Mem.fresh : List Blk := List.replicate numAreas ⟨0, startBlockSize⟩
def Mem.init : Mem := ⟨Mem.fresh, false⟩

def stepMem (s : Mem) (e : Ev) : Mem × List Out :=
  if s.bad then (s, []) else
  match e with
  | .memReq n size sync =>
    match s.blocks[n]? with
    | none => ({ s with bad := true }, [.ev "mem.req" n size, .crash "no-such-mem-block"])
    | some b0 =>
      let b : Blk := match sync with | some (c, m) => ⟨c, m⟩ | none => b0
      let need := b.cur + size
      let m := growTo b.max need need
      let o := [Out.ev "mem.req" n size, .ev "mem.before" b.cur b.max, .ev "mem.alloc" need m]
      if need ≤ m then ({ s with blocks := s.blocks.set n ⟨need, m⟩ }, o)
      else ({ s with bad := true }, o ++ [.crash "mem-block-overflow"])
  | .lexEnd => ({ s with blocks := Mem.fresh }, [])       -- blocks are freed; prolog allocates fresh ones
  | _ => (s, [])

/-! ## lexer stacks -/

structure Lex where
  incnum : Nat
  incDepth : Nat
  ifDepth : Nat
  fnCount : Nat        -- last_function_context + 1
  fnRefused : Nat      -- refused_function_contexts
  fnFlag : Bool        -- function_flag: the next identifier opens a functional
  bad : Bool
  deriving Repr

def Lex.init : Lex := ⟨0, 0, 0, 0, 0, false, false⟩

def incLimit : Nat := maxIncludeDepth - 1

def stepLex (s : Lex) (e : Ev) : Lex × List Out :=
  if s.bad then (s, []) else
  match e with
  | .incAttempt ok =>
    if maxIncludeDepth ≤ s.incnum + 1 then (s, [.ev "inc.refused" s.incnum maxIncludeDepth])
    else if ok then
      let s' := { s with incnum := s.incnum + 1, incDepth := s.incDepth + 1 }
      let o := [Out.ev "inc.push" s'.incDepth incLimit, .ev "inc.num" s'.incnum incLimit]
      if s'.incDepth ≤ incLimit then (s', o) else ({ s' with bad := true }, o ++ [.crash "include-depth-exceeded"])
    else (s, [.ev "inc.fail" s.incnum incLimit])
  | .incPop =>
    if s.incDepth = 0 then ({ s with bad := true }, [.crash "include-pop-empty"])
    else
      let s' := { s with incnum := s.incnum - 1, incDepth := s.incDepth - 1 }
      (s', [.ev "inc.pop" s'.incDepth incLimit, .ev "inc.num" s'.incnum incLimit])
  | .lexStart =>
    -- repaired code: start_new_file() also clears function_flag
    ({ s with incnum := 0, fnCount := 0, fnRefused := 0, fnFlag := false },
     [.ev "lex.start" s.incDepth incLimit, .ev "lex.start.if" s.ifDepth s.ifDepth, .ev "lex.start.fnflag" 0 0])
  | .fnFlagSet => ({ s with fnFlag := true }, [.ev "fnflag.set" 1 1])
  | .lexEnd =>
    ({ s with incDepth := 0, ifDepth := 0 }, [.ev "lex.end" s.incDepth incLimit, .ev "lex.end.if" s.ifDepth s.ifDepth])
  | .ifPush => let d := s.ifDepth + 1; ({ s with ifDepth := d }, [.ev "if.push" d d])
  | .ifPop =>
    if s.ifDepth = 0 then ({ s with bad := true }, [.crash "if-pop-empty"])
    else let d := s.ifDepth - 1; ({ s with ifDepth := d }, [.ev "if.pop" d d])
  | .ifUnwind => ({ s with ifDepth := 0 }, [.ev "if.unwind" 0 0])
  | .fnPush =>
    if s.fnCount = maxFunctionDepth then
      ({ s with fnRefused := s.fnRefused + 1 }, [.ev "fnctx.full" s.fnCount maxFunctionDepth])
    else
      -- writes function_context_stack[fnCount]
      let o := [Out.ev "fnctx.push" (s.fnCount + 1 : Nat) maxFunctionDepth]
      if s.fnCount < maxFunctionDepth then ({ s with fnCount := s.fnCount + 1 }, o)
      else ({ s with bad := true }, o ++ [.crash "function-context-stack-overflow"])
  | .fnPop =>
    let o := [Out.ev "fnctx.pop" ((s.fnCount : Int) - 1) maxFunctionDepth]
    if 0 < s.fnRefused then ({ s with fnRefused := s.fnRefused - 1 }, o)
    else if s.fnCount = 0 then ({ s with bad := true }, o ++ [.crash "function-context-stack-underflow"])
    else ({ s with fnCount := s.fnCount - 1 }, o)
  | _ => (s, [])

/-! ## scratchpad (lib/misc/scratchpad.c) -/

/-- one string on the pad: bytes [start, start+len) hold it (with its zero), byte start+len holds len -/
structure SEntry where
  start : Nat
  len : Nat
  deriving Repr, DecidableEq

structure Pad where
  entries : List SEntry     -- newest first
  large : Nat               -- malloc'ed blocks on scratch_head's list
  oob : Bool                -- an access outside scratchblock[] happened
  ill : Bool                -- an event the C callers cannot produce was seen (free of nothing ...): state frozen
  deriving Repr

def Pad.init : Pad := ⟨[], 0, false, false⟩

/-- offset of scr_last / scr_tail: &scratchblock[2] when the pad is empty -/
def Pad.last (p : Pad) : Nat := match p.entries with | [] => 2 | e :: _ => e.start
def Pad.tail (p : Pad) : Nat := match p.entries with | [] => 2 | e :: _ => e.start + e.len

def padLimit : Nat := scratchpadSize - 1

def Pad.out (p : Pad) (name : String) (k : Option Nat := none) : Out := .scr name p.tail padLimit p.last p.large k

def popK : Nat → List SEntry → List SEntry
  | 0, es => es
  | _ + 1, [] => []
  | k + 1, _ :: es => popK k es

def stepPad (p : Pad) (e : Ev) : Pad × List Out :=
  match e with
  | .scrDestroy => let q : Pad := ⟨[], 0, false, false⟩; (q, [q.out "scr.destroy"])
  | _ =>
  if p.oob ∨ p.ill then (p, []) else
  match e with
  | .scrAlloc len =>
    -- the guard all pad allocators share: the length fits its byte and string + length byte fit the pad
    if len ≤ 255 ∧ p.tail + 1 + len ≤ padLimit then
      let q := { p with entries := ⟨p.tail + 1, len⟩ :: p.entries }
      -- writes: the string at [start, start+len), its length byte at start+len
      if q.tail ≤ padLimit then (q, [q.out "scr.push"]) else ({ q with oob := true }, [q.out "scr.push", .crash "scratchpad-overflow"])
    else let q := { p with large := p.large + 1 }; (q, [q.out "scr.large"])
  | .scrLarge => let q := { p with large := p.large + 1 }; (q, [q.out "scr.large"])
  | .scrFreeLast k =>
    match p.entries with
    | [] => ({ p with ill := true }, [.crash "scratch_free_last on an empty pad"])
    | e :: rest =>
      -- reads scratchblock[e.start - 1] (length byte of the string below) and the first bytes of the strings passed
      let q := { p with entries := popK k rest }
      if 2 ≤ e.start - 1 ∧ 2 ≤ q.last then (q, [p.out "scr.free_last" (some k), q.out "scr.after"])
      else ({ q with oob := true }, [p.out "scr.free_last" (some k), .crash "scratchpad-underflow"])
  | .scrResize size =>
    match p.entries with
    | [] => ({ p with ill := true }, [.crash "scratch_realloc of nothing"])
    | e :: rest =>
      if size ≤ 255 ∧ e.start + size ≤ padLimit then
        let q := { p with entries := ⟨e.start, size⟩ :: rest }; (q, [q.out "scr.resize"])
      else ({ p with ill := true }, [.crash "scratch_realloc leaves the pad (not modelled)"])
  | .scrJoin =>
    match p.entries with
    | e2 :: e1 :: rest =>
      if e1.len + e2.len - 1 ≤ 255 ∧ 1 ≤ e1.len then
        let q := { p with entries := ⟨e1.start, e1.len + e2.len - 1⟩ :: rest }; (q, [q.out "scr.join"])
      else ({ p with ill := true }, [.crash "scratch_join leaves the pad (not modelled)"])
    | _ => ({ p with ill := true }, [.crash "scratch_join of less than two strings"])
  | .scrMark => (p, [p.out "scr.mark"])
  | .scrFreeBlock =>
    if p.large = 0 then ({ p with ill := true }, [.crash "scratch_free of a block that was not allocated"])
    else let q := { p with large := p.large - 1 }; (q, [q.out "scr.free_block"])
  | _ => (p, [])

def runPad (p : Pad) (es : List Ev) : Pad × List Out :=
  es.foldl (fun (acc : Pad × List Out) e => let r := stepPad acc.1 e; (r.1, acc.2 ++ r.2)) (p, [])

/-! ## the machines together -/

structure St where
  loc : Loc
  ids : Ids
  mem : Mem
  lex : Lex
  pad : Pad

def St.init (N : Nat) (P : Id → Bool := fun _ => false) : St := ⟨Loc.init N, Ids.init P, Mem.init, Lex.init, Pad.init⟩

def step (s : St) (e : Ev) : St × List Out :=
  let (loc', o1) := stepLoc s.loc e
  let (ids', o2) := stepIds s.loc loc' s.ids e
  let (mem', o3) := stepMem s.mem e
  let (lex', o4) := stepLex s.lex e
  let (pad', o5) := stepPad s.pad e
  -- end_new_file: the harness also reports the scratchpad, which scratch_destroy() must have emptied by then
  let o6 := match e with | .lexEnd => [Out.scrEnd pad'.last pad'.tail pad'.large] | _ => []
  (⟨loc', ids', mem', lex', pad'⟩, o1 ++ o3 ++ o4 ++ o2 ++ o5 ++ o6)

def run (s : St) : List Ev → St × List Out
  | [] => (s, [])
  | e :: es =>
    let (s1, o1) := step s e
    let (s2, o2) := run s1 es
    (s2, o1 ++ o2)

def runLoc (l : Loc) : List Ev → Loc × List Out
  | [] => (l, [])
  | e :: es =>
    let (l1, o1) := stepLoc l e
    let (l2, o2) := runLoc l1 es
    (l2, o1 ++ o2)

def runMem (s : Mem) (es : List Ev) : Mem := es.foldl (fun s e => (stepMem s e).1) s
def runLex (s : Lex) (es : List Ev) : Lex := es.foldl (fun s e => (stepLex s e).1) s

/-- locals + identifier machines only (used by `idents_restored`) -/
def stepLI (p : Loc × Ids) (e : Ev) : Loc × Ids :=
  let l' := (stepLoc p.1 e).1
  (l', (stepIds p.1 l' p.2 e).1)

def runLI (p : Loc × Ids) (es : List Ev) : Loc × Ids := es.foldl stepLI p

/-! ## yytext -/

/-- indices of yytext[] written while scanning one token: `pre` unguarded leading characters (identifier / number: 1,
    `$n`, hex, directive: 0), then `n` characters through SAVEC, which stops the scan with "Line too long" once
    `yyp < yytext + MAXLINE - 5` fails; the terminating `*yyp = 0` follows in either case -/
def scanFrom (yyp : Nat) : Nat → List Nat
  | 0 => [yyp]
  | n + 1 => if (yyp : Int) < savecBound then yyp :: scanFrom (yyp + 1) n else [yyp]

def scanWrites (pre n : Nat) : List Nat := List.range pre ++ scanFrom pre n

end NV.C02
