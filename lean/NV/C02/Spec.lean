/-
C02 — specification oracle.  It judges a trace of observable events (from the real compiler or from the model) and
knows nothing about how the tables are managed:

  * every trace point reports (cursor after, allocation size): the cursor must lie inside the allocation;
  * no crash / sanitizer report / timeout;
  * a compilation either yields a program or reports at least one error (or raises an LPC error);
  * at end_new_file the locals bookkeeping is back to its initial configuration and every permanent identifier
    touched by local declarations has its sem_value back and no local binding;
  * the probe program compiled before and after has the same structural dump, and the adaptive probe (tiny programs
    mentioning every identifier the input declared) has the same outcome as in a pristine process (exploration part).
-/
import NV.C02.Model

namespace NV.C02

open NV.Gen.C02

/-- one line of a canonical trace -/
inductive Line
  | out (o : Out)
  | cfg (n : Nat)
  | result (what : List String)
  | probe (rest : String)
  | crashLine (s : String)
  | truncated
  | aprobeDiff (s : String)
  | baseOdd (s : String)
  | other (s : String)
  deriving Repr

/-- trace points whose (cursor, size) pair is not a cursor/allocation pair -/
def exemptName (n : String) : Bool := n == "mem.req"

/-- `add_input` request: (outptr offset in the current buffer, length of the text) -/
def addReqName (n : String) : Bool := n == "lbuf.add.req" || n == "lbuf.add.req.a"

def okOut : Out → Bool
  | .ev name c s =>
    if exemptName name then decide (0 ≤ c ∧ c < numAreas)
    else if addReqName name then decide (0 ≤ c ∧ c ≤ defmax ∧ 0 ≤ s)
    else decide (0 ≤ c ∧ c ≤ s)
  | .ident lnumNew _ _ _ _ _ => decide (0 ≤ lnumNew)
  | .identBind _ after _ _ _ _ _ => decide (0 ≤ after)
  | .identClean _ delta => decide (delta = 0)
  | .identEnd _ delta fn glob cls lnum => decide (delta = 0 ∧ fn = -1 ∧ glob = -1 ∧ cls = -1 ∧ lnum = -1)
  | .localsEnd cur max lOff tOff => decide (cur = 0 ∧ max = 0 ∧ lOff = 0 ∧ tOff = 0)
  | .scr _ tail size last _ _ => decide (2 ≤ last ∧ last ≤ tail ∧ tail ≤ size)
  | .scrEnd last tail large => decide (last = 2 ∧ tail = 2 ∧ large = 0)
  | .crash _ => false

def describe : Out → String
  | .ev name c s => s!"cursor-outside-allocation {name} cursor={c} size={s}"
  | .ident l _ n _ _ _ => s!"negative-local-number {n} {l}"
  | .identBind k a _ n _ _ _ => s!"negative-binding {k} {n} {a}"
  | .identClean n d => s!"ident-not-restored-by-cleanup {n} delta={d}"
  | .identEnd n d f g c l => s!"ident-not-restored {n} delta={d} fn={f} glob={g} cls={c} local={l}"
  | .localsEnd c m lo t => s!"locals-not-reset cur={c} max={m} name={lo} type={t}"
  | .scr n t sz l _ _ => s!"scratchpad-cursor-outside-pad {n} tail={t} last={l} size={sz}"
  | .scrEnd l t lg => s!"scratchpad-not-empty-after-compile last={l} tail={t} large={lg}"
  | .crash w => s!"crash {w}"

/-- verdicts on structured events -/
def judgeEv (os : List Out) : List String := (os.filter (fun o => !okOut o)).map describe

/-- verdicts on a whole trace -/
def judge (ls : List Line) : List String :=
  let outs := ls.filterMap (fun l => match l with | .out o => some o | _ => none)
  let v1 := judgeEv outs
  let v2 := ls.filterMap (fun l => match l with
    | .crashLine s => some s!"crash {s}"
    | .result ["none"] => some "no-program-and-no-error"
    | .aprobeDiff s => some s!"adaptive-probe-differs {s}"
    | .baseOdd s => some s!"permanent-identifier-not-pristine {s}"
    | _ => none)
  let probes := ls.filterMap (fun l => match l with | .probe r => some r | _ => none)
  let v3 := match probes with
    | [] => []
    | p :: rest =>
      (if p.startsWith "FAIL" then ["probe-failed-before " ++ p] else []) ++
      (rest.filter (· ≠ p)).map (fun q => s!"probe-differs before=[{p}] after=[{q}]")
  v1 ++ v2 ++ v3

end NV.C02
