/-
C02 — the combined "compiler is reusable" statement over ALL machines of the model at once.

After ANY event stream (any source text, any error at any point, open / abandoned function literals, identifiers bound
in every name space, strings on the scratchpad, open includes and #ifs, open function contexts) the end-of-compile
sequence that both `epilog()` and `clean_parser()` run - clean_up_locals + free_unused_identifiers, scratch_destroy,
end_new_file - followed by the `start_new_file` of the next compilation leaves the compiler in its initial
configuration.  Only the allocation sizes of the locals tables may have grown (reallocate_locals never shrinks them),
`runtime_locals[]` keeps stale bytes that are never read before being written, and the list of permanent identifiers
the harness reports on keeps growing (bookkeeping of the observer, not of the compiler).
-/
import NV.C02.Props

namespace NV.C02

open NV.Gen.C02

/-- what `epilog()` / `clean_parser()` + `end_new_file()` do, and the start of the next compilation -/
def endOfCompile : List Ev := [.cleanup, .scrDestroy, .lexEnd, .lexStart]

theorem run_loc : ∀ (es : List Ev) (s : St), (run s es).1.loc = (runLoc s.loc es).1 := by
  intro es
  induction es with
  | nil => intro s; rfl
  | cons e es ih =>
    intro s
    simp only [run, runLoc]
    rw [ih]
    rfl

theorem run_li : ∀ (es : List Ev) (s : St), ((run s es).1.loc, (run s es).1.ids) = runLI (s.loc, s.ids) es := by
  intro es
  induction es with
  | nil => intro s; rfl
  | cons e es ih =>
    intro s
    simp only [run, runLI, List.foldl_cons]
    have := ih (step s e).1
    simp only [runLI] at this
    rw [this]
    rfl

theorem run_mem : ∀ (es : List Ev) (s : St), (run s es).1.mem = runMem s.mem es := by
  intro es
  induction es with
  | nil => intro s; rfl
  | cons e es ih =>
    intro s
    simp only [run, runMem, List.foldl_cons]
    have := ih (step s e).1
    simp only [runMem] at this
    rw [this]
    rfl

theorem run_lex : ∀ (es : List Ev) (s : St), (run s es).1.lex = runLex s.lex es := by
  intro es
  induction es with
  | nil => intro s; rfl
  | cons e es ih =>
    intro s
    simp only [run, runLex, List.foldl_cons]
    have := ih (step s e).1
    simp only [runLex] at this
    rw [this]
    rfl

theorem run_pad : ∀ (es : List Ev) (s : St), (run s es).1.pad = (runPad s.pad es).1 := by
  intro es
  induction es with
  | nil => intro s; rfl
  | cons e es ih =>
    intro s
    simp only [run]
    rw [ih]
    simp only [runPad, runPad_fst, List.foldl_cons]
    rfl

theorem runLoc_append : ∀ (a b : List Ev) (l : Loc), (runLoc l (a ++ b)).1 = (runLoc (runLoc l a).1 b).1 := by
  intro a
  induction a with
  | nil => intro b l; rfl
  | cons e a ih => intro b l; simp only [List.cons_append, runLoc]; exact ih b _

theorem stepLoc_inert (l : Loc) (e : Ev) (h : e = .scrDestroy ∨ e = .lexEnd ∨ e = .lexStart) : (stepLoc l e).1 = l := by
  rcases h with h | h | h <;> subst h <;>
  · simp only [stepLoc]
    by_cases hb : l.bad = true
    · simp [hb]
    · simp [hb]

/-- the three events behind `.cleanup` do not touch the locals / identifier machines -/
theorem stepLI_inert (p : Loc × Ids) (e : Ev) (h : e = .scrDestroy ∨ e = .lexEnd ∨ e = .lexStart) : stepLI p e = p := by
  obtain ⟨l, s⟩ := p
  rcases h with h | h | h <;> subst h <;>
  · simp only [stepLI, stepLoc, stepIds]
    by_cases hb : l.bad = true
    · simp [hb]
    · simp only [hb, Bool.false_eq_true, if_false]
      by_cases hs : s.bad = true
      · simp [hs]
      · simp [hs, hb]

theorem runLI_endOfCompile (p : Loc × Ids) (evs : List Ev) :
    runLI p (evs ++ endOfCompile) = runLI p (evs ++ [.cleanup]) := by
  simp only [endOfCompile, runLI, List.foldl_append, List.foldl_cons, List.foldl_nil]
  rw [stepLI_inert _ .scrDestroy (Or.inl rfl), stepLI_inert _ .lexEnd (Or.inr (Or.inl rfl)),
      stepLI_inert _ .lexStart (Or.inr (Or.inr rfl))]

/-- **compiler_state_reset** — reusability as a theorem.  For every MaxLocalVariables `N`, every set `P` of permanent
    identifiers and EVERY event stream `evs`, the state after `evs ++ endOfCompile` is the initial state:
    * locals tables: counts, cursors, open literals as in `Loc.init N` (sizes at least `N`), nothing crashed;
    * identifiers: every `sem_value`, `local_num`, function / global / class binding as in `Ids.init P`, dirty list and
      live entries empty;
    * scratchpad: equal to `Pad.init`;
    * mem blocks: equal to `Mem.init` (unless a request named a block that does not exist: `bad`);
    * lexer: equal to `Lex.init` (unless the stream popped a stack that was empty: `bad`). -/
theorem compiler_state_reset (N : Nat) (P : Id → Bool) (evs : List Ev) :
    let s := (run (St.init N P) (evs ++ endOfCompile)).1
    (s.loc.cur = 0 ∧ s.loc.max = 0 ∧ s.loc.lOff = 0 ∧ s.loc.tOff = 0 ∧ s.loc.frames = [] ∧ s.loc.N = N ∧ s.loc.bad = false) ∧
    (s.ids.bad = false ∧ s.ids.dirty = [] ∧ ∀ j, s.ids.refs j = 0 ∧ s.ids.lnum j = -1 ∧ ∀ k, s.ids.bnd k j = -1) ∧
    s.pad = Pad.init ∧
    (s.mem.bad = false → s.mem = Mem.init) ∧
    (s.lex.bad = false → s.lex = Lex.init) := by
  intro s
  have hli : (s.loc, s.ids) = runLI (Loc.init N, Ids.init P) (evs ++ [.cleanup]) := by
    have := run_li (evs ++ endOfCompile) (St.init N P)
    rw [runLI_endOfCompile] at this
    exact this
  have hloc : s.loc = (runLI (Loc.init N, Ids.init P) (evs ++ [.cleanup])).1 := by rw [← hli]
  have hids : s.ids = (runLI (Loc.init N, Ids.init P) (evs ++ [.cleanup])).2 := by rw [← hli]
  have hI := idents_restored N P evs
  have hL := locals_reset_after_cleanup N evs
  have hlocL : s.loc = (runLoc (Loc.init N) (evs ++ [.cleanup])).1 := by
    have h1 := run_loc (evs ++ endOfCompile) (St.init N P)
    have h2 : evs ++ endOfCompile = (evs ++ [.cleanup]) ++ [.scrDestroy, .lexEnd, .lexStart] := by simp [endOfCompile]
    show (run (St.init N P) (evs ++ endOfCompile)).1.loc = _
    rw [h1, h2, runLoc_append]
    simp only [runLoc]
    rw [stepLoc_inert _ .scrDestroy (Or.inl rfl), stepLoc_inert _ .lexEnd (Or.inr (Or.inl rfl)),
        stepLoc_inert _ .lexStart (Or.inr (Or.inr rfl))]
    rfl
  refine ⟨?_, ?_, ?_, ?_, ?_⟩
  · rw [hlocL]
    refine ⟨hL.1, hL.2.1, hL.2.2.1, hL.2.2.2.1, hL.2.2.2.2.1, hL.2.2.2.2.2, ?_⟩
    exact (table_writes_in_bounds N (evs ++ [.cleanup])).1
  · rw [hids]
    exact ⟨hI.2.1, hI.2.2.1, hI.2.2.2⟩
  · have := run_pad (evs ++ endOfCompile) (St.init N P)
    show (run (St.init N P) (evs ++ endOfCompile)).1.pad = Pad.init
    rw [this]
    simp only [endOfCompile, runPad, runPad_fst, List.foldl_append, List.foldl_cons, List.foldl_nil]
    generalize List.foldl (fun p e => (stepPad p e).1) (St.init N P).pad evs = q
    simp [stepPad, Pad.init]
  · intro hb
    have hm := run_mem (evs ++ endOfCompile) (St.init N P)
    have hs : s.mem = runMem Mem.init (evs ++ endOfCompile) := hm
    rw [hs] at hb ⊢
    simp only [endOfCompile, runMem, List.foldl_append, List.foldl_cons, List.foldl_nil] at hb ⊢
    generalize List.foldl (fun s e => (stepMem s e).1) Mem.init evs = m at hb ⊢
    by_cases hmb : m.bad = true
    · simp [stepMem, hmb] at hb
    · simp [stepMem, hmb, Mem.init]
  · intro hb
    have hl := run_lex (evs ++ endOfCompile) (St.init N P)
    have hs : s.lex = runLex Lex.init (evs ++ endOfCompile) := hl
    rw [hs] at hb ⊢
    simp only [endOfCompile, runLex, List.foldl_append, List.foldl_cons, List.foldl_nil] at hb ⊢
    generalize List.foldl (fun s e => (stepLex s e).1) Lex.init evs = x at hb ⊢
    by_cases hxb : x.bad = true
    · simp [stepLex, hxb] at hb
    · simp [stepLex, hxb, Lex.init]

-- non-vacuity: a compile that stops in the middle of everything
example :
    ((run (St.init 25 (fun j => j == "write"))
      ([.lexStart, .incAttempt true, .ifPush, .fnPush, .bind .glob "write" true 0 1, .addLocal "write" true 1, .enterLit,
        .addLocal "x" false 0, .scrAlloc 10, .memReq 0 5000 none])).1.loc.frames.length,
     (run (St.init 25 (fun j => j == "write"))
      ([.lexStart, .incAttempt true, .ifPush, .fnPush, .bind .glob "write" true 0 1, .addLocal "write" true 1, .enterLit,
        .addLocal "x" false 0, .scrAlloc 10, .memReq 0 5000 none])).1.pad.entries.length) = (1, 1) := by
  decide

end NV.C02
