/-
C02 — the 16-bit reference counter `sem_value` (ident_hash_elem_t, a `short`): how large can it get?

`sem_value_bounded_by_table`: for every source text, the number of references the compiler holds on ONE identifier is at
most the current size of the locals table plus the three name-space bindings.  `table_size_bounded_by_nesting`: the
table only grows when a function literal starts, and never beyond MaxLocalVariables * (deepest nesting of open literals
+ 2).  Every open literal keeps symbols on bison's stack (YYMAXDEPTH, regenerated as `yyMaxDepth`), so the nesting is
bounded by the parser; `sem_value_fits_short` puts the two together for the default configuration.
-/
import NV.C02.PropsTie

namespace NV.C02

open NV.Gen.C02

theorem b_le_one (x : Int) : b x ≤ 1 := by unfold b; split <;> omega

/-- **sem_value_bounded_by_table** — after ANY event stream, for every identifier: `0 ≤ sem_value - initial value ≤
    locals_size + 3`. -/
theorem sem_value_bounded_by_table (N : Nat) (P : Id → Bool) (evs : List Ev) (j : Id) :
    0 ≤ (runLI (Loc.init N, Ids.init P) evs).2.refs j ∧
    (runLI (Loc.init N, Ids.init P) evs).2.refs j ≤ ((runLI (Loc.init N, Ids.init P) evs).1.lsize : Int) + 3 := by
  generalize hp : runLI (Loc.init N, Ids.init P) evs = p
  have h : LIInv p := by rw [← hp]; exact runLI_inv evs _ (liInv_init N P)
  have hr : p.2.refs j = (p.2.live.count j : Int) + p.2.bsum j := h.ids.refs j
  have hc : p.2.live.count j ≤ p.2.live.length := List.count_le_length
  have hlen : p.2.live.length = p.1.lOff + p.1.cur := h.len
  have h1 : p.1.lOff ≤ p.1.tOff := h.loc.lt
  have h2 : p.1.tOff + p.1.N ≤ p.1.tsize := h.loc.tFit
  have h3 : p.1.cur ≤ p.1.max := h.loc.curMax
  have h4 : p.1.max ≤ p.1.N := h.loc.maxN
  have h5 : p.1.lsize = p.1.tsize := h.loc.sizes
  have hb0 : 0 ≤ p.2.bsum j := by
    simp only [Ids.bsum]
    have := b_nonneg (p.2.bnd .fn j); have := b_nonneg (p.2.bnd .glob j); have := b_nonneg (p.2.bnd .cls j)
    omega
  have hb3 : p.2.bsum j ≤ 3 := by
    simp only [Ids.bsum]
    have := b_le_one (p.2.bnd .fn j); have := b_le_one (p.2.bnd .glob j); have := b_le_one (p.2.bnd .cls j)
    omega
  constructor <;> omega

/-- start offsets of the open literals are bounded by MaxLocalVariables per level below them -/
def Depth (N : Nat) : List Frame → Prop
  | [] => True
  | f :: rest => f.to ≤ N * rest.length ∧ Depth N rest

theorem depth_drop {N : Nat} : ∀ (d : Nat) (fs : List Frame), Depth N fs → Depth N (fs.drop d)
  | 0, fs, h => by simpa using h
  | _ + 1, [], _ => by simp [Depth]
  | d + 1, _ :: rest, h => by
    simp only [List.drop_succ_cons]
    exact depth_drop d rest h.2

structure SizeInv (D : Nat) (l : Loc) : Prop where
  ts : l.tsize ≤ l.N * (D + 2)
  off : l.tOff ≤ l.N * l.frames.length
  dep : Depth l.N l.frames

/-- every state of the run has at most `D` open function literals -/
def depthOk (D : Nat) : Loc → List Ev → Prop
  | l, [] => l.frames.length ≤ D
  | l, e :: es => l.frames.length ≤ D ∧ depthOk D (stepLoc l e).1 es

theorem sizeInv_step (D : Nat) (l : Loc) (e : Ev) (hL : LocInv l) (hS : SizeInv D l)
    (hD' : (stepLoc l e).1.frames.length ≤ D) : SizeInv D (stepLoc l e).1 := by
  have hb := hL.notBad
  have keep : ∀ l' : Loc, l'.N = l.N → l'.tsize = l.tsize → l'.tOff = l.tOff → l'.frames = l.frames → SizeInv D l' := by
    intro l' a b c d
    exact ⟨by rw [a, b]; exact hS.ts, by rw [a, c, d]; exact hS.off, by rw [a, d]; exact hS.dep⟩
  have zero : ∀ l' : Loc, l'.N = l.N → l'.tsize = l.tsize → l'.tOff = 0 → l'.frames = [] → SizeInv D l' := by
    intro l' a b c d
    exact ⟨by rw [a, b]; exact hS.ts, by rw [c]; exact Nat.zero_le _, by rw [d]; trivial⟩
  cases e with
  | addLocal id p s0 =>
    by_cases hf : l.N ≤ l.max
    · have : (stepLoc l (.addLocal id p s0)).1 = l := by simp [stepLoc, hb, hf]
      rw [this]; exact hS
    · rw [shape_addLocal l id p s0 hL hf]; exact keep _ rfl rfl rfl rfl
  | popN n => rw [shape_popN l n hL]; exact keep _ rfl rfl rfl rfl
  | freeAll => rw [shape_freeAll l hL]; exact keep _ rfl rfl rfl rfl
  | cleanup => rw [shape_cleanup l hL]; exact zero _ rfl rfl rfl rfl
  | fnReset => rw [shape_fnReset l hL]; exact zero _ rfl rfl rfl rfl
  | argTypes k =>
    have : (stepLoc l (.argTypes k)).1.N = l.N ∧ (stepLoc l (.argTypes k)).1.tsize = l.tsize ∧
        (stepLoc l (.argTypes k)).1.tOff = l.tOff ∧ (stepLoc l (.argTypes k)).1.frames = l.frames := by
      simp only [stepLoc, hb, Bool.false_eq_true, if_false]
      split <;> simp [Loc.crash]
    exact keep _ this.1 this.2.1 this.2.2.1 this.2.2.2
  | enterLit =>
    have hinv := (stepLoc_inv l .enterLit hL).1
    have hnb := hinv.notBad
    have hm := literal_enter_matches_source l hb
    obtain ⟨_, _, hts, _, hrest⟩ := hm
    obtain ⟨_, _, hto, _, _, hfr⟩ := hrest hnb
    have hN : (stepLoc l .enterLit).1.N = l.N := by
      simp only [stepLoc, hb, Bool.false_eq_true, if_false]
      split <;> split <;> simp [Loc.crash]
    have hlen : (stepLoc l .enterLit).1.frames.length = l.frames.length + 1 := by rw [hfr]; simp
    have hmax := hL.maxN
    have hoff := hS.off
    have hg : reallocTest l.tOff l.lOff l.cur l.max l.N l.tsize l.lsize = decide (l.tsize ≤ l.tOff + l.max + l.N) := by
      simp [reallocTest]
    have e1 : l.N * (l.frames.length + 1) = l.N * l.frames.length + l.N := Nat.mul_succ _ _
    have hle : l.frames.length + 1 ≤ D := by rw [← hlen]; exact hD'
    have e2 : l.N * (l.frames.length + 3) ≤ l.N * (D + 2) := Nat.mul_le_mul_left _ (by omega)
    have e3 : l.N * (l.frames.length + 3) = l.N * l.frames.length + 3 * l.N := by
      rw [Nat.mul_add, Nat.mul_comm l.N 3]
    refine ⟨?_, ?_, ?_⟩
    · rw [hN, hts, hg]
      have := hS.ts
      by_cases h1 : l.tsize ≤ l.tOff + l.max + l.N
      · simp only [h1, decide_true, if_true, reallocGrowType]; omega
      · simp only [h1, decide_false, Bool.false_eq_true, if_false]; exact this
    · rw [hN, hto, hlen, e1]; simp only [enterTypeAdv]; omega
    · rw [hN, hfr]; exact ⟨hoff, hS.dep⟩
  | leaveLit d =>
    simp only [stepLoc, hb, Bool.false_eq_true, if_false] at hD' ⊢
    have hdd := depth_drop d l.frames hS.dep
    split
    · exact hS
    · rename_i f rest hdrop
      rw [hdrop] at hdd
      split
      · split
        · exact ⟨hS.ts, hdd.1, hdd.2⟩
        · exact ⟨hS.ts, hdd.1, hdd.2⟩
      · exact ⟨hS.ts, hS.off, hS.dep⟩
  | _ => simp only [stepLoc, hb, Bool.false_eq_true, if_false]; exact hS

/-- **table_size_bounded_by_nesting** — for every event stream in which at most `D` function literals are open at any
    time, the locals tables never grow beyond `MaxLocalVariables * (D + 2)` entries. -/
theorem table_size_bounded_by_nesting (N D : Nat) : ∀ (evs : List Ev) (l : Loc), LocInv l → SizeInv D l → l.N = N →
    depthOk D l evs → (runLoc l evs).1.tsize ≤ N * (D + 2) ∧ (runLoc l evs).1.lsize ≤ N * (D + 2)
  | [], l, hL, hS, hN, _ => by
    simp only [runLoc]
    have := hS.ts; have := hL.sizes
    rw [hN] at *
    omega
  | e :: es, l, hL, hS, hN, hd => by
    simp only [runLoc]
    have hL' := (stepLoc_inv l e hL).1
    have hd2 : depthOk D (stepLoc l e).1 es := hd.2
    have hlen : (stepLoc l e).1.frames.length ≤ D := by
      cases es with
      | nil => exact hd2
      | cons _ _ => exact hd2.1
    have hS' := sizeInv_step D l e hL hS hlen
    have hN' : (stepLoc l e).1.N = N := by
      rw [← hN]
      exact counters_fit_their_fields.runLoc_N [e] l hL |> (by simpa [runLoc] using ·)
    exact table_size_bounded_by_nesting N D es _ hL' hS' hN' hd2

theorem sizeInv_init (N D : Nat) : SizeInv D (Loc.init N) :=
  ⟨by simp only [Loc.init]; exact Nat.le_mul_of_pos_right _ (by omega), by simp [Loc.init], by simp [Loc.init, Depth]⟩

/-- **sem_value_fits_short** — the default configuration: with at most `yyMaxDepth` (YYMAXDEPTH) function literals open,
    `locals_size + 3` stays below 32767, so by `sem_value_bounded_by_table` no identifier's 16-bit `sem_value` can wrap. -/
theorem sem_value_fits_short (evs : List Ev) (hd : depthOk yyMaxDepth (Loc.init defaultMaxLocals) evs) :
    (runLoc (Loc.init defaultMaxLocals) evs).1.lsize + 3 ≤ 32767 := by
  have h := (table_size_bounded_by_nesting defaultMaxLocals yyMaxDepth evs (Loc.init defaultMaxLocals)
    (locInv_init _) (sizeInv_init _ _) rfl hd).2
  have c : defaultMaxLocals * (yyMaxDepth + 2) + 3 ≤ 32767 := by decide
  omega

example : depthOk 1 (Loc.init 25) [.addLocal "a" false 0, .enterLit, .leaveLit 0] := by
  simp [depthOk, stepLoc, Loc.init, Loc.crash]

end NV.C02
