/-
C02 — helper lemmas: mem_block doubling, include counter, yytext scan.
-/
import NV.C02.Model
import NV.C02.Spec

namespace NV.C02

open NV.Gen.C02

theorem growTo_ge : ∀ (f m need : Nat), 0 < m → need ≤ m + f → need ≤ growTo m need f ∧ 0 < growTo m need f
  | 0, m, need, hm, h => by simp only [growTo]; omega
  | f + 1, m, need, hm, h => by
    simp only [growTo]
    by_cases hlt : m < need
    · simp only [hlt, if_true]
      exact growTo_ge f (2 * m) need (by omega) (by omega)
    · simp only [hlt, if_false]; omega

def BlkOk (b : Blk) : Prop := b.cur ≤ b.max ∧ 0 < b.max

/-- well-formedness of a request as the judge checks it on the real values: an existing block, and a consistent
    (current_size, max_size) pair found in it -/
def reqOk : Ev → Prop
  | .memReq n _ (some (c, m)) => n < numAreas ∧ c ≤ m ∧ 0 < m
  | .memReq n _ none => n < numAreas
  | _ => True

structure MemInv (s : Mem) : Prop where
  notBad : s.bad = false
  len : s.blocks.length = numAreas
  ok : ∀ b ∈ s.blocks, BlkOk b

theorem fresh_ok : ∀ b ∈ Mem.fresh, BlkOk b := by
  intro b hb
  simp only [Mem.fresh, List.mem_replicate] at hb
  rw [hb.2]
  exact ⟨Nat.zero_le _, by decide⟩

theorem memInv_init : MemInv Mem.init := ⟨rfl, by simp [Mem.init, Mem.fresh], fresh_ok⟩

theorem stepMem_inv (s : Mem) (e : Ev) (h : MemInv s) (hr : reqOk e) : MemInv (stepMem s e).1 := by
  have hb := h.notBad
  cases e with
  | memReq n size sync =>
    have hn : n < s.blocks.length := by
      rw [h.len]; cases sync with
      | none => exact hr
      | some p => exact hr.1
    have hget : s.blocks[n]? = some s.blocks[n] := List.getElem?_eq_getElem hn
    have fin : ∀ (b : Blk), BlkOk b → MemInv
        (if b.cur + size ≤ growTo b.max (b.cur + size) (b.cur + size) then
          ((⟨s.blocks.set n ⟨b.cur + size, growTo b.max (b.cur + size) (b.cur + size)⟩, false⟩ : Mem),
            [Out.ev "mem.req" n size, .ev "mem.before" b.cur b.max,
             .ev "mem.alloc" (b.cur + size : Nat) (growTo b.max (b.cur + size) (b.cur + size))])
        else ((⟨s.blocks, true⟩ : Mem),
            [Out.ev "mem.req" n size, .ev "mem.before" b.cur b.max,
             .ev "mem.alloc" (b.cur + size : Nat) (growTo b.max (b.cur + size) (b.cur + size))] ++ [.crash "mem-block-overflow"])).1 := by
      intro b hbok
      have hg := growTo_ge (b.cur + size) b.max (b.cur + size) hbok.2 (by omega)
      simp only [hg.1, if_true]
      refine ⟨rfl, by simp [h.len], ?_⟩
      intro x hx
      rcases List.mem_or_eq_of_mem_set hx with hx | hx
      · exact h.ok x hx
      · rw [hx]; exact ⟨hg.1, hg.2⟩
    cases sync with
    | none =>
      simp only [stepMem, hb, Bool.false_eq_true, if_false, hget]
      exact fin _ (h.ok _ (List.getElem_mem hn))
    | some p =>
      obtain ⟨c, m⟩ := p
      simp only [stepMem, hb, Bool.false_eq_true, if_false, hget]
      exact fin ⟨c, m⟩ ⟨hr.2.1, hr.2.2⟩
  | lexEnd =>
    simp only [stepMem, hb, Bool.false_eq_true, if_false]
    exact ⟨rfl, by simp [Mem.fresh], fresh_ok⟩
  | _ => simp only [stepMem, hb, Bool.false_eq_true, if_false]; exact h

theorem runMem_inv : ∀ (evs : List Ev) (s : Mem), MemInv s → (∀ e ∈ evs, reqOk e) → MemInv (runMem s evs)
  | [], _, h, _ => h
  | e :: es, s, h, hr => by
    simp only [runMem, List.foldl_cons]
    exact runMem_inv es _ (stepMem_inv s e h (hr e (List.mem_cons_self ..))) (fun x hx => hr x (List.mem_cons_of_mem _ hx))

/-! include counter -/

def IncInv (s : Lex) : Prop := s.incDepth ≤ s.incnum ∧ s.incnum ≤ incLimit

theorem stepLex_inc (s : Lex) (e : Ev) (h : IncInv s) (hne : e ≠ .lexStart) : IncInv (stepLex s e).1 := by
  unfold IncInv at *
  by_cases hb : s.bad = true
  · simp only [stepLex, hb, if_true]; exact h
  · have hb' : s.bad = false := by simpa using hb
    have hlim : incLimit + 1 = maxIncludeDepth := by decide
    cases e with
    | lexStart => exact absurd rfl hne
    | incAttempt ok =>
      simp only [stepLex, hb', Bool.false_eq_true, if_false]
      by_cases hfull : maxIncludeDepth ≤ s.incnum + 1
      · simp only [hfull, if_true]; exact h
      · simp only [hfull, if_false]
        cases ok with
        | false => simp only [Bool.false_eq_true, if_false]; exact h
        | true =>
          have hd : s.incDepth + 1 ≤ incLimit := by omega
          simp only [if_true, hd]
          constructor <;> first | omega | (simp; omega)
    | incPop =>
      simp only [stepLex, hb', Bool.false_eq_true, if_false]
      by_cases hz : s.incDepth = 0
      · simp only [hz, if_true]; first | omega | (simp; omega)
      · simp only [hz, if_false]; constructor <;> first | omega | (simp; omega)
    | lexEnd => simp only [stepLex, hb', Bool.false_eq_true, if_false]; constructor <;> first | omega | (simp; omega)
    | ifPush => simp only [stepLex, hb', Bool.false_eq_true, if_false]; exact h
    | ifPop =>
      simp only [stepLex, hb', Bool.false_eq_true, if_false]
      by_cases hz : s.ifDepth = 0 <;> simp only [hz, if_true, if_false] <;> exact h
    | ifUnwind => simp only [stepLex, hb', Bool.false_eq_true, if_false]; exact h
    | fnPush =>
      simp only [stepLex, hb', Bool.false_eq_true, if_false]
      by_cases hz : s.fnCount = maxFunctionDepth
      · simp only [hz, if_true]; exact h
      · simp only [hz, if_false]
        by_cases hy : s.fnCount < maxFunctionDepth <;> simp only [hy, if_true, if_false] <;> exact h
    | fnPop =>
      simp only [stepLex, hb', Bool.false_eq_true, if_false]
      by_cases hz : 0 < s.fnRefused
      · simp only [hz, if_true]; exact h
      · simp only [hz, if_false]
        by_cases hy : s.fnCount = 0 <;> simp only [hy, if_true, if_false] <;> exact h
    | _ => simp only [stepLex, hb', Bool.false_eq_true, if_false]; exact h

theorem runLex_inc : ∀ (evs : List Ev) (s : Lex), IncInv s → (∀ e ∈ evs, e ≠ .lexStart) → IncInv (runLex s evs)
  | [], _, h, _ => h
  | e :: es, s, h, hn => by
    simp only [runLex, List.foldl_cons]
    exact runLex_inc es _ (stepLex_inc s e h (hn e (List.mem_cons_self ..))) (fun x hx => hn x (List.mem_cons_of_mem _ hx))

/-! yytext -/

theorem scanFrom_le : ∀ (n yyp i : Nat), i ∈ scanFrom yyp n → (i : Int) ≤ max (yyp : Int) savecBound
  | 0, yyp, i, h => by
    simp only [scanFrom, List.mem_singleton] at h
    subst h; omega
  | n + 1, yyp, i, h => by
    simp only [scanFrom] at h
    by_cases hlt : (yyp : Int) < savecBound
    · simp only [hlt, if_true, List.mem_cons] at h
      rcases h with h | h
      · subst h; omega
      · have := scanFrom_le n (yyp + 1) i h
        push_cast at this
        omega
    · simp only [hlt, if_false, List.mem_singleton] at h
      subst h; omega

end NV.C02
