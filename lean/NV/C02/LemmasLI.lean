/-
C02 — helper lemmas: locals machine and identifier machine together.
-/
import NV.C02.LemmasIds

namespace NV.C02

structure LIInv (p : Loc × Ids) : Prop where
  loc : LocInv p.1
  ids : IdsInv p.2
  len : p.2.live.length = p.1.lOff + p.1.cur

theorem liInv_init (N : Nat) (P : Id → Bool) : LIInv (Loc.init N, Ids.init P) :=
  ⟨locInv_init N, idsInv_init P, by simp [Loc.init, Ids.init]⟩

/-- shape of the locals machine after each event, given the invariant (no crash branch is taken) -/
theorem shape_addLocal (l : Loc) (id : Id) (p : Bool) (s0 : Int) (h : LocInv l) (hnf : ¬ l.N ≤ l.max) :
    (stepLoc l (.addLocal id p s0)).1 = { l with cur := l.cur + 1, max := l.max + 1 } := by
  have hlt := h.lOff_le_tOff
  have h1 := h.curMax; have h2 := h.maxN; have h3 := h.tFit; have h4 := h.sizes
  have hc : l.tOff + l.max < l.tsize ∧ l.lOff + l.cur < l.lsize := by omega
  simp only [stepLoc, h.notBad, hnf, hc, if_true, Bool.false_eq_true, if_false, and_self]

theorem shape_popN (l : Loc) (n : Nat) (h : LocInv l) :
    (stepLoc l (.popN n)).1 = { l with cur := l.cur - min n l.cur } := by
  have hlt := h.lOff_le_tOff
  have h1 := h.curMax; have h2 := h.maxN; have h3 := h.tFit; have h4 := h.sizes
  have hc : min n l.cur = 0 ∨ l.lOff + l.cur ≤ l.lsize := Or.inr (by omega)
  simp only [stepLoc, h.notBad, hc, if_true, Bool.false_eq_true, if_false]

theorem shape_freeAll (l : Loc) (h : LocInv l) :
    (stepLoc l .freeAll).1 = { l with cur := 0, max := 0 } := by
  have hlt := h.lOff_le_tOff
  have h1 := h.curMax; have h2 := h.maxN; have h3 := h.tFit; have h4 := h.sizes
  have hc : l.lOff + l.cur ≤ l.lsize := by omega
  simp only [stepLoc, h.notBad, hc, if_true, Bool.false_eq_true, if_false]

theorem shape_cleanup (l : Loc) (h : LocInv l) :
    (stepLoc l .cleanup).1 = { l with cur := 0, max := 0, lOff := 0, tOff := 0, frames := [] } := by
  have hlt := h.lOff_le_tOff
  have h1 := h.curMax; have h2 := h.maxN; have h3 := h.tFit; have h4 := h.sizes
  have hc : l.lOff + l.cur ≤ l.lsize := by omega
  simp only [stepLoc, h.notBad, hc, if_true, Bool.false_eq_true, if_false]

theorem shape_fnReset (l : Loc) (h : LocInv l) :
    (stepLoc l .fnReset).1 = { l with cur := 0, max := 0, lOff := 0, tOff := 0, frames := [] } := by
  have hlt := h.lOff_le_tOff
  have h1 := h.curMax; have h2 := h.maxN; have h3 := h.tFit; have h4 := h.sizes
  have hc : l.lOff + l.cur ≤ l.lsize := by omega
  simp only [stepLoc, h.notBad, hc, if_true, Bool.false_eq_true, if_false]

theorem shape_enterLit (l : Loc) (h : LocInv l) :
    (stepLoc l .enterLit).1.lOff = l.lOff + l.cur ∧ (stepLoc l .enterLit).1.cur = 0 := by
  have hlt := h.lOff_le_tOff
  have h1 := h.curMax; have h2 := h.maxN; have h3 := h.tFit; have h4 := h.sizes
  simp only [stepLoc, h.notBad, Bool.false_eq_true, if_false]
  by_cases hg : l.tsize ≤ l.tOff + l.max + l.N
  · have hc : l.lOff + l.cur ≤ l.lsize + l.N := by omega
    simp only [hg, if_true, hc]; exact ⟨trivial, trivial⟩
  · have hc : l.lOff + l.cur ≤ l.lsize := by omega
    simp only [hg, if_false, hc, if_true]; exact ⟨trivial, trivial⟩

theorem shape_leaveLit (l : Loc) (d : Nat) (f : Frame) (rest : List Frame) (h : LocInv l)
    (hd : l.frames.drop d = f :: rest) :
    f.lo + f.c ≤ l.lOff ∧ (stepLoc l (.leaveLit d)).1.lOff = f.lo ∧ (stepLoc l (.leaveLit d)).1.cur = f.c := by
  have hlt := h.lOff_le_tOff
  have h1 := h.curMax; have h2 := h.maxN; have h3 := h.tFit; have h4 := h.sizes
  have hch := chain_drop d l.frames h.chain
  rw [hd] at hch
  simp only [Chain] at hch
  obtain ⟨c1, c2, c3, c4, c5, c6, crest⟩ := hch
  have hc1 : f.lo + f.c ≤ l.lOff ∧ l.lOff ≤ l.lsize := by omega
  have hc2 : f.lo + f.c ≤ l.lsize := by omega
  simp only [stepLoc, h.notBad, Bool.false_eq_true, if_false, hd, hc1, and_self, if_true, hc2]

theorem shape_leaveLit_nil (l : Loc) (d : Nat) (h : LocInv l) (hd : l.frames.drop d = []) :
    (stepLoc l (.leaveLit d)).1 = l := by
  simp only [stepLoc, h.notBad, Bool.false_eq_true, if_false, hd]


/-- state after free_unused_identifiers: dirty list processed, non-permanent identifiers freed -/
theorem cleanup_final (s : Ids) (h : IdsInv s) (hlive : s.live = [])
    (hperm : ∀ j, s.perm j = true → ∀ k, s.bnd k j = -1) :
    IdsInv (freeNonPerm { s with dirty := [] }) := by
  have hall : ∀ j k, (freeNonPerm { s with dirty := [] }).bnd k j = -1 := by
    intro j k
    simp only [freeNonPerm]
    by_cases hp : s.perm j = true
    · simp only [hp, if_true]; exact hperm j hp k
    · simp [hp]
  have hbs : ∀ j, (freeNonPerm { s with dirty := [] }).bsum j = 0 := fun j => bsum_eq_zero.mpr (hall j)
  refine ⟨h.notBad, ?_, ?_, ?_⟩
  · intro j
    rw [hbs j]
    show (if s.perm j then s.refs j else 0) = ((s.live.count j : Nat) : Int) + 0
    have := h.refs j
    rw [hlive] at this ⊢
    by_cases hp : s.perm j = true
    · have hz : s.bsum j = 0 := bsum_eq_zero.mpr (hperm j hp)
      simp only [hp, if_true]; simp at this ⊢; omega
    · simp [hp]
  · intro j hj
    have : s.lnum j ≠ -1 := by
      intro hc
      apply hj
      simp only [freeNonPerm]
      split <;> simp_all
    have := h.act j this
    rw [hlive] at this
    simp at this
  · intro j _ hne
    exact absurd (hbs j) hne

theorem stepLI_inv (p : Loc × Ids) (e : Ev) (h : LIInv p) : LIInv (stepLI p e) := by
  obtain ⟨l, s⟩ := p
  have hL := h.loc; have hI := h.ids; have hlen := h.len
  simp only at hL hI hlen
  have hL' := (stepLoc_inv l e hL).1
  have hb := hL.notBad; have hb' := hL'.notBad; have hsb := hI.notBad
  suffices hs : IdsInv (stepIds l (stepLoc l e).1 s e).1 ∧
      (stepIds l (stepLoc l e).1 s e).1.live.length = (stepLoc l e).1.lOff + (stepLoc l e).1.cur from
    ⟨hL', hs.1, hs.2⟩
  cases e with
  | addLocal id p s0 =>
    by_cases hf : l.N ≤ l.max
    · have hsh : (stepLoc l (.addLocal id p s0)).1 = l := by
        simp only [stepLoc, hb, hf, if_true, Bool.false_eq_true, if_false]
      rw [hsh]
      simp only [stepIds, hb, hsb, Bool.false_eq_true, or_self, if_false, hf, if_true]
      exact ⟨hI, hlen⟩
    · rw [shape_addLocal l id p s0 hL hf]
      simp only [stepIds, hb, hsb, Bool.false_eq_true, or_self, if_false, hf]
      refine ⟨⟨rfl, ?_, ?_, hI.dirtyOk⟩, by simp; omega⟩
      · intro j
        have := hI.refs j
        show upd s.refs id (s.refs id + 1) j = ((id :: s.live).count j : Int) + s.bsum j
        by_cases hj : j = id
        · subst hj; simp only [upd, if_true, List.count_cons_self]; omega
        · have hne : (id == j) = false := by simp; exact fun h => hj h.symm
          simp only [upd, hj, if_false, List.count_cons, hne]; simpa using this
      · intro j hjn
        by_cases hj : j = id
        · subst hj; simp
        · simp only [upd, hj, if_false] at hjn
          exact List.mem_cons_of_mem _ (hI.act j hjn)
  | popN n =>
    rw [shape_popN l n hL]
    simp only [stepIds, hb, hsb, Bool.false_eq_true, or_self, if_false]
    have := popMany_inv (min n l.cur) s hI (by omega)
    exact ⟨this.1, by rw [this.2]; first | omega | (simp; omega)⟩
  | freeAll =>
    rw [shape_freeAll l hL]
    simp only [stepIds, hb, hsb, Bool.false_eq_true, or_self, if_false]
    have := popMany_inv l.cur s hI (by omega)
    exact ⟨this.1, by rw [this.2]; first | omega | (simp; omega)⟩
  | fnReset =>
    rw [shape_fnReset l hL]
    simp only [stepIds, hb, hsb, Bool.false_eq_true, or_self, if_false]
    have := popMany_inv (l.lOff + l.cur) s hI (by omega)
    exact ⟨this.1, by rw [this.2]; first | omega | (simp; omega)⟩
  | cleanup =>
    rw [shape_cleanup l hL]
    simp only [stepIds, hb, hsb, Bool.false_eq_true, or_self, if_false]
    have h1 := popMany_inv (l.lOff + l.cur) s hI (by omega)
    have hlive : (popMany (l.lOff + l.cur) s).live = [] := List.eq_nil_of_length_eq_zero (by rw [h1.2]; omega)
    obtain ⟨h2, l2, d2, p2, c2, m2⟩ := clearAll_inv (popMany (l.lOff + l.cur) s).dirty _ h1.1
    have hperm : ∀ j, (clearAll (popMany (l.lOff + l.cur) s).dirty (popMany (l.lOff + l.cur) s)).perm j = true →
        ∀ k, (clearAll (popMany (l.lOff + l.cur) s).dirty (popMany (l.lOff + l.cur) s)).bnd k j = -1 := by
      -- every permanent identifier is fully cleared: it was on the dirty list or had no binding
      intro j hp k
      by_cases hd : j ∈ (popMany (l.lOff + l.cur) s).dirty
      · exact c2 j hd k
      · have hz : (popMany (l.lOff + l.cur) s).bsum j = 0 := by
          by_cases hz : (popMany (l.lOff + l.cur) s).bsum j = 0
          · exact hz
          · exact absurd (h1.1.dirtyOk j (by rw [← p2]; exact hp) hz) hd
        exact m2 k j (bsum_eq_zero.mp hz k)
    exact ⟨cleanup_final _ h2 (by rw [l2, hlive]) hperm, by simp [freeNonPerm, l2, hlive]⟩
  | bind k id perm n sem0 =>
    have hsh : (stepLoc l (.bind k id perm n sem0)).1 = l := by simp only [stepLoc, hb, Bool.false_eq_true, if_false]
    rw [hsh]
    simp only [stepIds, hb, hsb, Bool.false_eq_true, or_self, if_false]
    have := bind_inv s k id n (if perm = true ∧ ¬s.perms.contains id = true then s.perms ++ [id] else s.perms) hI
    rw [hsb] at this
    exact ⟨this, hlen⟩
  | enterLit =>
    have hsh := shape_enterLit l hL
    simp only [stepIds, hb, hb', hsb, Bool.false_eq_true, or_self, if_false]
    have := deactivate_inv s l.lOff l.cur hI (by omega)
    exact ⟨this.1, by rw [this.2, hsh.1, hsh.2]; omega⟩
  | leaveLit d =>
    cases hd : l.frames.drop d with
    | nil =>
      rw [shape_leaveLit_nil l d hL hd]
      simp only [stepIds, hb, hsb, Bool.false_eq_true, or_self, if_false, hd]
      exact ⟨hI, hlen⟩
    | cons f rest =>
      have hsh := shape_leaveLit l d f rest hL hd
      simp only [stepIds, hb, hb', hsb, Bool.false_eq_true, or_self, if_false, hd]
      have h1 := popMany_inv (l.lOff + l.cur - (f.lo + f.c)) s hI (by omega)
      have h2 := reactivate_inv (popMany (l.lOff + l.cur - (f.lo + f.c)) s) (stepLoc l (.leaveLit d)).1.lOff
        (stepLoc l (.leaveLit d)).1.cur h1.1 (by rw [h1.2, hsh.2.2]; omega)
      exact ⟨h2.1, by rw [h2.2, h1.2, hsh.2.1, hsh.2.2]; omega⟩
  | lexEnd =>
    have hsh : (stepLoc l .lexEnd).1 = l := by simp only [stepLoc, hb, Bool.false_eq_true, if_false]
    rw [hsh]
    simp only [stepIds, hb, hsb, Bool.false_eq_true, or_self, if_false]
    exact ⟨hI, hlen⟩
  | argTypes k =>
    have hsh : (stepLoc l (.argTypes k)).1 = l := by
      have h3 := hL.tFit
      have hc : l.tOff + min k l.N ≤ l.tsize := by omega
      simp only [stepLoc, hb, hc, if_true, Bool.false_eq_true, if_false]
    rw [hsh]
    simp only [stepIds, hb, hsb, Bool.false_eq_true, or_self, if_false]
    exact ⟨hI, hlen⟩
  | _ =>
    simp only [stepLoc, hb, stepIds, hsb, Bool.false_eq_true, or_self, if_false]
    exact ⟨hI, hlen⟩

/-- what free_unused_identifiers leaves: an empty dirty list, and no binding on any freed (non-permanent) identifier -/
theorem cleanup_post (p : Loc × Ids) (h : LIInv p) :
    (stepLI p .cleanup).2.dirty = [] ∧
    ∀ j, (stepLI p .cleanup).2.perm j = false → ∀ k, (stepLI p .cleanup).2.bnd k j = -1 := by
  obtain ⟨l, s⟩ := p
  have hL := h.loc; have hI := h.ids
  simp only at hL hI
  have hb := hL.notBad; have hsb := hI.notBad
  have hb' := (stepLoc_inv l .cleanup hL).1.notBad
  simp only [stepLI, stepIds, hb, hb', hsb, Bool.false_eq_true, or_self, if_false]
  refine ⟨rfl, ?_⟩
  intro j hp k
  simp only [freeNonPerm] at hp ⊢
  simp [hp]

theorem runLI_inv : ∀ (evs : List Ev) (p : Loc × Ids), LIInv p → LIInv (runLI p evs)
  | [], _, h => h
  | e :: es, p, h => by
    simp only [runLI, List.foldl_cons]
    exact runLI_inv es (stepLI p e) (stepLI_inv p e h)

end NV.C02
