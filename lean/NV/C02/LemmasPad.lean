/-
C02 — helper lemmas: the scratchpad (lib/misc/scratchpad.c).
-/
import NV.C02.Model
import NV.C02.Spec

namespace NV.C02

open NV.Gen.C02

/-- tail / last of a list of pad strings (as the pad cursors compute them) -/
def tailOf : List SEntry → Nat
  | [] => 2
  | e :: _ => e.start + e.len

def lastOf : List SEntry → Nat
  | [] => 2
  | e :: _ => e.start

theorem pad_tail_eq (p : Pad) : p.tail = tailOf p.entries := by simp only [Pad.tail]; cases p.entries <;> rfl
theorem pad_last_eq (p : Pad) : p.last = lastOf p.entries := by simp only [Pad.last]; cases p.entries <;> rfl

/-- strings on the pad are stacked without gaps: each starts one byte (the length byte of the one below, or
    scratchblock[2]) after the end of the one below; lengths fit a byte -/
def Stacked : List SEntry → Prop
  | [] => True
  | e :: rest => e.start = tailOf rest + 1 ∧ e.len ≤ 255 ∧ Stacked rest

structure PadInv (p : Pad) : Prop where
  noOob : p.oob = false
  stacked : Stacked p.entries
  fits : tailOf p.entries ≤ padLimit

theorem padLimit_ge : 2 ≤ padLimit := by decide

theorem padInv_init : PadInv Pad.init := ⟨rfl, trivial, by decide⟩

theorem stacked_popK : ∀ (k : Nat) (es : List SEntry), Stacked es → Stacked (popK k es)
  | 0, _, h => h
  | _ + 1, [], _ => trivial
  | k + 1, _ :: es, h => stacked_popK k es h.2.2

theorem tailOf_popK_le : ∀ (k : Nat) (es : List SEntry), Stacked es → tailOf (popK k es) ≤ tailOf es
  | 0, _, _ => Nat.le_refl _
  | _ + 1, [], _ => Nat.le_refl _
  | k + 1, e :: es, h => by
    have := tailOf_popK_le k es h.2.2
    have h1 : e.start = tailOf es + 1 := h.1
    simp only [popK]
    show tailOf (popK k es) ≤ e.start + e.len
    omega

theorem tailOf_ge_two : ∀ (es : List SEntry), Stacked es → 2 ≤ tailOf es
  | [], _ => Nat.le_refl _
  | e :: rest, h => by
    have h1 : e.start = tailOf rest + 1 := h.1
    have := tailOf_ge_two rest h.2.2
    show 2 ≤ e.start + e.len
    omega

theorem lastOf_ge_two (es : List SEntry) (h : Stacked es) : 2 ≤ lastOf es := by
  cases es with
  | nil => exact Nat.le_refl _
  | cons e rest =>
    have h1 : e.start = tailOf rest + 1 := h.1
    have := tailOf_ge_two rest h.2.2
    show 2 ≤ e.start
    omega

theorem lastOf_le_tailOf (es : List SEntry) : lastOf es ≤ tailOf es := by
  cases es with
  | nil => exact Nat.le_refl _
  | cons e rest => show e.start ≤ e.start + e.len; omega

theorem okOut_scr {n : String} {t sz l lg : Nat} {k : Option Nat} (h1 : 2 ≤ l) (h2 : l ≤ t) (h3 : t ≤ sz) :
    okOut (.scr n t sz l lg k) = true := by simp [okOut, h1, h2, h3]

theorem pad_out_ok (p : Pad) (h : PadInv p) (n : String) (k : Option Nat) : okOut (p.out n k) = true := by
  simp only [Pad.out, pad_tail_eq, pad_last_eq]
  exact okOut_scr (lastOf_ge_two _ h.stacked) (lastOf_le_tailOf _) h.fits

/-- one scratchpad operation keeps the invariant, touches nothing outside scratchblock[], and every line it emits
    passes the oracle — unless the event is one the C callers cannot produce (`ill`), which freezes the model -/
theorem stepPad_inv (p : Pad) (e : Ev) (h : PadInv p) :
    PadInv (stepPad p e).1 ∧ ((stepPad p e).1.ill = false → ∀ o ∈ (stepPad p e).2, okOut o = true) := by
  have hinit : PadInv ⟨[], 0, false, false⟩ := padInv_init
  have one : ∀ (X : Prop) (q : Pad) (n : String) (k : Option Nat), PadInv q →
      PadInv q ∧ (X → ∀ o ∈ [q.out n k], okOut o = true) :=
    fun _ q n k hq => ⟨hq, fun _ o ho => by simp at ho; subst ho; exact pad_out_ok q hq n k⟩
  obtain ⟨es, lg, oob, ill⟩ := p
  have hb : oob = false := h.noOob
  subst hb
  have hst : Stacked es := h.stacked
  have hfit : tailOf es ≤ padLimit := h.fits
  cases ill with
  | true =>
    cases e <;> first
      | (simp only [stepPad]; exact one _ _ _ _ hinit)
      | (simp only [stepPad, or_true, if_true]; exact ⟨h, fun _ o ho => by simp at ho⟩)
  | false =>
    cases e with
    | scrDestroy => simp only [stepPad]; exact one _ _ _ _ hinit
    | scrAlloc len =>
      simp only [stepPad, Bool.false_eq_true, or_self, if_false, pad_tail_eq]
      by_cases hg : len ≤ 255 ∧ tailOf es + 1 + len ≤ padLimit
      · have hq : PadInv ⟨⟨tailOf es + 1, len⟩ :: es, lg, false, false⟩ := ⟨rfl, ⟨rfl, hg.1, hst⟩, hg.2⟩
        have hf2 : tailOf (⟨tailOf es + 1, len⟩ :: es) ≤ padLimit := hg.2
        simp only [hg, and_self, if_true, hf2]
        exact one _ _ _ _ hq
      · simp only [hg, if_false]
        exact one _ _ _ _ ⟨rfl, hst, hfit⟩
    | scrLarge =>
      simp only [stepPad, Bool.false_eq_true, or_self, if_false]
      exact one _ _ _ _ ⟨rfl, hst, hfit⟩
    | scrFreeLast k =>
      simp only [stepPad, Bool.false_eq_true, or_self, if_false]
      cases es with
      | nil => simp only []; exact ⟨⟨rfl, trivial, hfit⟩, fun hi => by simp at hi⟩
      | cons e rest =>
        have hrest := stacked_popK k rest hst.2.2
        have h1 := tailOf_popK_le k rest hst.2.2
        have h3 := hst.1
        have hq : PadInv ⟨popK k rest, lg, false, false⟩ := by
          refine ⟨rfl, hrest, ?_⟩
          have : tailOf (e :: rest) = e.start + e.len := rfl
          show tailOf (popK k rest) ≤ padLimit
          omega
        have hc : 2 ≤ e.start - 1 ∧ 2 ≤ lastOf (popK k rest) := by
          refine ⟨?_, lastOf_ge_two _ hrest⟩
          have := tailOf_ge_two rest hst.2.2
          omega
        simp only [pad_last_eq, hc, and_self, if_true]
        refine ⟨hq, fun _ o ho => ?_⟩
        simp at ho
        rcases ho with ho | ho
        · subst ho; exact pad_out_ok _ h _ _
        · subst ho; exact pad_out_ok _ hq _ _
    | scrResize size =>
      simp only [stepPad, Bool.false_eq_true, or_self, if_false]
      cases es with
      | nil => simp only []; exact ⟨⟨rfl, trivial, hfit⟩, fun hi => by simp at hi⟩
      | cons e rest =>
        by_cases hg : size ≤ 255 ∧ e.start + size ≤ padLimit
        · simp only [hg, and_self, if_true]
          exact one _ _ _ _ ⟨rfl, ⟨hst.1, hg.1, hst.2.2⟩, hg.2⟩
        · simp only [hg, if_false]
          exact ⟨⟨rfl, hst, hfit⟩, fun hi => by simp at hi⟩
    | scrJoin =>
      simp only [stepPad, Bool.false_eq_true, or_self, if_false]
      cases es with
      | nil => simp only []; exact ⟨⟨rfl, trivial, hfit⟩, fun hi => by simp at hi⟩
      | cons e2 r1 =>
        cases r1 with
        | nil => simp only []; exact ⟨⟨rfl, hst, hfit⟩, fun hi => by simp at hi⟩
        | cons e1 rest =>
          by_cases hg : e1.len + e2.len - 1 ≤ 255 ∧ 1 ≤ e1.len
          · simp only [hg, and_self, if_true]
            have h2 : e2.start = e1.start + e1.len + 1 := hst.1
            have hf : e2.start + e2.len ≤ padLimit := hfit
            exact one _ _ _ _ ⟨rfl, ⟨hst.2.2.1, hg.1, hst.2.2.2.2⟩, by show e1.start + (e1.len + e2.len - 1) ≤ padLimit; omega⟩
          · simp only [hg, if_false]
            exact ⟨⟨rfl, hst, hfit⟩, fun hi => by simp at hi⟩
    | scrMark =>
      simp only [stepPad, Bool.false_eq_true, or_self, if_false]
      exact one _ _ _ _ h
    | scrFreeBlock =>
      simp only [stepPad, Bool.false_eq_true, or_self, if_false]
      by_cases hz : lg = 0
      · simp only [hz, if_true]; exact ⟨⟨rfl, hst, hfit⟩, fun hi => by simp at hi⟩
      · simp only [hz, if_false]
        exact one _ _ _ _ ⟨rfl, hst, hfit⟩
    | _ => simp only [stepPad, Bool.false_eq_true, or_self, if_false]; exact ⟨h, fun _ o ho => by simp at ho⟩


theorem runPad_fst (p : Pad) : ∀ (es : List Ev) (acc : List Out),
    (es.foldl (fun (a : Pad × List Out) e => let r := stepPad a.1 e; (r.1, a.2 ++ r.2)) (p, acc)).1 =
    es.foldl (fun q e => (stepPad q e).1) p
  | [], _ => rfl
  | e :: es, acc => by simp only [List.foldl_cons]; exact runPad_fst _ es _

theorem runPad_inv : ∀ (es : List Ev) (p : Pad), PadInv p → PadInv (es.foldl (fun q e => (stepPad q e).1) p)
  | [], _, h => h
  | e :: es, p, h => by simp only [List.foldl_cons]; exact runPad_inv es _ (stepPad_inv p e h).1

end NV.C02
