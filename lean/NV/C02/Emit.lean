/-
C02 — the code emitter's cursor (lib/lpc/program/icode.c): `prog_code` / `prog_code_max` inside the current code block
(A_PROGRAM or A_INITIALIZER) under `ins_byte`, `ins_short`, `ins_int`, `ins_long`, `ins_real`, `ins_intptr`.

Each `ins_*` first tests whether the item fits (`prog_code + RESERVED > prog_code_max`, `ins_byte`:
`prog_code == prog_code_max`), doubles the block if not, and then stores the item with a `STORE_*` macro that advances
`prog_code` by WRITTEN bytes.  RESERVED is read from the test in the source of every `ins_*` and WRITTEN is MEASURED by
running the `STORE_*` macro of lib/port/byte_code.h in the constant probe (props/c02.py) - both on every run
(`NV.Gen.C02.res*` / `wr*`).  Core Lean only.
-/
import NV.C02.LemmasMem

namespace NV.C02

open NV.Gen.C02

inductive Width
  | byte | short | int | long | real | ptr
  deriving Repr, DecidableEq

/-- bytes the `ins_*` function makes room for -/
def reserved : Width → Nat
  | .byte => 1 | .short => resShort | .int => resInt | .long => resLong | .real => resReal | .ptr => resPtr

/-- bytes its `STORE_*` macro writes (= how far `prog_code` advances) -/
def written : Width → Nat
  | .byte => 1 | .short => wrShort | .int => wrInt | .long => wrLong | .real => wrReal | .ptr => wrPtr

structure Code where
  cur : Nat      -- prog_code     - block
  max : Nat      -- prog_code_max - block  (= max_size of the block)
  deriving Repr, DecidableEq

def Code.init : Code := ⟨0, startBlockSize⟩

/-- does the `ins_*` function grow the block first? -/
def needsGrow (c : Code) (w : Width) : Bool :=
  match w with
  | .byte => c.cur == c.max                       -- `if (prog_code == prog_code_max)`
  | w => decide (c.max < c.cur + reserved w)      -- `if (prog_code + N > prog_code_max)`

/-- one `ins_*`: `UPDATE_PROGRAM_SIZE; realloc_mem_block (mbp, mbp->current_size * 2)` when needed, then the store.
    Result: the new cursors and the byte range `[lo, hi)` the store wrote. -/
def emit (c : Code) (w : Width) : Code × (Nat × Nat) :=
  let m := if needsGrow c w then growTo c.max (2 * c.cur) (2 * c.cur) else c.max
  (⟨c.cur + written w, m⟩, (c.cur, c.cur + written w))

def emitAll : Code → List Width → Code × List (Nat × Nat × Nat)
  | c, [] => (c, [])
  | c, w :: ws =>
    let r := emit c w
    let rest := emitAll r.1 ws
    (rest.1, (r.2.1, r.2.2, r.1.max) :: rest.2)

/-- the obligation on the source: every `ins_*` makes room for at least what its store writes -/
def ReservedCoversWritten : Prop := ∀ w : Width, written w ≤ reserved w ∧ written w ≤ 8 ∧ 0 < written w

instance : Decidable ReservedCoversWritten := by
  unfold ReservedCoversWritten
  exact decidable_of_iff
    (∀ w ∈ [Width.byte, .short, .int, .long, .real, .ptr], written w ≤ reserved w ∧ written w ≤ 8 ∧ 0 < written w)
    ⟨fun h w => h w (by cases w <;> simp), fun h w _ => h w⟩

/-- **reserved_covers_written** — checked against the constants regenerated from icode.c / byte_code.h on every run. -/
theorem reserved_covers_written : ReservedCoversWritten := by decide

structure CodeInv (c : Code) : Prop where
  le : c.cur ≤ c.max
  big : 16 ≤ c.max

theorem codeInv_init : CodeInv Code.init := ⟨Nat.zero_le _, by decide⟩

theorem growTo_mono : ∀ (f m need : Nat), m ≤ growTo m need f := by
  intro f
  induction f with
  | zero => intro m need; simp [growTo]
  | succ f ih =>
    intro m need
    simp only [growTo]
    split
    · exact Nat.le_trans (by omega) (ih (2 * m) need)
    · exact Nat.le_refl _

/-- one store stays inside the (possibly grown) block, and the invariant is kept -/
theorem emit_inv (c : Code) (w : Width) (h : CodeInv c) :
    CodeInv (emit c w).1 ∧ (emit c w).2.2 ≤ (emit c w).1.max := by
  have hw := reserved_covers_written w
  simp only [emit]
  by_cases hg : needsGrow c w = true
  · simp only [hg, if_true]
    have hge := (growTo_ge (2 * c.cur) c.max (2 * c.cur) (by have := h.big; omega) (by omega)).1
    have hmono := growTo_mono (2 * c.cur) c.max (2 * c.cur)
    -- growing happens only near the end of a block of at least 16 bytes: the cursor is beyond 8
    have hcur : 8 ≤ c.cur := by
      cases w with
      | byte => simp [needsGrow] at hg; have := h.big; omega
      | short => simp [needsGrow] at hg; have := h.big; have := (reserved_covers_written .short); have hr : reserved .short ≤ 8 := by decide
                 omega
      | int => simp [needsGrow] at hg; have := h.big; have hr : reserved .int ≤ 8 := by decide
               omega
      | long => simp [needsGrow] at hg; have := h.big; have hr : reserved .long ≤ 8 := by decide
                omega
      | real => simp [needsGrow] at hg; have := h.big; have hr : reserved .real ≤ 8 := by decide
                omega
      | ptr => simp [needsGrow] at hg; have := h.big; have hr : reserved .ptr ≤ 8 := by decide
               omega
    refine ⟨⟨?_, ?_⟩, ?_⟩
    · dsimp only; omega
    · have := h.big; show 16 ≤ growTo c.max (2 * c.cur) (2 * c.cur); omega
    · omega
  · simp only [hg, Bool.false_eq_true, if_false]
    have hfit : c.cur + written w ≤ c.max := by
      cases w with
      | byte =>
        simp [needsGrow] at hg
        have := h.le
        show c.cur + 1 ≤ c.max
        omega
      | short => simp [needsGrow] at hg; omega
      | int => simp [needsGrow] at hg; omega
      | long => simp [needsGrow] at hg; omega
      | real => simp [needsGrow] at hg; omega
      | ptr => simp [needsGrow] at hg; omega
    exact ⟨⟨hfit, h.big⟩, hfit⟩

/-- **code_writes_in_block** — for EVERY sequence of emitted items (any program text), every store of every `ins_*`
    lies inside the code block as it is at that moment: `hi ≤ max_size`, and afterwards `prog_code ≤ prog_code_max`. -/
theorem code_writes_in_block (ws : List Width) :
    (∀ r ∈ (emitAll Code.init ws).2, r.1 ≤ r.2.1 ∧ r.2.1 ≤ r.2.2) ∧ (emitAll Code.init ws).1.cur ≤ (emitAll Code.init ws).1.max := by
  have key : ∀ (ws : List Width) (c : Code), CodeInv c →
      (∀ r ∈ (emitAll c ws).2, r.1 ≤ r.2.1 ∧ r.2.1 ≤ r.2.2) ∧ CodeInv (emitAll c ws).1 := by
    intro ws
    induction ws with
    | nil => intro c h; exact ⟨by simp [emitAll], h⟩
    | cons w ws ih =>
      intro c h
      have h1 := emit_inv c w h
      have h2 := ih (emit c w).1 h1.1
      refine ⟨?_, h2.2⟩
      intro r hr
      simp only [emitAll, List.mem_cons] at hr
      rcases hr with hr | hr
      · subst hr
        exact ⟨by simp [emit], h1.2⟩
      · exact h2.1 r hr
  have := key ws Code.init codeInv_init
  exact ⟨this.1, this.2.le⟩

-- non-vacuity: a real literal emitted with 6 bytes left makes the block grow; the store ends inside the new block
example : (emitAll ⟨startBlockSize - 6, startBlockSize⟩ [.real, .byte]).1 = ⟨startBlockSize + 3, 2 * startBlockSize⟩ := by decide
example : (emitAll Code.init [.byte, .short, .int]).2 = [(0, 1, startBlockSize), (1, 3, startBlockSize), (3, 7, startBlockSize)] := by decide

end NV.C02
