/-
C02 — helper lemmas: identifier references held by entries of locals[].
-/
import NV.C02.LemmasLoc

namespace NV.C02

/-- invariant of the identifier machine: every sem_value reference is accounted for by an entry of locals[] or by a
    set name-space binding; active locals are in the table; a permanent identifier with a binding is on the dirty list -/
structure IdsInv (s : Ids) : Prop where
  notBad : s.bad = false
  refs : ∀ j, s.refs j = (s.live.count j : Int) + s.bsum j
  act : ∀ j, s.lnum j ≠ -1 → j ∈ s.live
  dirtyOk : ∀ j, s.perm j = true → s.bsum j ≠ 0 → j ∈ s.dirty

theorem b_nonneg (x : Int) : 0 ≤ b x := by unfold b; split <;> omega
theorem b_eq_zero {x : Int} : b x = 0 ↔ x = -1 := by unfold b; split <;> simp_all
theorem bsum_eq_zero {s : Ids} {j : Id} : s.bsum j = 0 ↔ (∀ k, s.bnd k j = -1) := by
  have h1 := b_nonneg (s.bnd .fn j); have h2 := b_nonneg (s.bnd .glob j); have h3 := b_nonneg (s.bnd .cls j)
  constructor
  · intro h k
    simp only [Ids.bsum] at h
    cases k
    · exact b_eq_zero.mp (by omega)
    · exact b_eq_zero.mp (by omega)
    · exact b_eq_zero.mp (by omega)
  · intro h
    simp only [Ids.bsum, b_eq_zero.mpr (h .fn), b_eq_zero.mpr (h .glob), b_eq_zero.mpr (h .cls)]
    rfl

theorem idsInv_init (P : Id → Bool) : IdsInv (Ids.init P) := by
  constructor <;> simp [Ids.init, Ids.bsum, b]

theorem popOne_inv (s : Ids) (h : IdsInv s) (hl : 0 < s.live.length) :
    IdsInv (popOne s) ∧ (popOne s).live.length = s.live.length - 1 := by
  cases hlive : s.live with
  | nil => simp [hlive] at hl
  | cons id rest =>
    have hr := h.refs; have ha := h.act
    rw [hlive] at hr ha
    simp only [popOne, hlive]
    refine ⟨⟨h.notBad, ?_, ?_, h.dirtyOk⟩, by simp⟩
    · intro j
      have hbs : Ids.bsum { s with live := rest, refs := upd s.refs id (s.refs id - 1), lnum := upd s.lnum id (-1) } j = s.bsum j := rfl
      rw [hbs]
      by_cases hj : j = id
      · subst hj
        have := hr j
        simp only [upd, if_true, List.count_cons_self] at this ⊢
        omega
      · have := hr j
        have hne : (id == j) = false := by simp; exact fun h => hj h.symm
        simp only [upd, hj, if_false, List.count_cons, hne] at this ⊢
        simpa using this
    · intro j hjn
      by_cases hj : j = id
      · subst hj; simp [upd] at hjn
      · simp only [upd, hj, if_false] at hjn
        have := ha j hjn
        simp only [List.mem_cons] at this
        rcases this with h1 | h1
        · exact absurd h1 hj
        · exact h1

theorem popMany_inv : ∀ (n : Nat) (s : Ids), IdsInv s → n ≤ s.live.length →
    IdsInv (popMany n s) ∧ (popMany n s).live.length = s.live.length - n
  | 0, s, h, _ => ⟨h, by simp [popMany]⟩
  | n + 1, s, h, hn => by
    have h1 := popOne_inv s h (by omega)
    have h2 := popMany_inv n (popOne s) h1.1 (by omega)
    simp only [popMany]
    exact ⟨h2.1, by omega⟩

/-- folding an lnum/rt update over window indices keeps live, refs and the invariant -/
theorem windowId_mem {s : Ids} {c i : Nat} {id : Id} (h : windowId s c i = some id) : id ∈ s.live := by
  simp only [windowId] at h
  exact List.mem_of_getElem? h

theorem windowId_some (s : Ids) (c i : Nat) (hi : i < c) (hc : c ≤ s.live.length) : ∃ id, windowId s c i = some id := by
  simp only [windowId]
  have : c - 1 - i < s.live.length := by omega
  exact ⟨s.live[c - 1 - i], List.getElem?_eq_getElem this⟩

theorem deactStep_inv (lOff c : Nat) (s : Ids) (i : Nat) (hi : i < c) (hc : c ≤ s.live.length) (h : IdsInv s) :
    IdsInv (deactStep lOff c s i) ∧ (deactStep lOff c s i).live = s.live := by
  obtain ⟨id, hid⟩ := windowId_some s c i hi hc
  simp only [deactStep, hid]
  refine ⟨⟨h.notBad, h.refs, ?_, h.dirtyOk⟩, trivial⟩
  intro j hj
  by_cases hji : j = id
  · subst hji; simp [upd] at hj
  · simp only [upd, hji, if_false] at hj; exact h.act j hj

theorem reactStep_inv (lOff c : Nat) (s : Ids) (i : Nat) (hi : i < c) (hc : c ≤ s.live.length) (h : IdsInv s) :
    IdsInv (reactStep lOff c s i) ∧ (reactStep lOff c s i).live = s.live := by
  obtain ⟨id, hid⟩ := windowId_some s c i hi hc
  simp only [reactStep, hid]
  refine ⟨⟨h.notBad, h.refs, ?_, h.dirtyOk⟩, trivial⟩
  intro j hj
  by_cases hji : j = id
  · subst hji; exact windowId_mem hid
  · simp only [upd, hji, if_false] at hj; exact h.act j hj

theorem fold_inv (f : Ids → Nat → Ids) (c : Nat)
    (hf : ∀ s i, i < c → c ≤ s.live.length → IdsInv s → IdsInv (f s i) ∧ (f s i).live = s.live) :
    ∀ (is : List Nat) (s : Ids), (∀ i ∈ is, i < c) → c ≤ s.live.length → IdsInv s →
      IdsInv (is.foldl f s) ∧ (is.foldl f s).live = s.live
  | [], s, _, _, h => ⟨h, rfl⟩
  | i :: is, s, hi, hc, h => by
    have h1 := hf s i (hi i (List.mem_cons_self ..)) hc h
    have h2 := fold_inv f c hf is (f s i) (fun k hk => hi k (List.mem_cons_of_mem _ hk)) (by rw [h1.2]; exact hc) h1.1
    simp only [List.foldl_cons]
    exact ⟨h2.1, by rw [h2.2, h1.2]⟩

theorem deactivate_inv (s : Ids) (lOff c : Nat) (h : IdsInv s) (hc : c ≤ s.live.length) :
    IdsInv (deactivate s lOff c) ∧ (deactivate s lOff c).live = s.live :=
  fold_inv (deactStep lOff c) c (deactStep_inv lOff c) (List.range c) s (fun _ hi => List.mem_range.mp hi) hc h

theorem reactivate_inv (s : Ids) (lOff c : Nat) (h : IdsInv s) (hc : c ≤ s.live.length) :
    IdsInv (reactivate s lOff c) ∧ (reactivate s lOff c).live = s.live :=
  fold_inv (reactStep lOff c) c (reactStep_inv lOff c) (List.range c) s (fun _ hi => List.mem_range.mp hi) hc h


/-! name-space bindings and the dirty list -/

theorem b_natCast (n : Nat) : b (n : Int) = 1 := by unfold b; split <;> omega

theorem bsum_updB_other (s : Ids) (k : Kind) (id j : Id) (v : Int) (hj : j ≠ id) :
    (b (updB s.bnd k id v .fn j) + b (updB s.bnd k id v .glob j) + b (updB s.bnd k id v .cls j)) = s.bsum j := by
  simp [updB, hj, Ids.bsum]

theorem bsum_updB_self (s : Ids) (k : Kind) (id : Id) (n : Nat) :
    (b (updB s.bnd k id n .fn id) + b (updB s.bnd k id n .glob id) + b (updB s.bnd k id n .cls id))
      = s.bsum id - b (s.bnd k id) + 1 := by
  cases k <;> simp [updB, Ids.bsum, b_natCast] <;> omega

theorem bind_inv (s : Ids) (k : Kind) (id : Id) (n : Nat) (pl : List Id) (h : IdsInv s) :
    IdsInv { s with bnd := updB s.bnd k id n,
                    refs := upd s.refs id (s.refs id + (if s.bnd k id = -1 then 1 else 0)),
                    dirty := if s.perm id ∧ s.bnd .fn id = -1 ∧ s.bnd .glob id = -1 ∧ s.bnd .cls id = -1 then id :: s.dirty else s.dirty,
                    perms := pl } := by
  refine ⟨h.notBad, ?_, h.act, ?_⟩
  · intro j
    simp only [Ids.bsum]
    by_cases hj : j = id
    · subst hj
      rw [bsum_updB_self s k j n]
      have := h.refs j
      simp only [upd, if_true]
      unfold b
      split <;> omega
    · rw [bsum_updB_other s k id j n hj]
      simp only [upd, hj, if_false]
      exact h.refs j
  · intro j hp hbs
    simp only [Ids.bsum] at hbs
    by_cases hj : j = id
    · subst hj
      by_cases hall : s.perm j ∧ s.bnd .fn j = -1 ∧ s.bnd .glob j = -1 ∧ s.bnd .cls j = -1
      · simp only [hall, and_self, if_true]; exact List.mem_cons_self ..
      · simp only [hall, if_false]
        apply h.dirtyOk j hp
        intro hz
        have := bsum_eq_zero.mp hz
        exact hall ⟨hp, this .fn, this .glob, this .cls⟩
    · rw [bsum_updB_other s k id j n hj] at hbs
      have := h.dirtyOk j hp hbs
      show j ∈ (if s.perm id ∧ s.bnd .fn id = -1 ∧ s.bnd .glob id = -1 ∧ s.bnd .cls id = -1 then id :: s.dirty else s.dirty)
      split
      · exact List.mem_cons_of_mem _ this
      · exact this

theorem clearOne_inv (s : Ids) (id : Id) (h : IdsInv s) :
    IdsInv (clearOne s id) ∧ (clearOne s id).live = s.live ∧ (clearOne s id).dirty = s.dirty ∧ (clearOne s id).perm = s.perm ∧
    (∀ k, (clearOne s id).bnd k id = -1) ∧ (∀ k j, s.bnd k j = -1 → (clearOne s id).bnd k j = -1) := by
  have hb1 : ∀ j, j ≠ id → (clearOne s id).bsum j = s.bsum j := by
    intro j hj; simp [clearOne, Ids.bsum, hj]
  have hb2 : (clearOne s id).bsum id = 0 := by simp [clearOne, Ids.bsum, b]
  refine ⟨⟨h.notBad, ?_, h.act, ?_⟩, rfl, rfl, rfl, ?_, ?_⟩
  · intro j
    by_cases hj : j = id
    · subst hj
      rw [hb2]
      have := h.refs j
      simp only [clearOne, if_true]
      omega
    · rw [hb1 j hj]
      have := h.refs j
      simp only [clearOne, hj, if_false]
      exact this
  · intro j hp hbs
    by_cases hj : j = id
    · subst hj; exact absurd hb2 hbs
    · rw [hb1 j hj] at hbs; exact h.dirtyOk j hp hbs
  · intro k; simp [clearOne]
  · intro k j hk; simp only [clearOne]; split <;> simp_all

theorem clearAll_inv : ∀ (L : List Id) (s : Ids), IdsInv s →
    IdsInv (clearAll L s) ∧ (clearAll L s).live = s.live ∧ (clearAll L s).dirty = s.dirty ∧ (clearAll L s).perm = s.perm ∧
    (∀ j ∈ L, ∀ k, (clearAll L s).bnd k j = -1) ∧ (∀ k j, s.bnd k j = -1 → (clearAll L s).bnd k j = -1)
  | [], s, h => ⟨h, rfl, rfl, rfl, by simp, fun _ _ h => h⟩
  | id :: rest, s, h => by
    obtain ⟨h1, l1, d1, p1, c1, m1⟩ := clearOne_inv s id h
    obtain ⟨h2, l2, d2, p2, c2, m2⟩ := clearAll_inv rest (clearOne s id) h1
    simp only [clearAll]
    refine ⟨h2, by rw [l2, l1], by rw [d2, d1], by rw [p2, p1], ?_, fun k j hk => m2 k j (m1 k j hk)⟩
    intro j hj k
    rcases List.mem_cons.mp hj with hj | hj
    · subst hj; exact m2 k j (c1 k)
    · exact c2 j hj k

end NV.C02
