/-
C02 — helper lemmas: identifier references held by entries of locals[].
-/
import NV.C02.LemmasLoc

namespace NV.C02

structure IdsInv (s : Ids) : Prop where
  notBad : s.bad = false
  refs : ∀ j, s.refs j = (s.live.count j : Int)
  act : ∀ j, s.lnum j ≠ -1 → j ∈ s.live

theorem idsInv_init : IdsInv Ids.init := by
  constructor <;> simp [Ids.init]

theorem popOne_inv (s : Ids) (h : IdsInv s) (hl : 0 < s.live.length) :
    IdsInv (popOne s) ∧ (popOne s).live.length = s.live.length - 1 := by
  cases hlive : s.live with
  | nil => simp [hlive] at hl
  | cons id rest =>
    have hr := h.refs; have ha := h.act
    rw [hlive] at hr ha
    simp only [popOne, hlive]
    refine ⟨⟨h.notBad, ?_, ?_⟩, by simp⟩
    · intro j
      by_cases hj : j = id
      · subst hj
        have := hr j
        simp only [upd, if_true, List.count_cons_self] at this ⊢
        omega
      · have := hr j
        have hne : (id == j) = false := by simp; exact fun h => hj h.symm
        simp only [upd, hj, if_false, List.count_cons, hne] at this ⊢
        simpa using this
    · intro j hjn
      by_cases hj : j = id
      · subst hj; simp [upd] at hjn
      · simp only [upd, hj, if_false] at hjn
        have := ha j hjn
        simp only [List.mem_cons] at this
        rcases this with h1 | h1
        · exact absurd h1 hj
        · exact h1

theorem popMany_inv : ∀ (n : Nat) (s : Ids), IdsInv s → n ≤ s.live.length →
    IdsInv (popMany n s) ∧ (popMany n s).live.length = s.live.length - n
  | 0, s, h, _ => ⟨h, by simp [popMany]⟩
  | n + 1, s, h, hn => by
    have h1 := popOne_inv s h (by omega)
    have h2 := popMany_inv n (popOne s) h1.1 (by omega)
    simp only [popMany]
    exact ⟨h2.1, by omega⟩

/-- folding an lnum/rt update over window indices keeps live, refs and the invariant -/
theorem windowId_mem {s : Ids} {c i : Nat} {id : Id} (h : windowId s c i = some id) : id ∈ s.live := by
  simp only [windowId] at h
  exact List.mem_of_getElem? h

theorem windowId_some (s : Ids) (c i : Nat) (hi : i < c) (hc : c ≤ s.live.length) : ∃ id, windowId s c i = some id := by
  simp only [windowId]
  have : c - 1 - i < s.live.length := by omega
  exact ⟨s.live[c - 1 - i], List.getElem?_eq_getElem this⟩

theorem deactStep_inv (lOff c : Nat) (s : Ids) (i : Nat) (hi : i < c) (hc : c ≤ s.live.length) (h : IdsInv s) :
    IdsInv (deactStep lOff c s i) ∧ (deactStep lOff c s i).live = s.live := by
  obtain ⟨id, hid⟩ := windowId_some s c i hi hc
  simp only [deactStep, hid]
  refine ⟨⟨h.notBad, h.refs, ?_⟩, trivial⟩
  intro j hj
  by_cases hji : j = id
  · subst hji; simp [upd] at hj
  · simp only [upd, hji, if_false] at hj; exact h.act j hj

theorem reactStep_inv (lOff c : Nat) (s : Ids) (i : Nat) (hi : i < c) (hc : c ≤ s.live.length) (h : IdsInv s) :
    IdsInv (reactStep lOff c s i) ∧ (reactStep lOff c s i).live = s.live := by
  obtain ⟨id, hid⟩ := windowId_some s c i hi hc
  simp only [reactStep, hid]
  refine ⟨⟨h.notBad, h.refs, ?_⟩, trivial⟩
  intro j hj
  by_cases hji : j = id
  · subst hji; exact windowId_mem hid
  · simp only [upd, hji, if_false] at hj; exact h.act j hj

theorem fold_inv (f : Ids → Nat → Ids) (c : Nat)
    (hf : ∀ s i, i < c → c ≤ s.live.length → IdsInv s → IdsInv (f s i) ∧ (f s i).live = s.live) :
    ∀ (is : List Nat) (s : Ids), (∀ i ∈ is, i < c) → c ≤ s.live.length → IdsInv s →
      IdsInv (is.foldl f s) ∧ (is.foldl f s).live = s.live
  | [], s, _, _, h => ⟨h, rfl⟩
  | i :: is, s, hi, hc, h => by
    have h1 := hf s i (hi i (List.mem_cons_self ..)) hc h
    have h2 := fold_inv f c hf is (f s i) (fun k hk => hi k (List.mem_cons_of_mem _ hk)) (by rw [h1.2]; exact hc) h1.1
    simp only [List.foldl_cons]
    exact ⟨h2.1, by rw [h2.2, h1.2]⟩

theorem deactivate_inv (s : Ids) (lOff c : Nat) (h : IdsInv s) (hc : c ≤ s.live.length) :
    IdsInv (deactivate s lOff c) ∧ (deactivate s lOff c).live = s.live :=
  fold_inv (deactStep lOff c) c (deactStep_inv lOff c) (List.range c) s (fun _ hi => List.mem_range.mp hi) hc h

theorem reactivate_inv (s : Ids) (lOff c : Nat) (h : IdsInv s) (hc : c ≤ s.live.length) :
    IdsInv (reactivate s lOff c) ∧ (reactivate s lOff c).live = s.live :=
  fold_inv (reactStep lOff c) c (reactStep_inv lOff c) (List.range c) s (fun _ hi => List.mem_range.mp hi) hc h

end NV.C02
