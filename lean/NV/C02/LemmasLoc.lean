import NV.C02.Lemmas
namespace NV.C02
open NV.Gen.C02

theorem okOut_ev {name : String} {c s : Int} (hn : (exemptName name || addReqName name) = false) (h0 : 0 ≤ c) (h1 : c ≤ s) :
    okOut (.ev name c s) = true := by
  rw [Bool.or_eq_false_iff] at hn
  simp [okOut, hn.1, hn.2, h0, h1]

theorem stepLoc_addLocal (l : Loc) (id : Id) (p : Bool) (s0 : Int) (h : LocInv l) :
    LocInv (stepLoc l (.addLocal id p s0)).1 ∧ ∀ o ∈ (stepLoc l (.addLocal id p s0)).2, okOut o = true := by
  have hb := h.notBad
  have hlt := h.lOff_le_tOff
  have h1 := h.curMax; have h2 := h.maxN; have h3 := h.tFit; have h4 := h.sizes
  simp only [stepLoc, hb]
  by_cases hfull : l.N ≤ l.max
  · simp only [hfull, if_true, Bool.false_eq_true, if_false]
    refine ⟨h, ?_⟩
    intro o ho
    simp at ho
    subst ho
    exact okOut_ev (by decide) (by omega) (by omega)
  · have hc : l.tOff + l.max < l.tsize ∧ l.lOff + l.cur < l.lsize := by omega
    simp only [hfull, hc, if_true, Bool.false_eq_true, if_false, and_self]
    refine ⟨⟨rfl, ?_, ?_, h3, h4, h.lt, h.chain⟩, ?_⟩
    · simp; omega
    · simp; omega
    · intro o ho
      simp at ho
      rcases ho with ho | ho <;> subst ho <;> exact okOut_ev (by decide) (by omega) (by omega)


theorem stepLoc_popN (l : Loc) (n : Nat) (h : LocInv l) :
    LocInv (stepLoc l (.popN n)).1 ∧ ∀ o ∈ (stepLoc l (.popN n)).2, okOut o = true := by
  have hb := h.notBad
  have hlt := h.lOff_le_tOff
  have h1 := h.curMax; have h2 := h.maxN; have h3 := h.tFit; have h4 := h.sizes
  have hc : min n l.cur = 0 ∨ l.lOff + l.cur ≤ l.lsize := Or.inr (by omega)
  simp only [stepLoc, hb, hc, if_true, Bool.false_eq_true, if_false]
  refine ⟨⟨rfl, ?_, h2, h3, h4, h.lt, h.chain⟩, ?_⟩
  · simp; omega
  · intro o ho
    simp only [List.mem_cons, List.mem_map, List.mem_range] at ho
    rcases ho with ho | ⟨i, hi, ho⟩
    · subst ho; exact okOut_ev (by decide) (by omega) (by omega)
    · subst ho; exact okOut_ev (by decide) (by omega) (by omega)

theorem stepLoc_freeAll (l : Loc) (h : LocInv l) :
    LocInv (stepLoc l .freeAll).1 ∧ ∀ o ∈ (stepLoc l .freeAll).2, okOut o = true := by
  have hb := h.notBad
  have hlt := h.lOff_le_tOff
  have h1 := h.curMax; have h2 := h.maxN; have h3 := h.tFit; have h4 := h.sizes
  have hc : l.lOff + l.cur ≤ l.lsize := by omega
  simp only [stepLoc, hb, hc, if_true, Bool.false_eq_true, if_false]
  refine ⟨⟨rfl, Nat.le_refl _, Nat.zero_le _, h3, h4, h.lt, h.chain⟩, ?_⟩
  intro o ho
  simp at ho
  subst ho; exact okOut_ev (by decide) (by omega) (by omega)

theorem stepLoc_argTypes (l : Loc) (k : Nat) (h : LocInv l) :
    LocInv (stepLoc l (.argTypes k)).1 ∧ ∀ o ∈ (stepLoc l (.argTypes k)).2, okOut o = true := by
  have hb := h.notBad
  have h3 := h.tFit
  have hc : l.tOff + min k l.N ≤ l.tsize := by omega
  simp only [stepLoc, hb, hc, if_true, Bool.false_eq_true, if_false]
  refine ⟨h, ?_⟩
  intro o ho
  simp at ho
  subst ho; exact okOut_ev (by decide) (by omega) (by omega)

theorem stepLoc_cleanup (l : Loc) (h : LocInv l) :
    LocInv (stepLoc l .cleanup).1 ∧ ∀ o ∈ (stepLoc l .cleanup).2, okOut o = true := by
  have hb := h.notBad
  have hlt := h.lOff_le_tOff
  have h1 := h.curMax; have h2 := h.maxN; have h3 := h.tFit; have h4 := h.sizes
  have hc : l.lOff + l.cur ≤ l.lsize := by omega
  simp only [stepLoc, hb, hc, if_true, Bool.false_eq_true, if_false]
  refine ⟨⟨rfl, Nat.le_refl _, Nat.zero_le _, ?_, h4, Nat.le_refl _, ?_⟩, ?_⟩
  · simp; omega
  · simp [Chain]
  · intro o ho
    simp at ho
    subst ho; exact okOut_ev (by decide) (by omega) (by omega)


theorem stepLoc_enterLit (l : Loc) (h : LocInv l) :
    LocInv (stepLoc l .enterLit).1 ∧ ∀ o ∈ (stepLoc l .enterLit).2, okOut o = true := by
  have hb := h.notBad
  have hlt := h.lOff_le_tOff
  have h1 := h.curMax; have h2 := h.maxN; have h3 := h.tFit; have h4 := h.sizes
  have hch := h.chain
  simp only [stepLoc, hb, Bool.false_eq_true, if_false]
  by_cases hg : l.tsize ≤ l.tOff + l.max + l.N
  · have hc : l.lOff + l.cur ≤ l.lsize + l.N := by omega
    simp only [hg, if_true, hc]
    refine ⟨⟨by first | rfl | exact hb, Nat.le_refl _, Nat.zero_le _, ?_, ?_, ?_, ?_⟩, ?_⟩
    · simp; omega
    · simp; omega
    · simp; omega
    · simp only [Chain]
      exact ⟨Nat.le_refl _, Nat.le_refl _, hlt, h1, h2, by omega,
        chain_mono (by omega) l.frames (Nat.le_refl _) (Nat.le_refl _) hch⟩
    · intro o ho
      simp at ho
      rcases ho with ho | ho | ho | ho | ho <;> subst ho <;> exact okOut_ev (by decide) (by omega) (by omega)
  · have hc : l.lOff + l.cur ≤ l.lsize := by omega
    simp only [hg, if_false, hc, if_true]
    refine ⟨⟨by first | rfl | exact hb, Nat.le_refl _, Nat.zero_le _, ?_, ?_, ?_, ?_⟩, ?_⟩
    · simp; omega
    · simp; omega
    · simp; omega
    · simp only [Chain]
      exact ⟨Nat.le_refl _, Nat.le_refl _, hlt, h1, h2, h3, hch⟩
    · intro o ho
      simp at ho
      rcases ho with ho | ho | ho <;> subst ho <;> exact okOut_ev (by decide) (by omega) (by omega)

theorem stepLoc_leaveLit (l : Loc) (d : Nat) (h : LocInv l) :
    LocInv (stepLoc l (.leaveLit d)).1 ∧ ∀ o ∈ (stepLoc l (.leaveLit d)).2, okOut o = true := by
  have hb := h.notBad
  have hlt := h.lOff_le_tOff
  have h1 := h.curMax; have h2 := h.maxN; have h3 := h.tFit; have h4 := h.sizes
  have hch := chain_drop d l.frames h.chain
  simp only [stepLoc, hb, Bool.false_eq_true, if_false]
  cases hd : l.frames.drop d with
  | nil => exact ⟨h, by simp⟩
  | cons f rest =>
    rw [hd] at hch
    simp only [Chain] at hch
    obtain ⟨c1, c2, c3, c4, c5, c6, crest⟩ := hch
    have hc1 : f.lo + f.c ≤ l.lOff ∧ l.lOff ≤ l.lsize := by omega
    have hc2 : f.lo + f.c ≤ l.lsize := by omega
    simp only [hc1, and_self, if_true, hc2]
    refine ⟨⟨rfl, c4, c5, c6, h4, c3, crest⟩, ?_⟩
    intro o ho
    simp at ho
    rcases ho with ho | ho | ho | ho <;> subst ho <;> exact okOut_ev (by decide) (by omega) (by omega)

theorem stepLoc_fnReset (l : Loc) (h : LocInv l) :
    LocInv (stepLoc l .fnReset).1 ∧ ∀ o ∈ (stepLoc l .fnReset).2, okOut o = true := by
  have hb := h.notBad
  have hlt := h.lOff_le_tOff
  have h1 := h.curMax; have h2 := h.maxN; have h3 := h.tFit; have h4 := h.sizes
  have hc : l.lOff + l.cur ≤ l.lsize := by omega
  simp only [stepLoc, hb, hc, if_true, Bool.false_eq_true, if_false]
  refine ⟨⟨rfl, Nat.le_refl _, Nat.zero_le _, ?_, h4, Nat.le_refl _, ?_⟩, ?_⟩
  · simp; omega
  · simp [Chain]
  · intro o ho
    simp at ho
    subst ho; exact okOut_ev (by decide) (by omega) (by omega)

theorem stepLoc_inv (l : Loc) (e : Ev) (h : LocInv l) :
    LocInv (stepLoc l e).1 ∧ ∀ o ∈ (stepLoc l e).2, okOut o = true := by
  cases e with
  | addLocal id p s0 => exact stepLoc_addLocal l id p s0 h
  | popN n => exact stepLoc_popN l n h
  | freeAll => exact stepLoc_freeAll l h
  | enterLit => exact stepLoc_enterLit l h
  | leaveLit d => exact stepLoc_leaveLit l d h
  | argTypes k => exact stepLoc_argTypes l k h
  | cleanup => exact stepLoc_cleanup l h
  | fnReset => exact stepLoc_fnReset l h
  | _ => simp only [stepLoc, h.notBad]; exact ⟨h, by simp⟩

theorem runLoc_inv : ∀ (evs : List Ev) (l : Loc), LocInv l →
    LocInv (runLoc l evs).1 ∧ ∀ o ∈ (runLoc l evs).2, okOut o = true
  | [], l, h => ⟨h, by simp [runLoc]⟩
  | e :: es, l, h => by
    have h1 := stepLoc_inv l e h
    have h2 := runLoc_inv es (stepLoc l e).1 h1.1
    simp only [runLoc]
    refine ⟨h2.1, ?_⟩
    intro o ho
    rcases List.mem_append.mp ho with ho | ho
    · exact h1.2 o ho
    · exact h2.2 o ho

end NV.C02
