/-
C16 — executable model of the save / restore code of lib/lpc/object.c (+ restore_hash_string of
lib/lpc/mapping.c), as it is after the `fix:` commits of branch c16.

Texts are lists of bytes (`Byte = Nat`; the C text ends at its NUL, here: at the end of the list, see `cstr`).
A cursor `char *cp` is the remaining suffix of the text; `Cur = Option (List Byte)` where `none` is the
position one past the terminating NUL: it may be *held* but neither dereferenced nor advanced — both are the
explicit outcome `Res.crash`.  The table `save_svalue_sizes[]` filled by the size pre-pass is a list consumed in
the order in which the value pass opens nested containers; using an entry the pre-pass did not write is `crash`.
The bytes written by `save_svalue` are compared with the size computed by `svalue_save_size` (`saveVariable`),
a write beyond the allocation being `crash`.

Floats are abstract (`FloatOps`): `print` is the "%g" text, the arithmetic used by `parse_numeric` is a field
each.  `mb` abstracts `mblen(cp, MB_CUR_MAX)` used by the top-level pre-pass `restore_size`.
Recursion over nested containers uses fuel (one unit per element and per nesting level); running out of fuel
is the outcome `stuck`, which the entry points make unreachable by passing more fuel than the text is long.
-/
import NV.Gen.C16

namespace NV.C16

/-- bytes are natural numbers (a notation, so that `omega`/`simp` see plain `Nat`) -/
scoped notation "Byte" => Nat

/-- C string view of a byte list: everything before the first NUL -/
def cstr (t : List Byte) : List Byte := t.takeWhile (· ≠ 0)

/-! ## values -/

mutual
inductive Value (α : Type) where
  | int (n : Int)
  | real (x : α)
  | str (s : List Byte)
  | arr (xs : Vals α)
  | cls (xs : Vals α)
  | map (ps : Pairs α)
  /-- object reference, function, buffer: everything `save_svalue` has no case for -/
  | obj
inductive Vals (α : Type) where
  | nil
  | cons (v : Value α) (r : Vals α)
/-- mapping entries in hash-table traversal order -/
inductive Pairs (α : Type) where
  | nil
  | cons (k v : Value α) (r : Pairs α)
end

def Vals.ofList {α} : List (Value α) → Vals α
  | [] => .nil
  | v :: r => .cons v (Vals.ofList r)

def Vals.toList {α} : Vals α → List (Value α)
  | .nil => []
  | .cons v r => v :: r.toList

def Pairs.ofList {α} : List (Value α × Value α) → Pairs α
  | [] => .nil
  | (k, v) :: r => .cons k v (Pairs.ofList r)

def Pairs.toList {α} : Pairs α → List (Value α × Value α)
  | .nil => []
  | .cons k v r => (k, v) :: r.toList

def Vals.length {α} : Vals α → Nat
  | .nil => 0
  | .cons _ r => r.length + 1

/-- `a ++ [v]` -/
def Vals.snoc {α} : Vals α → Value α → Vals α
  | .nil, v => .cons v .nil
  | .cons x r, v => .cons x (r.snoc v)

def Pairs.snoc {α} : Pairs α → Value α → Value α → Pairs α
  | .nil, k, v => .cons k v .nil
  | .cons a b r, k, v => .cons a b (r.snoc k v)

/-! ## floats and multibyte characters: parameters -/

structure FloatOps (α : Type) where
  /-- `sprintf(buf, "%g", x)` -/
  print : α → List Byte
  /-- `(double) res` for the unsigned 64-bit accumulator of parse_numeric -/
  ofNat : Nat → α
  add : α → α → α
  mul : α → α → α
  div : α → α → α
  neg : α → α
  /-- `pow(10.0, e)` -/
  pow10 : Int → α
  /-- C `==` on doubles (msameval on mapping keys) -/
  eq : α → α → Bool
  /-- `isnan(x)` -/
  isNan : α → Bool
  /-- `isinf(x)` -/
  isInf : α → Bool
  /-- `x < 0` -/
  ltZero : α → Bool

/-- `mblen(cp, MB_CUR_MAX)` on a non-empty rest: `none` = -1 (invalid sequence).  The two fields are the stated
    assumptions about libc: a character is at least one byte long and never extends beyond the terminating NUL
    (the NUL is not a continuation byte in any supported encoding). -/
structure MbLen where
  len : List Byte → Option Nat
  pos : ∀ s n, len s = some n → s ≠ [] → 1 ≤ n
  le_length : ∀ s n, len s = some n → n ≤ s.length
  /-- an ASCII byte is a character of its own -/
  ascii : ∀ c r, c < 128 → len (c :: r) = some 1
  /-- the bytes of a multibyte character after its first are not ASCII (true of UTF-8, which the driver always
      selects: src/main.c setlocale(LC_ALL, PLATFORM_UTF8_LOCALE); false of Big5/GBK/Shift-JIS) -/
  cont : ∀ s n, len s = some n → ∀ b ∈ (s.take n).drop 1, 128 ≤ b

/-! ## save side -/

def isDigit (c : Byte) : Bool := 48 ≤ c && c ≤ 57

/-- number of decimal digits minus one: the loop `while (res > 9) { res /= 10; len++; }` -/
def ndigits (n : Nat) : Nat := if h : n ≤ 9 then 0 else 1 + ndigits (n / 10)
decreasing_by omega

/-- the digits written by `do { *--cp = res % 10 + '0'; res /= 10; } while (res);` -/
def digits (n : Nat) : List Byte := if h : n ≤ 9 then [48 + n] else digits (n / 10) ++ [48 + n % 10]
decreasing_by omega

/-- magnitude as computed in unsigned 64-bit arithmetic: `res < 0 ? 0 - (uint64_t) res : res` -/
def magnitude (n : Int) : Nat := n.natAbs % 2 ^ 64

def saveInt (n : Int) : List Byte :=
  if n < 0 then 45 :: digits (magnitude n) else digits (magnitude n)

/-- bytes `save_svalue` writes with a backslash in front — REGENERATED from the condition in the source -/
def saveEscaped : List Byte := NV.Gen.C16.saveEscaped
/-- bytes `svalue_save_size` counts twice — REGENERATED from the condition in the source -/
def sizeEscaped : List Byte := NV.Gen.C16.sizeEscaped
/-- the byte written in place of LF (`(c == '\n') ? '\r' : c`) — REGENERATED -/
def swapFrom : Byte := NV.Gen.C16.swapFrom
def swapTo : Byte := NV.Gen.C16.swapTo

/-- escapes of save_svalue: `"`, `\` and CR get a backslash, LF is written as CR, everything else verbatim -/
def escByte (c : Byte) : List Byte :=
  if saveEscaped.contains c then [92, c] else if c = swapFrom then [swapTo] else [c]

def escStr : List Byte → List Byte
  | [] => []
  | c :: r => escByte c ++ escStr r

/-- the size loop of svalue_save_size for strings -/
def strSize : List Byte → Nat
  | [] => 0
  | c :: r => (if sizeEscaped.contains c then 2 else 1) + strSize r

/-- `save_real_text`: NaN is written "0e+999", the infinities "1e+999" / "-1e+999" (number syntax that
    parse_numeric evaluates to NaN / infinity); otherwise "%g", plus ".0" when that text consists of `-` and
    digits only -/
def saveReal {α} (F : FloatOps α) (x : α) : List Byte :=
  if F.isNan x then [48, 101, 43, 57, 57, 57]
  else if F.isInf x then (if F.ltZero x then [45, 49, 101, 43, 57, 57, 57] else [49, 101, 43, 57, 57, 57])
  else
    let t := F.print x
    if t.all (fun c => c = 45 || isDigit c) then t ++ [46, 48] else t

variable {α : Type}

mutual
/-- the text written by `save_svalue` -/
def save (F : FloatOps α) : Value α → List Byte
  | .int n => saveInt n
  | .real x => saveReal F x
  | .str s => 34 :: (escStr s ++ [34])
  | .arr xs => 40 :: 123 :: (saveElems F xs ++ [125, 41])
  | .cls xs => 40 :: 47 :: (saveElems F xs ++ [47, 41])
  | .map ps => 40 :: 91 :: (savePairs F ps ++ [93, 41])
  | .obj => []
def saveElems (F : FloatOps α) : Vals α → List Byte
  | .nil => []
  | .cons v r => save F v ++ 44 :: saveElems F r
def savePairs (F : FloatOps α) : Pairs α → List Byte
  | .nil => []
  | .cons k v r => save F k ++ 58 :: (save F v ++ 44 :: savePairs F r)
end

def maxDepth : Nat := NV.Gen.C16.maxSaveSvalueDepth

/-- the additive constants of `svalue_save_size` (`return 3 + size`, `return size + 5` (array, class, mapping),
    `return len + 2`, `save_real_text(..) + 1`, `default: return 2`) — REGENERATED from its return statements -/
def sizeStr : Nat := NV.Gen.C16.sizeStr
def sizeArr : Nat := NV.Gen.C16.sizeArr
def sizeCls : Nat := NV.Gen.C16.sizeCls
def sizeMap : Nat := NV.Gen.C16.sizeMap
def sizeInt : Nat := NV.Gen.C16.sizeInt
def sizeReal : Nat := NV.Gen.C16.sizeReal
def sizeOther : Nat := NV.Gen.C16.sizeOther

/-- default of the configuration item MaxArraySize (lib/rc/rc.cpp); the harness does not override it -/
def maxArray : Nat := NV.Gen.C16.maxArraySize

/-- `USHRT_MAX`: an `array_t` counts its members in an `unsigned short`; restore_class refuses a text with more (since the
    class-size fix; before, the count was truncated: 65536 members came back as a class of 0) — REGENERATED -/
def maxClass : Nat := NV.Gen.C16.ushrtMax

mutual
/-- `svalue_save_size` with `save_svalue_depth = d` on entry; `none` = too_deep_save_error() -/
def saveSize (F : FloatOps α) (d : Nat) : Value α → Option Nat
  | .int n => some ((if n < 0 then 1 else 0) + ndigits (magnitude n) + sizeInt)
  | .real x => some ((saveReal F x).length + sizeReal)
  | .str s => some (sizeStr + strSize s)
  | .arr xs => if d + 1 > maxDepth then none else (sizeElems F (d + 1) xs).map (· + sizeArr)
  | .cls xs => if d + 1 > maxDepth then none else (sizeElems F (d + 1) xs).map (· + sizeCls)
  | .map ps => if d + 1 > maxDepth then none else (sizePairs F (d + 1) ps).map (· + sizeMap)
  | .obj => some sizeOther
def sizeElems (F : FloatOps α) (d : Nat) : Vals α → Option Nat
  | .nil => some 0
  | .cons v r =>
    match saveSize F d v, sizeElems F d r with
    | some a, some b => some (a + b)
    | _, _ => none
def sizePairs (F : FloatOps α) (d : Nat) : Pairs α → Option Nat
  | .nil => some 0
  | .cons k v r =>
    match saveSize F d k, saveSize F d v, sizePairs F d r with
    | some a, some b, some c => some (a + b + c)
    | _, _, _ => none
end

/-- outcome of `save_variable` -/
inductive SaveOut where
  | ok (text : List Byte)
  | tooDeep
  /-- save_svalue wrote beyond the `svalue_save_size` bytes that were allocated -/
  | crash
  deriving Repr, BEq, DecidableEq

/-- `save_variable`: allocate `svalue_save_size(v)` bytes, let save_svalue write text + NUL into them -/
def saveVariable (F : FloatOps α) (v : Value α) : SaveOut :=
  match saveSize F 0 v with
  | none => .tooDeep
  | some n => let t := save F v; if t.length + 1 ≤ n then .ok t else .crash

/-- default of the configuration item MaxStringLength (lib/rc/rc.cpp); the harness does not override it — REGENERATED -/
def maxStringLength : Nat := NV.Gen.C16.maxStringLength

/-- outcome of the efun save_variable -/
inductive SaveEfunOut where
  | ok (text : List Byte)
  | tooDeep
  /-- `theSize - 1 > MaxStringLength`: error raised before anything is allocated -/
  | tooLong
  | crash
  deriving Repr, BEq, DecidableEq

/-- `save_variable` with its length test: size, `if (theSize - 1 > MaxStringLength) error (..)`, allocation, write -/
def saveVariableEfun (F : FloatOps α) (v : Value α) : SaveEfunOut :=
  match saveSize F 0 v with
  | none => .tooDeep
  | some n =>
    if n - 1 > maxStringLength then .tooLong
    else
      match saveVariable F v with
      | .ok t => .ok t
      | .tooDeep => .tooDeep
      | .crash => .crash

/-! ## restore side -/

inductive RErr where
  | string | array | mapping | numeral | general | cls
  /-- allocate_array(): error("Illegal array size.") for more than MaxArraySize elements -/
  | arraySize
  deriving Repr, BEq, DecidableEq

inductive Res (β : Type) where
  | ok (b : β)
  | err (e : RErr)
  /-- memory error: read at or move beyond the position one past the NUL, or use of a size-table entry that the
      pre-pass did not write -/
  | crash
  /-- model artefact: out of fuel -/
  | stuck

abbrev Cur := Option (List Byte)

/-- `cp++` without dereferencing -/
def adv : List Byte → Cur
  | [] => none
  | _ :: r => some r

/-! ### strings -/

/-- scan of a string body as done by restore_internal_size: rest after the closing quote -/
def skipStr : List Byte → Option (List Byte)
  | [] => none
  | c :: r =>
    if c = 34 then some r
    else if c = 92 then
      match r with
      | [] => none
      | _ :: r' => skipStr r'
    else skipStr r

/-- `mb_span = mblen(cp, MB_CUR_MAX); if (mb_span < 0) mb_span = 1;` on a non-empty rest: the bytes `restore_size`
    steps over — an invalid sequence counts as one byte -/
def mbStep (mb : MbLen) (s : List Byte) : Nat := (mb.len s).getD 1

/-- result of the string scan of restore_size -/
inductive MbScan where
  | open_                        -- ran into the NUL: `return 0`, i.e. the caller sees SIZE 0 (sic)
  | closed (rest : List Byte)

/-- the string scan of `restore_size`, which steps over whole multibyte characters
    (fuel = length of the text + 1) -/
def skipStrMb (mb : MbLen) : Nat → List Byte → MbScan
  | 0, _ => .open_
  | _, [] => .open_
  | fuel + 1, c :: r =>
    if c = 34 then .closed r
    else
      let r' := (c :: r).drop (mbStep mb (c :: r))
      if c = 92 then
        match r' with
        | [] => .open_
        | _ :: r'' => skipStrMb mb fuel r''
      else skipStrMb mb fuel r'

/-- the restore side of the LF/CR substitution (`case '\r': *(cp - 1) = '\n'`, `if (c == '\r') *newp++ = '\n'`) —
    REGENERATED from restore_string, restore_interior_string (object.c) and restore_hash_string (mapping.c); that
    all six sites agree is the generated fact `NV.Gen.C16.restoreSwapSitesAgree` -/
def restoreSwapFrom : Byte := NV.Gen.C16.restoreSwapFrom
def restoreSwapTo : Byte := NV.Gen.C16.restoreSwapTo

/-- `sizeof(var)` in restore_object_from_buff — REGENERATED -/
def varBufSize : Nat := NV.Gen.C16.varBufSize

/-- restore_interior_string / restore_hash_string / restore_string: decoded contents and the rest after the
    closing quote.  An escaped byte is taken verbatim, an unescaped CR becomes LF. -/
def decodeStr : List Byte → Option (List Byte × List Byte)
  | [] => none
  | c :: r =>
    if c = 34 then some ([], r)
    else if c = 92 then
      match r with
      | [] => none
      | x :: r' => (decodeStr r').map (fun p => (x :: p.1, p.2))
    else (decodeStr r).map (fun p => ((if c = restoreSwapFrom then restoreSwapTo else c) :: p.1, p.2))

/-! ### numbers -/

/-- `res *= 10; res += c - '0'` in uint64_t -/
def accDigits (acc : Nat) : List Byte → Nat
  | [] => acc
  | c :: r => accDigits ((acc * 10 + (c - 48)) % 2 ^ 64) r

def maxExpo : Nat := NV.Gen.C16.maxSaveExponent

/-- `if (expo < MAX_SAVE_EXPONENT) expo = expo * 10 + (c - '0')` -/
def accExpo (acc : Nat) : List Byte → Nat
  | [] => acc
  | c :: r => accExpo (if acc < maxExpo then acc * 10 + (c - 48) else acc) r

/-- `f1 += (c - '0') / f2; f2 *= 10;` over the fraction digits -/
def accFrac (F : FloatOps α) (f1 f2 : α) : List Byte → α
  | [] => f1
  | c :: r => accFrac F (F.add f1 (F.div (F.ofNat (c - 48)) f2)) (F.mul f2 (F.ofNat 10)) r

/-- two's complement reading of the 64-bit magnitude: `(int64_t)(neg ? 0 - res : res)` -/
def toInt64 (neg : Bool) (res : Nat) : Int :=
  let u : Nat := if neg then (2 ^ 64 - res % 2 ^ 64) % 2 ^ 64 else res % 2 ^ 64
  if u < 2 ^ 63 then Int.ofNat u else Int.ofNat u - 2 ^ 64

/-- `SCALE_STEP_EXPONENT` -/
def scaleStep : Nat := NV.Gen.C16.scaleStepExponent

/-- `scale_down(f, expo)` = f * 10^-expo, in two steps beyond 10^-300 (pow(10,-expo) alone is subnormal / 0 there) -/
def scaleDown (F : FloatOps α) (f : α) (expo : Nat) : α :=
  if expo > scaleStep then
    F.mul (F.mul f (F.pow10 (-(scaleStep : Int)))) (F.pow10 (-((expo - scaleStep : Nat) : Int)))
  else F.mul f (F.pow10 (-(expo : Int)))

/-- exponent part after `e`: `+digits` or `-digits`; returns the scaling to apply to the mantissa and the rest at
    the terminator -/
def parseExp (F : FloatOps α) : List Byte → Option ((α → α) × List Byte)
  | 43 :: s => let p := s.span isDigit; some (fun f => F.mul f (F.pow10 (accExpo 0 p.1)), p.2)
  | 45 :: s => let p := s.span isDigit; some (fun f => scaleDown F f (accExpo 0 p.1), p.2)
  | _ => none

/-- `parse_numeric(&cp, c, dest)`, `s` = text after the first character `c` (`-` or a digit).
    Returns the value and the rest of the text *at* the character that ended the number (the C code has consumed
    that character too: `cp[-1]`); an empty rest means the number ran up to the NUL. -/
def parseNumeric (F : FloatOps α) (c : Byte) (s : List Byte) : Option (Value α × List Byte) :=
  let start : Option (Bool × Byte × List Byte) :=
    if c = 45 then
      match s with
      | d :: r => if isDigit d then some (true, d, r) else none
      | [] => none
    else some (false, c, s)
  match start with
  | none => none
  | some (neg, c, s) =>
    let p := s.span isDigit
    let res := accDigits (c - 48) p.1
    let sgn : α → α := fun x => if neg then F.neg x else x
    match p.2 with
    | 46 :: s1 =>
      match s1 with
      | d :: _ =>
        if isDigit d then
          let q := s1.span isDigit
          let f1 := F.add (accFrac F (F.ofNat 0) (F.ofNat 10) q.1) (F.ofNat res)
          match q.2 with
          | 101 :: s2 =>
            match parseExp F s2 with
            | some (sc, rem) => some (.real (sgn (sc f1)), rem)
            | none => none
          | rem => some (.real (sgn f1), rem)
        else none
      | [] => none
    | 101 :: s2 =>
      match parseExp F s2 with
      | some (sc, rem) => some (.real (sgn (sc (F.ofNat res))), rem)
      | none => none
    | rem => some (.int (toInt64 neg res), rem)

/-- does the character start a number in the switch statements of the restore functions -/
def numStart (c : Byte) : Bool := c = 45 || isDigit c

/-! ### size pre-pass (`restore_size` for the outermost container, `restore_internal_size` below it) -/

/-- `strchr(cp, delim)` then `cp++`: rest after the first `delim` -/
def afterDelim (d : Byte) : List Byte → Option (List Byte)
  | [] => none
  | c :: r => if c = d then some r else afterDelim d r

/-- result of a pre-pass: rest after the closing `)`, number of elements, sizes of the nested containers in
    the order in which they were opened -/
abbrev PreOut := List Byte × Nat × List Nat

/-- The loop of restore_size (`top = true`, asks `mb` at every element start and inside strings) and of
    restore_internal_size (`top = false`).  `isMap`: mapping (delimiters alternate `:` `,`), `idx`: the C
    variable `index`, `size`: elements counted so far, `zs`: sizes of nested containers recorded so far. -/
def pre (mb : MbLen) : Nat → Bool → Bool → Bool → List Byte → Nat → List Nat → Option PreOut
  | 0, _, _, _, _, _, _ => none
  | _, _, _, _, [], _, _ => none
  | fuel + 1, top, isMap, idx, c :: r, size, zs =>
    let delim : Byte := if isMap && !idx then 58 else 44
    let idx' := if isMap then !idx else idx
    -- restore_size: mb_span = mblen(cp) (1 for an invalid sequence); cp += mb_span
    let r := if top then (c :: r).drop (mbStep mb (c :: r)) else r
    (
      if c = 34 then
        if top then
          match skipStrMb mb (r.length + 1) r with
          | .open_ => some ([], 0, [])       -- restore_size: `return 0` = "no elements" (sic)
          | .closed (d :: r') => if d = delim then pre mb fuel top isMap idx' r' (size + 1) zs else none
          | .closed [] => none
        else
          match skipStr r with
          | some (d :: r') => if d = delim then pre mb fuel top isMap idx' r' (size + 1) zs else none
          | _ => none
      else if c = 40 then
        match r with
        | k :: r1 =>
          if k = 123 ∨ k = 91 ∨ k = 47 then
            match pre mb fuel false (k = 91) false r1 0 [] with
            | some (d :: r', n, zs') =>
              if d = delim then pre mb fuel top isMap idx' r' (size + 1) (zs ++ n :: zs') else none
            | _ => none
          else none
        | [] => none
      else if c = 93 then
        match r with
        | 41 :: r' => if isMap then some (r', size, zs) else none
        | _ => none
      else if c = 47 ∨ c = 125 then
        match r with
        | 41 :: r' => if !isMap then some (r', size, zs) else none
        | _ => none
      else if c = 58 ∨ c = 44 then
        if c = delim then pre mb fuel top isMap idx' r (size + 1) zs else none
      else
        match afterDelim delim r with
        | some r' => pre mb fuel top isMap idx' r' (size + 1) zs
        | none => none)

/-- The size pre-pass AS CODED since the nesting fix: `pre` plus the parameter `nest` = the `nesting` argument of
    restore_internal_size (level of the container whose elements are being counted; the outermost container, counted
    by restore_size, is level 1 and is not checked).  `if (nesting > MAX_SAVE_SVALUE_DEPTH) return 0;` stands at the
    entry of restore_internal_size; `nest` is constant through the loop of one activation, so testing it at every
    iteration is the same thing.  Each `(`-branch calls with `nesting + 1` (restore_size: with 2).
    `pre` itself (above) is this function without the test — the code before the fix — and is kept as the proof
    device of ProofTotal.lean: `preD_pre` shows that `preD` only adds refusals. -/
def preD (mb : MbLen) : Nat → Nat → Bool → Bool → Bool → List Byte → Nat → List Nat → Option PreOut
  | 0, _, _, _, _, _, _, _ => none
  | _, _, _, _, _, [], _, _ => none
  | fuel + 1, nest, top, isMap, idx, c :: r, size, zs =>
    if !top && decide (nest > maxDepth) then none else
    let delim : Byte := if isMap && !idx then 58 else 44
    let idx' := if isMap then !idx else idx
    let r := if top then (c :: r).drop (mbStep mb (c :: r)) else r
    (
      if c = 34 then
        if top then
          match skipStrMb mb (r.length + 1) r with
          | .open_ => some ([], 0, [])
          | .closed (d :: r') => if d = delim then preD mb fuel nest top isMap idx' r' (size + 1) zs else none
          | .closed [] => none
        else
          match skipStr r with
          | some (d :: r') => if d = delim then preD mb fuel nest top isMap idx' r' (size + 1) zs else none
          | _ => none
      else if c = 40 then
        match r with
        | k :: r1 =>
          if k = 123 ∨ k = 91 ∨ k = 47 then
            match preD mb fuel (nest + 1) false (k = 91) false r1 0 [] with
            | some (d :: r', n, zs') =>
              if d = delim then preD mb fuel nest top isMap idx' r' (size + 1) (zs ++ n :: zs') else none
            | _ => none
          else none
        | [] => none
      else if c = 93 then
        match r with
        | 41 :: r' => if isMap then some (r', size, zs) else none
        | _ => none
      else if c = 47 ∨ c = 125 then
        match r with
        | 41 :: r' => if !isMap then some (r', size, zs) else none
        | _ => none
      else if c = 58 ∨ c = 44 then
        if c = delim then preD mb fuel nest top isMap idx' r (size + 1) zs else none
      else
        match afterDelim delim r with
        | some r' => preD mb fuel nest top isMap idx' r' (size + 1) zs
        | none => none)

/-! ### value pass -/

/-- msameval on the keys restore_mapping can meet in one bucket: numbers by value, floats by `==`, strings are
    shared strings (pointer equality = same contents); containers are fresh allocations, never the same -/
def sameKey (F : FloatOps α) : Value α → Value α → Bool
  | .int a, .int b => a == b
  | .real a, .real b => F.eq a b
  | .str a, .str b => a == b
  | _, _ => false

/-- the duplicate-key branch of restore_mapping: replace the value of an existing equal key, else append -/
def insertKV (F : FloatOps α) : Pairs α → Value α → Value α → Pairs α
  | .nil, k, v => .cons k v .nil
  | .cons a b r, k, v => if sameKey F a k then .cons a v r else .cons a b (insertKV F r k v)

/-- what the value pass threads through: values, cursor, remaining size-table entries -/
structure Step (β : Type) where
  val : β
  cur : Cur
  zs : List Nat

/-- `cp = *str; cp++` after a string or a nested container -/
def advCur : Cur → Res (List Byte)
  | none => .crash
  | some [] => .crash      -- cp++ moves to one past the NUL, the next `*cp++` of the loop reads there ...
  | some (_ :: r) => .ok r

/-
Note on `advCur (some [])`: the C code performs `cp++` (legal) and faults only at the following dereference;
every continuation of this point in restore_array/restore_class/restore_mapping either dereferences `cp`
(`switch (c = *cp++)`) or advances it again (`cp += 2`), so the model reports the fault one step early.
-/

mutual
/-- restore_array / restore_class from `cp` (after `({` / `(/`) with the element count already known -/
def rdElems (F : FloatOps α) : Nat → List Byte → Nat → List Nat → Vals α → RErr → Res (Step (Vals α))
  | 0, _, _, _, _, _ => .stuck
  | _ + 1, s, 0, zs, acc, _ =>
    -- cp += 2; *str = cp
    match s with
    | _ :: _ :: r => .ok ⟨acc, some r, zs⟩
    | [_] => .ok ⟨acc, none, zs⟩
    | [] => .crash
  | fuel + 1, s, n + 1, zs, acc, generic =>
    match s with
    | [] => .err generic                -- c = NUL: default
    | c :: r =>
      if c = 34 then
        match decodeStr r with
        | none => .err generic
        | some (str, r') =>
          match advCur (some r') with
          | .ok r'' => rdElems F fuel r'' n zs (acc.snoc (.str str)) generic
          | .err e => .err e
          | .crash => .crash
          | .stuck => .stuck
      else if c = 44 then rdElems F fuel r n zs (acc.snoc (.int 0)) generic
      else if c = 40 then
        match rdNested F fuel r zs with
        | .ok st =>
          match advCur st.cur with
          | .ok r'' => rdElems F fuel r'' n st.zs (acc.snoc st.val) generic
          | .err e => .err e
          | .crash => .crash
          | .stuck => .stuck
        | .err e => .err (match e with | .general => generic | e => e)
        | .crash => .crash
        | .stuck => .stuck
      else if numStart c then
        match parseNumeric F c r with
        | some (v, d :: r') => if d = 44 then rdElems F fuel r' n zs (acc.snoc v) generic else .err .numeral
        | _ => .err .numeral
      else .err generic

/-- after `(` inside a container: `save_svalue_depth++`, dispatch on `{ [ /`, the nested function takes its
    size from the table.  `err general` stands for the caller's generic error. -/
def rdNested (F : FloatOps α) : Nat → List Byte → List Nat → Res (Step (Value α))
  | 0, _, _ => .stuck
  | fuel + 1, s, zs =>
    match s with
    | k :: r =>
      if k = 123 ∨ k = 47 then
        match zs with
        | [] => .crash
        | n :: zs' =>
          if k = 123 ∧ n > maxArray then .err .arraySize else
          if k = 47 ∧ n > maxClass then .err .cls else
          match rdElems F fuel r n zs' .nil (if k = 123 then .array else .cls) with
          | .ok st => .ok ⟨if k = 123 then .arr st.val else .cls st.val, st.cur, st.zs⟩
          | .err e => .err e
          | .crash => .crash
          | .stuck => .stuck
      else if k = 91 then
        match zs with
        | [] => .crash
        | n :: zs' =>
          if n = 0 then
            -- *str += 2
            match r with
            | _ :: _ :: r' => .ok ⟨.map .nil, some r', zs'⟩
            | [_] => .ok ⟨.map .nil, none, zs'⟩
            | [] => .crash
          else
            match rdMap F fuel r zs' .nil with
            | .ok st => .ok ⟨.map st.val, st.cur, st.zs⟩
            | .err e => .err e
            | .crash => .crash
            | .stuck => .stuck
      else .err .general
    | [] => .err .general

/-- the `while (1)` loop of restore_mapping -/
def rdMap (F : FloatOps α) : Nat → List Byte → List Nat → Pairs α → Res (Step (Pairs α))
  | 0, _, _, _ => .stuck
  | fuel + 1, s, zs, acc =>
    match s with
    | [] => .err .mapping
    | c :: r =>
      if c = 93 then
        -- *str = ++cp
        match r with
        | _ :: r' => .ok ⟨acc, some r', zs⟩
        | [] => .ok ⟨acc, none, zs⟩
      else
      let key : Res (Step (Value α)) :=
        if c = 34 then
          match decodeStr r with
          | none => .err .string
          | some (str, r') =>
            match advCur (some r') with
            | .ok r'' => .ok ⟨.str str, some r'', zs⟩
            | .err e => .err e
            | .crash => .crash
            | .stuck => .stuck
        else if c = 40 then
          match rdNested F fuel r zs with
          | .ok st =>
            match advCur st.cur with
            | .ok r'' => .ok ⟨st.val, some r'', st.zs⟩
            | .err e => .err e
            | .crash => .crash
            | .stuck => .stuck
          | .err e => .err (match e with | .general => .mapping | e => e)
          | .crash => .crash
          | .stuck => .stuck
        else if c = 58 then .ok ⟨.int 0, some r, zs⟩
        else if numStart c then
          match parseNumeric F c r with
          | some (v, d :: r') => if d = 58 then .ok ⟨v, some r', zs⟩ else .err .numeral
          | _ => .err .numeral
        else .err .mapping
      match key with
      | .err e => .err e
      | .crash => .crash
      | .stuck => .stuck
      | .ok ks =>
        match ks.cur with
        | none => .crash
        | some [] => .err .mapping        -- c = NUL: default: generic_value_error
        | some (c2 :: r2) =>
          let value : Res (Step (Value α)) :=
            if c2 = 34 then
              match decodeStr r2 with
              | none => .err .string
              | some (str, r') =>
                match advCur (some r') with
                | .ok r'' => .ok ⟨.str str, some r'', ks.zs⟩
                | .err e => .err e
                | .crash => .crash
                | .stuck => .stuck
            else if c2 = 40 then
              match rdNested F fuel r2 ks.zs with
              | .ok st =>
                match advCur st.cur with
                | .ok r'' => .ok ⟨st.val, some r'', st.zs⟩
                | .err e => .err e
                | .crash => .crash
                | .stuck => .stuck
              | .err e => .err (match e with | .general => .mapping | e => e)
              | .crash => .crash
              | .stuck => .stuck
            else if c2 = 44 then .ok ⟨.int 0, some r2, ks.zs⟩
            else if numStart c2 then
              match parseNumeric F c2 r2 with
              | some (v, d :: r') => if d = 44 then .ok ⟨v, some r', ks.zs⟩ else .err .numeral
              | _ => .err .numeral
            else .err .mapping
          match value with
          | .err e => .err e
          | .crash => .crash
          | .stuck => .stuck
          | .ok vs =>
            match vs.cur with
            | none => .crash
            | some r3 => rdMap F fuel r3 vs.zs (insertKV F acc ks.val vs.val)
end

/-- restore_array / restore_class / restore_mapping called from restore_svalue (`save_svalue_depth = 0`):
    size pre-pass over the whole container (restore_size = nesting level 1), then the value pass.  `k` is the byte
    after `(`.  The value pass recurses exactly where the pre-pass did, so its C recursion depth is bounded by the
    same MAX_SAVE_SVALUE_DEPTH. -/
def restoreContainer (F : FloatOps α) (mb : MbLen) (k : Byte) (s : List Byte) : Res (Value α) :=
  let fuel := s.length + 2
  if k = 123 ∨ k = 47 then
    let generic : RErr := if k = 123 then .array else .cls
    match preD mb fuel 1 true false false s 0 [] with
    | none => .err generic
    | some (_, n, zs) =>
      if k = 123 ∧ n > maxArray then .err .arraySize else
      if k = 47 ∧ n > maxClass then .err .cls else
      match rdElems F fuel s n zs .nil generic with
      | .ok st => .ok (if k = 123 then .arr st.val else .cls st.val)
      | .err e => .err e
      | .crash => .crash
      | .stuck => .stuck
  else
    match preD mb fuel 1 true true false s 0 [] with
    | none => .err .mapping
    | some (_, n, zs) =>
      if n = 0 then .ok (.map .nil)
      else
        match rdMap F fuel s zs .nil with
        | .ok st => .ok (.map st.val)
        | .err e => .err e
        | .crash => .crash
        | .stuck => .stuck

/-- restore_string: the closing quote must be the last character of the text -/
def restoreString (s : List Byte) : Res (Value α) :=
  match decodeStr s with
  | some (str, []) => .ok (.str str)
  | _ => .err .string

/-- `restore_svalue(cp, v)` on the C string `t` (the variable has been zeroed) -/
def restoreSvalue (F : FloatOps α) (mb : MbLen) (t : List Byte) : Res (Value α) :=
  match t with
  | [] => .ok (.int 0)
  | c :: s =>
    if c = 34 then restoreString s
    else if c = 40 then
      match s with
      | k :: s' => if k = 123 ∨ k = 91 ∨ k = 47 then restoreContainer F mb k s' else .err .general
      | [] => .err .general
    else if numStart c then
      match parseNumeric F c s with
      | some (v, _) => .ok v
      | none => .err .numeral
    else .ok (.int 0)

/-- `safe_restore_svalue(cp, v)`: the old value survives every error -/
def safeRestoreSvalue (F : FloatOps α) (mb : MbLen) (t : List Byte) (old : Value α) : Res (Value α) × Value α :=
  match restoreSvalue F mb t with
  | .ok v => (.ok v, v)
  | r => (r, old)

/-- outcome of the efun restore_variable: a value, or an LPC error with its message -/
inductive RvOut (α : Type) where
  | value (v : Value α)
  | error (msg : String)
  | crash
  | stuck

def errMsg : RErr → String
  | .general => "restore_object(): Illegal general format."
  | .numeral => "restore_object(): Illegal numeric format."
  | .array => "restore_object(): Illegal array format."
  | .mapping => "restore_object(): Illegal mapping format."
  | .string => "restore_object(): Illegal string format."
  | .cls => "restore_object(): Illegal class format."
  | .arraySize => "Illegal array size."

/-- `restore_variable`: ROB_CLASS_ERROR has no branch there: the result is 0 without an error -/
def restoreVariable (F : FloatOps α) (mb : MbLen) (t : List Byte) : RvOut α :=
  match restoreSvalue F mb (cstr t) with
  | .ok v => .value v
  | .err .cls => .value (.int 0)
  | .err e => .error (errMsg e)
  | .crash => .crash
  | .stuck => .stuck

/-! ## object level: the line format of save_object / restore_object -/

/-- one global variable of the object in layout order (inherited first) -/
structure Var (α : Type) where
  name : List Byte
  isStatic : Bool
  val : Value α

/-- the lines written by save_object_recurse: `name value\n` for every non-static variable, variables whose
    text is exactly "0" being skipped unless save_zeros -/
def saveLines (F : FloatOps α) (zeros : Bool) : List (Var α) → List (List Byte)
  | [] => []
  | v :: r =>
    if v.isStatic then saveLines F zeros r
    else
      let t := save F v.val
      if zeros || t != [48] then (v.name ++ 32 :: (t ++ [10])) :: saveLines F zeros r
      else saveLines F zeros r

def headerLine (prog : List Byte) : List Byte := 35 :: 47 :: (prog ++ [10])

def saveFileText (F : FloatOps α) (prog : List Byte) (zeros : Bool) (vars : List (Var α)) : List Byte :=
  headerLine prog ++ (saveLines F zeros vars).flatten

/-- buffers of save_object_recurse never overflow either: every variable goes through the same size / write pair -/
def saveObjectCrash (F : FloatOps α) (vars : List (Var α)) : Bool :=
  vars.any (fun v => !v.isStatic && (saveVariable F v.val == .crash))

/-- split at LF (the LF is dropped) -/
def splitLines : List Byte → List (List Byte)
  | [] => [[]]
  | c :: r =>
    match splitLines r with
    | [] => [[c]]
    | l :: ls => if c = 10 then [] :: l :: ls else (c :: l) :: ls

/-- assignment to the variable find_global_variable() returns: the first one of that name -/
def setVar : List (Var α) → List Byte → Value α → List (Var α)
  | [], _, _ => []
  | x :: r, name, v => if x.name = name then { x with val := v } :: r else x :: setVar r name v

inductive RoOut (α : Type) where
  | done (vars : List (Var α))
  | error (msg : String) (vars : List (Var α))
  | crash
  | stuck

def errMsgVar (e : RErr) (name : List Byte) : String :=
  let n := String.ofList (name.map (fun b => Char.ofNat b))
  match e with
  | .general => s!"restore_object(): Illegal general format while restoring {n}."
  | .numeral => s!"restore_object(): Illegal numeric format while restoring {n}."
  | .array => s!"restore_object(): Illegal array format while restoring {n}."
  | .mapping => s!"restore_object(): Illegal mapping format while restoring {n}."
  | .string => s!"restore_object(): Illegal string format while restoring {n}."
  | .cls => s!"restore_object(): Illegal class format while restoring {n}."
  | .arraySize => "Illegal array size."

/-- restore_object_from_buff over the lines of the file -/
def restoreLines (F : FloatOps α) (mb : MbLen) (noclear : Bool) : List (List Byte) → List (Var α) → RoOut α
  | [], vars => .done vars
  | l :: ls, vars =>
    if l = [] then
      -- `while (buff && *buff)` ends at the end of the text; an empty line inside it has no space: error
      if ls = [] then .done vars else .error "restore_object(): Illegal file format." vars
    else if l.head? = some 35 then restoreLines F mb noclear ls vars
    else
      let name := l.takeWhile (· ≠ 32)
      if name.length = l.length ∨ name.length ≥ varBufSize then .error "restore_object(): Illegal file format." vars
      else
        let text := l.drop (name.length + 1)
        match vars.find? (fun v => v.name = name) with
        | none => restoreLines F mb noclear ls vars
        | some v =>
          if v.isStatic then restoreLines F mb noclear ls vars
          else
            match restoreSvalue F mb text with
            | .ok x => restoreLines F mb noclear ls (setVar vars name x)
            | .err e => .error (errMsgVar e name) vars
            | .crash => .crash
            | .stuck => .stuck

/-- restore_object on the contents of the save file (`none`: no file, empty file: returns 0) -/
def restoreObject (F : FloatOps α) (mb : MbLen) (noclear : Bool) (file : Option (List Byte)) (vars : List (Var α)) :
    Nat × RoOut α :=
  match file with
  | none => (0, .done vars)
  | some [] => (0, .done vars)
  | some t =>
    let vars0 := if noclear then vars else vars.map (fun v => if v.isStatic then v else { v with val := .int 0 })
    (1, restoreLines F mb noclear (splitLines (cstr t)) vars0)

/-! ## SaveFile: the call script of save_object over an abstract file system -/

/-- the stdio / file-system calls of one save_object, in order -/
inductive Call where
  | fopenTmp                       -- fopen(tmp, "w"): creates / truncates the temporary
  | write (data : List Byte)       -- fprintf(f, ...): appends to the temporary
  | fclose
  | rename                         -- rename(tmp, file)
  | unlinkTmp
  deriving Repr, BEq, DecidableEq

/-- the two files the save touches.  ASSUMPTION (stated, not proved): `rename` replaces the destination
    atomically — after a crash the destination holds its previous or its new contents, nothing in between. -/
structure FS where
  file : Option (List Byte)
  tmp : Option (List Byte)
  deriving Repr, BEq, DecidableEq

def FS.step (fs : FS) : Call → FS
  | .fopenTmp => { fs with tmp := some [] }
  | .write d => { fs with tmp := fs.tmp.map (· ++ d) }
  | .fclose => fs
  | .rename => match fs.tmp with
    | some t => { file := some t, tmp := none }
    | none => fs
  | .unlinkTmp => { fs with tmp := none }

def FS.run (fs : FS) (cs : List Call) : FS := cs.foldl FS.step fs

/-- a crash INSIDE call `c`: of a `write` (stdio flushing its buffer block by block, a disk filling up) any prefix
    `d'` of the data may have reached the temporary; the other calls are single system calls (fopen = open/creat,
    rename, unlink): before or after, nothing in between (rename: the stated assumption) -/
def FS.partialStep (fs : FS) : Call → List Byte → FS
  | .write _, d' => { fs with tmp := fs.tmp.map (· ++ d') }
  | _, _ => fs

/-- The calls save_object makes when the call number `fail` (0-based; `none`: no failure) reports an error,
    together with its return value.  `chunks` = header line followed by the variable lines. -/
def saveScript (chunks : List (List Byte)) (fail : Option Nat) : List Call × Nat :=
  let nW := chunks.length
  let writes := chunks.map Call.write
  match fail with
  | none => (.fopenTmp :: (writes ++ [.fclose, .rename]), 1)
  | some k =>
    if k = 0 then ([], 0)                                         -- fopen failed: return 0
    else if k = 1 then ([.fopenTmp, .fclose, .unlinkTmp], 0)      -- header fprintf failed: fclose, unlink, return 0
    else if k ≤ nW then
      -- a variable line failed: save_object_recurse returns 0; fclose; unlink
      (.fopenTmp :: ((writes.take (k - 1)) ++ [.fclose, .unlinkTmp]), 0)
    else if k = nW + 1 then
      -- fclose failed (the harness lets the data reach the file): success = 0; unlink
      (.fopenTmp :: (writes ++ [.fclose, .unlinkTmp]), 0)
    else if k = nW + 2 then
      -- rename failed: unlink
      (.fopenTmp :: (writes ++ [.fclose, .unlinkTmp]), 0)
    else (.fopenTmp :: (writes ++ [.fclose, .rename]), 1)

/-- `save_object` as a whole, since the dry-run fix: `save_object_recurse(.., f = NULL)` runs `svalue_save_size` over
    every non-static variable BEFORE the temporary is opened, so "nested too deep" is raised while nothing is open
    (`none` = the LPC error: not one file-system call has been made); otherwise the call script over the header and
    the variable lines. -/
def saveObjectScript (F : FloatOps α) (prog : List Byte) (zeros : Bool) (vars : List (Var α)) (fail : Option Nat) :
    Option (List Call × Nat) :=
  if vars.any (fun v => !v.isStatic && (saveVariable F v.val == .tooDeep)) then none
  else some (saveScript (headerLine prog :: saveLines F zeros vars) fail)

/-- the file system after `save_object` and what it reported (`none`: LPC error) -/
def saveObjectFS (F : FloatOps α) (prog : List Byte) (zeros : Bool) (vars : List (Var α)) (fail : Option Nat)
    (fs : FS) : FS × Option Nat :=
  match saveObjectScript F prog zeros vars fail with
  | none => (fs, none)
  | some (cs, ret) => (fs.run cs, some ret)

/-- `snprintf(tmp_name, sizeof tmp_name, "%.250s.tmp", file)`: the temporary's name — prefix length and buffer size
    REGENERATED -/
def tmpName (file : List Byte) : List Byte :=
  (file.take NV.Gen.C16.tmpPrefixMax ++ [46, 116, 109, 112]).take (NV.Gen.C16.tmpBufSize - 1)

/-- number of interposed calls of a save without failure -/
def scriptLen (chunks : List (List Byte)) : Nat := chunks.length + 3

end NV.C16
