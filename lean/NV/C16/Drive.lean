/-
C16 driver: runs the model (`model` mode) or the specification oracle (`judge` mode) on the case lines that
harness/c16/c16.c executes against the real driver.  Commands and value syntax: see harness/c16/c16.c.
-/
import NV.Common.Proto
import NV.C16.Model
import NV.C16.Tree
import NV.C16.Spec
import NV.C16.Hash
import NV.C16.Globals

namespace NV.C16

open NV.Proto

/-- the value with the entries of every mapping sorted by their canonical save text `k:v` -/
partial def canonOrder : V → V
  | .arr xs => .arr (Vals.ofList (xs.toList.map canonOrder))
  | .cls xs => .cls (Vals.ofList (xs.toList.map canonOrder))
  | .map ps =>
    let es := ps.toList.map (fun kv => (canonOrder kv.1, canonOrder kv.2))
    .map (Pairs.ofList (sortBy (fun kv => save FloatIO kv.1 ++ 58 :: save FloatIO kv.2) es))
  | v => v

def bytesOfHex (s : String) : List Byte := hexBytes s.toList

def strOfBytes (b : List Byte) : String := String.ofList (b.map Char.ofNat)

/-! ### the real program tree dumped by the harness (`tree P(name;defined;total;V[n:flags,..];I[mod:off:P(..),..])`) -/

def takeUntil (stop : Char → Bool) : List Char → List Char × List Char
  | [] => ([], [])
  | c :: r => if stop c then ([], c :: r) else let p := takeUntil stop r; (c :: p.1, p.2)

def natOf (cs : List Char) : Option Nat := (String.ofList cs).toNat?

partial def parseVarDecls : List Char → List VarDecl → Option (List VarDecl × List Char)
  | ']' :: r, acc => some (acc.reverse, r)
  | cs, acc =>
    let (nm, r1) := takeUntil (· == ':') cs
    match r1 with
    | ':' :: r2 =>
      let (fl, r3) := takeUntil (fun c => c == ',' || c == ']') r2
      match natOf fl, r3 with
      | some f, ',' :: r4 => parseVarDecls r4 (⟨strBytes (String.ofList nm), f⟩ :: acc)
      | some f, ']' :: r4 => some ((⟨strBytes (String.ofList nm), f⟩ :: acc).reverse, r4)
      | _, _ => none
    | _ => none

mutual
partial def parseProg : List Char → Option (Prog × List Char)
  | 'P' :: '(' :: cs =>
    let (nm, r1) := takeUntil (· == ';') cs
    let (nd, r2) := takeUntil (· == ';') (r1.drop 1)
    let (nt, r3) := takeUntil (· == ';') (r2.drop 1)
    match natOf nd, natOf nt, r3 with
    | some d, some t, ';' :: 'V' :: '[' :: r4 =>
      match parseVarDecls r4 [] with
      | some (vars, ';' :: 'I' :: '[' :: r5) =>
        match parseInhs r5 with
        | some (inhs, ')' :: r6) =>
          if vars.length == d then some (.mk (strBytes (String.ofList nm)) t inhs vars, r6) else none
        | _ => none
      | _ => none
    | _, _, _ => none
  | _ => none
partial def parseInhs : List Char → Option (Inhs × List Char)
  | ']' :: r => some (.nil, r)
  | cs =>
    let (md, r1) := takeUntil (· == ':') cs
    let (off, r2) := takeUntil (· == ':') (r1.drop 1)
    match natOf md, natOf off, parseProg (r2.drop 1) with
    | some m, some o, some (p, r3) =>
      match r3 with
      | ',' :: r4 => (parseInhs r4).map (fun q => (.cons m o p q.1, q.2))
      | ']' :: r4 => some (.cons m o p .nil, r4)
      | _ => none
    | _, _, _ => none
end

mutual
partial def renderProg : Prog → String
  | .mk n t inhs vars =>
    s!"P({strOfBytes n};{vars.length};{t};V[" ++ ",".intercalate (vars.map (fun v => s!"{strOfBytes v.name}:{v.flags}")) ++
      "];I[" ++ ",".intercalate (renderInhs inhs) ++ "])"
partial def renderInhs : Inhs → List String
  | .nil => []
  | .cons m o p r => s!"{m}:{o}:{renderProg p}" :: renderInhs r
end

structure DState where
  vars : List (Var Float)
  progName : List Byte := strBytes "c16/obj.c"
  /-- generated program: the real tree and the object's variable array; commands then use the coded tree walks -/
  tree : Option Prog := none
  vals : List V := []
  /-- `tree` lines dumped by the harness for this case, in the order of the `useg` commands -/
  dumps : List String := []
  file : Option (List Byte) := none
  /-- what an earlier operation that ended in an LPC error left in the shared counter (`poison <d>` sets it) -/
  g : G := ⟨0, none⟩
  out : List String := []      -- newest first

def layoutM : List (Var Float) :=
  [⟨strBytes "vi", false, .int 0⟩, ⟨strBytes "vis", true, .int 0⟩, ⟨strBytes "va", false, .int 0⟩,
   ⟨strBytes "vb", false, .int 0⟩, ⟨strBytes "vs", true, .int 0⟩, ⟨strBytes "vo", false, .int 0⟩,
   ⟨strBytes "vc", false, .int 0⟩]

def DState.emit (s : DState) (l : String) : DState := { s with out := l :: s.out }

/-- layout of /c16/many: w0 .. w23, every fourth one static -/
def layoutMany : List (Var Float) :=
  (List.range 24).map (fun i => ⟨strBytes s!"w{i}", i % 4 == 3, .int 0⟩)

/-- the file save_object / restore_object derive from their argument: a trailing ".c" is dropped; unless the
    argument (then) still ends in the save extension, ".o" is appended; a leading "/" is relative to the mudlib -/
def saveName (file : List Byte) : List Byte :=
  let n := file.length
  let ext : List Byte := [NV.Gen.C16.saveExt0, NV.Gen.C16.saveExt1]      -- SAVE_EXTENSION, regenerated
  let base :=
    if n ≥ 2 ∧ file.drop (n - 2) = [46, 99] then file.take (n - 2) ++ ext
    else if n ≥ ext.length ∧ file.drop (n - ext.length) = ext then file
    else file ++ ext
  match base with
  | 47 :: r => r
  | b => b

/-- the hash table of a restored mapping whose keys are all integers, as restore_mapping builds it: allocate_mapping
    (pairs counted by the pre-pass), then one `Hash.insert` per pair in file order — printed like the harness' `tbl` line -/
def tblLine (t : List Byte) (v : V) : Option String :=
  match v, cstr t with
  | .map ps, 40 :: 91 :: body =>
    let keys := ps.toList.filterMap (fun kv => match kv.1 with | .int n => some n | _ => none)
    if keys.length != ps.toList.length then none else
    match preD utf8Len (body.length + 2) 1 true true false body 0 [] with
    | some (_, n, _) =>
      match Hash.insertAll Hash.intKeyHash (Hash.allocate (n / 2)) keys with
      | some tb =>
        let chains := (tb.buckets.zipIdx.filter (fun p => !p.1.isEmpty)).map
          (fun p => s!" {p.2}:" ++ ",".intercalate (p.1.map (fun (k : Int) => toString k)))
        some (s!"tbl size={tb.buckets.length} unfilled={tb.unfilled} count={keys.length}" ++ String.join chains)
      | none => some "tbl out-of-memory"
    | none => none
  | _, _ => none

/-- `restore_variable` entered with the shared state `g`: restore_svalue as coded (`restoreSvalueG`: reset first) -/
def restoreVariableG (g : G) (t : List Byte) : RvOut Float :=
  match restoreSvalueG FloatIO utf8Len g (cstr t) with
  | .ok v => .value v
  | .err .cls => .value (.int 0)
  | .err e => .error (errMsg e)
  | .crash => .crash
  | .stuck => .stuck

def doRestoreText (s : DState) (t : List Byte) (dump : Bool := false) : DState :=
  match restoreVariableG s.g t with
  | .value v =>
    let s := s.emit ("rest " ++ pv false v)
    match (if dump then tblLine t v else none) with
    | some l => s.emit l
    | none => s
  | .error m => (s.emit ("err " ++ m)).emit "resterr"
  | .crash => s.emit "crash model"
  | .stuck => s.emit "stuck model"

def doRoundtrip (s : DState) (v : V) : DState :=
  match saveVariableEfun FloatIO v with
  | .ok t =>
    let s := s.emit ("save " ++ hexOf (save FloatIO (canonOrder v)))
    doRestoreText s t
  | .tooDeep =>
    (s.emit s!"err Mappings and/or arrays nested too deep ({maxDepth}) for save_object").emit "saveerr"
  | .tooLong => (s.emit ("err " ++ NV.Gen.C16.saveVariableLimitMessage)).emit "saveerr"
  | .crash => s.emit "crash model"

/-- canonical print of the save file (every value with sorted mapping entries) -/
def fileCanon (progName : List Byte) (vars : List (Var Float)) (zeros : Bool) : List Byte :=
  saveFileText FloatIO progName zeros (vars.map (fun v => { v with val := canonOrder v.val }))

def classify (old new_ : Option (List Byte)) (cur : Option (List Byte)) : String :=
  match cur with
  | none => "none"
  | some c => if some c == old && some c == new_ then "both" else if some c == old then "old" else if some c == new_ then "new" else "other"

def treeChunks (s : DState) (p : Prog) (zeros : Bool) (vals : List V) : Option (List (List Byte)) :=
  (saveTreeLines FloatIO zeros p vals).map (fun ls => headerLine p.name :: ls)

/-- commands on a generated program (`useg`): save_object / restore_object through the coded tree walks -/
def runTreeCmd (s : DState) (p : Prog) (line : String) : Option DState :=
  match toks line with
  | ["setm", vt] =>
    match parseValue vt with
    | some (.arr xs) => some (if xs.length == s.vals.length then { s with vals := xs.toList } else s.emit "seterr")
    | _ => some (s.emit "badval")
  | ["so", z] =>
    let zeros := z != "0"
    if s.vals.any (fun v => saveVariable FloatIO v == .crash) then some (s.emit "crash model")
    else if (saveObjectScript FloatIO p.name zeros (mkVars (slots p false) s.vals) none).isNone then
      -- a non-static slot nested too deep: refused by the dry run, nothing touched
      some (((s.emit s!"err Mappings and/or arrays nested too deep ({maxDepth}) for save_object").emit "so -1").emit "file unchanged")
    else
      match treeChunks s p zeros s.vals, treeChunks s p zeros (s.vals.map canonOrder) with
      | some ch, some chc =>
        let s := { s with file := some ch.flatten }
        some ((s.emit "so 1").emit ("file " ++ hexOf chc.flatten))
      | _, _ => some (s.emit "crash model")
  | "ro" :: nc :: _ => some (ro nc)
  | "rox" :: nc :: _ => some (ro nc)
  | [c, z] =>
    if c == "cp" ∨ c == "cf" then
      match treeChunks s p (z != "0") s.vals with
      | none => some (s.emit "crash model")
      | some chunks =>
        let n := scriptLen chunks
        let fs0 : FS := { file := s.file, tmp := none }
        let newc := some chunks.flatten
        let s := s.emit s!"{c} n={n}"
        some ((List.range (n + 1)).foldl (fun s k =>
          if c == "cp" then
            let fs := fs0.run ((saveScript chunks none).1.take k)
            s.emit s!"cp {k} {classify s.file newc fs.file} tmp={if fs.tmp.isSome then 1 else 0}"
          else
            let (cs, ret) := saveScript chunks (some k)
            let fs := fs0.run cs
            s.emit s!"cf {k} ret={ret} {classify s.file newc fs.file} tmp={if fs.tmp.isSome then 1 else 0}") s)
    else none
  | _ => none
where
  ro (nc : String) : DState :=
    let (ret, out) := restoreObjectT FloatIO utf8Len (nc != "0") s.file p s.vals
    let pr (vals : List V) : String := "vars " ++ pv false (.arr (Vals.ofList vals))
    match out with
    | .done vals => ({ s with vals := vals }.emit s!"ro {ret}").emit (pr vals)
    | .error m vals => (({ s with vals := vals }.emit ("err " ++ m)).emit "roerr").emit (pr vals)
    | .crash => s.emit "crash model"
    | .stuck => s.emit "stuck model"

def runRo (s : DState) (nc : String) : DState :=
  let (ret, out) := restoreObject FloatIO utf8Len (nc != "0") s.file s.vars
  let pr (vars : List (Var Float)) : String := "vars " ++ pv false (.arr (Vals.ofList (vars.map (·.val))))
  match out with
  | .done vars => ({ s with vars := vars }.emit s!"ro {ret}").emit (pr vars)
  | .error m vars => (({ s with vars := vars }.emit ("err " ++ m)).emit "roerr").emit (pr vars)
  | .crash => s.emit "crash model"
  | .stuck => s.emit "stuck model"

def runCmdFlat (s : DState) (line : String) : DState :=
  match toks line with
  | [] => s
  | ["rt", vt] =>
    match parseValue vt with
    | some v => doRoundtrip s v
    | none => s.emit "badval"
  | "rtl" :: fn :: args =>
    match fn, args.map parseValue with
    | "mk", [some a, some b] => doRoundtrip s (.cls (Vals.ofList [a, b]))
    | "big", [] => doRoundtrip s (.real (Float.ofBits 0x7ff0000000000000))
    | _, _ => s.emit "lpcerr"
  | ["rv", h] => doRestoreText s (bytesOfHex h) true
  | ["rx", _, h] => doRestoreText s (bytesOfHex h) true
  | ["rv"] => doRestoreText s []
  | ["set", i, a, b, st, c] =>
    match parseValue i, parseValue a, parseValue b, parseValue st, parseValue c with
    | some i, some a, some b, some st, some c =>
      { s with vars := [⟨strBytes "vi", false, i⟩, ⟨strBytes "vis", true, st⟩, ⟨strBytes "va", false, a⟩,
                        ⟨strBytes "vb", false, b⟩, ⟨strBytes "vs", true, st⟩, ⟨strBytes "vo", false, .obj⟩,
                        ⟨strBytes "vc", false, c⟩] }
    | _, _, _, _, _ => s.emit "badval"
  | ["use", o] =>
    if o == "many" then { s with vars := layoutMany, progName := strBytes "c16/many.c" }
    else { s with vars := layoutM, progName := strBytes "c16/obj.c" }
  | ["setm", vt] =>
    match parseValue vt with
    | some (.arr xs) =>
      if xs.length == s.vars.length then
        { s with vars := (s.vars.zip xs.toList).map (fun (p : Var Float × V) => { p.1 with val := p.2 }) }
      else s.emit "seterr"
    | _ => s.emit "badval"
  | ["poison", d] => { s with g := ⟨d.toNat!, s.g.table⟩ }
  | ["sond", nm, _, _] =>
    -- the save path is an existing directory: rename() fails, the temporary is unlinked, save_object returns 0
    let name := if nm == "-" then [] else bytesOfHex nm
    if saveObjectCrash FloatIO s.vars then s.emit "crash model"
    else s.emit s!"so 0 made=1 tmp={hexOf (tmpName (saveName name))} left=0"
  | ["cl", z] =>
    let zeros := z != "0"
    let chunks := headerLine s.progName :: saveLines FloatIO zeros s.vars
    let newc := chunks.flatten
    let n := newc.length
    let cand : List Nat := [0, 1, n / 2, n - 1, n, n + 1, 4095, 4096, 4097, 8192]
    let lims := (cand.zipIdx.filter (fun p => !(cand.take p.2).contains p.1 && (p.2 < 6 || p.1 < n))).map (·.1)
    let oldSt := classify s.file (some newc) s.file
    let s := s.emit s!"cl n={n}"
    lims.foldl (fun s L =>
      if L ≥ n then
        let st := classify s.file (some newc) (some newc)
        (s.emit s!"cl {L} ret=1 {st} tmp=0").emit s!"ck {L} ret=1 {st} tmp=0"
      else
        -- the flush of stdio writes L bytes of the block, then fails (EFBIG) / the process is killed (SIGXFSZ)
        (s.emit s!"cl {L} ret=0 {oldSt} tmp=0").emit s!"ck {L} killed {oldSt} tmp=1") s
  | ["son", nm, _, path] =>
    let name := if nm == "-" then [] else bytesOfHex nm
    if saveObjectCrash FloatIO s.vars then s.emit "crash model"
    else s.emit s!"so 1 made={if saveName name == bytesOfHex path then 1 else 0} tmp={hexOf (tmpName (saveName name))} left=0"
  | ["so", z] =>
    let zeros := z != "0"
    if saveObjectCrash FloatIO s.vars then s.emit "crash model"
    else if (saveObjectScript FloatIO s.progName zeros s.vars none).isNone then
      -- too_deep_save_error() raised by the dry run, before the temporary is opened: no file is touched (K7 fixed)
      ((s.emit s!"err Mappings and/or arrays nested too deep ({maxDepth}) for save_object").emit "so -1").emit "file unchanged"
    else
      let s := { s with file := some (saveFileText FloatIO s.progName zeros s.vars) }
      (s.emit "so 1").emit ("file " ++ hexOf (fileCanon s.progName s.vars zeros))
  | ["wf", h] => { s with file := some (bytesOfHex h) }
  | ["wf"] => { s with file := some [] }
  | ["rm"] => { s with file := none }
  | ["rox", nc, _] => runRo s nc
  | ["ro", nc] => runRo s nc
  | [c, z] =>
    if c == "cp" ∨ c == "cf" then
      let zeros := z != "0"
      let chunks := headerLine s.progName :: saveLines FloatIO zeros s.vars
      let n := scriptLen chunks
      let fs0 : FS := { file := s.file, tmp := none }
      let newc := some chunks.flatten
      let s := s.emit s!"{c} n={n}"
      (List.range (n + 1)).foldl (fun s k =>
        if c == "cp" then
          let fs := fs0.run ((saveScript chunks none).1.take k)
          s.emit s!"cp {k} {classify s.file newc fs.file} tmp={if fs.tmp.isSome then 1 else 0}"
        else
          let (cs, ret) := saveScript chunks (some k)
          let fs := fs0.run cs
          s.emit s!"cf {k} ret={ret} {classify s.file newc fs.file} tmp={if fs.tmp.isSome then 1 else 0}") s
    else s.emit s!"badcmd {line}"
  | _ => if line.startsWith "#" then s else s.emit s!"badcmd {line}"

def runCmd (s : DState) (line : String) : DState :=
  match toks line with
  | "prog" :: _ => s
  | "mkd" :: _ => s
  | ["useg", _] =>
    match s.dumps with
    | d :: rest =>
      match parseProg ((d.drop 5).toString.toList) with
      | some (p, []) =>
        let s := { s with dumps := rest, tree := some p, vals := List.replicate p.total (.int 0), progName := p.name }
        -- the dumped tree is echoed from the parsed structure; a tree that is not laid out as `slots` says is reported
        if p.wf then s.emit ("tree " ++ renderProg p) else (s.emit ("tree " ++ renderProg p)).emit "tree-not-well-formed"
      | _ => { s with dumps := rest }.emit "tree-unparsable"
    | [] => s.emit "tree-missing"
  | "use" :: _ => runCmdFlat { s with tree := none } line
  | _ =>
    match s.tree with
    | some p =>
      match runTreeCmd s p line with
      | some s' => s'
      | none => runCmdFlat s line
    | none => runCmdFlat s line

def runModel (lines : List String) : List String :=
  let (cmds, dumps) := splitJudge lines
  ((cmds.foldl runCmd { vars := layoutM, dumps := dumps }).out).reverse

def runJudge (body : List String) : List String :=
  let (input, impl) := splitJudge body
  match judge input impl with
  | [] => ["ok"]
  | vs => vs.map (fun v => s!"bad {v}")

def main (mode : String) : IO Unit :=
  match mode with
  | "model" => serve runModel
  | "judge" => serve runJudge
  | _ => IO.eprintln s!"C16: unknown mode {mode}"

end NV.C16
