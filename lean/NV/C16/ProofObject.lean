/-
C16 — the object-level round trip: restore_object on the file that save_object wrote, on top of the value-level
round trip (NV.C16.ProofRoundtrip).
-/
import NV.C16.ProofRoundtrip

namespace NV.C16

variable {α : Type}

/-! ## lines -/

theorem splitLines_cons (c : Byte) (r : List Byte) : splitLines (c :: r) =
    match splitLines r with
    | [] => [[c]]
    | l :: ls => if c = 10 then [] :: l :: ls else (c :: l) :: ls := by
  rw [splitLines.eq_def]; rfl

theorem splitLines_ne_nil (t : List Byte) : splitLines t ≠ [] := by
  cases t with
  | nil => simp [splitLines]
  | cons c r =>
    rw [splitLines_cons]
    split
    · simp
    · split <;> simp

/-- a line without LF inside, followed by its LF -/
theorem splitLines_line (l rest : List Byte) (h : ∀ b ∈ l, b ≠ 10) :
    splitLines (l ++ 10 :: rest) = l :: splitLines rest := by
  induction l with
  | nil =>
    rw [List.nil_append, splitLines_cons]
    cases hr : splitLines rest with
    | nil => exact absurd hr (splitLines_ne_nil rest)
    | cons a b => simp
  | cons c r ih =>
    have hc : c ≠ 10 := h c (by simp)
    rw [List.cons_append, splitLines_cons, ih (fun b hb => h b (by simp [hb]))]
    simp [hc]

/-! ## names -/

theorem nameOK_spec (n : List Byte) (h : nameOK n = true) :
    n ≠ [] ∧ n.length < varBufSize ∧ (∀ b ∈ n, b ≠ 32 ∧ b ≠ 10 ∧ b ≠ 0) ∧ n.head? ≠ some 35 := by
  simp only [nameOK, Bool.and_eq_true, bne_iff_ne, ne_eq, decide_eq_true_eq, List.all_eq_true] at h
  exact ⟨h.1.1.1, h.1.1.2, fun b hb => ⟨(h.1.2 b hb).1.1, (h.1.2 b hb).1.2, (h.1.2 b hb).2⟩, h.2⟩

theorem takeWhile_name (n t : List Byte) (h : ∀ b ∈ n, b ≠ 32) :
    (n ++ 32 :: t).takeWhile (· ≠ 32) = n := by
  induction n with
  | nil => simp
  | cons c r ih =>
    have hc : c ≠ 32 := h c (by simp)
    simp only [List.cons_append, List.takeWhile_cons, ne_eq, hc, not_false_eq_true, decide_true, ↓reduceIte]
    rw [ih (fun b hb => h b (by simp [hb]))]

theorem find_append (P R : List (Var α)) (x : Var α) (nm : List Byte) (hP : ∀ p ∈ P, p.name ≠ nm)
    (hx : x.name = nm) : (P ++ x :: R).find? (fun v => v.name = nm) = some x := by
  induction P with
  | nil => simp [hx]
  | cons p r ih =>
    have hp : p.name ≠ nm := hP p (by simp)
    simp only [List.cons_append, List.find?_cons, hp, decide_false]
    exact ih (fun q hq => hP q (by simp [hq]))

theorem setVar_append (P R : List (Var α)) (x : Var α) (nm : List Byte) (w : Value α)
    (hP : ∀ p ∈ P, p.name ≠ nm) (hx : x.name = nm) :
    setVar (P ++ x :: R) nm w = P ++ { x with val := w } :: R := by
  induction P with
  | nil => simp [setVar, hx]
  | cons p r ih =>
    have hp : p.name ≠ nm := hP p (by simp)
    simp only [List.cons_append, setVar, hp, ↓reduceIte]
    rw [ih (fun q hq => hP q (by simp [hq]))]

/-! ## one line of the file -/

theorem restoreLines_nil (F : FloatOps α) (mb : MbLen) (nc : Bool) (vars : List (Var α)) :
    restoreLines F mb nc [[]] vars = .done vars := by
  simp [restoreLines]

theorem restoreLines_header (F : FloatOps α) (mb : MbLen) (nc : Bool) (l : List Byte) (rest : List (List Byte))
    (vars : List (Var α)) : restoreLines F mb nc ((35 :: l) :: rest) vars = restoreLines F mb nc rest vars := by
  simp [restoreLines]

/-- the line of a non-static variable whose text restores to `w` -/
theorem restoreLines_var (F : FloatOps α) (mb : MbLen) (nc : Bool) (P R : List (Var α)) (x : Var α) (t : List Byte)
    (rest : List (List Byte)) (w : Value α) (hn : nameOK x.name = true) (hP : ∀ p ∈ P, p.name ≠ x.name)
    (hx : x.isStatic = false) (hr : restoreSvalue F mb t = .ok w) :
    restoreLines F mb nc ((x.name ++ 32 :: t) :: rest) (P ++ x :: R) =
      restoreLines F mb nc rest (P ++ { x with val := w } :: R) := by
  obtain ⟨hne, hlen, hby, hhead⟩ := nameOK_spec x.name hn
  have htw := takeWhile_name x.name t (fun b hb => (hby b hb).1)
  have hl0 : x.name ++ 32 :: t ≠ [] := by simp
  have hh : (x.name ++ 32 :: t).head? ≠ some 35 := by
    cases hnm : x.name with
    | nil => exact absurd hnm hne
    | cons c r => rw [hnm] at hhead; simpa using hhead
  have hdrop : (x.name ++ 32 :: t).drop (x.name.length + 1) = t := by
    rw [show x.name ++ 32 :: t = (x.name ++ [32]) ++ t by simp]
    rw [List.drop_append_of_le_length (by simp)]
    simp
  have hlen2 : ¬ (x.name.length = (x.name ++ 32 :: t).length ∨ x.name.length ≥ varBufSize) := by
    intro h
    rcases h with h | h
    · simp only [List.length_append, List.length_cons] at h; omega
    · exact absurd hlen (Nat.not_lt.2 h)
  rw [restoreLines]
  simp only [hl0, hh, htw, hlen2, hdrop, ↓reduceIte, find_append P R x x.name hP rfl, hx, hr,
    setVar_append P R x x.name w hP rfl]
  simp

/-! ## the text "0" -/

theorem restoreSvalue_zero (F : FloatOps α) (mb : MbLen) : restoreSvalue F mb [48] = .ok (.int 0) := by
  have h := parseNumeric_digits F 48 [] [] rfl (by simp) (Or.inl rfl)
  rw [accDigits_nil] at h
  have h0 : toInt64 false (48 - 48) = 0 := by unfold toInt64; simp
  rw [h0] at h
  simp only [List.append_nil] at h
  simp [restoreSvalue, numStart, isDigit, h]

/-- only the integer 0 is written as "0" -/
theorem save_eq_zero (F : FloatOps α) (mb : MbLen) (v : Value α) (hs : Savable F v) (h : save F v = [48]) :
    Equiv F (erase v) (.int 0) := by
  have hz : (saveSize F 0 v).isSome = true := by
    cases v with
    | int n => simp [saveSize]
    | real x => simp [saveSize]
    | str s => simp [save] at h
    | obj => simp [save] at h
    | arr xs => simp [save] at h
    | cls xs => simp [save] at h
    | map ps => simp [save] at h
  obtain ⟨v', hv, he⟩ := restoreSvalue_save F mb v hs hz
  rw [h, restoreSvalue_zero] at hv
  cases hv
  exact he

/-! ## the body of the file -/

/-- a value of the round-trip domain that `svalue_save_size` accepted (nesting within MAX_SAVE_SVALUE_DEPTH; restore
    refuses deeper text since the nesting fix) -/
def SavableD (F : FloatOps α) (v : Value α) : Prop := Savable F v ∧ (saveSize F 0 v).isSome = true


/-- `restore_object(file, 0)` zeroes the non-static variables first -/
def clearVar (v : Var α) : Var α := if v.isStatic then v else { v with val := .int 0 }

theorem saveLines_nz (F : FloatOps α) (z : Bool) : ∀ (ss : List (Var α)),
    (∀ v ∈ ss, nameOK v.name = true) → (∀ v ∈ ss, v.isStatic = false → Savable F v.val) →
    ∀ b ∈ (saveLines F z ss).flatten, b ≠ 0 := by
  intro ss
  induction ss with
  | nil => intro _ _ b hb; simp [saveLines] at hb
  | cons s ss' ih =>
    intro hname hsv b hb
    have ih' := ih (fun v hv => hname v (by simp [hv])) (fun v hv => hsv v (by simp [hv]))
    simp only [saveLines] at hb
    by_cases hst : s.isStatic = true
    · simp only [hst, ↓reduceIte] at hb
      exact ih' b hb
    · have hst' : s.isStatic = false := by simpa using hst
      simp only [hst', Bool.false_eq_true, ↓reduceIte] at hb
      split at hb
      · simp only [List.flatten_cons, List.mem_append, List.mem_cons, List.not_mem_nil, or_false] at hb
        obtain ⟨_, _, hby, _⟩ := nameOK_spec s.name (hname s (by simp))
        rcases hb with (hb | rfl | hb | rfl) | hb
        · exact (hby b hb).2.2
        · omega
        · exact save_nz F s.val (hsv s (by simp) hst') b hb
        · omega
        · exact ih' b hb
      · exact ih' b hb

theorem restoreLines_body (F : FloatOps α) (mb : MbLen) (z : Bool) : ∀ (ss ls P : List (Var α)),
    ls.map (·.name) = ss.map (·.name) → ls.map (·.isStatic) = ss.map (·.isStatic) →
    (∀ v ∈ ss, nameOK v.name = true) → (ss.map (·.name)).Nodup →
    (∀ v ∈ ss, v.isStatic = false → SavableD F v.val) →
    (∀ p ∈ P, p.name ∉ ss.map (·.name)) →
    ∃ rs, restoreLines F mb false (splitLines (saveLines F z ss).flatten) (P ++ ls.map clearVar) =
        .done (P ++ rs) ∧ ObjRestored F ss ls rs := by
  intro ss
  induction ss with
  | nil =>
    intro ls P hn _ _ _ _ _
    cases ls with
    | cons l ls' => simp at hn
    | nil =>
      refine ⟨[], ?_, ObjRestored.nil⟩
      simp [saveLines, splitLines, restoreLines_nil]
  | cons s ss' ih =>
    intro ls P hn hst hname hnd hsv hP
    cases ls with
    | nil => simp at hn
    | cons l ls' =>
      simp only [List.map_cons, List.cons.injEq] at hn hst
      obtain ⟨hln, hn'⟩ := hn
      obtain ⟨hls, hst'⟩ := hst
      have hname' : ∀ v ∈ ss', nameOK v.name = true := fun v hv => hname v (by simp [hv])
      have hsv' : ∀ v ∈ ss', v.isStatic = false → SavableD F v.val := fun v hv => hsv v (by simp [hv])
      rw [List.map_cons, List.nodup_cons] at hnd
      obtain ⟨hsn, hnd'⟩ := hnd
      -- the accumulated prefix after this variable
      have hP' : ∀ y : Var α, y.name = s.name → ∀ p ∈ P ++ [y], p.name ∉ ss'.map (·.name) := by
        intro y hy p hp
        rcases List.mem_append.1 hp with hp | hp
        · have := hP p hp
          simp only [List.map_cons, List.mem_cons, not_or] at this
          exact this.2
        · simp only [List.mem_singleton] at hp
          rw [hp, hy]; exact hsn
      have hPs : ∀ p ∈ P, p.name ≠ s.name := by
        intro p hp
        have := hP p hp
        simp only [List.map_cons, List.mem_cons, not_or] at this
        exact this.1
      by_cases hs : s.isStatic = true
      · -- static: not written, not touched
        have hl : l.isStatic = true := by rw [hls, hs]
        obtain ⟨rs, hrs, ho⟩ := ih ls' (P ++ [l]) hn' hst' hname' hnd' hsv' (hP' l hln)
        refine ⟨l :: rs, ?_, ObjRestored.static s l ss' ls' rs hs hl hln ho⟩
        have e1 : saveLines F z (s :: ss') = saveLines F z ss' := by simp [saveLines, hs]
        have e2 : clearVar l = l := by simp [clearVar, hl]
        rw [e1, List.map_cons, e2]
        simpa using hrs
      · have hs' : s.isStatic = false := by simpa using hs
        have hl : l.isStatic = false := by rw [hls, hs']
        have hsav := hsv s (by simp) hs'
        have e2 : clearVar l = ⟨s.name, false, .int 0⟩ := by
          simp [clearVar, hl, ← hln]
        by_cases hw : (z || save F s.val != [48]) = true
        · -- written
          obtain ⟨w, hw1, hw2⟩ := restoreSvalue_save F mb s.val hsav.1 hsav.2
          obtain ⟨rs, hrs, ho⟩ := ih ls' (P ++ [⟨s.name, false, w⟩]) hn' hst' hname' hnd' hsv'
            (hP' ⟨s.name, false, w⟩ rfl)
          refine ⟨⟨s.name, false, w⟩ :: rs, ?_, ObjRestored.saved s l w ss' ls' rs hs' hl hln hw2 ho⟩
          have e1 : (saveLines F z (s :: ss')).flatten =
              (s.name ++ 32 :: save F s.val) ++ 10 :: (saveLines F z ss').flatten := by
            simp [saveLines, hs', hw]
          obtain ⟨_, _, hby, _⟩ := nameOK_spec s.name (hname s (by simp))
          have hnl : ∀ b ∈ s.name ++ 32 :: save F s.val, b ≠ 10 := by
            intro b hb
            simp only [List.mem_append, List.mem_cons] at hb
            rcases hb with hb | rfl | hb
            · exact (hby b hb).2.1
            · omega
            · exact save_nl F s.val hsav.1 b hb
          rw [e1, splitLines_line _ _ hnl, List.map_cons, e2]
          have hstep := restoreLines_var F mb false P (ls'.map clearVar) ⟨s.name, false, .int 0⟩ (save F s.val)
            (splitLines (saveLines F z ss').flatten) w (hname s (by simp)) hPs rfl hw1
          rw [hstep]
          simpa using hrs
        · -- the text is "0" and zeros are not saved
          have hz : z = false ∧ save F s.val = [48] := by
            cases z <;> simp at hw ⊢
            exact hw
          have he := save_eq_zero F mb s.val hsav.1 hz.2
          obtain ⟨rs, hrs, ho⟩ := ih ls' (P ++ [⟨s.name, false, .int 0⟩]) hn' hst' hname' hnd' hsv'
            (hP' ⟨s.name, false, .int 0⟩ rfl)
          refine ⟨⟨s.name, false, .int 0⟩ :: rs, ?_, ObjRestored.saved s l (.int 0) ss' ls' rs hs' hl hln he ho⟩
          have e1 : saveLines F z (s :: ss') = saveLines F z ss' := by
            simp [saveLines, hs', hz.1, hz.2]
          rw [e1, List.map_cons, e2]
          simpa using hrs

/-! ## the file -/

theorem objSavable_spec (vars : List (Var α)) (h : objSavable vars = true) :
    (∀ v ∈ vars, nameOK v.name = true) ∧ (vars.map (·.name)).Nodup ∧
      (∀ v ∈ vars, v.isStatic = false → savable v.val = true) := by
  simp only [objSavable, Bool.and_eq_true, List.all_eq_true, decide_eq_true_eq, Bool.or_eq_true] at h
  refine ⟨h.1.1, h.1.2, ?_⟩
  intro v hv hs
  rcases h.2 v hv with h' | h'
  · rw [hs] at h'; cases h'
  · exact h'

theorem restoreObject_some (F : FloatOps α) (mb : MbLen) (t : List Byte) (live : List (Var α)) (ht : t ≠ []) :
    restoreObject F mb false (some t) live =
      (1, restoreLines F mb false (splitLines (cstr t)) (live.map clearVar)) := by
  cases t with
  | nil => exact absurd rfl ht
  | cons c r => rfl

/-- **Object round trip.**  save_object writes the variables `vars`; restore_object(file, 0) into an object of
    the same program whose variables currently are `live` succeeds and leaves every static variable untouched and
    every non-static variable holding the saved value (up to `Equiv`, object references as 0) — also the
    variables that were not written because their text is "0". -/
theorem object_roundtrip {α : Type} (F : FloatOps α) (mb : MbLen) (prog : List Byte) (z : Bool)
    (vars live : List (Var α))
    (hprog : ∀ b ∈ prog, b ≠ 10 ∧ b ≠ 0)
    (hs : objSavable vars = true)
    (hf : ∀ v ∈ vars, v.isStatic = false → FloatsOK F v.val)
    (hdp : ∀ v ∈ vars, v.isStatic = false → saveVariable F v.val ≠ SaveOut.tooDeep)
    (hlay : live.map (·.name) = vars.map (·.name) ∧ live.map (·.isStatic) = vars.map (·.isStatic)) :
    ∃ res, restoreObject F mb false (some (saveFileText F prog z vars)) live = (1, RoOut.done res) ∧
      ObjRestored F vars live res := by
  obtain ⟨hname, hnd, hsav⟩ := objSavable_spec vars hs
  have hsv0 : ∀ v ∈ vars, v.isStatic = false → Savable F v.val :=
    fun v hv hst => savable_bridge F v.val (hsav v hv hst) (hf v hv hst)
  have hsv : ∀ v ∈ vars, v.isStatic = false → SavableD F v.val := by
    intro v hv hst
    refine ⟨hsv0 v hv hst, ?_⟩
    have h := hdp v hv hst
    unfold saveVariable at h
    cases hq : saveSize F 0 v.val with
    | none => simp [hq] at h
    | some n => rfl
  obtain ⟨rs, hrs, ho⟩ := restoreLines_body F mb z vars live [] hlay.1 hlay.2 hname hnd hsv (by simp)
  refine ⟨rs, ?_, ho⟩
  have htext : saveFileText F prog z vars = (35 :: 47 :: prog) ++ 10 :: (saveLines F z vars).flatten := by
    simp [saveFileText, headerLine]
  have hnz : ∀ b ∈ saveFileText F prog z vars, b ≠ 0 := by
    intro b hb
    rw [htext] at hb
    simp only [List.mem_append, List.mem_cons] at hb
    rcases hb with (rfl | rfl | hb) | rfl | hb
    · omega
    · omega
    · exact (hprog b hb).2
    · omega
    · exact saveLines_nz F z vars hname hsv0 b hb
  have hnl : ∀ b ∈ 35 :: 47 :: prog, b ≠ 10 := by
    intro b hb
    simp only [List.mem_cons] at hb
    rcases hb with rfl | rfl | hb
    · omega
    · omega
    · exact (hprog b hb).1
  have hcs := cstr_eq_self _ hnz
  have hsplit : splitLines (saveFileText F prog z vars) =
      (35 :: 47 :: prog) :: splitLines (saveLines F z vars).flatten := by
    rw [htext, splitLines_line _ _ hnl]
  have hne : saveFileText F prog z vars ≠ [] := by rw [htext]; simp
  simp only [List.nil_append] at hrs
  rw [restoreObject_some F mb _ live hne, hcs, hsplit, restoreLines_header, hrs]

/-! ## restore_object(file, 1): no clearing -/

/-- what `restore_object(file, 1)` must leave in the object: as `ObjRestored`, but a non-static variable that the
    save did not write (its text is "0" and zeros are not saved) keeps its live value -/
inductive ObjRestoredNC (F : FloatOps α) (z : Bool) : List (Var α) → List (Var α) → List (Var α) → Prop
  | nil : ObjRestoredNC F z [] [] []
  | static (s l : Var α) (ss ls rs : List (Var α)) : s.isStatic = true → l.isStatic = true → l.name = s.name →
      ObjRestoredNC F z ss ls rs → ObjRestoredNC F z (s :: ss) (l :: ls) (l :: rs)
  | saved (s l : Var α) (x : Value α) (ss ls rs : List (Var α)) : s.isStatic = false → l.isStatic = false →
      l.name = s.name → (z = true ∨ save F s.val ≠ [48]) → Equiv F (erase s.val) x →
      ObjRestoredNC F z ss ls rs → ObjRestoredNC F z (s :: ss) (l :: ls) (⟨s.name, false, x⟩ :: rs)
  | kept (s l : Var α) (ss ls rs : List (Var α)) : s.isStatic = false → l.isStatic = false → l.name = s.name →
      z = false → save F s.val = [48] → ObjRestoredNC F z ss ls rs →
      ObjRestoredNC F z (s :: ss) (l :: ls) (l :: rs)

theorem restoreLines_body_nc (F : FloatOps α) (mb : MbLen) (z : Bool) : ∀ (ss ls P : List (Var α)),
    ls.map (·.name) = ss.map (·.name) → ls.map (·.isStatic) = ss.map (·.isStatic) →
    (∀ v ∈ ss, nameOK v.name = true) → (ss.map (·.name)).Nodup →
    (∀ v ∈ ss, v.isStatic = false → SavableD F v.val) →
    (∀ p ∈ P, p.name ∉ ss.map (·.name)) →
    ∃ rs, restoreLines F mb true (splitLines (saveLines F z ss).flatten) (P ++ ls) =
        .done (P ++ rs) ∧ ObjRestoredNC F z ss ls rs := by
  intro ss
  induction ss with
  | nil =>
    intro ls P hn _ _ _ _ _
    cases ls with
    | cons l ls' => simp at hn
    | nil =>
      refine ⟨[], ?_, ObjRestoredNC.nil⟩
      simp [saveLines, splitLines, restoreLines_nil]
  | cons s ss' ih =>
    intro ls P hn hst hname hnd hsv hP
    cases ls with
    | nil => simp at hn
    | cons l ls' =>
      simp only [List.map_cons, List.cons.injEq] at hn hst
      obtain ⟨hln, hn'⟩ := hn
      obtain ⟨hls, hst'⟩ := hst
      have hname' : ∀ v ∈ ss', nameOK v.name = true := fun v hv => hname v (by simp [hv])
      have hsv' : ∀ v ∈ ss', v.isStatic = false → SavableD F v.val := fun v hv => hsv v (by simp [hv])
      rw [List.map_cons, List.nodup_cons] at hnd
      obtain ⟨hsn, hnd'⟩ := hnd
      have hP' : ∀ y : Var α, y.name = s.name → ∀ p ∈ P ++ [y], p.name ∉ ss'.map (·.name) := by
        intro y hy p hp
        rcases List.mem_append.1 hp with hp | hp
        · have := hP p hp
          simp only [List.map_cons, List.mem_cons, not_or] at this
          exact this.2
        · simp only [List.mem_singleton] at hp
          rw [hp, hy]; exact hsn
      have hPl : ∀ p ∈ P, p.name ≠ l.name := by
        intro p hp
        have := hP p hp
        simp only [List.map_cons, List.mem_cons, not_or] at this
        rw [hln]; exact this.1
      by_cases hs : s.isStatic = true
      · have hl : l.isStatic = true := by rw [hls, hs]
        obtain ⟨rs, hrs, ho⟩ := ih ls' (P ++ [l]) hn' hst' hname' hnd' hsv' (hP' l hln)
        refine ⟨l :: rs, ?_, ObjRestoredNC.static s l ss' ls' rs hs hl hln ho⟩
        have e1 : saveLines F z (s :: ss') = saveLines F z ss' := by simp [saveLines, hs]
        rw [e1]
        simpa using hrs
      · have hs' : s.isStatic = false := by simpa using hs
        have hl : l.isStatic = false := by rw [hls, hs']
        have hsav := hsv s (by simp) hs'
        by_cases hw : (z || save F s.val != [48]) = true
        · obtain ⟨w, hw1, hw2⟩ := restoreSvalue_save F mb s.val hsav.1 hsav.2
          have hcond : z = true ∨ save F s.val ≠ [48] := by
            cases z <;> simp at hw ⊢
            exact hw
          obtain ⟨rs, hrs, ho⟩ := ih ls' (P ++ [⟨s.name, false, w⟩]) hn' hst' hname' hnd' hsv'
            (hP' ⟨s.name, false, w⟩ rfl)
          refine ⟨⟨s.name, false, w⟩ :: rs, ?_,
            ObjRestoredNC.saved s l w ss' ls' rs hs' hl hln hcond hw2 ho⟩
          have e1 : (saveLines F z (s :: ss')).flatten =
              (l.name ++ 32 :: save F s.val) ++ 10 :: (saveLines F z ss').flatten := by
            simp [saveLines, hs', hw, hln]
          have hlname : nameOK l.name = true := by rw [hln]; exact hname s (by simp)
          obtain ⟨_, _, hby, _⟩ := nameOK_spec l.name hlname
          have hnl : ∀ b ∈ l.name ++ 32 :: save F s.val, b ≠ 10 := by
            intro b hb
            simp only [List.mem_append, List.mem_cons] at hb
            rcases hb with hb | rfl | hb
            · exact (hby b hb).2.1
            · omega
            · exact save_nl F s.val hsav.1 b hb
          rw [e1, splitLines_line _ _ hnl]
          have hstep := restoreLines_var F mb true P ls' l (save F s.val)
            (splitLines (saveLines F z ss').flatten) w hlname hPl hl hw1
          rw [hstep]
          have e3 : ({ l with val := w } : Var α) = ⟨s.name, false, w⟩ := by rw [hln, hl]
          rw [e3]
          simpa using hrs
        · have hz : z = false ∧ save F s.val = [48] := by
            cases z <;> simp at hw ⊢
            exact hw
          obtain ⟨rs, hrs, ho⟩ := ih ls' (P ++ [l]) hn' hst' hname' hnd' hsv' (hP' l hln)
          refine ⟨l :: rs, ?_, ObjRestoredNC.kept s l ss' ls' rs hs' hl hln hz.1 hz.2 ho⟩
          have e1 : saveLines F z (s :: ss') = saveLines F z ss' := by
            simp [saveLines, hs', hz.1, hz.2]
          rw [e1]
          simpa using hrs

theorem restoreObject_some_nc (F : FloatOps α) (mb : MbLen) (t : List Byte) (live : List (Var α)) (ht : t ≠ []) :
    restoreObject F mb true (some t) live = (1, restoreLines F mb true (splitLines (cstr t)) live) := by
  cases t with
  | nil => exact absurd rfl ht
  | cons c r => rfl

/-- **Object round trip without clearing** (`restore_object(file, 1)`): static variables untouched, every
    written variable holds the saved value, a variable that was not written (text "0", zeros not saved) keeps its
    live value. -/
theorem object_roundtrip_noclear {α : Type} (F : FloatOps α) (mb : MbLen) (prog : List Byte) (z : Bool)
    (vars live : List (Var α))
    (hprog : ∀ b ∈ prog, b ≠ 10 ∧ b ≠ 0)
    (hs : objSavable vars = true)
    (hf : ∀ v ∈ vars, v.isStatic = false → FloatsOK F v.val)
    (hdp : ∀ v ∈ vars, v.isStatic = false → saveVariable F v.val ≠ SaveOut.tooDeep)
    (hlay : live.map (·.name) = vars.map (·.name) ∧ live.map (·.isStatic) = vars.map (·.isStatic)) :
    ∃ res, restoreObject F mb true (some (saveFileText F prog z vars)) live = (1, RoOut.done res) ∧
      ObjRestoredNC F z vars live res := by
  obtain ⟨hname, hnd, hsav⟩ := objSavable_spec vars hs
  have hsv0 : ∀ v ∈ vars, v.isStatic = false → Savable F v.val :=
    fun v hv hst => savable_bridge F v.val (hsav v hv hst) (hf v hv hst)
  have hsv : ∀ v ∈ vars, v.isStatic = false → SavableD F v.val := by
    intro v hv hst
    refine ⟨hsv0 v hv hst, ?_⟩
    have h := hdp v hv hst
    unfold saveVariable at h
    cases hq : saveSize F 0 v.val with
    | none => simp [hq] at h
    | some n => rfl
  obtain ⟨rs, hrs, ho⟩ := restoreLines_body_nc F mb z vars live [] hlay.1 hlay.2 hname hnd hsv (by simp)
  refine ⟨rs, ?_, ho⟩
  have htext : saveFileText F prog z vars = (35 :: 47 :: prog) ++ 10 :: (saveLines F z vars).flatten := by
    simp [saveFileText, headerLine]
  have hnz : ∀ b ∈ saveFileText F prog z vars, b ≠ 0 := by
    intro b hb
    rw [htext] at hb
    simp only [List.mem_append, List.mem_cons] at hb
    rcases hb with (rfl | rfl | hb) | rfl | hb
    · omega
    · omega
    · exact (hprog b hb).2
    · omega
    · exact saveLines_nz F z vars hname hsv0 b hb
  have hnl : ∀ b ∈ 35 :: 47 :: prog, b ≠ 10 := by
    intro b hb
    simp only [List.mem_cons] at hb
    rcases hb with rfl | rfl | hb
    · omega
    · omega
    · exact (hprog b hb).1
  have hcs := cstr_eq_self _ hnz
  have hsplit : splitLines (saveFileText F prog z vars) =
      (35 :: 47 :: prog) :: splitLines (saveLines F z vars).flatten := by
    rw [htext, splitLines_line _ _ hnl]
  have hne : saveFileText F prog z vars ≠ [] := by rw [htext]; simp
  simp only [List.nil_append] at hrs
  rw [restoreObject_some_nc F mb _ live hne, hcs, hsplit, restoreLines_header, hrs]

/-! ## non-vacuity -/

/-- a static variable, a variable with a deeply nested value, a variable holding 0 (not written unless
    save_zeros) -/
def objExample : List (Var Unit) :=
  [⟨[115], true, .obj⟩, ⟨[118, 97], false, deepExample⟩, ⟨[122], false, .int 0⟩]

/-- the object at restore time: same layout, other values -/
def objLive : List (Var Unit) :=
  [⟨[115], true, .str [120]⟩, ⟨[118, 97], false, .int 5⟩, ⟨[122], false, .str []⟩]

theorem objExample_savable : objSavable objExample = true := by decide

theorem objExample_floats : ∀ v ∈ objExample, v.isStatic = false → FloatsOK rtF v.val := by
  intro v hv _
  simp only [objExample, List.mem_cons, List.not_mem_nil, or_false] at hv
  rcases hv with rfl | rfl | rfl
  · simp [FloatsOK]
  · exact deepExample_floatsOK
  · simp [FloatsOK]

theorem objExample_depth : ∀ v ∈ objExample, v.isStatic = false → saveVariable rtF v.val ≠ SaveOut.tooDeep := by
  intro v hv _
  simp only [objExample, List.mem_cons, List.not_mem_nil, or_false] at hv
  rcases hv with rfl | rfl | rfl
  · simp [saveVariable, saveSize]; split <;> simp
  · exact deepExample_withinDepth
  · simp [saveVariable, saveSize]; split <;> simp

example (mb : MbLen) (z : Bool) :
    ∃ res, restoreObject rtF mb false (some (saveFileText rtF [97, 47, 98] z objExample)) objLive =
        (1, RoOut.done res) ∧ ObjRestored rtF objExample objLive res :=
  object_roundtrip rtF mb [97, 47, 98] z objExample objLive (by decide) objExample_savable objExample_floats
    objExample_depth ⟨rfl, rfl⟩

/-- the same object restored without clearing: with `z = false` the variable `[122]` (saved value 0, not
    written) keeps its live value `""` -/
example (mb : MbLen) (z : Bool) :
    ∃ res, restoreObject rtF mb true (some (saveFileText rtF [97, 47, 98] z objExample)) objLive =
        (1, RoOut.done res) ∧ ObjRestoredNC rtF z objExample objLive res :=
  object_roundtrip_noclear rtF mb [97, 47, 98] z objExample objLive (by decide) objExample_savable
    objExample_floats objExample_depth ⟨rfl, rfl⟩

end NV.C16
