/-
C16 — memory safety of the restore side of the model: `restoreSvalue` never produces `Res.crash`.

The value pass (`rdElems` / `rdMap` / `rdNested`) is safe because it stays in sync with the size pre-pass `pre`:
the main lemma `pre_sync` is an induction over the fuel of the pre-pass.
-/
import NV.C16.Model

namespace NV.C16.Total

set_option linter.unusedSimpArgs false
set_option linter.unusedVariables false

variable {α : Type}

/-! ## strings -/

theorem skipStr_cons (c : Byte) (r : List Byte) : skipStr (c :: r) =
    if c = 34 then some r else if c = 92 then (match r with | [] => none | _ :: r' => skipStr r') else skipStr r := by
  rw [skipStr.eq_def]; rfl

theorem decodeStr_cons (c : Byte) (r : List Byte) : decodeStr (c :: r) =
    if c = 34 then some ([], r)
    else if c = 92 then
      (match r with
       | [] => none
       | x :: r' => (decodeStr r').map (fun p => (x :: p.1, p.2)))
    else (decodeStr r).map (fun p => ((if c = 13 then 10 else c) :: p.1, p.2)) := by
  rw [decodeStr.eq_def]; rfl

theorem skipStr_decode : ∀ (r r' : List Byte), skipStr r = some r' → ∃ str, decodeStr r = some (str, r') := by
  intro r
  induction r using skipStr.induct with
  | case1 => intro r' h; simp [skipStr] at h
  | case2 r =>
    intro r' h
    simp [skipStr_cons] at h
    subst h
    exact ⟨[], by simp [decodeStr_cons]⟩
  | case3 hc =>
    intro r' h
    simp [skipStr_cons] at h
  | case4 x r2 hc ih =>
    intro r' h
    simp [skipStr_cons] at h
    obtain ⟨str, hs⟩ := ih r' h
    exact ⟨x :: str, by simp [decodeStr_cons, hs]⟩
  | case5 c r hc hc2 ih =>
    intro r' h
    simp only [skipStr_cons, hc, hc2, if_false] at h
    obtain ⟨str, hs⟩ := ih r' h
    exact ⟨(if c = 13 then 10 else c) :: str, by simp [decodeStr_cons, hc, hc2, hs]⟩

theorem skipStr_append (p q : List Byte) (hp : ∀ b ∈ p, b ≠ 34 ∧ b ≠ 92) : skipStr (p ++ q) = skipStr q := by
  induction p with
  | nil => rfl
  | cons b p ih =>
    have hb := hp b (by simp)
    have := ih (fun x hx => hp x (by simp [hx]))
    simp [skipStr_cons, hb.1, hb.2, this]

theorem skipStr_drop (mb : MbLen) (c : Byte) (r : List Byte) (n : Nat) (hc : 128 ≤ c)
    (hn : mb.len (c :: r) = some n) : skipStr (c :: r) = skipStr ((c :: r).drop n) := by
  have hpos := mb.pos _ _ hn (by simp)
  have hcont := mb.cont _ _ hn
  obtain ⟨m, rfl⟩ : ∃ m, n = m + 1 := ⟨n - 1, by omega⟩
  simp only [List.take_succ_cons, List.drop_succ_cons, List.drop_one, List.tail_cons, List.drop_zero] at hcont ⊢
  have h1 : skipStr (c :: r) = skipStr r := by
    have h34 : c ≠ 34 := by omega
    have h92 : c ≠ 92 := by omega
    simp [skipStr_cons, h34, h92]
  rw [h1]
  conv => lhs; rw [← List.take_append_drop m r]
  apply skipStr_append
  intro b hb
  have := hcont b hb
  omega

theorem skipStrMb_closed (mb : MbLen) : ∀ (fuel : Nat) (r r' : List Byte),
    skipStrMb mb fuel r = MbScan.closed r' → skipStr r = some r' := by
  intro fuel
  induction fuel with
  | zero => intro r r' h; simp [skipStrMb] at h
  | succ fuel ih =>
    intro r r' h
    cases r with
    | nil => simp [skipStrMb] at h
    | cons c r =>
      by_cases hc : c = 34
      · subst hc
        simp [skipStrMb] at h
        simp [skipStr_cons, h]
      · by_cases hlt : c < 128
        · have hlen : mbStep mb (c :: r) = 1 := by simp [mbStep, mb.ascii c r hlt]
          simp only [skipStrMb, hc, if_false, hlen, List.drop_succ_cons, List.drop_zero] at h
          by_cases hc2 : c = 92
          · subst hc2
            cases r with
            | nil => simp at h
            | cons x r2 =>
              simp only [if_true] at h
              simp [skipStr_cons]
              exact ih _ _ h
          · simp only [hc2, if_false] at h
            simp [skipStr_cons, hc, hc2]
            exact ih _ _ h
        · have hc2 : c ≠ 92 := by omega
          simp only [skipStrMb, hc, hc2, if_false] at h
          cases hn : mb.len (c :: r) with
          | none =>
            simp only [mbStep, hn, Option.getD_none, List.drop_succ_cons, List.drop_zero] at h
            simp [skipStr_cons, hc, hc2]
            exact ih _ _ h
          | some n =>
            simp only [mbStep, hn, Option.getD_some] at h
            rw [skipStr_drop mb c r n (by omega) hn]
            exact ih _ _ h

/-! ## numbers -/

/-- `rem` is a suffix of `s` and the part in front of it contains neither `,` nor `:` -/
def Pfx (s rem : List Byte) : Prop := ∃ p, s = p ++ rem ∧ ∀ b ∈ p, b ≠ 44 ∧ b ≠ 58

theorem Pfx.refl (s : List Byte) : Pfx s s := ⟨[], by simp⟩

theorem Pfx.cons {s rem : List Byte} (b : Byte) (h : Pfx s rem) (hb : b ≠ 44 ∧ b ≠ 58) : Pfx (b :: s) rem := by
  obtain ⟨p, rfl, hp⟩ := h
  refine ⟨b :: p, by simp, ?_⟩
  intro x hx
  simp at hx
  rcases hx with rfl | hx
  · exact hb
  · exact hp x hx

theorem Pfx.trans {a b c : List Byte} (h1 : Pfx a b) (h2 : Pfx b c) : Pfx a c := by
  obtain ⟨p, rfl, hp⟩ := h1
  obtain ⟨q, rfl, hq⟩ := h2
  refine ⟨p ++ q, by simp, ?_⟩
  intro x hx
  simp at hx
  rcases hx with hx | hx
  · exact hp x hx
  · exact hq x hx

theorem isDigit_ne {b : Byte} (h : isDigit b = true) : b ≠ 44 ∧ b ≠ 58 := by
  simp [isDigit] at h
  omega

theorem Pfx.spanLoop (s : List Byte) : ∀ acc, Pfx s (List.span.loop isDigit s acc).2 := by
  induction s with
  | nil => intro acc; simp [List.span.loop]; exact Pfx.refl _
  | cons b s ih =>
    intro acc
    by_cases hb : isDigit b = true
    · simp only [List.span.loop, hb]
      exact Pfx.cons b (ih _) (isDigit_ne hb)
    · simp only [List.span.loop, hb]
      exact Pfx.refl _

theorem Pfx.span (s : List Byte) : Pfx s (s.span isDigit).2 := Pfx.spanLoop s []

theorem parseExp_pfx (F : FloatOps α) (s : List Byte) (pw : α → α) (rem : List Byte)
    (h : parseExp F s = some (pw, rem)) : Pfx s rem := by
  unfold parseExp at h
  split at h
  · simp at h
    rw [← h.2]
    exact Pfx.cons _ (Pfx.span _) (by omega)
  · simp at h
    rw [← h.2]
    exact Pfx.cons _ (Pfx.span _) (by omega)
  · simp at h

theorem afterDelim_pfx (d : Byte) (hd : d = 44 ∨ d = 58) (s r' : List Byte) (h : Pfx s (d :: r')) :
    afterDelim d s = some r' := by
  obtain ⟨p, rfl, hp⟩ := h
  induction p with
  | nil => simp [afterDelim]
  | cons b p ih =>
    have hb := hp b (by simp)
    have hne : b ≠ d := by omega
    simp [afterDelim, hne]
    exact ih (fun x hx => hp x (by simp [hx]))

theorem parseNumeric_pfx (F : FloatOps α) (c : Byte) (s : List Byte) (v : Value α) (rem : List Byte)
    (h : parseNumeric F c s = some (v, rem)) : Pfx s rem := by
  unfold parseNumeric at h
  simp only at h
  split at h
  · simp at h
  · rename_i neg c' s' hstart
    have hs : Pfx s s' := by
      split at hstart
      · split at hstart
        · rename_i d r
          split at hstart
          · rename_i hd
            simp at hstart
            rw [← hstart.2.2]
            exact Pfx.cons d (Pfx.refl _) (isDigit_ne hd)
          · simp at hstart
        · simp at hstart
      · simp at hstart
        rw [hstart.2.2]
        exact Pfx.refl _
    refine Pfx.trans hs ?_
    have hp := Pfx.span s'
    split at h
    · rename_i s1 hp2
      rw [hp2] at hp
      refine Pfx.trans hp (Pfx.cons _ ?_ (by omega))
      split at h
      · rename_i d r1
        split at h
        · rename_i hd
          have hq := Pfx.span (d :: r1)
          split at h
          · rename_i s2 hq2
            rw [hq2] at hq
            refine Pfx.trans hq (Pfx.cons _ ?_ (by omega))
            split at h
            · rename_i pw rem' hpe
              simp at h
              rw [← h.2]
              exact parseExp_pfx F _ _ _ hpe
            · simp at h
          · simp at h
            rw [← h.2]
            exact hq
        · simp at h
      · simp at h
    · rename_i s2 hp2
      rw [hp2] at hp
      refine Pfx.trans hp (Pfx.cons _ ?_ (by omega))
      split at h
      · rename_i pw rem' hpe
        simp at h
        rw [← h.2]
        exact parseExp_pfx F _ _ _ hpe
      · simp at h
    · simp at h
      rw [← h.2]
      exact hp

/-! ## the value pass, one element at a time -/

abbrev ERes (α : Type) := Res (Value α × List Byte × List Nat)

/-- one element of the value pass (the part that is common to restore_array, restore_class and the key and value
    halves of restore_mapping): `d` is the delimiter, `es` the error of an unterminated string, `g` the generic error -/
def elemStep (F : FloatOps α) (fuel : Nat) (d : Byte) (es g : RErr) (c : Byte) (r : List Byte) (zs : List Nat) :
    ERes α :=
  if c = 34 then
    match decodeStr r with
    | none => .err es
    | some (str, r') =>
      match advCur (some r') with
      | .ok r'' => .ok (.str str, r'', zs)
      | .err e => .err e
      | .crash => .crash
      | .stuck => .stuck
  else if c = 40 then
    match rdNested F fuel r zs with
    | .ok st =>
      match advCur st.cur with
      | .ok r'' => .ok (st.val, r'', st.zs)
      | .err e => .err e
      | .crash => .crash
      | .stuck => .stuck
    | .err e => .err (match e with | .general => g | e => e)
    | .crash => .crash
    | .stuck => .stuck
  else if c = d then .ok (.int 0, r, zs)
  else if numStart c then
    match parseNumeric F c r with
    | some (v, d' :: r') => if d' = d then .ok (v, r', zs) else .err .numeral
    | _ => .err .numeral
  else .err g

theorem rdElems_step (F : FloatOps α) (fuel : Nat) (c : Byte) (r : List Byte) (n : Nat) (zs : List Nat)
    (acc : Vals α) (g : RErr) :
    rdElems F (fuel + 1) (c :: r) (n + 1) zs acc g =
      match elemStep F fuel 44 g g c r zs with
      | .ok (v, r'', z) => rdElems F fuel r'' n z (acc.snoc v) g
      | .err e => .err e
      | .crash => .crash
      | .stuck => .stuck := by
  rw [rdElems.eq_def]
  simp only [elemStep]
  by_cases h34 : c = 34
  · simp only [h34, if_true]
    cases hd : decodeStr r with
    | none => simp
    | some p =>
      obtain ⟨str, r'⟩ := p
      cases r' <;> simp [advCur]
  · by_cases h44 : c = 44
    · simp [h44]
    · by_cases h40 : c = 40
      · simp only [h34, h44, h40, if_false, if_true]
        simp only [show (40 : Nat) = 34 ↔ False by decide, show (40 : Nat) = 44 ↔ False by decide, if_false]
        cases hn : rdNested F fuel r zs with
        | ok st =>
          obtain ⟨v, cur, z⟩ := st
          cases cur with
          | none => simp [advCur]
          | some r' => cases r' <;> simp [advCur]
        | err e => simp; cases e <;> rfl
        | crash => simp
        | stuck => simp
      · simp only [h34, h44, h40, if_false]
        by_cases hns : numStart c = true
        · simp only [hns, if_true]
          cases hp : parseNumeric F c r with
          | none => simp
          | some p =>
            obtain ⟨v, rem⟩ := p
            cases rem with
            | nil => simp
            | cons d' r' =>
              by_cases hd : d' = 44 <;> simp [hd]
        · simp [hns]

/-- the key half (`dl = 58`) and the value half (`dl = 44`) of one iteration of restore_mapping, copied from `rdMap` -/
def kvRaw (F : FloatOps α) (fuel : Nat) (dl : Byte) (c : Byte) (r : List Byte) (zs : List Nat) : Res (Step (Value α)) :=
  if c = 34 then
    match decodeStr r with
    | none => .err .string
    | some (str, r') =>
      match advCur (some r') with
      | .ok r'' => .ok ⟨.str str, some r'', zs⟩
      | .err e => .err e
      | .crash => .crash
      | .stuck => .stuck
  else if c = 40 then
    match rdNested F fuel r zs with
    | .ok st =>
      match advCur st.cur with
      | .ok r'' => .ok ⟨st.val, some r'', st.zs⟩
      | .err e => .err e
      | .crash => .crash
      | .stuck => .stuck
    | .err e => .err (match e with | .general => .mapping | e => e)
    | .crash => .crash
    | .stuck => .stuck
  else if c = dl then .ok ⟨.int 0, some r, zs⟩
  else if numStart c then
    match parseNumeric F c r with
    | some (v, d :: r') => if d = dl then .ok ⟨v, some r', zs⟩ else .err .numeral
    | _ => .err .numeral
  else .err .mapping

/-- the rest of an iteration of restore_mapping once the key has been read -/
def mapVal (F : FloatOps α) (fuel : Nat) (cur : List Byte) (zs : List Nat) (acc : Pairs α) (kv : Value α) :
    Res (Step (Pairs α)) :=
  match cur with
  | [] => .err .mapping
  | c2 :: r2 =>
    match kvRaw F fuel 44 c2 r2 zs with
    | .err e => .err e
    | .crash => .crash
    | .stuck => .stuck
    | .ok vs =>
      match vs.cur with
      | none => .crash
      | some r3 => rdMap F fuel r3 vs.zs (insertKV F acc kv vs.val)

def rdMapBody (F : FloatOps α) (fuel : Nat) (s : List Byte) (zs : List Nat) (acc : Pairs α) : Res (Step (Pairs α)) :=
  match s with
  | [] => .err .mapping
  | c :: r =>
    if c = 93 then
      match r with
      | _ :: r' => .ok ⟨acc, some r', zs⟩
      | [] => .ok ⟨acc, none, zs⟩
    else
      match kvRaw F fuel 58 c r zs with
      | .err e => .err e
      | .crash => .crash
      | .stuck => .stuck
      | .ok ks =>
        match ks.cur with
        | none => .crash
        | some cur => mapVal F fuel cur ks.zs acc ks.val

theorem rdMap_succ (F : FloatOps α) (fuel : Nat) (s : List Byte) (zs : List Nat) (acc : Pairs α) :
    rdMap F (fuel + 1) s zs acc = rdMapBody F fuel s zs acc := by
  rw [rdMap.eq_def]
  cases s with
  | nil => rfl
  | cons c r =>
    simp only [rdMapBody]
    by_cases h93 : c = 93
    · simp only [h93, if_true]
      cases r <;> rfl
    · simp only [h93, if_false]
      have key : ∀ K : Res (Step (Value α)), K = kvRaw F fuel 58 c r zs →
          (match K with
            | .err e => .err e
            | .crash => .crash
            | .stuck => .stuck
            | .ok ks =>
              match ks.cur with
              | none => .crash
              | some [] => .err .mapping
              | some (c2 :: r2) =>
                match kvRaw F fuel 44 c2 r2 ks.zs with
                | .err e => .err e
                | .crash => .crash
                | .stuck => .stuck
                | .ok vs =>
                  match vs.cur with
                  | none => .crash
                  | some r3 => rdMap F fuel r3 vs.zs (insertKV F acc ks.val vs.val)) =
          (match kvRaw F fuel 58 c r zs with
            | .err e => .err e
            | .crash => .crash
            | .stuck => .stuck
            | .ok ks =>
              match ks.cur with
              | none => .crash
              | some cur => mapVal F fuel cur ks.zs acc ks.val : Res (Step (Pairs α))) := by
        intro K hK
        subst hK
        cases kvRaw F fuel 58 c r zs with
        | err e => rfl
        | crash => rfl
        | stuck => rfl
        | ok ks =>
          obtain ⟨kv, cur, z⟩ := ks
          cases cur with
          | none => rfl
          | some cur =>
            cases cur with
            | nil => rfl
            | cons c2 r2 => rfl
      exact key _ rfl

theorem kvRaw_eq (F : FloatOps α) (fuel : Nat) (dl c : Byte) (r : List Byte) (zs : List Nat) :
    kvRaw F fuel dl c r zs =
      match elemStep F fuel dl .string .mapping c r zs with
      | .ok (v, r'', z) => .ok ⟨v, some r'', z⟩
      | .err e => .err e
      | .crash => .crash
      | .stuck => .stuck := by
  simp only [kvRaw, elemStep]
  by_cases h34 : c = 34
  · simp only [h34, if_true]
    cases hd : decodeStr r with
    | none => simp
    | some p =>
      obtain ⟨str, r'⟩ := p
      cases r' <;> simp [advCur]
  · by_cases h40 : c = 40
    · simp only [h34, h40, if_false, if_true]
      simp only [show (40 : Nat) = 34 ↔ False by decide, if_false]
      cases hn : rdNested F fuel r zs with
      | ok st =>
        obtain ⟨v, cur, z⟩ := st
        cases cur with
        | none => simp [advCur]
        | some r' => cases r' <;> simp [advCur]
      | err e => simp
      | crash => simp
      | stuck => simp
    · simp only [h34, h40, if_false]
      by_cases hdl : c = dl
      · simp [hdl]
      · simp only [hdl, if_false]
        by_cases hns : numStart c = true
        · simp only [hns, if_true]
          cases hp : parseNumeric F c r with
          | none => simp
          | some p =>
            obtain ⟨v, rem⟩ := p
            cases rem with
            | nil => simp
            | cons d' r' =>
              by_cases hd : d' = dl <;> simp [hd]
        · simp [hns]

/-! ## the size pre-pass, one element at a time -/

def delimOf (isMap idx : Bool) : Byte := if isMap && !idx then 58 else 44
def idxNext (isMap idx : Bool) : Bool := if isMap then !idx else idx

/-- what one non-closing step of the pre-pass at `c :: r0` has checked: `r'` is where it continues, `stepZs` what
    it appended to the size table -/
def ElemFact (mb : MbLen) (f1 : Nat) (d c : Byte) (r0 : List Byte) (stepZs : List Nat) (r' : List Byte) : Prop :=
  (c = 34 ∧ stepZs = [] ∧ skipStr r0 = some (d :: r')) ∨
  (c = 40 ∧ ∃ k r1 n' zs', r0 = k :: r1 ∧ (k = 123 ∨ k = 91 ∨ k = 47) ∧
      pre mb f1 false (decide (k = 91)) false r1 0 [] = some (d :: r', n', zs') ∧ stepZs = n' :: zs') ∨
  (c = d ∧ stepZs = [] ∧ r' = r0) ∨
  (c ≠ 34 ∧ c ≠ 40 ∧ c ≠ 93 ∧ c ≠ 44 ∧ c ≠ 58 ∧ stepZs = [] ∧ ∃ l, (c < 128 → l = r0) ∧ afterDelim d l = some r')

theorem pre_inv (mb : MbLen) (f1 : Nat) (top isMap idx : Bool) (c : Byte) (r0 : List Byte) (size : Nat)
    (zs : List Nat) (out : PreOut)
    (h : pre mb (f1 + 1) top isMap idx (c :: r0) size zs = some out) :
    (∃ r', r0 = 41 :: r' ∧ ((c = 93 ∧ isMap = true) ∨ ((c = 47 ∨ c = 125) ∧ isMap = false)) ∧ out = (r', size, zs)) ∨
    (top = true ∧ out = ([], 0, [])) ∨
    (∃ stepZs r', ElemFact mb f1 (delimOf isMap idx) c r0 stepZs r' ∧
      pre mb f1 top isMap (idxNext isMap idx) r' (size + 1) (zs ++ stepZs) = some out) := by
  rw [pre.eq_3] at h
  generalize hL : (if top = true then List.drop (mbStep mb (c :: r0)) (c :: r0) else r0) = l at h
  have hl : c < 128 → l = r0 := by
    intro hc
    subst hL
    cases top with
    | false => simp
    | true => simp [mbStep, mb.ascii c r0 hc]
  clear hL
  have hmain :
    (∃ r', r0 = 41 :: r' ∧ ((c = 93 ∧ isMap = true) ∨ ((c = 47 ∨ c = 125) ∧ isMap = false)) ∧ out = (r', size, zs)) ∨
    (top = true ∧ out = ([], 0, [])) ∨
    (∃ stepZs r', ElemFact mb f1 (delimOf isMap idx) c r0 stepZs r' ∧
      pre mb f1 top isMap (idxNext isMap idx) r' (size + 1) (zs ++ stepZs) = some out) := by
    change (if c = 34 then _ else _) = _ at h
    simp only [delimOf, idxNext]
    generalize (if (isMap && !idx) = true then 58 else 44) = d0 at h ⊢
    generalize (if isMap = true then !idx else idx) = idx' at h ⊢
    by_cases h34 : c = 34
    · have hlr : l = r0 := hl (by omega)
      subst hlr
      clear hl
      simp only [h34, if_true] at h
      cases top with
      | true =>
        simp only [if_true] at h
        split at h
        · right; left
          simp at h
          exact ⟨rfl, h.symm⟩
        · rename_i d r' hsk
          split at h
          · rename_i hd
            right; right
            refine ⟨[], r', Or.inl ⟨h34, rfl, ?_⟩, by simpa using h⟩
            rw [← hd]
            exact skipStrMb_closed mb _ _ _ hsk
          · simp at h
        · simp at h
      | false =>
        simp only [Bool.false_eq_true, if_false] at h
        split at h
        · rename_i d r' hsk
          split at h
          · rename_i hd
            right; right
            refine ⟨[], r', Or.inl ⟨h34, rfl, ?_⟩, by simpa using h⟩
            rw [← hd]
            exact hsk
          · simp at h
        · simp at h
    · simp only [h34, if_false] at h
      by_cases h40 : c = 40
      · have hlr : l = r0 := hl (by omega)
        subst hlr
        clear hl
        simp only [h40, if_true] at h
        split at h
        · rename_i k r1
          split at h
          · rename_i hk
            split at h
            · rename_i d r' n' zs' hpre
              split at h
              · rename_i hd
                right; right
                refine ⟨n' :: zs', r', Or.inr (Or.inl ⟨h40, k, r1, n', zs', rfl, hk, ?_, rfl⟩), h⟩
                rw [← hd]
                exact hpre
              · simp at h
            · simp at h
          · simp at h
        · simp at h
      · simp only [h40, if_false] at h
        by_cases h93 : c = 93
        · have hlr : l = r0 := hl (by omega)
          subst hlr
          clear hl
          simp only [h93, if_true] at h
          split at h
          · rename_i r'
            split at h
            · rename_i hm
              left
              simp at h
              exact ⟨r', rfl, Or.inl ⟨h93, hm⟩, h.symm⟩
            · simp at h
          · simp at h
        · simp only [h93, if_false] at h
          by_cases h47 : c = 47 ∨ c = 125
          · have hlr : l = r0 := hl (by omega)
            subst hlr
            clear hl
            simp only [h47, if_true] at h
            split at h
            · rename_i r'
              split at h
              · rename_i hm
                left
                simp at h hm
                exact ⟨r', rfl, Or.inr ⟨h47, hm⟩, h.symm⟩
              · simp at h
            · simp at h
          · simp only [h47, if_false] at h
            by_cases h58 : c = 58 ∨ c = 44
            · have hlr : l = r0 := hl (by omega)
              subst hlr
              clear hl
              simp only [h58, if_true] at h
              split at h
              · rename_i hd
                right; right
                exact ⟨[], l, Or.inr (Or.inr (Or.inl ⟨hd, rfl, rfl⟩)), by simpa using h⟩
              · simp at h
            · simp only [h58, if_false] at h
              split at h
              · rename_i r' had
                right; right
                refine ⟨[], r', Or.inr (Or.inr (Or.inr ⟨h34, h40, h93, by omega, by omega, rfl, l, hl, had⟩)), by simpa using h⟩
              · simp at h
  exact hmain

/-! ## the value pass stays in sync with the pre-pass -/

/-- a result of the value pass that is not a crash and, when it is a value, ends at `r` with table `more` -/
def Good {β : Type} (r : List Byte) (more : List Nat) : Res (Step β) → Prop
  | .ok st => st.cur = some r ∧ st.zs = more
  | .crash => False
  | _ => True

def EGood (r : List Byte) (more : List Nat) : ERes α → Prop
  | .ok (_, r'', z) => r'' = r ∧ z = more
  | .crash => False
  | _ => True

/-- the value pass started at `s` (where the pre-pass is, in the same state `isMap`, `idx`) with `k` elements to
    go and table `zsAll` ends where the pre-pass ended (`r`), leaving `more` -/
def Sync (F : FloatOps α) (isMap idx : Bool) (s : List Byte) (k : Nat) (zsAll : List Nat) (r : List Byte)
    (more : List Nat) : Prop :=
  match isMap, idx with
  | false, _ => ∀ f2 acc g, Good r more (rdElems F f2 s k zsAll acc g)
  | true, false => ∀ f2 acc, Good r more (rdMap F f2 s zsAll acc)
  | true, true => ∀ f2 acc kv, Good r more (mapVal F f2 s zsAll acc kv)

def PreSync (F : FloatOps α) (mb : MbLen) (f1 : Nat) : Prop :=
  ∀ top isMap idx s size zs r n zsOut, pre mb f1 top isMap idx s size zs = some (r, n, zsOut) →
    (top = true ∧ n = 0) ∨
    (size ≤ n ∧ ∃ zsNew, zsOut = zs ++ zsNew ∧ ∀ more, Sync F isMap idx s (n - size) (zsNew ++ more) r more)

theorem pre_size_le (mb : MbLen) : ∀ (f1 : Nat) (isMap idx : Bool) (s : List Byte) (size : Nat) (zs : List Nat)
    (r : List Byte) (n : Nat) (zsOut : List Nat),
    pre mb f1 false isMap idx s size zs = some (r, n, zsOut) → size ≤ n := by
  intro f1
  induction f1 with
  | zero => intro isMap idx s size zs r n zsOut h; simp [pre] at h
  | succ f1 ih =>
    intro isMap idx s size zs r n zsOut h
    cases s with
    | nil => simp [pre] at h
    | cons c r0 =>
      rcases pre_inv mb f1 _ _ _ c r0 _ _ _ h with ⟨r'', hr0, hc, hout⟩ | ⟨ht, hout⟩ | ⟨stepZs, r'', hf, hrec⟩
      · simp at hout
        omega
      · simp at ht
      · have := ih _ _ _ _ _ _ _ _ hrec
        omega

theorem pre_zero (mb : MbLen) (f1 : Nat) (r1 r' : List Byte) (zs' : List Nat)
    (h : pre mb f1 false true false r1 0 [] = some (r', 0, zs')) : r1 = 93 :: 41 :: r' ∧ zs' = [] := by
  cases f1 with
  | zero => simp [pre] at h
  | succ f1 =>
  cases r1 with
  | nil => simp [pre] at h
  | cons c r0 =>
    rcases pre_inv mb f1 _ _ _ c r0 _ _ _ h with ⟨r'', hr0, hc, hout⟩ | ⟨ht, hout⟩ | ⟨stepZs, r'', hf, hrec⟩
    · simp at hout
      obtain ⟨rfl, rfl⟩ := hout
      rcases hc with ⟨rfl, _⟩ | ⟨_, hm⟩
      · exact ⟨by rw [hr0], rfl⟩
      · simp at hm
    · simp at ht
    · have := pre_size_le mb _ _ _ _ _ _ _ _ _ hrec
      omega

theorem nested_sync (F : FloatOps α) (mb : MbLen) (f1 : Nat) (hP : PreSync F mb f1) (k : Byte) (r1 r' : List Byte)
    (n : Nat) (zs' : List Nat) (hk : k = 123 ∨ k = 91 ∨ k = 47)
    (hpre : pre mb f1 false (decide (k = 91)) false r1 0 [] = some (r', n, zs')) :
    ∀ f2 more, Good r' more (rdNested F f2 (k :: r1) (n :: zs' ++ more) : Res (Step (Value α))) := by
  intro f2 more
  cases f2 with
  | zero => simp [rdNested, Good]
  | succ f2 =>
    rw [rdNested.eq_def]
    simp only [List.cons_append]
    by_cases hk1 : k = 123 ∨ k = 47
    · have hk91 : decide (k = 91) = false := by simp; omega
      rw [hk91] at hpre
      rcases hP _ _ _ _ _ _ _ _ _ hpre with ⟨ht, _⟩ | ⟨_, zsNew, hz, hs⟩
      · simp at ht
      · simp at hz
        subst hz
        have hs := hs more
        simp only [Sync, Nat.sub_zero] at hs
        simp only [hk1, if_true]
        split
        · simp [Good]
        · split
          · simp [Good]
          · have := hs f2 .nil (if k = 123 then .array else .cls)
            revert this
            cases rdElems F f2 r1 n (zs' ++ more) .nil (if k = 123 then .array else .cls) <;> simp [Good]
    · have hk91 : k = 91 := by omega
      subst hk91
      simp only [decide_true] at hpre
      simp only [show ¬ ((91 : Nat) = 123 ∨ (91 : Nat) = 47) by omega, if_false, if_true]
      by_cases hn : n = 0
      · subst hn
        obtain ⟨rfl, rfl⟩ := pre_zero mb f1 _ _ _ hpre
        simp [Good]
      · simp only [hn, if_false]
        rcases hP _ _ _ _ _ _ _ _ _ hpre with ⟨ht, _⟩ | ⟨_, zsNew, hz, hs⟩
        · simp at ht
        · simp at hz
          subst hz
          have hs := hs more
          simp only [Sync, Nat.sub_zero] at hs
          have := hs f2 .nil
          revert this
          cases rdMap F f2 r1 (zs' ++ more) .nil <;> simp [Good]

theorem elemFact_ne93 (mb : MbLen) (f1 : Nat) (d c : Byte) (r0 : List Byte) (stepZs : List Nat) (r' : List Byte)
    (hd : d = 44 ∨ d = 58) (hf : ElemFact mb f1 d c r0 stepZs r') : c ≠ 93 := by
  rcases hf with ⟨h, _⟩ | ⟨h, _⟩ | ⟨h, _⟩ | ⟨_, _, h, _⟩ <;> omega

theorem elem_sync (F : FloatOps α) (mb : MbLen) (f1 : Nat) (hP : PreSync F mb f1) (d c : Byte) (r0 : List Byte)
    (stepZs : List Nat) (r' : List Byte) (hd : d = 44 ∨ d = 58) (hf : ElemFact mb f1 d c r0 stepZs r') :
    ∀ f2 more es g, EGood r' more (elemStep F f2 d es g c r0 (stepZs ++ more) : ERes α) := by
  intro f2 more es g
  rcases hf with ⟨hc, hz, hsk⟩ | ⟨hc, k, r1, n', zs', hr0, hk, hpre, hz⟩ | ⟨hc, hz, hr⟩ |
    ⟨h34, h40, h93, h44, h58, hz, l, hl, had⟩
  · subst hc hz
    obtain ⟨str, hdec⟩ := skipStr_decode _ _ hsk
    simp [elemStep, hdec, advCur, EGood]
  · subst hc hz hr0
    have hn := nested_sync F mb f1 hP k r1 (d :: r') n' zs' hk hpre f2 more
    simp only [List.cons_append] at hn
    simp only [elemStep, show ¬ ((40 : Nat) = 34) by omega, if_false, if_true, List.cons_append]
    revert hn
    cases rdNested F f2 (k :: r1) (n' :: (zs' ++ more)) with
    | ok st =>
      obtain ⟨v, cur, z⟩ := st
      simp only [Good]
      rintro ⟨rfl, rfl⟩
      simp [advCur, EGood]
    | err e => simp [EGood]
    | crash => simp [Good]
    | stuck => simp [EGood]
  · subst hz hr
    have h1 : d ≠ 34 := by omega
    have h2 : d ≠ 40 := by omega
    subst hc
    simp [elemStep, h1, h2, EGood]
  · subst hz
    have hcd : c ≠ d := by omega
    simp only [elemStep, h34, h40, hcd, if_false, List.nil_append]
    by_cases hns : numStart c = true
    · have hlt : c < 128 := by
        simp [numStart, isDigit] at hns
        omega
      have hl := hl hlt
      subst hl
      simp only [hns, if_true]
      cases hp : parseNumeric F c l with
      | none => simp [EGood]
      | some p =>
        obtain ⟨v, rem⟩ := p
        cases rem with
        | nil => simp [EGood]
        | cons d' rem' =>
          by_cases hdd : d' = d
          · subst hdd
            have := afterDelim_pfx d' hd l rem' (parseNumeric_pfx F c l v _ hp)
            rw [this] at had
            simp at had
            simp [EGood, had]
          · simp [hdd, EGood]
    · simp [hns, EGood]

theorem pre_sync (F : FloatOps α) (mb : MbLen) : ∀ f1, PreSync F mb f1 := by
  intro f1
  induction f1 with
  | zero => intro top isMap idx s size zs r n zsOut h; simp [pre] at h
  | succ f1 ih =>
    intro top isMap idx s size zs r n zsOut h
    cases s with
    | nil => simp [pre] at h
    | cons c r0 =>
      rcases pre_inv mb f1 _ _ _ c r0 _ _ _ h with ⟨r', hr0, hc, hout⟩ | ⟨ht, hout⟩ | ⟨stepZs, r', hf, hrec⟩
      · -- the closing bracket
        simp only [Prod.mk.injEq] at hout
        obtain ⟨rfl, rfl, rfl⟩ := hout
        subst hr0
        refine Or.inr ⟨Nat.le_refl _, [], by simp, ?_⟩
        intro more
        simp only [Nat.sub_self, List.nil_append]
        rcases hc with ⟨rfl, rfl⟩ | ⟨hc, rfl⟩
        · cases idx with
          | false =>
            simp only [Sync]
            intro f2 acc
            cases f2 with
            | zero => simp [rdMap, Good]
            | succ f2 => rw [rdMap_succ]; simp [rdMapBody, Good]
          | true =>
            simp only [Sync]
            intro f2 acc kv
            simp [mapVal, kvRaw_eq, elemStep, numStart, isDigit, Good]
        · simp only [Sync]
          intro f2 acc g
          cases f2 with
          | zero => simp [rdElems, Good]
          | succ f2 => simp [rdElems, Good]
      · -- the unterminated string of restore_size
        simp only [Prod.mk.injEq] at hout
        exact Or.inl ⟨ht, hout.2.1⟩
      · rcases ih _ _ _ _ _ _ _ _ _ hrec with h0 | ⟨hle, zsNew', hz, hs⟩
        · exact Or.inl h0
        · refine Or.inr ⟨by omega, stepZs ++ zsNew', by simp [hz], ?_⟩
          intro more
          have hs := hs more
          have hd : delimOf isMap idx = 44 ∨ delimOf isMap idx = 58 := by
            cases isMap <;> cases idx <;> simp [delimOf]
          have he := elem_sync F mb f1 ih _ c r0 stepZs r' hd hf
          have h93 := elemFact_ne93 mb f1 _ c r0 stepZs r' hd hf
          simp only [List.append_assoc]
          cases isMap with
          | false =>
            simp only [Sync] at hs ⊢
            intro f2 acc g
            have hk : n - size = (n - (size + 1)) + 1 := by omega
            rw [hk]
            cases f2 with
            | zero => simp [rdElems, Good]
            | succ f2 =>
              rw [rdElems_step]
              have he' := he f2 (zsNew' ++ more) g g
              simp only [delimOf, Bool.false_and, Bool.false_eq_true, if_false] at he'
              revert he'
              cases elemStep F f2 44 g g c r0 (stepZs ++ (zsNew' ++ more)) with
              | ok p =>
                obtain ⟨v, r'', z⟩ := p
                simp only [EGood]
                rintro ⟨rfl, rfl⟩
                exact hs f2 _ g
              | err e => simp [Good]
              | crash => simp [EGood]
              | stuck => simp [Good]
          | true =>
            cases idx with
            | false =>
              simp only [Sync, idxNext, if_true, Bool.not_false] at hs ⊢
              intro f2 acc
              cases f2 with
              | zero => simp [rdMap, Good]
              | succ f2 =>
                rw [rdMap_succ]
                simp only [rdMapBody, h93, if_false, kvRaw_eq]
                have he' := he f2 (zsNew' ++ more) .string .mapping
                simp only [delimOf, Bool.true_and, Bool.not_false, if_true] at he'
                revert he'
                cases elemStep F f2 58 .string .mapping c r0 (stepZs ++ (zsNew' ++ more)) with
                | ok p =>
                  obtain ⟨v, r'', z⟩ := p
                  simp only [EGood]
                  rintro ⟨rfl, rfl⟩
                  exact hs f2 _ _
                | err e => simp [Good]
                | crash => simp [EGood]
                | stuck => simp [Good]
            | true =>
              simp only [Sync, idxNext, if_true, Bool.not_true] at hs ⊢
              intro f2 acc kv
              simp only [mapVal, kvRaw_eq]
              have he' := he f2 (zsNew' ++ more) .string .mapping
              simp only [delimOf, Bool.true_and, Bool.not_true, Bool.false_eq_true, if_false] at he'
              revert he'
              cases elemStep F f2 44 .string .mapping c r0 (stepZs ++ (zsNew' ++ more)) with
              | ok p =>
                obtain ⟨v, r'', z⟩ := p
                simp only [EGood]
                rintro ⟨rfl, rfl⟩
                exact hs f2 _
              | err e => simp [Good]
              | crash => simp [EGood]
              | stuck => simp [Good]

/-! ## entry points -/

theorem good_ne_crash {β : Type} {r : List Byte} {more : List Nat} {x : Res (Step β)} (h : Good r more x) :
    x ≠ .crash := by
  intro hx
  subst hx
  exact h

/-- the nesting test of restore_internal_size only ADDS refusals: whenever the pre-pass as coded (`preD`) accepts a
    text, the pre-pass without the test (`pre`) accepts it with the same result — so everything proved about an
    accepted pre-pass (`pre_sync`) carries over -/
theorem preD_pre (mb : MbLen) : ∀ (fuel nest : Nat) (top isMap idx : Bool) (s : List Byte) (size : Nat)
    (zs : List Nat) (out : PreOut),
    preD mb fuel nest top isMap idx s size zs = some out → pre mb fuel top isMap idx s size zs = some out := by
  intro fuel
  induction fuel with
  | zero => intro nest top isMap idx s size zs out h; simp [preD] at h
  | succ f ih =>
    intro nest top isMap idx s size zs out h
    cases s with
    | nil => simp [preD] at h
    | cons c r0 =>
      rw [preD.eq_3] at h
      rw [pre.eq_3]
      by_cases hlim : (!top && decide (nest > maxDepth)) = true
      · rw [if_pos hlim] at h
        simp at h
      · rw [if_neg hlim] at h
        generalize hL : (if top = true then List.drop (mbStep mb (c :: r0)) (c :: r0) else r0) = l at h ⊢
        simp only at h ⊢
        generalize (if (isMap && !idx) = true then 58 else 44) = d0 at h ⊢
        generalize (if isMap = true then !idx else idx) = idx' at h ⊢
        by_cases h34 : c = 34
        · simp only [h34, if_true] at h ⊢
          cases top with
          | true =>
            simp only [if_true] at h ⊢
            cases hsk : skipStrMb mb (l.length + 1) l with
            | open_ => simpa [hsk] using h
            | closed t =>
              cases t with
              | nil => simp [hsk] at h
              | cons d r' =>
                simp only [hsk] at h ⊢
                by_cases hd : d = d0
                · simp only [hd, if_true] at h ⊢
                  exact ih _ _ _ _ _ _ _ _ h
                · simp [hd] at h
          | false =>
            simp only [Bool.false_eq_true, if_false] at h ⊢
            cases hsk : skipStr l with
            | none => simp [hsk] at h
            | some t =>
              cases t with
              | nil => simp [hsk] at h
              | cons d r' =>
                simp only [hsk] at h ⊢
                by_cases hd : d = d0
                · simp only [hd, if_true] at h ⊢
                  exact ih _ _ _ _ _ _ _ _ h
                · simp [hd] at h
        · simp only [h34, if_false] at h ⊢
          by_cases h40 : c = 40
          · simp only [h40, if_true] at h ⊢
            cases l with
            | nil => simp at h
            | cons k r1 =>
              simp only at h ⊢
              by_cases hk : k = 123 ∨ k = 91 ∨ k = 47
              · simp only [hk, if_true] at h ⊢
                cases hq : preD mb f (nest + 1) false (decide (k = 91)) false r1 0 [] with
                | none => simp [hq] at h
                | some q =>
                  obtain ⟨t, n, zs'⟩ := q
                  have hp := ih _ _ _ _ _ _ _ _ hq
                  cases t with
                  | nil => simp [hq] at h
                  | cons d r' =>
                    simp only [hq, hp] at h ⊢
                    by_cases hd : d = d0
                    · simp only [hd, if_true] at h ⊢
                      exact ih _ _ _ _ _ _ _ _ h
                    · simp [hd] at h
              · simp [hk] at h
          · simp only [h40, if_false] at h ⊢
            by_cases h93 : c = 93
            · simp only [h93, if_true] at h ⊢
              exact h
            · simp only [h93, if_false] at h ⊢
              by_cases h47 : c = 47 ∨ c = 125
              · simp only [h47, if_true] at h ⊢
                exact h
              · simp only [h47, if_false] at h ⊢
                by_cases h58 : c = 58 ∨ c = 44
                · simp only [h58, if_true] at h ⊢
                  by_cases hd : c = d0
                  · simp only [hd, if_true] at h ⊢
                    exact ih _ _ _ _ _ _ _ _ h
                  · simp [hd] at h
                · simp only [h58, if_false] at h ⊢
                  cases had : afterDelim d0 l with
                  | none => simp [had] at h
                  | some r' =>
                    simp only [had] at h ⊢
                    exact ih _ _ _ _ _ _ _ _ h

/-- **The C recursion of the size pre-pass is bounded.**  An activation of restore_internal_size at a nesting level
    beyond MAX_SAVE_SVALUE_DEPTH returns "illegal format" at once, whatever the text — it never opens a further level.
    Since every recursive call passes `nest + 1` (see `preD`), no more than MAX_SAVE_SVALUE_DEPTH + 1 activations are
    ever on the C stack, and the value pass recurses only where the pre-pass succeeded.
    (Before the nesting fix the depth was the nesting of the text: "({({({..." overflowed the stack.) -/
theorem preD_refuses_beyond_limit (mb : MbLen) (fuel nest : Nat) (isMap idx : Bool) (s : List Byte) (size : Nat)
    (zs : List Nat) (h : nest > maxDepth) : preD mb fuel nest false isMap idx s size zs = none := by
  cases fuel with
  | zero => simp [preD]
  | succ f =>
    cases s with
    | nil => simp [preD]
    | cons c r => rw [preD.eq_3]; simp [h]

theorem restoreContainer_total (F : FloatOps α) (mb : MbLen) (k : Byte) (s : List Byte) :
    restoreContainer F mb k s ≠ .crash := by
  unfold restoreContainer
  simp only
  split
  · -- arrays and classes
    split
    · simp
    · rename_i r n zs hpreD
      have hpre := preD_pre mb _ _ _ _ _ _ _ _ _ hpreD
      split
      · simp
      · split
        · simp
        · skip
          have hne : rdElems F (s.length + 2) s n zs .nil (if k = 123 then .array else .cls) ≠ .crash := by
            rcases pre_sync F mb _ _ _ _ _ _ _ _ _ _ hpre with ⟨_, hn⟩ | ⟨_, zsNew, hz, hs⟩
            · subst hn
              cases s with
              | nil => simp [pre] at hpre
              | cons c r0 => cases r0 <;> simp [rdElems]
            · simp only [List.nil_append] at hz
              subst hz
              have hs := hs []
              simp only [Sync, Nat.sub_zero, List.append_nil] at hs
              exact good_ne_crash (hs _ _ _)
          revert hne
          cases rdElems F (s.length + 2) s n zs .nil (if k = 123 then .array else .cls) <;> simp
  · -- mappings
    split
    · simp
    · rename_i r n zs hpreD
      have hpre := preD_pre mb _ _ _ _ _ _ _ _ _ hpreD
      split
      · simp
      · rename_i hn
        have hne : rdMap F (s.length + 2) s zs .nil ≠ .crash := by
          rcases pre_sync F mb _ _ _ _ _ _ _ _ _ _ hpre with ⟨_, hn0⟩ | ⟨_, zsNew, hz, hs⟩
          · exact absurd hn0 hn
          · simp only [List.nil_append] at hz
            subst hz
            have hs := hs []
            simp only [Sync, Nat.sub_zero, List.append_nil] at hs
            exact good_ne_crash (hs _ _)
        revert hne
        cases rdMap F (s.length + 2) s zs .nil <;> simp

/-- the core statement: `restore_svalue` never makes an invalid memory access, whatever the text -/
theorem restoreSvalue_total (F : FloatOps α) (mb : MbLen) (t : List Byte) : restoreSvalue F mb t ≠ .crash := by
  unfold restoreSvalue
  split
  · simp
  · rename_i c s
    split
    · unfold restoreString
      split <;> simp
    · split
      · split
        · split
          · exact restoreContainer_total F mb _ _
          · simp
        · simp
      · split
        · split <;> simp
        · simp

theorem restore_total {α : Type} (F : FloatOps α) (mb : MbLen) (t : List Byte) :
    restoreVariable F mb t ≠ RvOut.crash := by
  unfold restoreVariable
  have h := restoreSvalue_total F mb (cstr t)
  revert h
  cases restoreSvalue F mb (cstr t) with
  | ok v => simp
  | err e => cases e <;> simp
  | crash => simp
  | stuck => simp

theorem restoreLines_total (F : FloatOps α) (mb : MbLen) (nc : Bool) :
    ∀ (ls : List (List Byte)) (vars : List (Var α)), restoreLines F mb nc ls vars ≠ RoOut.crash := by
  intro ls
  induction ls with
  | nil => intro vars; simp [restoreLines]
  | cons l ls ih =>
    intro vars
    rw [restoreLines]
    split
    · split <;> simp
    · split
      · exact ih _
      · simp only
        split
        · simp
        · split
          · exact ih _
          · split
            · exact ih _
            · rename_i v _ _
              have h := restoreSvalue_total F mb (List.drop ((List.takeWhile (· ≠ 32) l).length + 1) l)
              revert h
              cases restoreSvalue F mb (List.drop ((List.takeWhile (· ≠ 32) l).length + 1) l) with
              | ok x => intro _; exact ih _
              | err e => simp
              | crash => simp
              | stuck => simp

theorem restoreObject_total {α : Type} (F : FloatOps α) (mb : MbLen) (nc : Bool) (file : Option (List Byte))
    (vars : List (Var α)) : (restoreObject F mb nc file vars).2 ≠ RoOut.crash := by
  unfold restoreObject
  split
  · simp
  · simp
  · exact restoreLines_total F mb nc _ _

/-! ## non-vacuity: the theorem speaks about texts that restore to errors as well as to values -/

def unitFT : FloatOps Unit :=
  ⟨fun _ => [49, 46, 53], fun _ => (), fun _ _ => (), fun _ _ => (), fun _ _ => (), fun _ => (), fun _ => (),
    fun _ _ => true, fun _ => false, fun _ => false, fun _ => false⟩

/-- the "C" locale: every byte below 128 is a character, everything else is invalid -/
def asciiMbT : MbLen where
  len := fun s => match s with
    | [] => some 0
    | c :: _ => if c < 128 then some 1 else none
  pos := by
    intro s n h hne
    cases s with
    | nil => exact absurd rfl hne
    | cons c r =>
      simp only at h
      split at h <;> simp at h
      omega
  le_length := by
    intro s n h
    cases s with
    | nil => simp at h; omega
    | cons c r =>
      simp only at h
      split at h <;> simp at h
      simp; omega
  ascii := by
    intro c r hc
    simp [hc]
  cont := by
    intro s n h b hb
    cases s with
    | nil => simp at hb
    | cons c r =>
      simp only at h
      split at h <;> simp at h
      subst h
      simp at hb

def _root_.NV.C16.RvOut.isError {α : Type} : RvOut α → Bool
  | .error _ => true
  | _ => false

/-- `({1x"a,2,3,4,})"77`: the pre-pass accepts it (4 elements), the value pass stops at the `x` -/
example : restoreVariable unitFT asciiMbT [40,123,49,120,34,97,44,50,44,51,44,52,44,125,41,34,55,55]
    = .error "restore_object(): Illegal numeric format." := by rfl

/-- `({1,"ab`: restore_size reports 0 elements at the unterminated string (sic), the result is an empty array -/
example : restoreVariable unitFT asciiMbT [40,123,49,44,34,97,98] = .value (.arr .nil) := by rfl

/-- `({1,"a",({2,}),})` -/
example : restoreVariable unitFT asciiMbT [40,123,49,44,34,97,34,44,40,123,50,44,125,41,44,125,41]
    = .value (.arr (.cons (.int 1) (.cons (.str [97]) (.cons (.arr (.cons (.int 2) .nil)) .nil)))) := by rfl

/-- `([1:2,"k":({}),])` -/
example : restoreVariable unitFT asciiMbT [40,91,49,58,50,44,34,107,34,58,40,123,125,41,44,93,41]
    = .value (.map (.cons (.int 1) (.int 2) (.cons (.str [107]) (.arr .nil) .nil))) := by rfl

/-- `([1:])`: the pre-pass ends in value position, the value pass answers with an error -/
example : (restoreVariable unitFT asciiMbT [40,91,49,58,93,41]).isError = true := by rfl

end NV.C16.Total


