/-
C16 — property theorems (statements live here; the proofs are in ProofSave.lean, ProofTotal.lean,
ProofRoundtrip.lean / LemmasRt.lean; the definitions of the round-trip statement in RtDefs.lean; the witnesses
against the FULL round-trip statement in Witness.lean).

All theorems are about the executable model NV/C16/Model.lean, for every float parameter `F : FloatOps α` and every
`mb : MbLen` (mblen with its stated contract), all values / all byte strings / all crash points.
-/
import NV.C16.Model
import NV.C16.RtDefs
import NV.C16.ProofSave
import NV.C16.ProofTotal
import NV.C16.ProofRoundtrip
import NV.C16.ProofObject
import NV.C16.Tree
import NV.C16.ProofTree
import NV.C16.ProofHash
import NV.C16.Globals
import NV.C16.ProofVersion

namespace NV.C16.Props

open NV.C16

variable {α : Type}

/-- **Memory safety of the save buffer.**  Whatever value is saved (any nesting `d` within the limit, i.e.
`svalue_save_size` did not raise "nested too deep"): the bytes `save_svalue` writes, plus the terminating NUL,
fit into the `svalue_save_size(v)` bytes that were allocated.  (False before the fix for INT64_MIN.) -/
theorem size_bounds_output (F : FloatOps α) (d : Nat) (v : Value α) (n : Nat) (h : saveSize F d v = some n) :
    (save F v).length + 1 ≤ n :=
  NV.C16.size_bounds_output F d v n h

/-- hence `save_variable` never writes outside its allocation -/
theorem saveVariable_no_crash (F : FloatOps α) (v : Value α) : saveVariable F v ≠ SaveOut.crash :=
  NV.C16.saveVariable_no_crash F v

/-- what the efun save_variable returns is the text `save_svalue` writes and never longer than MaxStringLength (the size
test `theSize - 1 > MaxStringLength` stands in front of the allocation — regenerated site `save_variable-limit`) -/
theorem saveVariableEfun_ok (F : FloatOps α) (v : Value α) (t : List Nat) (h : saveVariableEfun F v = SaveEfunOut.ok t) :
    t = save F v ∧ t.length ≤ maxStringLength := NV.C16.saveVariableEfun_ok F v t h

/-- ... nor does any variable buffer of `save_object` -/
theorem saveObject_no_crash (F : FloatOps α) (vars : List (Var α)) : saveObjectCrash F vars = false :=
  NV.C16.saveObject_no_crash F vars

example : saveSize (α := Unit) ⟨fun _ => [49, 46, 53], fun _ => (), fun _ _ => (), fun _ _ => (), fun _ _ => (),
    fun _ => (), fun _ => (), fun _ _ => true, fun _ => false, fun _ => false, fun _ => false⟩ 0
    (.arr (.cons (.str [34, 10]) .nil)) = some 11 := by decide

/-- **Restore is total: no memory error on ANY byte string.**  `restore_variable` applied to an arbitrary text
yields a value or an LPC error; the model never reaches `crash`, i.e. never dereferences or advances the cursor
beyond the position one past the terminating NUL and never uses a size-table entry the pre-pass did not write.
(False before the fixes "number not followed by its delimiter" and "unterminated string with a backslash".) -/
theorem restore_total (F : FloatOps α) (mb : MbLen) (t : List Nat) : restoreVariable F mb t ≠ RvOut.crash :=
  NV.C16.Total.restore_total F mb t

/-- the same for `restore_object` on arbitrary file contents -/
theorem restoreObject_total (F : FloatOps α) (mb : MbLen) (nc : Bool) (file : Option (List Nat))
    (vars : List (Var α)) : (restoreObject F mb nc file vars).2 ≠ RoOut.crash :=
  NV.C16.Total.restoreObject_total F mb nc file vars

/-- **Round trip.**  Restoring what `save_variable` wrote yields a value equal to the saved one with the same
types — integers, strings, structure exactly; floats equal in their saved text (the "%g" precision); object
references come back as 0 (`erase`).

THE DOMAIN, explicitly (`savable`, RtDefs.lean — a decidable check on the value alone):
  * integers: all 64-bit values;  strings: every byte string without NUL (CR, `"`, `\`, invalid UTF-8 included);
  * arrays up to MaxArraySize elements, classes, mappings, empty containers, object references;
  * nesting: whatever `save_variable` accepts (`hd`: svalue_save_size did not raise "nested too deep", i.e. at most
    MAX_SAVE_SVALUE_DEPTH levels).  Since the nesting fix restore REFUSES deeper text (`restore_nesting_bounded`), so
    the limit is part of the statement; before, restore followed any depth — and overflowed the C stack on
    "({({({..." (a 600 KB text), found this round;
  * mapping keys: in THIS statement anything but floats, integer / string / object keys pairwise different (true of every
    real mapping); float keys whose saved texts are pairwise different are covered by `roundtrip_float_keys` below
    (two float keys that print alike collapse — open finding K5, witness `Witness.float_keys_collapse`);
  * floats: no condition on the value; `FloatsOK F v` is the stated contract of the float parameter (`FloatOK`: the
    saved text is a number token that `parse_numeric` reads back to a float with the same saved text), which the
    correspondence run checks on every generated double incl. ±0, subnormals, infinities and NaN.
Before round 2 the domain also excluded CR (K1), inf/nan (K2), non-UTF-8 bytes (K3), subnormals (K4): repaired. -/
theorem roundtrip (F : FloatOps α) (mb : MbLen) (v : Value α) (hs : savable v = true) (hf : FloatsOK F v)
    (hd : saveVariable F v ≠ SaveOut.tooDeep) :
    ∃ v', restoreVariable F mb (save F v) = RvOut.value v' ∧ Equiv F (erase v) v' :=
  NV.C16.roundtrip F mb v hs hf hd

/-- a deeply nested value of the domain: array ∋ mapping (string key with `"` CR LF `\` 0xff ↦ class ∋ array ∋
mapping (INT64_MIN ↦ array ∋ object reference, empty string), float; 7 ↦ empty mapping), INT64_MAX -/
example : savable NV.C16.deepExample = true := by decide

example (mb : MbLen) : ∃ v', restoreVariable NV.C16.rtF mb (save NV.C16.rtF NV.C16.deepExample) = RvOut.value v' ∧
    Equiv NV.C16.rtF (erase NV.C16.deepExample) v' :=
  roundtrip NV.C16.rtF mb NV.C16.deepExample (by decide) NV.C16.deepExample_floatsOK NV.C16.deepExample_withinDepth

/-- **Round trip, float keys included.**  The same statement on the inductive domain `Savable F v` (LemmasRt.lean): as
`savable` + `FloatsOK`, except that the keys of a mapping only have to STAY DIFFERENT KEYS (`KeysDistinct`: whatever
values equal to two keys up to `Equiv` come back, msameval tells them apart).  `keys_distinct_with_float_keys` gives that
for float keys whose saved texts are pairwise different — finding K5 is exactly the case where they are not — under the
`==` contract `EqPrintOK` for the floats that print like those keys (true of IEEE `==` unless 0.0 and -0.0 are both
keys, which no mapping holds).  Non-vacuity: `floatKeyExample` (two float keys, an integer and a string key). -/
theorem roundtrip_float_keys (F : FloatOps α) (mb : MbLen) (v : Value α) (hs : Savable F v)
    (hd : saveVariable F v ≠ SaveOut.tooDeep) :
    ∃ v', restoreVariable F mb (save F v) = RvOut.value v' ∧ Equiv F (erase v) v' := by
  refine NV.C16.roundtrip_ind F mb v hs ?_
  unfold saveVariable at hd
  cases h : saveSize F 0 v with
  | none => simp [h] at hd
  | some n => rfl

theorem keys_distinct_with_float_keys (F : FloatOps α) (ks : List (Value α))
    (hn : (ks.filterMap (keyTagF F)).Nodup) (hc : EqPrintOK F ks) : KeysDistinct F ks :=
  NV.C16.keysDistinct_of_tagsF F ks hn hc

example (mb : MbLen) : ∃ v', restoreVariable NV.C16.rtF2 mb (save NV.C16.rtF2 NV.C16.floatKeyExample) = RvOut.value v' ∧
    Equiv NV.C16.rtF2 (erase NV.C16.floatKeyExample) v' :=
  roundtrip_float_keys NV.C16.rtF2 mb NV.C16.floatKeyExample NV.C16.floatKeyExample_savable
    NV.C16.floatKeyExample_withinDepth

/-- **The C stack use of restore is bounded**: an activation of restore_internal_size at a nesting level beyond
MAX_SAVE_SVALUE_DEPTH refuses at once, for every text; every recursive call passes `nest + 1`; the value pass
(restore_array / restore_mapping / restore_class) recurses only where the pre-pass succeeded. -/
theorem restore_nesting_bounded (mb : MbLen) (fuel nest : Nat) (isMap idx : Bool) (s : List Nat) (size : Nat)
    (zs : List Nat) (h : nest > maxDepth) : preD mb fuel nest false isMap idx s size zs = none :=
  NV.C16.Total.preD_refuses_beyond_limit mb fuel nest isMap idx s size zs h

/-- the nesting test only adds refusals: a text the pre-pass as coded accepts is accepted, with the same element
counts, by the pre-pass without the test — which is what `restore_total` is proved through -/
theorem nesting_test_only_refuses (mb : MbLen) (fuel nest : Nat) (top isMap idx : Bool) (s : List Nat) (size : Nat)
    (zs : List Nat) (out : PreOut) (h : preD mb fuel nest top isMap idx s size zs = some out) :
    pre mb fuel top isMap idx s size zs = some out :=
  NV.C16.Total.preD_pre mb fuel nest top isMap idx s size zs out h

/-- **safe_restore_svalue keeps the old value on every error.** -/
theorem safe_restore_keeps_old_on_error (F : FloatOps α) (mb : MbLen) (t : List Nat) (old : Value α)
    (h : ∀ v, (safeRestoreSvalue F mb t old).1 ≠ Res.ok v) : (safeRestoreSvalue F mb t old).2 = old :=
  NV.C16.safe_restore_keeps_old_on_error F mb t old h

/-- a line of a save file whose value cannot be restored leaves every variable of the object as it was -/
theorem restoreObject_error_keeps_variable (F : FloatOps α) (mb : MbLen) (nc : Bool) (l : List Nat)
    (ls : List (List Nat)) (vars : List (Var α)) (m : String) (vs : List (Var α)) :
    restoreLines F mb nc [l] vars = RoOut.error m vs → vs = vars :=
  NV.C16.restoreObject_error_keeps_variable F mb nc l ls vars m vs

/-- **Saves are atomic.**  For every prefix of the call script of `save_object` (= crash point `k`), the save file
holds either the complete old or the complete new contents.  Assumption (in `FS.step`): `rename` is atomic. -/
theorem save_atomic (chunks : List (List Nat)) (old : Option (List Nat)) (k : Nat) :
    ((FS.mk old none).run ((saveScript chunks none).1.take k)).file = old ∨
    ((FS.mk old none).run ((saveScript chunks none).1.take k)).file = some chunks.flatten :=
  NV.C16.save_atomic chunks old k

/-- ... also when the crash falls INSIDE a call (a line half written, a buffer half flushed: `FS.partialStep`) -/
theorem save_atomic_partial (chunks : List (List Nat)) (old : Option (List Nat)) (k : Nat) (c : Call) (d' : List Nat) :
    (((FS.mk old none).run ((saveScript chunks none).1.take k)).partialStep c d').file = old ∨
    (((FS.mk old none).run ((saveScript chunks none).1.take k)).partialStep c d').file = some chunks.flatten :=
  NV.C16.save_atomic_partial chunks old k c d'

/-- a save that runs to its end leaves exactly the new contents and no temporary -/
theorem save_complete (chunks : List (List Nat)) (old : Option (List Nat)) :
    (FS.mk old none).run (saveScript chunks none).1 = FS.mk (some chunks.flatten) none :=
  NV.C16.save_complete chunks old

/-- with a failure injected at call `j`: at every crash point the file is old, or new and the save reports
success; a save that reports failure leaves the old file -/
theorem save_atomic_failure (chunks : List (List Nat)) (old : Option (List Nat)) (j k : Nat) :
    let r := saveScript chunks (some j)
    let fs := (FS.mk old none).run (r.1.take k)
    (fs.file = old ∨ (fs.file = some chunks.flatten ∧ r.2 = 1)) ∧
      (r.2 = 0 → ((FS.mk old none).run r.1).file = old) :=
  NV.C16.save_atomic_failure chunks old j k

/-- **Static variables and object references are not persisted**: the file does not depend on static variables,
a restore never changes a static variable (nor the layout), an object reference is written as nothing and read back
as 0. -/
theorem statics_and_objects_not_persisted (F : FloatOps α) (mb : MbLen) :
    (∀ z vars, saveLines F z vars = saveLines F z (vars.filter (fun v => !v.isStatic))) ∧
    (∀ nc ls vars,
      match restoreLines F mb nc ls vars with
      | .done vs => vs.filter (·.isStatic) = vars.filter (·.isStatic) ∧ vs.map (·.name) = vars.map (·.name)
      | .error _ vs => vs.filter (·.isStatic) = vars.filter (·.isStatic) ∧ vs.map (·.name) = vars.map (·.name)
      | _ => True) ∧
    save F (Value.obj : Value α) = [] ∧ restoreSvalue F mb [] = Res.ok (Value.int 0) :=
  NV.C16.statics_and_objects_not_persisted F mb

/-! ## object level: the walks over the program tree (Tree.lean) -/

/-- **save_object writes each non-static variable its own value.**  For EVERY program tree (inherits with any type
modifiers at any depth, static variables anywhere) and variable array of the right size, the cursor walk of
`save_object_recurse` writes exactly the lines the flat layout `slots` prescribes: the k-th slot's name with the k-th
slot's value, skipping precisely the slots that are static — declared static or reached through a static inherit
(the whole subtree: a statically inherited program's own inherits included). -/
theorem saveObject_writes_each_nonstatic_variable_its_own_value (F : FloatOps α) (z : Bool) (p : Prog)
    (vals : List (Value α)) (h : vals.length = (slots p false).length) :
    saveTreeLines F z p vals = some (saveLines F z (mkVars (slots p false) vals)) :=
  NV.C16.TreeProofs.saveObject_writes_each_nonstatic_variable_its_own_value F z p vals h

/-- ... where, with save_zeros, the lines are: every non-static variable exactly once, in slot order, as
`name value-of-that-variable`, and nothing static -/
theorem saveLines_spec (F : FloatOps α) (vars : List (Var α)) :
    saveLines F true vars =
      (vars.filter (fun v => !v.isStatic)).map (fun v => v.name ++ 32 :: (save F v.val ++ [10])) :=
  NV.C16.TreeProofs.saveLines_spec F vars

/-- ... and without save_zeros a subset of those lines (zero-valued variables are left out) -/
theorem saveLines_sub (F : FloatOps α) (z : Bool) (vars : List (Var α)) :
    ∀ l ∈ saveLines F z vars, ∃ v ∈ vars, v.isStatic = false ∧ l = v.name ++ 32 :: (save F v.val ++ [10]) :=
  NV.C16.TreeProofs.saveLines_sub F z vars

/-- `find_global_variable` (search through the inherits, then the own variables, index accumulated on the way)
returns the FIRST slot of that name in layout order, with its effective static flag -/
theorem findGlobal_flat (p : Prog) (name : List Nat) :
    findGlobal p name = NV.C16.TreeProofs.firstIdx name (slots p false) 0 :=
  NV.C16.TreeProofs.findGlobal_flat p name

/-- `clear_non_statics` zeroes exactly the non-static slots -/
theorem cns_flat (vals : List (Value α)) (p : Prog) (h : vals.length = (slots p false).length) :
    (cns vals p 0).1 = ((mkVars (slots p false) vals).map (fun v => if v.isStatic then v.val else Value.int 0)) :=
  NV.C16.TreeProofs.cns_flat vals p h

/-- hence `restore_object` on the tree IS the flat `restoreObject` of Model.lean on the layout: everything proved
about the flat functions (`restoreObject_total`, `statics_and_objects_not_persisted`, `object_roundtrip`) holds for
every program tree -/
theorem restoreObjectT_flat (F : FloatOps α) (mb : MbLen) (nc : Bool) (file : Option (List Nat)) (p : Prog)
    (vals : List (Value α)) (h : vals.length = (slots p false).length) :
    restoreObjectT F mb nc file p vals =
      ((restoreObject F mb nc file (mkVars (slots p false) vals)).1,
       NV.C16.TreeProofs.outVals (restoreObject F mb nc file (mkVars (slots p false) vals)).2) :=
  NV.C16.TreeProofs.restoreObjectT_flat F mb nc file p vals h

/-- **Object-level round trip.**  save_object of the variables `vars`, then restore_object(file, 0) into an object of
the same layout whose variables currently are `live`: static variables keep their live values, every non-static
variable holds the saved value (equal up to `Equiv`, object references as 0).  Domain `objSavable` (decidable):
variable names are identifiers and PAIRWISE DIFFERENT (two variables of one name at different inheritance levels are
not restored correctly: open finding K6, `Witness.same_name_variables`), non-static values in the domain of
`roundtrip`, incl. `hdp`: no variable nested too deep, i.e. the save_object was not refused. -/
theorem object_roundtrip (F : FloatOps α) (mb : MbLen) (prog : List Nat) (z : Bool) (vars live : List (Var α))
    (hprog : ∀ b ∈ prog, b ≠ 10 ∧ b ≠ 0) (hs : objSavable vars = true)
    (hf : ∀ v ∈ vars, v.isStatic = false → FloatsOK F v.val)
    (hdp : ∀ v ∈ vars, v.isStatic = false → saveVariable F v.val ≠ SaveOut.tooDeep)
    (hlay : live.map (·.name) = vars.map (·.name) ∧ live.map (·.isStatic) = vars.map (·.isStatic)) :
    ∃ res, restoreObject F mb false (some (saveFileText F prog z vars)) live = (1, RoOut.done res) ∧
      ObjRestored F vars live res :=
  NV.C16.object_roundtrip F mb prog z vars live hprog hs hf hdp hlay

/-- restore_object(file, 1) (noclear): as `object_roundtrip`, except that a non-static variable the save did not
write (no save_zeros, value 0) keeps its LIVE value instead of becoming 0 (`ObjRestoredNC.kept`) -/
theorem object_roundtrip_noclear (F : FloatOps α) (mb : MbLen) (prog : List Nat) (z : Bool)
    (vars live : List (Var α)) (hprog : ∀ b ∈ prog, b ≠ 10 ∧ b ≠ 0) (hs : objSavable vars = true)
    (hf : ∀ v ∈ vars, v.isStatic = false → FloatsOK F v.val)
    (hdp : ∀ v ∈ vars, v.isStatic = false → saveVariable F v.val ≠ SaveOut.tooDeep)
    (hlay : live.map (·.name) = vars.map (·.name) ∧ live.map (·.isStatic) = vars.map (·.isStatic)) :
    ∃ res, restoreObject F mb true (some (saveFileText F prog z vars)) live = (1, RoOut.done res) ∧
      ObjRestoredNC F z vars live res :=
  NV.C16.object_roundtrip_noclear F mb prog z vars live hprog hs hf hdp hlay

/-- **restore_object into another version of the program** (variables renamed / removed / added / reordered, made
static ("nosave") or non-static, moved into or out of an inherited program — `cur` is ANY variable table with pairwise
different names; with `restoreObjectT_flat` the flat tables are the `slots` of the two program trees): the efun returns 1
without an error and leaves in every variable of the restoring object exactly `After` (ProofVersion.lean): a non-static
variable whose name has a line in the file (`written`: the non-static variables of the saving program, those with the
text "0" only with save_zeros) holds that saved value up to `Equiv`; every other variable — static ones, names the file
does not have — is what it was when the lines were read (its live value with the no-clear flag, else 0 for a
non-static one); lines of unknown or static names are skipped.  Declared types play no part. -/
theorem restore_into_another_program_version (F : FloatOps α) (mb : MbLen) (prog : List Nat) (z nc : Bool)
    (ss live : List (Var α)) (hprog : ∀ b ∈ prog, b ≠ 10 ∧ b ≠ 0) (hs : objSavable ss = true)
    (hf : ∀ v ∈ ss, v.isStatic = false → FloatsOK F v.val)
    (hdp : ∀ v ∈ ss, v.isStatic = false → saveVariable F v.val ≠ SaveOut.tooDeep)
    (hlive : (live.map (·.name)).Nodup) :
    ∃ res, restoreObject F mb nc (some (saveFileText F prog z ss)) live = (1, RoOut.done res) ∧
      Rel2 (After F (written F z ss)) (if nc then live else live.map clearVar) res :=
  NV.C16.restoreObject_other_version F mb prog z nc ss live hprog hs hf hdp hlive

/-! ## bridging lemmas over the REGENERATED source facts (NV/Gen/C16.lean): a changed C line breaks these -/

/-- the additive constants in the return statements of `svalue_save_size` cover what `save_svalue` writes -/
theorem size_overheads_suffice : 3 ≤ sizeStr ∧ 5 ≤ sizeArr ∧ 5 ≤ sizeCls ∧ 5 ≤ sizeMap ∧ 2 ≤ sizeInt ∧
    1 ≤ sizeReal ∧ 1 ≤ sizeOther := NV.C16.size_overheads_suffice

/-- every byte `save_svalue` escapes is counted twice by `svalue_save_size` -/
theorem saveEscaped_sub_sizeEscaped : ∀ c, saveEscaped.contains c = true → sizeEscaped.contains c = true :=
  NV.C16.saveEscaped_sub_sizeEscaped

/-- the restore functions undo the LF → CR substitution of `save_svalue` ... -/
theorem restore_swap_inverts_save : restoreSwapFrom = swapTo ∧ restoreSwapTo = swapFrom :=
  NV.C16.restore_swap_inverts_save

/-- ... at all six sites (two each in restore_string, restore_interior_string, restore_hash_string) alike -/
theorem restore_swap_sites_agree : NV.Gen.C16.restoreSwapSitesAgree = true := by decide

/-- `"`, `\` and CR are escaped by `save_svalue` (what the string round trip needs) -/
theorem save_escapes_quote_backslash_cr :
    saveEscaped.contains 34 = true ∧ saveEscaped.contains 92 = true ∧ saveEscaped.contains 13 = true := by decide

/-- for paths up to the `%.Ns` prefix the temporary is `<file>.tmp`: not truncated by `tmp_name[]`, and a name
different from the save file -/
theorem tmpName_ne_file (file : List Nat) (h : file.length ≤ NV.Gen.C16.tmpPrefixMax) :
    tmpName file = file ++ [46, 116, 109, 112] ∧ tmpName file ≠ file := NV.C16.tmpName_ne_file file h

/-- **No temporary is left behind**: a save that reports failure — whichever call failed — has closed and unlinked
its temporary (true since the header-failure fix); so has a successful save (renamed away) -/
theorem save_failure_leaves_no_tmp (chunks : List (List Nat)) (old : Option (List Nat)) (j : Nat) :
    (saveScript chunks (some j)).2 = 0 → ((FS.mk old none).run (saveScript chunks (some j)).1).tmp = none :=
  NV.C16.save_failure_leaves_no_tmp chunks old j

theorem save_success_leaves_no_tmp (chunks : List (List Nat)) (old : Option (List Nat)) :
    ((FS.mk old none).run (saveScript chunks none).1).tmp = none :=
  NV.C16.save_success_leaves_no_tmp chunks old

/-- **save_object as a whole** (dry run over the variables, then the call script): whatever way it ends — the LPC error
"nested too deep", a failure reported for any call, success — no temporary file is left behind.  (False before the
two temporary-file fixes: header-write failure; too-deep error raised in the middle of writing = finding K7.) -/
theorem saveObject_leaves_no_tmp (F : FloatOps α) (prog : List Nat) (z : Bool) (vars : List (Var α))
    (fail : Option Nat) (old : Option (List Nat)) :
    (saveObjectFS F prog z vars fail (FS.mk old none)).1.tmp = none :=
  NV.C16.saveObject_leaves_no_tmp F prog z vars fail old

/-- the LPC error of save_object is raised before its first file-system call: nothing has changed ... -/
theorem saveObject_error_touches_nothing (F : FloatOps α) (prog : List Nat) (z : Bool) (vars : List (Var α))
    (fail : Option Nat) (fs : FS) (h : (saveObjectFS F prog z vars fail fs).2 = none) :
    (saveObjectFS F prog z vars fail fs).1 = fs :=
  NV.C16.saveObject_error_touches_nothing F prog z vars fail fs h

/-- ... and it is raised exactly when a non-static variable is nested deeper than MAX_SAVE_SVALUE_DEPTH -/
theorem saveObject_error_iff_too_deep (F : FloatOps α) (prog : List Nat) (z : Bool) (vars : List (Var α))
    (fail : Option Nat) (fs : FS) :
    (saveObjectFS F prog z vars fail fs).2 = none ↔
      ∃ v ∈ vars, v.isStatic = false ∧ saveVariable F v.val = SaveOut.tooDeep :=
  NV.C16.saveObject_error_iff_too_deep F prog z vars fail fs

/-- for EVERY path the temporary is `<first tmpPrefixMax bytes>.tmp` (the buffer never cuts the suffix) ... -/
theorem tmpName_eq (file : List Nat) : tmpName file = file.take NV.Gen.C16.tmpPrefixMax ++ [46, 116, 109, 112] :=
  NV.C16.tmpName_eq file

/-- ... hence never the save file of ANY object (those end in the last byte of SAVE_EXTENSION): two objects whose long
paths share a temporary cannot clobber a save file with it -/
theorem tmpName_never_a_save_file (file g : List Nat) (hg : g.getLast? = some NV.Gen.C16.saveExt1) :
    tmpName file ≠ g := NV.C16.tmpName_never_a_save_file file g hg

/-- the error message of every ROB_* code is the one the source raises, in the order of its if-chain; restore_variable
has NO branch for ROB_CLASS_ERROR (a damaged class yields 0 without an error — mirrored by `restoreVariable`) -/
theorem error_messages_as_in_source :
    NV.Gen.C16.restoreVariableMessages =
      [("ROB_GENERAL_ERROR", errMsg .general), ("ROB_NUMERAL_ERROR", errMsg .numeral), ("ROB_ARRAY_ERROR", errMsg .array),
       ("ROB_MAPPING_ERROR", errMsg .mapping), ("ROB_STRING_ERROR", errMsg .string)] ∧
    NV.Gen.C16.restoreObjectMessages =
      [("ROB_GENERAL_ERROR", errMsgVar .general [37, 115]), ("ROB_NUMERAL_ERROR", errMsgVar .numeral [37, 115]),
       ("ROB_ARRAY_ERROR", errMsgVar .array [37, 115]), ("ROB_MAPPING_ERROR", errMsgVar .mapping [37, 115]),
       ("ROB_STRING_ERROR", errMsgVar .string [37, 115]), ("ROB_CLASS_ERROR", errMsgVar .cls [37, 115])] := by
  constructor <;> decide

/-- the structure bytes of the three container kinds are the character literals `save_svalue` writes, in source order
(`(` `{` element `,` `}` `)` NUL, ...) -/
theorem save_structure_bytes_as_in_source (F : FloatOps α) :
    save F (.arr (.cons .obj .nil)) ++ [0] = NV.Gen.C16.saveArrayLits ∧
    save F (.cls (.cons .obj .nil)) ++ [0] = NV.Gen.C16.saveClassLits ∧
    save F (.map (.cons .obj .obj .nil)) ++ [0] = NV.Gen.C16.saveMappingLits := by
  refine ⟨?_, ?_, ?_⟩ <;> simp [save, saveElems, savePairs] <;> decide

/-- the statements that carry the restore nesting limit and the dry run of save_object read as `preD` /
`saveObjectScript` model them (REGENERATED by comparison with the source text): the test `nesting > MAX_SAVE_SVALUE_DEPTH`
at the entry of restore_internal_size, `nesting + 1` in its three recursive calls, the literal restore_size passes
(= level of the outermost container, 1 in `restoreContainer`, plus one); the dry run stands before `fopen`, advances the
variable cursor, and the writing run follows the header -/
theorem nesting_and_dry_run_sites_as_modelled :
    NV.Gen.C16.nestingSitesAsModelled = true ∧ NV.Gen.C16.restoreSizeNestingArg = 1 + 1 ∧
    NV.Gen.C16.dryRunSitesAsModelled = true := by decide

/-! ### state shared between calls (Globals.lean) -/

/-- **No entry point of the restore sees the shared state it is entered with.**  Whatever an earlier save or restore
that ended in an LPC error left in `save_svalue_depth` and `save_svalue_sizes` (`g` arbitrary), restore_svalue /
safe_restore_svalue — hence restore_variable and restore_object with either flag — yield what they yield on a fresh
driver.  (`restoreTextFrom` is the code without its first statement: `Witness.stale_counter_without_reset`.) -/
theorem restore_ignores_stale_state (F : FloatOps α) (mb : MbLen) (g : G) (t : List Nat) :
    restoreSvalueG F mb g t = restoreSvalue F mb t := NV.C16.restore_ignores_stale_state F mb g t

/-- ... nor does any entry point of the save (save_variable, every variable of save_object) -/
theorem save_ignores_stale_state (F : FloatOps α) (g : G) (v : Value α) : saveSizeG F g v = saveSize F 0 v :=
  NV.C16.save_ignores_stale_state F g v

/-- the reset `save_svalue_depth = 0` IS the first statement of restore_svalue and of safe_restore_svalue, every
top-level dispatch to restore_array / restore_mapping / restore_class sits in one of the two, every outer call of
svalue_save_size is directly preceded by the reset (REGENERATED); and the file-scope variables the save / restore code
shares between calls are exactly the three `G` abstracts (`nm` on the objects of this build; a new one the code
mentions breaks the tie `file-scope-state/<name>`) -/
theorem reset_sites_as_modelled :
    NV.Gen.C16.resetSitesAsModelled = true ∧
    ((NV.Gen.C16.fileScopeState.filter (fun x => x.2.2 == "protocol")).map (fun x => x.2.1)) =
      ["save_max_depth", "save_svalue_depth", "save_svalue_sizes"] := by decide

/-- **The capacity loops of the size table end and make room** (`while (save_max_depth <= depth) save_max_depth <<= 1`
for a fresh table, `while ((save_max_depth <<= 1) <= depth)` for an allocated one — the second doubles BEFORE it tests),
for every index, from every state that satisfies `TabInv` (an allocated table has a capacity > 0), which the release block
(`release_inv`), both loops and an `error()` in between all keep.  `Witness.zero_capacity_with_a_table_never_ends`: from
(allocated, capacity 0) the second loop does not end. -/
theorem size_table_capacity_ok (t : Tab) (depth : Nat) (hi : TabInv t) :
    ∃ t', ensure t depth (depth + 1) = some t' ∧ t'.alloc = true ∧ depth < t'.cap ∧ TabInv t' :=
  NV.C16.ensure_ok t depth hi

/-- the statements of that protocol read as modelled (REGENERATED): allocation and growth in both closing branches of
restore_internal_size, the entry written after them, pointer and capacity reset TOGETHER in both entry points -/
theorem table_sites_as_modelled : NV.Gen.C16.tableSitesAsModelled = true ∧ 0 < NV.Gen.C16.sizeTableInitial := by decide

/-! ### what the restore functions dispatch on -/

/-- the model's dispatch of restore_array / restore_class (`rdElems`) accepts exactly these first characters ... -/
theorem elem_dispatch_spec (c : Nat) : c ∈ [34, 44, 40, 45, 48, 49, 50, 51, 52, 53, 54, 55, 56, 57] ↔
    (c = 34 ∨ c = 44 ∨ c = 40 ∨ numStart c = true) := by
  simp [numStart, isDigit]; omega

/-- ... of a key / of a value in restore_mapping (`rdMap`) ... -/
theorem key_dispatch_spec (c : Nat) : c ∈ [34, 40, 58, 93, 45, 48, 49, 50, 51, 52, 53, 54, 55, 56, 57] ↔
    (c = 93 ∨ c = 34 ∨ c = 40 ∨ c = 58 ∨ numStart c = true) := by
  simp [numStart, isDigit]; omega

theorem value_dispatch_spec (c : Nat) : c ∈ [34, 40, 45, 48, 49, 50, 51, 52, 53, 54, 55, 56, 57, 44] ↔
    (c = 34 ∨ c = 40 ∨ c = 44 ∨ numStart c = true) := by
  simp [numStart, isDigit]; omega

/-- ... of restore_svalue / safe_restore_svalue (`restoreSvalue`; everything else is the value 0) -/
theorem svalue_dispatch_spec (c : Nat) : c ∈ [34, 40, 45, 48, 49, 50, 51, 52, 53, 54, 55, 56, 57] ↔
    (c = 34 ∨ c = 40 ∨ numStart c = true) := by
  simp [numStart, isDigit]; omega

/-- and these ARE the `case 'x':` labels of the switches in the source (REGENERATED, in source order), the nested
containers being opened by `[`, `{`, `/` behind the `(` in all five functions -/
theorem restore_dispatch_as_in_source :
    NV.Gen.C16.restoreArrayCases = [34, 44, 40, 45, 48, 49, 50, 51, 52, 53, 54, 55, 56, 57] ∧
    NV.Gen.C16.restoreClassCases = [34, 44, 40, 45, 48, 49, 50, 51, 52, 53, 54, 55, 56, 57] ∧
    NV.Gen.C16.restoreMappingKeyCases = [34, 40, 58, 93, 45, 48, 49, 50, 51, 52, 53, 54, 55, 56, 57] ∧
    NV.Gen.C16.restoreMappingValueCases = [34, 40, 45, 48, 49, 50, 51, 52, 53, 54, 55, 56, 57, 44] ∧
    NV.Gen.C16.restoreSvalueCases = [34, 40, 45, 48, 49, 50, 51, 52, 53, 54, 55, 56, 57] ∧
    NV.Gen.C16.safeRestoreSvalueCases = [34, 40, 45, 48, 49, 50, 51, 52, 53, 54, 55, 56, 57] ∧
    NV.Gen.C16.restoreOpeners.all (fun l => l.all (fun b => b = 91 || b = 123 || b = 47) && [91, 123, 47].all l.contains) = true := by
  decide

/-! ## the hash table restore_mapping fills (Hash.lean): every restored pair can be looked up -/

/-- **One pair of restore_mapping** (bucket `hash & mask`, duplicate test in the chain, `--unfilled`, growMap in the
middle, re-derived bucket `if (oi & ++mask) elt2 = a[i |= mask]`): the table stays well-formed (a power of two of
buckets, every node in the bucket its hash selects), the inserted key is found by node_find_in_mapping, no other key
is lost — for EVERY hash function (string keys hash by address) and table size. -/
theorem mapping_insert_spec {κ : Type} [DecidableEq κ] (h : κ → Nat) (t t' : Hash.Tbl κ) (k : κ)
    (hw : Hash.WF h t) (hi : Hash.insert h t k = some t') :
    Hash.WF h t' ∧ Hash.find h t' k = true ∧ ∀ k', Hash.find h t k' = true → Hash.find h t' k' = true :=
  Hash.insert_spec h t t' k hw hi

/-- **Every pair of a restored mapping is found through its key** (`m[key]`), whatever the keys, their order, their
hashes, the initial table size and however often the table grows during the restore. -/
theorem restore_mapping_all_found {κ : Type} [DecidableEq κ] (h : κ → Nat) (e : Nat) (ks : List κ) (t : Hash.Tbl κ)
    (hi : Hash.insertAll h (Hash.empty e) ks = some t) : ∀ k ∈ ks, Hash.find h t k = true :=
  Hash.restore_mapping_all_found h e ks t hi

/-- the same starting from the table `allocate_mapping(n)` makes, for every `n`: the restored table is well-formed and
every pair is found (this is the function the model driver runs against the real table of every restored integer-key
mapping: `tbl` lines — size, `unfilled`, count, every chain in order) -/
theorem restore_mapping_all_found_alloc {κ : Type} [DecidableEq κ] (h : κ → Nat) (n : Nat) (ks : List κ)
    (t : Hash.Tbl κ) (hi : Hash.insertAll h (Hash.allocate n) ks = some t) :
    Hash.WF h t ∧ ∀ k ∈ ks, Hash.find h t k = true :=
  Hash.restore_mapping_all_found_alloc h n ks t hi

/-- the statements of restore_mapping / growMap / node_find_in_mapping that Hash.lean mirrors still read that way
(REGENERATED from the source text on every run) -/
theorem hash_sites_as_modelled : NV.Gen.C16.hashSitesAsModelled = true := by decide

end NV.C16.Props
