import NV.C16.Model
namespace NV.C16
end NV.C16
