/-
C16 — lemma layers of the round-trip theorem (NV.C16.ProofRoundtrip): bytes of a saved text, integers,
strings.
-/
import NV.C16.RtDefs

namespace NV.C16

variable {α : Type}

/-! ## (B) integers -/

theorem isDigit_iff (c : Byte) : isDigit c = true ↔ 48 ≤ c ∧ c ≤ 57 := by simp [isDigit]

theorem isDigit_false_iff (c : Byte) : isDigit c = false ↔ ¬ (48 ≤ c ∧ c ≤ 57) := by
  rw [← isDigit_iff]; simp

theorem numStart_iff (c : Byte) : numStart c = true ↔ c = 45 ∨ (48 ≤ c ∧ c ≤ 57) := by
  simp [numStart, isDigit]

theorem digits_range (m : Nat) : ∀ b ∈ digits m, 48 ≤ b ∧ b ≤ 57 := by
  induction m using digits.induct with
  | case1 n h => rw [digits]; simp [h]; omega
  | case2 n h ih =>
    rw [digits]; simp only [h, ↓reduceDIte, List.mem_append, List.mem_singleton]
    intro b hb
    rcases hb with hb | hb
    · exact ih b hb
    · omega

theorem digits_ne_nil (m : Nat) : digits m ≠ [] := by
  rw [digits]; split <;> simp

theorem accDigits_cons (a c : Nat) (r : List Byte) :
    accDigits a (c :: r) = accDigits ((a * 10 + (c - 48)) % 2 ^ 64) r := by
  rw [accDigits.eq_def]

theorem accDigits_nil (a : Nat) : accDigits a [] = a := by
  rw [accDigits.eq_def]

theorem accDigits_append (a : Nat) (l : List Byte) (c : Byte) :
    accDigits a (l ++ [c]) = (accDigits a l * 10 + (c - 48)) % 2 ^ 64 := by
  induction l generalizing a with
  | nil => rw [List.nil_append, accDigits_cons, accDigits_nil, accDigits_nil]
  | cons x r ih => rw [List.cons_append, accDigits_cons, accDigits_cons, ih]

theorem accDigits_digits (m : Nat) (hm : m < 2 ^ 64) : accDigits 0 (digits m) = m := by
  induction m using digits.induct with
  | case1 n h =>
    rw [digits]; simp only [h, ↓reduceDIte]
    rw [accDigits_cons, accDigits_nil]; omega
  | case2 n h ih =>
    rw [digits]; simp only [h, ↓reduceDIte]
    rw [accDigits_append, ih (by omega)]; omega

theorem span_loop_digits (p : Byte → Bool) (ds tail acc : List Byte) (h : ∀ b ∈ ds, p b = true)
    (ht : tail = [] ∨ ∃ d r, tail = d :: r ∧ p d = false) :
    List.span.loop p (ds ++ tail) acc = (acc.reverse ++ ds, tail) := by
  induction ds generalizing acc with
  | nil =>
    rcases ht with rfl | ⟨d, r, rfl, hd⟩
    · simp [List.span.loop]
    · simp [List.span.loop, hd]
  | cons x r ih =>
    have hx : p x = true := h x (by simp)
    simp only [List.cons_append, List.span.loop, hx]
    rw [ih _ (fun b hb => h b (by simp [hb]))]
    simp

theorem span_digits (ds tail : List Byte) (h : ∀ b ∈ ds, isDigit b = true)
    (ht : tail = [] ∨ ∃ d r, tail = d :: r ∧ isDigit d = false) :
    (ds ++ tail).span isDigit = (ds, tail) := by
  unfold List.span
  rw [span_loop_digits _ _ _ _ h ht]; simp

theorem toInt64_magnitude (n : Int) (h1 : -(2 : Int) ^ 63 ≤ n) (h2 : n < (2 : Int) ^ 63) :
    toInt64 (decide (n < 0)) (magnitude n) = n := by
  unfold toInt64 magnitude
  by_cases h : n < 0
  · simp only [h, decide_true, ↓reduceIte, Int.ofNat_eq_natCast]
    split <;> omega
  · simp only [h, decide_false, Bool.false_eq_true, ↓reduceIte, Int.ofNat_eq_natCast]
    split <;> omega

/-- what may follow a number: the end of the text or a delimiter -/
def TailOK (tail : List Byte) : Prop := tail = [] ∨ ∃ d r, tail = d :: r ∧ (d = 44 ∨ d = 58)

theorem TailOK.span {tail : List Byte} (h : TailOK tail) :
    tail = [] ∨ ∃ d r, tail = d :: r ∧ isDigit d = false := by
  rcases h with h | ⟨d, r, h, hd⟩
  · exact Or.inl h
  · refine Or.inr ⟨d, r, h, ?_⟩
    rcases hd with rfl | rfl <;> decide

theorem parseNumeric_digits (F : FloatOps α) (c : Byte) (ds tail : List Byte) (hc : isDigit c = true)
    (hds : ∀ b ∈ ds, isDigit b = true) (ht : TailOK tail) :
    parseNumeric F c (ds ++ tail) = some (.int (toInt64 false (accDigits (c - 48) ds)), tail) := by
  have hc45 : c ≠ 45 := by rw [isDigit_iff] at hc; omega
  unfold parseNumeric
  simp only [hc45, ↓reduceIte, span_digits ds tail hds ht.span]
  rcases ht with rfl | ⟨d, r, rfl, hd | hd⟩
  · rfl
  · subst hd; rfl
  · subst hd; rfl

theorem parseNumeric_neg (F : FloatOps α) (c : Byte) (ds tail : List Byte) (hc : isDigit c = true)
    (hds : ∀ b ∈ ds, isDigit b = true) (ht : TailOK tail) :
    parseNumeric F 45 (c :: ds ++ tail) = some (.int (toInt64 true (accDigits (c - 48) ds)), tail) := by
  unfold parseNumeric
  simp only [↓reduceIte, List.cons_append, hc, span_digits ds tail hds ht.span]
  rcases ht with rfl | ⟨d, r, rfl, hd | hd⟩
  · rfl
  · subst hd; rfl
  · subst hd; rfl

/-- a text that the restore functions read as the number `w`, whatever delimiter follows -/
structure NumText (F : FloatOps α) (t : List Byte) (w : Value α) : Prop where
  start : ∃ c s, t = c :: s ∧ numStart c = true
  chars : ∀ b ∈ t, b ≠ 0 ∧ b ≠ 10 ∧ b ≠ 44 ∧ b ≠ 58 ∧ b < 128
  parse : ∀ c s, t = c :: s → ∀ tail : List Byte, TailOK tail →
    ∃ y, parseNumeric F c (s ++ tail) = some (y, tail) ∧ Equiv F w y

theorem digits_decomp (m : Nat) (hm : m < 2 ^ 64) :
    ∃ c ds, digits m = c :: ds ∧ isDigit c = true ∧ (∀ b ∈ ds, isDigit b = true) ∧
      accDigits (c - 48) ds = m := by
  have hr := digits_range m
  have ha := accDigits_digits m hm
  cases hd : digits m with
  | nil => exact absurd hd (digits_ne_nil m)
  | cons c ds =>
    rw [hd] at hr ha
    have hc := hr c (by simp)
    refine ⟨c, ds, rfl, (isDigit_iff c).2 hc, fun b hb => (isDigit_iff b).2 (hr b (by simp [hb])), ?_⟩
    rw [accDigits_cons] at ha
    have : (0 * 10 + (c - 48)) % 2 ^ 64 = c - 48 := by omega
    rw [this] at ha; exact ha

theorem numText_int (F : FloatOps α) (n : Int) (h1 : -(2 : Int) ^ 63 ≤ n) (h2 : n < (2 : Int) ^ 63) :
    NumText F (saveInt n) (.int n) := by
  have hm : magnitude n < 2 ^ 64 := by unfold magnitude; omega
  obtain ⟨c, ds, hd, hc, hds, hacc⟩ := digits_decomp (magnitude n) hm
  have hr := digits_range (magnitude n)
  have hti := toInt64_magnitude n h1 h2
  by_cases hn : n < 0
  · have hs : saveInt n = 45 :: c :: ds := by simp [saveInt, hn, hd]
    simp only [hn, decide_true] at hti
    refine ⟨⟨45, c :: ds, hs, by decide⟩, ?_, ?_⟩
    · intro b hb
      rw [hs, ← hd] at hb
      rcases List.mem_cons.1 hb with rfl | hb
      · omega
      · have := hr b hb; omega
    · intro c' s' he tail ht
      rw [hs] at he
      injection he with he1 he2
      subst he1; subst he2
      refine ⟨_, parseNumeric_neg F c ds tail hc hds ht, ?_⟩
      rw [hacc, hti]; exact Equiv.int n
  · have hs : saveInt n = c :: ds := by simp [saveInt, hn, hd]
    simp only [hn, decide_false] at hti
    refine ⟨⟨c, ds, hs, by simp [numStart, hc]⟩, ?_, ?_⟩
    · intro b hb
      rw [hs, ← hd] at hb
      have := hr b hb; omega
    · intro c' s' he tail ht
      rw [hs] at he
      injection he with he1 he2
      subst he1; subst he2
      refine ⟨_, parseNumeric_digits F c ds tail hc hds ht, ?_⟩
      rw [hacc, hti]; exact Equiv.int n

theorem numText_real (F : FloatOps α) (x : α) (h : FloatOK F x) : NumText F (saveReal F x) (.real x) := by
  refine ⟨h.start, h.chars, ?_⟩
  intro c s he tail ht
  obtain ⟨y, hy, hp⟩ := h.parse c s he tail ht
  exact ⟨.real y, hy, Equiv.real x y hp.symm⟩

/-! ## the domain as an inductive predicate (internal form of `savable` + `FloatsOK`) -/

/-- no NUL byte -/
def StrOK (s : List Byte) : Prop := ∀ b ∈ s, b ≠ 0

/-- **Keys that stay different keys through a save / restore**: whatever values equal to two keys up to `Equiv` (equal
    integers / strings, floats with the same saved text) come back, `msameval` — the duplicate test of restore_mapping —
    tells them apart.  Follows from pairwise different integer / string / object keys when there is no float key
    (`keysDistinct_of_tags`), and for float keys from pairwise different saved texts plus the contract of `==` on the
    floats with those texts (`keysDistinct_of_tagsF`) -/
def KeysDistinct (F : FloatOps α) (ks : List (Value α)) : Prop :=
  ks.Pairwise (fun x y => ∀ x' y', Equiv F (erase x) x' → Equiv F (erase y) y' → sameKey F x' y' = false)

mutual
inductive Savable (F : FloatOps α) : Value α → Prop
  | int (n : Int) : -(2 : Int) ^ 63 ≤ n → n < (2 : Int) ^ 63 → Savable F (.int n)
  | real (x : α) : FloatOK F x → Savable F (.real x)
  | str (s : List Byte) : StrOK s → Savable F (.str s)
  | obj : Savable F .obj
  | arr (xs : Vals α) : SavableVals F xs → xs.length ≤ maxArray → Savable F (.arr xs)
  | cls (xs : Vals α) : SavableVals F xs → xs.length ≤ maxClass → Savable F (.cls xs)
  | map (ps : Pairs α) : SavablePairs F ps → KeysDistinct F ps.keys → Savable F (.map ps)
inductive SavableVals (F : FloatOps α) : Vals α → Prop
  | nil : SavableVals F .nil
  | cons (v : Value α) (r : Vals α) : Savable F v → SavableVals F r → SavableVals F (.cons v r)
inductive SavablePairs (F : FloatOps α) : Pairs α → Prop
  | nil : SavablePairs F .nil
  | cons (k v : Value α) (r : Pairs α) : Savable F k → Savable F v → SavablePairs F r → SavablePairs F (.cons k v r)
end

theorem strOK_iff (s : List Byte) : strOK s = true ↔ StrOK s := by
  simp [strOK, StrOK]


/-! ## (C) strings -/

/-! what is used of the regenerated escape sets -/

theorem saveEscaped_34 : saveEscaped.contains 34 = true := by decide
theorem saveEscaped_92 : saveEscaped.contains 92 = true := by decide
theorem saveEscaped_13 : saveEscaped.contains 13 = true := by decide
theorem saveEscaped_only (c : Byte) (h : saveEscaped.contains c = true) : c = 34 ∨ c = 92 ∨ c = 13 := by
  simp [saveEscaped, NV.Gen.C16.saveEscaped] at h
  omega
theorem swap_vals : swapFrom = 10 ∧ swapTo = 13 := ⟨rfl, rfl⟩

/-- `escByte` independent of the concrete lists -/
theorem escByte_eq (c : Byte) :
    escByte c = if c = 34 ∨ c = 92 ∨ c = 13 then [92, c] else if c = 10 then [13] else [c] := by
  unfold escByte
  by_cases h : c = 34 ∨ c = 92 ∨ c = 13
  · have : saveEscaped.contains c = true := by
      rcases h with rfl | rfl | rfl
      · exact saveEscaped_34
      · exact saveEscaped_92
      · exact saveEscaped_13
    rw [if_pos this, if_pos h]
  · have : ¬ (saveEscaped.contains c = true) := fun hc => h (saveEscaped_only c hc)
    rw [if_neg this, if_neg h, swap_vals.1, swap_vals.2]

/-- the restore side undoes the byte swap of the save side (both pairs are regenerated from the source) -/
theorem restore_swap_inverts_save : restoreSwapFrom = swapTo ∧ restoreSwapTo = swapFrom := by
  unfold restoreSwapFrom restoreSwapTo swapTo swapFrom
  decide

theorem decodeStr_cons_gen (c : Byte) (r : List Byte) : decodeStr (c :: r) =
    if c = 34 then some ([], r)
    else if c = 92 then
      match r with
      | [] => none
      | x :: r' => (decodeStr r').map (fun p => (x :: p.1, p.2))
    else (decodeStr r).map (fun p => ((if c = restoreSwapFrom then restoreSwapTo else c) :: p.1, p.2)) := by
  rw [decodeStr.eq_def]; rfl

theorem decodeStr_cons (c : Byte) (r : List Byte) : decodeStr (c :: r) =
    if c = 34 then some ([], r)
    else if c = 92 then
      match r with
      | [] => none
      | x :: r' => (decodeStr r').map (fun p => (x :: p.1, p.2))
    else (decodeStr r).map (fun p => ((if c = 13 then 10 else c) :: p.1, p.2)) := by
  rw [decodeStr_cons_gen, restore_swap_inverts_save.1, restore_swap_inverts_save.2, swap_vals.1, swap_vals.2]

theorem skipStr_cons (c : Byte) (r : List Byte) : skipStr (c :: r) =
    if c = 34 then some r
    else if c = 92 then
      match r with
      | [] => none
      | _ :: r' => skipStr r'
    else skipStr r := by
  rw [skipStr.eq_def]; rfl

theorem decodeStr_esc (s rest : List Byte) :
    decodeStr (escStr s ++ 34 :: rest) = some (s, rest) := by
  induction s with
  | nil => simp [escStr, decodeStr_cons]
  | cons c r ih =>
    simp only [escStr, escByte_eq]
    by_cases h1 : c = 34 ∨ c = 92 ∨ c = 13
    · simp [h1, decodeStr_cons, ih]
    · have h34 : c ≠ 34 := fun h => h1 (Or.inl h)
      have h92 : c ≠ 92 := fun h => h1 (Or.inr (Or.inl h))
      have h13 : c ≠ 13 := fun h => h1 (Or.inr (Or.inr h))
      by_cases h10 : c = 10
      · subst h10; simp [decodeStr_cons, ih]
      · simp [h10, decodeStr_cons, ih, h34, h92, h13]

theorem skipStr_esc (s rest : List Byte) : skipStr (escStr s ++ 34 :: rest) = some rest := by
  induction s with
  | nil => simp [escStr, skipStr_cons]
  | cons c r ih =>
    simp only [escStr, escByte_eq]
    by_cases h1 : c = 34 ∨ c = 92 ∨ c = 13
    · simp [h1, skipStr_cons, ih]
    · have h34 : c ≠ 34 := fun h => h1 (Or.inl h)
      have h92 : c ≠ 92 := fun h => h1 (Or.inr (Or.inl h))
      have h13 : c ≠ 13 := fun h => h1 (Or.inr (Or.inr h))
      by_cases h10 : c = 10
      · subst h10; simp [skipStr_cons, ih]
      · simp [h10, skipStr_cons, ih, h34, h92, h13]

/-- bytes that are not ASCII are neither quote nor backslash: the plain scan passes them one by one -/
theorem skipStr_drop_high : ∀ (m : Nat) (l : List Byte), (∀ b ∈ l.take m, 128 ≤ b) →
    skipStr (l.drop m) = skipStr l
  | 0, _, _ => by simp
  | m + 1, [], _ => by simp
  | m + 1, x :: r, h => by
    have hx : 128 ≤ x := h x (by simp)
    have ih := skipStr_drop_high m r (fun b hb => h b (by simp [hb]))
    have h34 : x ≠ 34 := by omega
    have h92 : x ≠ 92 := by omega
    rw [List.drop_succ_cons, ih, skipStr_cons]
    simp [h34, h92]

/-- the step of `restore_size` over one character -/
theorem mbStep_spec (mb : MbLen) (c : Byte) (r : List Byte) :
    ∃ m, mbStep mb (c :: r) = m + 1 ∧ m ≤ r.length ∧ ∀ b ∈ r.take m, 128 ≤ b := by
  unfold mbStep
  cases h : mb.len (c :: r) with
  | none => exact ⟨0, rfl, by omega, by simp⟩
  | some n =>
    have h1 := mb.pos _ _ h (by simp)
    have h2 := mb.le_length _ _ h
    have h3 := mb.cont _ _ h
    match n, h1, h2, h3 with
    | m + 1, _, h2, h3 =>
      refine ⟨m, rfl, by simpa using h2, ?_⟩
      simpa using h3

theorem mbStep_ascii (mb : MbLen) (c : Byte) (r : List Byte) (hc : c < 128) : mbStep mb (c :: r) = 1 := by
  unfold mbStep; rw [mb.ascii c r hc]; rfl

theorem skipStrMb_cons (mb : MbLen) (fuel : Nat) (c : Byte) (r : List Byte) :
    skipStrMb mb (fuel + 1) (c :: r) =
      if c = 34 then .closed r
      else if c = 92 then
        match (c :: r).drop (mbStep mb (c :: r)) with
        | [] => .open_
        | _ :: r'' => skipStrMb mb fuel r''
      else skipStrMb mb fuel ((c :: r).drop (mbStep mb (c :: r))) := by
  rw [skipStrMb.eq_def]; rfl

/-- the multibyte-aware scan of `restore_size` agrees with the plain scan, for every byte sequence -/
theorem skipStrMb_of_skipStr (mb : MbLen) : ∀ (n : Nat) (t : List Byte), t.length ≤ n → ∀ res,
    skipStr t = some res → ∀ fuel, t.length < fuel → skipStrMb mb fuel t = MbScan.closed res := by
  intro n
  induction n with
  | zero =>
    intro t ht res hs
    cases t with
    | nil => simp [skipStr] at hs
    | cons c r => simp at ht
  | succ n ih =>
    intro t ht res hs fuel hf
    cases t with
    | nil => simp [skipStr] at hs
    | cons c r =>
      cases fuel with
      | zero => omega
      | succ f =>
        simp only [List.length_cons] at ht hf
        rw [skipStr_cons] at hs
        rw [skipStrMb_cons]
        by_cases h34 : c = 34
        · simp only [h34, if_true] at hs ⊢
          cases hs; rfl
        · by_cases h92 : c = 92
          · subst h92
            rw [mbStep_ascii mb 92 r (by omega)]
            simp only [h34, if_false, if_true] at hs ⊢
            cases r with
            | nil => simp at hs
            | cons x r'' =>
              simp only [List.drop_succ_cons, List.drop_zero] at hs ⊢
              simp only [List.length_cons] at ht hf
              exact ih r'' (by omega) res hs f (by omega)
          · simp only [h34, h92, if_false] at hs ⊢
            obtain ⟨m, hm, hle, hhigh⟩ := mbStep_spec mb c r
            rw [hm, List.drop_succ_cons]
            have hd : skipStr (r.drop m) = some res := by rw [skipStr_drop_high m r hhigh]; exact hs
            have hl : (r.drop m).length ≤ r.length := by simp
            exact ih (r.drop m) (by omega) res hd f (by omega)

theorem skipStrMb_esc (mb : MbLen) (s rest : List Byte) (fuel : Nat)
    (hf : (escStr s ++ 34 :: rest).length < fuel) :
    skipStrMb mb fuel (escStr s ++ 34 :: rest) = MbScan.closed rest :=
  skipStrMb_of_skipStr mb _ _ (Nat.le_refl _) rest (skipStr_esc s rest) fuel hf

theorem escStr_bytes (s : List Byte) (hs : StrOK s) : ∀ b ∈ escStr s, b ≠ 0 := by
  induction s with
  | nil => simp [escStr]
  | cons c r ih =>
    have hc : c ≠ 0 := hs c (by simp)
    have ih' := ih (fun b hb => hs b (by simp [hb]))
    intro b hb
    simp only [escStr, List.mem_append] at hb
    rcases hb with hb | hb
    · rw [escByte_eq] at hb
      split at hb
      · simp at hb; rcases hb with rfl | rfl <;> omega
      · split at hb
        · simp at hb; omega
        · simp at hb; omega
    · exact ih' b hb

/-! ## inversion of `Savable` -/

section inv
variable {F : FloatOps α}

theorem Savable.int_inv {n : Int} (h : Savable F (.int n)) : -(2 : Int) ^ 63 ≤ n ∧ n < (2 : Int) ^ 63 := by
  cases h; exact ⟨by assumption, by assumption⟩
theorem Savable.real_inv {x : α} (h : Savable F (.real x)) : FloatOK F x := by
  cases h; assumption
theorem Savable.str_inv {s : List Byte} (h : Savable F (.str s)) : StrOK s := by
  cases h; assumption
theorem Savable.arr_inv {xs : Vals α} (h : Savable F (.arr xs)) : SavableVals F xs ∧ xs.length ≤ maxArray := by
  cases h; exact ⟨by assumption, by assumption⟩
theorem Savable.cls_len {xs : Vals α} (h : Savable F (.cls xs)) : xs.length ≤ maxClass := by
  cases h; assumption
theorem Savable.cls_inv {xs : Vals α} (h : Savable F (.cls xs)) : SavableVals F xs := by
  cases h; assumption
theorem Savable.map_inv {ps : Pairs α} (h : Savable F (.map ps)) :
    SavablePairs F ps ∧ KeysDistinct F ps.keys := by
  cases h; exact ⟨by assumption, by assumption⟩
theorem SavableVals.cons_inv {v : Value α} {r : Vals α} (h : SavableVals F (.cons v r)) :
    Savable F v ∧ SavableVals F r := by
  cases h; exact ⟨by assumption, by assumption⟩
theorem SavablePairs.cons_inv {k v : Value α} {r : Pairs α} (h : SavablePairs F (.cons k v r)) :
    Savable F k ∧ Savable F v ∧ SavablePairs F r := by
  cases h; exact ⟨by assumption, by assumption, by assumption⟩

end inv

/-! ## (A) a saved text has no NUL -/

mutual
theorem save_nz (F : FloatOps α) : (v : Value α) → Savable F v → ∀ b ∈ save F v, b ≠ 0
  | .int n, hs => by
    intro b hb; rw [save] at hb
    exact ((numText_int F n hs.int_inv.1 hs.int_inv.2).chars b hb).1
  | .real x, hs => by
    intro b hb; rw [save] at hb
    exact ((numText_real F x hs.real_inv).chars b hb).1
  | .str s, hs => by
    intro b hb
    simp only [save, List.mem_cons, List.mem_append, List.not_mem_nil, or_false] at hb
    rcases hb with rfl | hb | rfl
    · omega
    · exact escStr_bytes s hs.str_inv b hb
    · omega
  | .arr xs, hs => by
    intro b hb
    have ih := saveElems_nz F xs hs.arr_inv.1
    simp only [save, List.mem_cons, List.mem_append, List.not_mem_nil, or_false] at hb
    rcases hb with rfl | rfl | hb | rfl | rfl
    · omega
    · omega
    · exact ih b hb
    · omega
    · omega
  | .cls xs, hs => by
    intro b hb
    have ih := saveElems_nz F xs hs.cls_inv
    simp only [save, List.mem_cons, List.mem_append, List.not_mem_nil, or_false] at hb
    rcases hb with rfl | rfl | hb | rfl | rfl
    · omega
    · omega
    · exact ih b hb
    · omega
    · omega
  | .map ps, hs => by
    intro b hb
    have ih := savePairs_nz F ps hs.map_inv.1
    simp only [save, List.mem_cons, List.mem_append, List.not_mem_nil, or_false] at hb
    rcases hb with rfl | rfl | hb | rfl | rfl
    · omega
    · omega
    · exact ih b hb
    · omega
    · omega
  | .obj, _ => by simp [save]
theorem saveElems_nz (F : FloatOps α) : (xs : Vals α) → SavableVals F xs → ∀ b ∈ saveElems F xs, b ≠ 0
  | .nil, _ => by simp [saveElems]
  | .cons v r, hs => by
    intro b hb
    simp only [saveElems, List.mem_cons, List.mem_append] at hb
    rcases hb with hb | rfl | hb
    · exact save_nz F v hs.cons_inv.1 b hb
    · omega
    · exact saveElems_nz F r hs.cons_inv.2 b hb
theorem savePairs_nz (F : FloatOps α) : (ps : Pairs α) → SavablePairs F ps → ∀ b ∈ savePairs F ps, b ≠ 0
  | .nil, _ => by simp [savePairs]
  | .cons k v r, hs => by
    intro b hb
    simp only [savePairs, List.mem_cons, List.mem_append] at hb
    rcases hb with hb | rfl | hb | rfl | hb
    · exact save_nz F k hs.cons_inv.1 b hb
    · omega
    · exact save_nz F v hs.cons_inv.2.1 b hb
    · omega
    · exact savePairs_nz F r hs.cons_inv.2.2 b hb
end

theorem cstr_eq_self (t : List Byte) (h : ∀ b ∈ t, b ≠ 0) : cstr t = t := by
  unfold cstr
  induction t with
  | nil => rfl
  | cons c r ih =>
    have hc : c ≠ 0 := h c (by simp)
    simp only [List.takeWhile_cons, ne_eq, hc, not_false_eq_true, decide_true, ↓reduceIte]
    rw [ih (fun b hb => h b (by simp [hb]))]

/-! ## a saved text has no LF (the line terminator of the save file) -/

theorem escStr_nl (s : List Byte) : ∀ b ∈ escStr s, b ≠ 10 := by
  induction s with
  | nil => simp [escStr]
  | cons c r ih =>
    intro b hb
    simp only [escStr, List.mem_append] at hb
    rcases hb with hb | hb
    · rw [escByte_eq] at hb
      split at hb
      · simp at hb; rcases hb with rfl | rfl <;> omega
      · split at hb
        · simp at hb; omega
        · simp at hb; omega
    · exact ih b hb

mutual
theorem save_nl (F : FloatOps α) : (v : Value α) → Savable F v → ∀ b ∈ save F v, b ≠ 10
  | .int n, hs => by
    intro b hb; rw [save] at hb
    exact ((numText_int F n hs.int_inv.1 hs.int_inv.2).chars b hb).2.1
  | .real x, hs => by
    intro b hb; rw [save] at hb
    exact ((numText_real F x hs.real_inv).chars b hb).2.1
  | .str s, _ => by
    intro b hb
    simp only [save, List.mem_cons, List.mem_append, List.not_mem_nil, or_false] at hb
    rcases hb with rfl | hb | rfl
    · omega
    · exact escStr_nl s b hb
    · omega
  | .arr xs, hs => by
    intro b hb
    have ih := saveElems_nl F xs hs.arr_inv.1
    simp only [save, List.mem_cons, List.mem_append, List.not_mem_nil, or_false] at hb
    rcases hb with rfl | rfl | hb | rfl | rfl
    · omega
    · omega
    · exact ih b hb
    · omega
    · omega
  | .cls xs, hs => by
    intro b hb
    have ih := saveElems_nl F xs hs.cls_inv
    simp only [save, List.mem_cons, List.mem_append, List.not_mem_nil, or_false] at hb
    rcases hb with rfl | rfl | hb | rfl | rfl
    · omega
    · omega
    · exact ih b hb
    · omega
    · omega
  | .map ps, hs => by
    intro b hb
    have ih := savePairs_nl F ps hs.map_inv.1
    simp only [save, List.mem_cons, List.mem_append, List.not_mem_nil, or_false] at hb
    rcases hb with rfl | rfl | hb | rfl | rfl
    · omega
    · omega
    · exact ih b hb
    · omega
    · omega
  | .obj, _ => by simp [save]
theorem saveElems_nl (F : FloatOps α) : (xs : Vals α) → SavableVals F xs → ∀ b ∈ saveElems F xs, b ≠ 10
  | .nil, _ => by simp [saveElems]
  | .cons v r, hs => by
    intro b hb
    simp only [saveElems, List.mem_cons, List.mem_append] at hb
    rcases hb with hb | rfl | hb
    · exact save_nl F v hs.cons_inv.1 b hb
    · omega
    · exact saveElems_nl F r hs.cons_inv.2 b hb
theorem savePairs_nl (F : FloatOps α) : (ps : Pairs α) → SavablePairs F ps → ∀ b ∈ savePairs F ps, b ≠ 10
  | .nil, _ => by simp [savePairs]
  | .cons k v r, hs => by
    intro b hb
    simp only [savePairs, List.mem_cons, List.mem_append] at hb
    rcases hb with hb | rfl | hb | rfl | hb
    · exact save_nl F k hs.cons_inv.1 b hb
    · omega
    · exact save_nl F v hs.cons_inv.2.1 b hb
    · omega
    · exact savePairs_nl F r hs.cons_inv.2.2 b hb
end


/-! ## (D0) `svalue_save_size` succeeded: the nesting of the value is within MAX_SAVE_SVALUE_DEPTH -/

theorem saveSize_arr_some {F : FloatOps α} {d : Nat} {xs : Vals α} (h : (saveSize F d (.arr xs)).isSome = true) :
    d + 1 ≤ maxDepth ∧ (sizeElems F (d + 1) xs).isSome = true := by
  rw [saveSize] at h
  by_cases hd : d + 1 > maxDepth
  · simp [hd] at h
  · simp [hd] at h
    exact ⟨by omega, h⟩

theorem saveSize_cls_some {F : FloatOps α} {d : Nat} {xs : Vals α} (h : (saveSize F d (.cls xs)).isSome = true) :
    d + 1 ≤ maxDepth ∧ (sizeElems F (d + 1) xs).isSome = true := by
  rw [saveSize] at h
  by_cases hd : d + 1 > maxDepth
  · simp [hd] at h
  · simp [hd] at h
    exact ⟨by omega, h⟩

theorem saveSize_map_some {F : FloatOps α} {d : Nat} {ps : Pairs α} (h : (saveSize F d (.map ps)).isSome = true) :
    d + 1 ≤ maxDepth ∧ (sizePairs F (d + 1) ps).isSome = true := by
  rw [saveSize] at h
  by_cases hd : d + 1 > maxDepth
  · simp [hd] at h
  · simp [hd] at h
    exact ⟨by omega, h⟩

theorem sizeElems_cons_some {F : FloatOps α} {d : Nat} {v : Value α} {r : Vals α}
    (h : (sizeElems F d (.cons v r)).isSome = true) :
    (saveSize F d v).isSome = true ∧ (sizeElems F d r).isSome = true := by
  rw [sizeElems] at h
  cases h1 : saveSize F d v <;> cases h2 : sizeElems F d r <;> simp [h1, h2] at h ⊢

theorem sizePairs_cons_some {F : FloatOps α} {d : Nat} {k v : Value α} {r : Pairs α}
    (h : (sizePairs F d (.cons k v r)).isSome = true) :
    (saveSize F d k).isSome = true ∧ (saveSize F d v).isSome = true ∧ (sizePairs F d r).isSome = true := by
  rw [sizePairs] at h
  cases h1 : saveSize F d k <;> cases h2 : saveSize F d v <;> cases h3 : sizePairs F d r <;>
    simp [h1, h2, h3] at h ⊢

/-! ## (D) the size pre-pass, one branch per lemma -/

def delimOf (isMap idx : Bool) : Byte := if isMap && !idx then 58 else 44
def idxNext (isMap idx : Bool) : Bool := if isMap then !idx else idx

theorem delimOf_cases (isMap idx : Bool) : delimOf isMap idx = 44 ∨ delimOf isMap idx = 58 := by
  cases isMap <;> cases idx <;> simp [delimOf]

/-- the nesting test of restore_internal_size passes: restore_size (`top`) has none, below it the level is within
    MAX_SAVE_SVALUE_DEPTH -/
def NestOK (top : Bool) (nest : Nat) : Prop := top = true ∨ nest ≤ maxDepth

theorem pre_cons (mb : MbLen) (fuel nest : Nat) (top isMap idx : Bool) (c : Byte) (r : List Byte) (size : Nat)
    (zs : List Nat) (hc : c < 128) (hn : NestOK top nest) :
    preD mb (fuel + 1) nest top isMap idx (c :: r) size zs =
      if c = 34 then
        if top then
          match skipStrMb mb (r.length + 1) r with
          | .open_ => some ([], 0, [])
          | .closed (d :: r') =>
            if d = delimOf isMap idx then preD mb fuel nest top isMap (idxNext isMap idx) r' (size + 1) zs else none
          | .closed [] => none
        else
          match skipStr r with
          | some (d :: r') =>
            if d = delimOf isMap idx then preD mb fuel nest top isMap (idxNext isMap idx) r' (size + 1) zs else none
          | _ => none
      else if c = 40 then
        match r with
        | k :: r1 =>
          if k = 123 ∨ k = 91 ∨ k = 47 then
            match preD mb fuel (nest + 1) false (k = 91) false r1 0 [] with
            | some (d :: r', n, zs') =>
              if d = delimOf isMap idx then
                preD mb fuel nest top isMap (idxNext isMap idx) r' (size + 1) (zs ++ n :: zs') else none
            | _ => none
          else none
        | [] => none
      else if c = 93 then
        match r with
        | 41 :: r' => if isMap then some (r', size, zs) else none
        | _ => none
      else if c = 47 ∨ c = 125 then
        match r with
        | 41 :: r' => if !isMap then some (r', size, zs) else none
        | _ => none
      else if c = 58 ∨ c = 44 then
        if c = delimOf isMap idx then preD mb fuel nest top isMap (idxNext isMap idx) r (size + 1) zs else none
      else
        match afterDelim (delimOf isMap idx) r with
        | some r' => preD mb fuel nest top isMap (idxNext isMap idx) r' (size + 1) zs
        | none => none := by
  rw [preD.eq_def]
  have hl : (if top = true then (c :: r).drop (mbStep mb (c :: r)) else r) = r := by
    cases top <;> simp [mbStep_ascii mb c r hc]
  have hlim : (!top && decide (nest > maxDepth)) = false := by
    rcases hn with rfl | hn
    · simp
    · simp; intro _; omega
  simp only [hlim, Bool.false_eq_true, if_false, hl, delimOf, idxNext]
  rfl

section prelemmas
variable (mb : MbLen) (fuel nest : Nat) (top isMap idx : Bool) (size : Nat) (zs : List Nat)

/-- an empty element (an object reference): the delimiter itself -/
theorem pre_empty (d : Byte) (hd : delimOf isMap idx = d) (r : List Byte) (hn : NestOK top nest) :
    preD mb (fuel + 1) nest top isMap idx (d :: r) size zs =
      preD mb fuel nest top isMap (idxNext isMap idx) r (size + 1) zs := by
  have h := delimOf_cases isMap idx
  rw [hd] at h
  rw [pre_cons _ _ _ _ _ _ _ _ _ _ (by omega) hn, hd]
  rcases h with rfl | rfl <;> simp

theorem afterDelim_skip (d : Byte) (s rest : List Byte) (h : ∀ b ∈ s, b ≠ d) :
    afterDelim d (s ++ d :: rest) = some rest := by
  induction s with
  | nil => simp [afterDelim]
  | cons c r ih =>
    have hc : c ≠ d := h c (by simp)
    simp only [List.cons_append, afterDelim, hc, ↓reduceIte]
    exact ih (fun b hb => h b (by simp [hb]))

/-- a number -/
theorem pre_num (d : Byte) (hd : delimOf isMap idx = d) (c : Byte) (s rest : List Byte)
    (hc : numStart c = true) (hs : ∀ b ∈ s, b ≠ d) (hn : NestOK top nest) :
    preD mb (fuel + 1) nest top isMap idx (c :: (s ++ d :: rest)) size zs =
      preD mb fuel nest top isMap (idxNext isMap idx) rest (size + 1) zs := by
  rw [numStart_iff] at hc
  rw [pre_cons _ _ _ _ _ _ _ _ _ _ (by omega) hn, hd, afterDelim_skip d s rest hs]
  have h1 : c ≠ 34 := by omega
  have h2 : c ≠ 40 := by omega
  have h3 : c ≠ 93 := by omega
  have h4 : ¬ (c = 47 ∨ c = 125) := by omega
  have h5 : ¬ (c = 58 ∨ c = 44) := by omega
  simp only [h1, h2, h3, h4, h5, ↓reduceIte]

/-- a string -/
theorem pre_str (d : Byte) (hd : delimOf isMap idx = d) (s rest : List Byte) (hn : NestOK top nest) :
    preD mb (fuel + 1) nest top isMap idx (34 :: (escStr s ++ 34 :: d :: rest)) size zs =
      preD mb fuel nest top isMap (idxNext isMap idx) rest (size + 1) zs := by
  rw [pre_cons _ _ _ _ _ _ _ _ _ _ (by omega) hn, hd]
  cases top with
  | true =>
    rw [skipStrMb_esc mb s (d :: rest) _ (by omega)]
    simp
  | false =>
    rw [skipStr_esc]
    simp

/-- a nested container -/
theorem pre_nested (d : Byte) (hd : delimOf isMap idx = d) (k : Byte) (hk : k = 123 ∨ k = 91 ∨ k = 47)
    (r1 rest : List Byte) (n : Nat) (zs' : List Nat)
    (h : preD mb fuel (nest + 1) false (k = 91) false r1 0 [] = some (d :: rest, n, zs')) (hn : NestOK top nest) :
    preD mb (fuel + 1) nest top isMap idx (40 :: k :: r1) size zs =
      preD mb fuel nest top isMap (idxNext isMap idx) rest (size + 1) (zs ++ n :: zs') := by
  rw [pre_cons _ _ _ _ _ _ _ _ _ _ (by omega) hn, hd]
  simp only [hk, h]
  simp

theorem pre_close_vals (c : Byte) (hc : c = 125 ∨ c = 47) (rest : List Byte) (hn : NestOK top nest) :
    preD mb (fuel + 1) nest top false idx (c :: 41 :: rest) size zs = some (rest, size, zs) := by
  rw [pre_cons _ _ _ _ _ _ _ _ _ _ (by omega) hn]
  rcases hc with rfl | rfl <;> simp

theorem pre_close_map (rest : List Byte) (hn : NestOK top nest) :
    preD mb (fuel + 1) nest top true idx (93 :: 41 :: rest) size zs = some (rest, size, zs) := by
  rw [pre_cons _ _ _ _ _ _ _ _ _ _ (by omega) hn]
  simp

end prelemmas

/-! ## (D) the value pass -/

def Vals.app : Vals α → Vals α → Vals α
  | .nil, ys => ys
  | .cons x r, ys => .cons x (r.app ys)

def Pairs.app : Pairs α → Pairs α → Pairs α
  | .nil, ys => ys
  | .cons k v r, ys => .cons k v (r.app ys)

theorem Vals.snoc_app : (acc : Vals α) → (v : Value α) → (ys : Vals α) →
    (acc.snoc v).app ys = acc.app (.cons v ys)
  | .nil, _, _ => rfl
  | .cons x r, v, ys => by simp [Vals.snoc, Vals.app, Vals.snoc_app r v ys]

theorem Vals.app_nil : (acc : Vals α) → acc.app .nil = acc
  | .nil => rfl
  | .cons x r => by simp [Vals.app, Vals.app_nil r]

theorem Pairs.snoc_app : (acc : Pairs α) → (k v : Value α) → (ys : Pairs α) →
    (acc.snoc k v).app ys = acc.app (.cons k v ys)
  | .nil, _, _, _ => rfl
  | .cons a b r, k, v, ys => by simp [Pairs.snoc, Pairs.app, Pairs.snoc_app r k v ys]

theorem Pairs.app_nil : (acc : Pairs α) → acc.app .nil = acc
  | .nil => rfl
  | .cons a b r => by simp [Pairs.app, Pairs.app_nil r]

/-- what the value pass reads at an element position, with the delimiter `d` after it -/
inductive Item (F : FloatOps α) (fuel : Nat) (d : Byte) :
    List Byte → List Nat → Value α → List Byte → List Nat → Prop
  | str (r s rest zs) : decodeStr r = some (s, d :: rest) → Item F fuel d (34 :: r) zs (.str s) rest zs
  | nested (r zs w rest more) : rdNested F fuel r zs = .ok ⟨w, some (d :: rest), more⟩ →
      Item F fuel d (40 :: r) zs w rest more
  | empty (rest zs) : Item F fuel d (d :: rest) zs (.int 0) rest zs
  | num (c r w rest zs) : numStart c = true → parseNumeric F c r = some (w, d :: rest) →
      Item F fuel d (c :: r) zs w rest zs

theorem rdElems_done (F : FloatOps α) (fuel : Nat) (c1 c2 : Byte) (r : List Byte) (zs : List Nat)
    (acc : Vals α) (g : RErr) :
    rdElems F (fuel + 1) (c1 :: c2 :: r) 0 zs acc g = .ok ⟨acc, some r, zs⟩ := by
  rw [rdElems.eq_def]

theorem rdElems_step (F : FloatOps α) (fuel : Nat) (s : List Byte) (zs : List Nat) (w : Value α)
    (rest : List Byte) (more : List Nat) (h : Item F fuel 44 s zs w rest more) (n : Nat) (acc : Vals α)
    (g : RErr) :
    rdElems F (fuel + 1) s (n + 1) zs acc g = rdElems F fuel rest n more (acc.snoc w) g := by
  cases h with
  | str r s rest zs h =>
    rw [rdElems.eq_def]; simp [h, advCur]
  | nested r zs w rest more h =>
    rw [rdElems.eq_def]; simp [h, advCur]
  | empty rest zs =>
    rw [rdElems.eq_def]; simp
  | num c r w rest zs hc h =>
    have hc' := (numStart_iff c).1 hc
    have h1 : c ≠ 34 := by omega
    have h2 : c ≠ 44 := by omega
    have h3 : c ≠ 40 := by omega
    rw [rdElems.eq_def]; simp [h, h1, h2, h3, hc]

theorem rdNested_arr (F : FloatOps α) (fuel : Nat) (r : List Byte) (n : Nat) (zs' : List Nat) (ys : Vals α)
    (cur : Cur) (more : List Nat) (hn : n ≤ maxArray)
    (h : rdElems F fuel r n zs' .nil .array = .ok ⟨ys, cur, more⟩) :
    rdNested F (fuel + 1) (123 :: r) (n :: zs') = .ok ⟨.arr ys, cur, more⟩ := by
  rw [rdNested.eq_def]; simp [h, Nat.not_lt.2 hn]

theorem rdNested_cls (F : FloatOps α) (fuel : Nat) (r : List Byte) (n : Nat) (zs' : List Nat) (ys : Vals α)
    (cur : Cur) (more : List Nat) (hn : n ≤ maxClass)
    (h : rdElems F fuel r n zs' .nil .cls = .ok ⟨ys, cur, more⟩) :
    rdNested F (fuel + 1) (47 :: r) (n :: zs') = .ok ⟨.cls ys, cur, more⟩ := by
  rw [rdNested.eq_def]; simp [h, Nat.not_lt.2 hn]

theorem rdNested_map_empty (F : FloatOps α) (fuel : Nat) (c1 c2 : Byte) (r : List Byte) (zs' : List Nat) :
    rdNested F (fuel + 1) (91 :: c1 :: c2 :: r) (0 :: zs') = .ok ⟨.map .nil, some r, zs'⟩ := by
  rw [rdNested.eq_def]; simp

theorem rdNested_map (F : FloatOps α) (fuel : Nat) (r : List Byte) (n : Nat) (zs' : List Nat) (qs : Pairs α)
    (cur : Cur) (more : List Nat) (hn : n ≠ 0)
    (h : rdMap F fuel r zs' .nil = .ok ⟨qs, cur, more⟩) :
    rdNested F (fuel + 1) (91 :: r) (n :: zs') = .ok ⟨.map qs, cur, more⟩ := by
  rw [rdNested.eq_def]; simp [h, hn]

theorem rdMap_done (F : FloatOps α) (fuel : Nat) (c : Byte) (r : List Byte) (zs : List Nat) (acc : Pairs α) :
    rdMap F (fuel + 1) (93 :: c :: r) zs acc = .ok ⟨acc, some r, zs⟩ := by
  rw [rdMap.eq_def]; simp

theorem Item.first (F : FloatOps α) (fuel : Nat) (d : Byte) (hd : d = 44 ∨ d = 58) (s : List Byte)
    (zs : List Nat) (w : Value α) (rest : List Byte) (more : List Nat) (h : Item F fuel d s zs w rest more) :
    ∃ c r, s = c :: r ∧ c ≠ 93 := by
  cases h with
  | str r s rest zs h => exact ⟨_, _, rfl, by omega⟩
  | nested r zs w rest more h => exact ⟨_, _, rfl, by omega⟩
  | empty rest zs => exact ⟨_, _, rfl, by omega⟩
  | num c r w rest zs hc h => exact ⟨_, _, rfl, by rw [numStart_iff] at hc; omega⟩

theorem rdMap_step (F : FloatOps α) (fuel : Nat) (s : List Byte) (zs : List Nat) (k : Value α)
    (s2 : List Byte) (zs1 : List Nat) (h1 : Item F fuel 58 s zs k s2 zs1) (w : Value α) (s3 : List Byte)
    (zs2 : List Nat) (h2 : Item F fuel 44 s2 zs1 w s3 zs2) (acc : Pairs α) :
    rdMap F (fuel + 1) s zs acc = rdMap F fuel s3 zs2 (insertKV F acc k w) := by
  cases h1 with
  | str r s rest zs h =>
    cases h2 with
    | str r' s' rest' zs' h' => rw [rdMap.eq_def]; simp [h, h', advCur]
    | nested r' zs' w' rest' more' h' => rw [rdMap.eq_def]; simp [h, h', advCur]
    | empty rest' zs' => rw [rdMap.eq_def]; simp [h, advCur]
    | num c' r' w' rest' zs' hc' h' =>
      have hc'' := (numStart_iff c').1 hc'
      have e1 : c' ≠ 34 := by omega
      have e2 : c' ≠ 44 := by omega
      have e3 : c' ≠ 40 := by omega
      rw [rdMap.eq_def]; simp [h, h', advCur, e1, e2, e3, hc']
  | nested r zs w rest more h =>
    cases h2 with
    | str r' s' rest' zs' h' => rw [rdMap.eq_def]; simp [h, h', advCur]
    | nested r' zs' w' rest' more' h' => rw [rdMap.eq_def]; simp [h, h', advCur]
    | empty rest' zs' => rw [rdMap.eq_def]; simp [h, advCur]
    | num c' r' w' rest' zs' hc' h' =>
      have hc'' := (numStart_iff c').1 hc'
      have e1 : c' ≠ 34 := by omega
      have e2 : c' ≠ 44 := by omega
      have e3 : c' ≠ 40 := by omega
      rw [rdMap.eq_def]; simp [h, h', advCur, e1, e2, e3, hc']
  | empty rest zs =>
    cases h2 with
    | str r' s' rest' zs' h' => rw [rdMap.eq_def]; simp [h', advCur]
    | nested r' zs' w' rest' more' h' => rw [rdMap.eq_def]; simp [h', advCur]
    | empty rest' zs' => rw [rdMap.eq_def]; simp
    | num c' r' w' rest' zs' hc' h' =>
      have hc'' := (numStart_iff c').1 hc'
      have e1 : c' ≠ 34 := by omega
      have e2 : c' ≠ 44 := by omega
      have e3 : c' ≠ 40 := by omega
      rw [rdMap.eq_def]; simp [h', e1, e2, e3, hc']
  | num c r w rest zs hc h =>
    have hc0 := (numStart_iff c).1 hc
    have f1 : c ≠ 34 := by omega
    have f2 : c ≠ 58 := by omega
    have f3 : c ≠ 40 := by omega
    have f4 : c ≠ 93 := by omega
    cases h2 with
    | str r' s' rest' zs' h' => rw [rdMap.eq_def]; simp [h, h', advCur, f1, f2, f3, f4, hc]
    | nested r' zs' w' rest' more' h' => rw [rdMap.eq_def]; simp [h, h', advCur, f1, f2, f3, f4, hc]
    | empty rest' zs' => rw [rdMap.eq_def]; simp [h, f1, f2, f3, f4, hc]
    | num c' r' w' rest' zs' hc' h' =>
      have hc'' := (numStart_iff c').1 hc'
      have e1 : c' ≠ 34 := by omega
      have e2 : c' ≠ 44 := by omega
      have e3 : c' ≠ 40 := by omega
      rw [rdMap.eq_def]; simp [h, h', e1, e2, e3, hc', f1, f2, f3, f4, hc]

/-! ## mapping keys -/

theorem Pairs.keys_snoc : (acc : Pairs α) → (k v : Value α) → (acc.snoc k v).keys = acc.keys ++ [k]
  | .nil, _, _ => rfl
  | .cons a b r, k, v => by simp [Pairs.snoc, Pairs.keys, Pairs.keys_snoc r k v]

theorem insertKV_snoc (F : FloatOps α) : (acc : Pairs α) → (k v : Value α) →
    (∀ a ∈ acc.keys, sameKey F a k = false) → insertKV F acc k v = acc.snoc k v
  | .nil, _, _, _ => rfl
  | .cons a b r, k, v, h => by
    have ha : sameKey F a k = false := h a (by simp [Pairs.keys])
    have ih := insertKV_snoc F r k v (fun x hx => h x (by simp [Pairs.keys, hx]))
    simp [insertKV, ha, Pairs.snoc, ih]

theorem sameKey_tag (F : FloatOps α) (a k : Value α) (h : sameKey F a k = true) (hk : isReal k = false) :
    ∃ t, keyTag a = some t ∧ keyTag k = some t := by
  cases a <;> cases k <;> simp [sameKey, keyTag, isReal] at h hk ⊢
  · exact h.symm
  · exact h.symm

theorem Equiv.keyTag_eq {F : FloatOps α} {a b : Value α} (h : Equiv F a b) : keyTag a = keyTag b := by
  cases h <;> rfl

theorem Equiv.isReal_eq {F : FloatOps α} {a b : Value α} (h : Equiv F a b) : isReal a = isReal b := by
  cases h <;> rfl

theorem keyTag_erase (v : Value α) : keyTag (erase v) = keyTag v := by
  cases v <;> simp [erase, keyTag]

theorem isReal_erase (v : Value α) : isReal (erase v) = isReal v := by
  cases v <;> simp [erase, isReal]

/-- no float keys and pairwise different integer / string / object keys: the keys stay different keys -/
theorem keysDistinct_of_tags (F : FloatOps α) : ∀ ks : List (Value α), (∀ k ∈ ks, isReal k = false) →
    (ks.filterMap keyTag).Nodup → KeysDistinct F ks
  | [], _, _ => List.Pairwise.nil
  | x :: r, hr, hn => by
    unfold KeysDistinct
    rw [List.pairwise_cons]
    refine ⟨?_, keysDistinct_of_tags F r (fun k hk => hr k (by simp [hk])) ?_⟩
    · intro y hy x' y' ex ey
      cases hs : sameKey F x' y' with
      | false => rfl
      | true =>
        have hyr : isReal y' = false := by rw [← ey.isReal_eq, isReal_erase]; exact hr y (by simp [hy])
        obtain ⟨t, h1, h2⟩ := sameKey_tag F x' y' hs hyr
        have hx : keyTag x = some t := by rw [← keyTag_erase, ex.keyTag_eq]; exact h1
        have hyt : keyTag y = some t := by rw [← keyTag_erase, ey.keyTag_eq]; exact h2
        simp only [List.filterMap_cons, hx] at hn
        rw [List.nodup_cons] at hn
        exact absurd (List.mem_filterMap.2 ⟨y, hy, hyt⟩) hn.1
    · simp only [List.filterMap_cons] at hn
      cases hx : keyTag x with
      | none => simpa [hx] using hn
      | some t => rw [hx] at hn; exact (List.nodup_cons.1 hn).2

/-- identity of a key when float keys are admitted: a float key is identified by its saved text -/
def keyTagF (F : FloatOps α) : Value α → Option ((Int ⊕ List Byte) ⊕ List Byte)
  | .real x => some (.inr (saveReal F x))
  | v => (keyTag v).map .inl

/-- the contract of `==` (msameval on float keys) needed for the float keys of ONE mapping: floats that print like two
    of its float keys and compare equal belong to keys that print alike.  True of IEEE `==` except for the pair
    0.0 / -0.0 (equal, printed "0.0" / "-0.0") — which no mapping holds as two keys, msameval identifying them. -/
def EqPrintOK (F : FloatOps α) (ks : List (Value α)) : Prop :=
  ∀ a b, Value.real a ∈ ks → Value.real b ∈ ks → ∀ a' b', saveReal F a' = saveReal F a → saveReal F b' = saveReal F b →
    F.eq a' b' = true → saveReal F a = saveReal F b

theorem sameKey_tagF (F : FloatOps α) (x y x' y' : Value α) (ex : Equiv F (erase x) x') (ey : Equiv F (erase y) y')
    (hs : sameKey F x' y' = true)
    (hc : ∀ a b a' b', x = .real a → y = .real b → saveReal F a' = saveReal F a → saveReal F b' = saveReal F b →
      F.eq a' b' = true → saveReal F a = saveReal F b) :
    ∃ t, keyTagF F x = some t ∧ keyTagF F y = some t := by
  by_cases hr : isReal y' = true
  · cases x' <;> cases y' <;> simp [sameKey, isReal] at hs hr
    rename_i a' b'
    cases x <;> rw [erase] at ex <;> cases ex
    cases y <;> rw [erase] at ey <;> cases ey
    rename_i a ha b hb
    have := hc a b a' b' rfl rfl ha.symm hb.symm hs
    exact ⟨.inr (saveReal F a), rfl, by simp [keyTagF, this]⟩
  · have hr' : isReal y' = false := by simpa using hr
    obtain ⟨t, h1, h2⟩ := sameKey_tag F x' y' hs hr'
    have hx : keyTag x = some t := by rw [← keyTag_erase, ex.keyTag_eq]; exact h1
    have hy : keyTag y = some t := by rw [← keyTag_erase, ey.keyTag_eq]; exact h2
    refine ⟨.inl t, ?_, ?_⟩
    · cases x <;> simp [keyTagF, keyTag] at hx ⊢ <;> exact hx
    · cases y <;> simp [keyTagF, keyTag] at hy ⊢ <;> exact hy

/-- float keys admitted: pairwise different keys — float keys by their saved texts — stay different keys, given the
    `==` contract on the floats with those texts -/
theorem keysDistinct_of_tagsF (F : FloatOps α) : ∀ ks : List (Value α), (ks.filterMap (keyTagF F)).Nodup →
    EqPrintOK F ks → KeysDistinct F ks
  | [], _, _ => List.Pairwise.nil
  | x :: r, hn, hc => by
    unfold KeysDistinct
    rw [List.pairwise_cons]
    refine ⟨?_, keysDistinct_of_tagsF F r ?_ ?_⟩
    · intro y hy x' y' ex ey
      cases hs : sameKey F x' y' with
      | false => rfl
      | true =>
        obtain ⟨t, hx, hyt⟩ := sameKey_tagF F x y x' y' ex ey hs (by
          intro a b a' b' h1 h2 h3 h4 h5
          exact hc a b (by rw [h1]; simp) (by rw [← h2]; simp [hy]) a' b' h3 h4 h5)
        simp only [List.filterMap_cons, hx] at hn
        rw [List.nodup_cons] at hn
        exact absurd (List.mem_filterMap.2 ⟨y, hy, hyt⟩) hn.1
    · simp only [List.filterMap_cons] at hn
      cases hx : keyTagF F x with
      | none => simpa [hx] using hn
      | some t => rw [hx] at hn; exact (List.nodup_cons.1 hn).2
    · intro a b ha hb
      exact hc a b (by simp [ha]) (by simp [hb])

mutual
/-- the decidable domain check plus the float contract give the inductive form -/
theorem savable_bridge (F : FloatOps α) : (v : Value α) → savable v = true → FloatsOK F v → Savable F v
  | .int n, h, _ => by
    simp only [savable, Bool.and_eq_true, decide_eq_true_eq] at h
    exact Savable.int n h.1 h.2
  | .real x, _, hf => by
    rw [FloatsOK] at hf
    exact Savable.real x hf
  | .str s, h, _ => by
    rw [savable] at h
    exact Savable.str s ((strOK_iff s).1 h)
  | .obj, _, _ => Savable.obj
  | .arr xs, h, hf => by
    simp only [savable, Bool.and_eq_true, decide_eq_true_eq] at h
    rw [FloatsOK] at hf
    exact Savable.arr xs (savableVals_bridge F xs h.2 hf) h.1
  | .cls xs, h, hf => by
    simp only [savable, Bool.and_eq_true, decide_eq_true_eq] at h
    rw [FloatsOK] at hf
    exact Savable.cls xs (savableVals_bridge F xs h.2 hf) h.1
  | .map ps, h, hf => by
    simp only [savable, Bool.and_eq_true, decide_eq_true_eq, List.all_eq_true, Bool.not_eq_true'] at h
    rw [FloatsOK] at hf
    exact Savable.map ps (savablePairs_bridge F ps h.1.1 hf) (keysDistinct_of_tags F ps.keys h.1.2 h.2)
theorem savableVals_bridge (F : FloatOps α) : (xs : Vals α) → savableVals xs = true → FloatsOKVals F xs →
    SavableVals F xs
  | .nil, _, _ => SavableVals.nil
  | .cons v r, h, hf => by
    simp only [savableVals, Bool.and_eq_true] at h
    rw [FloatsOKVals] at hf
    exact SavableVals.cons v r (savable_bridge F v h.1 hf.1) (savableVals_bridge F r h.2 hf.2)
theorem savablePairs_bridge (F : FloatOps α) : (ps : Pairs α) → savablePairs ps = true → FloatsOKPairs F ps →
    SavablePairs F ps
  | .nil, _, _ => SavablePairs.nil
  | .cons k v r, h, hf => by
    simp only [savablePairs, Bool.and_eq_true] at h
    rw [FloatsOKPairs] at hf
    exact SavablePairs.cons k v r (savable_bridge F k h.1.1 hf.1) (savable_bridge F v h.1.2 hf.2.1)
      (savablePairs_bridge F r h.2 hf.2.2)
end

/-! ## the size table written by the pre-pass -/

def Pairs.len : Pairs α → Nat
  | .nil => 0
  | .cons _ _ r => r.len + 1

mutual
/-- sizes of the containers nested in a value, in the order in which their text opens -/
def tbl : Value α → List Nat
  | .arr xs => xs.length :: tblVals xs
  | .cls xs => xs.length :: tblVals xs
  | .map ps => (2 * ps.len) :: tblPairs ps
  | .int _ => []
  | .real _ => []
  | .str _ => []
  | .obj => []
def tblVals : Vals α → List Nat
  | .nil => []
  | .cons v r => tbl v ++ tblVals r
def tblPairs : Pairs α → List Nat
  | .nil => []
  | .cons k v r => tbl k ++ (tbl v ++ tblPairs r)
end

end NV.C16
