/-
C16 — the hash table of a mapping while `restore_mapping` (lib/lpc/object.c) fills it: bucket choice `oi & mask`,
duplicate test in the chain, `--m->unfilled`, `growMap()` (lib/lpc/mapping.c) doubling the table in the middle of the
restore, and the re-derivation of the pending pair's bucket after the growth
(`if (oi & ++mask) elt2 = a[i |= mask]; mask <<= 1; mask--;`) — with the C operators `&`, `|` on the hash.

A table is the list of its buckets (chains, head first); only keys are kept (values play no part in where a node
lives).  `h k` is `svalue_to_int(key)` read as an unsigned number (only the bits below the table size are ever used;
for strings it is the address of the shared string, so the theorems quantify over EVERY `h`).
The lookup `find` is node_find_in_mapping / find_in_mapping: `a[svalue_to_int(k) & m->table_size]`, then the chain.
Core Lean only.
-/
import NV.Gen.C16

namespace NV.C16.Hash

/-- the table: buckets (`m->table[0 .. table_size]`) and `m->unfilled` (an `unsigned short`) -/
structure Tbl (κ : Type) where
  buckets : List (List κ)
  unfilled : Nat
  deriving Repr

variable {κ : Type} [DecidableEq κ]

/-- `m->table_size` (number of buckets minus one: the mask) -/
def Tbl.mask (t : Tbl κ) : Nat := t.buckets.length - 1

/-- `FILL_PERCENT`, `MAX_TABLE_SIZE` (lib/lpc/mapping.h) — REGENERATED -/
def fillPercent : Nat := NV.Gen.C16.fillPercent
def maxTableSize : Nat := NV.Gen.C16.maxTableSize

/-- `unsigned short` decrement / increment -/
def dec16 (n : Nat) : Nat := (n + 65535) % 65536
def inc16 (n : Nat) : Nat := (n + 1) % 65536

/-- node_find_in_mapping: the chain of bucket `svalue_to_int(k) & table_size` holds the key -/
def find (h : κ → Nat) (t : Tbl κ) (k : κ) : Bool :=
  (t.buckets.getD (h k &&& t.mask) []).contains k

/-- growMap: the nodes of old bucket `j` whose hash has bit `oldsize` clear stay in `a[j]` (in order) ... -/
def splitLo (h : κ → Nat) (old : Nat) (c : List κ) : List κ := c.filter (fun k => h k &&& old == 0)
/-- ... the others are pushed, one by one, onto the front of `a[j + oldsize]` -/
def splitHi (h : κ → Nat) (old : Nat) (c : List κ) : List κ := (c.filter (fun k => h k &&& old != 0)).reverse

/-- the `unfilled` bookkeeping of growMap for one old bucket: `m->unfilled--` when the first node arrives in the
    (empty) upper bucket, `m->unfilled++` when the lower bucket ends up empty -/
def growUnf (h : κ → Nat) (old : Nat) (unf : Nat) (c : List κ) : Nat :=
  if c = [] then unf else
    let u := if splitHi h old c ≠ [] then dec16 unf else unf
    if splitLo h old c = [] then inc16 u else u

/-- `growMap(m)`: `none` = it returned 0 (`newsize > MAX_TABLE_SIZE`; restore_mapping then raises "Out of memory") -/
def grow (h : κ → Nat) (t : Tbl κ) : Option (Tbl κ) :=
  let old := t.buckets.length
  if old * 2 > maxTableSize then none
  else
    let unf0 := (old % 65536 * fillPercent / 100) % 65536
    some ⟨t.buckets.map (splitLo h old) ++ t.buckets.map (splitHi h old),
          t.buckets.reverse.foldl (growUnf h old) unf0⟩

/-- One pair of the `while (1)` loop of restore_mapping, from `oi = MAP_POINTER_HASH(key)` to the linking of the new
    node (`none` = error("Out of memory")).  `mask`, `a` of the C code are `t.mask`, `t.buckets`. -/
def insert (h : κ → Nat) (t : Tbl κ) (k : κ) : Option (Tbl κ) :=
  let mask := t.mask
  let oi := h k
  let i := oi &&& mask
  let chain := t.buckets.getD i []
  if chain ≠ [] then
    -- `if ((elt2 = elt = a[i]))`: search the chain with msameval
    if chain.contains k then some t                                   -- duplicate key: value replaced, `continue`
    else some ⟨t.buckets.set i (k :: chain), t.unfilled⟩              -- `(a[i] = elt)->next = elt2`
  else
    -- `else if (!(--m->unfilled))`
    let unf := dec16 t.unfilled
    if unf = 0 then
      match grow h ⟨t.buckets, unf⟩ with
      | none => none
      | some g =>
        -- `a = m->table; if (oi & ++mask) elt2 = a[i |= mask]; mask <<= 1; mask--;`   (elt2 is NULL otherwise)
        let size := mask + 1
        if oi &&& size ≠ 0 then
          let i' := i ||| size
          some ⟨g.buckets.set i' (k :: g.buckets.getD i' []), g.unfilled⟩
        else some ⟨g.buckets.set i [k], g.unfilled⟩
    else some ⟨t.buckets.set i [k], unf⟩

/-- the pairs of a save text, in file order -/
def insertAll (h : κ → Nat) : Tbl κ → List κ → Option (Tbl κ)
  | t, [] => some t
  | t, k :: ks =>
    match insert h t k with
    | none => none
    | some t' => insertAll h t' ks

/-- allocate_mapping(n): a power of two of empty buckets, `unfilled = size * FILL_PERCENT / 100` -/
def empty (e : Nat) : Tbl κ := ⟨List.replicate (2 ^ e) [], 2 ^ e * fillPercent / 100⟩

/-- smallest power of two above `n` (what the or-smear `n |= n >> 1; n |= n >> 2; n |= n >> 4; if (n & 0xff00) n |= n >> 8;
    n++` of allocate_mapping computes for 8 < n < 65536) — compared with the real table sizes by the run, not proved
    against the smear -/
def pow2Above (n : Nat) : Nat → Nat → Nat
  | 0, p => p
  | fuel + 1, p => if p > n then p else pow2Above n fuel (p * 2)

/-- `allocate_mapping(n)`: `MAP_HASH_TABLE_SIZE` buckets for small `n`, else the next power of two above `n`;
    `unfilled = size * FILL_PERCENT / 100` -/
def allocate (n : Nat) : Tbl κ :=
  let size := if n > NV.Gen.C16.mapHashTableSize then pow2Above n 20 1 else NV.Gen.C16.mapHashTableSize
  ⟨List.replicate size [], size * fillPercent / 100⟩

/-- `svalue_to_int` of an integer key: `(int) MAP_POINTER_HASH(x)` = the 64-bit number shifted right arithmetically,
    truncated to 32 bits; read as unsigned (only `& mask` with masks below 2^16 is ever applied) -/
def intKeyHash (x : Int) : Nat := ((x / (2 ^ NV.Gen.C16.hashShift : Int)) % (2 ^ 32 : Int)).toNat

/-- the structural invariant every lookup relies on: the number of buckets is a power of two and every node sits in
    the bucket its hash selects -/
def WF (h : κ → Nat) (t : Tbl κ) : Prop :=
  (∃ e, t.buckets.length = 2 ^ e) ∧
  ∀ i c, t.buckets[i]? = some c → ∀ k ∈ c, h k &&& t.mask = i

end NV.C16.Hash
