/-
C16 — Lean-checked witnesses: the FULL round-trip statement ("every savable value comes back equal") is false
for the code as it is; each theorem below evaluates the model on the input of an open known finding
(known/C16.jsonl replays the same input on the real driver).  The provable statement is `roundtrip_partial`
(NV/C16/Props.lean), whose side condition `Savable` excludes exactly these regions.
-/
import NV.C16.Model

namespace NV.C16.Witness

open NV.C16

/-- a float parameter whose every float prints as "1.5" -/
def unitF : FloatOps Unit :=
  ⟨fun _ => [49, 46, 53], fun _ => (), fun _ _ => (), fun _ _ => (), fun _ _ => (), fun _ => (), fun _ => (),
   fun _ _ => true⟩

/-- a float parameter whose float prints as "inf" (what "%g" gives for an infinity) -/
def infF : FloatOps Unit := { unitF with print := fun _ => [105, 110, 102] }

/-- mblen of a locale in which exactly the ASCII bytes are characters (every byte ≥ 128 is an invalid sequence):
    the behaviour of the UTF-8 locale on a stray byte such as 0xff -/
def asciiMb : MbLen where
  len s := match s with
    | [] => some 0
    | c :: _ => if c < 128 then some 1 else none
  pos s n h hs := by
    cases s with
    | nil => exact absurd rfl hs
    | cons c r => simp only at h; split at h <;> simp_all
  le_length s n h := by
    cases s with
    | nil => simp_all
    | cons c r => simp only at h; split at h <;> simp_all
  ascii c r h := by simp [h]
  cont s n h := by
    cases s with
    | nil => simp_all
    | cons c r => simp only at h; split at h <;> simp_all

/-- the full statement for strings: every NUL-free string survives save + restore -/
def RoundtripStr_Full : Prop :=
  ∀ s : List Nat, (∀ b ∈ s, b ≠ 0) → restoreVariable unitF asciiMb (save unitF (.str s)) = RvOut.value (.str s)

/-- what the model computes for the string "\r": the string "\n"  (known finding C16-K1-cr) -/
theorem cr_comes_back_as_lf :
    restoreVariable unitF asciiMb (save unitF (.str [13])) = RvOut.value (.str [10]) := by rfl

theorem roundtripStr_Full_false : ¬ RoundtripStr_Full := by
  intro h
  have h1 := h [13] (by simp)
  rw [cr_comes_back_as_lf] at h1
  cases h1

/-- a string with a byte that is no character of the locale restores on its own ... -/
theorem stray_byte_alone_ok :
    restoreVariable unitF asciiMb (save unitF (.str [255])) = RvOut.value (.str [255]) := by rfl

/-- ... but not inside an array: restore_size rejects the text  (known finding C16-K3-multibyte) -/
theorem stray_byte_in_array_fails :
    restoreVariable unitF asciiMb (save unitF (.arr (.cons (.str [255]) .nil)))
      = RvOut.error "restore_object(): Illegal array format." := by rfl

/-- an infinity is written as "inf", which restores as the integer 0 ... (known finding C16-K2-nonfinite) -/
theorem inf_comes_back_as_zero :
    restoreVariable infF asciiMb (save infF (.real ())) = RvOut.value (.int 0) := by rfl

/-- ... and makes the restore of an enclosing array fail -/
theorem inf_in_array_fails :
    restoreVariable infF asciiMb (save infF (.arr (.cons (.real ()) .nil)))
      = RvOut.error "restore_object(): Illegal array format." := by rfl

/-- two float keys that print alike are one key after the restore  (known finding C16-K5-float-keys) -/
theorem float_keys_collapse :
    restoreVariable unitF asciiMb
        (save unitF (.map (.cons (.real ()) (.str [97]) (.cons (.real ()) (.str [98]) .nil))))
      = RvOut.value (.map (.cons (.real ()) (.str [98]) .nil)) := by rfl

end NV.C16.Witness
