/-
C16 — Lean-checked witnesses, by kernel evaluation of the model.

Open finding C16-K5: the FULL round-trip statement "a mapping comes back with all its entries" is false when two
float keys print alike (`float_keys_collapse`, `roundtripFloatKeys_Full_false`); `roundtrip` (Props.lean) therefore
excludes float keys (`savable`).  known/C16.jsonl replays the same input on the real driver.

The other theorems are the former witnesses of the findings K1-K3, which were repaired in round 2 (`fix:` commits
CR escape, inf/nan text, mblen): they now state the repaired behaviour on the very inputs that used to fail.
Open finding C16-K6 (same variable name at two inheritance levels): `same_name_saved`, `same_name_variables`.

(K4, subnormal floats, concerns IEEE arithmetic, a parameter of the model: no Lean evaluation; replayed on the driver.)
-/
import NV.C16.Model
import NV.C16.Tree
import NV.C16.ProofHash
import NV.C16.Globals

namespace NV.C16.Witness

open NV.C16

/-- a float parameter whose every float prints as "1.5" -/
def unitF : FloatOps Unit :=
  ⟨fun _ => [49, 46, 53], fun _ => (), fun _ _ => (), fun _ _ => (), fun _ _ => (), fun _ => (), fun _ => (),
   fun _ _ => true, fun _ => false, fun _ => false, fun _ => false⟩

/-- a float parameter whose only float is an infinity ("%g" would print "inf") -/
def infF : FloatOps Unit := { unitF with print := fun _ => [105, 110, 102], isInf := fun _ => true }

/-- mblen of a locale in which exactly the ASCII bytes are characters (every byte ≥ 128 is an invalid sequence):
    the behaviour of the UTF-8 locale on a stray byte such as 0xff -/
def asciiMb : MbLen where
  len s := match s with
    | [] => some 0
    | c :: _ => if c < 128 then some 1 else none
  pos s n h hs := by
    cases s with
    | nil => exact absurd rfl hs
    | cons c r => simp only at h; split at h <;> simp_all
  le_length s n h := by
    cases s with
    | nil => simp_all
    | cons c r => simp only at h; split at h <;> simp_all
  ascii c r h := by simp [h]
  cont s n h := by
    cases s with
    | nil => simp_all
    | cons c r => simp only at h; split at h <;> simp_all

/-! ### open: K5 -/

/-- two float keys that print alike are one key after the restore  (known finding C16-K5-float-keys) -/
theorem float_keys_collapse :
    restoreVariable unitF asciiMb
        (save unitF (.map (.cons (.real ()) (.str [97]) (.cons (.real ()) (.str [98]) .nil))))
      = RvOut.value (.map (.cons (.real ()) (.str [98]) .nil)) := by rfl

def pairCount {α} : Pairs α → Nat
  | .nil => 0
  | .cons _ _ r => pairCount r + 1

/-- the full statement for mappings: a restored mapping has as many entries as the saved one -/
def RoundtripFloatKeys_Full : Prop :=
  ∀ ps : Pairs Unit, ∃ qs, restoreVariable unitF asciiMb (save unitF (.map ps)) = RvOut.value (.map qs) ∧
    pairCount qs = pairCount ps

theorem roundtripFloatKeys_Full_false : ¬ RoundtripFloatKeys_Full := by
  intro h
  obtain ⟨qs, h1, h2⟩ := h (.cons (.real ()) (.str [97]) (.cons (.real ()) (.str [98]) .nil))
  rw [float_keys_collapse] at h1
  cases h1
  simp [pairCount] at h2

/-! ### repaired in round 2 (former witnesses, now regression facts) -/

/-- K1: the string "\r" is written as `"\` CR `"` and comes back unchanged; "\n" still travels as a bare CR -/
theorem cr_round_trips :
    save unitF (.str [13, 10]) = [34, 92, 13, 13, 34] ∧
    restoreVariable unitF asciiMb (save unitF (.str [13, 10])) = RvOut.value (.str [13, 10]) := by
  constructor <;> rfl

/-- K3: a string with a byte that is no character of the locale restores inside an array as well -/
theorem stray_byte_in_array_ok :
    restoreVariable unitF asciiMb (save unitF (.arr (.cons (.str [255, 34]) .nil)))
      = RvOut.value (.arr (.cons (.str [255, 34]) .nil)) := by rfl

/-- K2: an infinity is written as "1e+999" and read back as a float, alone and inside an array -/
theorem inf_is_written_as_number :
    save infF (.real ()) = [49, 101, 43, 57, 57, 57] ∧
    restoreVariable infF asciiMb (save infF (.real ())) = RvOut.value (.real ()) ∧
    restoreVariable infF asciiMb (save infF (.arr (.cons (.real ()) .nil)))
      = RvOut.value (.arr (.cons (.real ()) .nil)) := by
  refine ⟨rfl, rfl, rfl⟩

/-! ### open: K6 — two variables of one name at different inheritance levels -/

/-- program `s0` defines `x`; program `s1` inherits `s0` and defines its own `x` -/
def s0 : Prog := .mk [115, 48] 1 .nil [⟨[120], 1⟩]
def s1 : Prog := .mk [115, 49] 2 (.cons 0 0 s0 .nil) [⟨[120], 1⟩]

/-- save_object writes both (`x "a"` for the inherited, `x "b"` for the own variable) ... -/
theorem same_name_saved :
    saveTreeLines unitF true s1 [.str [97], .str [98]]
      = some [[120, 32, 34, 97, 34, 10], [120, 32, 34, 98, 34, 10]] := by rfl

/-- ... and restore_object assigns both lines to the inherited `x`: it ends up with the value of the own `x`,
whose slot stays 0  (known finding C16-K6-same-name) -/
theorem same_name_variables :
    (match (restoreObjectT unitF asciiMb false
        (some ([35, 47, 115, 49, 10] ++ [120, 32, 34, 97, 34, 10] ++ [120, 32, 34, 98, 34, 10])) s1
        [.str [97], .str [98]]).2 with
      | .done vals => vals
      | _ => []) = [.str [98], .int 0] := by rfl

/-! ### why `restore_mapping_all_found` is not vacuous: a bucket re-derived with the OLD mask loses the key

The independently written change C16-4 replaced `if (oi & ++mask) elt2 = a[i |= mask]; mask <<= 1; mask--;` by
`elt2 = a[i = oi & mask]; mask = m->table_size;` (bucket picked again with the mask of the table BEFORE it doubled). -/

open NV.C16.Hash in
/-- one pair of restore_mapping with that change -/
def insertOldMask (h : Nat → Nat) (t : Tbl Nat) (k : Nat) : Option (Tbl Nat) :=
  let i := h k &&& t.mask
  let chain := t.buckets.getD i []
  if chain ≠ [] then
    if chain.contains k then some t else some ⟨t.buckets.set i (k :: chain), t.unfilled⟩
  else
    let unf := dec16 t.unfilled
    if unf = 0 then
      match grow h ⟨t.buckets, unf⟩ with
      | none => none
      | some g => some ⟨g.buckets.set i (k :: g.buckets.getD i []), g.unfilled⟩
    else some ⟨t.buckets.set i [k], unf⟩

open NV.C16.Hash in
/-- `([16:1,32:2,48:3,64:4,80:5,224:6,])`: the sixth pair makes the 8-bucket table grow; its hash 14 has the new bit
set, so it belongs into bucket 14 of the doubled table — the changed code links it into bucket 6, where no lookup of 224
(`14 & 15`) finds it, while the code as it is does -/
theorem old_mask_loses_the_key :
    -- (the witness input is chosen for FILL_PERCENT = 80, 8 initial buckets, hash shift 4: with other constants the
    -- statement is void instead of false)
    if Hash.fillPercent = 80 ∧ NV.Gen.C16.hashShift = 4 then
    ((([16, 32, 48, 64, 80, 224] : List Nat).foldl (fun (t : Option (Tbl Nat)) k => t.bind (fun t => insertOldMask intHash t k))
        (some (empty 3))).map (fun t => find intHash t 224)) = some false ∧
    ((insertAll intHash (empty 3) [16, 32, 48, 64, 80, 224]).map (fun t => find intHash t 224)) = some true
    else True := by
  decide

/-! ### why `restore_ignores_stale_state` is not vacuous: the code without the reset at its head

(the independently written change C16-5 left `safe_restore_svalue` without it) -/

/-- after a save refused as "nested too deep" the counter stands at 26 and there is no table: restoring the valid text
`({1,})` from that state dereferences the NULL table; with the reset it restores -/
theorem stale_counter_without_reset :
    restoreTextFrom unitF asciiMb ⟨26, none⟩ [40, 123, 49, 44, 125, 41] = Res.crash ∧
    restoreSvalueG unitF asciiMb ⟨26, none⟩ [40, 123, 49, 44, 125, 41] = Res.ok (.arr (.cons (.int 1) .nil)) := by
  refine ⟨rfl, rfl⟩

/-- after a restore that ended in "Illegal array size" the counter is set and the table allocated: the valid text
`({1,2,})` restored from the state (1, [0]) comes back as the EMPTY array, without any error -/
theorem stale_table_gives_wrong_value :
    restoreTextFrom unitF asciiMb ⟨1, some [0]⟩ [40, 123, 49, 44, 50, 44, 125, 41] = Res.ok (.arr .nil) := by rfl

/-- and a save entered with a stale counter refuses a value of depth 2 as "nested too deep" -/
theorem stale_counter_refuses_save :
    saveSizeFrom unitF ⟨24, none⟩ (.arr (.cons (.arr .nil) .nil)) = none ∧
    (saveSizeG unitF ⟨24, none⟩ (.arr (.cons (.arr .nil) .nil))).isSome = true := by
  refine ⟨by decide, by decide⟩

/-- the table released but its pointer kept (capacity 0, pointer set): the growth loop `while ((cap <<= 1) <= depth)`
never gets above 0 — the model's fuel runs out for every fuel -/
theorem zero_capacity_with_a_table_never_ends (depth fuel : Nat) : ensure ⟨true, 0⟩ depth fuel = none := by
  have h : ∀ f, growCap depth f 0 = none := by
    intro f
    induction f with
    | zero => rfl
    | succ f ih => rw [growCap]; simp [ih]
  simp [ensure, h]

end NV.C16.Witness
