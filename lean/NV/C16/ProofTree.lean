/-
C16 — the walks over the program tree (Tree.lean) are the flat functions of Model.lean applied to `slots`.
-/
import NV.C16.Tree

namespace NV.C16.TreeProofs
open NV.C16

set_option linter.unusedSimpArgs false
set_option linter.unusedVariables false

variable {α : Type}

/-! ## T0: the static flag -/

theorem hasStatic_or (a b : Nat) : hasStatic (a ||| b) = (hasStatic a || hasStatic b) := by
  unfold hasStatic
  rw [Nat.and_or_distrib_right]
  generalize a &&& nameStatic = x
  generalize b &&& nameStatic = y
  rw [Bool.eq_iff_iff]
  simp only [bne_iff_ne, Bool.or_eq_true, ne_eq, Nat.or_eq_zero_iff]
  by_cases hx : x = 0 <;> by_cases hy : y = 0 <;> simp [hx, hy]

theorem hasStatic_zero : hasStatic 0 = false := by
  simp [hasStatic]

mutual
theorem slots_st : ∀ (p : Prog) (st : Bool),
    slots p st = (slots p false).map (fun s => ⟨s.name, st || s.isStatic⟩)
  | .mk _ _ inhs vars, st => by
    simp only [slots, List.map_append, List.map_map]
    rw [slotsInhs_st inhs st]
    congr 1
theorem slotsInhs_st : ∀ (i : Inhs) (st : Bool),
    slotsInhs i st = (slotsInhs i false).map (fun s => ⟨s.name, st || s.isStatic⟩)
  | .nil, st => by simp [slotsInhs]
  | .cons m _ p r, st => by
    simp only [slotsInhs, List.map_append]
    rw [slotsInhs_st r st, slots_st p (st || hasStatic m), slots_st p (false || hasStatic m)]
    congr 1
    simp only [List.map_map]
    apply List.map_congr_left
    intro s _
    simp [Bool.or_assoc]
end

theorem slots_true (p : Prog) : slots p true = (slots p false).map (fun s => ⟨s.name, true⟩) := by
  rw [slots_st p true]
  simp

theorem slots_length (p : Prog) (st : Bool) : (slots p st).length = (slots p false).length := by
  rw [slots_st p st]; simp

/-! ## T1: save_object_recurse writes the lines of the flat list -/

theorem mkVars_nil_right (ss : List Slot) : mkVars ss ([] : List (Value α)) = [] := by
  cases ss <;> rfl

theorem mkVars_append (a b : List Slot) : ∀ (vs : List (Value α)),
    mkVars (a ++ b) vs = mkVars a vs ++ mkVars b (vs.drop a.length) := by
  induction a with
  | nil => intro vs; simp [mkVars]
  | cons s a ih =>
    intro vs
    cases vs with
    | nil => simp [mkVars, mkVars_nil_right]
    | cons v vs => simp [mkVars, ih]

theorem saveLines_append (F : FloatOps α) (z : Bool) (a b : List (Var α)) :
    saveLines F z (a ++ b) = saveLines F z a ++ saveLines F z b := by
  induction a with
  | nil => simp [saveLines]
  | cons v a ih =>
    simp only [List.cons_append, saveLines, ih]
    split
    · rfl
    · split <;> simp

theorem saveLines_static (F : FloatOps α) (z : Bool) (ss : List Slot) (hs : ∀ s ∈ ss, s.isStatic = true) :
    ∀ (vs : List (Value α)), saveLines F z (mkVars ss vs) = [] := by
  induction ss with
  | nil => intro vs; simp [mkVars, saveLines]
  | cons s ss ih =>
    intro vs
    cases vs with
    | nil => simp [mkVars, saveLines]
    | cons v vs =>
      have h1 := hs s (by simp)
      simp [mkVars, saveLines, h1]
      exact ih (fun x hx => hs x (by simp [hx])) vs

theorem saveOwn_flat (F : FloatOps α) (z : Bool) (vals : List (Value α)) : ∀ (vars : List VarDecl) (c : Nat),
    c + vars.length ≤ vals.length →
    saveOwn F z vals vars c = some (c + vars.length,
      saveLines F z (mkVars (vars.map (fun v => ⟨v.name, false || hasStatic v.flags⟩)) (vals.drop c))) := by
  intro vars
  induction vars with
  | nil => intro c h; simp [saveOwn, mkVars, saveLines]
  | cons v vars ih =>
    intro c h
    simp only [List.length_cons] at h
    have hc : c < vals.length := by omega
    have ih' := ih (c + 1) (by omega)
    rw [List.drop_eq_getElem_cons hc]
    simp only [saveOwn, List.map_cons, mkVars, saveLines, Bool.false_or, ih', List.length_cons,
      List.getElem?_eq_getElem hc]
    by_cases hst : hasStatic v.flags = true
    · simp [hst]; omega
    · simp only [hst, Bool.false_eq_true, if_false]
      split <;> simp <;> omega

mutual
theorem saveRec_flat (F : FloatOps α) (z : Bool) (vals : List (Value α)) : ∀ (p : Prog) (c ty : Nat),
    c + (slots p (hasStatic ty)).length ≤ vals.length →
    saveRec F z vals p c ty = some (c + (slots p (hasStatic ty)).length,
      saveLines F z (mkVars (slots p (hasStatic ty)) (vals.drop c)))
  | .mk _ _ inhs vars, c, ty, h => by
    simp only [slots, List.length_append, List.length_map] at h
    have hi := saveInhs_flat F z vals inhs c ty (by omega)
    simp only [saveRec, hi, slots, mkVars_append, saveLines_append, List.drop_drop, List.length_append,
      List.length_map]
    by_cases hst : hasStatic ty = true
    · simp only [hst, if_true, Bool.true_or]
      rw [saveLines_static F z (vars.map _) (by simp)]
      simp; omega
    · simp only [hst, Bool.false_eq_true, if_false]
      have ho := saveOwn_flat F z vals vars (c + (slotsInhs inhs (hasStatic ty)).length) (by omega)
      simp only [Bool.not_eq_true] at hst
      simp only [hst] at ho ⊢
      rw [ho]
      simp [Nat.add_assoc]
theorem saveInhs_flat (F : FloatOps α) (z : Bool) (vals : List (Value α)) : ∀ (i : Inhs) (c ty : Nat),
    c + (slotsInhs i (hasStatic ty)).length ≤ vals.length →
    saveInhs F z vals i c ty = some (c + (slotsInhs i (hasStatic ty)).length,
      saveLines F z (mkVars (slotsInhs i (hasStatic ty)) (vals.drop c)))
  | .nil, c, ty, h => by simp [saveInhs, slotsInhs, mkVars, saveLines]
  | .cons m _ p r, c, ty, h => by
    have e : hasStatic (m ||| ty) = (hasStatic ty || hasStatic m) := by rw [hasStatic_or, Bool.or_comm]
    simp only [slotsInhs, List.length_append] at h
    have hp := saveRec_flat F z vals p c (m ||| ty) (by rw [e]; omega)
    rw [e] at hp
    have hr := saveInhs_flat F z vals r (c + (slots p (hasStatic ty || hasStatic m)).length) ty (by omega)
    simp only [saveInhs, hp, hr, slotsInhs, mkVars_append, saveLines_append, List.drop_drop, List.length_append]
    simp [Nat.add_assoc]
end

/-- save_object writes, for every program tree, exactly the lines of the flat variable list -/
theorem saveObject_writes_each_nonstatic_variable_its_own_value (F : FloatOps α) (z : Bool) (p : Prog)
    (vals : List (Value α)) (h : vals.length = (slots p false).length) :
    saveTreeLines F z p vals = some (saveLines F z (mkVars (slots p false) vals)) := by
  have := saveRec_flat F z vals p 0 0 (by rw [hasStatic_zero]; omega)
  rw [hasStatic_zero] at this
  simp [saveTreeLines, this]

/-- with save_zeros: every non-static variable exactly once, in slot order, as `name value`; nothing static -/
theorem saveLines_spec (F : FloatOps α) (vars : List (Var α)) :
    saveLines F true vars =
      (vars.filter (fun v => !v.isStatic)).map (fun v => v.name ++ 32 :: (save F v.val ++ [10])) := by
  induction vars with
  | nil => simp [saveLines]
  | cons v vars ih =>
    by_cases hst : v.isStatic = true
    · simp [saveLines, hst, ih]
    · simp [saveLines, hst, ih]

/-- without save_zeros: a subset of those lines -/
theorem saveLines_sub (F : FloatOps α) (z : Bool) (vars : List (Var α)) :
    ∀ l ∈ saveLines F z vars, ∃ v ∈ vars, v.isStatic = false ∧ l = v.name ++ 32 :: (save F v.val ++ [10]) := by
  induction vars with
  | nil => simp [saveLines]
  | cons v vars ih =>
    intro l hl
    simp only [saveLines] at hl
    split at hl
    · obtain ⟨w, hw, h⟩ := ih l hl
      exact ⟨w, by simp [hw], h⟩
    · rename_i hst
      split at hl
      · simp only [List.mem_cons] at hl
        rcases hl with rfl | hl
        · exact ⟨v, by simp, by simpa using hst, rfl⟩
        · obtain ⟨w, hw, h⟩ := ih l hl
          exact ⟨w, by simp [hw], h⟩
      · obtain ⟨w, hw, h⟩ := ih l hl
        exact ⟨w, by simp [hw], h⟩

/-! ### non-vacuity: a three-level tree with a static inherit of a program that itself inherits -/

def exF : FloatOps Unit :=
  ⟨fun _ => [49, 46, 53], fun _ => (), fun _ _ => (), fun _ _ => (), fun _ _ => (), fun _ => (), fun _ => (),
    fun _ _ => true, fun _ => false, fun _ => false, fun _ => false⟩

/-- p0: `int a; static int b;` -/
def exP0 : Prog := .mk [112, 48] 2 .nil [⟨[97], 0⟩, ⟨[98], 512⟩]
/-- p1: `inherit p0; int c;` -/
def exP1 : Prog := .mk [112, 49] 3 (.cons 0 0 exP0 .nil) [⟨[99], 0⟩]
/-- p2: `static inherit p1; int d; int e;` -/
def exP2 : Prog := .mk [112, 50] 5 (.cons 512 0 exP1 .nil) [⟨[100], 0⟩, ⟨[101], 0⟩]

example : slots exP2 false = [⟨[97], true⟩, ⟨[98], true⟩, ⟨[99], true⟩, ⟨[100], false⟩, ⟨[101], false⟩] := by
  decide

/-- values a=1 b=2 c=3 d=4 e=5: only `d 4` and `e 5` are written -/
example : saveTreeLines exF true exP2 [.int 1, .int 2, .int 3, .int 4, .int 5]
    = some [[100, 32, 52, 10], [101, 32, 53, 10]] := by
  rw [saveObject_writes_each_nonstatic_variable_its_own_value _ _ _ _ (by decide)]
  have h4 : save exF (.int 4) = [52] := by
    simp [save, saveInt, magnitude]; rw [digits]; simp
  have h5 : save exF (.int 5) = [53] := by
    simp [save, saveInt, magnitude]; rw [digits]; simp
  have hs : slots exP2 false = [⟨[97], true⟩, ⟨[98], true⟩, ⟨[99], true⟩, ⟨[100], false⟩, ⟨[101], false⟩] := by
    decide
  simp [hs, mkVars, saveLines, h4, h5]

/-! ## T2: find_global_variable finds the first slot of that name -/

/-- index (counted from the given start) and static flag of the first slot with that name -/
def firstIdx (name : List Byte) : List Slot → Nat → Option (Nat × Bool)
  | [], _ => none
  | s :: r, i => if s.name = name then some (i, s.isStatic) else firstIdx name r (i + 1)

theorem firstIdx_append (name : List Byte) (a b : List Slot) : ∀ (i : Nat),
    firstIdx name (a ++ b) i =
      match firstIdx name a i with
      | some r => some r
      | none => firstIdx name b (i + a.length) := by
  induction a with
  | nil => intro i; simp [firstIdx]
  | cons s a ih =>
    intro i
    simp only [List.cons_append, firstIdx, List.length_cons]
    split
    · rfl
    · rw [ih (i + 1)]
      simp [Nat.add_assoc, Nat.add_comm 1]

theorem firstIdx_map_st (name : List Byte) (st : Bool) (l : List Slot) : ∀ (i : Nat),
    firstIdx name (l.map (fun s => ⟨s.name, st || s.isStatic⟩)) i =
      (firstIdx name l i).map (fun r => (r.1, st || r.2)) := by
  induction l with
  | nil => intro i; simp [firstIdx]
  | cons s l ih =>
    intro i
    simp only [List.map_cons, firstIdx]
    split
    · rfl
    · exact ih (i + 1)

/-- what find_global_variable makes of the result of fgv_recurse -/
def fgvOut : (Nat × Nat) ⊕ Nat → Option (Nat × Bool)
  | .inl (i, ty) => some (i, hasStatic ty)
  | .inr _ => none

theorem findOwn_flat (name : List Byte) (base : Nat) : ∀ (vars : List VarDecl) (k : Nat),
    firstIdx name (vars.map (fun v => ⟨v.name, false || hasStatic v.flags⟩)) (base + k) =
      (findOwn name vars k).map (fun r => (base + r.1, hasStatic r.2)) := by
  intro vars
  induction vars with
  | nil => intro k; simp [firstIdx, findOwn]
  | cons v vars ih =>
    intro k
    simp only [List.map_cons, firstIdx, findOwn]
    split
    · simp
    · exact ih (k + 1)

mutual
/-- not found: the cursor has moved over the whole subtree -/
theorem fgv_inr (name : List Byte) : ∀ (p : Prog) (idx j : Nat),
    fgv name p idx = .inr j → j = idx + (slots p false).length
  | .mk _ _ inhs vars, idx, j, h => by
    simp only [fgv] at h
    split at h
    · simp at h
    · rename_i idx1 hi
      have := fgvInhs_inr name inhs idx idx1 hi
      split at h
      · simp at h
      · simp at h
        simp [slots]
        omega
theorem fgvInhs_inr (name : List Byte) : ∀ (i : Inhs) (idx j : Nat),
    fgvInhs name i idx = .inr j → j = idx + (slotsInhs i false).length
  | .nil, idx, j, h => by
    simp [fgvInhs] at h
    simp [slotsInhs, h]
  | .cons m _ p r, idx, j, h => by
    simp only [fgvInhs] at h
    split at h
    · simp at h
    · rename_i idx1 hp
      have h1 := fgv_inr name p idx idx1 hp
      have h2 := fgvInhs_inr name r idx1 j h
      simp [slotsInhs, slots_length p (hasStatic m)]
      omega
end

mutual
theorem fgv_flat (name : List Byte) : ∀ (p : Prog) (idx : Nat),
    fgvOut (fgv name p idx) = firstIdx name (slots p false) idx
  | .mk _ _ inhs vars, idx => by
    have hi := fgvInhs_flat name inhs idx
    simp only [fgv, slots, firstIdx_append]
    rw [← hi]
    cases hf : fgvInhs name inhs idx with
    | inl r =>
      obtain ⟨i, ty⟩ := r
      simp [fgvOut]
    | inr idx1 =>
      have hlen := fgvInhs_inr name inhs idx idx1 hf
      simp only [fgvOut]
      rw [← hlen]
      have ho := findOwn_flat name idx1 vars 0
      simp only [Nat.add_zero] at ho
      rw [ho]
      cases findOwn name vars 0 with
      | none => simp [fgvOut]
      | some r => obtain ⟨i, ty⟩ := r; simp [fgvOut]
theorem fgvInhs_flat (name : List Byte) : ∀ (i : Inhs) (idx : Nat),
    fgvOut (fgvInhs name i idx) = firstIdx name (slotsInhs i false) idx
  | .nil, idx => by simp [fgvInhs, fgvOut, slotsInhs, firstIdx]
  | .cons m _ p r, idx => by
    have hp := fgv_flat name p idx
    simp only [fgvInhs, slotsInhs, firstIdx_append, Bool.false_or]
    rw [slots_st p (hasStatic m), firstIdx_map_st, ← hp, List.length_map]
    cases hf : fgv name p idx with
    | inl q =>
      obtain ⟨i, ty⟩ := q
      simp [fgvOut, hasStatic_or, Bool.or_comm]
    | inr idx1 =>
      have hlen := fgv_inr name p idx idx1 hf
      simp only [fgvOut, Option.map_none]
      rw [← hlen]
      exact fgvInhs_flat name r idx1
end

theorem findGlobal_flat (p : Prog) (name : List Byte) : findGlobal p name = firstIdx name (slots p false) 0 := by
  rw [← fgv_flat name p 0]
  unfold findGlobal
  cases fgv name p 0 with
  | inl r => obtain ⟨i, ty⟩ := r; rfl
  | inr j => rfl

/-! ## T3: clear_non_statics clears exactly the non-static slots -/

/-- the flat clearing loop: slot `k` of `ss` is at index `idx + k` of the variable array -/
def clrAt : List Slot → List (Value α) → Nat → List (Value α)
  | [], vals, _ => vals
  | s :: ss, vals, idx => clrAt ss (if s.isStatic then vals else setAt vals idx (.int 0)) (idx + 1)

theorem clrAt_append (a b : List Slot) : ∀ (vals : List (Value α)) (idx : Nat),
    clrAt (a ++ b) vals idx = clrAt b (clrAt a vals idx) (idx + a.length) := by
  induction a with
  | nil => intro vals idx; simp [clrAt]
  | cons s a ih =>
    intro vals idx
    simp only [List.cons_append, clrAt, ih, List.length_cons]
    simp [Nat.add_assoc, Nat.add_comm 1]

theorem clrAt_static (ss : List Slot) (hs : ∀ s ∈ ss, s.isStatic = true) : ∀ (vals : List (Value α)) (idx : Nat),
    clrAt ss vals idx = vals := by
  induction ss with
  | nil => intro vals idx; rfl
  | cons s ss ih =>
    intro vals idx
    simp only [clrAt, hs s (by simp), if_true]
    exact ih (fun x hx => hs x (by simp [hx])) vals (idx + 1)

theorem cnsOwn_flat : ∀ (vars : List VarDecl) (vals : List (Value α)) (i : Nat),
    cnsOwn vals vars i = clrAt (vars.map (fun v => ⟨v.name, false || hasStatic v.flags⟩)) vals i := by
  intro vars
  induction vars with
  | nil => intro vals i; rfl
  | cons v vars ih =>
    intro vals i
    simp only [cnsOwn, List.map_cons, clrAt, Bool.false_or]
    exact ih _ _

mutual
theorem cnsCount_flat : ∀ (p : Prog), cnsCount p = (slots p false).length
  | .mk _ _ inhs vars => by simp [cnsCount, slots, cnsCountInhs_flat inhs]
theorem cnsCountInhs_flat : ∀ (i : Inhs), cnsCountInhs i = (slotsInhs i false).length
  | .nil => by simp [cnsCountInhs, slotsInhs]
  | .cons m _ p r => by
    simp [cnsCountInhs, slotsInhs, cnsCount_flat p, cnsCountInhs_flat r, slots_length p (hasStatic m)]
end

mutual
theorem cns_clrAt : ∀ (p : Prog) (vals : List (Value α)) (idx : Nat),
    cns vals p idx = (clrAt (slots p false) vals idx, idx + (slots p false).length)
  | .mk _ _ inhs vars, vals, idx => by
    simp only [cns, cnsInhs_clrAt inhs vals idx, slots, clrAt_append, cnsOwn_flat, List.length_append,
      List.length_map, Nat.add_assoc]
theorem cnsInhs_clrAt : ∀ (i : Inhs) (vals : List (Value α)) (idx : Nat),
    cnsInhs vals i idx = (clrAt (slotsInhs i false) vals idx, idx + (slotsInhs i false).length)
  | .nil, vals, idx => by simp [cnsInhs, slotsInhs, clrAt]
  | .cons m _ p r, vals, idx => by
    simp only [cnsInhs, slotsInhs, clrAt_append, List.length_append, Bool.false_or]
    by_cases hm : hasStatic m = true
    · simp only [hm, if_true]
      rw [cnsInhs_clrAt r vals _, cnsCount_flat, slots_length p true]
      rw [clrAt_static (slots p true) (by rw [slots_true]; simp)]
      simp [Nat.add_assoc]
    · simp only [Bool.not_eq_true] at hm
      simp only [hm, Bool.false_eq_true, if_false]
      rw [cns_clrAt p vals idx]
      simp only
      rw [cnsInhs_clrAt r _ _]
      simp [Nat.add_assoc]
end

theorem setAt_length {β : Type} : ∀ (l : List β) (n : Nat) (x : β), (setAt l n x).length = l.length := by
  intro l
  induction l with
  | nil => intro n x; rfl
  | cons y l ih =>
    intro n x
    cases n with
    | zero => rfl
    | succ n => simp [setAt, ih]

theorem setAt_append_length {β : Type} (pre : List β) (v x : β) (vs : List β) :
    setAt (pre ++ v :: vs) pre.length x = pre ++ x :: vs := by
  induction pre with
  | nil => rfl
  | cons y pre ih => simp [setAt, ih]

theorem clrAt_mkVars : ∀ (ss : List Slot) (pre vs : List (Value α)), vs.length = ss.length →
    clrAt ss (pre ++ vs) pre.length =
      pre ++ (mkVars ss vs).map (fun v => if v.isStatic then v.val else Value.int 0) := by
  intro ss
  induction ss with
  | nil =>
    intro pre vs h
    cases vs with
    | nil => simp [clrAt, mkVars]
    | cons v vs => simp at h
  | cons s ss ih =>
    intro pre vs h
    cases vs with
    | nil => simp at h
    | cons v vs =>
      simp only [List.length_cons, Nat.add_right_cancel_iff] at h
      simp only [clrAt, mkVars, List.map_cons]
      by_cases hst : s.isStatic = true
      · simp only [hst, if_true]
        have := ih (pre ++ [v]) vs h
        simp only [List.append_assoc, List.singleton_append, List.length_append, List.length_singleton] at this
        exact this
      · simp only [hst, Bool.false_eq_true, if_false, setAt_append_length]
        have := ih (pre ++ [Value.int 0]) vs h
        simp only [List.append_assoc, List.singleton_append, List.length_append, List.length_singleton] at this
        exact this

theorem cns_flat (vals : List (Value α)) (p : Prog) (h : vals.length = (slots p false).length) :
    (cns vals p 0).1 = (mkVars (slots p false) vals |>.map (fun v => if v.isStatic then v.val else Value.int 0)) := by
  rw [cns_clrAt]
  have := clrAt_mkVars (slots p false) [] vals h
  simpa using this

/-! ## T4: restore_object on the tree is the flat restore_object -/

def outVals : RoOut α → RoOutT α
  | .done vs => .done (vs.map (·.val))
  | .error m vs => .error m (vs.map (·.val))
  | .crash => .crash
  | .stuck => .stuck

theorem mkVars_vals : ∀ (ss : List Slot) (vals : List (Value α)), vals.length = ss.length →
    (mkVars ss vals).map (·.val) = vals := by
  intro ss
  induction ss with
  | nil => intro vals h; cases vals with
    | nil => rfl
    | cons v vs => simp at h
  | cons s ss ih =>
    intro vals h
    cases vals with
    | nil => simp at h
    | cons v vs =>
      simp only [List.length_cons, Nat.add_right_cancel_iff] at h
      simp [mkVars, ih vs h]

/-- the flat search and the flat assignment against `firstIdx` / `setAt` -/
theorem find_setVar_flat (name : List Byte) (x : Value α) : ∀ (ss : List Slot) (vals : List (Value α)) (k : Nat),
    vals.length = ss.length →
    match firstIdx name ss k with
    | none => (mkVars ss vals).find? (fun v => v.name = name) = none
    | some (i, st) => k ≤ i ∧ (∃ v, (mkVars ss vals).find? (fun v => v.name = name) = some v ∧ v.isStatic = st) ∧
        mkVars ss (setAt vals (i - k) x) = setVar (mkVars ss vals) name x := by
  intro ss
  induction ss with
  | nil =>
    intro vals k h
    simp [firstIdx, mkVars]
  | cons s ss ih =>
    intro vals k h
    cases vals with
    | nil => simp at h
    | cons v vs =>
      simp only [List.length_cons, Nat.add_right_cancel_iff] at h
      simp only [firstIdx, mkVars]
      by_cases hn : s.name = name
      · simp [hn, setAt, setVar, mkVars]
      · simp only [hn, if_false]
        have := ih vs (k + 1) h
        split
        · rename_i hf
          rw [hf] at this
          simp only at this
          simp [List.find?, hn, this]
        · rename_i i st hf
          rw [hf] at this
          simp only at this
          obtain ⟨hle, ⟨w, hw, hst⟩, hset⟩ := this
          refine ⟨by omega, ⟨w, ?_, hst⟩, ?_⟩
          · simp [List.find?, hn, hw]
          · have e : i - k = (i - (k + 1)) + 1 := by omega
            rw [e]
            simp [setAt, setVar, mkVars, hn, hset]

theorem restoreLinesT_flat (F : FloatOps α) (mb : MbLen) (nc : Bool) (p : Prog) :
    ∀ (ls : List (List Byte)) (vals : List (Value α)), vals.length = (slots p false).length →
    restoreLinesT F mb p ls vals = outVals (restoreLines F mb nc ls (mkVars (slots p false) vals)) := by
  intro ls
  induction ls with
  | nil => intro vals h; simp [restoreLinesT, restoreLines, outVals, mkVars_vals _ _ h]
  | cons l ls ih =>
    intro vals h
    rw [restoreLinesT, restoreLines]
    split
    · split <;> simp [outVals, mkVars_vals _ _ h]
    · split
      · exact ih vals h
      · simp only
        split
        · simp [outVals, mkVars_vals _ _ h]
        · rw [findGlobal_flat]
          have hk := fun x => find_setVar_flat (List.takeWhile (· ≠ 32) l) x (slots p false) vals 0 h
          cases hf : firstIdx (List.takeWhile (· ≠ 32) l) (slots p false) 0 with
          | none =>
            have := hk (.int 0)
            rw [hf] at this
            simp only at this
            simp only [this]
            exact ih vals h
          | some r =>
            obtain ⟨i, st⟩ := r
            have hk0 := hk (.int 0)
            rw [hf] at hk0
            simp only at hk0
            obtain ⟨_, ⟨w, hw, hst⟩, _⟩ := hk0
            simp only [hw, hst]
            split
            · exact ih vals h
            · cases hres : restoreSvalue F mb (List.drop ((List.takeWhile (· ≠ 32) l).length + 1) l) with
              | ok x =>
                simp only
                have hkx := hk x
                rw [hf] at hkx
                simp only [Nat.sub_zero] at hkx
                rw [← hkx.2.2]
                exact ih _ (by rw [setAt_length]; exact h)
              | err e => simp [outVals, mkVars_vals _ _ h]
              | crash => simp [outVals]
              | stuck => simp [outVals]

theorem mkVars_cleared : ∀ (ss : List Slot) (vals : List (Value α)), vals.length = ss.length →
    mkVars ss ((mkVars ss vals).map (fun v => if v.isStatic then v.val else Value.int 0)) =
      (mkVars ss vals).map (fun v => if v.isStatic then v else { v with val := .int 0 }) := by
  intro ss
  induction ss with
  | nil => intro vals h; simp [mkVars]
  | cons s ss ih =>
    intro vals h
    cases vals with
    | nil => simp at h
    | cons v vs =>
      simp only [List.length_cons, Nat.add_right_cancel_iff] at h
      simp only [mkVars, List.map_cons, ih vs h]
      by_cases hst : s.isStatic = true <;> simp [hst]

theorem restoreObjectT_flat (F : FloatOps α) (mb : MbLen) (nc : Bool) (file : Option (List Byte)) (p : Prog)
    (vals : List (Value α)) (h : vals.length = (slots p false).length) :
    restoreObjectT F mb nc file p vals =
      ((restoreObject F mb nc file (mkVars (slots p false) vals)).1,
        outVals (restoreObject F mb nc file (mkVars (slots p false) vals)).2) := by
  unfold restoreObjectT restoreObject
  split
  · simp [outVals, mkVars_vals _ _ h]
  · simp [outVals, mkVars_vals _ _ h]
  · simp only
    cases nc with
    | true =>
      simp only [if_true]
      rw [restoreLinesT_flat F mb true p _ vals h]
    | false =>
      simp only [Bool.false_eq_true, if_false]
      rw [restoreLinesT_flat F mb false p _ _ (by
        rw [cns_flat vals p h, List.length_map, ← h]
        have := congrArg List.length (mkVars_vals _ _ h)
        simpa using this)]
      rw [cns_flat vals p h, mkVars_cleared _ _ h]

end NV.C16.TreeProofs
