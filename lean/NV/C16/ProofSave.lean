/-
C16 — proofs about the save side of the model (NV.C16.Model): buffer size, atomic replacement of the save
file, static variables, error paths of restore.
-/
import NV.C16.Model

namespace NV.C16

variable {α : Type}

/-- concrete float operations over `Unit`, used by the non-vacuity examples -/
def unitF : FloatOps Unit :=
  ⟨fun _ => [49,46,53], fun _ => (), fun _ _ => (), fun _ _ => (), fun _ _ => (), fun _ => (), fun _ => (),
   fun _ _ => true, fun _ => false, fun _ => false, fun _ => false⟩

/-! ## 1. the save buffer is large enough -/

/-- the digit loop writes one byte more than the counting loop counted -/
theorem digits_length (m : Nat) : (digits m).length = ndigits m + 1 := by
  induction m using digits.induct with
  | case1 n h => rw [digits, ndigits]; simp [h]
  | case2 n h ih => rw [digits, ndigits]; simp [h, ih]; omega

/-- every byte save_svalue writes with a backslash is counted twice by svalue_save_size (stated over the
    conditions extracted from the two C functions: breaks exactly when they drift apart) -/
theorem saveEscaped_sub_sizeEscaped : ∀ c, saveEscaped.contains c = true → sizeEscaped.contains c = true := by
  intro c h
  simp only [saveEscaped, NV.Gen.C16.saveEscaped, sizeEscaped, NV.Gen.C16.sizeEscaped, List.contains_eq_mem,
    List.mem_cons, List.not_mem_nil, or_false, decide_eq_true_eq] at h ⊢
  omega

/-- one byte of a string is written in at most the bytes the size loop counted for it -/
theorem escByte_length_le (c : Byte) : (escByte c).length ≤ (if sizeEscaped.contains c then 2 else 1) := by
  unfold escByte
  by_cases h : saveEscaped.contains c = true
  · rw [if_pos h, if_pos (saveEscaped_sub_sizeEscaped c h)]; simp
  · rw [if_neg h]
    split <;> split <;> simp

/-- the escaped text of a string is at most as long as the size loop computed -/
theorem escStr_length_le (s : List Byte) : (escStr s).length ≤ strSize s := by
  induction s with
  | nil => simp [escStr]
  | cons c r ih =>
    have := escByte_length_le c
    simp only [escStr, strSize, List.length_append]
    omega

/-- length of the text of an integer: sign, counted digits plus one -/
theorem saveInt_length (i : Int) :
    (saveInt i).length = (if i < 0 then 1 else 0) + ndigits (magnitude i) + 1 := by
  unfold saveInt
  by_cases h : i < 0 <;> simp [h, digits_length] <;> omega

/-- the constants svalue_save_size adds per kind of value cover the delimiters and the NUL that save_svalue writes
    (stated over the values extracted from its return statements: a constant that shrinks breaks this lemma) -/
theorem size_overheads_suffice :
    3 ≤ sizeStr ∧ 5 ≤ sizeArr ∧ 5 ≤ sizeCls ∧ 5 ≤ sizeMap ∧ 2 ≤ sizeInt ∧ 1 ≤ sizeReal ∧ 1 ≤ sizeOther := by
  decide

mutual
/-- text + NUL of a value fits into `svalue_save_size` bytes -/
theorem save_le (F : FloatOps α) : (d : Nat) → (v : Value α) → (n : Nat) → saveSize F d v = some n →
    (save F v).length + 1 ≤ n
  | d, .int i, n, h => by
    simp only [saveSize, Option.some.injEq] at h
    have hov := size_overheads_suffice
    rw [save, saveInt_length]; omega
  | d, .real x, n, h => by
    simp only [saveSize, Option.some.injEq] at h
    have hov := size_overheads_suffice
    rw [save]; omega
  | d, .str s, n, h => by
    simp only [saveSize, Option.some.injEq] at h
    have := escStr_length_le s
    have hov := size_overheads_suffice
    simp [save]; omega
  | d, .arr xs, n, h => by
    simp only [saveSize] at h
    split at h
    · cases h
    · cases hm : sizeElems F (d + 1) xs with
      | none => simp [hm] at h
      | some m =>
        have := elems_le F (d + 1) xs m hm
        simp [hm] at h
        have hov := size_overheads_suffice
        simp [save]; omega
  | d, .cls xs, n, h => by
    simp only [saveSize] at h
    split at h
    · cases h
    · cases hm : sizeElems F (d + 1) xs with
      | none => simp [hm] at h
      | some m =>
        have := elems_le F (d + 1) xs m hm
        simp [hm] at h
        have hov := size_overheads_suffice
        simp [save]; omega
  | d, .map ps, n, h => by
    simp only [saveSize] at h
    split at h
    · cases h
    · cases hm : sizePairs F (d + 1) ps with
      | none => simp [hm] at h
      | some m =>
        have := pairs_le F (d + 1) ps m hm
        simp [hm] at h
        have hov := size_overheads_suffice
        simp [save]; omega
  | d, .obj, n, h => by
    simp only [saveSize, Option.some.injEq] at h
    have hov := size_overheads_suffice
    simp [save]; omega
/-- the elements of an array with their commas fit into the sum of their sizes -/
theorem elems_le (F : FloatOps α) : (d : Nat) → (xs : Vals α) → (n : Nat) → sizeElems F d xs = some n →
    (saveElems F xs).length ≤ n
  | d, .nil, n, h => by simp [saveElems]
  | d, .cons v r, n, h => by
    simp only [sizeElems] at h
    cases ha : saveSize F d v with
    | none => simp [ha] at h
    | some a =>
      cases hb : sizeElems F d r with
      | none => simp [ha, hb] at h
      | some b =>
        have h1 := save_le F d v a ha
        have h2 := elems_le F d r b hb
        simp [ha, hb] at h
        simp [saveElems]; omega
/-- the entries of a mapping with their delimiters fit into the sum of their sizes -/
theorem pairs_le (F : FloatOps α) : (d : Nat) → (ps : Pairs α) → (n : Nat) → sizePairs F d ps = some n →
    (savePairs F ps).length ≤ n
  | d, .nil, n, h => by simp [savePairs]
  | d, .cons k v r, n, h => by
    simp only [sizePairs] at h
    cases ha : saveSize F d k with
    | none => simp [ha] at h
    | some a =>
      cases hb : saveSize F d v with
      | none => simp [ha, hb] at h
      | some b =>
        cases hc : sizePairs F d r with
        | none => simp [ha, hb, hc] at h
        | some c =>
          have h1 := save_le F d k a ha
          have h2 := save_le F d v b hb
          have h3 := pairs_le F d r c hc
          simp [ha, hb, hc] at h
          simp [savePairs]; omega
end

/-- memory safety of the save buffer: text + NUL fits into the `svalue_save_size` bytes -/
theorem size_bounds_output (F : FloatOps α) (d : Nat) (v : Value α) (n : Nat) (h : saveSize F d v = some n) :
    (save F v).length + 1 ≤ n :=
  save_le F d v n h

example : saveSize unitF 0 (.arr (.cons (.str [34,10]) .nil)) = some 11 := by decide
example : (save unitF (.arr (.cons (.str [34,10]) .nil))).length + 1 = 11 := by decide
example : saveSize unitF 0 (.int (-120)) = some 5 ∧ save unitF (.int (-120)) = [45,49,50,48] := by
  simp [saveSize, save, saveInt, magnitude, ndigits, digits, sizeInt, NV.Gen.C16.sizeInt]

/-! ## 2, 3. save_variable / save_object never write beyond their buffer -/

/-- save_variable never writes beyond the bytes it allocated -/
theorem saveVariable_no_crash (F : FloatOps α) (v : Value α) : saveVariable F v ≠ SaveOut.crash := by
  unfold saveVariable
  cases h : saveSize F 0 v with
  | none => simp
  | some n => simp [size_bounds_output F 0 v n h]

example : saveVariable unitF (.str [34,10]) = .ok [34,92,34,13,34] := by decide

/-- no buffer of save_object overflows -/
theorem saveObject_no_crash (F : FloatOps α) (vars : List (Var α)) : saveObjectCrash F vars = false := by
  unfold saveObjectCrash
  rw [List.any_eq_false]
  intro v _
  have h := saveVariable_no_crash F v.val
  cases hs : saveVariable F v.val with
  | ok t => cases v.isStatic <;> simp <;> rfl
  | tooDeep => cases v.isStatic <;> simp <;> rfl
  | crash => exact absurd hs h

/-! ## 4, 5, 6. the save file is replaced atomically -/

/-- calls other than `rename` never touch the save file -/
theorem run_file_of_no_rename (cs : List Call) : ∀ (fs : FS), (∀ c ∈ cs, c ≠ Call.rename) →
    (fs.run cs).file = fs.file := by
  induction cs with
  | nil => intro fs _; rfl
  | cons c r ih =>
    intro fs h
    have hc : c ≠ Call.rename := h c (by simp)
    have hr : ∀ x ∈ r, x ≠ Call.rename := fun x hx => h x (by simp [hx])
    show ((fs.step c).run r).file = fs.file
    rw [ih _ hr]
    cases c <;> first | rfl | exact absurd rfl hc

/-- a crash point inside rename-free calls leaves the save file alone -/
theorem run_take_file_of_no_rename (cs : List Call) (fs : FS) (k : Nat) (h : ∀ c ∈ cs, c ≠ Call.rename) :
    (fs.run (cs.take k)).file = fs.file :=
  run_file_of_no_rename _ fs (fun c hc => h c (List.mem_of_mem_take hc))

/-- the writes append the chunks to the temporary -/
theorem run_writes (chunks : List (List Byte)) : ∀ (file : Option (List Byte)) (acc : List Byte),
    (FS.mk file (some acc)).run (chunks.map Call.write) = FS.mk file (some (acc ++ chunks.flatten)) := by
  induction chunks with
  | nil => intro file acc; simp [FS.run]
  | cons c r ih =>
    intro file acc
    show ((FS.mk file (some acc)).step (Call.write c)).run (r.map Call.write) = _
    simp only [FS.step, Option.map_some]
    rw [ih]; simp

/-- after fopen and all writes the temporary holds the complete new text -/
theorem run_open_writes (chunks : List (List Byte)) (old : Option (List Byte)) :
    (FS.mk old none).run (Call.fopenTmp :: chunks.map Call.write) = FS.mk old (some chunks.flatten) := by
  show ((FS.mk old none).step Call.fopenTmp).run (chunks.map Call.write) = _
  simp only [FS.step]
  rw [run_writes]; simp

theorem run_append (fs : FS) (a b : List Call) : fs.run (a ++ b) = (fs.run a).run b := by
  simp [FS.run, List.foldl_append]

/-- every prefix of the successful call sequence leaves the old or the new file -/
theorem atomic_core (chunks : List (List Byte)) (old : Option (List Byte)) (k : Nat) :
    ((FS.mk old none).run ((Call.fopenTmp :: (chunks.map Call.write ++ [Call.fclose, Call.rename])).take k)).file = old ∨
    ((FS.mk old none).run ((Call.fopenTmp :: (chunks.map Call.write ++ [Call.fclose, Call.rename])).take k)).file
      = some chunks.flatten := by
  have hA : ∀ c ∈ Call.fopenTmp :: (chunks.map Call.write ++ [Call.fclose]), c ≠ Call.rename := by
    intro c hc
    simp at hc
    rcases hc with rfl | ⟨x, _, rfl⟩ | rfl <;> simp
  have hsplit : Call.fopenTmp :: (chunks.map Call.write ++ [Call.fclose, Call.rename])
      = (Call.fopenTmp :: (chunks.map Call.write ++ [Call.fclose])) ++ [Call.rename] := by simp
  rw [hsplit, List.take_append]
  by_cases hk : k ≤ (Call.fopenTmp :: (chunks.map Call.write ++ [Call.fclose])).length
  · left
    have : k - (Call.fopenTmp :: (chunks.map Call.write ++ [Call.fclose])).length = 0 := by omega
    rw [this, List.take_zero, List.append_nil]
    exact run_take_file_of_no_rename _ _ k hA
  · right
    have h1 : (Call.fopenTmp :: (chunks.map Call.write ++ [Call.fclose])).take k
        = Call.fopenTmp :: (chunks.map Call.write ++ [Call.fclose]) := List.take_of_length_le (by omega)
    have h2 : [Call.rename].take (k - (Call.fopenTmp :: (chunks.map Call.write ++ [Call.fclose])).length)
        = [Call.rename] := List.take_of_length_le (by simp only [List.length_singleton]; omega)
    rw [h1, h2]
    have h3 : Call.fopenTmp :: (chunks.map Call.write ++ [Call.fclose])
        = (Call.fopenTmp :: chunks.map Call.write) ++ [Call.fclose] := by simp
    rw [h3, run_append, run_append, run_open_writes]
    rfl

/-- at every crash point of a save the file holds the complete old or the complete new contents -/
theorem save_atomic (chunks : List (List Byte)) (old : Option (List Byte)) (k : Nat) :
    ((FS.mk old none).run ((saveScript chunks none).1.take k)).file = old ∨
    ((FS.mk old none).run ((saveScript chunks none).1.take k)).file = some chunks.flatten :=
  atomic_core chunks old k

example : ((FS.mk (some [1]) none).run ((saveScript [[2],[3]] none).1.take 4)).file = some [1] := by decide
example : ((FS.mk (some [1]) none).run ((saveScript [[2],[3]] none).1.take 5)).file = some [2,3] := by decide

/-- a save that runs to its end installs the new contents and leaves no temporary -/
theorem save_complete (chunks : List (List Byte)) (old : Option (List Byte)) :
    (FS.mk old none).run (saveScript chunks none).1 = FS.mk (some chunks.flatten) none := by
  show (FS.mk old none).run (Call.fopenTmp :: (chunks.map Call.write ++ [Call.fclose, Call.rename])) = _
  have h3 : Call.fopenTmp :: (chunks.map Call.write ++ [Call.fclose, Call.rename])
      = (Call.fopenTmp :: chunks.map Call.write) ++ [Call.fclose, Call.rename] := by simp
  rw [h3, run_append, run_open_writes]
  rfl

example : (FS.mk none none).run (saveScript [[35],[120,10]] none).1 = FS.mk (some [35,120,10]) none := by decide

/-- with an injected failure the script either reports 0 and never renames, or is the complete successful one -/
theorem saveScript_fail_cases (chunks : List (List Byte)) (j : Nat) :
    ((saveScript chunks (some j)).2 = 0 ∧ ∀ c ∈ (saveScript chunks (some j)).1, c ≠ Call.rename) ∨
    saveScript chunks (some j) = (Call.fopenTmp :: (chunks.map Call.write ++ [Call.fclose, Call.rename]), 1) := by
  have hw : ∀ c ∈ chunks.map Call.write, c ≠ Call.rename := by
    intro c hc; simp at hc; rcases hc with ⟨x, _, rfl⟩; simp
  unfold saveScript
  simp only
  split
  · left; simp
  · split
    · left; simp
    · split
      · left
        refine ⟨rfl, ?_⟩
        intro c hc
        simp only [List.mem_cons, List.mem_append, List.not_mem_nil, or_false] at hc
        rcases hc with rfl | hc | rfl | rfl
        · simp
        · exact hw c (List.mem_of_mem_take hc)
        · simp
        · simp
      · split
        · left
          refine ⟨rfl, ?_⟩
          intro c hc
          simp only [List.mem_cons, List.mem_append, List.not_mem_nil, or_false] at hc
          rcases hc with rfl | hc | rfl | rfl
          · simp
          · exact hw c hc
          · simp
          · simp
        · split
          · left
            refine ⟨rfl, ?_⟩
            intro c hc
            simp only [List.mem_cons, List.mem_append, List.not_mem_nil, or_false] at hc
            rcases hc with rfl | hc | rfl | rfl
            · simp
            · exact hw c hc
            · simp
            · simp
          · right; rfl

/-- an injected failure of call `j`: at every crash point the file is the old one, or the new one and the save
    reports success; a save that reports failure leaves the old file -/
theorem save_atomic_failure (chunks : List (List Byte)) (old : Option (List Byte)) (j k : Nat) :
    let r := saveScript chunks (some j)
    let fs := (FS.mk old none).run (r.1.take k)
    (fs.file = old ∨ (fs.file = some chunks.flatten ∧ r.2 = 1)) ∧
      (r.2 = 0 → ((FS.mk old none).run r.1).file = old) := by
  intro r fs
  rcases saveScript_fail_cases chunks j with ⟨h0, hn⟩ | hfull
  · refine ⟨Or.inl ?_, fun _ => ?_⟩
    · exact run_take_file_of_no_rename _ _ k hn
    · exact run_file_of_no_rename _ _ hn
  · have hr : r = (Call.fopenTmp :: (chunks.map Call.write ++ [Call.fclose, Call.rename]), 1) := hfull
    refine ⟨?_, ?_⟩
    · rcases atomic_core chunks old k with h | h
      · left; show ((FS.mk old none).run (r.1.take k)).file = old; rw [hr]; exact h
      · right
        refine ⟨?_, by rw [hr]⟩
        show ((FS.mk old none).run (r.1.take k)).file = _; rw [hr]; exact h
    · intro h; rw [hr] at h; simp at h

-- a failed variable line: the old file stays, the save reports 0
example : (saveScript [[2],[3]] (some 2)).2 = 0 ∧
    ((FS.mk (some [1]) none).run (saveScript [[2],[3]] (some 2)).1) = FS.mk (some [1]) none := by decide
-- a failure number beyond the calls made: the save succeeds
example : (saveScript [[2],[3]] (some 9)).2 = 1 ∧
    ((FS.mk (some [1]) none).run (saveScript [[2],[3]] (some 9)).1).file = some [2,3] := by decide

/-! ## no temporary is left behind; the temporary's name -/

theorem run_snoc_unlink_tmp (fs : FS) (cs : List Call) : (fs.run (cs ++ [Call.unlinkTmp])).tmp = none := by
  rw [run_append]; rfl

/-- a script that reports failure makes no call at all or ends with the unlink of the temporary -/
theorem saveScript_fail_shape (chunks : List (List Byte)) (j : Nat) (h : (saveScript chunks (some j)).2 = 0) :
    (saveScript chunks (some j)).1 = [] ∨ ∃ cs, (saveScript chunks (some j)).1 = cs ++ [Call.unlinkTmp] := by
  unfold saveScript at h ⊢
  simp only at h ⊢
  split
  · left; rfl
  · split
    · right; exact ⟨[Call.fopenTmp, Call.fclose], rfl⟩
    · split
      · right
        exact ⟨Call.fopenTmp :: ((chunks.map Call.write).take (j - 1) ++ [Call.fclose]), by simp⟩
      · split
        · right; exact ⟨Call.fopenTmp :: (chunks.map Call.write ++ [Call.fclose]), by simp⟩
        · split
          · right; exact ⟨Call.fopenTmp :: (chunks.map Call.write ++ [Call.fclose]), by simp⟩
          · rename_i h0 h1 h2 h3 h4
            simp [h0, h1, h2, h3, h4] at h

/-- atomicity at a finer grain than the stdio calls: a crash in the middle of ANY call — a block of a variable line
    half written, the stdio buffer half flushed — still leaves the save file complete old or complete new, because only
    the temporary is ever written to -/
theorem save_atomic_partial (chunks : List (List Byte)) (old : Option (List Byte)) (k : Nat) (c : Call)
    (d' : List Byte) :
    (((FS.mk old none).run ((saveScript chunks none).1.take k)).partialStep c d').file = old ∨
    (((FS.mk old none).run ((saveScript chunks none).1.take k)).partialStep c d').file = some chunks.flatten := by
  have h := save_atomic chunks old k
  cases c <;> simpa [FS.partialStep] using h

/-- a save that reports failure leaves no temporary file behind, on every failure path -/
theorem save_failure_leaves_no_tmp (chunks : List (List Byte)) (old : Option (List Byte)) (j : Nat) :
    (saveScript chunks (some j)).2 = 0 → ((FS.mk old none).run (saveScript chunks (some j)).1).tmp = none := by
  intro h
  rcases saveScript_fail_shape chunks j h with h1 | ⟨cs, h1⟩
  · rw [h1]; rfl
  · rw [h1]; exact run_snoc_unlink_tmp _ cs

-- the header write fails (j = 1), a variable line fails (j = 2), the rename fails (j = 4): no temporary, old file
example : (saveScript [[2],[3]] (some 1)).2 = 0 ∧
    (FS.mk (some [1]) none).run (saveScript [[2],[3]] (some 1)).1 = FS.mk (some [1]) none := by decide
example : (saveScript [[2],[3]] (some 2)).2 = 0 ∧
    (FS.mk (some [1]) none).run (saveScript [[2],[3]] (some 2)).1 = FS.mk (some [1]) none := by decide
example : (saveScript [[2],[3]] (some 3)).2 = 0 ∧
    (FS.mk (some [1]) none).run (saveScript [[2],[3]] (some 3)).1 = FS.mk (some [1]) none := by decide
example : (saveScript [[2],[3]] (some 4)).2 = 0 ∧
    (FS.mk (some [1]) none).run (saveScript [[2],[3]] (some 4)).1 = FS.mk (some [1]) none := by decide
-- the temporary does exist before the unlink: dropping the last call of the j = 3 script leaves it
example : ((FS.mk (some [1]) none).run ((saveScript [[2],[3]] (some 3)).1.take 4)).tmp = some [2, 3] := by decide

/-- a save that succeeds leaves no temporary file behind -/
theorem save_success_leaves_no_tmp (chunks : List (List Byte)) (old : Option (List Byte)) :
    ((FS.mk old none).run (saveScript chunks none).1).tmp = none := by
  rw [save_complete]

example : ((FS.mk (some [1]) none).run ((saveScript [[2],[3]] none).1.take 4)).tmp = some [2, 3] ∧
    ((FS.mk (some [1]) none).run (saveScript [[2],[3]] none).1).tmp = none := by decide

/-- the longest prefix snprintf copies plus ".tmp" and the NUL fit into tmp_name[] (generated values) -/
theorem tmp_suffix_fits : NV.Gen.C16.tmpPrefixMax + 4 < NV.Gen.C16.tmpBufSize := by decide

/-- for a path of at most tmpPrefixMax bytes the temporary is `file.tmp`: not truncated, and not the save file -/
theorem tmpName_ne_file (file : List Byte) (h : file.length ≤ NV.Gen.C16.tmpPrefixMax) :
    tmpName file = file ++ [46,116,109,112] ∧ tmpName file ≠ file := by
  have hfit := tmp_suffix_fits
  have h1 : tmpName file = file ++ [46,116,109,112] := by
    unfold tmpName
    rw [List.take_of_length_le h]
    apply List.take_of_length_le
    simp only [List.length_append, List.length_cons, List.length_nil]
    omega
  refine ⟨h1, ?_⟩
  rw [h1]
  intro hc
  have := congrArg List.length hc
  simp at this

example : tmpName [97, 46, 111] = [97, 46, 111, 46, 116, 109, 112] := by decide

/-- for EVERY path — also those longer than the `%.Ns` prefix — the buffer does not cut the ".tmp" suffix off -/
theorem tmpName_eq (file : List Byte) :
    tmpName file = file.take NV.Gen.C16.tmpPrefixMax ++ [46,116,109,112] := by
  unfold tmpName
  apply List.take_of_length_le
  have := tmp_suffix_fits
  simp only [List.length_append, List.length_take, List.length_cons, List.length_nil]
  omega

/-- hence the temporary of ANY save (two objects whose long paths share their first `tmpPrefixMax` bytes share it) is
    never the save file of any object: save files end in the last byte of SAVE_EXTENSION (regenerated), the
    temporary in `p` -/
theorem tmpName_never_a_save_file (file g : List Byte) (hg : g.getLast? = some NV.Gen.C16.saveExt1) :
    tmpName file ≠ g := by
  rw [tmpName_eq]
  intro h
  rw [← h] at hg
  simp at hg
  exact absurd hg (by decide)


/-- **What the efun save_variable returns is never longer than MaxStringLength** (and is the text `save_svalue`
    writes): the size test stands in front of the allocation, and the size bounds the text (`size_bounds_output`) -/
theorem saveVariableEfun_ok (F : FloatOps α) (v : Value α) (t : List Byte) (h : saveVariableEfun F v = .ok t) :
    t = save F v ∧ t.length ≤ maxStringLength := by
  unfold saveVariableEfun at h
  cases hs : saveSize F 0 v with
  | none => simp [hs] at h
  | some n =>
    simp only [hs] at h
    by_cases hl : n - 1 > maxStringLength
    · simp [hl] at h
    · simp only [hl, if_false] at h
      have hb := size_bounds_output F 0 v n hs
      unfold saveVariable at h
      simp only [hs] at h
      by_cases hfit : (save F v).length + 1 ≤ n
      · simp only [hfit, if_true] at h
        injection h with h
        subst h
        exact ⟨rfl, by omega⟩
      · simp [hfit] at h

/-! ## save_object as a whole: dry run, then the call script -/

theorem saveScript_ok_shape (chunks : List (List Byte)) (j : Nat) (h : (saveScript chunks (some j)).2 ≠ 0) :
    (saveScript chunks (some j)).1 = (saveScript chunks none).1 := by
  unfold saveScript at h ⊢
  simp only at h ⊢
  split at h <;> try (simp at h)
  split at h <;> try (simp at h)
  split at h <;> try (simp at h)
  split at h <;> try (simp at h)
  split at h <;> try (simp at h)
  rename_i h0 h1 h2 h3 h4
  simp [h0, h1, h2, h3, h4]

/-- **Whatever way save_object ends — LPC error ("nested too deep"), failure reported for any call, success — no
    temporary file is left behind.**  (False before the two temporary-file fixes: header failure, too-deep error.) -/
theorem saveObject_leaves_no_tmp (F : FloatOps α) (prog : List Byte) (z : Bool) (vars : List (Var α))
    (fail : Option Nat) (old : Option (List Byte)) :
    (saveObjectFS F prog z vars fail (FS.mk old none)).1.tmp = none := by
  unfold saveObjectFS saveObjectScript
  split
  · rename_i heq
    split at heq
    · rfl
    · simp at heq
  · rename_i cs ret heq
    split at heq
    · simp at heq
    · simp only [Option.some.injEq] at heq
      cases fail with
      | none =>
        have := save_success_leaves_no_tmp (headerLine prog :: saveLines F z vars) old
        rw [heq] at this
        exact this
      | some j =>
        by_cases hr : (saveScript (headerLine prog :: saveLines F z vars) (some j)).2 = 0
        · have := save_failure_leaves_no_tmp (headerLine prog :: saveLines F z vars) old j hr
          rw [heq] at this
          exact this
        · have h1 := saveScript_ok_shape _ j hr
          have := save_success_leaves_no_tmp (headerLine prog :: saveLines F z vars) old
          rw [← h1, heq] at this
          exact this

/-- the LPC error is raised before the first file-system call: nothing at all has changed -/
theorem saveObject_error_touches_nothing (F : FloatOps α) (prog : List Byte) (z : Bool) (vars : List (Var α))
    (fail : Option Nat) (fs : FS) (h : (saveObjectFS F prog z vars fail fs).2 = none) :
    (saveObjectFS F prog z vars fail fs).1 = fs := by
  unfold saveObjectFS at h ⊢
  split
  · rfl
  · rename_i cs ret heq
    simp [heq] at h

theorem beq_tooDeep (x : SaveOut) : (x == SaveOut.tooDeep) = true ↔ x = SaveOut.tooDeep := by
  cases x with
  | ok t => exact ⟨fun h => Bool.noConfusion h, fun h => SaveOut.noConfusion h⟩
  | tooDeep => exact ⟨fun _ => rfl, fun _ => rfl⟩
  | crash => exact ⟨fun h => Bool.noConfusion h, fun h => SaveOut.noConfusion h⟩

/-- ... and it is raised exactly when some non-static variable is nested deeper than MAX_SAVE_SVALUE_DEPTH -/
theorem saveObject_error_iff_too_deep (F : FloatOps α) (prog : List Byte) (z : Bool) (vars : List (Var α))
    (fail : Option Nat) (fs : FS) :
    (saveObjectFS F prog z vars fail fs).2 = none ↔
      ∃ v ∈ vars, v.isStatic = false ∧ saveVariable F v.val = SaveOut.tooDeep := by
  unfold saveObjectFS saveObjectScript
  by_cases hany : (vars.any (fun v => !v.isStatic && (saveVariable F v.val == .tooDeep))) = true
  · simp only [hany, if_true, true_iff]
    rw [List.any_eq_true] at hany
    obtain ⟨v, hv, hc⟩ := hany
    simp only [Bool.and_eq_true, Bool.not_eq_true'] at hc
    exact ⟨v, hv, hc.1, (beq_tooDeep _).1 hc.2⟩
  · simp only [hany, Bool.false_eq_true, if_false]
    constructor
    · intro h; simp at h
    · rintro ⟨v, hv, hs, hd⟩
      exfalso
      apply hany
      rw [List.any_eq_true]
      exact ⟨v, hv, by simp only [hs, Bool.not_false, Bool.true_and]; exact (beq_tooDeep _).2 hd⟩

/-! ## 7, 8. static variables -/

/-- static variables contribute nothing to the save file -/
theorem statics_not_saved (F : FloatOps α) (z : Bool) (vars : List (Var α)) :
    saveLines F z vars = saveLines F z (vars.filter (fun v => !v.isStatic)) := by
  induction vars with
  | nil => rfl
  | cons v r ih =>
    by_cases hs : v.isStatic = true
    · simp [saveLines, hs, ih]
    · simp only [Bool.not_eq_true] at hs
      simp only [List.filter_cons, hs, Bool.not_false, if_true]
      simp only [saveLines, hs, Bool.false_eq_true, if_false]
      rw [← ih]

example : saveLines unitF true [⟨[97], true, .str []⟩, ⟨[98], false, .str []⟩] = [[98, 32, 34, 34, 10]] := by
  decide

/-! ## 9, 10. objects, safe_restore_svalue -/

/-- an object reference is saved as the empty text, which restores as 0 -/
theorem objects_not_persisted (F : FloatOps α) (mb : MbLen) :
    save F (Value.obj : Value α) = [] ∧ restoreSvalue F mb [] = Res.ok (Value.int 0) :=
  ⟨by simp [save], by simp [restoreSvalue]⟩

/-- safe_restore_svalue keeps the old value whenever the text cannot be restored -/
theorem safe_restore_keeps_old_on_error (F : FloatOps α) (mb : MbLen) (t : List Byte) (old : Value α)
    (h : ∀ v, (safeRestoreSvalue F mb t old).1 ≠ Res.ok v) : (safeRestoreSvalue F mb t old).2 = old := by
  unfold safeRestoreSvalue at h ⊢
  cases hr : restoreSvalue F mb t with
  | ok v => rw [hr] at h; exact absurd rfl (h v)
  | err e => rfl
  | crash => rfl
  | stuck => rfl

example (mb : MbLen) : safeRestoreSvalue unitF mb [40] (.int 7) = (Res.err RErr.general, Value.int 7) := rfl
example (mb : MbLen) : safeRestoreSvalue unitF mb [34, 97, 34] (.int 7) = (Res.ok (.str [97]), Value.str [97]) := rfl

/-! ## 8, 11. restore_object and static variables / errors -/

/-- setVar keeps the names -/
theorem setVar_names (vars : List (Var α)) (n : List Byte) (x : Value α) :
    (setVar vars n x).map (·.name) = vars.map (·.name) := by
  induction vars with
  | nil => rfl
  | cons v r ih =>
    by_cases h : v.name = n
    · simp [setVar, h]
    · simp only [setVar, h, if_false, List.map_cons, ih]

/-- setVar assigns the first variable of the name only: when that one is not static, the statics stay -/
theorem setVar_statics (vars : List (Var α)) (n : List Byte) (x : Value α) (v : Var α)
    (hf : vars.find? (fun w => w.name = n) = some v) (hs : v.isStatic = false) :
    (setVar vars n x).filter (·.isStatic) = vars.filter (·.isStatic) := by
  induction vars with
  | nil => rfl
  | cons u r ih =>
    by_cases h : u.name = n
    · have hu : u = v := by simpa [List.find?_cons, h] using hf
      subst hu
      simp [setVar, h, hs]
    · have hf' : r.find? (fun w => w.name = n) = some v := by simpa [List.find?_cons, h] using hf
      simp only [setVar, h, if_false, List.filter_cons, ih hf']

/-- the statics and the names of `vs` are those of `vars` -/
def SameStatics (vars vs : List (Var α)) : Prop :=
  vs.filter (·.isStatic) = vars.filter (·.isStatic) ∧ vs.map (·.name) = vars.map (·.name)

def GoodOut (vars : List (Var α)) : RoOut α → Prop
  | .done vs => SameStatics vars vs
  | .error _ vs => SameStatics vars vs
  | _ => True

theorem restoreLines_good (F : FloatOps α) (mb : MbLen) (nc : Bool) (ls : List (List Byte)) :
    ∀ (vars : List (Var α)), GoodOut vars (restoreLines F mb nc ls vars) := by
  induction ls with
  | nil => intro vars; exact ⟨rfl, rfl⟩
  | cons l ls ih =>
    intro vars
    rw [restoreLines]
    split
    · split
      · exact ⟨rfl, rfl⟩
      · exact ⟨rfl, rfl⟩
    · split
      · exact ih vars
      · simp only []
        split
        · exact ⟨rfl, rfl⟩
        · split
          · exact ih vars
          · rename_i v hfind
            split
            · exact ih vars
            · rename_i hst
              split
              · rename_i x hx
                have hs : v.isStatic = false := by simpa using hst
                have h1 := setVar_statics vars (l.takeWhile (· ≠ 32)) x v hfind hs
                have h2 := setVar_names vars (l.takeWhile (· ≠ 32)) x
                have := ih (setVar vars (l.takeWhile (· ≠ 32)) x)
                revert this
                generalize restoreLines F mb nc ls (setVar vars (l.takeWhile (· ≠ 32)) x) = out
                intro this
                cases out with
                | done vs => exact ⟨this.1.trans h1, this.2.trans h2⟩
                | error m vs => exact ⟨this.1.trans h1, this.2.trans h2⟩
                | crash => trivial
                | stuck => trivial
              · exact ⟨rfl, rfl⟩
              · trivial
              · trivial

/-- restore_object never changes a static variable nor the variable layout -/
theorem statics_not_restored (F : FloatOps α) (mb : MbLen) (nc : Bool) (ls : List (List Byte)) (vars : List (Var α)) :
    match restoreLines F mb nc ls vars with
    | .done vs => vs.filter (·.isStatic) = vars.filter (·.isStatic) ∧ vs.map (·.name) = vars.map (·.name)
    | .error _ vs => vs.filter (·.isStatic) = vars.filter (·.isStatic) ∧ vs.map (·.name) = vars.map (·.name)
    | _ => True := by
  have := restoreLines_good F mb nc ls vars
  revert this
  generalize restoreLines F mb nc ls vars = out
  intro this
  cases out with
  | done vs => exact this
  | error m vs => exact this
  | crash => trivial
  | stuck => trivial

/-- neither static variables nor object references survive a save / restore cycle -/
theorem statics_and_objects_not_persisted (F : FloatOps α) (mb : MbLen) :
    (∀ z vars, saveLines F z vars = saveLines F z (vars.filter (fun v => !v.isStatic))) ∧
    (∀ nc ls vars,
      match restoreLines F mb nc ls vars with
      | .done vs => vs.filter (·.isStatic) = vars.filter (·.isStatic) ∧ vs.map (·.name) = vars.map (·.name)
      | .error _ vs => vs.filter (·.isStatic) = vars.filter (·.isStatic) ∧ vs.map (·.name) = vars.map (·.name)
      | _ => True) ∧
    save F (Value.obj : Value α) = [] ∧ restoreSvalue F mb [] = Res.ok (Value.int 0) :=
  ⟨fun z vars => statics_not_saved F z vars, fun nc ls vars => statics_not_restored F mb nc ls vars,
   objects_not_persisted F mb⟩

set_option linter.unusedVariables false in
/-- a line whose value cannot be restored leaves every variable as it was -/
theorem restoreObject_error_keeps_variable (F : FloatOps α) (mb : MbLen) (nc : Bool) (l : List Byte)
    (ls : List (List Byte)) (vars : List (Var α)) (m : String) (vs : List (Var α)) :
    restoreLines F mb nc [l] vars = RoOut.error m vs → vs = vars := by
  intro h
  rw [restoreLines] at h
  split at h
  · simp at h
  · split at h
    · simp [restoreLines] at h
    · simp only [] at h
      split at h
      · cases h; rfl
      · split at h
        · simp [restoreLines] at h
        · split at h
          · simp [restoreLines] at h
          · split at h
            · simp [restoreLines] at h
            · cases h; rfl
            · cases h
            · cases h

example (mb : MbLen) : restoreLines unitF mb false [[97, 32, 40]] [⟨[97], false, .int 1⟩]
    = RoOut.error (errMsgVar .general [97]) [⟨[97], false, .int 1⟩] := by
  simp [restoreLines, restoreSvalue, varBufSize, NV.Gen.C16.varBufSize]

-- a static variable with the name of an earlier non-static one is left alone: only the first one is assigned
example (mb : MbLen) : restoreLines unitF mb false [[97, 32, 34, 34]] [⟨[97], false, .int 1⟩, ⟨[97], true, .int 2⟩]
    = RoOut.done [⟨[97], false, .str []⟩, ⟨[97], true, .int 2⟩] := by
  simp [restoreLines, restoreSvalue, restoreString, decodeStr, setVar, varBufSize, NV.Gen.C16.varBufSize]

-- with distinct names the static variable keeps its value while the other one is assigned
example (mb : MbLen) : restoreLines unitF mb false [[98, 32, 34, 34], [97, 32, 34, 34]]
      [⟨[97], false, .int 1⟩, ⟨[98], true, .int 2⟩]
    = RoOut.done [⟨[97], false, .str []⟩, ⟨[98], true, .int 2⟩] := by
  simp [restoreLines, restoreSvalue, restoreString, decodeStr, setVar, varBufSize, NV.Gen.C16.varBufSize]

end NV.C16
