/-
C16 — definitions used by the round-trip theorem: the values the statement ranges over (`Savable`), the contract
of the float parameter on one float (`FloatOK`), what a restore must yield (`erase`: object references are not
persisted) and equality up to the printed precision of floats (`Equiv`).
-/
import NV.C16.Model

namespace NV.C16

variable {α : Type}

mutual
/-- what must come back: object references (and everything else save_svalue has no case for) are restored as 0 -/
def erase : Value α → Value α
  | .obj => .int 0
  | .arr xs => .arr (eraseVals xs)
  | .cls xs => .cls (eraseVals xs)
  | .map ps => .map (erasePairs ps)
  | .int n => .int n
  | .real x => .real x
  | .str s => .str s
def eraseVals : Vals α → Vals α
  | .nil => .nil
  | .cons v r => .cons (erase v) (eraseVals r)
def erasePairs : Pairs α → Pairs α
  | .nil => .nil
  | .cons k v r => .cons (erase k) (erase v) (erasePairs r)
end

/-- The stated contract of `FloatOps` on the float `x` (it holds for finite, normal IEEE doubles with glibc's
    "%g" and the arithmetic of parse_numeric — checked on every generated float by the correspondence run — and
    fails for inf, nan (their text does not start a number) and for subnormal numbers):
    the saved text is a non-empty run of ASCII bytes that starts like a number and contains no delimiter, and
    parse_numeric reads it back — whatever delimiter or end of text follows — as a float with the same saved text.
    Since the fixes K2/K4 this covers the infinities, NaN and the subnormal numbers as well. -/
structure FloatOK (F : FloatOps α) (x : α) : Prop where
  start : ∃ c s, saveReal F x = c :: s ∧ numStart c = true
  chars : ∀ b ∈ saveReal F x, b ≠ 0 ∧ b ≠ 10 ∧ b ≠ 44 ∧ b ≠ 58 ∧ b < 128
  parse : ∀ c s, saveReal F x = c :: s → ∀ tail : List Byte,
    (tail = [] ∨ ∃ d r, tail = d :: r ∧ (d = 44 ∨ d = 58)) →
    ∃ y, parseNumeric F c (s ++ tail) = some (.real y, tail) ∧ saveReal F y = saveReal F x

/-- bytes a string may hold: everything but NUL (LPC strings are C strings).  CR and bytes that are no valid
    multibyte character round-trip since the fixes K1 / K3. -/
def strOK (s : List Byte) : Bool := s.all (· != 0)

/-- identity of a mapping key as far as restore_mapping's duplicate test is concerned (`none`: a container,
    never equal to another key).  An object reference used as key is written as nothing and read back as 0. -/
def keyTag : Value α → Option (Int ⊕ List Byte)
  | .int n => some (.inl n)
  | .obj => some (.inl 0)
  | .str s => some (.inr s)
  | _ => none

def Pairs.keys : Pairs α → List (Value α)
  | .nil => []
  | .cons k _ r => k :: r.keys

def isReal : Value α → Bool
  | .real _ => true
  | _ => false

mutual
/-- **The domain of the round-trip theorem** — a decidable check on the value alone:
    * integers are 64-bit,
    * strings contain no NUL byte (any other byte is allowed),
    * an array has at most MaxArraySize elements (allocate_array refuses more, on both sides),
    * the keys of a mapping are not floats (two float keys that print alike collapse: open finding K5) and its
      integer / string / object keys are pairwise different as restore_mapping sees them (`keyTag`; true of every
      real mapping); container keys are unrestricted,
    * no restriction on nesting depth, classes, empty containers, object references (they come back as 0).
    Floats carry no restriction here: what is needed of them is the contract `FloatsOK` of the float parameter. -/
def savable : Value α → Bool
  | .int n => decide (-(2 : Int) ^ 63 ≤ n) && decide (n < (2 : Int) ^ 63)
  | .real _ => true
  | .str s => strOK s
  | .obj => true
  | .arr xs => decide (xs.length ≤ maxArray) && savableVals xs
  | .cls xs => decide (xs.length ≤ maxClass) && savableVals xs
  | .map ps => savablePairs ps && ps.keys.all (fun k => !isReal k) && decide ((ps.keys.filterMap keyTag).Nodup)
def savableVals : Vals α → Bool
  | .nil => true
  | .cons v r => savable v && savableVals r
def savablePairs : Pairs α → Bool
  | .nil => true
  | .cons k v r => savable k && savable v && savablePairs r
end

mutual
/-- every float inside the value satisfies the float contract `FloatOK` -/
def FloatsOK (F : FloatOps α) : Value α → Prop
  | .real x => FloatOK F x
  | .arr xs => FloatsOKVals F xs
  | .cls xs => FloatsOKVals F xs
  | .map ps => FloatsOKPairs F ps
  | _ => True
def FloatsOKVals (F : FloatOps α) : Vals α → Prop
  | .nil => True
  | .cons v r => FloatsOK F v ∧ FloatsOKVals F r
def FloatsOKPairs (F : FloatOps α) : Pairs α → Prop
  | .nil => True
  | .cons k v r => FloatsOK F k ∧ FloatsOK F v ∧ FloatsOKPairs F r
end

mutual
/-- equality of values, floats compared by their saved text ("%g": the printed precision; every NaN alike) -/
inductive Equiv (F : FloatOps α) : Value α → Value α → Prop
  | int (n : Int) : Equiv F (.int n) (.int n)
  | real (x y : α) : saveReal F x = saveReal F y → Equiv F (.real x) (.real y)
  | str (s : List Byte) : Equiv F (.str s) (.str s)
  | arr (xs ys : Vals α) : EquivVals F xs ys → Equiv F (.arr xs) (.arr ys)
  | cls (xs ys : Vals α) : EquivVals F xs ys → Equiv F (.cls xs) (.cls ys)
  | map (ps qs : Pairs α) : EquivPairs F ps qs → Equiv F (.map ps) (.map qs)
inductive EquivVals (F : FloatOps α) : Vals α → Vals α → Prop
  | nil : EquivVals F .nil .nil
  | cons (v w : Value α) (r s : Vals α) : Equiv F v w → EquivVals F r s → EquivVals F (.cons v r) (.cons w s)
inductive EquivPairs (F : FloatOps α) : Pairs α → Pairs α → Prop
  | nil : EquivPairs F .nil .nil
  | cons (k k' v v' : Value α) (r s : Pairs α) : Equiv F k k' → Equiv F v v' → EquivPairs F r s →
      EquivPairs F (.cons k v r) (.cons k' v' s)
end

/-! ## object level -/

/-- a variable name as it can stand in a save file line: an identifier — non-empty, shorter than the 100-byte
    buffer of restore_object_from_buff, no blank / LF / NUL, not starting with `#` (comment lines) -/
def nameOK (n : List Byte) : Bool :=
  n != [] && decide (n.length < varBufSize) && n.all (fun b => b != 32 && b != 10 && b != 0) && n.head? != some 35

/-- **Domain of the object-level round trip**: the variable names are identifiers and pairwise different (two
    variables of one name at different inheritance levels are NOT restored correctly: open finding K6), every
    non-static value is in the domain of `roundtrip` -/
def objSavable (vars : List (Var α)) : Bool :=
  vars.all (fun v => nameOK v.name) && decide ((vars.map (·.name)).Nodup) &&
    vars.all (fun v => v.isStatic || savable v.val)

/-- what restore_object must leave in the object: `saved` = the variables at save time, `live` = the variables
    of the (same program's) object at restore time, third list = the variables afterwards: a static variable keeps
    its live value, a non-static one holds the saved value (equal up to `Equiv`, object references as 0) -/
inductive ObjRestored (F : FloatOps α) : List (Var α) → List (Var α) → List (Var α) → Prop
  | nil : ObjRestored F [] [] []
  | static (s l : Var α) (ss ls rs : List (Var α)) : s.isStatic = true → l.isStatic = true → l.name = s.name →
      ObjRestored F ss ls rs → ObjRestored F (s :: ss) (l :: ls) (l :: rs)
  | saved (s l : Var α) (x : Value α) (ss ls rs : List (Var α)) : s.isStatic = false → l.isStatic = false →
      l.name = s.name → Equiv F (erase s.val) x → ObjRestored F ss ls rs →
      ObjRestored F (s :: ss) (l :: ls) (⟨s.name, false, x⟩ :: rs)

end NV.C16
