/-
C16 — definitions used by the round-trip theorem: the values the statement ranges over (`Savable`), the contract
of the float parameter on one float (`FloatOK`), what a restore must yield (`erase`: object references are not
persisted) and equality up to the printed precision of floats (`Equiv`).
-/
import NV.C16.Model

namespace NV.C16

variable {α : Type}

mutual
/-- what must come back: object references (and everything else save_svalue has no case for) are restored as 0 -/
def erase : Value α → Value α
  | .obj => .int 0
  | .arr xs => .arr (eraseVals xs)
  | .cls xs => .cls (eraseVals xs)
  | .map ps => .map (erasePairs ps)
  | .int n => .int n
  | .real x => .real x
  | .str s => .str s
def eraseVals : Vals α → Vals α
  | .nil => .nil
  | .cons v r => .cons (erase v) (eraseVals r)
def erasePairs : Pairs α → Pairs α
  | .nil => .nil
  | .cons k v r => .cons (erase k) (erase v) (erasePairs r)
end

/-- The stated contract of `FloatOps` on the float `x` (it holds for finite, normal IEEE doubles with glibc's
    "%g" and the arithmetic of parse_numeric — checked on every generated float by the correspondence run — and
    fails for inf, nan (their text does not start a number) and for subnormal numbers):
    the saved text is a non-empty run of ASCII bytes that starts like a number and contains no delimiter, and
    parse_numeric reads it back — whatever delimiter or end of text follows — as a float with the same "%g" text. -/
structure FloatOK (F : FloatOps α) (x : α) : Prop where
  start : ∃ c s, saveReal F x = c :: s ∧ numStart c = true
  chars : ∀ b ∈ saveReal F x, b ≠ 0 ∧ b ≠ 44 ∧ b ≠ 58 ∧ b < 128
  parse : ∀ c s, saveReal F x = c :: s → ∀ tail : List Byte,
    (tail = [] ∨ ∃ d r, tail = d :: r ∧ (d = 44 ∨ d = 58)) →
    ∃ y, parseNumeric F c (s ++ tail) = some (.real y, tail) ∧ F.print y = F.print x

/-- bytes a string may hold for the full round trip: no NUL (C strings), no CR (known finding K1: CR comes back
    as LF), ASCII (known finding K3 concerns bytes that are not valid multibyte characters; valid UTF-8 text is
    covered by the correspondence run only) -/
def StrOK (s : List Byte) : Prop := ∀ b ∈ s, b ≠ 0 ∧ b ≠ 13 ∧ b < 128

/-- identity of a mapping key as far as restore_mapping's duplicate test is concerned (`none`: a container,
    never equal to another key).  An object reference used as key is written as nothing and read back as 0. -/
def keyTag : Value α → Option (Int ⊕ List Byte)
  | .int n => some (.inl n)
  | .obj => some (.inl 0)
  | .str s => some (.inr s)
  | _ => none

def Pairs.keys : Pairs α → List (Value α)
  | .nil => []
  | .cons k _ r => k :: r.keys

def isReal : Value α → Bool
  | .real _ => true
  | _ => false

mutual
/-- the values of the round-trip statement -/
inductive Savable (F : FloatOps α) : Value α → Prop
  | int (n : Int) : -(2 : Int) ^ 63 ≤ n → n < (2 : Int) ^ 63 → Savable F (.int n)
  | real (x : α) : FloatOK F x → Savable F (.real x)
  | str (s : List Byte) : StrOK s → Savable F (.str s)
  | obj : Savable F .obj
  /-- an LPC array never has more than MaxArraySize elements (allocate_array refuses; so does the restore) -/
  | arr (xs : Vals α) : SavableVals F xs → xs.length ≤ maxArray → Savable F (.arr xs)
  | cls (xs : Vals α) : SavableVals F xs → Savable F (.cls xs)
  /-- keys: no floats (float keys that print alike collapse: known finding K5), integer / string keys distinct -/
  | map (ps : Pairs α) : SavablePairs F ps → (∀ k ∈ ps.keys, isReal k = false) →
      ((ps.keys.filterMap keyTag).Nodup) → Savable F (.map ps)
inductive SavableVals (F : FloatOps α) : Vals α → Prop
  | nil : SavableVals F .nil
  | cons (v : Value α) (r : Vals α) : Savable F v → SavableVals F r → SavableVals F (.cons v r)
inductive SavablePairs (F : FloatOps α) : Pairs α → Prop
  | nil : SavablePairs F .nil
  | cons (k v : Value α) (r : Pairs α) : Savable F k → Savable F v → SavablePairs F r → SavablePairs F (.cons k v r)
end

mutual
/-- equality of values, floats compared by their "%g" text (the printed precision) -/
inductive Equiv (F : FloatOps α) : Value α → Value α → Prop
  | int (n : Int) : Equiv F (.int n) (.int n)
  | real (x y : α) : F.print x = F.print y → Equiv F (.real x) (.real y)
  | str (s : List Byte) : Equiv F (.str s) (.str s)
  | arr (xs ys : Vals α) : EquivVals F xs ys → Equiv F (.arr xs) (.arr ys)
  | cls (xs ys : Vals α) : EquivVals F xs ys → Equiv F (.cls xs) (.cls ys)
  | map (ps qs : Pairs α) : EquivPairs F ps qs → Equiv F (.map ps) (.map qs)
inductive EquivVals (F : FloatOps α) : Vals α → Vals α → Prop
  | nil : EquivVals F .nil .nil
  | cons (v w : Value α) (r s : Vals α) : Equiv F v w → EquivVals F r s → EquivVals F (.cons v r) (.cons w s)
inductive EquivPairs (F : FloatOps α) : Pairs α → Pairs α → Prop
  | nil : EquivPairs F .nil .nil
  | cons (k k' v v' : Value α) (r s : Pairs α) : Equiv F k k' → Equiv F v v' → EquivPairs F r s →
      EquivPairs F (.cons k v r) (.cons k' v' s)
end

end NV.C16
