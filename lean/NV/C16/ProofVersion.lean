/-
C16 — restore_object into ANOTHER version of the program: the variable table of the restoring object (`cur`) need not be
the one the file was saved from (`ss`): variables renamed / removed / added, made static (nosave) or non-static,
reordered, moved into or out of an inherited program (the flat layouts of both come from `slots`, Tree.lean, and
`restoreObjectT_flat` carries everything proved here to every program tree).

Matching is by NAME only: a variable of the restoring program takes the saved value iff it is non-static and the file
has a line of its name (written by a non-static variable of the saving program whose text was not "0", or any with
save_zeros); nothing else of the object changes; lines of unknown or static names are skipped without an error.
Types play no part (LPC variables are restored whatever their declared type: "retyped" is the same as "unchanged").
-/
import NV.C16.ProofObject

namespace NV.C16

variable {α : Type}

/-- pointwise relation of two lists of equal length -/
inductive Rel2 {β : Type} (R : β → β → Prop) : List β → List β → Prop
  | nil : Rel2 R [] []
  | cons (a b : β) (as bs : List β) : R a b → Rel2 R as bs → Rel2 R (a :: as) (b :: bs)

theorem Rel2.refl {β : Type} {R : β → β → Prop} (h : ∀ a, R a a) : ∀ l, Rel2 R l l
  | [] => .nil
  | a :: l => .cons a a l l (h a) (Rel2.refl h l)

theorem Rel2.comp {β : Type} {R1 R2 R3 : β → β → Prop} :
    ∀ {a b c : List β}, Rel2 R1 a b → Rel2 R2 b c → (∀ x ∈ a, ∀ y z, R1 x y → R2 y z → R3 x z) → Rel2 R3 a c
  | _, _, _, .nil, .nil, _ => .nil
  | _, _, _, .cons x y xs ys h1 t1, .cons _ z _ zs h2 t2, h =>
    .cons x z xs zs (h x (by simp) y z h1 h2) (Rel2.comp t1 t2 (fun x' hx' => h x' (by simp [hx'])))

theorem Rel2.mono {β : Type} {R1 R2 : β → β → Prop} :
    ∀ {a b : List β}, Rel2 R1 a b → (∀ x ∈ a, ∀ y, R1 x y → R2 x y) → Rel2 R2 a b
  | _, _, .nil, _ => .nil
  | _, _, .cons x y xs ys h1 t1, h => .cons x y xs ys (h x (by simp) y h1) (Rel2.mono t1 (fun x' hx' => h x' (by simp [hx'])))

/-- the variables of the saving program that get a line in the file -/
def written (F : FloatOps α) (z : Bool) (ss : List (Var α)) : List (Var α) :=
  ss.filter (fun s => !s.isStatic && (z || save F s.val != [48]))

/-- what the restore leaves in the variable `c` of the restoring program (`r` = the variable afterwards): same name and
    static flag; a non-static variable whose name has a line in the file holds that saved value (up to `Equiv`, object
    references as 0); every other variable is untouched -/
def After (F : FloatOps α) (ws : List (Var α)) (c r : Var α) : Prop :=
  r.name = c.name ∧ r.isStatic = c.isStatic ∧
  match (if c.isStatic then none else ws.find? (fun s => s.name = c.name)) with
  | some s => Equiv F (erase s.val) r.val
  | none => r.val = c.val

theorem after_refl (F : FloatOps α) (c : Var α) : After F [] c c := by
  refine ⟨rfl, rfl, ?_⟩
  cases c.isStatic <;> simp

/-- `setVar` on a list with pairwise different names: the variable of that name gets the value, nothing else changes -/
theorem setVar_rel (cur : List (Var α)) (nm : List Byte) (w : Value α) (hnd : (cur.map (·.name)).Nodup) :
    Rel2 (fun c c' => c'.name = c.name ∧ c'.isStatic = c.isStatic ∧ c'.val = (if c.name = nm then w else c.val))
      cur (setVar cur nm w) := by
  induction cur with
  | nil => exact .nil
  | cons x r ih =>
    rw [List.map_cons, List.nodup_cons] at hnd
    by_cases hx : x.name = nm
    · have hr : ∀ y ∈ r, y.name ≠ nm := by
        intro y hy hyn
        exact hnd.1 (by rw [hx, ← hyn]; exact List.mem_map.2 ⟨y, hy, rfl⟩)
      simp only [setVar, hx, if_true]
      refine .cons _ _ _ _ ⟨hx.symm ▸ rfl, rfl, by simp [hx]⟩ ?_
      exact Rel2.mono (Rel2.refl (R := fun c c' => c' = c) (fun _ => rfl) r)
        (fun y hy y' h => by rw [h]; exact ⟨rfl, rfl, by simp [hr y hy]⟩)
    · simp only [setVar, hx, if_false]
      exact .cons _ _ _ _ ⟨rfl, rfl, by simp [hx]⟩ (ih hnd.2)

theorem unique_by_name : ∀ (cur : List (Var α)), (cur.map (·.name)).Nodup → ∀ c v, c ∈ cur → v ∈ cur →
    c.name = v.name → c = v
  | [], _, _, _, hc, _, _ => by simp at hc
  | x :: r, hnd, c, v, hc, hv, h => by
    rw [List.map_cons, List.nodup_cons] at hnd
    rcases List.mem_cons.1 hc with rfl | hc'
    · rcases List.mem_cons.1 hv with rfl | hv'
      · rfl
      · exact absurd (List.mem_map.2 ⟨v, hv', h.symm⟩) hnd.1
    · rcases List.mem_cons.1 hv with rfl | hv'
      · exact absurd (List.mem_map.2 ⟨c, hc', h⟩) hnd.1
      · exact unique_by_name r hnd.2 c v hc' hv' h

theorem setVar_names (cur : List (Var α)) (nm : List Byte) (w : Value α) :
    (setVar cur nm w).map (·.name) = cur.map (·.name) := by
  induction cur with
  | nil => rfl
  | cons x r ih =>
    by_cases hx : x.name = nm
    · simp [setVar, hx]
    · simp [setVar, hx, ih]

/-- a line of a name the restoring program does not know, or knows as a static variable, is skipped -/
theorem restoreLines_skip (F : FloatOps α) (mb : MbLen) (nc : Bool) (cur : List (Var α)) (nm t : List Byte)
    (rest : List (List Byte)) (hn : nameOK nm = true)
    (hf : match cur.find? (fun v => v.name = nm) with | none => True | some v => v.isStatic = true) :
    restoreLines F mb nc ((nm ++ 32 :: t) :: rest) cur = restoreLines F mb nc rest cur := by
  obtain ⟨hne, hlen, hby, hhead⟩ := nameOK_spec nm hn
  have htw := takeWhile_name nm t (fun b hb => (hby b hb).1)
  have hl0 : nm ++ 32 :: t ≠ [] := by simp
  have hh : (nm ++ 32 :: t).head? ≠ some 35 := by
    cases hnm : nm with
    | nil => exact absurd hnm hne
    | cons c r => rw [hnm] at hhead; simpa using hhead
  have hlen2 : ¬ (nm.length = (nm ++ 32 :: t).length ∨ nm.length ≥ varBufSize) := by
    intro h
    rcases h with h | h
    · simp only [List.length_append, List.length_cons] at h; omega
    · exact absurd hlen (Nat.not_lt.2 h)
  rw [restoreLines]
  simp only [hl0, hh, htw, hlen2, ↓reduceIte]
  cases hq : cur.find? (fun v => v.name = nm) with
  | none => simp
  | some v =>
    rw [hq] at hf
    simp [hf]

/-- the line of a name the restoring program knows as a non-static variable -/
theorem restoreLines_hit (F : FloatOps α) (mb : MbLen) (nc : Bool) (cur : List (Var α)) (nm t : List Byte)
    (rest : List (List Byte)) (v : Var α) (w : Value α) (hn : nameOK nm = true)
    (hf : cur.find? (fun v => v.name = nm) = some v) (hv : v.isStatic = false) (hr : restoreSvalue F mb t = .ok w) :
    restoreLines F mb nc ((nm ++ 32 :: t) :: rest) cur = restoreLines F mb nc rest (setVar cur nm w) := by
  obtain ⟨hne, hlen, hby, hhead⟩ := nameOK_spec nm hn
  have htw := takeWhile_name nm t (fun b hb => (hby b hb).1)
  have hl0 : nm ++ 32 :: t ≠ [] := by simp
  have hh : (nm ++ 32 :: t).head? ≠ some 35 := by
    cases hnm : nm with
    | nil => exact absurd hnm hne
    | cons c r => rw [hnm] at hhead; simpa using hhead
  have hdrop : (nm ++ 32 :: t).drop (nm.length + 1) = t := by
    rw [show nm ++ 32 :: t = (nm ++ [32]) ++ t by simp]
    rw [List.drop_append_of_le_length (by simp)]
    simp
  have hlen2 : ¬ (nm.length = (nm ++ 32 :: t).length ∨ nm.length ≥ varBufSize) := by
    intro h
    rcases h with h | h
    · simp only [List.length_append, List.length_cons] at h; omega
    · exact absurd hlen (Nat.not_lt.2 h)
  rw [restoreLines]
  simp only [hl0, hh, htw, hlen2, hdrop, ↓reduceIte, hf, hv, hr]
  simp

/-- **restore_object into another version of the program.**  `ss`: the variables of the saving object (names are
    identifiers, pairwise different; non-static values in the round-trip domain), `cur`: the variables of the restoring
    object when the lines are read (pairwise different names, ANY layout): the restore ends without error and leaves
    `After` in every variable. -/
theorem restoreLines_other_version (F : FloatOps α) (mb : MbLen) (nc z : Bool) : ∀ (ss cur : List (Var α)),
    (∀ v ∈ ss, nameOK v.name = true) → (ss.map (·.name)).Nodup →
    (∀ v ∈ ss, v.isStatic = false → SavableD F v.val) → (cur.map (·.name)).Nodup →
    ∃ res, restoreLines F mb nc (splitLines (saveLines F z ss).flatten) cur = .done res ∧
      Rel2 (After F (written F z ss)) cur res := by
  intro ss
  induction ss with
  | nil =>
    intro cur _ _ _ _
    refine ⟨cur, by simp [saveLines, splitLines, restoreLines_nil], ?_⟩
    exact Rel2.refl (after_refl F) cur
  | cons s ss' ih =>
    intro cur hname hnd hsv hcur
    have hname' : ∀ v ∈ ss', nameOK v.name = true := fun v hv => hname v (by simp [hv])
    have hsv' : ∀ v ∈ ss', v.isStatic = false → SavableD F v.val := fun v hv => hsv v (by simp [hv])
    rw [List.map_cons, List.nodup_cons] at hnd
    obtain ⟨hsn, hnd'⟩ := hnd
    by_cases hw : (!s.isStatic && (z || save F s.val != [48])) = true
    · -- the variable has a line
      simp only [Bool.and_eq_true, Bool.not_eq_true'] at hw
      obtain ⟨hst, hz⟩ := hw
      have hsav := hsv s (by simp) hst
      have e1 : (saveLines F z (s :: ss')).flatten =
          (s.name ++ 32 :: save F s.val) ++ 10 :: (saveLines F z ss').flatten := by
        simp [saveLines, hst, hz]
      obtain ⟨_, _, hby, _⟩ := nameOK_spec s.name (hname s (by simp))
      have hnl : ∀ b ∈ s.name ++ 32 :: save F s.val, b ≠ 10 := by
        intro b hb
        rcases List.mem_append.1 hb with hb | hb
        · exact (hby b hb).2.1
        · rcases List.mem_cons.1 hb with rfl | hb
          · omega
          · exact save_nl F s.val hsav.1 b hb
      have hwr : written F z (s :: ss') = s :: written F z ss' := by
        simp [written, hst, hz]
      have hnotin : ∀ x ∈ written F z ss', x.name ≠ s.name := by
        intro x hx hxs
        have hx' : x ∈ ss' := (List.mem_filter.1 hx).1
        exact hsn (by rw [← hxs]; exact List.mem_map.2 ⟨x, hx', rfl⟩)
      rw [e1, splitLines_line _ _ hnl, hwr]
      cases hq : cur.find? (fun v => v.name = s.name) with
      | none =>
        rw [restoreLines_skip F mb nc cur s.name _ _ (hname s (by simp)) (by rw [hq]; trivial)]
        obtain ⟨res, hres, hrel⟩ := ih cur hname' hnd' hsv' hcur
        refine ⟨res, hres, Rel2.mono hrel ?_⟩
        intro c hc r ⟨h1, h2, h3⟩
        refine ⟨h1, h2, ?_⟩
        have hcn : ¬ (s.name = c.name) := by
          intro h
          have := List.find?_eq_none.1 hq c hc
          simp [h] at this
        simpa [List.find?_cons, hcn] using h3
      | some v =>
        have hvn : v.name = s.name := by simpa using List.find?_some hq
        have hvm : v ∈ cur := List.mem_of_find?_eq_some hq
        by_cases hvs : v.isStatic = true
        · rw [restoreLines_skip F mb nc cur s.name _ _ (hname s (by simp)) (by rw [hq]; exact hvs)]
          obtain ⟨res, hres, hrel⟩ := ih cur hname' hnd' hsv' hcur
          refine ⟨res, hres, Rel2.mono hrel ?_⟩
          intro c hc r ⟨h1, h2, h3⟩
          refine ⟨h1, h2, ?_⟩
          by_cases hcs : c.isStatic = true
          · simpa [hcs] using h3
          · have hcn : ¬ (s.name = c.name) := by
              intro h
              -- two variables of one name in `cur`: c and v; v is static, c is not
              have : c = v := unique_by_name cur hcur c v hc hvm (by rw [hvn]; exact h.symm)
              rw [this] at hcs
              exact hcs hvs
            simpa [List.find?_cons, hcn, hcs] using h3
        · have hvs' : v.isStatic = false := by simpa using hvs
          obtain ⟨w, hw1, hw2⟩ := restoreSvalue_save F mb s.val hsav.1 hsav.2
          rw [restoreLines_hit F mb nc cur s.name _ _ v w (hname s (by simp)) hq hvs' hw1]
          have hcur' : ((setVar cur s.name w).map (·.name)).Nodup := by rw [setVar_names]; exact hcur
          obtain ⟨res, hres, hrel⟩ := ih (setVar cur s.name w) hname' hnd' hsv' hcur'
          refine ⟨res, hres, Rel2.comp (setVar_rel cur s.name w hcur) hrel ?_⟩
          intro c hc c' r ⟨g1, g2, g3⟩ ⟨h1, h2, h3⟩
          refine ⟨by rw [h1, g1], by rw [h2, g2], ?_⟩
          rw [g1, g2] at h3
          by_cases hcs : c.isStatic = true
          · simp only [hcs, if_true] at h3 ⊢
            have hcn : c.name ≠ s.name := by
              intro h
              -- c and v carry the same name: c = v, but v is not static
              have : c = v := unique_by_name cur hcur c v hc hvm (by rw [hvn]; exact h)
              rw [this] at hcs
              exact hvs hcs
            rw [h3, g3]; simp [hcn]
          · simp only [hcs, if_false] at h3 ⊢
            by_cases hcn : c.name = s.name
            · -- this is the variable the line was for
              have hnone : (written F z ss').find? (fun x => x.name = c.name) = none := by
                rw [List.find?_eq_none]
                intro x hx
                have := hnotin x hx
                simp [hcn, this]
              rw [hnone] at h3
              simp only [List.find?_cons, hcn, decide_true]
              rw [h3, g3]; simpa [hcn] using hw2
            · have hcn' : ¬ (s.name = c.name) := fun h => hcn h.symm
              simp only [List.find?_cons, hcn', decide_false]
              rw [g3] at h3
              simpa [hcn] using h3
    · -- no line for this variable: static, or its text is "0" without save_zeros
      have e1 : saveLines F z (s :: ss') = saveLines F z ss' := by
        by_cases hst : s.isStatic = true
        · simp [saveLines, hst]
        · simp only [Bool.not_eq_true] at hst
          simp only [hst, Bool.not_false, Bool.true_and] at hw
          simp [saveLines, hst, hw]
      have e2 : written F z (s :: ss') = written F z ss' := by
        simp [written, List.filter_cons, hw]
      rw [e1, e2]
      exact ih cur hname' hnd' hsv' hcur

theorem clearVar_names (live : List (Var α)) : (live.map clearVar).map (·.name) = live.map (·.name) := by
  induction live with
  | nil => rfl
  | cons x r ih =>
    simp only [List.map_cons, ih]
    by_cases hx : x.isStatic = true <;> simp [clearVar, hx]

/-- **restore_object(file, nc) into another version of the program** — the whole efun on the whole file: it returns 1
    without an error, and every variable of the restoring object is `After` with respect to what it was when the lines
    were read (its live value with the no-clear flag, else the live value of a static and 0 for a non-static one). -/
theorem restoreObject_other_version {α : Type} (F : FloatOps α) (mb : MbLen) (prog : List Byte) (z nc : Bool)
    (ss live : List (Var α)) (hprog : ∀ b ∈ prog, b ≠ 10 ∧ b ≠ 0) (hs : objSavable ss = true)
    (hf : ∀ v ∈ ss, v.isStatic = false → FloatsOK F v.val)
    (hdp : ∀ v ∈ ss, v.isStatic = false → saveVariable F v.val ≠ SaveOut.tooDeep)
    (hlive : (live.map (·.name)).Nodup) :
    ∃ res, restoreObject F mb nc (some (saveFileText F prog z ss)) live = (1, RoOut.done res) ∧
      Rel2 (After F (written F z ss)) (if nc then live else live.map clearVar) res := by
  obtain ⟨hname, hnd, hsav⟩ := objSavable_spec ss hs
  have hsv0 : ∀ v ∈ ss, v.isStatic = false → Savable F v.val :=
    fun v hv hst => savable_bridge F v.val (hsav v hv hst) (hf v hv hst)
  have hsv : ∀ v ∈ ss, v.isStatic = false → SavableD F v.val := by
    intro v hv hst
    refine ⟨hsv0 v hv hst, ?_⟩
    have h := hdp v hv hst
    unfold saveVariable at h
    cases hq : saveSize F 0 v.val with
    | none => simp [hq] at h
    | some n => rfl
  have htext : saveFileText F prog z ss = (35 :: 47 :: prog) ++ 10 :: (saveLines F z ss).flatten := by
    simp [saveFileText, headerLine]
  have hnz : ∀ b ∈ saveFileText F prog z ss, b ≠ 0 := by
    intro b hb
    rw [htext] at hb
    simp only [List.mem_append, List.mem_cons] at hb
    rcases hb with (rfl | rfl | hb) | rfl | hb
    · omega
    · omega
    · exact (hprog b hb).2
    · omega
    · exact saveLines_nz F z ss hname hsv0 b hb
  have hnl : ∀ b ∈ 35 :: 47 :: prog, b ≠ 10 := by
    intro b hb
    simp only [List.mem_cons] at hb
    rcases hb with rfl | rfl | hb
    · omega
    · omega
    · exact (hprog b hb).1
  have hcs := cstr_eq_self _ hnz
  have hsplit : splitLines (saveFileText F prog z ss) =
      (35 :: 47 :: prog) :: splitLines (saveLines F z ss).flatten := by
    rw [htext, splitLines_line _ _ hnl]
  have hne : saveFileText F prog z ss ≠ [] := by rw [htext]; simp
  cases nc with
  | false =>
    obtain ⟨res, hres, hrel⟩ := restoreLines_other_version F mb false z ss (live.map clearVar) hname hnd hsv
      (by rw [clearVar_names]; exact hlive)
    refine ⟨res, ?_, by simpa using hrel⟩
    rw [restoreObject_some F mb _ live hne, hcs, hsplit, restoreLines_header, hres]
  | true =>
    obtain ⟨res, hres, hrel⟩ := restoreLines_other_version F mb true z ss live hname hnd hsv hlive
    refine ⟨res, ?_, by simpa using hrel⟩
    rw [restoreObject_some_nc F mb _ live hne, hcs, hsplit, restoreLines_header, hres]

/-! ## non-vacuity: version 2 of a program restores a file of version 1

version 1: `a` (= 5), `b` (= "x"), `gone` (= 7), static `s`; version 2: `b` first, `a` now static (nosave), a new `c`,
`gone` removed, `s` no longer static -/

def v1Vars : List (Var Unit) :=
  [⟨[97], false, .int 5⟩, ⟨[98], false, .str [120]⟩, ⟨[103, 111, 110, 101], false, .int 7⟩, ⟨[115], true, .int 9⟩]

def v2Live : List (Var Unit) :=
  [⟨[98], false, .int 1⟩, ⟨[97], true, .int 2⟩, ⟨[99], false, .int 3⟩, ⟨[115], false, .int 4⟩]

example (mb : MbLen) : ∃ res, restoreObject rtF mb true (some (saveFileText rtF [112] false v1Vars)) v2Live =
    (1, RoOut.done res) ∧ Rel2 (After rtF (written rtF false v1Vars)) v2Live res :=
  restoreObject_other_version rtF mb [112] false true v1Vars v2Live (by decide) (by decide)
    (by intro v hv _; simp only [v1Vars, List.mem_cons, List.not_mem_nil, or_false] at hv
        rcases hv with rfl | rfl | rfl | rfl <;> simp [FloatsOK])
    (by intro v hv _; simp only [v1Vars, List.mem_cons, List.not_mem_nil, or_false] at hv
        rcases hv with rfl | rfl | rfl | rfl <;> (simp [saveVariable, saveSize]; try (split <;> simp)))
    (by decide)

end NV.C16
