/-
C16 — tests of the specification oracle itself: for every clause of `judge` traces it MUST reject (negative
examples) next to the corresponding accepted trace.  `#guard` evaluates the compiled oracle at build time (the
oracle prints / parses with `partial` functions, so these are executable tests, not kernel proofs); a failing guard
fails the build of this module, which is one of the property's `lean_modules`.
-/
import NV.C16.Spec

namespace NV.C16.SpecTests
open NV.C16

def ok (cmds impl : List String) : Bool := judge cmds impl == []
def bad (cmds impl : List String) (kind : String) : Bool := (judge cmds impl).any (·.startsWith kind)

/-! round trip of a value -/
#guard ok ["rt i5"] ["save 35", "rest i5"]
#guard bad ["rt i5"] ["save 35", "rest i6"] "roundtrip-value-differs"
#guard bad ["rt i-5"] ["save 2d35", "rest i5"] "roundtrip-value-differs"                    -- sign lost
#guard bad ["rt f40f86a0000000000"] ["save 313030303030", "rest i100000"] "roundtrip-value-differs"   -- float came back as int
#guard bad ["rt s610d"] ["save 22610d22", "rest s610a"] "roundtrip-cr-became-lf"
#guard bad ["rt a[i1,i2]"] ["save 287b312c322c7d29", "rest a[i1]"] "roundtrip-value-differs" -- element lost
#guard bad ["rt a[i1,i2]"] ["save 287b312c322c7d29", "rest c(i1,i2)"] "roundtrip-value-differs" -- type changed
#guard bad ["rt m{i1:i2}"] ["save 285b313a322c5d29", "rest m{i1:i3}"] "roundtrip-value-differs"
#guard bad ["rt a[o]"] ["save 287b2c7d29", "rest a[o]"] "roundtrip-value-differs"             -- object reference persisted
#guard ok ["rt a[o]"] ["save 287b2c7d29", "rest a[i0]"]
#guard bad ["rt s61"] ["save 226122", "err restore_object(): Illegal string format.", "resterr"] "roundtrip-restore-error"
#guard bad ["rt s61"] ["saveerr"] "save-refused"
#guard bad ["rt s61"] ["err save_variable: the saved text is longer than maximum string length.", "saveerr"] "save-refused"   -- a text that certainly fits
#guard bad ["rt s61"] ["save 226122"] "trace missing-rest"
#guard bad ["rt f7ff0000000000000"] ["save 696e66", "rest i0"] "roundtrip-nonfinite-float-became-0"
#guard bad ["rt m{f3f1a36e2eb1c432d:i1,f3f1a36e2d51ec34b:i1}"] ["save 00", "rest m{f3f1a36e2eb1c432d:i1}"] "roundtrip-float-keys-print-alike"
#guard bad ["rx a[i1] 287b312c7d29"] ["err Illegal array size.", "resterr"] "roundtrip-restore-error"
#guard bad ["rx a[i1] 287b312c7d29"] ["rest a[i2]"] "roundtrip-value-differs"

/-! an entry of a restored mapping must be found through its key, not only listed -/
#guard ok ["rv 285b31363a312c5d29"] ["rest m{i16:i1}"]
#guard bad ["rv 285b31363a312c5d29"] ["lookup-miss i16 bucket=6 hash=1 size=16", "rest m{i16:i1}"] "mapping-entry-not-found-by-its-key i16"
#guard bad ["rx m{i16:i1} 285b31363a312c5d29"] ["lookup-miss i16 bucket=6 hash=1 size=16", "rest m{i16:i1}"] "mapping-entry-not-found-by-its-key"
#guard bad ["ro 0"] ["ro 1", "lookup-miss s61 bucket=6 hash=1 size=16", "vars a[i0,i0,m{s61:i1},i0,i0,i0,i0]"] "mapping-entry-not-found-by-its-key s61"

/-! a file-size limit in the middle of a block; a rename that fails for real -/
#guard ok ["wf 00", "cl 0"] ["cl n=47", "cl 0 ret=0 old tmp=0", "ck 0 killed old tmp=1", "cl 46 ret=0 old tmp=0", "ck 46 killed old tmp=1", "cl 47 ret=1 new tmp=0", "ck 47 ret=1 new tmp=0"]
#guard bad ["wf 00", "cl 0"] ["cl n=47", "cl 23 ret=0 other tmp=0"] "atomic-save-file-other at-size-limit"
#guard bad ["wf 00", "cl 0"] ["cl n=47", "ck 23 killed other tmp=1"] "atomic-save-file-other killed-at-size-limit"
#guard bad ["wf 00", "cl 0"] ["cl n=47", "cl 23 ret=1 old tmp=0"] "save-reported-success-beyond-size-limit"
#guard bad ["wf 00", "cl 0"] ["cl n=47", "cl 23 ret=0 old tmp=1"] "tmp-left-behind at-size-limit"
#guard bad ["wf 00", "cl 0"] ["cl n=47", "cl 47 ret=0 old tmp=0"] "save-failed-within-size-limit"
#guard bad ["cl 0"] ["cl n=47", "cl 23 ret=0 none tmp=0", "ck 23 childcrash"] "memory childcrash"
#guard ok ["cl 0"] ["cl n=47", "cl 23 ret=0 none tmp=0"]
#guard ok ["wf 00", "cl 0", "cl 1"] ["cl n=47", "cl 46 ret=0 old tmp=0", "cl 47 ret=1 new tmp=0", "cl n=20", "cl 19 ret=0 old tmp=0", "cl 20 ret=1 new tmp=0"]
#guard ok ["sond 61 0 612e6f"] ["so 0 made=1 tmp=612e6f2e746d70 left=0"]
#guard bad ["sond 61 0 612e6f"] ["so 0 made=1 tmp=612e6f2e746d70 left=1"] "tmp-left-behind after-rename-failure"
#guard bad ["sond 61 0 612e6f"] ["so 1 made=1 tmp=612e6f2e746d70 left=0"] "save-reported-success-although-rename-failed"

/-! restore into ANOTHER program (version): matching by name -/
def verCmds := ["prog u v:n:a v:n:b", "prog w v:n:b v:s:a v:n:c", "useg u", "setm a[i5,i6]", "so 0", "useg w", "setm a[i1,i2,i3]"]
#guard ok (verCmds ++ ["ro 1"]) ["so 1", "file 232f672f752e630a6120350a6220360a", "ro 1", "vars a[i6,i2,i3]"]
#guard ok (verCmds ++ ["ro 0"]) ["so 1", "file 232f672f752e630a6120350a6220360a", "ro 1", "vars a[i6,i2,i0]"]
#guard bad (verCmds ++ ["ro 1"]) ["so 1", "file 232f672f752e630a6120350a6220360a", "ro 1", "vars a[i1,i2,i3]"] "roundtrip-value-differs b"          -- b not taken from the file
#guard bad (verCmds ++ ["ro 1"]) ["so 1", "file 232f672f752e630a6120350a6220360a", "ro 1", "vars a[i6,i5,i3]"] "static-variable-changed-by-restore a" -- a is static now
#guard bad (verCmds ++ ["ro 1"]) ["so 1", "file 232f672f752e630a6120350a6220360a", "ro 1", "vars a[i6,i2,i0]"] "roundtrip-value-differs c"          -- cleared despite no-clear
#guard bad (verCmds ++ ["ro 0"]) ["so 1", "file 232f672f752e630a6120350a6220360a", "ro 1", "vars a[i6,i2,i3]"] "roundtrip-value-differs c"          -- not cleared

-- same names, other static flags: still another program
#guard ok ["prog u v:s:a v:n:b", "prog w v:n:a v:s:b", "useg u", "setm a[i5,i6]", "so 0", "useg w", "setm a[i1,i2]", "ro 1"] ["so 1", "file 232f672f752e630a6220360a", "ro 1", "vars a[i1,i2]"]
#guard bad ["prog u v:s:a v:n:b", "prog w v:n:a v:s:b", "useg u", "setm a[i5,i6]", "so 0", "useg w", "setm a[i1,i2]", "ro 1"] ["so 1", "file 232f672f752e630a6220360a", "ro 1", "vars a[i5,i2]"] "roundtrip-value-differs a"

/-! memory -/
#guard bad ["rv 22"] ["sanitizer ERROR: AddressSanitizer: heap-buffer-overflow"] "memory"
#guard bad ["rv 22"] ["crash signal 11"] "memory"
#guard bad ["rv 22"] ["rest i0", "crash exit 1"] "memory"
#guard ok ["rv 22"] ["err restore_object(): Illegal string format.", "resterr"]
#guard bad ["rv 22"] ["garbage"] "trace unexpected"

/-! object level: what the file may contain -/
def setL := "set i1 s61 i3 i7 i5"

/-! restore_object(file, 1): the variable whose line cannot be restored keeps its value -/
#guard ok [setL, "wf 00", "ro 1"] ["err restore_object(): Illegal array format while restoring va.", "roerr", "vars a[i1,i7,s61,i3,i7,o,i5]"]
#guard bad [setL, "wf 00", "ro 1"] ["err restore_object(): Illegal array format while restoring va.", "roerr", "vars a[i1,i7,i0,i3,i7,o,i5]"] "variable-changed-by-failed-restore va"
#guard ok [setL, "wf 00", "ro 0"] ["err restore_object(): Illegal array format while restoring va.", "roerr", "vars a[i0,i7,i0,i0,i7,i0,i0]"]

-- file: "#/c16/obj.c\nvi 1\nva \"a\"\nvb 3\nvo \nvc 5\n"
#guard ok [setL, "so 1"] ["so 1", "file 232f6331362f6f626a2e630a766920310a7661202261220a766220330a766f200a766320350a"]
-- a static variable (vs 7) in the file
#guard bad [setL, "so 1"] ["so 1", "file 232f6331362f6f626a2e630a766920310a7661202261220a766220330a767320370a766f200a766320350a"] "persisted-wrong-variables"
-- a variable missing although save_zeros
#guard bad [setL, "so 1"] ["so 1", "file 232f6331362f6f626a2e630a766920310a7661202261220a766f200a766320350a"] "persisted-wrong-variables"
-- variables out of order
#guard bad [setL, "so 1"] ["so 1", "file 232f6331362f6f626a2e630a7661202261220a766920310a766220330a766f200a766320350a"] "persisted-wrong-variables"
-- a variable twice
#guard bad [setL, "so 0"] ["so 1", "file 232f6331362f6f626a2e630a766920310a766920310a"] "persisted-wrong-variables"
-- the object reference written as something
#guard bad [setL, "so 1"] ["so 1", "file 232f6331362f6f626a2e630a766920310a7661202261220a766220330a766f20310a766320350a"] "persisted-object-reference"
-- ... but `vo 0` is right while the variable holds 0 (object never `set`, or cleared by restore_object(file, 0))
#guard ok ["so 1"] ["so 1", "file 232f6331362f6f626a2e630a766920300a766120300a766220300a766f20300a766320300a"]
#guard bad [setL, "so 1"] ["so 0", "file none"] "save-object-failed"
#guard bad [setL, "so 1"] ["so -1", "file unchanged", "tmp-left-behind"] "tmp-left-behind"
#guard bad [setL, "so 1"] ["so -1", "file changed"] "save-file-changed-by-failed-save"
#guard bad [setL, "so 1"] ["so -1", "file unchanged"] "save-object-failed"      -- refused although nothing is nested too deep

/-! object level: what restore_object must leave -/
def soL := ["so 1", "file 232f6331362f6f626a2e630a766920310a7661202261220a766220330a766f200a766320350a"]
#guard ok [setL, "so 1", "set i0 i0 i0 i9 i0", "ro 0"] (soL ++ ["ro 1", "vars a[i1,i9,s61,i3,i9,i0,i5]"])
#guard bad [setL, "so 1", "set i0 i0 i0 i9 i0", "ro 0"] (soL ++ ["ro 1", "vars a[i1,i7,s61,i3,i9,i0,i5]"]) "static-variable-changed-by-restore"
#guard bad [setL, "so 1", "set i0 i0 i0 i9 i0", "ro 0"] (soL ++ ["ro 1", "vars a[i1,i9,s61,i4,i9,i0,i5]"]) "roundtrip-value-differs"
#guard bad [setL, "so 1", "set i0 i0 i0 i9 i0", "ro 0"] (soL ++ ["ro 1", "vars a[i1,i9,s61,i3,i9,o,i5]"]) "roundtrip-value-differs"
#guard bad [setL, "so 1", "set i0 i0 i0 i9 i0", "ro 0"] (soL ++ ["err x", "roerr", "vars a[i0,i9,i0,i0,i9,i0,i0]"]) "roundtrip-restore-object-failed"
#guard bad [setL, "so 1", "set i0 i0 i0 i9 i0", "ro 0"] (soL ++ ["ro 1", "vars a[i1,i9]"]) "trace vars-shape"
-- noclear: a variable not written (value 0, no save_zeros) keeps the live value; with clearing it must be 0
#guard ok ["set i0 s61 i3 i7 i5", "so 0", "set i8 i0 i0 i9 i0", "ro 1"] ["so 1", "file 232f6331362f6f626a2e630a7661202261220a766220330a766f200a766320350a", "ro 1", "vars a[i8,i9,s61,i3,i9,i0,i5]"]
#guard bad ["set i0 s61 i3 i7 i5", "so 0", "set i8 i0 i0 i9 i0", "ro 0"] ["so 1", "file 232f6331362f6f626a2e630a7661202261220a766220330a766f200a766320350a", "ro 1", "vars a[i8,i9,s61,i3,i9,i0,i5]"] "roundtrip-value-differs"
-- expectations carried by the case
#guard bad ["use many", "rox 0 a[" ++ ",".intercalate (List.replicate 24 "i1") ++ "]"] ["ro 1", "vars a[" ++ ",".intercalate (List.replicate 24 "i2") ++ "]"] "roundtrip-value-differs"

/-! program trees: the expected layout comes from the declared graph -/
def treeL := ["prog p0 v:n:a v:s:b", "prog p1 i:n:p0 v:n:c", "prog p2 i:s:p1 v:n:d v:p:e", "useg p2", "setm a[i1,i2,i3,i4,i5]", "so 1"]
-- "#/x\nd 4\ne 5\n"
#guard ok treeL ["tree P(x)", "so 1", "file 232f780a6420340a6520350a"]
-- a variable of the statically inherited subtree leaks into the file: "#/x\na 1\nd 4\ne 5\n"
#guard bad treeL ["tree P(x)", "so 1", "file 232f780a6120310a6420340a6520350a"] "persisted-wrong-variables"
#guard bad (treeL ++ ["setm a[i0,i0,i0,i0,i0]", "ro 0"]) ["tree P(x)", "so 1", "file 232f780a6420340a6520350a", "ro 1", "vars a[i0,i0,i0,i1,i2]"] "roundtrip-value-differs"
#guard bad (treeL ++ ["setm a[i0,i0,i0,i0,i0]", "ro 0"]) ["tree P(x)", "so 1", "file 232f780a6420340a6520350a", "ro 1", "vars a[i1,i0,i0,i4,i5]"] "static-variable-changed-by-restore"

/-! atomicity -/
#guard ok ["cp 0"] ["cp n=5", "cp 0 none tmp=0", "cp 4 none tmp=1", "cp 5 new tmp=0"]
#guard bad ["cp 0"] ["cp n=5", "cp 3 other tmp=1"] "atomic-save-file-other"
#guard bad ["wf 00", "cp 0"] ["cp n=5", "cp 3 none tmp=1"] "atomic-save-file-none"       -- the old file vanished
#guard bad ["cp 0"] ["cp n=5", "cp 3 childcrash"] "memory"
#guard bad ["cf 0"] ["cf n=5", "cf 2 ret=0 new tmp=0"] "atomic-save-file-new"            -- failure reported, file replaced
#guard bad ["wf 00", "cf 0"] ["cf n=5", "cf 4 ret=1 old tmp=0"] "atomic-save-file-old"     -- success reported, file not replaced
#guard bad ["wf 00", "cf 0"] ["cf n=5", "cf 1 ret=0 old tmp=1"] "tmp-left-behind"         -- failed save left its temporary
#guard ok ["wf 00", "cf 0"] ["cf n=5", "cf 1 ret=0 old tmp=0", "cf 5 ret=1 new tmp=0"]

/-! file names and the temporary -/
#guard ok ["son 61 0 612e6f"] ["so 1 made=1 tmp=612e6f2e746d70 left=0"]
#guard bad ["son 61 0 612e6f"] ["so 1 made=0 tmp=612e6f2e746d70 left=0"] "save-object-name"
#guard bad ["son 61 0 612e6f"] ["so 1 made=1 tmp=612e6f2e746d70 left=1"] "save-object-name"
#guard bad ["son 61 0 612e6f"] ["so 1 made=1 tmp=612e6f left=0"] "atomic-temporary-is-the-save-file"

end NV.C16.SpecTests
