/-
C16 — specification oracle.  It sees a case (the command lines) and the canonical trace of an implementation
(real driver or model) and decides whether property C16 held:

  * `rt v`   : the value restored from what save_variable wrote equals `v` (same types; floats equal in their
               "%g" text; object references come back as 0)
  * `rv text`: restoring arbitrary text ends in a value or an LPC error
  * `so`/`ro`: static variables and object references are not in the file; after restore_object the
               non-static variables hold the saved values, the static ones their live values
  * `cp`/`cf`: at every crash point / injected failure the save file holds the complete old or the complete
               new contents (new only when the save reported success)
  * nowhere a sanitizer report or a crashed process

It knows values, not save texts: nothing of escapes, size tables or cursors.

`FloatIO` is the concrete float instance of the driver (Lean `Float` = IEEE double, exact "%g").
-/
import NV.Common.Proto
import NV.C16.Model

namespace NV.C16

open NV.Proto

/-! ## IEEE doubles: exact `%g` -/

def pow10N (n : Nat) : Nat := 10 ^ n

/-- digits of n, at least `w` wide -/
def natDigits (n : Nat) (w : Nat := 1) : String :=
  let s := toString n
  String.ofList (List.replicate (w - s.length) '0') ++ s

def stripZeros (s : List Char) : List Char := (s.reverse.dropWhile (· == '0')).reverse

/-- glibc `printf("%g", x)` (precision 6), computed exactly from the bits -/
def fmtG (x : Float) : String :=
  let bits := x.toBits.toNat
  let sign := bits / 2 ^ 63
  let ex : Nat := (bits / 2 ^ 52) % 2048
  let frac : Nat := bits % 2 ^ 52
  let sg := if sign = 1 then "-" else ""
  if ex = 2047 then (if frac = 0 then sg ++ "inf" else sg ++ "nan")
  else if ex = 0 ∧ frac = 0 then sg ++ "0"
  else
    let m := if ex = 0 then frac else frac + 2 ^ 52
    let e : Int := if ex = 0 then -1074 else Int.ofNat ex - 1075
    let num := if e ≥ 0 then m * 2 ^ e.toNat else m
    let den := if e ≥ 0 then 1 else 2 ^ (-e).toNat
    -- X = floor(log10 v): largest X with 10^X <= num/den
    let ge10 (X : Int) : Bool := if X ≥ 0 then num ≥ den * pow10N X.toNat else num * pow10N (-X).toNat ≥ den
    -- start from the binary exponent: log10 v ≈ (e + bits m - 1) · 0.30103, then settle exactly
    let X0 : Int := Id.run do
      let mut X : Int := ((e + (Int.ofNat (Nat.log2 m))) * 30103) / 100000
      for _ in [0:700] do
        if ge10 (X + 1) then X := X + 1
        else if !ge10 X then X := X - 1
        else break
      return X
    let round (X : Int) : Nat :=
      let s : Int := 5 - X
      let a := if s ≥ 0 then num * pow10N s.toNat else num
      let b := if s ≥ 0 then den else den * pow10N (-s).toNat
      let q := a / b
      let r := a % b
      if 2 * r > b ∨ (2 * r = b ∧ q % 2 = 1) then q + 1 else q
    let N0 := round X0
    let X := if N0 ≥ 1000000 then X0 + 1 else X0
    let N := if N0 ≥ 1000000 then N0 / 10 else N0
    let ds := (natDigits N 6).toList
    if X < -4 ∨ X ≥ 6 then
      let fr := stripZeros (ds.drop 1)
      let mant := String.ofList (ds.take 1) ++ (if fr.isEmpty then "" else "." ++ String.ofList fr)
      sg ++ mant ++ "e" ++ (if X < 0 then "-" else "+") ++ natDigits X.natAbs 2
    else if X ≥ 0 then
      let ip := ds.take (X.toNat + 1)
      let fr := stripZeros (ds.drop (X.toNat + 1))
      sg ++ String.ofList ip ++ (if fr.isEmpty then "" else "." ++ String.ofList fr)
    else
      let fr := stripZeros (List.replicate ((-X).toNat - 1) '0' ++ ds)
      sg ++ "0." ++ String.ofList fr

def strBytes (s : String) : List Byte := s.toUTF8.toList.map (·.toNat)

/-- the float instance used by `nvdrive`: the very operations parse_numeric performs on doubles -/
def FloatIO : FloatOps Float where
  print x := strBytes (fmtG x)
  ofNat n := (UInt64.ofNat n).toFloat
  add := (· + ·)
  mul := (· * ·)
  div := (· / ·)
  neg x := -x
  pow10 e := Float.pow 10.0 (Float.ofInt e)
  eq a b := a == b
  isNan x := x.isNaN
  isInf x := x.isInf
  ltZero x := x < 0

def isFinite (x : Float) : Bool := (x.toBits.toNat / 2 ^ 52) % 2048 != 2047

/-- mblen of glibc's UTF-8 locale on a non-empty rest (strict UTF-8; lead bytes f5.. and stray continuation
    bytes are invalid) -/
def utf8LenF (s : List Byte) : Option Nat :=
  let cont (b : Byte) : Bool := 128 ≤ b && b ≤ 191
  match s with
  | [] => some 0
  | c :: r =>
    if c < 128 then some 1
    else if 194 ≤ c ∧ c ≤ 223 then
      match r with
      | a :: _ => if cont a then some 2 else none
      | _ => none
    else if 224 ≤ c ∧ c ≤ 239 then
      match r with
      | a :: b :: _ =>
        if cont a && cont b && (c != 224 || a ≥ 160) && (c != 237 || a ≤ 159) then some 3 else none
      | _ => none
    else if 240 ≤ c ∧ c ≤ 244 then
      match r with
      | a :: b :: d :: _ =>
        if cont a && cont b && cont d && (c != 240 || a ≥ 144) && (c != 244 || a ≤ 143) then some 4 else none
      | _ => none
    else none

theorem utf8LenF_le (s : List Byte) (n : Nat) (h : utf8LenF s = some n) : n ≤ s.length := by
  unfold utf8LenF at h
  repeat' split at h
  all_goals first | (simp at h; done) | (simp at h; subst h; simp) | skip
  all_goals (simp at h; try (obtain ⟨_, h⟩ := h); try subst h; simp)

theorem utf8LenF_pos (s : List Byte) (n : Nat) (h : utf8LenF s = some n) (hs : s ≠ []) : 1 ≤ n := by
  unfold utf8LenF at h
  repeat' split at h
  all_goals first | (simp at h; done) | (simp at h; subst h; simp) | skip
  all_goals first | (exact absurd rfl hs) | (simp at h; try (obtain ⟨_, h⟩ := h); try subst h; simp)

theorem utf8LenF_ascii (c : Byte) (r : List Byte) (h : c < 128) : utf8LenF (c :: r) = some 1 := by
  simp [utf8LenF, h]

theorem utf8LenF_cont (s : List Byte) (n : Nat) (h : utf8LenF s = some n) : ∀ b ∈ (s.take n).drop 1, 128 ≤ b := by
  unfold utf8LenF at h
  repeat' split at h
  all_goals first | (simp at h; done) | (simp at h; subst h; simp) | skip
  all_goals (simp at h; obtain ⟨hc, h⟩ := h; subst h; simp; omega)

def utf8Len : MbLen := ⟨utf8LenF, utf8LenF_pos, utf8LenF_le, utf8LenF_ascii, utf8LenF_cont⟩

abbrev V := Value Float

/-! ## case syntax of values (shared with harness/c16/c16.c) -/

def hexDigit (c : Char) : Option Nat :=
  if c.isDigit then some (c.toNat - 48)
  else if 'a' ≤ c ∧ c ≤ 'f' then some (c.toNat - 87)
  else if 'A' ≤ c ∧ c ≤ 'F' then some (c.toNat - 55)
  else none

def hexBytes : List Char → List Byte
  | a :: b :: r =>
    match hexDigit a, hexDigit b with
    | some x, some y => (x * 16 + y) :: hexBytes r
    | _, _ => []
  | _ => []

def hexOf (bs : List Byte) : String :=
  let hd (n : Nat) : Char := if n < 10 then Char.ofNat (48 + n) else Char.ofNat (87 + n)
  String.ofList (bs.flatMap (fun b => [hd (b / 16 % 16), hd (b % 16)]))

mutual
partial def parseVal : List Char → Option (V × List Char)
  | 'i' :: r =>
    let (neg, r1) := match r with | '-' :: t => (true, t) | t => (false, t)
    let ds := r1.takeWhile Char.isDigit
    if ds.isEmpty then none
    else
      let n : Nat := ds.foldl (fun (a : Nat) c => a * 10 + (c.toNat - 48)) 0
      some (.int (if neg then -(Int.ofNat n) else Int.ofNat n), r1.drop ds.length)
  | 'f' :: r =>
    let hs := r.take 16
    if hs.length = 16 ∧ hs.all (fun c => (hexDigit c).isSome) then
      let n := hs.foldl (fun a c => a * 16 + (hexDigit c).getD 0) 0
      some (.real (Float.ofBits (UInt64.ofNat n)), r.drop 16)
    else none
  | 's' :: r =>
    let hs := r.takeWhile (fun c => (hexDigit c).isSome)
    let k := hs.length / 2 * 2
    some (.str (hexBytes (hs.take k)), r.drop k)
  | 'o' :: r => some (.obj, r)
  | 'a' :: '[' :: r => (parseSeq ']' r []).map (fun p => (.arr (Vals.ofList p.1), p.2))
  | 'c' :: '(' :: r => (parseSeq ')' r []).map (fun p => (.cls (Vals.ofList p.1), p.2))
  | 'm' :: '{' :: r => (parsePairs r []).map (fun p => (.map (Pairs.ofList p.1), p.2))
  | _ => none
partial def parseSeq (close : Char) : List Char → List V → Option (List V × List Char)
  | c :: r, acc =>
    if c = close then some (acc.reverse, r)
    else
      match parseVal (c :: r) with
      | some (v, ',' :: r') => parseSeq close r' (v :: acc)
      | some (v, c' :: r') => if c' = close then some ((v :: acc).reverse, r') else none
      | _ => none
  | [], _ => none
partial def parsePairs : List Char → List (V × V) → Option (List (V × V) × List Char)
  | '}' :: r, acc => some (acc.reverse, r)
  | s, acc =>
    match parseVal s with
    | some (k, ':' :: r1) =>
      match parseVal r1 with
      | some (v, ',' :: r2) => parsePairs r2 ((k, v) :: acc)
      | some (v, '}' :: r2) => some (((k, v) :: acc).reverse, r2)
      | _ => none
    | _ => none
end

def parseValue (s : String) : Option V :=
  match parseVal s.toList with
  | some (v, []) => some v
  | _ => none

/-- bytewise lexicographic order (memcmp, shorter prefix first) -/
def bytesLt : List Byte → List Byte → Bool
  | [], [] => false
  | [], _ => true
  | _, [] => false
  | a :: r, b :: s => if a < b then true else if a > b then false else bytesLt r s

def sortBy {β} (key : β → List Byte) (l : List β) : List β :=
  (l.toArray.qsort (fun a b => bytesLt (key a) (key b))).toList

/-- canonical text of a value, the syntax of the case lines: mapping entries sorted bytewise.
    `approx`: floats by their "%g" text instead of their bits. -/
partial def pv (approx : Bool) : V → String
  | .int n => s!"i{n}"
  | .real x => if approx then "g" ++ String.ofList ((saveReal FloatIO x).map Char.ofNat) else "f" ++ natDigitsHex (if x.isNaN then 0x7ff8000000000000 else x.toBits.toNat)
  | .str s => "s" ++ hexOf s
  | .obj => "o"
  | .arr xs => "a[" ++ ",".intercalate (xs.toList.map (pv approx)) ++ "]"
  | .cls xs => "c(" ++ ",".intercalate (xs.toList.map (pv approx)) ++ ")"
  | .map ps =>
    let items := ps.toList.map (fun kv => pv approx kv.1 ++ ":" ++ pv approx kv.2)
    "m{" ++ ",".intercalate (sortBy strBytes items) ++ "}"
where
  natDigitsHex (n : Nat) : String :=
    let hd (k : Nat) : Char := if k < 10 then Char.ofNat (48 + k) else Char.ofNat (87 + k)
    String.ofList ((List.range 16).reverse.map (fun i => hd (n / 16 ^ i % 16)))

/-! ## what the property expects -/

/-- the value a restore must yield for a saved `v`: object references are not persisted -/
partial def expectOf : V → V
  | .obj => .int 0
  | .arr xs => .arr (Vals.ofList (xs.toList.map expectOf))
  | .cls xs => .cls (Vals.ofList (xs.toList.map expectOf))
  | .map ps => .map (Pairs.ofList (ps.toList.map (fun kv => (expectOf kv.1, expectOf kv.2))))
  | v => v

/-- CR replaced by LF in every string (the shape of known finding K1) -/
partial def crToLf : V → V
  | .str s => .str (s.map (fun c => if c = 13 then 10 else c))
  | .arr xs => .arr (Vals.ofList (xs.toList.map crToLf))
  | .cls xs => .cls (Vals.ofList (xs.toList.map crToLf))
  | .map ps => .map (Pairs.ofList (ps.toList.map (fun kv => (crToLf kv.1, crToLf kv.2))))
  | v => v

partial def anyVal (p : V → Bool) : V → Bool
  | .arr xs => p (.arr xs) || xs.toList.any (anyVal p)
  | .cls xs => p (.cls xs) || xs.toList.any (anyVal p)
  | .map ps => p (.map ps) || ps.toList.any (fun kv => anyVal p kv.1 || anyVal p kv.2)
  | v => p v

def isContainer : V → Bool
  | .arr _ | .cls _ | .map _ => true
  | _ => false

partial def depthOf : V → Nat
  | .arr xs => 1 + (xs.toList.map depthOf).foldl max 0
  | .cls xs => 1 + (xs.toList.map depthOf).foldl max 0
  | .map ps => 1 + (ps.toList.map (fun kv => max (depthOf kv.1) (depthOf kv.2))).foldl max 0
  | _ => 0

/-- subnormal double (exponent field 0, not zero) -/
def isSubnormal (x : Float) : Bool :=
  let b := x.toBits.toNat
  (b / 2 ^ 52) % 2048 == 0 && b % 2 ^ 52 != 0

def hasSubnormal (v : V) : Bool := anyVal (fun | .real x => isSubnormal x | _ => false) v

/-- a mapping with two float keys that print alike -/
def hasCollidingFloatKeys (v : V) : Bool :=
  anyVal (fun
    | .map ps =>
      let ks := ps.toList.filterMap (fun kv => match kv.1 with | .real x => some (fmtG x) | _ => none)
      ks.eraseDups.length != ks.length
    | _ => false) v

def hasNonFinite (v : V) : Bool := anyVal (fun | .real x => !isFinite x | _ => false) v

/-- a string whose bytes are not a sequence of valid multibyte characters of the UTF-8 locale -/
partial def badMb (s : List Byte) : Bool :=
  match s with
  | [] => false
  | _ => match utf8LenF s with
    | none => true
    | some 0 => true
    | some n => badMb (s.drop n)

def hasBadMbString (v : V) : Bool := anyVal (fun | .str s => badMb s | _ => false) v

/-- an upper bound of the length of the saved text of a value that needs no knowledge of the format beyond: a byte of a
    string takes at most two, a number at most 32 characters, a container 5 and one delimiter per element -/
partial def textUpper : V → Nat
  | .str s => 2 * s.length + 3
  | .arr xs => 5 + (xs.toList.map (fun v => textUpper v + 1)).foldl (· + ·) 0
  | .cls xs => 5 + (xs.toList.map (fun v => textUpper v + 1)).foldl (· + ·) 0
  | .map ps => 5 + (ps.toList.map (fun kv => textUpper kv.1 + textUpper kv.2 + 2)).foldl (· + ·) 0
  | _ => 32

/-- verdict on one restored value -/
def cmpRestored (what : String) (orig got : V) : List String :=
  let e := expectOf orig
  if pv true e == pv true got then []
  else if pv true (crToLf e) == pv true got then [s!"roundtrip-cr-became-lf {what}"]
  else if (match orig, got with | .real x, .int 0 => !isFinite x | _, _ => false) then
    [s!"roundtrip-nonfinite-float-became-0 {what}"]
  -- a class whose restore fails comes back as 0 without an error (restore_variable has no ROB_CLASS_ERROR branch)
  else if (match orig, got with | .cls _, .int 0 => hasNonFinite orig | _, _ => false) then
    [s!"roundtrip-nonfinite-float-restore-error {what}"]
  else if (match orig, got with | .cls _, .int 0 => hasBadMbString orig | _, _ => false) then
    [s!"roundtrip-invalid-multibyte-restore-error {what}"]
  else if hasSubnormal orig then [s!"roundtrip-subnormal-float-differs {what}"]
  else if hasCollidingFloatKeys orig then [s!"roundtrip-float-keys-print-alike {what}"]
  else [s!"roundtrip-value-differs {what} expected {pv true e} got {pv true got}"]

def cmpRestoreError (what : String) (orig : V) : List String :=
  if hasNonFinite orig then [s!"roundtrip-nonfinite-float-restore-error {what}"]
  else if isContainer orig ∧ hasBadMbString orig then [s!"roundtrip-invalid-multibyte-restore-error {what}"]
  else [s!"roundtrip-restore-error {what}"]

/-! ## the judge -/

structure JVar where
  name : String
  isStatic : Bool
  val : V

def layout0 : List JVar :=
  [⟨"vi", false, .int 0⟩, ⟨"vis", true, .int 0⟩, ⟨"va", false, .int 0⟩, ⟨"vb", false, .int 0⟩,
   ⟨"vs", true, .int 0⟩, ⟨"vo", false, .int 0⟩, ⟨"vc", false, .int 0⟩]

structure JState where
  live : List JVar := layout0
  /-- values of the variables at the last successful `so`, with its save_zeros flag; `none` when the file is not
      the product of a save (`wf`, `rm`, nothing yet) -/
  snap : Option (List JVar × Bool) := none
  hasFile : Bool := false
  /-- declared program graph of the case (`prog` lines): name ↦ (inherits (modifier, program), variables (modifier, name)) -/
  progs : List (String × List (String × String) × List (String × String)) := []
  bad : List String := []

def JState.flag (s : JState) (vs : List String) : JState := { s with bad := vs.reverse ++ s.bad }

def isZeroVal : V → Bool
  | .int 0 => true
  | _ => false

/-- split the implementation trace into the lines of one command: leading `err ...` lines are skipped -/
def nextLine : List String → Option (String × List String)
  | [] => none
  | l :: r => if l.startsWith "err " ∨ l.startsWith "caught " then nextLine r else some (l, r)

def memLines (impl : List String) : List String :=
  (impl.filter (fun l => l.startsWith "sanitizer" ∨ l.startsWith "crash" ∨ l.startsWith "badcmd" ∨
    l.startsWith "noobj")).map (fun l => s!"memory {l}")

def judgeRestored (s : JState) (what : String) (orig : V) (impl : List String) : JState × List String :=
  match nextLine impl with
  | some (l, r) =>
    match toks l with
    | ["rest", t] =>
      match parseValue t with
      | some got => (s.flag (cmpRestored what orig got), r)
      | none => (s.flag [s!"trace unparsable {l}"], r)
    | ["resterr"] => (s.flag (cmpRestoreError what orig), r)
    | _ => (s.flag [s!"trace unexpected {l}"], r)
  | none => (s.flag [s!"trace missing-rest {what}"], [])

def isSubseq : List String → List String → Bool
  | [], _ => true
  | _ :: _, [] => false
  | a :: r, b :: t => if a == b then isSubseq r t else isSubseq (a :: r) t

/-- the variable names in a save file, in order -/
def fileNames (hex : String) : List String :=
  let bytes := hexBytes hex.toList
  let lines := (splitLines bytes).map (fun l => String.ofList (l.map Char.ofNat))
  (lines.filter (fun l => l != "" ∧ !l.startsWith "#")).map (fun l => (l.splitOn " ").headD "")

/-- what the file may contain: exactly (save_zeros) / a subsequence of (otherwise) the names of the non-static
    variables in layout order — nothing static, nothing twice, nothing out of order; an object reference has no text -/
def fileChecks (live : List JVar) (zeros : Bool) (hex : String) : List String :=
  let want := (live.filter (fun v => !v.isStatic)).map (·.name)
  let got := fileNames hex
  let bytes := hexBytes hex.toList
  let lines := (splitLines bytes).map (fun l => String.ofList (l.map Char.ofNat))
  (if (zeros ∧ got == want) ∨ (!zeros ∧ isSubseq got want) then []
   else [s!"persisted-wrong-variables file has {got} expected {want}"]) ++
  -- (only while `vo` HOLDS an object reference: after a restore_object(file, 0) it is 0 and "vo 0" is right)
  (if live.any (fun v => v.name == "vo" && (match v.val with | .obj => true | _ => false)) ∧
      lines.any (fun l => l.startsWith "vo " ∧ l != "vo ") then
    ["persisted-object-reference vo"] else [])

/-- layout of a declared program: inherits in order (each with its subtree), then the own variables; static when
    declared static or reached through a static inherit -/
partial def declLayout (progs : List (String × List (String × String) × List (String × String))) (name : String)
    (st : Bool) : List JVar :=
  match progs.find? (fun p => p.1 == name) with
  | none => []
  | some (_, inhs, vars) =>
    let isSt (m : String) : Bool := m == "s" || m == "sp"
    (inhs.flatMap (fun i => declLayout progs i.2 (st || isSt i.1))) ++
      vars.map (fun v => (⟨v.2, st || isSt v.1, .int 0⟩ : JVar))

def hasDupNames (live : List JVar) : Bool :=
  let ns := live.map (·.name)
  ns.eraseDups.length != ns.length

def hasDupNamesL (ns : List String) : Bool := ns.eraseDups.length != ns.length

def expectedAfterRestore (s : JState) (noclear : Bool) : Option (List JVar) :=
  match s.snap with
  | none => none
  | some (snap, zeros) =>
    if snap.map (fun v => (v.name, v.isStatic)) != s.live.map (fun v => (v.name, v.isStatic)) then
      -- the file was written by ANOTHER program (version): matching is by name — a non-static variable takes the value
      -- of the non-static variable of that name that got a line (text "0" only with save_zeros); everything else keeps
      -- its live value (no-clear) or is 0 (cleared) / untouched (static)
      if hasDupNamesL (snap.map (·.name)) ∨ hasDupNamesL (s.live.map (·.name)) then none else
      some (s.live.map (fun lv =>
        if lv.isStatic then lv
        else match snap.find? (fun sv => sv.name == lv.name ∧ !sv.isStatic ∧ (zeros || !(isZeroVal (expectOf sv.val)))) with
          | some sv => { lv with val := sv.val }
          | none => if noclear then lv else { lv with val := .int 0 }))
    else
    some ((s.live.zip snap).map (fun (p : JVar × JVar) =>
      let lv := p.1
      let sv := p.2
      if lv.isStatic then lv
      else if zeros || !(isZeroVal (expectOf sv.val)) then { lv with val := sv.val }
      else if noclear then lv else { lv with val := .int 0 }))

def judgeCmd (s : JState) (cmd : String) (impl : List String) : JState × List String :=
  match toks cmd with
  | ["rt", vtxt] =>
    match parseValue vtxt with
    | none => (s, impl)
    | some v =>
      match nextLine impl with
      | some (l, r) =>
        if l.startsWith "save " ∨ l == "save" then judgeRestored s vtxt v r
        else if l == "saveerr" then
          -- a refusal is right for a value nested too deep, or — with the message of the length test — when the text can
          -- be longer than MaxStringLength at all (`textUpper`: no value whose text certainly fits may be refused)
          let tooLong := (impl.takeWhile (· != "saveerr")).any (fun e => e.startsWith "err save_variable: the saved text is longer") ∧
            textUpper v > maxStringLength
          (if depthOf v > maxDepth ∨ tooLong then s else s.flag [s!"save-refused {vtxt}"], r)
        else (s.flag [s!"trace unexpected {l}"], r)
      | none => (s.flag [s!"trace missing-save {vtxt}"], [])
  | "rtl" :: fn :: args =>
    let orig : Option V := match fn, args.map parseValue with
      | "mk", [some a, some b] => some (.cls (Vals.ofList [a, b]))
      | "big", [] => some (.real (Float.ofBits 0x7ff0000000000000))
      | _, _ => none
    match orig, nextLine impl with
    | some v, some (l, r) =>
      if l.startsWith "save " ∨ l == "save" then judgeRestored s cmd v r else (s.flag [s!"trace unexpected {l}"], r)
    | _, _ => (s, impl)
  | ["rx", vtxt, _] =>
    -- `rx <value> <hex>`: the text is a valid save text of <value> (made by the generator): it must restore to it
    match parseValue vtxt with
    | some v => judgeRestored s cmd v impl
    | none => (s, impl)
  | "rv" :: _ =>
    match nextLine impl with
    | some (l, r) =>
      if l.startsWith "rest " ∨ l == "resterr" then (s, r) else (s.flag [s!"trace unexpected {l}"], r)
    | none => (s.flag [s!"trace missing-rest {cmd}"], [])
  | ["set", i, a, b, st, c] =>
    match parseValue i, parseValue a, parseValue b, parseValue st, parseValue c with
    | some i, some a, some b, some st, some c =>
      ({ s with live := [⟨"vi", false, i⟩, ⟨"vis", true, st⟩, ⟨"va", false, a⟩, ⟨"vb", false, b⟩,
                          ⟨"vs", true, st⟩, ⟨"vo", false, .obj⟩, ⟨"vc", false, c⟩] }, impl)
    | _, _, _, _, _ => (s, impl)
  | "prog" :: name :: items =>
    let parts := items.map (fun x => x.splitOn ":")
    let inhs := parts.filterMap (fun t => match t with | ["i", m, n] => some (m, n) | _ => none)
    let vars := parts.filterMap (fun t => match t with | ["v", m, n] => some (m, n) | _ => none)
    ({ s with progs := (name, inhs, vars) :: s.progs }, impl)
  | ["useg", name] =>
    -- (the snapshot of the last save stays: a later restore into this other program is judged by name)
    ({ s with live := declLayout s.progs name false }, impl)
  | ["use", o] =>
    let lay := if o == "many" then (List.range 24).map (fun i => (⟨s!"w{i}", i % 4 == 3, .int 0⟩ : JVar)) else layout0
    ({ s with live := lay, snap := none }, impl)
  | ["setm", vt] =>
    match parseValue vt with
    | some (.arr xs) =>
      if xs.length == s.live.length then
        ({ s with live := (s.live.zip xs.toList).map (fun (p : JVar × V) => { p.1 with val := p.2 }) }, impl)
      else (s, impl)
    | _ => (s, impl)
  | "son" :: _ =>
    -- save_object under another name: the file the naming rule promises must have been made
    match nextLine impl with
    | some (l, r) =>
      -- `so 1 made=1 tmp=<hex> left=0`: the promised file was made, through a temporary of ANOTHER name that is gone
      match toks l, toks cmd with
      | ["so", "1", "made=1", tmp, "left=0"], [_, _, _, path] =>
        (if tmp == "tmp=" ++ path then s.flag [s!"atomic-temporary-is-the-save-file {cmd}"] else s, r)
      | _, _ => (s.flag [s!"save-object-name {cmd} : {l}"], r)
    | none => (s.flag ["trace missing-so"], [])
  | ["so", z] =>
    match nextLine impl with
    | some (l, r) =>
      let s1 := if l == "so 1" then { s with snap := some (s.live, z != "0"), hasFile := true }
                else if s.live.any (fun v => !v.isStatic && depthOf v.val > maxDepth) then s   -- refused: too deep
                else s.flag [s!"save-object-failed {l}"]
      match nextLine r with
      | some (fl, r2) =>
        let s2 := match toks fl with
          | ["file", "changed"] => s1.flag [s!"save-file-changed-by-failed-save after {l}"]
          | ["file", "unchanged"] => s1
          | ["file", hex] => if l == "so 1" then s1.flag (fileChecks s.live (z != "0") hex) else s1
          | _ => s1
        match r2 with
        | "tmp-left-behind" :: r3 => (s2.flag [s!"tmp-left-behind after {l}"], r3)
        | _ => (s2, r2)
      | none => (s1, [])
    | none => (s.flag ["trace missing-so"], [])
  | "sond" :: _ =>
    -- the save path is a directory: rename() fails for real: the save must report failure and leave no temporary
    match nextLine impl with
    | some (l, r) =>
      match toks l with
      | ["so", "0", _, _, "left=0"] => (s, r)
      | ["so", "0", _, _, _] => (s.flag [s!"tmp-left-behind after-rename-failure {l}"], r)
      | _ => (s.flag [s!"save-reported-success-although-rename-failed {l}"], r)
    | none => (s.flag ["trace missing-so"], [])
  | ["cl", _] =>
    -- a file-size limit of L bytes hits the save in the middle of a block stdio flushes: `cl` the write fails,
    -- `ck` the process is killed there.  A save that cannot write everything reports failure and leaves the old file and
    -- no temporary; a killed one leaves the old file; with room for everything the save succeeds.
    -- the lines of THIS command: its header `cl n=..` and what follows up to the next header
    let body := (impl.drop 1).takeWhile (fun l => (l.startsWith "cl " ∨ l.startsWith "ck ") ∧ !l.startsWith "cl n=")
    let mine := impl.take 1 ++ body
    let rest := impl.drop mine.length
    let n : Nat := (mine.findSome? (fun l => match toks l with
      | ["cl", x] => if x.startsWith "n=" then (x.drop 2).toString.toNat? else none
      | _ => none)).getD 0
    let oldOk (st : String) : Bool := st == "old" ∨ st == "both" ∨ (st == "none" ∧ !s.hasFile)
    let vs := mine.foldl (fun acc l =>
      match toks l with
      | [_, x] => if x.startsWith "n=" then acc else acc ++ [s!"trace unexpected {l}"]
      | [c, L, "killed", st, _] =>
        if c != "ck" then acc ++ [s!"trace unexpected {l}"]
        else if oldOk st then acc else acc ++ [s!"atomic-save-file-{st} killed-at-size-limit {L}"]
      | [_, L, ret, st, tmpf] =>
        if tmpf != "tmp=0" then acc ++ [s!"tmp-left-behind at-size-limit {L} {ret}"]
        else if ret == "ret=1" then
          (if L.toNat?.getD 0 < n then acc ++ [s!"save-reported-success-beyond-size-limit {L} of {n}"]
           else if st == "new" ∨ st == "both" then acc else acc ++ [s!"atomic-save-file-{st} at-size-limit {L} {ret}"])
        else if oldOk st then
          (if L.toNat?.getD 0 ≥ n then acc ++ [s!"save-failed-within-size-limit {L} of {n}"] else acc)
        else acc ++ [s!"atomic-save-file-{st} at-size-limit {L} {ret}"]
      | [_, L, "childcrash"] => acc ++ [s!"memory childcrash at-size-limit {L}"]
      | _ => acc ++ [s!"trace unexpected {l}"]) []
    (s.flag vs, rest)
  | "wf" :: _ => ({ s with snap := none, hasFile := true }, impl)
  | ["rm"] => ({ s with snap := none, hasFile := false }, impl)
  | ["rox", _, ext] =>
    -- restore of a file the generator made from known values: `ext` = the variables afterwards
    match nextLine impl with
    | some (l, r) =>
      match nextLine r with
      | some (vl, r2) =>
        match toks vl, parseValue ext with
        | ["vars", vt], some (.arr ex) =>
          match parseValue vt with
          | some (.arr got) =>
            let s' := { s with live := (s.live.zip got.toList).map (fun (p : JVar × V) => { p.1 with val := p.2 }) }
            if l != "ro 1" then (s'.flag [s!"roundtrip-restore-object-failed {l}"], r2)
            else if ex.length != got.length then (s'.flag [s!"trace vars-shape {vl}"], r2)
            else
              let names := s.live.map (·.name)
              (s'.flag ((names.zip (ex.toList.zip got.toList)).foldl
                (fun (acc : List String) (p : String × V × V) =>
                  -- a variable the file does not mention keeps its live value (an object reference stays one)
                  if pv true p.2.1 == pv true p.2.2 then acc else acc ++ cmpRestored p.1 p.2.1 p.2.2) []), r2)
          | _ => (s.flag [s!"trace vars-unparsable {vl}"], r2)
        | _, _ => (s.flag [s!"trace unexpected {vl}"], r2)
      | none => (s.flag ["trace missing-vars"], [])
    | none => (s.flag ["trace missing-ro"], [])
  | ["ro", nc] =>
    match nextLine impl with
    | some (l, r) =>
      match nextLine r with
      | some (vl, r2) =>
        match toks vl with
        | ["vars", vt] =>
          match parseValue vt with
          | some (.arr got) =>
            let gotL := got.toList
            if gotL.length != s.live.length then (s.flag [s!"trace vars-shape {vl}"], r2)
            else
              -- live values after the restore, as far as the trace tells
              let s' := { s with live := (s.live.zip gotL).map (fun (p : JVar × V) => { p.1 with val := p.2 }) }
              -- statics are never touched by a restore
              let stat0 := (s.live.zip gotL).foldl (fun (acc : List String) (p : JVar × V) =>
                if p.1.isStatic ∧ pv false (expectOf p.1.val) != pv false p.2 then
                  acc ++ [s!"static-variable-changed-by-restore {p.1.name}"] else acc) []
              -- restore_object(file, 1) goes through safe_restore_svalue: the variable whose line could not be restored
              -- (named in the error message) keeps the value it had
              let failed : Option String := (impl.takeWhile (· != "roerr")).findSome? (fun e =>
                if e.startsWith "err restore_object(): Illegal" then
                  match e.splitOn " while restoring " with
                  | [_, tail] => some (String.ofList (tail.toList.reverse.dropWhile (· == '.')).reverse)
                  | _ => none
                else none)
              let kept : List String :=
                if nc != "0" ∧ l == "roerr" then
                  match failed with
                  | some x =>
                    match (s.live.zip gotL).find? (fun (p : JVar × V) => p.1.name == x) with
                    | some p =>
                      if !p.1.isStatic ∧ pv false p.1.val != pv false p.2 ∧ pv false (expectOf p.1.val) != pv false p.2 then
                        [s!"variable-changed-by-failed-restore {x}"] else []
                    | none => []
                  | none => []
                else []
              let stat := stat0 ++ kept
              match expectedAfterRestore s (nc != "0"), l with
              | some ex, "ro 1" =>
                let vs0 := (ex.zip gotL).foldl (fun (acc : List String) (p : JVar × V) => acc ++ cmpRestored p.1.name p.1.val p.2) []
                -- two variables of one name at different inheritance levels: open finding K6
                let vs := if hasDupNames s.live ∧ !vs0.isEmpty then
                    vs0.map (fun v => if v.startsWith "roundtrip-" then "roundtrip-same-name-variables " ++ v else v)
                  else vs0
                ((s'.flag stat).flag vs, r2)
              | some _, _ =>
                let snapVars := match s.snap with | some (sv, _) => sv | none => []
                let known := snapVars.foldl (fun acc lv =>
                  if !lv.isStatic ∧ isContainer lv.val ∧ (hasNonFinite lv.val ∨ hasBadMbString lv.val) then
                    acc ++ cmpRestoreError lv.name lv.val
                  else acc) []
                ((s'.flag stat).flag (if known.isEmpty then [s!"roundtrip-restore-object-failed {l}"] else known), r2)
              | none, _ => (s'.flag stat, r2)
          | _ => (s.flag [s!"trace vars-unparsable {vl}"], r2)
        | _ => (s.flag [s!"trace unexpected {vl}"], r2)
      | none => (s.flag ["trace missing-vars"], [])
    | none => (s.flag ["trace missing-ro"], [])
  | [c, _] =>
    if c == "cp" ∨ c == "cf" then
      -- consume the `cp`/`cf` lines
      let mine := impl.takeWhile (fun l => l.startsWith (c ++ " "))
      let rest := impl.drop mine.length
      let vs := mine.foldl (fun acc l =>
        match toks l with
        | [_, k, st, _] =>      -- cp k state tmp=
          if k.startsWith "n=" then acc
          else if st == "old" ∨ st == "new" ∨ st == "both" ∨ (st == "none" ∧ !s.hasFile) then acc
          else acc ++ [s!"atomic-save-file-{st} at-crash-point {k}"]
        | [_, k, ret, st, tmpf] => -- cf k ret= state tmp=
          if tmpf != "tmp=0" then acc ++ [s!"tmp-left-behind after-failure {k} {ret}"]
          else if st == "both" ∨ (ret == "ret=1" ∧ st == "new") ∨ (ret != "ret=1" ∧ (st == "old" ∨ (st == "none" ∧ !s.hasFile))) then acc
          else acc ++ [s!"atomic-save-file-{st} after-failure {k} {ret}"]
        | [_, k, "childcrash"] => acc ++ [s!"memory childcrash {k}"]
        | [_, _] => acc
        | _ => acc ++ [s!"trace unexpected {l}"]) []
      (s.flag vs, rest)
    else (s, impl)
  | _ => (s, impl)

/-- "equal value" includes being FOUND: every entry of every mapping the harness prints (restored values, the
    variables after restore_object) is looked up through its key (`m[key]`); an entry that keys() / values() / a
    re-save list but no lookup reaches is reported by the harness as a line `lookup-miss <key> ..` -/
def lookupLines (impl : List String) : List String :=
  (impl.filter (fun l => l.startsWith "lookup-miss")).map
    (fun l => s!"mapping-entry-not-found-by-its-key {(l.drop 12).toString}")

def judge (cmds impl : List String) : List String :=
  let mem := memLines impl
  -- (`tbl ..`: the bucket layout of an integer-key mapping, compared with the model by the correspondence, not judged)
  let impl' := impl.filter (fun l => !(l.startsWith "sanitizer" ∨ l.startsWith "crash" ∨ l.startsWith "tree " ∨
    l.startsWith "lookup-miss" ∨ l.startsWith "tbl "))
  let (s, _) := cmds.foldl (fun (acc : JState × List String) c => judgeCmd acc.1 c acc.2) ({}, impl')
  mem ++ lookupLines impl ++ s.bad.reverse

end NV.C16
