/-
C16 — proofs about the hash table of restore_mapping (NV/C16/Hash.lean): for every hash function, every table size and
every sequence of keys, the table stays well-formed through the insertions — including the one during which
`growMap()` doubles the table — and every inserted key is found by the lookup afterwards.
-/
import NV.C16.Hash

namespace NV.C16.Hash

set_option linter.unusedSectionVars false

variable {κ : Type} [DecidableEq κ]

/-! ## the C bit operations on a hash, for a table of 2^e buckets -/

theorem and_two_pow_eq (x e : Nat) : x &&& 2 ^ e = if x.testBit e then 2 ^ e else 0 := by
  apply Nat.eq_of_testBit_eq
  intro i
  rw [Nat.testBit_and, Nat.testBit_two_pow]
  by_cases hb : x.testBit e = true
  · rw [if_pos hb, Nat.testBit_two_pow]
    by_cases h : e = i
    · subst h; simp [hb]
    · simp [h]
  · rw [if_neg hb]
    by_cases h : e = i
    · subst h; simp at hb; simp [hb]
    · simp [h]

theorem bit_iff (x e : Nat) : x &&& 2 ^ e ≠ 0 ↔ x / 2 ^ e % 2 = 1 := by
  rw [and_two_pow_eq, Nat.testBit_eq_decide_div_mod_eq]
  have hp : 2 ^ e > 0 := Nat.two_pow_pos e
  by_cases h : x / 2 ^ e % 2 = 1
  · simp [h]
  · simp [h]

/-- `oi & mask` of the doubled table when bit `oldsize` of the hash is clear: the same bucket -/
theorem idx_grow_lo (x e : Nat) (h : x &&& 2 ^ e = 0) : x &&& (2 ^ (e + 1) - 1) = x &&& (2 ^ e - 1) := by
  have hb : ¬ (x / 2 ^ e % 2 = 1) := fun hc => ((bit_iff x e).2 hc) h
  rw [Nat.and_two_pow_sub_one_eq_mod, Nat.and_two_pow_sub_one_eq_mod, Nat.mod_pow_succ]
  have : x / 2 ^ e % 2 = 0 := by omega
  rw [this]; simp

/-- ... when it is set: `i |= oldsize` -/
theorem idx_grow_hi (x e : Nat) (h : x &&& 2 ^ e ≠ 0) :
    x &&& (2 ^ (e + 1) - 1) = (x &&& (2 ^ e - 1)) ||| 2 ^ e ∧
    (x &&& (2 ^ e - 1)) ||| 2 ^ e = (x &&& (2 ^ e - 1)) + 2 ^ e := by
  have hb := (bit_iff x e).1 h
  have hlt : x &&& (2 ^ e - 1) < 2 ^ e := by
    rw [Nat.and_two_pow_sub_one_eq_mod]; exact Nat.mod_lt _ (Nat.two_pow_pos e)
  have hor : (x &&& (2 ^ e - 1)) ||| 2 ^ e = (x &&& (2 ^ e - 1)) + 2 ^ e := by
    have := Nat.two_pow_add_eq_or_of_lt hlt 1
    rw [Nat.mul_one] at this
    rw [Nat.or_comm, ← this]; omega
  refine ⟨?_, hor⟩
  rw [hor, Nat.and_two_pow_sub_one_eq_mod, Nat.and_two_pow_sub_one_eq_mod, Nat.mod_pow_succ, hb]
  simp

theorem idx_lt (x e : Nat) : x &&& (2 ^ e - 1) < 2 ^ e := by
  rw [Nat.and_two_pow_sub_one_eq_mod]; exact Nat.mod_lt _ (Nat.two_pow_pos e)

/-! ## buckets: placement and membership under `set` -/

/-- every node of `bs` sits in the bucket `hash & m` -/
def Placed (h : κ → Nat) (m : Nat) (bs : List (List κ)) : Prop :=
  ∀ i c, bs[i]? = some c → ∀ k ∈ c, h k &&& m = i

/-- the lookup finds `k` -/
def Mem (h : κ → Nat) (m : Nat) (bs : List (List κ)) (k : κ) : Prop :=
  ∃ c, bs[h k &&& m]? = some c ∧ k ∈ c

theorem find_iff (h : κ → Nat) (t : Tbl κ) (k : κ) : find h t k = true ↔ Mem h t.mask t.buckets k := by
  unfold find Mem
  rw [List.contains_iff_mem, List.getD_eq_getElem?_getD]
  cases hq : t.buckets[h k &&& t.mask]? with
  | none => simp
  | some c => simp

theorem placed_set (h : κ → Nat) (m : Nat) (bs : List (List κ)) (i : Nat) (c' : List κ)
    (hp : Placed h m bs) (hc : ∀ k ∈ c', h k &&& m = i) : Placed h m (bs.set i c') := by
  intro j c hj k hk
  rw [List.getElem?_set] at hj
  by_cases hij : i = j
  · subst hij
    simp only [if_true] at hj
    split at hj
    · injection hj with hj; subst hj; exact hc k hk
    · simp at hj
  · simp only [hij, if_false] at hj
    exact hp j c hj k hk

theorem mem_set_keep (h : κ → Nat) (m : Nat) (bs : List (List κ)) (i : Nat) (c' : List κ) (k : κ)
    (hm : Mem h m bs k) (hsup : ∀ c, bs[i]? = some c → ∀ x ∈ c, x ∈ c') : Mem h m (bs.set i c') k := by
  obtain ⟨c, hc, hk⟩ := hm
  unfold Mem
  rw [List.getElem?_set]
  by_cases hij : i = h k &&& m
  · subst hij
    have hlt : h k &&& m < bs.length := by
      rcases Nat.lt_or_ge (h k &&& m) bs.length with hl | hl
      · exact hl
      · rw [List.getElem?_eq_none hl] at hc; simp at hc
    simp only [if_true, hlt]
    exact ⟨c', rfl, hsup c hc k hk⟩
  · simp only [hij, if_false]
    exact ⟨c, hc, hk⟩

theorem mem_set_new (h : κ → Nat) (m : Nat) (bs : List (List κ)) (c' : List κ) (k : κ)
    (hlt : h k &&& m < bs.length) (hk : k ∈ c') : Mem h m (bs.set (h k &&& m) c') k := by
  unfold Mem
  rw [List.getElem?_set]
  simp only [if_true, hlt]
  exact ⟨c', rfl, hk⟩

/-! ## growMap -/

/-- the doubled table -/
def grown (h : κ → Nat) (bs : List (List κ)) : List (List κ) :=
  bs.map (splitLo h bs.length) ++ bs.map (splitHi h bs.length)

theorem grown_length (h : κ → Nat) (bs : List (List κ)) : (grown h bs).length = bs.length + bs.length := by
  simp [grown]

theorem mem_splitLo (h : κ → Nat) (n : Nat) (c : List κ) (k : κ) : k ∈ splitLo h n c ↔ k ∈ c ∧ h k &&& n = 0 := by
  simp [splitLo, List.mem_filter]

theorem mem_splitHi (h : κ → Nat) (n : Nat) (c : List κ) (k : κ) : k ∈ splitHi h n c ↔ k ∈ c ∧ h k &&& n ≠ 0 := by
  simp [splitHi, List.mem_filter]

theorem grown_get (h : κ → Nat) (bs : List (List κ)) (j : Nat) (c : List κ) (hj : (grown h bs)[j]? = some c) :
    (j < bs.length ∧ ∃ c0, bs[j]? = some c0 ∧ c = splitLo h bs.length c0) ∨
    (bs.length ≤ j ∧ ∃ c0, bs[j - bs.length]? = some c0 ∧ c = splitHi h bs.length c0) := by
  unfold grown at hj
  rw [List.getElem?_append] at hj
  simp only [List.length_map] at hj
  by_cases hlt : j < bs.length
  · simp only [hlt, if_true, List.getElem?_map] at hj
    left
    refine ⟨hlt, ?_⟩
    cases hq : bs[j]? with
    | none => simp [hq] at hj
    | some c0 => simp [hq] at hj; exact ⟨c0, rfl, hj.symm⟩
  · simp only [hlt, if_false, List.getElem?_map] at hj
    right
    refine ⟨by omega, ?_⟩
    cases hq : bs[j - bs.length]? with
    | none => simp [hq] at hj
    | some c0 => simp [hq] at hj; exact ⟨c0, rfl, hj.symm⟩

theorem grown_placed (h : κ → Nat) (e : Nat) (bs : List (List κ)) (hl : bs.length = 2 ^ e)
    (hp : Placed h (2 ^ e - 1) bs) : Placed h (2 ^ (e + 1) - 1) (grown h bs) := by
  intro j c hj k hk
  rcases grown_get h bs j c hj with ⟨_, c0, hc0, rfl⟩ | ⟨hge, c0, hc0, rfl⟩
  · rw [mem_splitLo] at hk
    rw [hl] at hk
    rw [idx_grow_lo _ _ hk.2]
    exact hp j c0 hc0 k hk.1
  · rw [mem_splitHi] at hk
    rw [hl] at hk
    have := idx_grow_hi (h k) e hk.2
    rw [this.1, this.2, hp _ c0 hc0 k hk.1]
    omega

theorem grown_mem (h : κ → Nat) (e : Nat) (bs : List (List κ)) (hl : bs.length = 2 ^ e) (k : κ)
    (hm : Mem h (2 ^ e - 1) bs k) : Mem h (2 ^ (e + 1) - 1) (grown h bs) k := by
  obtain ⟨c, hc, hk⟩ := hm
  have hlt : h k &&& (2 ^ e - 1) < bs.length := by rw [hl]; exact idx_lt _ _
  unfold Mem grown
  rw [List.getElem?_append]
  simp only [List.length_map]
  by_cases hb : h k &&& 2 ^ e = 0
  · rw [idx_grow_lo _ _ hb]
    simp only [hlt, if_true, List.getElem?_map, hc, Option.map_some]
    exact ⟨_, rfl, (mem_splitLo h _ c k).2 ⟨hk, by rw [hl]; exact hb⟩⟩
  · have := idx_grow_hi (h k) e hb
    rw [this.1, this.2]
    have hnl : ¬ (h k &&& (2 ^ e - 1)) + 2 ^ e < bs.length := by omega
    have hsub : (h k &&& (2 ^ e - 1)) + 2 ^ e - bs.length = h k &&& (2 ^ e - 1) := by omega
    simp only [hnl, if_false, hsub, List.getElem?_map, hc, Option.map_some]
    exact ⟨_, rfl, (mem_splitHi h _ c k).2 ⟨hk, by rw [hl]; exact hb⟩⟩

theorem grown_empty_lo (h : κ → Nat) (bs : List (List κ)) (i : Nat) (hi : bs[i]? = some []) :
    (grown h bs)[i]? = some [] := by
  have hlt : i < bs.length := by
    rcases Nat.lt_or_ge i bs.length with hl | hl
    · exact hl
    · rw [List.getElem?_eq_none hl] at hi; simp at hi
  unfold grown
  rw [List.getElem?_append]
  simp only [List.length_map, hlt, if_true, List.getElem?_map, hi, Option.map_some]
  simp [splitLo]

theorem grow_eq (h : κ → Nat) (t g : Tbl κ) (hg : grow h t = some g) : g.buckets = grown h t.buckets := by
  unfold grow at hg
  simp only at hg
  split at hg
  · simp at hg
  · injection hg with hg; rw [← hg]; rfl

/-! ## one pair of restore_mapping -/

theorem wf_mask (h : κ → Nat) (t : Tbl κ) (e : Nat) (hl : t.buckets.length = 2 ^ e) : t.mask = 2 ^ e - 1 := by
  unfold Tbl.mask; rw [hl]

theorem getD_nil_of (bs : List (List κ)) (i : Nat) (hlt : i < bs.length) (h : bs.getD i [] = []) : bs[i]? = some [] := by
  rw [List.getD_eq_getElem?_getD] at h
  cases hq : bs[i]? with
  | none => rw [List.getElem?_eq_none_iff] at hq; omega
  | some c => rw [hq] at h; simp at h; rw [h]

/-- **One insertion keeps the table well-formed, finds the inserted key and loses no other key** — in all four
    branches: duplicate key, non-empty bucket, empty bucket, empty bucket + growMap with either value of the hash's new
    top bit. -/
theorem insert_spec (h : κ → Nat) (t t' : Tbl κ) (k : κ) (hw : WF h t) (hi : insert h t k = some t') :
    WF h t' ∧ find h t' k = true ∧ ∀ k', find h t k' = true → find h t' k' = true := by
  obtain ⟨⟨e, hl⟩, hp⟩ := hw
  have hm := wf_mask h t e hl
  have hp' : Placed h (2 ^ e - 1) t.buckets := by rw [← hm]; exact hp
  have hilt : h k &&& (2 ^ e - 1) < t.buckets.length := by rw [hl]; exact idx_lt _ _
  simp only [find_iff]
  unfold insert at hi
  simp only [hm] at hi
  by_cases hch : t.buckets.getD (h k &&& (2 ^ e - 1)) [] ≠ []
  · rw [if_pos hch] at hi
    by_cases hdup : (t.buckets.getD (h k &&& (2 ^ e - 1)) []).contains k = true
    · -- duplicate key
      rw [if_pos hdup] at hi
      injection hi with hi; subst hi
      refine ⟨⟨⟨e, hl⟩, hp⟩, ?_, fun _ hk => hk⟩
      rw [hm]
      rw [List.contains_iff_mem, List.getD_eq_getElem?_getD] at hdup
      cases hq : t.buckets[h k &&& (2 ^ e - 1)]? with
      | none => rw [hq] at hdup; simp at hdup
      | some c => rw [hq] at hdup; exact ⟨c, hq, by simpa using hdup⟩
    · -- new node in front of the chain
      rw [if_neg hdup] at hi
      injection hi with hi; subst hi
      have hl' : (t.buckets.set (h k &&& (2 ^ e - 1)) (k :: t.buckets.getD (h k &&& (2 ^ e - 1)) [])).length = 2 ^ e := by
        rw [List.length_set, hl]
      have hm' : (Tbl.mk (t.buckets.set (h k &&& (2 ^ e - 1)) (k :: t.buckets.getD (h k &&& (2 ^ e - 1)) []))
          t.unfilled).mask = 2 ^ e - 1 := wf_mask h _ e hl'
      refine ⟨⟨⟨e, hl'⟩, ?_⟩, ?_, ?_⟩
      · rw [hm']
        apply placed_set h _ _ _ _ hp'
        intro x hx
        rcases List.mem_cons.1 hx with rfl | hx
        · rfl
        · rw [List.getD_eq_getElem?_getD] at hx
          cases hq : t.buckets[h k &&& (2 ^ e - 1)]? with
          | none => rw [hq] at hx; simp at hx
          | some c => rw [hq] at hx; exact hp' _ c hq x (by simpa using hx)
      · rw [hm']
        exact mem_set_new h _ _ _ k hilt (by simp)
      · intro k' hk'
        rw [hm'] ; rw [hm] at hk'
        apply mem_set_keep h _ _ _ _ k' hk'
        intro c hc x hx
        rw [List.getD_eq_getElem?_getD, hc]
        simp [hx]
  · rw [if_neg hch] at hi
    have hempty : t.buckets[h k &&& (2 ^ e - 1)]? = some [] :=
      getD_nil_of _ _ hilt (by simpa using hch)
    by_cases hz : dec16 t.unfilled = 0
    · -- the table grows
      rw [if_pos hz] at hi
      generalize dec16 t.unfilled = u at hi
      cases hg : grow h ⟨t.buckets, u⟩ with
      | none => rw [hg] at hi; simp at hi
      | some g =>
        rw [hg] at hi
        simp only at hi
        have hgb : g.buckets = grown h t.buckets := grow_eq h ⟨t.buckets, u⟩ g hg
        have hgl : g.buckets.length = 2 ^ (e + 1) := by
          rw [hgb, grown_length, hl, Nat.pow_succ]; omega
        have hgp : Placed h (2 ^ (e + 1) - 1) g.buckets := by rw [hgb]; exact grown_placed h e _ hl hp'
        have hsz : 2 ^ e - 1 + 1 = 2 ^ e := by have := Nat.two_pow_pos e; omega
        rw [hsz] at hi
        by_cases hb : h k &&& 2 ^ e ≠ 0
        · rw [if_pos hb] at hi
          injection hi with hi; subst hi
          have hidx := idx_grow_hi (h k) e hb
          rw [← hidx.1]
          have hl' : (g.buckets.set (h k &&& (2 ^ (e + 1) - 1))
              (k :: g.buckets.getD (h k &&& (2 ^ (e + 1) - 1)) [])).length = 2 ^ (e + 1) := by
            rw [List.length_set, hgl]
          have hm' := wf_mask h (Tbl.mk (g.buckets.set (h k &&& (2 ^ (e + 1) - 1))
              (k :: g.buckets.getD (h k &&& (2 ^ (e + 1) - 1)) [])) g.unfilled) (e + 1) hl'
          refine ⟨⟨⟨e + 1, hl'⟩, ?_⟩, ?_, ?_⟩
          · rw [hm']
            apply placed_set h _ _ _ _ hgp
            intro x hx
            rcases List.mem_cons.1 hx with rfl | hx
            · rfl
            · rw [List.getD_eq_getElem?_getD] at hx
              cases hq : g.buckets[h k &&& (2 ^ (e + 1) - 1)]? with
              | none => rw [hq] at hx; simp at hx
              | some c => rw [hq] at hx; exact hgp _ c hq x (by simpa using hx)
          · rw [hm']
            exact mem_set_new h _ _ _ k (by rw [hgl]; exact idx_lt _ _) (by simp)
          · intro k' hk'
            rw [hm']; rw [hm] at hk'
            have hk2 : Mem h (2 ^ (e + 1) - 1) g.buckets k' := by rw [hgb]; exact grown_mem h e _ hl k' hk'
            apply mem_set_keep h _ _ _ _ k' hk2
            intro c hc x hx
            rw [List.getD_eq_getElem?_getD, hc]
            simp [hx]
        · rw [if_neg hb] at hi
          injection hi with hi; subst hi
          have hb0 : h k &&& 2 ^ e = 0 := by simpa using hb
          have hidx := idx_grow_lo (h k) e hb0
          rw [← hidx]
          have hl' : (g.buckets.set (h k &&& (2 ^ (e + 1) - 1)) [k]).length = 2 ^ (e + 1) := by
            rw [List.length_set, hgl]
          have hm' := wf_mask h (Tbl.mk (g.buckets.set (h k &&& (2 ^ (e + 1) - 1)) [k]) g.unfilled) (e + 1) hl'
          refine ⟨⟨⟨e + 1, hl'⟩, ?_⟩, ?_, ?_⟩
          · rw [hm']
            apply placed_set h _ _ _ _ hgp
            intro x hx
            simp at hx; subst hx; rfl
          · rw [hm']
            exact mem_set_new h _ _ _ k (by rw [hgl]; exact idx_lt _ _) (by simp)
          · intro k' hk'
            rw [hm']; rw [hm] at hk'
            have hk2 : Mem h (2 ^ (e + 1) - 1) g.buckets k' := by rw [hgb]; exact grown_mem h e _ hl k' hk'
            apply mem_set_keep h _ _ _ _ k' hk2
            -- the bucket that is overwritten was empty: the old bucket was, so its lower half is
            intro c hc x hx
            have := grown_empty_lo h t.buckets _ hempty
            rw [hidx] at hc
            rw [← hgb, hc] at this
            injection this with this; subst this; simp at hx
    · -- empty bucket, no growth
      rw [if_neg hz] at hi
      injection hi with hi; subst hi
      have hl' : (t.buckets.set (h k &&& (2 ^ e - 1)) [k]).length = 2 ^ e := by rw [List.length_set, hl]
      have hm' := wf_mask h (Tbl.mk (t.buckets.set (h k &&& (2 ^ e - 1)) [k]) (dec16 t.unfilled)) e hl'
      refine ⟨⟨⟨e, hl'⟩, ?_⟩, ?_, ?_⟩
      · rw [hm']
        apply placed_set h _ _ _ _ hp'
        intro x hx
        simp at hx; subst hx; rfl
      · rw [hm']
        exact mem_set_new h _ _ _ k hilt (by simp)
      · intro k' hk'
        rw [hm']; rw [hm] at hk'
        apply mem_set_keep h _ _ _ _ k' hk'
        intro c hc x hx
        rw [hempty] at hc
        injection hc with hc; subst hc; simp at hx

/-- a freshly allocated table is well-formed -/
theorem empty_wf (h : κ → Nat) (e : Nat) : WF h (empty e : Tbl κ) := by
  refine ⟨⟨e, by simp [empty]⟩, ?_⟩
  intro i c hc k hk
  simp only [empty, List.getElem?_replicate] at hc
  split at hc
  · injection hc with hc; subst hc; simp at hk
  · simp at hc

theorem pow2Above_pow (n : Nat) : ∀ (fuel p : Nat), (∃ a, p = 2 ^ a) → ∃ b, pow2Above n fuel p = 2 ^ b := by
  intro fuel
  induction fuel with
  | zero => intro p hp; simpa [pow2Above] using hp
  | succ f ih =>
    intro p hp
    rw [pow2Above]
    split
    · exact hp
    · obtain ⟨a, rfl⟩ := hp
      exact ih _ ⟨a + 1, by rw [Nat.pow_succ]⟩

/-- the table allocate_mapping hands to restore_mapping is well-formed, whatever the number of pairs -/
theorem allocate_wf (h : κ → Nat) (n : Nat) : WF h (allocate n : Tbl κ) := by
  have hsz : ∃ e, (if n > NV.Gen.C16.mapHashTableSize then pow2Above n 20 1 else NV.Gen.C16.mapHashTableSize) = 2 ^ e := by
    split
    · exact pow2Above_pow n 20 1 ⟨0, rfl⟩
    · exact ⟨Nat.log2 NV.Gen.C16.mapHashTableSize, by decide⟩   -- whatever power of two MAP_HASH_TABLE_SIZE is
  obtain ⟨e, he⟩ := hsz
  refine ⟨⟨e, by simp [allocate, he]⟩, ?_⟩
  intro i c hc k hk
  have hc' : (List.replicate (2 ^ e) ([] : List κ))[i]? = some c := by
    have : (allocate n : Tbl κ).buckets = List.replicate (2 ^ e) [] := by simp [allocate, he]
    rw [this] at hc; exact hc
  rw [List.getElem?_replicate] at hc'
  split at hc'
  · injection hc' with hc'; subst hc'; simp at hk
  · simp at hc'

/-- **Every pair restore_mapping inserts is found through its key afterwards** — for every hash function, every
    initial table size, every key sequence (duplicates included), however often the table grows on the way. -/
theorem insertAll_spec (h : κ → Nat) : ∀ (ks : List κ) (t t' : Tbl κ), WF h t → insertAll h t ks = some t' →
    WF h t' ∧ (∀ k ∈ ks, find h t' k = true) ∧ ∀ k', find h t k' = true → find h t' k' = true := by
  intro ks
  induction ks with
  | nil =>
    intro t t' hw hi
    simp [insertAll] at hi; subst hi
    exact ⟨hw, by simp, fun _ hk => hk⟩
  | cons k ks ih =>
    intro t t' hw hi
    rw [insertAll] at hi
    cases h1 : insert h t k with
    | none => rw [h1] at hi; simp at hi
    | some t1 =>
      rw [h1] at hi
      simp only at hi
      obtain ⟨hw1, hk1, hkeep1⟩ := insert_spec h t t1 k hw h1
      obtain ⟨hw', hall, hkeep⟩ := ih t1 t' hw1 hi
      refine ⟨hw', ?_, fun k' hk' => hkeep k' (hkeep1 k' hk')⟩
      intro x hx
      rcases List.mem_cons.1 hx with rfl | hx
      · exact hkeep x hk1
      · exact hall x hx

theorem restore_mapping_all_found (h : κ → Nat) (e : Nat) (ks : List κ) (t : Tbl κ)
    (hi : insertAll h (empty e) ks = some t) : ∀ k ∈ ks, find h t k = true :=
  (insertAll_spec h ks _ t (empty_wf h e) hi).2.1

/-- the same from the table `allocate_mapping(n)` makes, for every `n` -/
theorem restore_mapping_all_found_alloc (h : κ → Nat) (n : Nat) (ks : List κ) (t : Tbl κ)
    (hi : insertAll h (allocate n) ks = some t) : WF h t ∧ ∀ k ∈ ks, find h t k = true :=
  let r := insertAll_spec h ks _ t (allocate_wf h n) hi
  ⟨r.1, r.2.1⟩

/-! ## non-vacuity: the table does grow in the middle of an insertion sequence, with both values of the new bit -/

/-- hash of a (non-negative) integer key: `MAP_POINTER_HASH(x) = x >> 4` — the shift is REGENERATED -/
def intHash (x : Nat) : Nat := x / 2 ^ NV.Gen.C16.hashShift

-- ([16:1,32:2,48:3,64:4,80:5,224:6,]) into the 8 buckets allocate_mapping(6) gives: the sixth key grows the table
-- (16 buckets afterwards) and has the new bit set (224 >> 4 = 14 = 8 + 6)
example : (insertAll intHash (empty 3) [16, 32, 48, 64, 80, 224]).map (fun t => find intHash t 224) = some true := by decide
-- (that the table has grown to 16 buckets by then holds for FILL_PERCENT = 80 and a hash shift of 4: stated under that
-- condition, so that another choice of these constants is not reported as a broken obligation)
example : if fillPercent = 80 ∧ NV.Gen.C16.hashShift = 4 then
    (insertAll intHash (empty 3) [16, 32, 48, 64, 80, 224]).map (fun t => t.buckets.length) = some 16 else True := by decide
-- ... and with the new bit clear (96 >> 4 = 6)
example : (insertAll intHash (empty 3) [16, 32, 48, 64, 80, 96]).map (fun t => find intHash t 96) = some true := by decide

end NV.C16.Hash
