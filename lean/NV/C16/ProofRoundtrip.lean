/-
C16 — the round trip: restore_variable(save_variable(v)) yields a value equal to `v` (object references as 0,
floats up to their printed text) for every `Savable` value.  Lemma layers in NV.C16.LemmasRt.
-/
import NV.C16.LemmasRt

namespace NV.C16

variable {α : Type}

/-! ## the size pre-pass over a saved text -/

theorem save_arr_append (F : FloatOps α) (xs : Vals α) (t : List Byte) :
    save F (.arr xs) ++ t = 40 :: 123 :: (saveElems F xs ++ 125 :: 41 :: t) := by simp [save]

theorem save_cls_append (F : FloatOps α) (xs : Vals α) (t : List Byte) :
    save F (.cls xs) ++ t = 40 :: 47 :: (saveElems F xs ++ 47 :: 41 :: t) := by simp [save]

theorem save_map_append (F : FloatOps α) (ps : Pairs α) (t : List Byte) :
    save F (.map ps) ++ t = 40 :: 91 :: (savePairs F ps ++ 93 :: 41 :: t) := by simp [save]

theorem save_str_append (F : FloatOps α) (s : List Byte) (t : List Byte) :
    save F (.str s) ++ t = 34 :: (escStr s ++ 34 :: t) := by simp [save]

theorem saveElems_cons_append (F : FloatOps α) (v : Value α) (r : Vals α) (t : List Byte) :
    saveElems F (.cons v r) ++ t = save F v ++ 44 :: (saveElems F r ++ t) := by simp [saveElems]

theorem savePairs_cons_append (F : FloatOps α) (k v : Value α) (r : Pairs α) (t : List Byte) :
    savePairs F (.cons k v r) ++ t = save F k ++ 58 :: (save F v ++ 44 :: (savePairs F r ++ t)) := by
  simp [savePairs]

theorem save_arr_length (F : FloatOps α) (xs : Vals α) :
    (save F (.arr xs)).length = (saveElems F xs).length + 4 := by simp [save]

theorem save_cls_length (F : FloatOps α) (xs : Vals α) :
    (save F (.cls xs)).length = (saveElems F xs).length + 4 := by simp [save]

theorem save_map_length (F : FloatOps α) (ps : Pairs α) :
    (save F (.map ps)).length = (savePairs F ps).length + 4 := by simp [save]

theorem saveElems_cons_length (F : FloatOps α) (v : Value α) (r : Vals α) :
    (saveElems F (.cons v r)).length = (save F v).length + (saveElems F r).length + 1 := by
  simp [saveElems]; omega

theorem savePairs_cons_length (F : FloatOps α) (k v : Value α) (r : Pairs α) :
    (savePairs F (.cons k v r)).length = (save F k).length + (save F v).length + (savePairs F r).length + 2 := by
  simp [savePairs]; omega

/-- the pre-pass over a number text -/
theorem pre_numText (F : FloatOps α) (mb : MbLen) (t : List Byte) (w : Value α) (hn : NumText F t w)
    (fuel nest : Nat) (top isMap idx : Bool) (d : Byte) (rest : List Byte) (size : Nat) (zs : List Nat)
    (hd : delimOf isMap idx = d) (hk : NestOK top nest) :
    preD mb (fuel + 1) nest top isMap idx (t ++ d :: rest) size zs =
      preD mb fuel nest top isMap (idxNext isMap idx) rest (size + 1) zs := by
  obtain ⟨c, s, hcs, hstart⟩ := hn.start
  have hdc := delimOf_cases isMap idx
  rw [hd] at hdc
  have hch : ∀ b ∈ s, b ≠ d := by
    intro b hb
    have := hn.chars b (by rw [hcs]; simp [hb])
    rcases hdc with rfl | rfl <;> omega
  rw [hcs, List.cons_append]
  exact pre_num mb fuel nest top isMap idx size zs d hd c s rest hstart hch hk

/-
The pre-pass AS CODED (with the nesting test) over a saved text.  `nest` is the level of the container whose elements
are being counted; an element that is itself a container sits at level `nest + 1`, which is exactly what
`svalue_save_size` tested when it computed the size of that element with `save_svalue_depth = nest` on entry:
the hypothesis `(saveSize F nest v).isSome` — "the save did not raise `nested too deep`".
-/
mutual
theorem pre_elem (F : FloatOps α) (mb : MbLen) : (v : Value α) → Savable F v →
    ∀ (fuel nest : Nat) (top isMap idx : Bool) (d : Byte) (rest : List Byte) (size : Nat) (zs : List Nat),
      delimOf isMap idx = d → (save F v).length ≤ fuel → NestOK top nest → (saveSize F nest v).isSome = true →
      preD mb (fuel + 1) nest top isMap idx (save F v ++ d :: rest) size zs =
        preD mb fuel nest top isMap (idxNext isMap idx) rest (size + 1) (zs ++ tbl v)
  | .int n, hs => by
    intro fuel nest top isMap idx d rest size zs hd _ hk _
    have hn := numText_int F n hs.int_inv.1 hs.int_inv.2
    rw [save, pre_numText F mb _ _ hn fuel nest top isMap idx d rest size zs hd hk]
    simp [tbl]
  | .real x, hs => by
    intro fuel nest top isMap idx d rest size zs hd _ hk _
    have hn := numText_real F x hs.real_inv
    rw [save, pre_numText F mb _ _ hn fuel nest top isMap idx d rest size zs hd hk]
    simp [tbl]
  | .str s, hs => by
    intro fuel nest top isMap idx d rest size zs hd _ hk _
    rw [save_str_append, pre_str mb fuel nest top isMap idx size zs d hd s rest hk]
    simp [tbl]
  | .obj, _ => by
    intro fuel nest top isMap idx d rest size zs hd _ hk _
    rw [save, List.nil_append, pre_empty mb fuel nest top isMap idx size zs d hd rest hk]
    simp [tbl]
  | .arr xs, hs => by
    intro fuel nest top isMap idx d rest size zs hd hf hk hz
    rw [save_arr_length] at hf
    obtain ⟨hlim, hzs⟩ := saveSize_arr_some hz
    have h := pre_vals F mb xs hs.arr_inv.1 fuel (nest + 1) false false 125 (d :: rest) 0 [] (Or.inl rfl) (by omega)
      (Or.inr hlim) hzs
    rw [save_arr_append,
      pre_nested mb fuel nest top isMap idx size zs d hd 123 (Or.inl rfl) _ rest (0 + xs.length) ([] ++ tblVals xs)
        (by simpa using h) hk]
    simp [tbl]
  | .cls xs, hs => by
    intro fuel nest top isMap idx d rest size zs hd hf hk hz
    rw [save_cls_length] at hf
    obtain ⟨hlim, hzs⟩ := saveSize_cls_some hz
    have h := pre_vals F mb xs hs.cls_inv fuel (nest + 1) false false 47 (d :: rest) 0 [] (Or.inr rfl) (by omega)
      (Or.inr hlim) hzs
    rw [save_cls_append,
      pre_nested mb fuel nest top isMap idx size zs d hd 47 (Or.inr (Or.inr rfl)) _ rest (0 + xs.length)
        ([] ++ tblVals xs) (by simpa using h) hk]
    simp [tbl]
  | .map ps, hs => by
    intro fuel nest top isMap idx d rest size zs hd hf hk hz
    rw [save_map_length] at hf
    obtain ⟨hlim, hzs⟩ := saveSize_map_some hz
    have h := pre_pairs F mb ps hs.map_inv.1 fuel (nest + 1) false (d :: rest) 0 [] (by omega) (Or.inr hlim) hzs
    rw [save_map_append,
      pre_nested mb fuel nest top isMap idx size zs d hd 91 (Or.inr (Or.inl rfl)) _ rest (0 + 2 * ps.len)
        ([] ++ tblPairs ps) (by simpa using h) hk]
    simp [tbl]
theorem pre_vals (F : FloatOps α) (mb : MbLen) : (xs : Vals α) → SavableVals F xs →
    ∀ (fuel nest : Nat) (top idx : Bool) (c : Byte) (rest : List Byte) (size : Nat) (zs : List Nat),
      (c = 125 ∨ c = 47) → (saveElems F xs).length + 1 ≤ fuel → NestOK top nest →
      (sizeElems F nest xs).isSome = true →
      preD mb fuel nest top false idx (saveElems F xs ++ c :: 41 :: rest) size zs =
        some (rest, size + xs.length, zs ++ tblVals xs)
  | .nil, _ => by
    intro fuel nest top idx c rest size zs hc hf hk _
    cases fuel with
    | zero => omega
    | succ f =>
      rw [saveElems, List.nil_append, pre_close_vals mb f nest top idx size zs c hc rest hk]
      simp [Vals.length, tblVals]
  | .cons v r, hs => by
    intro fuel nest top idx c rest size zs hc hf hk hz
    rw [saveElems_cons_length] at hf
    obtain ⟨hzv, hzr⟩ := sizeElems_cons_some hz
    cases fuel with
    | zero => omega
    | succ f =>
      rw [saveElems_cons_append,
        pre_elem F mb v hs.cons_inv.1 f nest top false idx 44 _ size zs (by simp [delimOf]) (by omega) hk hzv]
      have hi : idxNext false idx = idx := by simp [idxNext]
      rw [hi, pre_vals F mb r hs.cons_inv.2 f nest top idx c rest (size + 1) (zs ++ tbl v) hc (by omega) hk hzr]
      simp [Vals.length, tblVals]; omega
theorem pre_pairs (F : FloatOps α) (mb : MbLen) : (ps : Pairs α) → SavablePairs F ps →
    ∀ (fuel nest : Nat) (top : Bool) (rest : List Byte) (size : Nat) (zs : List Nat),
      (savePairs F ps).length + 1 ≤ fuel → NestOK top nest → (sizePairs F nest ps).isSome = true →
      preD mb fuel nest top true false (savePairs F ps ++ 93 :: 41 :: rest) size zs =
        some (rest, size + 2 * ps.len, zs ++ tblPairs ps)
  | .nil, _ => by
    intro fuel nest top rest size zs hf hk _
    cases fuel with
    | zero => omega
    | succ f =>
      rw [savePairs, List.nil_append, pre_close_map mb f nest top false size zs rest hk]
      simp [Pairs.len, tblPairs]
  | .cons k v r, hs => by
    intro fuel nest top rest size zs hf hk hz
    rw [savePairs_cons_length] at hf
    obtain ⟨hzk, hzv, hzr⟩ := sizePairs_cons_some hz
    match fuel, hf with
    | f + 2, hf =>
      rw [savePairs_cons_append,
        pre_elem F mb k hs.cons_inv.1 (f + 1) nest top true false 58 _ size zs (by simp [delimOf]) (by omega) hk hzk]
      have hi : idxNext true false = true := by simp [idxNext]
      rw [hi, pre_elem F mb v hs.cons_inv.2.1 f nest top true true 44 _ (size + 1) (zs ++ tbl k)
        (by simp [delimOf]) (by omega) hk hzv]
      have hi2 : idxNext true true = false := by simp [idxNext]
      rw [hi2, pre_pairs F mb r hs.cons_inv.2.2 f nest top rest (size + 1 + 1) (zs ++ tbl k ++ tbl v) (by omega) hk hzr]
      simp [Pairs.len, tblPairs]; omega
end

/-! ## the value pass over a saved text -/

/-- the value pass at a number text -/
theorem item_numText (F : FloatOps α) (t : List Byte) (w : Value α) (hn : NumText F t w) (fuel : Nat)
    (d : Byte) (hd : d = 44 ∨ d = 58) (rest : List Byte) (more : List Nat) :
    ∃ y, Item F fuel d (t ++ d :: rest) more y rest more ∧ Equiv F w y := by
  obtain ⟨c, s, hcs, hstart⟩ := hn.start
  obtain ⟨y, hy, he⟩ := hn.parse c s hcs (d :: rest) (Or.inr ⟨d, rest, rfl, hd⟩)
  refine ⟨y, ?_, he⟩
  rw [hcs, List.cons_append]
  exact Item.num c _ y rest more hstart hy

mutual
theorem rd_item (F : FloatOps α) : (v : Value α) → Savable F v →
    ∀ (fuel : Nat) (d : Byte) (rest : List Byte) (more : List Nat), (d = 44 ∨ d = 58) →
      (save F v).length ≤ fuel →
      ∃ w, Item F fuel d (save F v ++ d :: rest) (tbl v ++ more) w rest more ∧ Equiv F (erase v) w
  | .int n, hs => by
    intro fuel d rest more hd _
    have hn := numText_int F n hs.int_inv.1 hs.int_inv.2
    simpa [save, tbl, erase] using item_numText F _ _ hn fuel d hd rest more
  | .real x, hs => by
    intro fuel d rest more hd _
    have hn := numText_real F x hs.real_inv
    simpa [save, tbl, erase] using item_numText F _ _ hn fuel d hd rest more
  | .str s, hs => by
    intro fuel d rest more hd _
    refine ⟨.str s, ?_, by rw [erase]; exact Equiv.str s⟩
    rw [save_str_append]
    simpa [tbl] using Item.str (F := F) (fuel := fuel) (d := d) _ s rest more
      (decodeStr_esc s (d :: rest))
  | .obj, _ => by
    intro fuel d rest more hd _
    refine ⟨.int 0, ?_, by rw [erase]; exact Equiv.int 0⟩
    simpa [save, tbl] using Item.empty (F := F) (fuel := fuel) (d := d) rest more
  | .arr xs, hs => by
    intro fuel d rest more hd hf
    rw [save_arr_length] at hf
    match fuel, hf with
    | f + 1, hf =>
      obtain ⟨ys, hys, he⟩ := rd_vals F xs hs.arr_inv.1 f 125 41 (d :: rest) more .nil .array (by omega)
      refine ⟨.arr ys, ?_, by rw [erase]; exact Equiv.arr _ _ he⟩
      rw [save_arr_append]
      have h := rdNested_arr F f _ _ _ _ _ _ hs.arr_inv.2 hys
      simpa [tbl, Vals.app] using Item.nested (F := F) (fuel := f + 1) (d := d) _ _ _ rest more h
  | .cls xs, hs => by
    intro fuel d rest more hd hf
    rw [save_cls_length] at hf
    match fuel, hf with
    | f + 1, hf =>
      obtain ⟨ys, hys, he⟩ := rd_vals F xs hs.cls_inv f 47 41 (d :: rest) more .nil .cls (by omega)
      refine ⟨.cls ys, ?_, by rw [erase]; exact Equiv.cls _ _ he⟩
      rw [save_cls_append]
      have h := rdNested_cls F f _ _ _ _ _ _ hs.cls_len hys
      simpa [tbl, Vals.app] using Item.nested (F := F) (fuel := f + 1) (d := d) _ _ _ rest more h
  | .map ps, hs => by
    intro fuel d rest more hd hf
    rw [save_map_length] at hf
    match fuel, hf with
    | f + 1, hf =>
      have ih := rd_pairs F ps hs.map_inv.1 hs.map_inv.2 f 41 (d :: rest) more .nil (by omega)
        (by intro a ha; simp [Pairs.keys] at ha)
      rw [save_map_append]
      cases ps with
      | nil =>
        refine ⟨.map .nil, ?_, by rw [erase, erasePairs]; exact Equiv.map _ _ EquivPairs.nil⟩
        have h := rdNested_map_empty F f 93 41 (d :: rest) more
        simpa [tbl, tblPairs, Pairs.len, savePairs] using
          Item.nested (F := F) (fuel := f + 1) (d := d) _ _ _ rest more h
      | cons k v r =>
        obtain ⟨qs, hqs, he⟩ := ih
        refine ⟨.map qs, ?_, by rw [erase]; exact Equiv.map _ _ he⟩
        have h := rdNested_map F f _ (2 * (Pairs.cons k v r).len) _ _ _ _ (by simp [Pairs.len]) hqs
        simpa [tbl, Pairs.app] using Item.nested (F := F) (fuel := f + 1) (d := d) _ _ _ rest more h
theorem rd_vals (F : FloatOps α) : (xs : Vals α) → SavableVals F xs →
    ∀ (fuel : Nat) (c1 c2 : Byte) (rest : List Byte) (more : List Nat) (acc : Vals α) (g : RErr),
      (saveElems F xs).length + 1 ≤ fuel →
      ∃ ys, rdElems F fuel (saveElems F xs ++ c1 :: c2 :: rest) xs.length (tblVals xs ++ more) acc g =
          .ok ⟨acc.app ys, some rest, more⟩ ∧ EquivVals F (eraseVals xs) ys
  | .nil, _ => by
    intro fuel c1 c2 rest more acc g hf
    match fuel, hf with
    | f + 1, hf =>
      refine ⟨.nil, ?_, by rw [eraseVals]; exact EquivVals.nil⟩
      simp [saveElems, Vals.length, tblVals, rdElems_done, Vals.app_nil]
  | .cons v r, hs => by
    intro fuel c1 c2 rest more acc g hf
    rw [saveElems_cons_length] at hf
    match fuel, hf with
    | f + 1, hf =>
      obtain ⟨w, hw, ew⟩ := rd_item F v hs.cons_inv.1 f 44 (saveElems F r ++ c1 :: c2 :: rest)
        (tblVals r ++ more) (Or.inl rfl) (by omega)
      obtain ⟨ys, hys, es⟩ := rd_vals F r hs.cons_inv.2 f c1 c2 rest more (acc.snoc w) g (by omega)
      refine ⟨.cons w ys, ?_, by rw [eraseVals]; exact EquivVals.cons _ _ _ _ ew es⟩
      rw [saveElems_cons_append, Vals.length, tblVals, List.append_assoc,
        rdElems_step F f _ _ w _ _ hw r.length acc g, hys, Vals.snoc_app]
theorem rd_pairs (F : FloatOps α) : (ps : Pairs α) → SavablePairs F ps → KeysDistinct F ps.keys →
    ∀ (fuel : Nat) (c : Byte) (rest : List Byte) (more : List Nat) (acc : Pairs α),
      (savePairs F ps).length + 1 ≤ fuel →
      (∀ a ∈ acc.keys, ∀ k ∈ ps.keys, ∀ k', Equiv F (erase k) k' → sameKey F a k' = false) →
      ∃ qs, rdMap F fuel (savePairs F ps ++ 93 :: c :: rest) (tblPairs ps ++ more) acc =
          .ok ⟨acc.app qs, some rest, more⟩ ∧ EquivPairs F (erasePairs ps) qs
  | .nil, _, _ => by
    intro fuel c rest more acc hf _
    match fuel, hf with
    | f + 1, hf =>
      refine ⟨.nil, ?_, by rw [erasePairs]; exact EquivPairs.nil⟩
      simp [savePairs, tblPairs, rdMap_done, Pairs.app_nil]
  | .cons k v r, hs, hkd => by
    intro fuel c rest more acc hf hinv
    rw [savePairs_cons_length] at hf
    have hkd' : (∀ y ∈ r.keys, ∀ x' y', Equiv F (erase k) x' → Equiv F (erase y) y' → sameKey F x' y' = false) ∧
        KeysDistinct F r.keys := by
      have : (Pairs.cons k v r).keys = k :: r.keys := by simp [Pairs.keys]
      rw [this] at hkd
      exact List.pairwise_cons.1 hkd
    match fuel, hf with
    | f + 1, hf =>
      obtain ⟨k', hk', ek⟩ := rd_item F k hs.cons_inv.1 f 58
        (save F v ++ 44 :: (savePairs F r ++ 93 :: c :: rest)) (tbl v ++ (tblPairs r ++ more))
        (Or.inr rfl) (by omega)
      obtain ⟨w', hw', ew⟩ := rd_item F v hs.cons_inv.2.1 f 44 (savePairs F r ++ 93 :: c :: rest)
        (tblPairs r ++ more) (Or.inl rfl) (by omega)
      -- the duplicate test of restore_mapping finds no earlier key equal to this one
      have hfresh : ∀ a ∈ acc.keys, sameKey F a k' = false :=
        fun a ha => hinv a ha k (by simp [Pairs.keys]) k' ek
      have hinv' : ∀ a ∈ (acc.snoc k' w').keys, ∀ y ∈ r.keys, ∀ y', Equiv F (erase y) y' → sameKey F a y' = false := by
        intro a ha y hy y' ey
        rw [Pairs.keys_snoc] at ha
        rcases List.mem_append.1 ha with ha | ha
        · exact hinv a ha y (by simp [Pairs.keys, hy]) y' ey
        · simp only [List.mem_singleton] at ha
          subst ha
          exact hkd'.1 y hy a y' ek ey
      obtain ⟨qs, hqs, es⟩ := rd_pairs F r hs.cons_inv.2.2 hkd'.2 f c rest more (acc.snoc k' w') (by omega) hinv'
      refine ⟨.cons k' w' qs, ?_, by rw [erasePairs]; exact EquivPairs.cons _ _ _ _ _ _ ek ew es⟩
      rw [savePairs_cons_append, tblPairs, List.append_assoc, List.append_assoc,
        rdMap_step F f _ _ k' _ _ hk' w' _ _ hw' acc, insertKV_snoc F acc k' w' hfresh, hqs,
        Pairs.snoc_app]
end

/-! ## the top level: restore_svalue on a saved text -/

theorem restoreSvalue_numText (F : FloatOps α) (mb : MbLen) (t : List Byte) (w : Value α)
    (hn : NumText F t w) : ∃ y, restoreSvalue F mb t = .ok y ∧ Equiv F w y := by
  obtain ⟨c, s, hcs, hstart⟩ := hn.start
  obtain ⟨y, hy, he⟩ := hn.parse c s hcs [] (Or.inl rfl)
  rw [List.append_nil] at hy
  have hc := (numStart_iff c).1 hstart
  have h1 : c ≠ 34 := by omega
  have h2 : c ≠ 40 := by omega
  refine ⟨y, ?_, he⟩
  rw [hcs]
  simp [restoreSvalue, h1, h2, hstart, hy]

theorem restoreSvalue_save (F : FloatOps α) (mb : MbLen) (v : Value α) (hs : Savable F v)
    (hz : (saveSize F 0 v).isSome = true) :
    ∃ v', restoreSvalue F mb (save F v) = .ok v' ∧ Equiv F (erase v) v' := by
  cases v with
  | int n =>
    have hn := numText_int F n hs.int_inv.1 hs.int_inv.2
    simpa [save, erase] using restoreSvalue_numText F mb _ _ hn
  | real x =>
    have hn := numText_real F x hs.real_inv
    simpa [save, erase] using restoreSvalue_numText F mb _ _ hn
  | str s =>
    refine ⟨.str s, ?_, by rw [erase]; exact Equiv.str s⟩
    have h := decodeStr_esc s []
    simp [save, restoreSvalue, restoreString, h]
  | obj =>
    exact ⟨.int 0, by simp [save, restoreSvalue], by rw [erase]; exact Equiv.int 0⟩
  | arr xs =>
    have hp := pre_vals F mb xs hs.arr_inv.1 ((saveElems F xs).length + 4) 1 true false 125 [] 0 []
      (Or.inl rfl) (by omega) (Or.inl rfl) (saveSize_arr_some hz).2
    obtain ⟨ys, hys, he⟩ := rd_vals F xs hs.arr_inv.1 ((saveElems F xs).length + 4) 125 41 [] [] .nil
      .array (by omega)
    refine ⟨.arr ys, ?_, by rw [erase]; exact Equiv.arr _ _ he⟩
    have hlen := hs.arr_inv.2
    simp only [List.nil_append, Nat.zero_add, List.append_nil] at hp hys
    simp [save, restoreSvalue, restoreContainer, hp, hys, Nat.not_lt.2 hlen, Vals.app]
  | cls xs =>
    have hp := pre_vals F mb xs hs.cls_inv ((saveElems F xs).length + 4) 1 true false 47 [] 0 []
      (Or.inr rfl) (by omega) (Or.inl rfl) (saveSize_cls_some hz).2
    obtain ⟨ys, hys, he⟩ := rd_vals F xs hs.cls_inv ((saveElems F xs).length + 4) 47 41 [] [] .nil
      .cls (by omega)
    refine ⟨.cls ys, ?_, by rw [erase]; exact Equiv.cls _ _ he⟩
    have hlen := hs.cls_len
    simp only [List.nil_append, Nat.zero_add, List.append_nil] at hp hys
    simp [save, restoreSvalue, restoreContainer, hp, hys, Nat.not_lt.2 hlen, Vals.app]
  | map ps =>
    have hp := pre_pairs F mb ps hs.map_inv.1 ((savePairs F ps).length + 4) 1 true [] 0 [] (by omega) (Or.inl rfl)
      (saveSize_map_some hz).2
    have ih := rd_pairs F ps hs.map_inv.1 hs.map_inv.2 ((savePairs F ps).length + 4) 41 [] [] .nil
      (by omega) (by intro a ha; simp [Pairs.keys] at ha)
    simp only [List.nil_append, Nat.zero_add, List.append_nil] at hp ih
    cases ps with
    | nil =>
      refine ⟨.map .nil, ?_, by rw [erase, erasePairs]; exact Equiv.map _ _ EquivPairs.nil⟩
      simp only [savePairs, List.nil_append, List.length_nil, Pairs.len, tblPairs] at hp
      simp [save, savePairs, restoreSvalue, restoreContainer, hp]
    | cons k v r =>
      obtain ⟨qs, hqs, he⟩ := ih
      refine ⟨.map qs, ?_, by rw [erase]; exact Equiv.map _ _ he⟩
      simp [save, restoreSvalue, restoreContainer, hp, hqs, Pairs.len, Pairs.app]

/-- the round trip on the inductive form of the domain -/
theorem roundtrip_ind (F : FloatOps α) (mb : MbLen) (v : Value α) (hs : Savable F v)
    (hz : (saveSize F 0 v).isSome = true) :
    ∃ v', restoreVariable F mb (save F v) = RvOut.value v' ∧ Equiv F (erase v) v' := by
  obtain ⟨v', h, he⟩ := restoreSvalue_save F mb v hs hz
  refine ⟨v', ?_, he⟩
  unfold restoreVariable
  rw [cstr_eq_self _ (save_nz F v hs), h]

/-- **Round trip.**  For every value of the domain `savable` (64-bit integers, strings without NUL, arrays of at
    most MaxArraySize elements, mappings without float keys and with distinct integer / string / object keys) whose
    floats satisfy the float contract and that `save_variable` accepted (`hd`: svalue_save_size did not raise "nested
    too deep" — restore refuses deeper text since the nesting fix, so the limit is part of the statement now),
    restoring the text that `save` wrote yields a value of the same shape: equal integers and strings, floats with the
    same saved text, object references as 0. -/
theorem roundtrip {α : Type} (F : FloatOps α) (mb : MbLen) (v : Value α) (hs : savable v = true)
    (hf : FloatsOK F v) (hd : saveVariable F v ≠ SaveOut.tooDeep) :
    ∃ v', restoreVariable F mb (save F v) = RvOut.value v' ∧ Equiv F (erase v) v' := by
  refine roundtrip_ind F mb v (savable_bridge F v hs hf) ?_
  unfold saveVariable at hd
  cases h : saveSize F 0 v with
  | none => simp [h] at hd
  | some n => rfl

/-! ## non-vacuity -/

/-- a deeply nested value: string key with quote, CR, LF, backslash and a non-ASCII byte; class, arrays and
    mappings inside each other; both 64-bit extremes; an object reference; a float; empty string and mapping -/
def deepExample : Value Unit :=
  .arr (.cons (.map (.cons (.str [34, 13, 10, 92, 255])
      (.cls (.cons (.arr (.cons (.map (.cons (.int (-9223372036854775808))
        (.arr (.cons .obj (.cons (.str []) .nil))) .nil)) .nil)) (.cons (.real ()) .nil)))
      (.cons (.int 7) (.map .nil) .nil)))
    (.cons (.int 9223372036854775807) .nil))

/-- it is in the domain -/
theorem deepExample_savable : savable deepExample = true := by decide


/-- concrete float operations over `Unit`: every float prints as "1.5" -/
def rtF : FloatOps Unit :=
  ⟨fun _ => [49, 46, 53], fun _ => (), fun _ _ => (), fun _ _ => (), fun _ _ => (), fun _ => (), fun _ => (),
   fun _ _ => true, fun _ => false, fun _ => false, fun _ => false⟩

/-- the float contract `FloatOK` is satisfiable: the text "1.5" of `rtF` -/
theorem rtF_floatOK : FloatOK rtF () := by
  have hsave : saveReal rtF () = [49, 46, 53] := rfl
  refine ⟨⟨49, [46, 53], hsave, rfl⟩, ?_, ?_⟩
  · intro b hb
    rw [hsave] at hb
    simp at hb
    rcases hb with rfl | rfl | rfl <;> decide
  · intro c s he tail ht
    rw [hsave] at he
    injection he with h1 h2
    subst h1; subst h2
    refine ⟨(), ?_, rfl⟩
    have hspan : ([53] ++ tail).span isDigit = ([53], tail) :=
      span_digits [53] tail (by intro b hb; simp at hb; subst hb; rfl) (TailOK.span ht)
    have hspan0 : ([46, 53] ++ tail).span isDigit = ([], [46, 53] ++ tail) :=
      span_digits [] _ (by simp) (Or.inr ⟨46, 53 :: tail, rfl, rfl⟩)
    unfold parseNumeric
    simp only [List.cons_append, List.nil_append] at hspan hspan0 ⊢
    have h53 : isDigit 53 = true := rfl
    simp only [show ¬ ((49 : Nat) = 45) by decide, ↓reduceIte, hspan0, hspan, h53]
    rcases ht with rfl | ⟨d, r, rfl, hd | hd⟩
    · rfl
    · subst hd; rfl
    · subst hd; rfl

theorem deepExample_floatsOK : FloatsOK rtF deepExample := by
  simp only [deepExample, FloatsOK, FloatsOKVals, FloatsOKPairs, and_true, true_and]
  exact rtF_floatOK

/-- `save_variable` accepts it (nesting 6 of at most MAX_SAVE_SVALUE_DEPTH) -/
theorem deepExample_withinDepth : saveVariable rtF deepExample ≠ SaveOut.tooDeep := by
  have h : (saveSize rtF 0 deepExample).isSome = true := by
    simp [deepExample, saveSize, sizeElems, sizePairs, maxDepth, NV.Gen.C16.maxSaveSvalueDepth]
  unfold saveVariable
  cases hs : saveSize rtF 0 deepExample with
  | none => simp [hs] at h
  | some n => simp only []; split <;> simp

example (mb : MbLen) : ∃ v', restoreVariable rtF mb (save rtF deepExample) = RvOut.value v' ∧
    Equiv rtF (erase deepExample) v' :=
  roundtrip rtF mb deepExample deepExample_savable deepExample_floatsOK deepExample_withinDepth

/-! ## float keys

`roundtrip` (domain `savable`) excludes float keys; the induction itself (`roundtrip_ind`) only needs `KeysDistinct`: the
keys of a mapping stay different keys.  With `keysDistinct_of_tagsF` that holds for float keys whose saved texts are
pairwise different (finding K5 is the case where they are NOT: the entries collapse), given the `==` contract
`EqPrintOK` on the floats that print like those keys. -/

/-- two "floats" with different texts: `true` prints "1.5", `false` prints "2.5"; `==` is equality -/
def rtF2 : FloatOps Bool :=
  ⟨fun b => if b then [49, 46, 53] else [50, 46, 53], fun n => n == 1, fun _ b => b, fun a _ => a, fun a _ => a,
   fun a => a, fun _ => true, fun a b => a == b, fun _ => false, fun _ => false, fun _ => false⟩

theorem rtF2_floatOK (b : Bool) : FloatOK rtF2 b := by
  have hsave : saveReal rtF2 b = [if b then 49 else 50, 46, 53] := by cases b <;> rfl
  refine ⟨⟨if b then 49 else 50, [46, 53], hsave, by cases b <;> rfl⟩, ?_, ?_⟩
  · intro x hx
    rw [hsave] at hx
    simp at hx
    rcases hx with rfl | rfl | rfl
    · cases b <;> decide
    · decide
    · decide
  · intro c s he tail ht
    rw [hsave] at he
    injection he with h1 h2
    subst h1; subst h2
    refine ⟨b, ?_, rfl⟩
    have hspan : ([53] ++ tail).span isDigit = ([53], tail) :=
      span_digits [53] tail (by intro b hb; simp at hb; subst hb; rfl) (TailOK.span ht)
    have hspan0 : ([46, 53] ++ tail).span isDigit = ([], [46, 53] ++ tail) :=
      span_digits [] _ (by simp) (Or.inr ⟨46, 53 :: tail, rfl, rfl⟩)
    unfold parseNumeric
    simp only [List.cons_append, List.nil_append] at hspan hspan0 ⊢
    have h53 : isDigit 53 = true := rfl
    cases b
    · simp only [show ¬ ((50 : Nat) = 45) by decide, Bool.false_eq_true, ↓reduceIte, hspan0, hspan, h53]
      rcases ht with rfl | ⟨d, r, rfl, hd | hd⟩
      · rfl
      · subst hd; rfl
      · subst hd; rfl
    · simp only [show ¬ ((49 : Nat) = 45) by decide, ↓reduceIte, hspan0, hspan, h53]
      rcases ht with rfl | ⟨d, r, rfl, hd | hd⟩
      · rfl
      · subst hd; rfl
      · subst hd; rfl

/-- a mapping with two float keys (texts "1.5", "2.5"), an integer key and a string key -/
def floatKeyExample : Value Bool :=
  .map (.cons (.real true) (.int 1) (.cons (.real false) (.str [97]) (.cons (.int 7) (.real true)
    (.cons (.str [107]) (.arr (.cons (.real false) .nil)) .nil))))

theorem floatKeyExample_savable : Savable rtF2 floatKeyExample := by
  refine Savable.map _ ?_ ?_
  · refine SavablePairs.cons _ _ _ (Savable.real _ (rtF2_floatOK _)) (Savable.int _ (by decide) (by decide)) ?_
    refine SavablePairs.cons _ _ _ (Savable.real _ (rtF2_floatOK _)) (Savable.str _ (by intro b hb; simp at hb; omega)) ?_
    refine SavablePairs.cons _ _ _ (Savable.int _ (by decide) (by decide)) (Savable.real _ (rtF2_floatOK _)) ?_
    refine SavablePairs.cons _ _ _ (Savable.str _ (by intro b hb; simp at hb; omega)) ?_ SavablePairs.nil
    exact Savable.arr _ (SavableVals.cons _ _ (Savable.real _ (rtF2_floatOK _)) SavableVals.nil) (by decide)
  · apply keysDistinct_of_tagsF
    · decide
    · intro a b _ _ a' b' ha hb heq
      have : a' = b' := by simpa [rtF2] using heq
      subst this
      rw [← ha, ← hb]

theorem floatKeyExample_withinDepth : saveVariable rtF2 floatKeyExample ≠ SaveOut.tooDeep := by
  have h : (saveSize rtF2 0 floatKeyExample).isSome = true := by
    simp [floatKeyExample, saveSize, sizeElems, sizePairs, maxDepth, NV.Gen.C16.maxSaveSvalueDepth]
  unfold saveVariable
  cases hs : saveSize rtF2 0 floatKeyExample with
  | none => simp [hs] at h
  | some n => simp only []; split <;> simp

/-- the round trip of a mapping WITH float keys -/
example (mb : MbLen) : ∃ v', restoreVariable rtF2 mb (save rtF2 floatKeyExample) = RvOut.value v' ∧
    Equiv rtF2 (erase floatKeyExample) v' := by
  refine roundtrip_ind rtF2 mb floatKeyExample floatKeyExample_savable ?_
  simp [floatKeyExample, saveSize, sizeElems, sizePairs, maxDepth, NV.Gen.C16.maxSaveSvalueDepth]

end NV.C16
