/-
C16 — the object level as coded: `save_object_recurse`, `find_global_variable` / `fgv_recurse` and
`clear_non_statics` / `cns_recurse` / `cns_just_count` of lib/lpc/object.c walk the PROGRAM TREE of the object
(inherits with their type modifiers, then the variables the program defines itself) with a cursor into the
object's flat variable array.  This file models those walks literally, on a tree that the harness dumps from the
real `program_t` of every generated object.  `slots` is the specification of the layout (the order in which the
compiler lays the variables out: the subtrees of the inherits in order, then the program's own variables, a
variable being effectively static when it is declared static or reached through a static inherit); the theorems
of ProofTree.lean show that the coded walks are exactly the flat functions of Model.lean (`saveLines`, first
match of a name, clearing of the non-static variables) applied to `slots`.
-/
import NV.C16.Model

namespace NV.C16

/-- `NAME_STATIC` (lib/lpc/program.h), regenerated -/
def nameStatic : Nat := NV.Gen.C16.nameStatic

/-- C: `flags & NAME_STATIC` -/
def hasStatic (flags : Nat) : Bool := flags &&& nameStatic != 0

/-- one entry of `variable_table[]` / `variable_types[]` -/
structure VarDecl where
  name : List Byte
  flags : Nat

mutual
/-- `program_t` as far as the save / restore walks look at it: the inherit list and the variables it defines
    (`num_variables_defined` = `vars.length`); `total` = its field `num_variables_total` -/
inductive Prog where
  | mk (name : List Byte) (total : Nat) (inhs : Inhs) (vars : List VarDecl)
/-- `inherit[]`: type modifier, `variable_index_offset`, inherited program -/
inductive Inhs where
  | nil
  | cons (mod : Nat) (off : Nat) (p : Prog) (r : Inhs)
end

def Prog.name : Prog → List Byte
  | .mk n _ _ _ => n

def Prog.total : Prog → Nat
  | .mk _ t _ _ => t

/-! ## the layout (specification) -/

/-- a variable slot of the object: its name and whether it is static for save / restore -/
structure Slot where
  name : List Byte
  isStatic : Bool
  deriving Repr, BEq, DecidableEq

mutual
/-- slots of a program (sub)tree in array order; `st`: reached through a static inherit -/
def slots : Prog → Bool → List Slot
  | .mk _ _ inhs vars, st => slotsInhs inhs st ++ vars.map (fun v => ⟨v.name, st || hasStatic v.flags⟩)
def slotsInhs : Inhs → Bool → List Slot
  | .nil, _ => []
  | .cons m _ p r, st => slots p (st || hasStatic m) ++ slotsInhs r st
end

/-- the flat variable list of Model.lean for a tree and the values in the object's variable array -/
def mkVars {α} : List Slot → List (Value α) → List (Var α)
  | s :: ss, v :: vs => ⟨s.name, s.isStatic, v⟩ :: mkVars ss vs
  | _, _ => []

mutual
/-- well-formedness of a dumped tree, evaluated on every real tree: `num_variables_total` and
    `variable_index_offset` are what the layout says -/
def Prog.wf : Prog → Bool
  | .mk _ t inhs vars => t == (slotsInhs inhs false).length + vars.length && inhsWf inhs 0
def inhsWf : Inhs → Nat → Bool
  | .nil, _ => true
  | .cons _ off p r, at_ => off == at_ && p.wf && inhsWf r (at_ + (slots p false).length)
end

/-! ## save_object_recurse, as coded -/

variable {α : Type}

/-- the loop over the variables the program defines: `svp` is the cursor; a static variable only moves it.
    `none`: `*svp` outside the variable array (memory error). -/
def saveOwn (F : FloatOps α) (zeros : Bool) (vals : List (Value α)) :
    List VarDecl → Nat → Option (Nat × List (List Byte))
  | [], c => some (c, [])
  | v :: r, c =>
    if hasStatic v.flags then saveOwn F zeros vals r (c + 1)
    else
      match vals[c]? with
      | none => none
      | some x =>
        let t := save F x
        match saveOwn F zeros vals r (c + 1) with
        | none => none
        | some (c', ls) =>
          if zeros || t != [48] then some (c', (v.name ++ 32 :: (t ++ [10])) :: ls) else some (c', ls)

mutual
/-- `save_object_recurse(prog, &svp, type, save_zeros, f)`: first every inherit with `type_mod | type`, then —
    if `type & NAME_STATIC` — skip the program's own `num_variables_defined` slots, else the loop above.
    Returns the cursor and the lines written. -/
def saveRec (F : FloatOps α) (zeros : Bool) (vals : List (Value α)) : Prog → Nat → Nat → Option (Nat × List (List Byte))
  | .mk _ _ inhs vars, c, ty =>
    match saveInhs F zeros vals inhs c ty with
    | none => none
    | some (c1, l1) =>
      if hasStatic ty then some (c1 + vars.length, l1)
      else
        match saveOwn F zeros vals vars c1 with
        | none => none
        | some (c2, l2) => some (c2, l1 ++ l2)
def saveInhs (F : FloatOps α) (zeros : Bool) (vals : List (Value α)) : Inhs → Nat → Nat → Option (Nat × List (List Byte))
  | .nil, c, _ => some (c, [])
  | .cons m _ p r, c, ty =>
    match saveRec F zeros vals p c (m ||| ty) with
    | none => none
    | some (c1, l1) =>
      match saveInhs F zeros vals r c1 ty with
      | none => none
      | some (c2, l2) => some (c2, l1 ++ l2)
end

/-- the variable lines of `save_object(ob, file, save_zeros)` -/
def saveTreeLines (F : FloatOps α) (zeros : Bool) (p : Prog) (vals : List (Value α)) : Option (List (List Byte)) :=
  (saveRec F zeros vals p 0 0).map (·.2)

/-! ## find_global_variable, as coded -/

/-- search in `variable_table[]`: index and type of the first entry with that name -/
def findOwn (name : List Byte) : List VarDecl → Nat → Option (Nat × Nat)
  | [], _ => none
  | v :: r, i => if v.name = name then some (i, v.flags) else findOwn name r (i + 1)

mutual
/-- `fgv_recurse(prog, &idx, name, &type)`: `.inl (idx, type)` found, `.inr idx'` not found (idx advanced by the
    variables of the subtree) -/
def fgv (name : List Byte) : Prog → Nat → (Nat × Nat) ⊕ Nat
  | .mk _ _ inhs vars, idx =>
    match fgvInhs name inhs idx with
    | .inl r => .inl r
    | .inr idx1 =>
      match findOwn name vars 0 with
      | some (i, ty) => .inl (idx1 + i, ty)
      | none => .inr (idx1 + vars.length)
def fgvInhs (name : List Byte) : Inhs → Nat → (Nat × Nat) ⊕ Nat
  | .nil, idx => .inr idx
  | .cons m _ p r, idx =>
    match fgv name p idx with
    | .inl (i, ty) => .inl (i, ty ||| m)
    | .inr idx1 => fgvInhs name r idx1
end

/-- `find_global_variable`: slot index and `type & NAME_STATIC` -/
def findGlobal (p : Prog) (name : List Byte) : Option (Nat × Bool) :=
  match fgv name p 0 with
  | .inl (i, ty) => some (i, hasStatic ty)
  | .inr _ => none

/-! ## clear_non_statics, as coded -/

def setAt {β} : List β → Nat → β → List β
  | [], _, _ => []
  | _ :: r, 0, x => x :: r
  | y :: r, n + 1, x => y :: setAt r n x

/-- the loop of cns_recurse over the program's own variables at offset `idx` -/
def cnsOwn (vals : List (Value α)) : List VarDecl → Nat → List (Value α)
  | [], _ => vals
  | v :: r, i => cnsOwn (if hasStatic v.flags then vals else setAt vals i (.int 0)) r (i + 1)

mutual
/-- `cns_just_count` -/
def cnsCount : Prog → Nat
  | .mk _ _ inhs vars => cnsCountInhs inhs + vars.length
def cnsCountInhs : Inhs → Nat
  | .nil => 0
  | .cons _ _ p r => cnsCount p + cnsCountInhs r
end

mutual
/-- `cns_recurse(ob, &idx, prog)` -/
def cns (vals : List (Value α)) : Prog → Nat → List (Value α) × Nat
  | .mk _ _ inhs vars, idx =>
    let r := cnsInhs vals inhs idx
    (cnsOwn r.1 vars r.2, r.2 + vars.length)
def cnsInhs (vals : List (Value α)) : Inhs → Nat → List (Value α) × Nat
  | .nil, idx => (vals, idx)
  | .cons m _ p r, idx =>
    if hasStatic m then cnsInhs vals r (idx + cnsCount p)
    else
      let q := cns vals p idx
      cnsInhs q.1 r q.2
end

/-! ## restore_object on the tree -/

inductive RoOutT (α : Type) where
  | done (vals : List (Value α))
  | error (msg : String) (vals : List (Value α))
  | crash
  | stuck

/-- restore_object_from_buff with `find_global_variable` on the tree and the variable array `vals` -/
def restoreLinesT (F : FloatOps α) (mb : MbLen) (p : Prog) : List (List Byte) → List (Value α) → RoOutT α
  | [], vals => .done vals
  | l :: ls, vals =>
    if l = [] then
      if ls = [] then .done vals else .error "restore_object(): Illegal file format." vals
    else if l.head? = some 35 then restoreLinesT F mb p ls vals
    else
      let name := l.takeWhile (· ≠ 32)
      if name.length = l.length ∨ name.length ≥ varBufSize then .error "restore_object(): Illegal file format." vals
      else
        let text := l.drop (name.length + 1)
        match findGlobal p name with
        | none => restoreLinesT F mb p ls vals
        | some (idx, st) =>
          if st then restoreLinesT F mb p ls vals
          else
            match restoreSvalue F mb text with
            | .ok x => restoreLinesT F mb p ls (setAt vals idx x)
            | .err e => .error (errMsgVar e name) vals
            | .crash => .crash
            | .stuck => .stuck

def restoreObjectT (F : FloatOps α) (mb : MbLen) (noclear : Bool) (file : Option (List Byte)) (p : Prog)
    (vals : List (Value α)) : Nat × RoOutT α :=
  match file with
  | none => (0, .done vals)
  | some [] => (0, .done vals)
  | some t =>
    let vals0 := if noclear then vals else (cns vals p 0).1
    (1, restoreLinesT F mb p (splitLines (cstr t)) vals0)

end NV.C16
