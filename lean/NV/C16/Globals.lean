/-
C16 — the file-scope state the save / restore code of lib/lpc/object.c shares between calls, and what an LPC error raised
in the middle of a save or restore leaves in it:

  int save_svalue_depth   container counter: nesting depth while svalue_save_size runs, index into the size table while
                          the restore functions run (`if (save_svalue_depth) size = save_svalue_sizes[save_svalue_depth-1]
                          else size = restore_size (..)`)
  int *save_svalue_sizes  the size table of the pre-pass (NULL until a nested container was met, freed after a restore
                          that opened one)
  int save_max_depth      its capacity

`error()` leaves through longjmp: none of them is reset on that way ("nested too deep" in svalue_save_size: the counter
stays at MAX_SAVE_SVALUE_DEPTH + 1 with whatever table there was; "Illegal array size" / "Mapping too large" inside the
value pass: the counter stays at the number of containers opened so far, the table allocated).  So EVERY entry point has
to start from an arbitrary `G`.  The functions below mirror the code WITHOUT the reset (`…From`) and the entry points
with it; the theorems say the entry points do not see the state they are entered with, the witnesses what the code
without the reset does.  (The statement `save_svalue_depth = 0` at the head of each entry point is a REGENERATED fact:
`NV.Gen.C16.resetSitesAsModelled`.)
-/
import NV.C16.Model

namespace NV.C16

/-- the shared state: `depth` = save_svalue_depth, `table` = save_svalue_sizes (`none` = NULL) -/
structure G where
  depth : Nat
  table : Option (List Nat)
  deriving Repr

variable {α : Type}

/-- restore_array / restore_class / restore_mapping entered with the state `g` (no reset): the element count comes from
    the table when the counter is not 0 — a NULL table is dereferenced (`crash`), an index beyond what the pre-pass wrote
    is read outside it (`crash`), otherwise the value pass runs with that count and the table entries behind it -/
def restoreContainerFrom (F : FloatOps α) (mb : MbLen) (g : G) (k : Byte) (s : List Byte) : Res (Value α) :=
  if g.depth = 0 then restoreContainer F mb k s
  else
    match g.table with
    | none => .crash
    | some tb =>
      match tb[g.depth - 1]? with
      | none => .crash
      | some n =>
        let fuel := s.length + 2
        let zs := tb.drop g.depth
        if k = 123 ∨ k = 47 then
          if k = 123 ∧ n > maxArray then .err .arraySize else
          match rdElems F fuel s n zs .nil (if k = 123 then .array else .cls) with
          | .ok st => .ok (if k = 123 then .arr st.val else .cls st.val)
          | .err e => .err e
          | .crash => .crash
          | .stuck => .stuck
        else if n = 0 then .ok (.map .nil)
        else
          match rdMap F fuel s zs .nil with
          | .ok st => .ok (.map st.val)
          | .err e => .err e
          | .crash => .crash
          | .stuck => .stuck

/-- the text of one saved value parsed from the state `g`, i.e. restore_svalue / safe_restore_svalue WITHOUT their first
    statement -/
def restoreTextFrom (F : FloatOps α) (mb : MbLen) (g : G) (t : List Byte) : Res (Value α) :=
  match t with
  | 40 :: k :: s' => if k = 123 ∨ k = 91 ∨ k = 47 then restoreContainerFrom F mb g k s' else restoreSvalue F mb t
  | _ => restoreSvalue F mb t

/-- `restore_svalue` / `safe_restore_svalue` as coded: `save_svalue_depth = 0;` first -/
def restoreSvalueG (F : FloatOps α) (mb : MbLen) (g : G) (t : List Byte) : Res (Value α) :=
  restoreTextFrom F mb { g with depth := 0 } t

/-- `svalue_save_size` entered with the counter of `g` (no reset) -/
def saveSizeFrom (F : FloatOps α) (g : G) (v : Value α) : Option Nat := saveSize F g.depth v

/-- `save_variable` / every variable of `save_object_recurse` / the MUD-mode socket write as coded:
    `save_svalue_depth = 0;` first -/
def saveSizeG (F : FloatOps α) (g : G) (v : Value α) : Option Nat := saveSizeFrom F { g with depth := 0 } v

theorem restoreTextFrom_zero (F : FloatOps α) (mb : MbLen) (tb : Option (List Nat)) (t : List Byte) :
    restoreTextFrom F mb ⟨0, tb⟩ t = restoreSvalue F mb t := by
  unfold restoreTextFrom
  split
  · rename_i k s'
    split
    · rename_i hk
      simp [restoreContainerFrom, restoreSvalue, hk]
    · rfl
  · rfl

/-- **No entry point of the restore sees the state it is entered with**: whatever an earlier save or restore that ended
    in an LPC error left in the counter and the table, restore_svalue / safe_restore_svalue (hence restore_variable,
    restore_object with either flag, the socket read) behave as on a fresh driver -/
theorem restore_ignores_stale_state (F : FloatOps α) (mb : MbLen) (g : G) (t : List Byte) :
    restoreSvalueG F mb g t = restoreSvalue F mb t :=
  restoreTextFrom_zero F mb g.table t

/-- ... nor does any entry point of the save -/
theorem save_ignores_stale_state (F : FloatOps α) (g : G) (v : Value α) : saveSizeG F g v = saveSize F 0 v := rfl

end NV.C16
