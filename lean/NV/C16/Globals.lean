/-
C16 — the file-scope state the save / restore code of lib/lpc/object.c shares between calls, and what an LPC error raised
in the middle of a save or restore leaves in it:

  int save_svalue_depth   container counter: nesting depth while svalue_save_size runs, index into the size table while
                          the restore functions run (`if (save_svalue_depth) size = save_svalue_sizes[save_svalue_depth-1]
                          else size = restore_size (..)`)
  int *save_svalue_sizes  the size table of the pre-pass (NULL until a nested container was met, freed after a restore
                          that opened one)
  int save_max_depth      its capacity

`error()` leaves through longjmp: none of them is reset on that way ("nested too deep" in svalue_save_size: the counter
stays at MAX_SAVE_SVALUE_DEPTH + 1 with whatever table there was; "Illegal array size" / "Mapping too large" inside the
value pass: the counter stays at the number of containers opened so far, the table allocated).  So EVERY entry point has
to start from an arbitrary `G`.  The functions below mirror the code WITHOUT the reset (`…From`) and the entry points
with it; the theorems say the entry points do not see the state they are entered with, the witnesses what the code
without the reset does.  (The statement `save_svalue_depth = 0` at the head of each entry point is a REGENERATED fact:
`NV.Gen.C16.resetSitesAsModelled`.)
-/
import NV.C16.Model

namespace NV.C16

/-- the shared state: `depth` = save_svalue_depth, `table` = save_svalue_sizes (`none` = NULL) -/
structure G where
  depth : Nat
  table : Option (List Nat)
  deriving Repr

variable {α : Type}

/-- restore_array / restore_class / restore_mapping entered with the state `g` (no reset): the element count comes from
    the table when the counter is not 0 — a NULL table is dereferenced (`crash`), an index beyond what the pre-pass wrote
    is read outside it (`crash`), otherwise the value pass runs with that count and the table entries behind it -/
def restoreContainerFrom (F : FloatOps α) (mb : MbLen) (g : G) (k : Byte) (s : List Byte) : Res (Value α) :=
  if g.depth = 0 then restoreContainer F mb k s
  else
    match g.table with
    | none => .crash
    | some tb =>
      match tb[g.depth - 1]? with
      | none => .crash
      | some n =>
        let fuel := s.length + 2
        let zs := tb.drop g.depth
        if k = 123 ∨ k = 47 then
          if k = 123 ∧ n > maxArray then .err .arraySize else
          if k = 47 ∧ n > maxClass then .err .cls else
          match rdElems F fuel s n zs .nil (if k = 123 then .array else .cls) with
          | .ok st => .ok (if k = 123 then .arr st.val else .cls st.val)
          | .err e => .err e
          | .crash => .crash
          | .stuck => .stuck
        else if n = 0 then .ok (.map .nil)
        else
          match rdMap F fuel s zs .nil with
          | .ok st => .ok (.map st.val)
          | .err e => .err e
          | .crash => .crash
          | .stuck => .stuck

/-- the text of one saved value parsed from the state `g`, i.e. restore_svalue / safe_restore_svalue WITHOUT their first
    statement -/
def restoreTextFrom (F : FloatOps α) (mb : MbLen) (g : G) (t : List Byte) : Res (Value α) :=
  match t with
  | 40 :: k :: s' => if k = 123 ∨ k = 91 ∨ k = 47 then restoreContainerFrom F mb g k s' else restoreSvalue F mb t
  | _ => restoreSvalue F mb t

/-- `restore_svalue` / `safe_restore_svalue` as coded: `save_svalue_depth = 0;` first -/
def restoreSvalueG (F : FloatOps α) (mb : MbLen) (g : G) (t : List Byte) : Res (Value α) :=
  restoreTextFrom F mb { g with depth := 0 } t

/-- `svalue_save_size` entered with the counter of `g` (no reset) -/
def saveSizeFrom (F : FloatOps α) (g : G) (v : Value α) : Option Nat := saveSize F g.depth v

/-- `save_variable` / every variable of `save_object_recurse` / the MUD-mode socket write as coded:
    `save_svalue_depth = 0;` first -/
def saveSizeG (F : FloatOps α) (g : G) (v : Value α) : Option Nat := saveSizeFrom F { g with depth := 0 } v

theorem restoreTextFrom_zero (F : FloatOps α) (mb : MbLen) (tb : Option (List Nat)) (t : List Byte) :
    restoreTextFrom F mb ⟨0, tb⟩ t = restoreSvalue F mb t := by
  unfold restoreTextFrom
  split
  · rename_i k s'
    split
    · rename_i hk
      simp [restoreContainerFrom, restoreSvalue, hk]
    · rfl
  · rfl

/-- **No entry point of the restore sees the state it is entered with**: whatever an earlier save or restore that ended
    in an LPC error left in the counter and the table, restore_svalue / safe_restore_svalue (hence restore_variable,
    restore_object with either flag, the socket read) behave as on a fresh driver -/
theorem restore_ignores_stale_state (F : FloatOps α) (mb : MbLen) (g : G) (t : List Byte) :
    restoreSvalueG F mb g t = restoreSvalue F mb t :=
  restoreTextFrom_zero F mb g.table t

/-- ... nor does any entry point of the save -/
theorem save_ignores_stale_state (F : FloatOps α) (g : G) (v : Value α) : saveSizeG F g v = saveSize F 0 v := rfl

/-! ## the size table and its capacity (`save_svalue_sizes`, `save_max_depth`)

restore_internal_size, in front of `save_svalue_sizes[depth] = size`:

    if (!save_svalue_sizes) { save_max_depth = 128; while (save_max_depth <= depth) save_max_depth <<= 1; CALLOCATE .. }
    else if (depth >= save_max_depth) { while ((save_max_depth <<= 1) <= depth); RESIZE .. }

and restore_svalue / safe_restore_svalue after a restore that opened a nested container:
`save_svalue_depth = save_max_depth = 0; FREE (save_svalue_sizes); save_svalue_sizes = 0;`.
The second loop doubles BEFORE it tests: from a capacity of 0 it never ends.  The invariant that keeps it from that state:
an allocated table has a capacity > 0 (`TabInv`) — kept by both blocks, and by an `error()` in between (nothing is
touched on that way). -/

/-- `alloc` = `save_svalue_sizes != NULL`, `cap` = `save_max_depth` -/
structure Tab where
  alloc : Bool
  cap : Nat
  deriving Repr, DecidableEq

def TabInv (t : Tab) : Prop := t.alloc = true → 0 < t.cap

/-- `while (cap <= depth) cap <<= 1;` (`none`: not finished within the fuel) -/
def initCap (depth : Nat) : Nat → Nat → Option Nat
  | fuel, cap =>
    if cap ≤ depth then
      match fuel with
      | 0 => none
      | f + 1 => initCap depth f (cap * 2)
    else some cap

/-- `while ((cap <<= 1) <= depth);` -/
def growCap (depth : Nat) : Nat → Nat → Option Nat
  | 0, _ => none
  | f + 1, cap => if cap * 2 ≤ depth then growCap depth f (cap * 2) else some (cap * 2)

/-- the allocation / growth in front of the write of entry `depth` -/
def ensure (t : Tab) (depth fuel : Nat) : Option Tab :=
  if t.alloc = false then (initCap depth fuel NV.Gen.C16.sizeTableInitial).map (fun c => ⟨true, c⟩)
  else if depth ≥ t.cap then (growCap depth fuel t.cap).map (fun c => ⟨true, c⟩)
  else some t

/-- the release after a restore -/
def release : Tab := ⟨false, 0⟩

theorem initCap_ok (depth : Nat) : ∀ (fuel cap : Nat), 0 < cap → depth < cap * 2 ^ fuel →
    ∃ c, initCap depth fuel cap = some c ∧ depth < c := by
  intro fuel
  induction fuel with
  | zero =>
    intro cap _ h
    rw [initCap]
    have : ¬ cap ≤ depth := by simp at h; omega
    simp [this]; omega
  | succ f ih =>
    intro cap hc h
    rw [initCap]
    by_cases hle : cap ≤ depth
    · simp only [hle, if_true]
      exact ih (cap * 2) (by omega) (by rw [Nat.pow_succ] at h; rw [Nat.mul_assoc, Nat.mul_comm 2]; exact h)
    · simp [hle]; omega

theorem growCap_ok (depth : Nat) : ∀ (fuel cap : Nat), 0 < cap → depth < cap * 2 ^ fuel → cap ≤ depth →
    ∃ c, growCap depth fuel cap = some c ∧ depth < c := by
  intro fuel
  induction fuel with
  | zero => intro cap _ h hle; simp at h; omega
  | succ f ih =>
    intro cap hc h hle
    rw [growCap]
    by_cases h2 : cap * 2 ≤ depth
    · simp only [h2, if_true]
      exact ih (cap * 2) (by omega) (by rw [Nat.pow_succ] at h; rw [Nat.mul_assoc, Nat.mul_comm 2]; exact h) h2
    · simp [h2]; omega

/-- **The capacity loops end and make room**, from every state an earlier restore — finished, failed or interrupted by an
    LPC error — can have left (`TabInv`), for every index -/
theorem ensure_ok (t : Tab) (depth : Nat) (hi : TabInv t) :
    ∃ t', ensure t depth (depth + 1) = some t' ∧ t'.alloc = true ∧ depth < t'.cap ∧ TabInv t' := by
  have hpow : depth < 2 ^ (depth + 1) := Nat.lt_of_lt_of_le Nat.lt_two_pow_self (Nat.pow_le_pow_right (by omega) (by omega))
  unfold ensure
  by_cases ha : t.alloc = false
  · simp only [ha, if_true]
    have h0 : 0 < NV.Gen.C16.sizeTableInitial := by decide
    obtain ⟨c, hc, hlt⟩ := initCap_ok depth (depth + 1) _ h0
      (Nat.lt_of_lt_of_le hpow (Nat.le_mul_of_pos_left _ h0))
    exact ⟨⟨true, c⟩, by simp [hc], rfl, hlt, fun _ => by show 0 < c; omega⟩
  · have ha' : t.alloc = true := by simpa using ha
    simp only [ha, if_false]
    by_cases hge : depth ≥ t.cap
    · simp only [hge, if_true]
      obtain ⟨c, hc, hlt⟩ := growCap_ok depth (depth + 1) t.cap (hi ha')
        (Nat.lt_of_lt_of_le hpow (Nat.le_mul_of_pos_left _ (hi ha'))) hge
      exact ⟨⟨true, c⟩, by simp [hc], rfl, hlt, fun _ => by show 0 < c; omega⟩
    · simp only [hge, if_false]
      exact ⟨t, rfl, ha', by omega, hi⟩

theorem release_inv : TabInv release := by intro h; cases h

end NV.C16
