/-
C13 — helper lemmas: slices of the text buffer under the writes the code performs; splitting decoded text into
commands (`cmdsOf`), independent of any buffer.
-/
import NV.C13.Lemmas6

namespace NV.C13

open NV.Gen.C13

/-- the decoded text that has not been handed out yet: `text[text_start .. text_end)` -/
def pend (s : S) : List Byte := slice s.text s.tstart s.tend

theorem slice_eq_drop_take (t : List Byte) (a b : Nat) : slice t a b = (t.take b).drop a := by
  simp [slice, List.drop_take]

theorem slice_write_outside {t x : List Byte} {i a b : Nat} (hb : b ≤ i) (hi : i ≤ t.length) :
    slice (t.take i ++ x ++ t.drop (i + x.length)) a b = slice t a b := by
  rw [slice_eq_drop_take, slice_eq_drop_take]
  congr 1
  rw [List.append_assoc, List.take_append_of_le_length (by simp; omega), List.take_take]
  congr 1; omega

theorem slice_write_append {t x : List Byte} {i a : Nat} (ha : a ≤ i) (hi : i + x.length ≤ t.length) :
    slice (t.take i ++ x ++ t.drop (i + x.length)) a (i + x.length) = slice t a i ++ x := by
  rw [slice_eq_drop_take, slice_eq_drop_take]
  have h1 : (t.take i).length = i := by simp; omega
  have : List.take (i + x.length) (t.take i ++ x ++ t.drop (i + x.length)) = t.take i ++ x := by
    rw [List.take_append_of_le_length (by simp; omega)]
    apply List.take_of_length_le
    simp; omega
  rw [this, List.drop_append_of_le_length (by omega)]

theorem slice_compact {t : List Byte} {a e : Nat} (hae : a ≤ e) (he : e + 1 ≤ t.length) (rest : List Byte) :
    slice (t.take 0 ++ slice t a (e + 1) ++ rest) 0 (e - a) = slice t a e := by
  simp only [List.take_zero, List.nil_append]
  rw [slice_eq_drop_take, List.drop_zero]
  have hl : (slice t a (e + 1)).length = e + 1 - a := slice_length _ _ _ he
  rw [List.take_append_of_le_length (by omega)]
  simp only [slice]
  rw [List.take_take]
  congr 1; omega

theorem slice_move {p rest : List Byte} : slice (([] : List Byte).take 0 ++ p ++ rest) 0 p.length = p := by
  simp [slice]

theorem slice_drop (t : List Byte) (a e z : Nat) : (slice t a e).drop z = slice t (a + z) e := by
  simp only [slice, List.drop_take, List.drop_drop]
  congr 1; omega

theorem slice_nil_of_ge (t : List Byte) {a e : Nat} (h : e ≤ a) : slice t a e = [] := by
  simp [slice]; omega

/-! ### commands of a decoded text -/

/-- the commands contained in decoded text: NUL-terminated pieces, empty ones skipped, edited.
    `cur` is the piece being collected, last byte first. -/
def cmdsOf (cur : List Byte) : List Byte → List (List Byte)
  | [] => []
  | b :: r =>
    if b = 0 then (if cur = [] then cmdsOf [] r else edit cur.reverse :: cmdsOf [] r)
    else cmdsOf (b :: cur) r

def dropZ (l : List Byte) : List Byte := l.drop (countZ l)

def takeNZ (l : List Byte) : List Byte := l.take (countNZ l)
def dropNZ (l : List Byte) : List Byte := l.drop (countNZ l)

theorem dropZ_cons_zero (r : List Byte) : dropZ (0 :: r) = dropZ r := by
  simp [dropZ, countZ]

theorem dropZ_cons_ne {b : Byte} (h : b ≠ 0) (r : List Byte) : dropZ (b :: r) = b :: r := by
  simp [dropZ, countZ, h]

/-- leading NULs never start a command -/
theorem cmdsOf_dropZ (l x : List Byte) : cmdsOf [] (l ++ x) = cmdsOf [] (dropZ l ++ x) := by
  induction l with
  | nil => rfl
  | cons b r ih =>
    by_cases hb : b = 0
    · subst hb
      rw [dropZ_cons_zero, ← ih]
      simp [cmdsOf]
    · rw [dropZ_cons_ne hb]

theorem cmdsOf_nz_prefix (nz y cur : List Byte) (h : ∀ b ∈ nz, b ≠ 0) :
    cmdsOf cur (nz ++ y) = cmdsOf (nz.reverse ++ cur) y := by
  induction nz generalizing cur with
  | nil => rfl
  | cons b r ih =>
    have hb := h b (by simp)
    simp only [List.cons_append, cmdsOf, if_neg hb]
    rw [ih _ (fun c hc => h c (by simp [hc]))]
    simp

theorem takeNZ_nz (l : List Byte) : ∀ b ∈ takeNZ l, b ≠ 0 := by
  induction l with
  | nil => intro b hb; simp [takeNZ] at hb
  | cons a r ih =>
    intro b hb
    unfold takeNZ countNZ at hb
    split at hb
    · simp at hb
    · rename_i ha
      simp only [List.take_succ_cons, List.mem_cons] at hb
      rcases hb with rfl | hb
      · exact ha
      · exact ih b hb

theorem takeNZ_append_dropNZ (l : List Byte) : takeNZ l ++ dropNZ l = l := by
  simp [takeNZ, dropNZ]

theorem dropNZ_of_lt {l : List Byte} (h : countNZ l < l.length) : ∃ rest, dropNZ l = 0 :: rest := by
  induction l with
  | nil => simp at h
  | cons a r ih =>
    unfold dropNZ countNZ
    split
    · rename_i ha; exact ⟨r, by simp [ha]⟩
    · rename_i ha
      have : countNZ r < r.length := by
        unfold countNZ at h; rw [if_neg ha] at h; simpa using h
      obtain ⟨rest, hr⟩ := ih this
      exact ⟨rest, by simpa [dropNZ] using hr⟩

theorem dropNZ_of_ge {l : List Byte} (h : ¬ countNZ l < l.length) : dropNZ l = [] := by
  have : countNZ l ≤ l.length := by
    induction l with
    | nil => simp [countNZ]
    | cons a r ih => unfold countNZ; split <;> simp; omega
  simp [dropNZ]; omega

theorem dropZ_head_ne {l : List Byte} {b : Byte} {r : List Byte} (h : dropZ l = b :: r) : b ≠ 0 := by
  induction l with
  | nil => simp [dropZ] at h
  | cons a t ih =>
    by_cases ha : a = 0
    · subst ha; rw [dropZ_cons_zero] at h; exact ih h
    · rw [dropZ_cons_ne ha] at h; injection h with h1 _; rw [← h1]; exact ha

theorem takeNZ_ne_nil_of_dropZ {l : List Byte} (h : dropZ l ≠ []) : takeNZ (dropZ l) ≠ [] := by
  cases hd : dropZ l with
  | nil => exact absurd hd h
  | cons b r =>
    have hb := dropZ_head_ne hd
    simp [takeNZ, countNZ, hb]

/-- **one extraction, on the pending text**: what first_cmd_in_buf / next_cmd_in_buf do to the list of commands
    that the pending text followed by any future text `x` denotes -/
theorem cmdsOf_extract_complete (p x : List Byte) (h : countNZ (dropZ p) < (dropZ p).length) :
    cmdsOf [] (p ++ x) = edit (takeNZ (dropZ p)) :: cmdsOf [] (dropZ (dropNZ (dropZ p)) ++ x) := by
  rw [cmdsOf_dropZ p x]
  obtain ⟨rest, hr⟩ := dropNZ_of_lt h
  have hne : dropZ p ≠ [] := by intro e; rw [e] at h; simp at h
  have hnn := takeNZ_ne_nil_of_dropZ hne
  conv => lhs; rw [← takeNZ_append_dropNZ (dropZ p), hr, List.append_assoc]
  rw [cmdsOf_nz_prefix _ _ _ (takeNZ_nz _)]
  simp only [List.append_nil, List.cons_append, cmdsOf, if_true]
  rw [if_neg (by simpa using hnn), List.reverse_reverse, hr, dropZ_cons_zero, ← cmdsOf_dropZ]

theorem cmdsOf_no_complete (p : List Byte) (h : ¬ countNZ (dropZ p) < (dropZ p).length) : cmdsOf [] p = [] := by
  have := cmdsOf_dropZ p []
  simp only [List.append_nil] at this
  rw [this]
  have hd := dropNZ_of_ge h
  have : dropZ p = takeNZ (dropZ p) := by
    have := takeNZ_append_dropNZ (dropZ p); rw [hd, List.append_nil] at this; exact this.symm
  rw [this]
  have := cmdsOf_nz_prefix (takeNZ (dropZ p)) [] [] (takeNZ_nz _)
  simp only [List.append_nil] at this
  rw [this]; rfl

end NV.C13
