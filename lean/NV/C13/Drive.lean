/-
C13 driver: parses the case lines that harness/c13/c13.c executes against the real comm.c and runs the model
(`model` mode) or the specification oracle on an implementation trace (`judge` mode).

Case lines:   port telnet|ascii|binary|console / iflag single / send <hex> / read / chunk <hex> / extract /
              drain / finish / line <hex> / getchar [noecho] / inputto [noecho] / serve          (`-` is the empty byte string)
Trace lines:  ask n / rx <hex> / wouldblock / st s e state sbpos flags / cmd <hex> / nocmd / input <hex> /
              cb ttype <hex> / cb subopt <hex> / cb naws w h / tx <hex> / cl <hex> / closed / crash ... / sanitizer ...
-/
import NV.Common.Proto
import NV.C13.Model
import NV.C13.Spec
import NV.C13.SpecStall
import NV.C13.SpecMode

namespace NV.C13

open NV.Proto

def hexDigit (n : Nat) : Char := if n < 10 then Char.ofNat (48 + n) else Char.ofNat (87 + n)

def hexOf (bs : List Byte) : String :=
  if bs.isEmpty then "-" else
  String.ofList (bs.flatMap (fun b => [hexDigit (b.toNat / 16), hexDigit (b.toNat % 16)]))

def hexVal (c : Char) : Option Nat :=
  if '0' ≤ c ∧ c ≤ '9' then some (c.toNat - 48)
  else if 'a' ≤ c ∧ c ≤ 'f' then some (c.toNat - 87)
  else if 'A' ≤ c ∧ c ≤ 'F' then some (c.toNat - 55)
  else none

def unhexAux : List Char → List Byte → Option (List Byte)
  | [], acc => some acc.reverse
  | [_], _ => none
  | a :: b :: r, acc =>
    match hexVal a, hexVal b with
    | some x, some y => unhexAux r (UInt8.ofNat (x * 16 + y) :: acc)
    | _, _ => none

def unhex (s : String) : Option (List Byte) :=
  if s == "-" then some [] else unhexAux s.toList []

def render : Ev → String
  | .ask n => s!"ask {n}"
  | .rx b => s!"rx {hexOf b}"
  | .wouldblock => "wouldblock"
  | .st s e st sb fl => s!"st {s} {e} {st} {sb} {fl}"
  | .cmd b => s!"cmd {hexOf b}"
  | .nocmd => "nocmd"
  | .input b => s!"input {hexOf b}"
  | .cbTtype b => s!"cb ttype {hexOf b}"
  | .cbSubopt b => s!"cb subopt {hexOf b}"
  | .cbNaws w h => s!"cb naws {w} {h}"
  | .tx b => s!"tx {hexOf b}"
  | .cl b => s!"cl {hexOf b}"
  | .errmsg k => s!"err C13 scripted error in callback {k}"
  | .cberr => "err"
  | .closed => "closed"
  | .crash why => s!"crash {why}"
  | .setcall ok => s!"setcall {if ok then 1 else 0}"
  | .snoop b => s!"snoop {hexOf b}"

def parseEv (line : String) : Option Ev :=
  match NV.Proto.toks line with
  | ["ask", n] => n.toNat?.map .ask
  | ["rx", h] => (unhex h).map .rx
  | ["wouldblock"] => some .wouldblock
  | ["st", a, b, c, d, e] => do some (.st (← a.toNat?) (← b.toNat?) (← c.toNat?) (← d.toNat?) (← e.toNat?))
  | ["cmd", h] => (unhex h).map .cmd
  | ["nocmd"] => some .nocmd
  | ["input", h] => (unhex h).map .input
  | ["cb", "ttype", h] => (unhex h).map .cbTtype
  | ["cb", "subopt", h] => (unhex h).map .cbSubopt
  | ["cb", "naws", w, h] => do some (.cbNaws (← w.toNat?) (← h.toNat?))
  | ["tx", h] => (unhex h).map .tx
  | ["cl", h] => (unhex h).map .cl
  | ["closed"] => some .closed
  | ["snoop", h] => (unhex h).map .snoop
  | ["setcall", "1"] => some (.setcall true)
  | ["setcall", "0"] => some (.setcall false)
  | ["err"] => some .cberr
  | ["err", "C13", "scripted", "error", "in", "callback", k] => k.toNat?.map .errmsg
  | _ => none

def parsePort : String → Option Port
  | "telnet" => some .telnet
  | "ascii" => some .ascii
  | "binary" => some .binary
  | "console" => some .console
  | _ => none

def parseOp (line : String) : Option Op :=
  match NV.Proto.toks line with
  | ["iflag", "single"] => some .iflagSingle
  | ["iflag", "line"] => some .iflagLine
  | ["send", h] => (unhex h).map .send
  | ["read"] => some .read
  | ["chunk", h] => (unhex h).map .chunk
  | ["extract"] => some .extract
  | ["drain"] => some .drain
  | ["finish"] => some .finish
  | ["line", h] => (unhex h).map .line
  | ["wpipe", h] => (unhex h).map .wpipe
  | ["getchar"] => some (.getchar false)
  | ["getchar", "noecho"] => some (.getchar true)
  | ["inputto"] => some (.inputto false)
  | ["inputto", "noecho"] => some (.inputto true)
  | ["serve"] => some .serve
  | ["snoop", "on"] => some .snoopOn
  | _ => none

/-- `cb <k> err|dest` lines -/
def parseCb (line : String) : Option (Nat × Outcome) :=
  match NV.Proto.toks line with
  | ["cb", k, "err"] => k.toNat?.map (·, Outcome.err)
  | ["cb", k, "dest"] => k.toNat?.map (·, Outcome.dest)
  | ["cb", k, "ok"] => k.toNat?.map (·, Outcome.ok)
  | _ => none

def oracleOf (tab : List (Nat × Outcome)) : Oracle := fun k =>
  match tab.reverse.find? (fun e => e.1 == k) with
  | some e => e.2
  | none => .ok

/-- (port, oracle table, ops) of a case, or the offending line -/
def parseCase (lines : List String) : Except String (Port × List (Nat × Outcome) × List Op) :=
  let lines := lines.filter (fun l => !(l.startsWith "#") && l.trimAscii.toString != "")
  let cbs := lines.filterMap parseCb
  let lines := lines.filter (fun l => (parseCb l).isNone)
  match lines with
  | [] => .error "empty case"
  | first :: rest =>
    match NV.Proto.toks first with
    | ["port", k] =>
      match parsePort k with
      | none => .error first
      | some p =>
        let rec go (ls : List String) (acc : List Op) : Except String (List Op) :=
          match ls with
          | [] => .ok acc.reverse
          | l :: r => match parseOp l with
            | some op => go r (op :: acc)
            | none => .error l
        match go rest [] with
        | .ok ops => .ok (p, cbs, ops)
        | .error l => .error l
    | _ => .error first

def runModel (lines : List String) : List String :=
  match parseCase lines with
  | .error l => [s!"bad-line {l}"]
  | .ok (p, cbs, ops) => (run p (oracleOf cbs) ops).evs.map render

def runJudge (body : List String) : List String :=
  let (input, impl) := splitJudge body
  match parseCase input with
  | .error l => [s!"bad unparsable-case {l}"]
  | .ok (p, cbs, ops) =>
    let evs := impl.map (fun l => match parseEv l with
      | some e => e
      | none => Ev.crash l)          -- `crash ...`, `sanitizer ...` and anything unknown
    match judgeEv p evs (cbs.any (fun e => e.2 == Outcome.dest)) ++ judgeStall (sentOf ops) (finishedOf ops) evs ++
          judgeMode (modeClauseEnabled p ops) evs with
    | [] => ["ok"]
    | vs => vs.map (fun v => s!"bad {v}")

def main (mode : String) : IO Unit :=
  match mode with
  | "model" => serve runModel
  | "judge" => serve runJudge
  | _ => IO.eprintln s!"C13: unknown mode {mode}"

end NV.C13
