/-
C13 — helper lemmas: command extraction (first_cmd_in_buf, next_cmd_in_buf, telnet_neg, get_user_command) keeps the
buffer invariant and stays inside its arrays (line mode).
-/
import NV.C13.Lemmas5

namespace NV.C13

open NV.Gen.C13

theorem countNZ_lt_mem {l : List Byte} (h : countNZ l < l.length) : (0 : Byte) ∈ l := by
  induction l with
  | nil => simp at h
  | cons a r ih =>
    unfold countNZ at h
    split at h
    · rename_i ha; simp [ha]
    · simp at h; simp [ih (by omega)]

theorem cstrOf_length_lt {l : List Byte} (h : (0 : Byte) ∈ l) : (cstrOf l).length < l.length := by
  induction l with
  | nil => simp at h
  | cons a r ih =>
    unfold cstrOf
    split
    · simp
    · rename_i ha
      have : (0 : Byte) ∈ r := by
        rcases List.mem_cons.mp h with h | h
        · exact absurd h.symm ha
        · exact h
      simp; exact ih this

theorem edit_length_le (l : List Byte) : (edit l).length ≤ l.length := by
  have : ∀ acc : List Byte, (l.foldl (fun a c => if c = bBS ∨ c = bDEL then a.dropLast else a ++ [c]) acc).length
      ≤ acc.length + l.length := by
    induction l with
    | nil => intro acc; simp
    | cons c r ih =>
      intro acc
      simp only [List.foldl_cons]
      split
      · have := ih acc.dropLast; simp at this ⊢; omega
      · have := ih (acc ++ [c]); simp at this ⊢; omega
  simpa [edit] using this []

theorem cstrAt_ok {t : List Byte} {i : Nat} (h : (t.drop i).contains 0 = true) :
    cstrAt t i = .ok (cstrOf (t.drop i)) := by
  simp only [cstrAt, h, if_true]

theorem firstCmd_ok {s : S} (h : Inv s) (hns : s.dec.fl.single = false) :
    ∃ s1 r, firstCmd s = .ok (s1, r) ∧ Inv s1 ∧ s1.dec = s.dec ∧
      ∀ i, r = some i → (s1.text.drop i).contains 0 = true := by
  have hl := h.textLen
  have hse := h.se
  have hem := h.eMax
  have hM : 0 < MAXT := by decide
  unfold firstCmd
  rw [if_neg (by omega), if_neg (by omega)]
  dsimp only
  have hw0 : 0 + ([0] : List Byte).length ≤ s.text.length := by simp; omega
  split
  · rw [writeAt_ok hw0]
    refine ⟨_, _, rfl, ⟨?_, Nat.le_refl _, by dsimp only; omega, h.dec⟩, rfl, fun i hi => by cases hi⟩
    dsimp only; rw [writeAt_length (writeAt_ok hw0)]; exact hl
  · rename_i hst
    rw [hns]
    simp only [Bool.false_eq_true, if_false]
    split
    · rename_i hc
      refine ⟨_, _, rfl, ⟨hl, by dsimp only; omega, hem, h.dec⟩, rfl, ?_⟩
      intro i hi
      injection hi with hi; subst hi
      dsimp only
      have hm := countNZ_lt_mem hc
      have : (0 : Byte) ∈ s.text.drop (s.tstart + countZ (slice s.text s.tstart s.tend)) := by
        simp only [slice, List.drop_take, List.drop_drop] at hm
        have h2 := List.mem_of_mem_take hm
        first | exact h2 | (rw [Nat.add_comm] at h2; exact h2)
      simpa using this
    · rename_i hc
      have hsl : (List.drop (countZ (slice s.text s.tstart s.tend)) (slice s.text s.tstart s.tend)).length
          = s.tend - (s.tstart + countZ (slice s.text s.tstart s.tend)) := by
        rw [List.length_drop, slice_length _ _ _ (by omega)]; omega
      have hw1 : 0 + (List.drop (countZ (slice s.text s.tstart s.tend)) (slice s.text s.tstart s.tend)).length
          ≤ s.text.length := by omega
      rw [writeAt_ok hw1]
      dsimp only
      have hl1 := writeAt_length (writeAt_ok hw1)
      split
      · rename_i hcut
        have hcm : cutMargin = 2 := rfl
        have hM4 : 4 ≤ MAXT := by decide
        rw [if_neg (by omega)]
        have hw2 : s.tend - (s.tstart + countZ (slice s.text s.tstart s.tend)) - 2 + ([0, 0] : List Byte).length ≤
            (List.take 0 s.text ++ List.drop (countZ (slice s.text s.tstart s.tend)) (slice s.text s.tstart s.tend) ++
              List.drop (0 + (List.drop (countZ (slice s.text s.tstart s.tend)) (slice s.text s.tstart s.tend)).length) s.text).length := by
          rw [hl1]; simp; omega
        rw [writeAt_ok hw2]
        dsimp only
        refine ⟨_, _, rfl, ⟨?_, Nat.zero_le _, by dsimp only; omega, h.dec⟩, rfl, ?_⟩
        · dsimp only; rw [writeAt_length (writeAt_ok hw2), hl1]; exact hl
        · intro i hi
          injection hi with hi; subst hi
          simp
      · refine ⟨_, _, rfl, ⟨?_, Nat.zero_le _, by dsimp only; omega, h.dec⟩, rfl, fun i hi => by cases hi⟩
        dsimp only; rw [hl1]; exact hl

theorem nextCmd_ok {s : S} (h : Inv s) : ∃ s', nextCmd s = .ok s' ∧ Inv s' ∧ s'.dec = s.dec := by
  have hl := h.textLen
  have hse := h.se
  have hem := h.eMax
  unfold nextCmd
  rw [if_neg (by omega), if_neg (by omega)]
  dsimp only
  split
  · exact ⟨_, rfl, ⟨hl, by dsimp only; omega, hem, h.dec⟩, rfl⟩
  · have hw0 : 0 + ([0] : List Byte).length ≤ s.text.length := by simp; omega
    rw [writeAt_ok hw0]
    refine ⟨_, rfl, ⟨?_, Nat.le_refl _, by dsimp only; omega, h.dec⟩, rfl⟩
    dsimp only; rw [writeAt_length (writeAt_ok hw0)]; exact hl

/-- **get_user_command keeps the invariant** (line mode): first_cmd_in_buf, the C-string read of the command,
    telnet_neg into the static `buf[MAX_TEXT]`, next_cmd_in_buf and cmd_in_buf stay inside their arrays; the line
    returned is shorter than the buffer -/
theorem getUserCommand_ok {s : S} (h : Inv s) (hns : s.dec.fl.single = false) :
    ∃ s' r, getUserCommand s = .ok (s', r) ∧ Inv s' ∧ s'.dec.fl.single = false ∧ ∀ l, r = some l → l.length + 1 ≤ MAXT := by
  unfold getUserCommand
  split
  · exact ⟨_, _, rfl, h, hns, fun l hl => by cases hl⟩
  · obtain ⟨s1, r, h1, i1, d1, z1⟩ := firstCmd_ok h hns
    rw [h1]
    cases r with
    | none =>
      dsimp only
      exact ⟨_, _, rfl, ⟨i1.textLen, i1.se, i1.eMax, decInv_fl i1.dec _⟩, by dsimp only; rw [d1]; exact hns,
        fun l hl => by cases hl⟩
    | some i =>
      dsimp only
      have hz := z1 i rfl
      rw [cstrAt_ok hz]
      dsimp only
      have hmem : (0 : Byte) ∈ s1.text.drop i := by simpa using hz
      have hlt := cstrOf_length_lt hmem
      have hle := edit_length_le (cstrOf (s1.text.drop i))
      have hdl : (s1.text.drop i).length ≤ MAXT := by rw [List.length_drop, i1.textLen]; omega
      rw [telnetNeg_eq_edit]
      rw [if_neg (by omega)]
      obtain ⟨s2, h2, i2, d2⟩ := nextCmd_ok i1
      rw [h2]
      dsimp only
      obtain ⟨c, hc⟩ := cmdInBuf_ok s2 (by have := i2.eMax; have := i2.textLen; omega)
      rw [hc]
      dsimp only
      refine ⟨_, _, rfl, ?_, ?_, ?_⟩
      · split
        · exact i2
        · exact ⟨i2.textLen, i2.se, i2.eMax, decInv_fl i2.dec _⟩
      · split
        · rw [d2, d1]; exact hns
        · dsimp only; rw [d2, d1]; exact hns
      · intro l hl; injection hl with hl; subst hl; omega

end NV.C13
