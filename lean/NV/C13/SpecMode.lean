/-
C13 — oracle clause for the end of get_char() mode: lines typed ahead while a get_char() was pending are framed like
any other line once the mode ends (reframe_single_char_input; model-side theorem `typeahead_lines_after_mode_end`).

The clause follows one get_char() episode under explicit, checkable side conditions (otherwise it says nothing):
  * start: an `st` line shows SINGLE_CHAR newly set while the input buffer is empty (`text_start = text_end`) and
    the decoder is in TS_DATA without a pending CR;
  * during the episode every byte received is collected verbatim (single-char mode stores raw bytes); an IAC byte, a
    read above the discard threshold, a callback error, a close or a crash end the observation;
  * a `cmd` in that mode must be the first NUL-terminated piece of the collected bytes (leading NULs skipped, BS/DEL
    edited), which is consumed together with the NULs behind it;
  * end: an `st` line shows SINGLE_CHAR cleared.  If the bytes left over are `crClean`-shaped (every CR followed by
    LF or CR, or last) and short enough for the reframing to have room (3/2 of their length stays below MAX_TEXT), then from here on the delivered commands must
    (and the decoder's TS_CR_SEEN flag is what they explain) then from here on the delivered commands must
    be `lines (left-over ++ everything received later)`: at every `cmd` a prefix, at every `nocmd` all of them.
The direct SINGLE_CHAR pokes of the case language (`iflag single|line`) bypass set_call / call_function_interactive;
cases using them are not judged by this clause (`enabled = false`).
-/
import NV.C13.Spec

namespace NV.C13

open NV.Gen.C13

structure JM where
  prevSingle : Bool := false
  lastS : Nat := 0
  lastE : Nat := 0
  raw : Option (List Byte) := none          -- bytes collected in the current get_char episode
  seg : Option (List Byte × List (List Byte)) := none   -- after the episode: (stream, delivered)
  bad : List String := []

def crCleanSpec : List Byte → Bool
  | [] => true
  | [_] => true
  | a :: b :: r => (a != bCR || b == bLF || b == bCR) && crCleanSpec (b :: r)

def dropNul (l : List Byte) : List Byte := l.dropWhile (· == 0)
def pieceOf (l : List Byte) : List Byte := l.takeWhile (· != 0)

def JM.stop (j : JM) : JM := { j with raw := none, seg := none }

def judgeModeStep (j : JM) (e : Ev) : JM :=
  match e with
  | .st s en state _ fl =>
    let single := fl &&& iSingleChar ≠ 0
    let j1 :=
      if single && !j.prevSingle then
        { j with raw := if s == en && state == 0 then some [] else none, seg := none }
      else if !single && j.prevSingle then
        match j.raw with
        | some r =>
          -- the decoder's pending-CR flag must be the one the left-over bytes explain (a CR that was handed out with
          -- the get_char text leaves TS_CR_SEEN set: then the next LF ends an empty line - not judged)
          let endsCR := r.getLast? == some bCR
          if crCleanSpec r && r.all (· != bIAC) && decide (3 * r.length + 16 ≤ 2 * MAXT) &&
             ((state == tsCrSeen && endsCR) || (state == 0 && !endsCR)) then { j with raw := none, seg := some (r, []) }
          else j.stop
        | none => j.stop
      else j
    { j1 with prevSingle := single, lastS := s, lastE := en }
  | .rx b =>
    if j.prevSingle then
      { j with raw := if b.all (· != bIAC) then j.raw.map (· ++ b) else none }
    else { j with seg := j.seg.map (fun sg => (sg.1 ++ b, sg.2)) }
  | .ask _ => if keepsPending (j.lastE - j.lastS) then j else j.stop
  | .cmd l =>
    if j.prevSingle then
      match j.raw with
      | some r =>
        let r1 := dropNul r
        if l == edit (pieceOf r1) then { j with raw := some (dropNul (r1.drop (pieceOf r1).length)) }
        else { j.stop with bad := "get_char: the text handed out is not the first piece of the bytes typed ahead" :: j.bad }
      | none => j
    else
      match j.seg with
      | some (rx, d) =>
        let d' := d ++ [l]
        if isPrefix d' (lines rx) then { j with seg := some (rx, d') }
        else { j.stop with bad := "typed-ahead after get_char: delivered line is not the next line of what was typed ahead" :: j.bad }
      | none => j
  | .nocmd =>
    if j.prevSingle then j else
      match j.seg with
      | some (rx, d) =>
        if d == lines rx then j
        else { j.stop with bad := "typed-ahead after get_char: nocmd but lines typed ahead are still undelivered" :: j.bad }
      | none => j
  | .cberr => j.stop
  | .errmsg _ => j.stop
  | .closed => j.stop
  | .crash _ => j.stop
  | _ => j

def judgeMode (enabled : Bool) (evs : List Ev) : List String :=
  if enabled then ((evs.foldl judgeModeStep {}).bad).reverse else []

/-- the clause is switched off for cases that poke SINGLE_CHAR directly -/
def modeClauseEnabled (p : Port) (ops : List Op) : Bool :=
  p == .telnet && ops.all (fun op => match op with | .iflagSingle => false | .iflagLine => false | _ => true)

end NV.C13
