/-
C13 — helper lemmas: decoder (copy_chars) level.
-/
import NV.C13.Model
import NV.C13.Spec

namespace NV.C13

open NV.Gen.C13

/-- invariant of the telnet decoder part of an interactive: the sub-negotiation buffer has its declared size,
    `sb_pos` never exceeds `SB_SIZE`, and while a sub-negotiation is open the byte behind the data area is 0
    (it is cleared at IAC SB and data bytes are only stored below `SB_SIZE`).  Outside a sub-negotiation the
    contents are arbitrary (the real structure is not cleared on allocation). -/
structure DecInv (d : Dec) : Prop where
  sbLen : d.sbBuf.length = sbBufSize
  sbPos : d.sbPos ≤ sbSize
  lastZ : (d.ts = tsSB ∨ d.ts = tsSBIAC) → d.sbBuf.getD sbSize 1 = 0

theorem sb_room : sbSize < sbBufSize := by decide

theorem sbSet_ok {d : Dec} {i : Nat} (v : Byte) (h : i < d.sbBuf.length) :
    sbSet d i v = .ok { d with sbBuf := d.sbBuf.set i v } := by
  simp [sbSet, h]

theorem contains_zero_of_getD {l : List Byte} {k i : Nat} (hik : i ≤ k) (h : l.getD k 1 = 0) :
    (l.drop i).contains 0 = true := by
  induction l generalizing k i with
  | nil => simp at h
  | cons a r ih =>
    cases i with
    | zero =>
      cases k with
      | zero => simp at h; simp [h]
      | succ k =>
        simp at h
        have := ih (k := k) (i := 0) (Nat.zero_le _) (by simpa using h)
        simp at this
        simp [this]
    | succ i =>
      cases k with
      | zero => omega
      | succ k =>
        simp at h
        simpa using ih (k := k) (i := i) (by omega) (by simpa using h)


theorem sbCstr_ok {d : Dec} {i : Nat} (hi : i ≤ sbSize) (hz : d.sbBuf.getD sbSize 1 = 0) :
    sbCstr d i = .ok (cstrOf (d.sbBuf.drop i)) := by
  have := contains_zero_of_getD hi hz
  simp only [sbCstr, this, if_true]

theorem getD_set_ne {l : List Byte} {i k : Nat} {v d : Byte} (h : i ≠ k) : (l.set i v).getD k d = l.getD k d := by
  simp [List.getD, h]

theorem getD_set_eq {l : List Byte} {i : Nat} {v d : Byte} (h : i < l.length) : (l.set i v).getD i d = v := by
  simp [List.getD, h]

/-- IAC SE: no access outside `sb_buf`, the decoder returns to the data state, nothing goes to the text -/
theorem sbEnd_ok {d : Dec} (h : DecInv d) (hs : d.ts = tsSB ∨ d.ts = tsSBIAC) :
    ∃ r, sbEnd d = .ok r ∧ DecInv r.d ∧ r.out = [] ∧ r.d.ts = tsDATA ∧ r.d.cr = false ∧ r.d.fl = d.fl := by
  have hlen := h.sbLen
  have hroom := sb_room
  have hp : d.sbPos < d.sbBuf.length := by rw [hlen]; exact Nat.lt_of_le_of_lt h.sbPos sb_room
  have hz : (d.sbBuf.set d.sbPos 0).getD sbSize 1 = 0 := by
    by_cases he : d.sbPos = sbSize
    · rw [he] at hp ⊢; exact getD_set_eq hp
    · rw [getD_set_ne he]; exact h.lastZ hs
  have h5 : ¬ ((d.sbBuf.set d.sbPos 0).length < 5) := by
    simp [hlen, sbBufSize]
  have hc2 := sbCstr_ok (d := { d with sbBuf := d.sbBuf.set d.sbPos 0 }) (i := 2) (by decide) hz
  have hc0 := sbCstr_ok (d := { d with sbBuf := d.sbBuf.set d.sbPos 0 }) (i := 0) (by decide) hz
  have hdone : DecInv { d with sbBuf := d.sbBuf.set d.sbPos 0, ts := tsDATA, cr := false } :=
    ⟨by simp [hlen], h.sbPos, by intro hh; simp [tsDATA, tsSB, tsSBIAC] at hh⟩
  unfold sbEnd
  rw [sbSet_ok _ hp]
  simp only [h5, if_false, hc2, hc0]
  split
  · split
    · exact ⟨_, rfl, hdone, rfl, rfl, rfl, rfl⟩
    · exact ⟨_, rfl, hdone, rfl, rfl, rfl, rfl⟩
  · split
    · exact ⟨_, rfl, hdone, rfl, rfl, rfl, rfl⟩
    · split
      · split
        · split
          · exact ⟨_, rfl, hdone, rfl, rfl, rfl, rfl⟩
          · exact ⟨_, rfl, hdone, rfl, rfl, rfl, rfl⟩
        · split
          · exact ⟨_, rfl, hdone, rfl, rfl, rfl, rfl⟩
          · exact ⟨_, rfl, hdone, rfl, rfl, rfl, rfl⟩
      · exact ⟨_, rfl, hdone, rfl, rfl, rfl, rfl⟩

def renderTok : Tok → List Byte
  | .ch b => [b]
  | .nl => [bSP, bBS, bNUL]

def renderToks (l : List Tok) : List Byte := l.flatMap renderTok

/-- the decoder states the code can reach: a TS_* constant, CR_SEEN only together with TS_DATA -/
def Valid (d : Dec) : Prop :=
  d.ts = tsDATA ∨ (d.cr = false ∧ (d.ts = tsIAC ∨ d.ts = tsWILL ∨ d.ts = tsWONT ∨ d.ts = tsDO ∨ d.ts = tsDONT ∨
    d.ts = tsSB ∨ d.ts = tsSBIAC))

/-- grammar position that a decoder state stands for -/
def modeOf (d : Dec) : Mode :=
  if d.ts = tsDATA then (if d.cr then .cr else .data)
  else if d.ts = tsIAC then .iac
  else if d.ts = tsSB then .sb
  else if d.ts = tsSBIAC then .sbIac
  else .opt

structure StepOK (d : Dec) (b : Byte) (r : CC) : Prop where
  inv : DecInv r.d
  len : r.out.length ≤ 3
  single : r.d.fl.single = d.fl.single
  valid : Valid d → Valid r.d
  sim : Valid d → d.fl.single = false →
    r.out = renderToks (stepTok (modeOf d) b).2 ∧ modeOf r.d = (stepTok (modeOf d) b).1

theorem decInv_ts {d : Dec} (h : DecInv d) (t : Nat) (c : Bool) (f : IFlags) (m : Byte)
    (hz : (t = tsSB ∨ t = tsSBIAC) → d.sbBuf.getD sbSize 1 = 0) :
    DecInv { d with ts := t, cr := c, fl := f, lmMode := m } :=
  ⟨h.sbLen, h.sbPos, hz⟩

theorem ccData_ok {d : Dec} (h : DecInv d) (h0 : d.ts = tsDATA) (b : Byte) :
    ∃ r, ccData d b = .ok r ∧ StepOK d b r := by
  have nz : ∀ c f m, DecInv { d with ts := d.ts, cr := c, fl := f, lmMode := m } := fun c f m =>
    decInv_ts h _ _ _ _ (fun hh => by simp [h0, tsDATA, tsSB, tsSBIAC] at hh)
  unfold ccData
  by_cases hI : b = bIAC
  · refine ⟨_, by simp only [hI, if_true]; rfl, ?_⟩
    refine ⟨decInv_ts h _ _ _ _ (fun hh => by simp [tsIAC, tsSB, tsSBIAC] at hh), by simp, rfl, ?_, ?_⟩
    · intro _; right; simp
    · intro _ _
      simp [modeOf, h0, stepTok, hI, renderToks, tsIAC, tsDATA]
      cases d.cr <;> simp
  · by_cases hC : b = bCR
    · refine ⟨_, by simp only [hI, hC, if_true, if_false]; rfl, ?_⟩
      refine ⟨nz _ _ _, by simp; split <;> simp, rfl, fun _ => Or.inl h0, ?_⟩
      intro _ hs
      have hCI : bCR ≠ bIAC := by decide
      simp [modeOf, h0, stepTok, hC, hCI, renderToks, hs]
      cases d.cr <;> simp
    · simp only [hI, hC, if_false]
      have hv : ∀ c f m, Valid { d with ts := d.ts, cr := c, fl := f, lmMode := m } := fun _ _ _ => Or.inl h0
      by_cases hcr : d.cr = true
      · by_cases hs : d.fl.single = true
        · refine ⟨_, by simp [hcr, hs]; rfl, nz _ _ _, by simp, rfl, fun _ => hv _ _ _, ?_⟩
          intro _ h2; simp [hs] at h2
        · by_cases hL : b = bLF ∨ b = bNUL
          · refine ⟨_, by simp [hcr, hs, hL]; rfl, nz _ _ _, by simp, rfl, fun _ => hv _ _ _, ?_⟩
            intro _ _
            simp [modeOf, h0, stepTok, hI, hC, hL, hcr, renderToks, renderTok]
          · refine ⟨_, by simp [hcr, hs, hL]; rfl, nz _ _ _, by simp, rfl, fun _ => hv _ _ _, ?_⟩
            intro _ _
            simp [modeOf, h0, stepTok, hI, hC, hL, hcr, renderToks]
      · refine ⟨_, by simp [hcr]; rfl, nz _ _ _, by simp, rfl, fun _ => hv _ _ _, ?_⟩
        intro _ _
        simp at hcr
        simp [modeOf, h0, stepTok, hI, hC, hcr, renderToks, renderTok]

theorem stepOK_toData {d : Dec} (h : DecInv d) (b : Byte) (f : IFlags) (m : Byte) (out tx : List Byte) (cbs : List Ev)
    (hlen : out.length ≤ 3) (hs : f.single = d.fl.single)
    (hsim : Valid d → d.fl.single = false →
      out = renderToks (stepTok (modeOf d) b).2 ∧ (stepTok (modeOf d) b).1 = .data) :
    StepOK d b { d := { d with ts := tsDATA, cr := false, fl := f, lmMode := m }, out := out, tx := tx, cbs := cbs } := by
  refine ⟨decInv_ts h _ _ _ _ (fun hh => by simp [tsDATA, tsSB, tsSBIAC] at hh), hlen, hs, fun _ => Or.inl rfl, ?_⟩
  intro hv hs'
  obtain ⟨h1, h2⟩ := hsim hv hs'
  exact ⟨h1, by rw [h2]; simp [modeOf]⟩

theorem stepOK_toState {d : Dec} (h : DecInv d) (b : Byte) (t : Nat) (md : Mode)
    (ht : t = tsIAC ∨ t = tsWILL ∨ t = tsWONT ∨ t = tsDO ∨ t = tsDONT)
    (hmd : modeOf { d with ts := t, cr := false } = md)
    (hsim : Valid d → d.fl.single = false → (stepTok (modeOf d) b) = (md, [])) :
    StepOK d b { d := { d with ts := t, cr := false } } := by
  refine ⟨decInv_ts h _ _ _ _ (fun hh => ?_), by simp, rfl, fun _ => Or.inr ⟨rfl, ?_⟩, ?_⟩
  · rcases ht with rfl | rfl | rfl | rfl | rfl <;> simp [tsIAC, tsWILL, tsWONT, tsDO, tsDONT, tsSB, tsSBIAC] at hh
  · rcases ht with rfl | rfl | rfl | rfl | rfl <;> simp
  · intro hv hs
    rw [hsim hv hs]; exact ⟨by simp [renderToks], hmd⟩

theorem ccIac_ok {d : Dec} (h : DecInv d) (h0 : d.ts = tsIAC) (b : Byte) :
    ∃ r, ccIac d b = .ok r ∧ StepOK d b r := by
  have hm : modeOf d = .iac := by simp [modeOf, h0, tsIAC, tsDATA]
  have e1 : bDO ≠ bIAC := by decide
  unfold ccIac
  by_cases c1 : b = bIAC
  · simp only [c1, if_true]
    exact ⟨_, rfl, stepOK_toData h _ _ _ _ _ _ (by simp) rfl (by intro _ _; simp [hm, stepTok, renderToks, renderTok])⟩
  · simp only [c1, if_false]
    by_cases c2 : b = bDO
    · simp only [c2, if_true]
      exact ⟨_, rfl, stepOK_toState h _ _ .opt (by simp) (by simp [modeOf, tsDO, tsDATA, tsIAC, tsSB, tsSBIAC])
        (by intro _ _; rw [hm]; simp [stepTok]; decide)⟩
    · simp only [c2, if_false]
      by_cases c3 : b = bDONT
      · simp only [c3, if_true]
        exact ⟨_, rfl, stepOK_toState h _ _ .opt (by simp) (by simp [modeOf, tsDONT, tsDATA, tsIAC, tsSB, tsSBIAC])
          (by intro _ _; rw [hm]; simp [stepTok]; decide)⟩
      · simp only [c3, if_false]
        by_cases c4 : b = bWILL
        · simp only [c4, if_true]
          exact ⟨_, rfl, stepOK_toState h _ _ .opt (by simp) (by simp [modeOf, tsWILL, tsDATA, tsIAC, tsSB, tsSBIAC])
            (by intro _ _; rw [hm]; simp [stepTok]; decide)⟩
        · simp only [c4, if_false]
          by_cases c5 : b = bWONT
          · simp only [c5, if_true]
            exact ⟨_, rfl, stepOK_toState h _ _ .opt (by simp) (by simp [modeOf, tsWONT, tsDATA, tsIAC, tsSB, tsSBIAC])
              (by intro _ _; rw [hm]; simp [stepTok]; decide)⟩
          · simp only [c5, if_false]
            have hrest : b ≠ bSB → stepTok .iac b = (.data, []) := by
              intro c; simp [stepTok, c1, c2, c3, c4, c5, c]
            have fin : ∀ tx, b ≠ bSB → ∃ r, (Except.ok { d := { d with ts := tsDATA, cr := false }, tx := tx } : Except String CC) = .ok r ∧
                StepOK d b r := fun tx c =>
              ⟨_, rfl, stepOK_toData h _ _ _ _ _ _ (by simp) rfl (by intro _ _; rw [hm, hrest c]; simp [renderToks])⟩
            by_cases c6 : b = bBREAK
            · rw [if_pos c6]; exact fin _ (by rw [c6]; decide)
            · rw [if_neg c6]
              by_cases c7 : b = bIP
              · rw [if_pos c7]; exact fin _ (by rw [c7]; decide)
              · rw [if_neg c7]
                by_cases c8 : b = bAYT
                · rw [if_pos c8]; exact fin _ (by rw [c8]; decide)
                · rw [if_neg c8]
                  by_cases c9 : b = bAO
                  · rw [if_pos c9]; exact fin _ (by rw [c9]; decide)
                  · rw [if_neg c9]
                    by_cases c10 : b = bSB
                    · simp only [c10, if_true]
                      refine ⟨_, rfl, ⟨⟨by simp [h.sbLen], by simp, fun _ => ?_⟩, by simp, rfl, fun _ => Or.inr ⟨rfl, by simp⟩, ?_⟩⟩
                      · have : sbSize < d.sbBuf.length := by rw [h.sbLen]; exact sb_room
                        simp [List.getD, this]
                      · intro _ _; rw [hm]
                        have e2 : bSB ≠ bIAC := by decide
                        have e3 : ¬ (bSB = bWILL ∨ bSB = bWONT ∨ bSB = bDO ∨ bSB = bDONT) := by decide
                        simp [stepTok, e2, e3, renderToks, modeOf, tsSB, tsDATA, tsIAC]
                    · simp only [c10, if_false]; exact fin [] c10

theorem ccOpt_mode {d : Dec} (hv : Valid d) (ht : d.ts = tsDO ∨ d.ts = tsWILL ∨ d.ts = tsDONT ∨ d.ts = tsWONT) :
    modeOf d = .opt := by
  rcases ht with h | h | h | h <;> simp [modeOf, h, tsDO, tsWILL, tsDONT, tsWONT, tsDATA, tsIAC, tsSB, tsSBIAC]

theorem ccDo_ok {d : Dec} (h : DecInv d) (h0 : d.ts = tsDO) (b : Byte) :
    ∃ r, ccDo d b = .ok r ∧ StepOK d b r := by
  have sim : Valid d → d.fl.single = false →
      ([] : List Byte) = renderToks (stepTok (modeOf d) b).2 ∧ (stepTok (modeOf d) b).1 = .data := by
    intro hv _; rw [ccOpt_mode hv (Or.inl h0)]; simp [stepTok, renderToks]
  unfold ccDo
  split
  · exact ⟨_, rfl, stepOK_toData h _ _ _ _ _ _ (by simp) rfl sim⟩
  · split
    · exact ⟨_, rfl, stepOK_toData h _ _ _ _ _ _ (by simp) rfl sim⟩
    · exact ⟨_, rfl, stepOK_toData h _ _ _ _ _ _ (by simp) rfl sim⟩

theorem ccWill_ok {d : Dec} (h : DecInv d) (h0 : d.ts = tsWILL) (b : Byte) :
    ∃ r, ccWill d b = .ok r ∧ StepOK d b r := by
  have sim : Valid d → d.fl.single = false →
      ([] : List Byte) = renderToks (stepTok (modeOf d) b).2 ∧ (stepTok (modeOf d) b).1 = .data := by
    intro hv _; rw [ccOpt_mode hv (Or.inr (Or.inl h0))]; simp [stepTok, renderToks]
  unfold ccWill
  split
  · exact ⟨_, rfl, stepOK_toData h _ _ _ _ _ _ (by simp) rfl sim⟩
  · split
    · split
      · exact ⟨_, rfl, stepOK_toData h _ _ _ _ _ _ (by simp) rfl sim⟩
      · exact ⟨_, rfl, stepOK_toData h _ _ _ _ _ _ (by simp) rfl sim⟩
    · split
      · exact ⟨_, rfl, stepOK_toData h _ _ _ _ _ _ (by simp) rfl sim⟩
      · exact ⟨_, rfl, stepOK_toData h _ _ _ _ _ _ (by simp) rfl sim⟩

theorem ccDont_ok {d : Dec} (h : DecInv d) (h0 : d.ts = tsDONT) (b : Byte) :
    ∃ r, ccDont d b = .ok r ∧ StepOK d b r := by
  have sim : Valid d → d.fl.single = false →
      ([] : List Byte) = renderToks (stepTok (modeOf d) b).2 ∧ (stepTok (modeOf d) b).1 = .data := by
    intro hv _; rw [ccOpt_mode hv (Or.inr (Or.inr (Or.inl h0)))]; simp [stepTok, renderToks]
  unfold ccDont
  split
  · exact ⟨_, rfl, stepOK_toData h _ _ _ _ _ _ (by simp) rfl sim⟩
  · exact ⟨_, rfl, stepOK_toData h _ _ _ _ _ _ (by simp) rfl sim⟩

theorem ccWont_ok {d : Dec} (h : DecInv d) (h0 : d.ts = tsWONT) (b : Byte) :
    ∃ r, ccWont d b = .ok r ∧ StepOK d b r := by
  have sim : Valid d → d.fl.single = false →
      ([] : List Byte) = renderToks (stepTok (modeOf d) b).2 ∧ (stepTok (modeOf d) b).1 = .data := by
    intro hv _; rw [ccOpt_mode hv (Or.inr (Or.inr (Or.inr h0)))]; simp [stepTok, renderToks]
  unfold ccWont
  split
  · exact ⟨_, rfl, stepOK_toData h _ _ _ _ _ _ (by simp) rfl sim⟩
  · exact ⟨_, rfl, stepOK_toData h _ _ _ _ _ _ (by simp) rfl sim⟩

/-- storing a sub-negotiation byte below SB_SIZE keeps the invariant -/
theorem decInv_store {d : Dec} (h : DecInv d) (hz : d.sbBuf.getD sbSize 1 = 0) (hp : d.sbPos < sbSize) (v : Byte)
    (t : Nat) :
    DecInv { d with ts := t, cr := false, sbBuf := d.sbBuf.set d.sbPos v, sbPos := d.sbPos + 1 } := by
  refine ⟨by simp [h.sbLen], hp, fun _ => ?_⟩
  show (d.sbBuf.set d.sbPos v).getD sbSize 1 = 0
  rw [getD_set_ne (Nat.ne_of_lt hp)]; exact hz

theorem ccSb_ok {d : Dec} (h : DecInv d) (h0 : d.ts = tsSB) (b : Byte) :
    ∃ r, ccSb d b = .ok r ∧ StepOK d b r := by
  have hm : modeOf d = .sb := by simp [modeOf, h0, tsSB, tsDATA, tsIAC]
  have hz := h.lastZ (Or.inl h0)
  have hcr : Valid d → d.cr = false := by
    intro hv; rcases hv with hv | hv
    · rw [h0] at hv; simp [tsSB, tsDATA] at hv
    · exact hv.1
  unfold ccSb
  by_cases c1 : b = bIAC
  · simp only [c1, if_true]
    refine ⟨_, rfl, ⟨decInv_ts h _ _ _ _ (fun _ => hz), by simp, rfl, fun _ => Or.inr ⟨rfl, by simp⟩, ?_⟩⟩
    intro _ _; rw [hm]; simp [stepTok, renderToks, modeOf, tsSBIAC, tsDATA, tsIAC, tsSB]
  · simp only [c1, if_false]
    by_cases c2 : d.sbPos < sbSize
    · have hp : d.sbPos < d.sbBuf.length := by rw [h.sbLen]; exact Nat.lt_trans c2 sb_room
      simp only [c2, if_true, sbSet_ok _ hp]
      refine ⟨_, rfl, ⟨?_, by simp, rfl, fun hv => Or.inr ⟨hcr hv, by simp [h0]⟩, ?_⟩⟩
      · have := decInv_store h hz c2 b d.ts
        refine ⟨this.sbLen, this.sbPos, fun _ => ?_⟩
        show (d.sbBuf.set d.sbPos b).getD sbSize 1 = 0
        rw [getD_set_ne (Nat.ne_of_lt c2)]; exact hz
      · intro hv _; rw [hm]
        simp [stepTok, c1, renderToks, modeOf, h0, tsSB, tsDATA, tsIAC]
    · simp only [c2, if_false]
      refine ⟨_, rfl, ⟨h, by simp, rfl, fun hv => hv, ?_⟩⟩
      intro _ _; rw [hm]; simp [stepTok, c1, renderToks]

theorem ccSbIac_ok {d : Dec} (h : DecInv d) (h0 : d.ts = tsSBIAC) (b : Byte) :
    ∃ r, ccSbIac d b = .ok r ∧ StepOK d b r := by
  have hm : modeOf d = .sbIac := by simp [modeOf, h0, tsSBIAC, tsSB, tsDATA, tsIAC]
  have hz := h.lastZ (Or.inr h0)
  unfold ccSbIac
  by_cases c1 : b = bIAC
  · simp only [c1, if_true]
    by_cases c2 : d.sbPos < sbSize
    · have hp : d.sbPos < d.sbBuf.length := by rw [h.sbLen]; exact Nat.lt_trans c2 sb_room
      have hp' : d.sbPos < ({ d with ts := tsSB, cr := false } : Dec).sbBuf.length := hp
      simp only [c2, if_true, sbSet_ok _ hp']
      refine ⟨_, rfl, ⟨decInv_store h hz c2 _ _, by simp, rfl, fun _ => Or.inr ⟨rfl, by simp⟩, ?_⟩⟩
      intro _ _; rw [hm]; simp [stepTok, renderToks, modeOf, tsSB, tsDATA, tsIAC]
    · simp only [c2, if_false]
      refine ⟨_, rfl, ⟨decInv_ts h _ _ _ _ (fun _ => hz), by simp, rfl, fun _ => Or.inr ⟨rfl, by simp⟩, ?_⟩⟩
      intro _ _; rw [hm]; simp [stepTok, renderToks, modeOf, tsSB, tsDATA, tsIAC]
  · simp only [c1, if_false]
    by_cases c2 : b = bSE
    · simp only [c2, if_true]
      obtain ⟨r, hr, hinv, hout, hts, hcr, hfl⟩ := sbEnd_ok h (Or.inr h0)
      refine ⟨r, hr, ⟨hinv, by simp [hout], by rw [hfl], fun _ => Or.inl hts, ?_⟩⟩
      intro _ _; rw [hm, hout]
      have e : bSE ≠ bIAC := by decide
      simp [stepTok, e, renderToks, modeOf, hts, hcr]
    · simp only [c2, if_false]
      refine ⟨_, rfl, ⟨h, by simp, rfl, fun hv => hv, ?_⟩⟩
      intro _ _; rw [hm]; simp [stepTok, c1, c2, renderToks]

/-- **one byte through copy_chars**: no access outside `sb_buf`, at most three bytes of text, the invariant is kept,
    and (outside single-character mode) the text produced and the next state are those of the framing grammar -/
theorem ccByte_ok {d : Dec} (h : DecInv d) (b : Byte) : ∃ r, ccByte d b = .ok r ∧ StepOK d b r := by
  unfold ccByte
  by_cases c0 : d.ts = tsDATA
  · simp only [c0, if_true]; exact ccData_ok h c0 b
  · by_cases c1 : d.ts = tsSBIAC
    · simp only [c0, c1, if_true, if_false]; exact ccSbIac_ok h c1 b
    · by_cases c2 : d.ts = tsIAC
      · simp only [c0, c1, c2, if_true, if_false]; exact ccIac_ok h c2 b
      · by_cases c3 : d.ts = tsDO
        · simp only [c0, c1, c2, c3, if_true, if_false]; exact ccDo_ok h c3 b
        · by_cases c4 : d.ts = tsWILL
          · simp only [c0, c1, c2, c3, c4, if_true, if_false]; exact ccWill_ok h c4 b
          · by_cases c5 : d.ts = tsDONT
            · simp only [c0, c1, c2, c3, c4, c5, if_true, if_false]; exact ccDont_ok h c5 b
            · by_cases c6 : d.ts = tsWONT
              · simp only [c0, c1, c2, c3, c4, c5, c6, if_true, if_false]; exact ccWont_ok h c6 b
              · by_cases c7 : d.ts = tsSB
                · simp only [c0, c1, c2, c3, c4, c5, c6, c7, if_true, if_false]; exact ccSb_ok h c7 b
                · simp only [c0, c1, c2, c3, c4, c5, c6, c7, if_false]
                  refine ⟨_, rfl, ⟨h, by simp, rfl, fun hv => hv, ?_⟩⟩
                  intro hv _
                  rcases hv with hv | ⟨_, hv⟩
                  · exact absurd hv c0
                  · rcases hv with hv | hv | hv | hv | hv | hv | hv <;> contradiction

end NV.C13
