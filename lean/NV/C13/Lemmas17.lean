/-
C13 — get_char() / input_to() mode switches: set_call, set_telnet_single_char, the end of single-character mode in
call_function_interactive and reframe_single_char_input keep the buffer invariant and the NUL behind the text; the
temporary `tmp[MAX_TEXT]` of reframe_single_char_input is never overrun (the `to + 3 >= MAX_TEXT - 1` test, regenerated
as `reframeNeed` / `reframeReserve`, is sufficient).
-/
import NV.C13.Lemmas14

namespace NV.C13

open NV.Gen.C13

theorem setTelnetSingleChar_inv {d : Dec} (h : DecInv d) (b : Bool) :
    DecInv (setTelnetSingleChar d b).1 ∧ (setTelnetSingleChar d b).1.fl = d.fl := by
  unfold setTelnetSingleChar
  by_cases h1 : (!d.fl.usingTelnet) = true
  · rw [if_pos h1]; exact ⟨h, rfl⟩
  · rw [if_neg h1]
    by_cases h2 : d.fl.usingLinemode = true
    · rw [if_pos h2]; dsimp only; exact ⟨⟨h.sbLen, h.sbPos, h.lastZ⟩, rfl⟩
    · rw [if_neg h2]; exact ⟨h, rfl⟩

theorem tmpPush_ok {acc x : List Byte} (h : acc.length + x.length ≤ MAXT) : tmpPush acc x = .ok (acc ++ x) := by
  unfold tmpPush; rw [if_pos h]

/-- the room test of reframe_single_char_input is sufficient: no write behind `tmp[MAX_TEXT]`, and what it produces
    leaves room for the terminator -/
theorem reframeLoop_len : ∀ (l : List Byte) (sk : Bool) (acc : List Byte), acc.length + 2 ≤ MAXT →
    reframeLoop l sk acc = .ok none ∨ ∃ tmp, reframeLoop l sk acc = .ok (some tmp) ∧ tmp.length + 2 ≤ MAXT := by
  intro l
  induction l with
  | nil =>
    intro sk acc h
    exact Or.inr ⟨acc, by simp only [reframeLoop], h⟩
  | cons c rest ih =>
    intro sk acc h
    -- only what the argument needs (a larger margin in the source keeps the proof valid)
    have hN : 3 ≤ reframeNeed := by decide
    have hR : 1 ≤ reframeReserve := by decide
    cases sk with
    | true => simp only [reframeLoop]; exact ih false acc h
    | false =>
      simp only [reframeLoop]
      by_cases hg : acc.length + reframeNeed ≥ MAXT - reframeReserve
      · rw [if_pos hg]; exact Or.inl rfl
      · rw [if_neg hg]
        by_cases hc : c = bCR
        · rw [if_pos hc]
          by_cases hl : rest.head? = some bLF
          · rw [if_pos hl, tmpPush_ok (by simp only [List.length_cons, List.length_nil]; omega)]
            dsimp only
            exact ih true _ (by simp only [List.length_append, List.length_cons, List.length_nil]; omega)
          · rw [if_neg hl]; exact ih false acc h
        · rw [if_neg hc, tmpPush_ok (by simp only [List.length_cons, List.length_nil]; omega)]
          dsimp only
          exact ih false _ (by simp only [List.length_append, List.length_cons, List.length_nil]; omega)

/-- the store at the end of reframe_single_char_input: `memcpy (ip->text, tmp, to); ip->text[to] = 0; ...` -/
theorem reframe_store {s : S} (h : Inv s) (tmp : List Byte) (ht : tmp.length + 2 ≤ MAXT) :
    ∃ t t2 f, writeAt s.text 0 tmp = .ok t ∧ writeAt t tmp.length [0] = .ok t2 ∧
      setCmdFlag { s with text := t2, tstart := 0, tend := tmp.length } =
        .ok { s with text := t2, tstart := 0, tend := tmp.length, dec := { s.dec with fl := f } } ∧
      f.single = s.dec.fl.single ∧ t2.length = MAXT ∧ t2.getD tmp.length 1 = 0 := by
  have hl := h.textLen
  have hw1 : 0 + tmp.length ≤ s.text.length := by omega
  have e1 := writeAt_ok hw1
  have hl2 := writeAt_length e1
  have hw2 : tmp.length + ([0] : List Byte).length ≤
      (List.take 0 s.text ++ tmp ++ List.drop (0 + tmp.length) s.text).length := by
    rw [hl2]; simp only [List.length_cons, List.length_nil]; omega
  have e2 := writeAt_ok hw2
  have hl3 := writeAt_length e2
  obtain ⟨f, hf, hfs⟩ := setCmdFlag_ok
    { s with text := List.take tmp.length (List.take 0 s.text ++ tmp ++ List.drop (0 + tmp.length) s.text) ++ [0] ++
                List.drop (tmp.length + ([0] : List Byte).length) (List.take 0 s.text ++ tmp ++ List.drop (0 + tmp.length) s.text),
             tstart := 0, tend := tmp.length } (by dsimp only; rw [hl3, hl2]; omega)
  refine ⟨_, _, f, e1, e2, hf, hfs, by rw [hl3, hl2]; exact hl, ?_⟩
  exact getD_write_zero (by rw [hl2]; omega)

/-- **reframe_single_char_input** never leaves `text[]` or `tmp[]`, keeps the buffer invariant and a NUL behind the
    text, whatever is buffered -/
theorem reframe_N {s : S} (h : Inv s) (hn : NulAfter s) :
    ∃ s', reframe s = .ok s' ∧ Inv s' ∧ NulAfter s' ∧ s'.port = s.port ∧ s'.dec.fl.single = s.dec.fl.single ∧
      s'.closed = s.closed := by
  have hl := h.textLen; have hse := h.se; have hem := h.eMax
  unfold reframe
  rw [if_neg (by omega)]
  dsimp only
  by_cases hc : (!(slice s.text s.tstart s.tend).contains bCR) = true
  · rw [if_pos hc]; exact ⟨s, rfl, h, hn, rfl, rfl, rfl⟩
  · rw [if_neg hc]
    rcases reframeLoop_len (slice s.text s.tstart s.tend) false [] (by decide) with h1 | ⟨tmp, h1, h2⟩
    · rw [h1]; exact ⟨s, rfl, h, hn, rfl, rfl, rfl⟩
    · rw [h1]
      dsimp only
      obtain ⟨t, t2, f, e1, e2, e3, hfs, hl3, hz⟩ := reframe_store h tmp h2
      rw [e1]; dsimp only
      rw [e2]; dsimp only
      rw [e3]
      refine ⟨_, rfl, ⟨?_, ?_, ?_, decInv_fl h.dec _⟩, ⟨tmp.length, ?_, ?_, ?_⟩, rfl, hfs, rfl⟩
      · exact hl3
      · dsimp only; omega
      · dsimp only; omega
      · exact Nat.le_refl _
      · dsimp only; rw [hl3]; omega
      · exact hz

/-- set_call() reached from get_char() / input_to() -/
theorem setCall_N {s : S} (h : Inv s) (hn : NulAfter s) (single noecho : Bool) :
    ∃ s' tx, setCall s single noecho = .ok (s', tx) ∧ Inv s' ∧ NulAfter s' ∧ s'.port = s.port ∧ s'.closed = s.closed := by
  unfold setCall
  dsimp only
  cases single with
  | false => exact ⟨s, _, rfl, h, hn, rfl, rfl⟩
  | true =>
    rw [if_pos rfl]
    have hd := (setTelnetSingleChar_inv (d := { s.dec with fl := { s.dec.fl with single := true } })
      (decInv_fl h.dec _) true).1
    obtain ⟨f, hf, _⟩ := setCmdFlag_ok
      { s with dec := (setTelnetSingleChar { s.dec with fl := { s.dec.fl with single := true } } true).1 }
      (by dsimp only; have := h.textLen; have := h.eMax; omega)
    rw [hf]
    exact ⟨_, _, rfl, ⟨h.textLen, h.se, h.eMax, decInv_fl hd _⟩, hn, rfl, rfl⟩

/-- the end of an input_to / get_char in call_function_interactive -/
theorem endInput_N {s : S} (h : Inv s) (hn : NulAfter s) :
    ∃ s' tx, endInput s = .ok (s', tx) ∧ Inv s' ∧ NulAfter s' ∧ s'.port = s.port ∧ s'.closed = s.closed := by
  unfold endInput
  by_cases hs : s.dec.fl.single = true
  · rw [if_pos hs]
    dsimp only
    have hd := (setTelnetSingleChar_inv (d := { s.dec with fl := { s.dec.fl with single := false } })
      (decInv_fl h.dec _) false).1
    obtain ⟨s', e1, i1, n1, p1, _, c1⟩ := reframe_N
      (s := { s with dec := (setTelnetSingleChar { s.dec with fl := { s.dec.fl with single := false } } false).1 })
      ⟨h.textLen, h.se, h.eMax, hd⟩ hn
    rw [e1]
    exact ⟨_, _, rfl, i1, n1, p1, c1⟩
  · rw [if_neg hs]; exact ⟨s, _, rfl, h, hn, rfl, rfl⟩

end NV.C13
