/-
C13 — reads and console lines keep the NUL behind the buffered text (telnet port, console).
-/
import NV.C13.Lemmas13

namespace NV.C13

open NV.Gen.C13

theorem slice_getD (t : List Byte) (a b j : Nat) (d : Byte) (hj : j < b - a) :
    (slice t a b).getD j d = t.getD (a + j) d := by
  simp only [slice, List.getD]
  rw [List.getElem?_take_of_lt hj, List.getElem?_drop]

theorem computeSpace_N {s : S} (h : Inv s) (hn : NulAfter s) (hp : s.port = .telnet) :
    ∃ s1 sp, computeSpace s = .ok (s1, sp) ∧ SpaceOK s s1 sp ∧ NulAfter s1 := by
  obtain ⟨s1, sp, hc, ok⟩ := computeSpace_ok h
  refine ⟨s1, sp, hc, ok, ?_⟩
  have hl := h.textLen; have hse := h.se; have hem := h.eMax
  obtain ⟨k, hk1, hk2, hk3⟩ := hn
  unfold computeSpace at hc
  rw [hp] at hc
  simp only at hc
  rw [if_neg (by omega)] at hc
  split at hc
  · rw [if_neg (by omega), if_neg (by omega)] at hc
    have hsl : (slice s.text s.tstart (s.tend + 1)).length = s.tend + 1 - s.tstart := slice_length _ _ _ (by omega)
    have hw : 0 + (slice s.text s.tstart (s.tend + 1)).length ≤ s.text.length := by omega
    rw [writeAt_ok hw] at hc
    simp only at hc
    rw [if_neg (by omega)] at hc
    have hlen' := writeAt_length (writeAt_ok hw)
    -- a NUL at or behind the new text_end, whichever branch follows
    have hnul : ∃ k', s.tend - s.tstart ≤ k' ∧
        k' < (List.take 0 s.text ++ slice s.text s.tstart (s.tend + 1) ++
          List.drop (0 + (slice s.text s.tstart (s.tend + 1)).length) s.text).length ∧
        (List.take 0 s.text ++ slice s.text s.tstart (s.tend + 1) ++
          List.drop (0 + (slice s.text s.tstart (s.tend + 1)).length) s.text).getD k' 1 = 0 := by
      by_cases hkt : k = s.tend
      · refine ⟨s.tend - s.tstart, Nat.le_refl _, by rw [hlen']; omega, ?_⟩
        have := getD_write_in (t := s.text) (x := slice s.text s.tstart (s.tend + 1)) (i := 0) (j := s.tend - s.tstart) 1 hw
          (by rw [hsl]; omega)
        simp only [Nat.zero_add] at this ⊢
        rw [this, slice_getD _ _ _ _ _ (by omega)]
        have : s.tstart + (s.tend - s.tstart) = k := by omega
        rw [this]; exact hk3
      · have hkk := keepHi (t := s.text) (i := 0) (x := slice s.text s.tstart (s.tend + 1)) hk3 (by rw [hsl]; omega) hk2
        exact ⟨k, by omega, hkk.2, hkk.1⟩
    obtain ⟨k', hk1', hk2', hk3'⟩ := hnul
    split at hc
    · injection hc with hc; injection hc with hc1 _
      rw [← hc1]
      exact ⟨k', Nat.zero_le _, hk2', hk3'⟩
    · injection hc with hc; injection hc with hc1 _
      rw [← hc1]
      exact ⟨k', hk1', hk2', hk3'⟩
  · injection hc with hc; injection hc with hc1 _
    rw [← hc1]
    exact ⟨k, hk1, hk2, hk3⟩

/-- get_user_data on a telnet port keeps the NUL behind the text (every oracle, every iflags) -/
theorem getUserData_N (o : Oracle) {s : S} (h : Inv s) (hn : NulAfter s) (hp : s.port = .telnet) :
    ∃ s' evs, getUserData o s = .ok (s', evs) ∧ Inv s' ∧ NulAfter s' ∧ s'.port = .telnet ∧
      s'.dec.fl.single = s.dec.fl.single := by
  obtain ⟨s1, sp, hcs, ok, n1⟩ := computeSpace_N h hn hp
  unfold getUserData
  rw [if_neg (by rw [hp]; decide), hcs]
  dsimp only
  have hp1 : s1.port = .telnet := by rw [ok.port]; exact hp
  obtain ⟨k, hk1, hk2, hk3⟩ := n1
  split
  · exact ⟨_, _, rfl, ok.inv, ⟨k, hk1, hk2, hk3⟩, hp1, by rw [ok.dec]⟩
  · split
    · exact ⟨_, _, rfl, ⟨ok.inv.textLen, ok.inv.se, ok.inv.eMax, ok.inv.dec⟩, ⟨k, hk1, hk2, hk3⟩, hp1, by dsimp only; rw [ok.dec]⟩
    · have htake : (s1.sock.take sp).length ≤ sp := by simp; omega
      have hroomA := ok.roomA
      rw [if_neg (by omega)]
      have hl1 := ok.inv.textLen
      have hse1 := ok.inv.se
      rw [hp1]
      dsimp only
      obtain ⟨r, n', dead, hr, hnd⟩ := copyCharsO_ok o ok.inv.dec s1.cbCount (s1.sock.take sp)
      rw [hr]
      dsimp only
      cases dead with
      | true =>
        simp only [if_true]
        exact ⟨_, _, rfl, ⟨hl1, hse1, ok.inv.eMax, ok.inv.dec⟩, ⟨k, hk1, hk2, hk3⟩, rfl, by dsimp only; rw [ok.dec]⟩
      | false =>
        simp only [Bool.false_eq_true, if_false]
        obtain ⟨r0, hr0, ed, eo, _⟩ := hnd rfl
        obtain ⟨r0', hr0', ck⟩ := copyChars_ok ok.inv.dec (s1.sock.take sp)
        rw [hr0] at hr0'; injection hr0' with hr0'; subst hr0'
        have hroomT := ok.roomT hp
        have hout := ck.len
        rw [← eo] at hout
        have hw1 : s1.tend + r.out.length ≤ s1.text.length := by omega
        rw [writeAt_ok hw1]
        dsimp only
        have hl2 := writeAt_length (writeAt_ok hw1)
        have hw2 : s1.tend + r.out.length + ([0] : List Byte).length ≤
            (List.take s1.tend s1.text ++ r.out ++ List.drop (s1.tend + r.out.length) s1.text).length := by
          rw [hl2]; simp; omega
        rw [writeAt_ok hw2]
        dsimp only
        have hl3 := writeAt_length (writeAt_ok hw2)
        obtain ⟨f, hf, hfs⟩ := setCmdFlag_ok
          { s1 with port := Port.telnet, sock := List.drop sp s1.sock,
                    text := List.take (s1.tend + r.out.length) (List.take s1.tend s1.text ++ r.out ++ List.drop (s1.tend + r.out.length) s1.text) ++ [0] ++
                      List.drop (s1.tend + r.out.length + ([0] : List Byte).length) (List.take s1.tend s1.text ++ r.out ++ List.drop (s1.tend + r.out.length) s1.text),
                    tend := s1.tend + r.out.length, dec := r.d, cbCount := n' }
          (by dsimp only; rw [hl3, hl2]; omega)
        rw [hf]
        refine ⟨_, _, rfl, ⟨?_, ?_, ?_, decInv_fl (by rw [ed]; exact ck.inv) f⟩, ?_, rfl, ?_⟩
        · dsimp only; rw [hl3, hl2]; exact hl1
        · dsimp only; omega
        · dsimp only; omega
        · exact nulAfter_write_term (by rw [hl2]; omega) _ _ _ _ _ _
        · dsimp only; dsimp only at hfs; rw [hfs, ed, ck.single, ok.dec]

theorem consoleMakeRoom_N {s : S} (h : Inv s) (hn : NulAfter s) (len : Nat) :
    ∃ s1, consoleMakeRoom s len = .ok s1 ∧ Inv s1 ∧ NulAfter s1 ∧ s1.dec = s.dec ∧ s1.port = s.port := by
  obtain ⟨k, hk1, hk2, hk3⟩ := hn
  unfold consoleMakeRoom
  split
  · obtain ⟨c, hc⟩ := cmdInBuf_ok s (by have := h.eMax; have := h.textLen; omega)
    rw [hc]
    cases c
    · simp only [Bool.false_eq_true, if_false]
      exact ⟨_, rfl, ⟨h.textLen, Nat.le_refl _, by dsimp only; decide, h.dec⟩, ⟨k, Nat.zero_le _, hk2, hk3⟩, rfl, rfl⟩
    · simp only [if_true]
      exact ⟨_, rfl, h, ⟨k, hk1, hk2, hk3⟩, rfl, rfl⟩
  · exact ⟨_, rfl, h, ⟨k, hk1, hk2, hk3⟩, rfl, rfl⟩

/-- add_console_line keeps the NUL behind the text -/
theorem addConsoleLine_N {s : S} (h0 : Inv s) (hn : NulAfter s) (bytes : List Byte) :
    ∃ s', addConsoleLine s bytes = .ok s' ∧ Inv s' ∧ NulAfter s' ∧ s'.dec.fl.single = s.dec.fl.single ∧
      s'.port = s.port := by
  unfold addConsoleLine
  dsimp only
  split
  · exact ⟨_, rfl, h0, hn, rfl, rfl⟩
  obtain ⟨s1, e1, h, n1, d1, p1⟩ := consoleMakeRoom_N h0 hn bytes.length
  rw [e1]
  dsimp only
  rw [← d1, ← p1]
  split
  · exact ⟨_, rfl, h, n1, rfl, rfl⟩
  · rename_i hc
    have hl := h.textLen
    have hw1 : s1.tend + (bytes.map (fun b => if b = bLF ∨ b = bCR then bNUL else b)).length ≤ s1.text.length := by
      simp; omega
    rw [writeAt_ok hw1]
    dsimp only
    have hl2 := writeAt_length (writeAt_ok hw1)
    have hw2 : s1.tend + bytes.length + ([0] : List Byte).length ≤
        (List.take s1.tend s1.text ++ bytes.map (fun b => if b = bLF ∨ b = bCR then bNUL else b) ++
          List.drop (s1.tend + (bytes.map (fun b => if b = bLF ∨ b = bCR then bNUL else b)).length) s1.text).length := by
      rw [hl2]; simp; omega
    rw [writeAt_ok hw2]
    dsimp only
    have hl3 := writeAt_length (writeAt_ok hw2)
    obtain ⟨f, hf, hfs⟩ := setCmdFlag_ok
      { s1 with text := List.take (s1.tend + bytes.length) (List.take s1.tend s1.text ++ bytes.map (fun b => if b = bLF ∨ b = bCR then bNUL else b) ++
          List.drop (s1.tend + (bytes.map (fun b => if b = bLF ∨ b = bCR then bNUL else b)).length) s1.text) ++ [0] ++
          List.drop (s1.tend + bytes.length + ([0] : List Byte).length) (List.take s1.tend s1.text ++ bytes.map (fun b => if b = bLF ∨ b = bCR then bNUL else b) ++
          List.drop (s1.tend + (bytes.map (fun b => if b = bLF ∨ b = bCR then bNUL else b)).length) s1.text),
                tend := s1.tend + bytes.length }
      (by dsimp only; rw [hl3, hl2]; omega)
    rw [hf]
    refine ⟨_, rfl, ⟨?_, ?_, ?_, decInv_fl h.dec f⟩, ?_, ?_, rfl⟩
    · dsimp only; rw [hl3, hl2]; exact hl
    · dsimp only; have := h.se; omega
    · dsimp only; omega
    · exact nulAfter_write_term (by rw [hl2]; omega) _ _ _ _ _ _
    · dsimp only; exact hfs

end NV.C13
