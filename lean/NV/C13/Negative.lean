/-
C13 — the oracle rejects what it should reject: negative examples for every clause of `judgeEv`
(theorem audit: an oracle that accepts everything makes every "judge = ok" meaningless).
-/
import NV.C13.Spec
import NV.C13.SpecStall
import NV.C13.SpecMode

namespace NV.C13

open NV.Gen.C13

private def a : Byte := 97
private def b : Byte := 98
private def st0 : Ev := .st 0 0 0 0 0

-- memory-safety clauses
example : judgeEv .telnet [.crash "sanitizer ERROR"] ≠ [] := by decide
example : judgeEv .telnet [.st 5 3 0 0 0] ≠ [] := by decide                       -- text_start behind text_end
example : judgeEv .telnet [.st 0 2048 0 0 0] ≠ [] := by decide                    -- text_end = MAX_TEXT
example : judgeEv .ascii [.ask 2048] ≠ [] := by decide                            -- read longer than the buffer
set_option maxRecDepth 100000 in
example : judgeEv .telnet [.rx [a, 13, 10], .cmd (List.replicate 2048 a)] ≠ [] := by decide   -- line longer than buffer

-- framing clauses, telnet
example : judgeEv .telnet [.rx [a, b, 13, 10], .cmd [a]] ≠ [] := by decide        -- wrong line
example : judgeEv .telnet [.rx [a, 13, 10], .cmd [a], .cmd [a]] ≠ [] := by decide -- delivered twice
example : judgeEv .telnet [.rx [a, 13, 10, b, 13, 10], .cmd [b]] ≠ [] := by decide -- out of order / lost
example : judgeEv .telnet [.rx [a, 13, 10], .nocmd] ≠ [] := by decide             -- complete line not delivered
example : judgeEv .telnet [.rx [255, 251, 24, a, 13, 10], .cmd [255, 251, 24, a]] ≠ [] := by decide  -- negotiation in text
example : judgeEv .telnet [.rx [255, 250, 24, 0, b, 255, 240, a, 13, 10], .cmd [b, a]] ≠ [] := by decide -- SB payload in text
example : judgeEv .telnet [.rx [a, b, 8, 13, 10], .cmd [a, b, 8]] ≠ [] := by decide -- editing not applied
example : judgeEv .telnet [.rx [a], .rx [b, 13, 10], .cmd [b]] ≠ [] := by decide  -- segmentation dependent (prefix lost)
example : judgeEv .telnet [.rx [a, 13], .rx [10], .cmd [a], .cmd []] ≠ [] := by decide -- CR | LF split counted twice

-- framing clauses, ascii (exactly once, in order, also around failing callbacks)
example : judgeEv .ascii [.rx [a], st0, .rx [b, 10], .input [b], st0] ≠ [] := by decide          -- partial line lost
example : judgeEv .ascii [.rx [a, 10, b, 10], .input [a], st0] ≠ [] := by decide                  -- line left behind
example : judgeEv .ascii [.rx [a, 10, b, 10], .input [a], .cberr, st0, .rx [10], .input [a], st0] ≠ [] := by decide -- redelivered after an error
example : judgeEv .ascii [.rx [a, 10, b, 10], .input [a], .cberr, st0, .rx [10], .input [], st0] ≠ [] := by decide  -- line lost after an error
example : judgeEv .ascii [.rx [a, 10, b, 10], .input [b], .cberr, st0] ≠ [] := by decide          -- not a prefix

-- binary, connection, console, type-ahead
example : judgeEv .binary [.rx [a, b], .input [a], st0] ≠ [] := by decide
example : judgeEv .binary [.rx [a], .input [a], .input [], st0] ≠ [] := by decide
example : judgeEv .telnet [.closed] ≠ [] := by decide                              -- dropped without a scripted destruct
example : judgeEv .telnet [.closed] true = [] := by decide                         -- ... accepted when scripted
example : judgeEv .console [st0, .cl [a, 10], .nocmd] ≠ [] := by decide            -- accepted blob not delivered
example : judgeEv .console [st0, .cl [a, 10], .cmd [a], .cl [b, 10], .cmd [a]] ≠ [] := by decide
example : judgeEv .telnet [.rx [a, 13, 10], .st 0 1700 0 0 128, .ask 682] ≠ [] := by decide   -- type-ahead discarded

-- and accepts the good versions of the same traces
example : judgeEv .telnet [.rx [a, b, 8, 13, 10], .cmd [a], .nocmd] = [] := by decide
example : judgeEv .ascii [.rx [a, 10, b, 10], .input [a], .cberr, st0, .rx [10], .input [b], .input [], st0] = [] := by decide
example : judgeEv .telnet [.rx [a, 13], .rx [10], .cmd [a], .nocmd] = [] := by decide

/-! stall clause -/
example : judgeStall 10 true [.ask 682, .rx [1, 2, 3], .st 0 3 0 0 0] ≠ [] := by decide
example : judgeStall 3 true [.ask 682, .rx [1, 2, 3], .st 0 3 0 0 0] = [] := by decide
example : judgeStall 10 false [.ask 682, .rx [1, 2, 3]] = [] := by decide
example : judgeStall 10 true [.ask 682, .rx [1, 2, 3], .closed] = [] := by decide

/-! get_char mode-end clause: "y" NUL "a" CR LF "b" CR LF typed ahead in one read, `serve` hands out "y", then the two
    lines must come - losing the second one is flagged, delivering both is accepted -/
def modeTrace (tail : List Ev) : List Ev :=
  [.st 0 0 0 0 0, .setcall true, .st 0 0 0 0 4, .ask 682, .rx [121, 0, 97, 13, 10, 98, 13, 10], .st 0 8 0 0 132,
   .cmd [121], .st 0 8 0 0 128] ++ tail
example : judgeMode true (modeTrace [.cmd [97], .st 4 8 0 0 128, .cmd [98], .st 0 0 0 0 0, .nocmd]) = [] := by decide
example : judgeMode true (modeTrace [.cmd [97], .st 4 8 0 0 0, .nocmd]) ≠ [] := by decide
example : judgeMode true (modeTrace [.cmd [98]]) ≠ [] := by decide
example : judgeMode false (modeTrace [.cmd [98]]) = [] := by decide

end NV.C13
