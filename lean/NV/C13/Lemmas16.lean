/-
C13 — the console end to end: add_console_line + get_user_command deliver `consoleLines` of what was accepted.
-/
import NV.C13.Lemmas15

namespace NV.C13

open NV.Gen.C13

/-- add_console_line's conversion: LF and CR become the command terminator -/
def conv (bytes : List Byte) : List Byte := bytes.map (fun b => if b = bLF ∨ b = bCR then bNUL else b)

theorem conv_append (a b : List Byte) : conv (a ++ b) = conv a ++ conv b := by simp [conv]

theorem consoleLinesAux_eq (cur stream : List Byte) : consoleLinesAux cur stream = cmdsOf cur (conv stream) := by
  induction stream generalizing cur with
  | nil => rfl
  | cons b r ih =>
    have e0 : bNUL = 0 := rfl
    show (if b = bLF ∨ b = bCR ∨ b = bNUL then
            (if cur = [] then consoleLinesAux [] r else edit cur.reverse :: consoleLinesAux [] r)
          else consoleLinesAux (b :: cur) r) = cmdsOf cur ((if b = bLF ∨ b = bCR then bNUL else b) :: conv r)
    by_cases h1 : b = bLF ∨ b = bCR
    · have h2 : b = bLF ∨ b = bCR ∨ b = bNUL := by rcases h1 with h | h <;> simp [h]
      rw [if_pos h2, if_pos h1]
      simp only [cmdsOf, e0, if_true]
      rw [ih []]
    · rw [if_neg h1]
      by_cases h3 : b = 0
      · have h2 : b = bLF ∨ b = bCR ∨ b = bNUL := Or.inr (Or.inr h3)
        rw [if_pos h2]
        simp only [cmdsOf, h3, if_true]
        rw [ih []]
      · have h2 : ¬ (b = bLF ∨ b = bCR ∨ b = bNUL) := by
          intro hh; rcases hh with hh | hh | hh
          · exact h1 (Or.inl hh)
          · exact h1 (Or.inr hh)
          · exact h3 hh
        rw [if_neg h2]
        simp only [cmdsOf, if_neg h3]
        exact ih _

theorem consoleLines_eq_cmdsOf (stream : List Byte) : consoleLines stream = cmdsOf [] (conv stream) :=
  consoleLinesAux_eq [] stream

/-- **one console blob that fits behind `text_end`** (line mode): it is appended, converted, to the pending text -/
theorem console_line_exact {s : S} (h : Inv s) (hns : s.dec.fl.single = false) (b : List Byte)
    (hfit : s.tend + b.length + 1 ≤ MAXT) :
    ∃ s', addConsoleLine s b = .ok s' ∧ Inv s' ∧ s'.port = s.port ∧ pend s' = pend s ++ conv b ∧
      s'.dec.fl.single = false ∧ s'.dec.ts = s.dec.ts ∧ s'.dec.cr = s.dec.cr ∧
      ((hasCmd (pend s) = true → s.dec.fl.cmdInBuf = true) → (hasCmd (pend s') = true → s'.dec.fl.cmdInBuf = true)) := by
  have hl := h.textLen; have hse := h.se; have hem := h.eMax
  unfold addConsoleLine
  dsimp only
  split
  · rename_i h0
    have : b = [] := by simpa using h0
    subst this
    exact ⟨s, rfl, h, rfl, by simp [conv], hns, rfl, rfl, fun hh => hh⟩
  · have hmr : consoleMakeRoom s b.length = .ok s := by
      unfold consoleMakeRoom; rw [if_neg (by omega)]
    rw [hmr]
    dsimp only
    rw [if_neg (by omega)]
    have hw1 : s.tend + (b.map (fun c => if c = bLF ∨ c = bCR then bNUL else c)).length ≤ s.text.length := by
      simp; omega
    rw [writeAt_ok hw1]
    dsimp only
    have hl2 := writeAt_length (writeAt_ok hw1)
    have hw2 : s.tend + b.length + ([0] : List Byte).length ≤
        (List.take s.tend s.text ++ b.map (fun c => if c = bLF ∨ c = bCR then bNUL else c) ++
          List.drop (s.tend + (b.map (fun c => if c = bLF ∨ c = bCR then bNUL else c)).length) s.text).length := by
      rw [hl2]; simp; omega
    rw [writeAt_ok hw2]
    dsimp only
    have hl3 := writeAt_length (writeAt_ok hw2)
    have hcl : (b.map (fun c => if c = bLF ∨ c = bCR then bNUL else c)).length = b.length := by simp
    have hpend' : slice (List.take (s.tend + b.length) (List.take s.tend s.text ++ b.map (fun c => if c = bLF ∨ c = bCR then bNUL else c) ++
          List.drop (s.tend + (b.map (fun c => if c = bLF ∨ c = bCR then bNUL else c)).length) s.text) ++ [0] ++
          List.drop (s.tend + b.length + ([0] : List Byte).length) (List.take s.tend s.text ++ b.map (fun c => if c = bLF ∨ c = bCR then bNUL else c) ++
          List.drop (s.tend + (b.map (fun c => if c = bLF ∨ c = bCR then bNUL else c)).length) s.text))
          s.tstart (s.tend + b.length) = pend s ++ conv b := by
      rw [slice_write_outside (Nat.le_refl _) (by rw [hl2]; omega)]
      have := slice_write_append (t := s.text) (x := b.map (fun c => if c = bLF ∨ c = bCR then bNUL else c)) hse hw1
      have e : s.tend + b.length = s.tend + (b.map (fun c => if c = bLF ∨ c = bCR then bNUL else c)).length := by rw [hcl]
      rw [e]
      exact this
    rw [setCmdFlag_exact (by dsimp only; rw [hl3, hl2]; omega) (by dsimp only; omega) (by dsimp only; exact hns)]
    refine ⟨_, rfl, ⟨?_, ?_, ?_, decInv_fl h.dec _⟩, rfl, hpend', hns, rfl, rfl, ?_⟩
    · dsimp only; rw [hl3, hl2]; exact hl
    · dsimp only; omega
    · dsimp only; omega
    · intro _ hq
      dsimp only
      have : hasCmd (slice (List.take (s.tend + b.length) (List.take s.tend s.text ++ b.map (fun c => if c = bLF ∨ c = bCR then bNUL else c) ++
          List.drop (s.tend + (b.map (fun c => if c = bLF ∨ c = bCR then bNUL else c)).length) s.text) ++ [0] ++
          List.drop (s.tend + b.length + ([0] : List Byte).length) (List.take s.tend s.text ++ b.map (fun c => if c = bLF ∨ c = bCR then bNUL else c) ++
          List.drop (s.tend + (b.map (fun c => if c = bLF ∨ c = bCR then bNUL else c)).length) s.text))
          s.tstart (s.tend + b.length)) = true := hq
      show (s.dec.fl.cmdInBuf || hasCmd _) = true
      rw [show pend _ = _ from rfl] at *
      simp only [pend] at *
      rw [this]; simp

/-- what can happen on the console -/
inductive COp where
  | line (b : List Byte)      -- a blob from the console worker: add_console_line
  | extract                   -- get_user_command

structure CF where
  s : S
  delivered : List (List Byte) := []
  accepted : List Byte := []          -- the blobs taken into the buffer, concatenated
  clean : Bool := true                -- every blob fitted behind text_end; the buffer was never full at an extraction
  lastNone : Bool := false

def cStep (f : CF) : COp → Except String CF
  | .line b =>
    match addConsoleLine f.s b with
    | .error e => .error e
    | .ok s' =>
      .ok { f with s := s', accepted := f.accepted ++ b,
                   clean := f.clean && decide (f.s.tend + b.length + 1 ≤ MAXT), lastNone := false }
  | .extract =>
    match getUserCommand f.s with
    | .error e => .error e
    | .ok (s', r) =>
      .ok { f with s := s', delivered := f.delivered ++ r.toList,
                   clean := f.clean && decide (f.s.tend - f.s.tstart + cutMargin ≤ MAXT), lastNone := r.isNone }

def cRun (f : CF) : List COp → Except String CF
  | [] => .ok f
  | op :: ops => match cStep f op with
    | .error e => .error e
    | .ok f' => cRun f' ops

structure ConsoleK (f : CF) : Prop where
  inv : Inv f.s
  single : f.s.dec.fl.single = false
  cmds : ∀ x, f.delivered ++ cmdsOf [] (pend f.s ++ x) = cmdsOf [] (conv f.accepted ++ x)
  flag : hasCmd (pend f.s) = true → f.s.dec.fl.cmdInBuf = true
  drained : f.lastNone = true → cmdsOf [] (pend f.s) = []

theorem consoleK_init : ConsoleK { s := S.init .console } := by
  have hp : pend (S.init .console) = [] := slice_nil_of_ge _ (Nat.le_refl _)
  refine ⟨init_inv _, rfl, ?_, ?_, fun h => by cases h⟩
  · intro x
    show [] ++ cmdsOf [] (pend (S.init .console) ++ x) = cmdsOf [] (conv [] ++ x)
    rw [hp]; rfl
  · intro h; rw [hp, hasCmd_nil] at h; cases h

theorem consoleK_step {f f' : CF} (op : COp) (k : f.clean = true → ConsoleK f) (h : cStep f op = .ok f') :
    f'.clean = true → ConsoleK f' := by
  intro hc'
  cases op with
  | line b =>
    simp only [cStep] at h
    cases hg : addConsoleLine f.s b with
    | error e => rw [hg] at h; cases h
    | ok s' =>
      rw [hg] at h
      injection h with h; subst h
      simp only [Bool.and_eq_true, decide_eq_true_eq] at hc'
      have k := k hc'.1
      obtain ⟨s2, hg2, i2, _, p2, sg2, _, _, fl2⟩ := console_line_exact k.inv k.single b hc'.2
      rw [hg] at hg2; injection hg2 with hg2; subst hg2
      refine ⟨i2, sg2, ?_, fl2 k.flag, fun hh => by cases hh⟩
      intro x
      show f.delivered ++ cmdsOf [] (pend s' ++ x) = cmdsOf [] (conv (f.accepted ++ b) ++ x)
      rw [p2, conv_append, List.append_assoc, List.append_assoc]
      exact k.cmds (conv b ++ x)
  | extract =>
    simp only [cStep] at h
    cases hg : getUserCommand f.s with
    | error e => rw [hg] at h; cases h
    | ok res =>
      obtain ⟨s', r⟩ := res
      rw [hg] at h
      injection h with h; subst h
      simp only [Bool.and_eq_true, decide_eq_true_eq] at hc'
      have k := k hc'.1
      have hfit : (pend f.s).length + cutMargin ≤ MAXT := by
        rw [pend_length (by have := k.inv.eMax; have := k.inv.textLen; omega)]; exact hc'.2
      obtain ⟨s2, r2, hg2, ex⟩ := extract_exact k.inv k.single hfit
      rw [hg] at hg2
      injection hg2 with hg2
      injection hg2 with e1 e2
      subst e1; subst e2
      refine ⟨ex.inv, ex.single, ?_, ex.flag k.flag, ?_⟩
      · intro x
        show (f.delivered ++ r.toList) ++ cmdsOf [] (pend s' ++ x) = _
        rw [List.append_assoc, ← ex.cmds x]; exact k.cmds x
      · intro hn
        have : r = none := by
          cases r with
          | none => rfl
          | some l => simp at hn
        exact ex.drained k.flag this

theorem consoleK_run (ops : List COp) : ∀ f f', (f.clean = true → ConsoleK f) → cRun f ops = .ok f' →
    (f'.clean = true → ConsoleK f') := by
  induction ops with
  | nil => intro f f' k h; simp only [cRun] at h; injection h with h; subst h; exact k
  | cons op ops ih =>
    intro f f' k h
    simp only [cRun] at h
    cases hs : cStep f op with
    | error e => rw [hs] at h; cases h
    | ok f1 =>
      rw [hs] at h
      exact ih f1 f' (consoleK_step op k hs) h

end NV.C13
