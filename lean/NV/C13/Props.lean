/-
C13 — property theorems (statements; helper lemmas in NV/C13/Lemmas*.lean).

All statements are about the executable model `NV.C13.Model` of src/comm.c as it is after the `fix:` commits of
branch c13, over the constants regenerated into `NV.Gen.C13`.  Quantification is over *every* decoder state /
buffer state satisfying the stated invariant (which the initial state satisfies and every step preserves), every
byte stream and every way of cutting it into reads.
-/
import NV.C13.Lemmas16

namespace NV.C13

open NV.Gen.C13

/-- layout of `ip->state`: the TS_* codes fit under TS_STATE_MASK and TS_CR_SEEN is a bit above the mask, so keeping
    `state & mask` and the CR bit as two components (Model.lean) loses nothing -/
theorem ts_layout :
    tsDATA ≤ tsStateMask ∧ tsIAC ≤ tsStateMask ∧ tsWILL ≤ tsStateMask ∧ tsWONT ≤ tsStateMask ∧ tsDO ≤ tsStateMask ∧
    tsDONT ≤ tsStateMask ∧ tsSB ≤ tsStateMask ∧ tsSBIAC ≤ tsStateMask ∧ tsCrSeen &&& tsStateMask = 0 ∧
    [tsDATA, tsIAC, tsWILL, tsWONT, tsDO, tsDONT, tsSB, tsSBIAC].Nodup := by decide

/-- **tie of the statement order**: the order of the statements of the PORT_ASCII line loop (`text_start` committed and
    the LF overwritten *before* process_input runs; re-validation, reset test, advance, move of the rest after it), of
    add_console_line's checks and of the telnet store, as read from the source text on every run, is the order the
    model implements.  A reordering in the C code changes `NV.Gen.C13` and breaks this obligation. -/
theorem statement_order_tie :
    asciiLoopOrder = asciiLoopOrderModel ∧ consoleCheckOrder = consoleCheckOrderModel ∧
    telnetStoreOrder = telnetStoreOrderModel := by decide

/-- **sb_in_bounds** (array size): the sub-negotiation buffer has room for SB_SIZE data bytes *and* the terminator
    that IAC SE stores at `sb_buf[sb_pos]`.  False before commit "fix: telnet sub-negotiation terminator ..."
    (`sizeof sb_buf == SB_SIZE`); see `Witness.sb_terminator_overflows_exact_array`. -/
theorem sb_array_has_room : sbSize < sbBufSize := by decide

/-- **sb_in_bounds**: from every decoder state satisfying the invariant, for every chunk of bytes, copy_chars
    finishes without any read or write outside `sb_buf` (the only error the model's copy_chars can raise), and
    the invariant (`sb_pos ≤ SB_SIZE`, array size, cleared tail while a sub-negotiation is open) holds again. -/
theorem sb_in_bounds (d : Dec) (h : DecInv d) (chunk : List Byte) :
    ∃ r, copyChars d chunk = .ok r ∧ DecInv r.d :=
  let ⟨r, hr, ok⟩ := copyChars_ok h chunk
  ⟨r, hr, ok.inv⟩

/-- non-vacuity: the state of a fresh connection satisfies the decoder invariant, and so does the state in the
    middle of an over-long sub-negotiation (sb_pos = SB_SIZE) -/
example : DecInv Dec.init := (init_inv .telnet).dec
example : DecInv { Dec.init with ts := tsSB, sbPos := sbSize } :=
  ⟨(init_inv .telnet).dec.sbLen, Nat.le_refl _, fun _ => by decide⟩

/-- **the /3 rule is sufficient**: whatever the decoder state (including CR seen in the previous read), a chunk of
    `n` bytes makes copy_chars store at most `3 n` bytes -/
theorem copy_chars_expansion (d : Dec) (h : DecInv d) (chunk : List Byte) :
    ∃ r, copyChars d chunk = .ok r ∧ r.out.length ≤ 3 * chunk.length :=
  let ⟨r, hr, ok⟩ := copyChars_ok h chunk
  ⟨r, hr, ok.len⟩

/-- the bound is attained: CR pending, then LF -/
example : (copyChars { Dec.init with cr := true } [bLF]).toOption.map (·.out.length) = some 3 := by decide

/-- **buffer_writes_in_bounds** (reads): for every state with `text.length = MAX_TEXT`,
    `0 ≤ text_start ≤ text_end ≤ MAX_TEXT-1` and the decoder invariant — on every port, with any bytes waiting in the
    socket, any decoder state and any iflags — get_user_data (space rule, compaction, discard, recv of at most the
    computed space, copy_chars / PORT_ASCII loop / PORT_BINARY) performs no access outside `text[MAX_TEXT]`, the
    local `buf[MAX_TEXT]` or `sb_buf`, and the invariant holds afterwards.  The same for add_console_line with
    any blob.  (A crash is `Except.error`; the theorem says the result is `.ok`.) -/
theorem buffer_writes_in_bounds (o : Oracle) (s : S) (h : Inv s) :
    (∃ s' evs, getUserData o s = .ok (s', evs) ∧ Inv s') ∧
    (∀ blob, ∃ s', addConsoleLine s blob = .ok s' ∧ Inv s') :=
  ⟨getUserData_ok o h, fun blob => addConsoleLine_ok h blob⟩

/-- non-vacuity: fresh connections satisfy the invariant -/
example (p : Port) : Inv (S.init p) := init_inv p

/-- what is handed to recv() never exceeds the room behind `text_end` (×3 on the telnet port): the numeric core of
    the space rule, over the divisors regenerated from get_user_data -/
theorem space_rule_sufficient (s : S) (h : Inv s) :
    ∃ s' sp, computeSpace s = .ok (s', sp) ∧ Inv s' ∧ (s.port = .telnet → 3 * sp + s'.tend + 1 ≤ MAXT) ∧
      sp + s'.tend + 1 ≤ MAXT ∧ 0 < sp :=
  let ⟨s', sp, hc, ok⟩ := computeSpace_ok h
  ⟨s', sp, hc, ok.inv, ok.roomT, ok.roomA, ok.pos⟩

/-- reads and console blobs in any order, from a fresh connection: never a crash, invariant at the end -/
inductive InOp where
  | send (b : List Byte) | read | line (b : List Byte)

def inStep (o : Oracle) (s : S) : InOp → Except String S
  | .send b => .ok { s with sock := s.sock ++ b }
  | .read => (getUserDataH o s).map (·.1)
  | .line b => addConsoleLine s b

def inRun (o : Oracle) (s : S) : List InOp → Except String S
  | [] => .ok s
  | op :: ops => match inStep o s op with
    | .error e => .error e
    | .ok s' => inRun o s' ops

/-- **overlong_cut_or_discarded_bounded / survives any byte stream** (input side): on every port, for every sequence
    of client sends, read events and console blobs — any bytes, any lengths, any segmentation — the driver never
    accesses memory outside its buffers and the buffered text stays within `text_end ≤ MAX_TEXT-1`
    (over-long input is discarded by get_user_data / dropped by add_console_line, never stored). -/
theorem input_never_overflows (o : Oracle) (p : Port) (ops : List InOp) :
    ∃ s, inRun o (S.init p) ops = .ok s ∧ Inv s := by
  suffices H : ∀ s, Inv s → ∃ s', inRun o s ops = .ok s' ∧ Inv s' from H _ (init_inv p)
  induction ops with
  | nil => intro s h; exact ⟨s, rfl, h⟩
  | cons op ops ih =>
    intro s h
    cases op with
    | send b =>
      exact ih _ ⟨h.textLen, h.se, h.eMax, h.dec⟩
    | read =>
      obtain ⟨s', evs, h1, h2, _⟩ := getUserDataH_ok' o h
      have : inStep o s .read = .ok s' := by simp [inStep, h1, Except.map]
      simp only [inRun, this]; exact ih _ h2
    | line b =>
      obtain ⟨s', h1, h2⟩ := addConsoleLine_ok h b
      simp only [inRun, inStep, h1]; exact ih _ h2

/-- **segmentation_independent** (decoder): for every stream and every segmentation of it into reads, copy_chars
    fed chunk by chunk (state carried in `ip->state`, `sb_buf`, `sb_pos`, iflags) ends in the same state and has
    stored, answered and called back exactly what one call on the whole stream does.  Hence any two segmentations
    agree. -/
theorem segmentation_independent (d : Dec) (stream : List Byte) (chunks₁ chunks₂ : List (List Byte))
    (h₁ : chunks₁.flatten = stream) (h₂ : chunks₂.flatten = stream) :
    feed d chunks₁ = feed d chunks₂ ∧ feed d chunks₁ = copyChars d stream := by
  rw [feed_eq_copyChars, feed_eq_copyChars, h₁, h₂]; exact ⟨rfl, rfl⟩

example : [[1, 2], [3]].flatten = ([1, 2, 3] : List Byte) ∧ [[1], [2, 3]].flatten = ([1, 2, 3] : List Byte) := by decide

/-- **the text that reaches the buffer is the stream's text** : outside single-character mode, from a fresh
    connection, the bytes copy_chars stores for *any* segmentation of `stream` are exactly the rendering of
    `toks .data stream` (text bytes; `' ' '\b' '\0'` per end-of-line) — the framing grammar of Spec.lean, which
    mentions neither reads nor buffers. -/
theorem stored_text_is_stream_text (stream : List Byte) (chunks : List (List Byte)) (h : chunks.flatten = stream) :
    ∃ r, feed Dec.init chunks = .ok r ∧ r.out = renderToks (toks .data stream) := by
  rw [feed_eq_copyChars, h]
  have hi : DecInv Dec.init := (init_inv .telnet).dec
  obtain ⟨r, hr, ok⟩ := copyChars_ok hi stream
  have hv : Valid Dec.init := Or.inl rfl
  obtain ⟨ho, _⟩ := ok.sim hv rfl
  have hm : modeOf Dec.init = .data := by decide
  rw [hm] at ho
  exact ⟨r, hr, ho⟩

/-- **negotiation_never_in_text** (grammar level): read in data position, a complete option negotiation, a complete
    sub-negotiation (payload free of IAC) or a two-byte command contributes no text, whatever follows;
    and every text byte is a byte of the stream (or 255 standing for a doubled IAC). -/
theorem negotiation_never_in_text :
    (∀ c o rest, (c = bWILL ∨ c = bWONT ∨ c = bDO ∨ c = bDONT) → toks .data (bIAC :: c :: o :: rest) = toks .data rest) ∧
    (∀ body rest, (∀ x ∈ body, x ≠ bIAC) → toks .data (bIAC :: bSB :: (body ++ bIAC :: bSE :: rest)) = toks .data rest) ∧
    (∀ x rest, x ≠ bIAC → ¬ (x = bWILL ∨ x = bWONT ∨ x = bDO ∨ x = bDONT) → x ≠ bSB →
      toks .data (bIAC :: x :: rest) = toks .data rest) ∧
    (∀ m stream t, t ∈ toks m stream → t = .nl ∨ ∃ b, t = .ch b ∧ b ∈ stream) :=
  ⟨fun c o rest hc => toks_negotiation c o hc rest, fun body rest hb => toks_subnegotiation body rest hb,
   fun x rest h1 h2 h3 => toks_command x h1 h2 h3 rest, fun m stream t ht => toks_bytes_from_stream m stream t ht⟩

/-- with `stored_text_is_stream_text`: e.g. IAC AYT IAC WILL TTYPE "ab" CR LF stores the text of "ab" CR LF only -/
example : toks .data [bIAC, bAYT, bIAC, bWILL, u8 optTTYPE, 97, 98, bCR, bLF] = [.ch 97, .ch 98, .nl] := by decide
example : lines [bIAC, bAYT, bIAC, bWILL, u8 optTTYPE, 97, 98, bCR, bLF] = [[97, 98]] := by decide

/-- **editing_applied**: telnet_neg (the code: explicit `to <= first` guard, `to -= 1`) computes `edit` (the
    specification: a fold that drops the last character); the `' ' '\b'` pair stored for an end-of-line vanishes;
    a line without backspace/delete is delivered unchanged. -/
theorem editing_applied :
    (∀ raw, telnetNeg raw = edit raw) ∧ (∀ l, edit (l ++ [bSP, bBS]) = edit l) ∧
    (∀ l, (∀ c ∈ l, c ≠ bBS ∧ c ≠ bDEL) → edit l = l) :=
  ⟨telnetNeg_eq_edit, edit_sp_bs, edit_plain⟩

example : telnetNeg [bBS, 97, 98, bBS, bDEL, bDEL, 99] = [99] := by decide

/-- every event the backend can cause on one connection -/
inductive AnyOp where
  | send (b : List Byte) | read | line (b : List Byte) | extract

/-- one event; the delivered line, if any, is returned -/
def anyStep (o : Oracle) (s : S) : AnyOp → Except String (S × Option (List Byte))
  | .send b => .ok ({ s with sock := s.sock ++ b }, none)
  | .read => (getUserDataH o s).map (fun r => (r.1, none))
  | .line b => (addConsoleLine s b).map (fun s' => (s', none))
  | .extract => getUserCommand s

def anyRun (o : Oracle) (s : S) (acc : List (List Byte)) : List AnyOp → Except String (S × List (List Byte))
  | [] => .ok (s, acc)
  | op :: ops => match anyStep o s op with
    | .error e => .error e
    | .ok (s', none) => anyRun o s' acc ops
    | .ok (s', some l) => anyRun o s' (acc ++ [l]) ops

/-- **buffer_writes_in_bounds, every interleaving** (line mode): for every port and every schedule of client sends, read
    events, console blobs and command extractions — any bytes, any segmentation, any interleaving — no step accesses
    memory outside `text[]`, `sb_buf[]`, get_user_data's `buf[]` or get_user_command's `buf[]`; the invariant
    `0 ≤ text_start ≤ text_end ≤ MAX_TEXT-1` holds at the end, and every delivered line is shorter than MAX_TEXT
    (**overlong_cut_or_discarded_bounded**: whatever the client sends, a delivered line has at most MAX_TEXT-1 bytes and
    nothing more is ever buffered). -/
theorem framing_never_crashes (o : Oracle) (p : Port) (ops : List AnyOp) :
    ∃ s delivered, anyRun o (S.init p) [] ops = .ok (s, delivered) ∧ Inv s ∧ ∀ l ∈ delivered, l.length + 1 ≤ MAXT := by
  suffices H : ∀ s acc, Inv s → s.dec.fl.single = false → (∀ l ∈ acc, l.length + 1 ≤ MAXT) →
      ∃ s' d, anyRun o s acc ops = .ok (s', d) ∧ Inv s' ∧ ∀ l ∈ d, l.length + 1 ≤ MAXT from
    H _ [] (init_inv p) rfl (fun l hl => by cases hl)
  induction ops with
  | nil => intro s acc h _ ha; exact ⟨s, acc, rfl, h, ha⟩
  | cons op ops ih =>
    intro s acc h hs ha
    cases op with
    | send b =>
      exact ih _ acc ⟨h.textLen, h.se, h.eMax, h.dec⟩ hs ha
    | read =>
      obtain ⟨s', evs, h1, h2, h3, _, _⟩ := getUserDataH_ok' o h
      have : anyStep o s .read = .ok (s', none) := by simp [anyStep, h1, Except.map]
      simp only [anyRun, this]; exact ih _ acc h2 (by rw [h3]; exact hs) ha
    | line b =>
      obtain ⟨s', h1, h2, h3⟩ := addConsoleLine_ok' h b
      have : anyStep o s (.line b) = .ok (s', none) := by simp [anyStep, h1, Except.map]
      simp only [anyRun, this]; exact ih _ acc h2 (by rw [h3]; exact hs) ha
    | extract =>
      obtain ⟨s', r, h1, h2, h3, h4⟩ := getUserCommand_ok h hs
      have : anyStep o s .extract = .ok (s', r) := h1
      cases r with
      | none => simp only [anyRun, this]; exact ih _ acc h2 h3 ha
      | some l =>
        simp only [anyRun, this]
        refine ih _ (acc ++ [l]) h2 h3 ?_
        intro x hx
        rcases List.mem_append.mp hx with hx | hx
        · exact ha x hx
        · have : x = l := by simpa using hx
          subst this; exact h4 x rfl

/-- **SINGLE_CHAR extraction is memory safe.**  For every state with the buffer invariant and a NUL at or behind
    `text_end` inside the array — both are established by new_interactive and re-established by every function of the
    framing code (`getUserData_N`, `addConsoleLine_N`, this theorem) — get_user_command, in line mode *or* in
    single-character mode (where first_cmd_in_buf returns `text + text_start` without looking for a terminator),
    reads its C string inside `text[]`, writes at most MAX_TEXT bytes to its static buffer, and keeps both. -/
theorem single_char_extraction_safe (s : S) (h : Inv s) (hn : NulAfter s) :
    ∃ s' r, getUserCommand s = .ok (s', r) ∧ Inv s' ∧ NulAfter s' ∧ ∀ l, r = some l → l.length + 1 ≤ MAXT :=
  let ⟨s', r, h1, h2, h3, _, _, h6⟩ := getUserCommand_N h hn
  ⟨s', r, h1, h2, h3, h6⟩

/-- non-vacuity: fresh connections; and the hypothesis is about the NUL the code stores, not about a cleared array:
    a buffer full of 0xA5 except `text[0]` satisfies it -/
example (p : Port) : Inv (S.init p) ∧ NulAfter (S.init p) := ⟨init_inv p, nulAfter_init p⟩
example : NulAfter { S.init .telnet with text := 0 :: List.replicate 5 0xA5 } := ⟨0, Nat.le_refl _, by decide, rfl⟩

/-- **the model run of the case language never reaches a crash outcome** — every port, every oracle (errors,
    destructs), every schedule of sends / reads / extractions / drain and finish loops / console lines, with
    single-character mode switched on at any point: `run` never takes a `crash` branch (out-of-bounds access,
    size wrap-around, C string running off `text[]`), the explicit index check after each step never fires, and
    the final state satisfies the invariant.  This is the judge's `crash` and `index` clauses on model traces. -/
theorem run_never_crashes (p : Port) (o : Oracle) (ops : List Op) (hw : WellFormed p ops) :
    (run p o ops).dead = false ∧ Inv (run p o ops).s :=
  let k := run_rinv p o ops hw
  ⟨k.alive, k.inv⟩

/-! ### the end-to-end clause: delivered command lines = `lines stream`, for every schedule -/

/-- every schedule of client sends, read events and extractions runs to the end (line mode, every port) -/
theorem fRun_never_crashes (o : Oracle) (p : Port) (ops : List FOp) : ∃ f, fRun o { s := S.init p } ops = .ok f := by
  suffices H : ∀ f : F, Inv f.s → f.s.dec.fl.single = false → ∃ f', fRun o f ops = .ok f' from H _ (init_inv p) rfl
  induction ops with
  | nil => intro f _ _; exact ⟨f, rfl⟩
  | cons op ops ih =>
    intro f h hs
    cases op with
    | send b =>
      simp only [fRun, fStep]
      exact ih _ ⟨h.textLen, h.se, h.eMax, h.dec⟩ hs
    | read =>
      obtain ⟨s', evs, h1, h2, h3, _, _⟩ := getUserDataH_ok' o h
      simp only [fRun, fStep, h1]
      exact ih _ h2 (by rw [h3]; exact hs)
    | extract =>
      obtain ⟨s', r, h1, h2, h3, _⟩ := getUserCommand_ok h hs
      simp only [fRun, fStep, h1]
      exact ih _ h2 h3

/-- **segmentation_independent, end to end (telnet port, line mode).**
    Take any schedule `ops` of client sends (any bytes, any chunking), read events and command extractions on a fresh
    telnet connection, and let the run satisfy the explicit side condition (`clean`): at every read the pending,
    not yet extracted text is below the discard threshold of get_user_data OR contains a complete command (then the
    read is held back, fix 57d7cb1) - i.e. `clean` fails only when an unfinished line longer than the threshold is
    pending, which get_user_data discards; and at every extraction the pending text does not fill the buffer.
    Then, whatever the segmentation and the interleaving:
    * the lines delivered so far, followed by the commands still complete in the pending text, are exactly
      `lines received` — the specification applied to the bytes received so far, which knows nothing of reads;
    * `received ++ socket = sent`;
    * after an extraction that returned no command, everything is delivered: `delivered = lines received`. -/
theorem telnet_lines_delivered (o : Oracle) (hnd : NoDest o) (ops : List FOp) (f : F)
    (h : fRun o { s := S.init .telnet } ops = .ok f) (hc : f.clean = true) :
    f.delivered ++ cmdsOf [] (pend f.s) = lines f.received ∧ f.received ++ f.s.sock = f.sent ∧
    (f.lastNone = true → f.delivered = lines f.received) := by
  have k := telnetK_run hnd ops _ f (fun _ => telnetK_init) h hc
  have h0 := k.cmds []
  simp only [List.append_nil] at h0
  rw [← lines_eq_cmdsOf] at h0
  refine ⟨h0, k.sentEq, fun hn => ?_⟩
  rw [k.drained hn, List.append_nil] at h0
  exact h0

/-- non-vacuity: a clean, drained run ("hi" CR LF sent, read, two extractions) -/
example : (fRun (fun _ => .ok) { s := S.init .telnet } [.send [104, 105, 13, 10], .read, .extract, .extract]).toOption.map
    (fun f => (f.clean, f.delivered, f.lastNone, f.s.sock)) = some (true, [[104, 105]], true, []) := by
  set_option maxRecDepth 1000000 in decide

/-- two schedules that send the same bytes — cut into different chunks, read and extracted in different orders —
    and that both end drained with an empty socket deliver the same lines, namely `lines` of the bytes sent -/
theorem telnet_schedule_independent (o₁ o₂ : Oracle) (n₁ : NoDest o₁) (n₂ : NoDest o₂) (ops₁ ops₂ : List FOp) (f₁ f₂ : F)
    (h₁ : fRun o₁ { s := S.init .telnet } ops₁ = .ok f₁) (h₂ : fRun o₂ { s := S.init .telnet } ops₂ = .ok f₂)
    (c₁ : f₁.clean = true) (c₂ : f₂.clean = true) (d₁ : f₁.lastNone = true) (d₂ : f₂.lastNone = true)
    (e₁ : f₁.s.sock = []) (e₂ : f₂.s.sock = []) (hs : f₁.sent = f₂.sent) :
    f₁.delivered = f₂.delivered ∧ f₁.delivered = lines f₁.sent := by
  obtain ⟨_, s1, l1⟩ := telnet_lines_delivered o₁ n₁ ops₁ f₁ h₁ c₁
  obtain ⟨_, s2, l2⟩ := telnet_lines_delivered o₂ n₂ ops₂ f₂ h₂ c₂
  rw [e₁, List.append_nil] at s1
  rw [e₂, List.append_nil] at s2
  rw [l1 d₁, l2 d₂, s1, s2, hs]
  exact ⟨rfl, rfl⟩

/-- **segmentation_independent + exactly-once delivery, end to end (PORT_ASCII), callbacks may fail.**
    `o` answers every process_input call: return normally or raise an LPC error (which unwinds get_user_data to the
    backend's recovery point).  For any schedule of client sends and read events on a fresh ascii connection such
    that at every read the pending text does not fill the buffer (`clean`):
    * every complete line of the stream is handed to process_input exactly once and in order — the lines delivered
      so far (including those whose callback failed), followed by the complete lines still in the buffer, are
      `asciiLines received`; nothing is lost or repeated, because `text_start` is committed past a line before
      its callback runs;
    * unless the last read that got data was left through an error, nothing complete is left over:
      `delivered = asciiLines received`;
    * `received ++ socket = sent`. -/
theorem ascii_lines_delivered (o : Oracle) (hnd : NoDest o) (ops : List FOp) (f : F)
    (h : fRun o { s := S.init .ascii } ops = .ok f) (hc : f.clean = true) :
    (∀ x, asciiLines (f.received ++ x) = f.delivered ++ asciiLinesAux [] (pend f.s ++ x)) ∧
    (f.aborted = false → f.delivered = asciiLines f.received) ∧ f.received ++ f.s.sock = f.sent := by
  have k := asciiK_run hnd ops _ f (fun _ => asciiK_init) h hc
  refine ⟨fun x => (k.lines x).symm, fun ha => ?_, k.sentEq⟩
  have h0 := k.lines []
  simp only [List.append_nil] at h0
  rw [asciiLinesAux_pending (k.fin ha), List.append_nil] at h0
  exact h0

/-- non-vacuity: "one\ntwo\nthr", "ee\n" with the first callback raising an error: `one` is delivered (and fails),
    the read is abandoned; the next read delivers `two`, `three` -/
example : (fRun (fun k => if k = 0 then .err else .ok) { s := S.init .ascii }
      [.send [111, 110, 101, 10, 116, 119, 111, 10, 116, 104, 114], .read, .send [101, 101, 10], .read]).toOption.map
    (fun f => (f.clean, f.aborted, f.delivered, f.s.sock)) =
    some (true, false, [[111, 110, 101], [116, 119, 111], [116, 104, 114, 101, 101]], []) := by
  set_option maxRecDepth 1000000 in decide

/-- **console_lines_delivered** — the console end to end.  For any schedule of console blobs (whatever the console
    worker read at once: several lines, half a line, CR LF split over two blobs) and extractions on a fresh console
    user, such that every blob fitted behind `text_end` and the buffer was never full at an extraction (`clean`):
    the lines delivered so far followed by the commands still complete in the buffer are `consoleLines accepted`
    (pieces ended by LF, CR or NUL, empty ones skipped, edited) — independent of how the input was cut into blobs —
    and after an extraction that returned nothing everything has been delivered. -/
theorem console_lines_delivered (ops : List COp) (f : CF) (h : cRun { s := S.init .console } ops = .ok f)
    (hc : f.clean = true) :
    f.delivered ++ cmdsOf [] (pend f.s) = consoleLines f.accepted ∧
    (f.lastNone = true → f.delivered = consoleLines f.accepted) := by
  have k := consoleK_run ops _ f (fun _ => consoleK_init) h hc
  have h0 := k.cmds []
  simp only [List.append_nil] at h0
  rw [← consoleLines_eq_cmdsOf] at h0
  refine ⟨h0, fun hn => ?_⟩
  rw [k.drained hn, List.append_nil] at h0
  exact h0

/-- non-vacuity: "lo", "ok\nsa", "y\r\n" in three blobs, extraction in between -/
example : (cRun { s := S.init .console } [.line [108, 111], .line [111, 107, 10, 115, 97], .extract,
      .line [121, 13, 10], .extract, .extract]).toOption.map (fun f => (f.clean, f.delivered, f.lastNone)) =
    some (true, [[108, 111, 111, 107], [115, 97, 121]], true) := by
  set_option maxRecDepth 1000000 in decide

end NV.C13
