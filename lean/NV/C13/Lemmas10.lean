/-
C13 — the end-to-end run on a telnet port: every schedule of sends, reads and extractions.
-/
import NV.C13.Lemmas9
import NV.C13.LemmasH

namespace NV.C13

open NV.Gen.C13

/-- what the backend / the client can do to one telnet or ascii connection -/
inductive FOp where
  | send (b : List Byte)      -- the client sends bytes (they wait in the socket)
  | read                      -- one read event: get_user_data
  | extract                   -- one get_user_command with the command turn granted

/-- a run with its observable history -/
structure F where
  s : S
  delivered : List (List Byte) := []   -- lines returned by get_user_command / passed to process_input, in order
  received : List Byte := []           -- bytes handed over by recv(), in order
  sent : List Byte := []               -- bytes the client has sent, in order
  clean : Bool := true                 -- the side condition has held at every step so far
  lastNone : Bool := false             -- the last step was an extraction that returned no command
  aborted : Bool := false              -- the last read was left through an error raised by process_input

/-- the explicit side condition, checked step by step:
    * at a read, the pending text is below the discard threshold of get_user_data
      (`(MAX_TEXT - pending - 1)/3 >= MAX_TEXT/16`, i.e. pending ≤ 1663) or contains a complete command
      (the read is then held back: `getUserDataH`);
    * at an extraction, the pending text does not fill the buffer (pending ≤ MAX_TEXT-2; otherwise
      first_cmd_in_buf cuts the line). -/
def readOK (s : S) : Bool :=
  match s.port with
  | .telnet => keepsPending (s.tend - s.tstart) || hasCmd (pend s)   -- else: an unfinished over-long line is discarded
  | _ => decide (s.tend - s.tstart + asciiReserve + 1 ≤ MAXT)   -- PORT_ASCII: the pending text does not fill the buffer (else: discarded)

def hasAbort (evs : List Ev) : Bool := evs.any (fun e => e == .cberr)

def fStep (o : Oracle) (f : F) : FOp → Except String F
  | .send b => .ok { f with s := { f.s with sock := f.s.sock ++ b }, sent := f.sent ++ b, lastNone := false }
  | .read =>
    match getUserDataH o f.s with
    | .error e => .error e
    | .ok (s', evs) =>
      .ok { f with s := s', received := f.received ++ f.s.sock.take (f.s.sock.length - s'.sock.length),
                   delivered := f.delivered ++ inputsOf evs,
                   clean := f.clean && readOK f.s, lastNone := false,
                   aborted := if f.s.sock.isEmpty then f.aborted else hasAbort evs }
  | .extract =>
    match getUserCommand f.s with
    | .error e => .error e
    | .ok (s', r) =>
      .ok { f with s := s', delivered := f.delivered ++ r.toList,
                   clean := f.clean && decide (f.s.tend - f.s.tstart + cutMargin ≤ MAXT), lastNone := r.isNone }

def fRun (o : Oracle) (f : F) : List FOp → Except String F
  | [] => .ok f
  | op :: ops => match fStep o f op with
    | .error e => .error e
    | .ok f' => fRun o f' ops

theorem take_len_sub_drop (l : List Byte) (n : Nat) : l.take (l.length - (l.drop n).length) = l.take n := by
  rw [List.length_drop]
  by_cases h : n ≤ l.length
  · congr 1; omega
  · rw [List.take_of_length_le (by omega), List.take_of_length_le (by omega)]

theorem modeOf_congr {d d' : Dec} (h1 : d'.ts = d.ts) (h2 : d'.cr = d.cr) : modeOf d' = modeOf d := by
  simp [modeOf, h1, h2]

theorem valid_congr {d d' : Dec} (h1 : d'.ts = d.ts) (h2 : d'.cr = d.cr) (h : Valid d) : Valid d' := by
  unfold Valid at *; rw [h1, h2]; exact h

/-- invariant of a clean telnet run -/
structure TelnetK (f : F) : Prop where
  inv : Inv f.s
  port : f.s.port = .telnet
  single : f.s.dec.fl.single = false
  valid : Valid f.s.dec
  mode : modeOf f.s.dec = modeAfter .data f.received
  /-- delivered lines, then the commands of (pending text ++ any future decoded text), are the commands of
      (decoded text of everything received ++ that future text) -/
  cmds : ∀ x, f.delivered ++ cmdsOf [] (pend f.s ++ x) = cmdsOf [] (renderToks (toks .data f.received) ++ x)
  flag : hasCmd (pend f.s) = true → f.s.dec.fl.cmdInBuf = true
  drained : f.lastNone = true → cmdsOf [] (pend f.s) = []
  sentEq : f.received ++ f.s.sock = f.sent

theorem telnetK_step {o : Oracle} (hnd : NoDest o) {f f' : F} (op : FOp) (k : f.clean = true → TelnetK f)
    (h : fStep o f op = .ok f') :
    f'.clean = true → TelnetK f' := by
  intro hc'
  cases op with
  | send b =>
    simp only [fStep] at h
    injection h with h; subst h
    have k := k hc'
    exact ⟨⟨k.inv.textLen, k.inv.se, k.inv.eMax, k.inv.dec⟩, k.port, k.single, k.valid, k.mode, k.cmds, k.flag,
      (fun hh => by cases hh), by show f.received ++ (f.s.sock ++ b) = f.sent ++ b; rw [← List.append_assoc, k.sentEq]⟩
  | read =>
    simp only [fStep] at h
    cases hg : getUserDataH o f.s with
    | error e => rw [hg] at h; cases h
    | ok res =>
      obtain ⟨s', evs⟩ := res
      rw [hg] at h
      injection h with h; subst h
      simp only [Bool.and_eq_true] at hc'
      have k := k hc'.1
      by_cases hk2 : keepsPending (f.s.tend - f.s.tstart) = true
      rotate_left
      · -- above the discard threshold with a complete command pending: the read is held back, nothing changes
        have hkf : keepsPending (f.s.tend - f.s.tstart) = false := by simpa using hk2
        have hcmd : hasCmd (pend f.s) = true := by
          have := hc'.2; simp only [readOK, k.port, hkf, Bool.false_or] at this; exact this
        have hh := holdRead_true k.inv k.port k.single hkf hcmd
        have hH : getUserDataH o f.s =
            .ok ({ f.s with dec := { f.s.dec with fl := { f.s.dec.fl with cmdInBuf := true } } }, []) := by
          unfold getUserDataH; rw [hh]
        rw [hH] at hg
        injection hg with hg
        injection hg with e1 e2
        subst e1; subst e2
        have e0 : f.s.sock.take (f.s.sock.length - f.s.sock.length) = [] := by simp
        refine ⟨⟨k.inv.textLen, k.inv.se, k.inv.eMax, decInv_fl k.inv.dec _⟩, k.port, k.single,
          valid_congr rfl rfl k.valid, ?_, ?_, fun _ => rfl, (fun hh => by cases hh), ?_⟩
        · show modeOf _ = modeAfter .data (f.received ++ f.s.sock.take (f.s.sock.length - f.s.sock.length))
          rw [e0, List.append_nil]; exact (modeOf_congr rfl rfl).trans k.mode
        · intro x
          show (f.delivered ++ inputsOf []) ++ cmdsOf [] (pend f.s ++ x) =
            cmdsOf [] (renderToks (toks .data (f.received ++ f.s.sock.take (f.s.sock.length - f.s.sock.length))) ++ x)
          rw [e0, List.append_nil]
          show (f.delivered ++ []) ++ _ = _
          rw [List.append_nil]; exact k.cmds x
        · show (f.received ++ f.s.sock.take (f.s.sock.length - f.s.sock.length)) ++ f.s.sock = f.sent
          rw [e0, List.append_nil]; exact k.sentEq
      rw [getUserDataH_keeps o k.inv hk2] at hg
      obtain ⟨s2, evs2, hg2, i2, p2, hev, hcase⟩ := telnet_read_exact hnd k.inv k.port k.single hk2
      rw [hg] at hg2
      injection hg2 with hg2
      injection hg2 with e1 e2
      subst e1; subst e2
      rcases hcase with ⟨hs, hp, hd, hs'⟩ | ⟨n, r, hn, hne, hr, ck, hp, hs', hd⟩
      · -- nothing to read
        refine ⟨i2, p2, by rw [hd]; exact k.single, by rw [hd]; exact k.valid, ?_, ?_, ?_, (fun hh => by cases hh), ?_⟩
        · show modeOf s'.dec = modeAfter .data (f.received ++ _)
          rw [hd, hs]; simpa using k.mode
        · intro x
          show (f.delivered ++ inputsOf evs) ++ cmdsOf [] (pend s' ++ x) = cmdsOf [] (renderToks (toks .data (f.received ++ _)) ++ x)
          rw [hev, hp, hs]; simpa using k.cmds x
        · rw [hp, hd]; exact k.flag
        · show (f.received ++ _) ++ s'.sock = f.sent
          rw [hs', hs]; simpa [hs] using k.sentEq
      · have hsim := ck.sim k.valid k.single
        have hrec : f.s.sock.take (f.s.sock.length - s'.sock.length) = f.s.sock.take n := by
          rw [hs']; exact take_len_sub_drop _ _
        refine ⟨i2, p2, ?_, ?_, ?_, ?_, ?_, (fun hh => by cases hh), ?_⟩
        · rw [hd]; dsimp only; rw [ck.single]; exact k.single
        · rw [hd]; exact valid_congr rfl rfl (ck.valid k.valid)
        · show modeOf s'.dec = modeAfter .data (f.received ++ _)
          rw [hrec, modeAfter_append, ← k.mode, ← hsim.2, hd]; exact modeOf_congr rfl rfl
        · intro x
          show (f.delivered ++ inputsOf evs) ++ cmdsOf [] (pend s' ++ x) = cmdsOf [] (renderToks (toks .data (f.received ++ _)) ++ x)
          rw [hev, hrec, hp, toks_append, renderToks_append, ← k.mode, ← hsim.1, List.append_nil, List.append_assoc, List.append_assoc]
          exact k.cmds (r.out ++ x)
        · intro hh; rw [hd]; dsimp only; rw [hh]; simp
        · show (f.received ++ _) ++ s'.sock = f.sent
          rw [hrec, hs', List.append_assoc, List.take_append_drop]; exact k.sentEq
  | extract =>
    simp only [fStep] at h
    cases hg : getUserCommand f.s with
    | error e => rw [hg] at h; cases h
    | ok res =>
      obtain ⟨s', r⟩ := res
      rw [hg] at h
      injection h with h; subst h
      simp only [Bool.and_eq_true, decide_eq_true_eq] at hc'
      have k := k hc'.1
      have hfit : (pend f.s).length + cutMargin ≤ MAXT := by
        rw [pend_length (by have := k.inv.eMax; have := k.inv.textLen; omega)]; exact hc'.2
      obtain ⟨s2, r2, hg2, ex⟩ := extract_exact k.inv k.single hfit
      rw [hg] at hg2
      injection hg2 with hg2
      injection hg2 with e1 e2
      subst e1; subst e2
      refine ⟨ex.inv, by rw [ex.port]; exact k.port, ex.single, valid_congr ex.ts ex.cr k.valid, ?_, ?_, ex.flag k.flag, ?_,
        by show f.received ++ s'.sock = f.sent; rw [ex.sock]; exact k.sentEq⟩
      · show modeOf s'.dec = _
        rw [modeOf_congr ex.ts ex.cr]; exact k.mode
      · intro x
        show (f.delivered ++ r.toList) ++ cmdsOf [] (pend s' ++ x) = _
        rw [List.append_assoc, ← ex.cmds x]; exact k.cmds x
      · intro hn
        have : r = none := by
          cases r with
          | none => rfl
          | some l => simp at hn
        exact ex.drained k.flag this

theorem telnetK_init : TelnetK { s := S.init .telnet } := by
  refine ⟨init_inv _, rfl, rfl, Or.inl rfl, by decide, ?_, ?_, (fun h => by cases h), rfl⟩
  · intro x
    have : pend (S.init .telnet) = [] := slice_nil_of_ge _ (Nat.le_refl _)
    show [] ++ cmdsOf [] (pend (S.init .telnet) ++ x) = cmdsOf [] (renderToks (toks .data []) ++ x)
    rw [this]; rfl
  · intro h
    have : pend (S.init .telnet) = [] := slice_nil_of_ge _ (Nat.le_refl _)
    rw [this, hasCmd_nil] at h; cases h

theorem telnetK_run {o : Oracle} (hnd : NoDest o) (ops : List FOp) : ∀ f f', (f.clean = true → TelnetK f) →
    fRun o f ops = .ok f' →
    (f'.clean = true → TelnetK f') := by
  induction ops with
  | nil => intro f f' k h; simp only [fRun] at h; injection h with h; subst h; exact k
  | cons op ops ih =>
    intro f f' k h
    simp only [fRun] at h
    cases hs : fStep o f op with
    | error e => rw [hs] at h; cases h
    | ok f1 =>
      rw [hs] at h
      exact ih f1 f' (telnetK_step hnd op k hs) h

end NV.C13
