/-
C13 — helper lemmas: the input buffer (`text`, `text_start`, `text_end`) under get_user_data.
-/
import NV.C13.Lemmas2

namespace NV.C13

open NV.Gen.C13

/-- invariant of an interactive: the buffer has its declared size, `0 ≤ text_start ≤ text_end ≤ MAX_TEXT-1`,
    and the decoder invariant -/
structure Inv (s : S) : Prop where
  textLen : s.text.length = MAXT
  se : s.tstart ≤ s.tend
  eMax : s.tend + 1 ≤ MAXT
  dec : DecInv s.dec

theorem writeAt_ok {t : List Byte} {i : Nat} {b : List Byte} (h : i + b.length ≤ t.length) :
    writeAt t i b = .ok (t.take i ++ b ++ t.drop (i + b.length)) := by
  simp [writeAt, h]

theorem writeAt_length {t t' : List Byte} {i : Nat} {b : List Byte} (h : writeAt t i b = .ok t') :
    t'.length = t.length := by
  unfold writeAt at h
  split at h
  · injection h with h; subst h
    simp; omega
  · cases h

theorem slice_length (t : List Byte) (a b : Nat) (h : b ≤ t.length) : (slice t a b).length = b - a := by
  simp [slice]; omega

theorem init_inv (p : Port) : Inv (S.init p) := by
  refine ⟨?_, Nat.le_refl _, ?_, ?_⟩
  · show (List.replicate textArraySize (0 : Byte)).length = MAXT
    rw [List.length_replicate]; decide
  · show 0 + 1 ≤ MAXT
    decide
  · refine ⟨?_, Nat.zero_le _, fun h => ?_⟩
    · show (List.replicate sbBufSize (0 : Byte)).length = sbBufSize
      rw [List.length_replicate]
    · have : (S.init p).dec.ts = tsDATA := rfl
      rw [this] at h
      simp [tsDATA, tsSB, tsSBIAC] at h

/-- facts about the space get_user_data computes -/
structure SpaceOK (s s' : S) (sp : Nat) : Prop where
  inv : Inv s'
  port : s'.port = s.port
  dec : s'.dec = s.dec
  sock : s'.sock = s.sock
  closed : s'.closed = s.closed
  /-- telnet: three output bytes per input byte and the terminator still fit -/
  roomT : s.port = .telnet → 3 * sp + s'.tend + 1 ≤ MAXT
  /-- other ports: the bytes and the terminator position fit -/
  roomA : sp + s'.tend + 1 ≤ MAXT
  pos : 0 < sp

/-- the tie to the source: the divisors of the space rule as regenerated from get_user_data -/
theorem space_rule_numbers : 3 ≤ spaceDiv ∧ 3 ≤ spaceDiv2 ∧ 3 ≤ discardSpaceDiv ∧ 0 < compactDiv ∧
    1 ≤ asciiReserve ∧ 3 * (MAXT / discardSpaceDiv) + 1 ≤ MAXT ∧ 0 < MAXT / compactDiv ∧
    0 < MAXT / discardSpaceDiv := by
  decide

theorem div_three_le {x k : Nat} (hk : 3 ≤ k) : 3 * (x / k) ≤ x := by
  have h1 : x / k ≤ x / 3 := Nat.div_le_div_left hk (by decide)
  have h2 : 3 * (x / 3) ≤ x := Nat.mul_div_le x 3
  omega

theorem computeSpaceOther_ok {s : S} (h : Inv s) (hp : s.port ≠ .telnet) :
    ∃ s' sp, computeSpaceOther s = .ok (s', sp) ∧ SpaceOK s s' sp := by
  have hlen := h.textLen
  have hse := h.se
  have hem := h.eMax
  have har : asciiReserve = 1 := rfl
  have hM : 2 ≤ MAXT := by decide
  unfold computeSpaceOther
  rw [if_neg (by omega)]
  have hsl : (slice s.text s.tstart s.tend).length = s.tend - s.tstart := slice_length _ _ _ (by omega)
  have hw : 0 + (slice s.text s.tstart s.tend).length ≤ s.text.length := by omega
  have ht : ∃ t, (if s.tstart > 0 then writeAt s.text 0 (slice s.text s.tstart s.tend) else .ok s.text) = .ok t ∧
      t.length = MAXT := by
    split
    · exact ⟨_, writeAt_ok hw, by rw [writeAt_length (writeAt_ok hw)]; exact hlen⟩
    · exact ⟨_, rfl, hlen⟩
  obtain ⟨t, ht1, ht2⟩ := ht
  rw [ht1]
  dsimp only
  rw [if_neg (by omega)]
  split
  · exact ⟨_, _, rfl, ⟨⟨ht2, Nat.le_refl _, by dsimp only; omega, h.dec⟩, rfl, rfl, rfl, rfl, fun hh => absurd hh hp,
      by dsimp only; omega, by omega⟩⟩
  · exact ⟨_, _, rfl, ⟨⟨ht2, Nat.zero_le _, by dsimp only; omega, h.dec⟩, rfl, rfl, rfl, rfl, fun hh => absurd hh hp,
      by dsimp only; omega, by omega⟩⟩

theorem computeSpace_ok {s : S} (h : Inv s) : ∃ s' sp, computeSpace s = .ok (s', sp) ∧ SpaceOK s s' sp := by
  obtain ⟨hd1, hd2, hd3, hc, har, hdisc, hthr, hdpos⟩ := space_rule_numbers
  have hlen := h.textLen
  have hse := h.se
  have hem := h.eMax
  unfold computeSpace
  cases hp : s.port with
  | telnet =>
    simp only
    have c1 : ¬ (s.tend + 1 > MAXT) := by omega
    rw [if_neg c1]
    by_cases c2 : (MAXT - s.tend - 1) / spaceDiv < MAXT / compactDiv
    · simp only [c2, if_true]
      have c3 : ¬ (s.tstart > s.tend) := by omega
      rw [if_neg c3]
      have c4 : ¬ (s.tstart + (s.tend - s.tstart) + 1 > s.text.length) := by omega
      rw [if_neg c4]
      have hsl : (slice s.text s.tstart (s.tend + 1)).length = s.tend + 1 - s.tstart :=
        slice_length _ _ _ (by omega)
      have hw : 0 + (slice s.text s.tstart (s.tend + 1)).length ≤ s.text.length := by omega
      rw [writeAt_ok hw]
      simp only
      have c5 : ¬ (s.tend - s.tstart + 1 > MAXT) := by omega
      rw [if_neg c5]
      have hlen' : (List.take 0 s.text ++ slice s.text s.tstart (s.tend + 1) ++
          List.drop (0 + (slice s.text s.tstart (s.tend + 1)).length) s.text).length = MAXT := by
        rw [← hlen]; exact writeAt_length (writeAt_ok hw)
      by_cases c6 : (MAXT - (s.tend - s.tstart) - 1) / spaceDiv2 < MAXT / compactDiv
      · simp only [c6, if_true]
        exact ⟨_, _, rfl, ⟨⟨hlen', Nat.le_refl _, by dsimp only; omega, h.dec⟩, hp.symm, rfl, rfl, rfl,
          fun _ => by dsimp only; omega, by dsimp only; omega, hdpos⟩⟩
      · simp only [c6, if_false]
        have := div_three_le (x := MAXT - (s.tend - s.tstart) - 1) hd2
        refine ⟨_, _, rfl, ⟨⟨hlen', Nat.zero_le _, by dsimp only; omega, h.dec⟩, hp.symm, rfl, rfl, rfl,
          fun _ => by dsimp only; omega, by dsimp only; omega, by omega⟩⟩
    · simp only [c2, if_false]
      have := div_three_le (x := MAXT - s.tend - 1) hd1
      exact ⟨_, _, rfl, ⟨h, rfl, rfl, rfl, rfl, fun _ => by omega, by omega, by omega⟩⟩
  | ascii => simp only; exact computeSpaceOther_ok h (by rw [hp]; decide)
  | binary => simp only; exact computeSpaceOther_ok h (by rw [hp]; decide)
  | console => simp only; exact computeSpaceOther_ok h (by rw [hp]; decide)

end NV.C13
