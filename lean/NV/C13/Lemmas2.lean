/-
C13 — helper lemmas: copy_chars over chunks (induction over bytes), splitting of chunks.
-/
import NV.C13.Lemmas

namespace NV.C13

open NV.Gen.C13

theorem renderToks_append (a b : List Tok) : renderToks (a ++ b) = renderToks a ++ renderToks b := by
  simp [renderToks]

/-- what copy_chars guarantees for a whole chunk -/
structure ChunkOK (d : Dec) (chunk : List Byte) (r : CC) : Prop where
  inv : DecInv r.d
  len : r.out.length ≤ 3 * chunk.length
  single : r.d.fl.single = d.fl.single
  valid : Valid d → Valid r.d
  sim : Valid d → d.fl.single = false →
    r.out = renderToks (toks (modeOf d) chunk) ∧ modeOf r.d = modeAfter (modeOf d) chunk

theorem copyChars_ok {d : Dec} (h : DecInv d) (chunk : List Byte) :
    ∃ r, copyChars d chunk = .ok r ∧ ChunkOK d chunk r := by
  induction chunk generalizing d with
  | nil =>
    exact ⟨_, rfl, ⟨h, by simp, rfl, fun hv => hv, fun _ _ => by simp [toks, modeAfter, renderToks]⟩⟩
  | cons b rest ih =>
    obtain ⟨r1, hr1, s1⟩ := ccByte_ok h b
    obtain ⟨r2, hr2, s2⟩ := ih s1.inv
    refine ⟨{ d := r2.d, out := r1.out ++ r2.out, tx := r1.tx ++ r2.tx, cbs := r1.cbs ++ r2.cbs },
      by simp only [copyChars, hr1, hr2], ⟨s2.inv, ?_, by rw [s2.single, s1.single], fun hv => s2.valid (s1.valid hv), ?_⟩⟩
    · have := s1.len; have := s2.len
      simp only [List.length_append, List.length_cons]; omega
    · intro hv hs
      obtain ⟨o1, m1⟩ := s1.sim hv hs
      obtain ⟨o2, m2⟩ := s2.sim (s1.valid hv) (by rw [s1.single]; exact hs)
      simp only [toks, modeAfter, renderToks_append]
      show r1.out ++ r2.out = _ ∧ modeOf r2.d = _
      rw [o1, o2, m2, m1]
      exact ⟨rfl, rfl⟩

/-- copy_chars carries its whole state in `ip`: decoding `a ++ b` in one call is decoding `a`, then `b` -/
theorem copyChars_append (d : Dec) (a b : List Byte) :
    copyChars d (a ++ b) =
      match copyChars d a with
      | .error e => .error e
      | .ok r1 =>
        match copyChars r1.d b with
        | .error e => .error e
        | .ok r2 => .ok { d := r2.d, out := r1.out ++ r2.out, tx := r1.tx ++ r2.tx, cbs := r1.cbs ++ r2.cbs } := by
  induction a generalizing d with
  | nil =>
    simp only [List.nil_append, copyChars]
    cases copyChars d b with
    | error e => rfl
    | ok r => simp
  | cons x a ih =>
    simp only [List.cons_append, copyChars]
    cases ccByte d x with
    | error e => rfl
    | ok r0 =>
      simp only [ih]
      cases copyChars r0.d a with
      | error e => rfl
      | ok r1 =>
        simp only
        cases copyChars r1.d b with
        | error e => rfl
        | ok r2 => simp [List.append_assoc]

theorem toks_append (m : Mode) (a b : List Byte) : toks m (a ++ b) = toks m a ++ toks (modeAfter m a) b := by
  induction a generalizing m with
  | nil => simp [toks, modeAfter]
  | cons x a ih => simp [toks, modeAfter, ih, List.append_assoc]

theorem modeAfter_append (m : Mode) (a b : List Byte) : modeAfter m (a ++ b) = modeAfter (modeAfter m a) b := by
  induction a generalizing m with
  | nil => simp [modeAfter]
  | cons x a ih => simp [modeAfter, ih]

/-- copy_chars with the callback oracle: total under the decoder invariant; as long as no callback destructs the
    user it computes exactly what the callback-free `copyChars` computes (state, stored text, replies) -/
theorem copyCharsO_ok (o : Oracle) {d : Dec} (h : DecInv d) (n : Nat) (chunk : List Byte) :
    ∃ r n' dead, copyCharsO o d n chunk = .ok (r, n', dead) ∧
      (dead = false → ∃ r0, copyChars d chunk = .ok r0 ∧ r.d = r0.d ∧ r.out = r0.out ∧ r.tx = r0.tx) := by
  induction chunk generalizing d n with
  | nil => exact ⟨_, _, _, rfl, fun _ => ⟨_, rfl, rfl, rfl, rfl⟩⟩
  | cons b rest ih =>
    obtain ⟨r1, hr1, s1⟩ := ccByte_ok h b
    simp only [copyCharsO, copyChars, hr1]
    split
    · obtain ⟨r2, n2, dead, h2, h3⟩ := ih s1.inv n
      rw [h2]
      refine ⟨_, _, _, rfl, fun hd => ?_⟩
      obtain ⟨r0, e0, e1, e2, e3⟩ := h3 hd
      rw [e0]
      exact ⟨_, rfl, e1, by simp only [e2], by simp only [e3]⟩
    · cases ho : o n with
      | dest => exact ⟨_, _, _, rfl, fun hd => by cases hd⟩
      | ok =>
        obtain ⟨r2, n2, dead, h2, h3⟩ := ih s1.inv (n + 1)
        simp only [h2]
        refine ⟨_, _, _, rfl, fun hd => ?_⟩
        obtain ⟨r0, e0, e1, e2, e3⟩ := h3 hd
        rw [e0]
        exact ⟨_, rfl, e1, by simp only [e2], by simp only [e3]⟩
      | err =>
        obtain ⟨r2, n2, dead, h2, h3⟩ := ih s1.inv (n + 1)
        simp only [h2]
        refine ⟨_, _, _, rfl, fun hd => ?_⟩
        obtain ⟨r0, e0, e1, e2, e3⟩ := h3 hd
        rw [e0]
        exact ⟨_, rfl, e1, by simp only [e2], by simp only [e3]⟩

/-- an oracle whose callbacks never destruct / disconnect the user (they may raise errors) -/
def NoDest (o : Oracle) : Prop := ∀ k, o k ≠ .dest

theorem copyCharsO_nodest {o : Oracle} (hn : NoDest o) (d : Dec) (n : Nat) (chunk : List Byte) :
    ∀ r n' dead, copyCharsO o d n chunk = .ok (r, n', dead) → dead = false := by
  induction chunk generalizing d n with
  | nil => intro r n' dead h; simp only [copyCharsO] at h; injection h with h; injection h with _ h; injection h with _ h; exact h.symm
  | cons b rest ih =>
    intro r n' dead h
    simp only [copyCharsO] at h
    cases hb : ccByte d b with
    | error e => rw [hb] at h; cases h
    | ok r1 =>
      rw [hb] at h
      dsimp only at h
      split at h
      · cases h2 : copyCharsO o r1.d n rest with
        | error e => rw [h2] at h; cases h
        | ok res =>
          obtain ⟨r2, n2, d2⟩ := res
          rw [h2] at h
          injection h with h; injection h with _ h; injection h with _ h
          rw [← h]; exact ih _ _ _ _ _ h2
      · cases ho : o n with
        | dest => exact absurd ho (hn n)
        | ok =>
          rw [ho] at h
          dsimp only at h
          cases h2 : copyCharsO o r1.d (n + 1) rest with
          | error e => rw [h2] at h; cases h
          | ok res =>
            obtain ⟨r2, n2, d2⟩ := res
            rw [h2] at h
            injection h with h; injection h with _ h; injection h with _ h
            rw [← h]; exact ih _ _ _ _ _ h2
        | err =>
          rw [ho] at h
          dsimp only at h
          cases h2 : copyCharsO o r1.d (n + 1) rest with
          | error e => rw [h2] at h; cases h
          | ok res =>
            obtain ⟨r2, n2, d2⟩ := res
            rw [h2] at h
            injection h with h; injection h with _ h; injection h with _ h
            rw [← h]; exact ih _ _ _ _ _ h2

end NV.C13
