/-
C13 — command extraction in every mode (line mode and single-character mode): first_cmd_in_buf, next_cmd_in_buf and
get_user_command keep the buffer invariant *and* the NUL behind the text, and never read a C string off the array.
-/
import NV.C13.Lemmas12

namespace NV.C13

open NV.Gen.C13

theorem keepHi {t x : List Byte} {i k : Nat} (h0 : t.getD k 1 = 0) (hk : i + x.length ≤ k) (hl : k < t.length) :
    (t.take i ++ x ++ t.drop (i + x.length)).getD k 1 = 0 ∧ k < (t.take i ++ x ++ t.drop (i + x.length)).length := by
  refine ⟨by rw [getD_write_hi 1 hk (by omega)]; exact h0, ?_⟩
  rw [writeAt_length (writeAt_ok (by omega))]; exact hl

theorem getD_write_in {t x : List Byte} {i j : Nat} (d : Byte) (hi : i + x.length ≤ t.length) (hj : j < x.length) :
    (t.take i ++ x ++ t.drop (i + x.length)).getD (i + j) d = x.getD j d := by
  have hl : (t.take i).length = i := by simp; omega
  simp only [List.getD, List.append_assoc]
  rw [List.getElem?_append_right (by omega), hl, List.getElem?_append_left (by omega)]
  congr 2; omega

/-- first_cmd_in_buf in every mode -/
theorem firstCmd_N {s : S} (h : Inv s) (hn : NulAfter s) :
    ∃ s1 r, firstCmd s = .ok (s1, r) ∧ Inv s1 ∧ NulAfter s1 ∧ s1.dec = s.dec ∧ s1.port = s.port ∧
      ∀ i, r = some i → i ≤ s1.tend := by
  have hl := h.textLen; have hse := h.se; have hem := h.eMax
  have hM : 4 ≤ MAXT := by decide
  obtain ⟨k, hk1, hk2, hk3⟩ := hn
  have hpl : (pend s).length = s.tend - s.tstart := pend_length (by omega)
  have hzl := dropZ_length_le (pend s)
  have hw0 : 0 + ([0] : List Byte).length ≤ s.text.length := by simp; omega
  unfold firstCmd
  rw [if_neg (by omega), if_neg (by omega)]
  dsimp only
  split
  · rw [writeAt_ok hw0]
    refine ⟨_, _, rfl, ⟨?_, Nat.le_refl _, by dsimp only; omega, h.dec⟩, nulAfter_write_term (by omega) _ _ _ _ _ _, rfl, rfl, fun i hi => by cases hi⟩
    dsimp only; rw [writeAt_length (writeAt_ok hw0)]; exact hl
  · rename_i hst
    have hst' : s.tstart + countZ (pend s) < s.tend := by
      have : s.tstart + countZ (slice s.text s.tstart s.tend) < s.tend := by omega
      exact this
    split
    · -- single character mode: the buffer is returned as it is
      refine ⟨_, _, rfl, ⟨hl, by dsimp only; omega, hem, h.dec⟩, ⟨k, hk1, hk2, hk3⟩, rfl, rfl, ?_⟩
      intro i hi; injection hi with hi; subst hi; dsimp only; omega
    · split
      · refine ⟨_, _, rfl, ⟨hl, by dsimp only; omega, hem, h.dec⟩, ⟨k, hk1, hk2, hk3⟩, rfl, rfl, ?_⟩
        intro i hi; injection hi with hi; subst hi; dsimp only; omega
      · have hd1 : (List.drop (countZ (slice s.text s.tstart s.tend)) (slice s.text s.tstart s.tend)).length
            = s.tend - (s.tstart + countZ (slice s.text s.tstart s.tend)) := by
          rw [List.length_drop, slice_length _ _ _ (by omega)]; omega
        have hw1 : 0 + (List.drop (countZ (slice s.text s.tstart s.tend)) (slice s.text s.tstart s.tend)).length
            ≤ s.text.length := by omega
        rw [writeAt_ok hw1]
        dsimp only
        have hl1 := writeAt_length (writeAt_ok hw1)
        split
        · rename_i hcut
          have hcm : cutMargin = 2 := rfl
          rw [if_neg (by omega)]
          have hw2 : s.tend - (s.tstart + countZ (slice s.text s.tstart s.tend)) - 2 + ([0, 0] : List Byte).length ≤
              (List.take 0 s.text ++ List.drop (countZ (slice s.text s.tstart s.tend)) (slice s.text s.tstart s.tend) ++
                List.drop (0 + (List.drop (countZ (slice s.text s.tstart s.tend)) (slice s.text s.tstart s.tend)).length) s.text).length := by
            rw [hl1]; simp; omega
          rw [writeAt_ok hw2]
          dsimp only
          refine ⟨_, _, rfl, ⟨?_, Nat.zero_le _, by dsimp only; omega, h.dec⟩, ?_, rfl, rfl, ?_⟩
          · dsimp only; rw [writeAt_length (writeAt_ok hw2), hl1]; exact hl
          · refine ⟨s.tend - (s.tstart + countZ (slice s.text s.tstart s.tend)) - 1, Nat.le_refl _, ?_, ?_⟩
            · dsimp only; rw [writeAt_length (writeAt_ok hw2), hl1]; omega
            · dsimp only
              have : s.tend - (s.tstart + countZ (slice s.text s.tstart s.tend)) - 1 =
                  (s.tend - (s.tstart + countZ (slice s.text s.tstart s.tend)) - 2) + 1 := by omega
              rw [this, getD_write_in 1 hw2 (by simp)]
              rfl
          · intro i hi; injection hi with hi; subst hi; exact Nat.zero_le _
        · rename_i hnc
          have hkk := keepHi (t := s.text) (i := 0)
            (x := List.drop (countZ (slice s.text s.tstart s.tend)) (slice s.text s.tstart s.tend)) hk3 (by omega) hk2
          refine ⟨_, _, rfl, ⟨?_, Nat.zero_le _, by dsimp only; omega, h.dec⟩, ⟨k, by dsimp only; omega, hkk.2, hkk.1⟩,
            rfl, rfl, fun i hi => by cases hi⟩
          dsimp only; rw [hl1]; exact hl

/-- next_cmd_in_buf keeps the NUL behind the text -/
theorem nextCmd_N {s : S} (h : Inv s) (hn : NulAfter s) :
    ∃ s', nextCmd s = .ok s' ∧ Inv s' ∧ NulAfter s' ∧ s'.dec = s.dec ∧ s'.port = s.port := by
  have hl := h.textLen; have hse := h.se; have hem := h.eMax
  obtain ⟨k, hk1, hk2, hk3⟩ := hn
  unfold nextCmd
  rw [if_neg (by omega), if_neg (by omega)]
  dsimp only
  split
  · exact ⟨_, rfl, ⟨hl, by dsimp only; omega, hem, h.dec⟩, ⟨k, hk1, hk2, hk3⟩, rfl, rfl⟩
  · have hw0 : 0 + ([0] : List Byte).length ≤ s.text.length := by simp; omega
    rw [writeAt_ok hw0]
    refine ⟨_, rfl, ⟨?_, Nat.le_refl _, by dsimp only; omega, h.dec⟩, ⟨0, Nat.le_refl _, ?_, getD_write_zero (by omega)⟩, rfl, rfl⟩
    · dsimp only; rw [writeAt_length (writeAt_ok hw0)]; exact hl
    · dsimp only; rw [writeAt_length (writeAt_ok hw0)]; omega

theorem nulAfter_fl {s : S} (hn : NulAfter s) (f : IFlags) : NulAfter { s with dec := { s.dec with fl := f } } := hn

/-- **get_user_command in every mode** (line mode or single-character mode, whatever the flags): no array is left —
    in particular the C string handed to telnet_neg ends inside `text[]` — the invariant and the NUL behind the text
    are kept, and the returned line is shorter than MAX_TEXT -/
theorem getUserCommand_N {s : S} (h : Inv s) (hn : NulAfter s) :
    ∃ s' r, getUserCommand s = .ok (s', r) ∧ Inv s' ∧ NulAfter s' ∧ s'.dec.fl.single = s.dec.fl.single ∧
      s'.port = s.port ∧ ∀ l, r = some l → l.length + 1 ≤ MAXT := by
  unfold getUserCommand
  split
  · exact ⟨_, _, rfl, h, hn, rfl, rfl, fun l hl => by cases hl⟩
  · obtain ⟨s1, r, h1, i1, n1, d1, p1, b1⟩ := firstCmd_N h hn
    rw [h1]
    cases r with
    | none =>
      dsimp only
      exact ⟨_, _, rfl, ⟨i1.textLen, i1.se, i1.eMax, decInv_fl i1.dec _⟩, nulAfter_fl n1 _, by dsimp only; rw [d1], p1,
        fun l hl => by cases hl⟩
    | some i =>
      dsimp only
      have hi := b1 i rfl
      obtain ⟨k, hk1, hk2, hk3⟩ := n1
      have hz : (s1.text.drop i).contains 0 = true := mem_drop_of_getD (by omega) hk2 hk3
      rw [cstrAt_ok hz]
      dsimp only
      have hmem : (0 : Byte) ∈ s1.text.drop i := by simpa using hz
      have hlt := cstrOf_length_lt hmem
      have hle := edit_length_le (cstrOf (s1.text.drop i))
      have hdl : (s1.text.drop i).length ≤ MAXT := by rw [List.length_drop, i1.textLen]; omega
      rw [telnetNeg_eq_edit]
      rw [if_neg (by omega)]
      obtain ⟨s2, h2, i2, n2, d2, p2⟩ := nextCmd_N i1 ⟨k, hk1, hk2, hk3⟩
      rw [h2]
      dsimp only
      obtain ⟨c, hc⟩ := cmdInBuf_ok s2 (by have := i2.eMax; have := i2.textLen; omega)
      rw [hc]
      dsimp only
      refine ⟨_, _, rfl, ?_, ?_, ?_, ?_, ?_⟩
      · split
        · exact i2
        · exact ⟨i2.textLen, i2.se, i2.eMax, decInv_fl i2.dec _⟩
      · split
        · exact n2
        · exact nulAfter_fl n2 _
      · split
        · rw [d2, d1]
        · dsimp only; rw [d2, d1]
      · split
        · rw [p2, p1]
        · dsimp only; rw [p2, p1]
      · intro l hl; injection hl with hl; subst hl; omega

end NV.C13
