/-
C13 — the event-emitting run of the case language (`run`, with drain / finish loops and the SINGLE_CHAR switch) never
reaches a crash outcome, on any port, in any mode, for any callback oracle.
-/
import NV.C13.Lemmas14
import NV.C13.Lemmas17

namespace NV.C13

open NV.Gen.C13

/-- what each kind of port relies on: telnet / console — the NUL behind the text (C strings); ascii / binary —
    CMD_IN_BUF is never set, so get_user_command never looks into the buffer -/
structure PortInv (s : S) : Prop where
  nul : s.port = .telnet ∨ s.port = .console → NulAfter s
  noflag : s.port = .ascii ∨ s.port = .binary → s.dec.fl.cmdInBuf = false

structure RInv (p : Port) (r : Run) : Prop where
  alive : r.dead = false
  port : r.s.port = p
  inv : Inv r.s
  pinv : PortInv r.s

theorem afterStep_ok {s : S} (h : Inv s) : afterStep s = [.closed] ∨ afterStep s = [stEv s] := by
  unfold afterStep
  split
  · exact Or.inl rfl
  · rw [if_neg (by have := h.se; have := h.eMax; omega)]; exact Or.inr rfl

theorem add_rinv {p : Port} {r : Run} (hr : r.dead = false) {s : S} (evs : List Ev) (hp : s.port = p) (h : Inv s)
    (hpi : PortInv s) : RInv p (r.add s evs) := by
  refine ⟨?_, hp, h, hpi⟩
  unfold Run.add
  dsimp only
  rcases afterStep_ok h with h1 | h1 <;> rw [h1, hr] <;> rfl

theorem portInv_cases (p : Port) : (p = .telnet ∨ p = .console) ∨ (p = .ascii ∨ p = .binary) := by
  cases p <;> simp

theorem readTail_rinv (o : Oracle) {p : Port} {r : Run} (hr : r.dead = false) {s : S} (evs : List Ev) (hp : s.port = p)
    (h : Inv s) (hpi : PortInv s) : RInv p (readTail o r s evs) := by
  unfold readTail
  split
  · split
    · exact add_rinv hr _ hp h hpi
    · split
      · exact add_rinv hr _ hp h hpi
      · dsimp only
        split
        · exact add_rinv hr _ hp ⟨h.textLen, h.se, h.eMax, h.dec⟩ ⟨hpi.nul, hpi.noflag⟩
        · exact add_rinv hr _ hp ⟨h.textLen, h.se, h.eMax, h.dec⟩ ⟨hpi.nul, hpi.noflag⟩
        · exact add_rinv hr _ hp ⟨h.textLen, h.se, h.eMax, h.dec⟩ ⟨hpi.nul, hpi.noflag⟩
  · exact add_rinv hr _ hp h hpi

theorem doRead_rinv (o : Oracle) {p : Port} {r : Run} (k : RInv p r) : RInv p (doRead o r) := by
  unfold doRead
  split
  · exact k
  · rcases getUserDataH_cases o k.inv with ⟨hh, hpt, _⟩ | ⟨hh, _⟩
    · rw [hh]
      exact readTail_rinv o k.alive [] k.port ⟨k.inv.textLen, k.inv.se, k.inv.eMax, decInv_fl k.inv.dec _⟩
        ⟨fun hn => nulAfter_fl (k.pinv.nul hn) _, fun hn => by
          have : r.s.port = .ascii ∨ r.s.port = .binary := hn
          rw [hpt] at this; simp at this⟩
    rw [hh]
    rcases portInv_cases p with hp | hp
    · rcases hp with hp | hp
      · -- telnet
        obtain ⟨s', evs, h1, h2, h3, h4, _⟩ := getUserData_N o k.inv (k.pinv.nul (Or.inl (k.port.trans hp))) (k.port.trans hp)
        rw [h1]
        exact readTail_rinv o k.alive evs (h4.trans hp.symm) h2 ⟨fun _ => h3, fun hh => by rw [h4] at hh; simp at hh⟩
      · -- console: get_user_data refuses
        have : getUserData o r.s = .ok (r.s, []) := by
          unfold getUserData; rw [if_pos (by rw [k.port, hp]; rfl)]
        rw [this]
        exact readTail_rinv o k.alive [] k.port k.inv k.pinv
    · obtain ⟨s', evs, h1, h2, _, h4, h5⟩ := getUserData_ok' o k.inv
      rw [h1]
      have hnt : r.s.port ≠ .telnet := by rw [k.port]; rcases hp with hp | hp <;> rw [hp] <;> decide
      refine readTail_rinv o k.alive evs (h4.trans k.port) h2 ⟨fun hh => ?_, fun _ => ?_⟩
      · rw [h4, k.port] at hh; rcases hp with hp | hp <;> rw [hp] at hh <;> simp at hh
      · rw [h5 hnt]; exact k.pinv.noflag (by rw [k.port]; exact hp)

theorem doExtract_rinv {p : Port} {r : Run} (k : RInv p r) : RInv p (doExtract r).1 := by
  unfold doExtract
  split
  · exact k
  · rcases portInv_cases p with hp | hp
    · obtain ⟨s', rr, h1, h2, h3, _, h5, _⟩ := getUserCommand_N k.inv (k.pinv.nul (by rw [k.port]; exact hp))
      rw [h1]
      have hpi : PortInv s' := ⟨fun _ => h3, fun hh => by
        rw [h5, k.port] at hh; rcases hp with hp | hp <;> rw [hp] at hh <;> simp at hh⟩
      cases rr with
      | none => exact add_rinv k.alive _ (h5.trans k.port) h2 hpi
      | some l => exact add_rinv (r := { r with noEcho := false }) k.alive _ (h5.trans k.port) h2 hpi
    · have : getUserCommand r.s = .ok (r.s, none) := by
        unfold getUserCommand; rw [k.pinv.noflag (by rw [k.port]; exact hp)]; rfl
      rw [this]
      exact add_rinv k.alive _ k.port k.inv k.pinv

theorem drainLoop_rinv {p : Port} (fuel : Nat) {r : Run} (k : RInv p r) : RInv p (drainLoop fuel r) := by
  induction fuel generalizing r with
  | zero => exact k
  | succ n ih =>
    unfold drainLoop
    have := doExtract_rinv k
    cases hd : doExtract r with
    | mk r' got =>
      rw [hd] at this
      dsimp only
      split
      · exact ih this
      · exact this

theorem finishLoop_rinv (o : Oracle) {p : Port} (fuel : Nat) {r : Run} (k : RInv p r) : RInv p (finishLoop o fuel r) := by
  induction fuel generalizing r with
  | zero => exact k
  | succ n ih =>
    unfold finishLoop
    split
    · exact k
    · exact ih (drainLoop_rinv 5000 (doRead_rinv o k))

theorem doServe_rinv {p : Port} {r : Run} (k : RInv p r) (hp : p = .telnet) : RInv p (doServe r) := by
  unfold doServe
  split
  · exact k
  · obtain ⟨s', rr, h1, h2, h3, _, h5, _⟩ := getUserCommand_N k.inv (k.pinv.nul (by rw [k.port]; exact Or.inl hp))
    rw [h1]
    have hpt : s'.port = .telnet := h5.trans (k.port.trans hp)
    have hpi : ∀ s2 : S, s2.port = .telnet → NulAfter s2 → PortInv s2 := fun s2 e n =>
      ⟨fun _ => n, fun hh => by rw [e] at hh; simp at hh⟩
    cases rr with
    | none => exact add_rinv k.alive _ (h5.trans k.port) h2 (hpi _ hpt h3)
    | some l =>
      dsimp only
      split
      · obtain ⟨s2, tx, e1, i2, n2, p2, _⟩ := endInput_N h2 h3
        rw [e1]
        exact add_rinv (r := { r with noEcho := false, inputTo := false }) k.alive _ ((p2.trans hpt).trans hp.symm) i2
          (hpi _ (p2.trans hpt) n2)
      · exact add_rinv (r := { r with noEcho := false }) k.alive _ (h5.trans k.port) h2 (hpi _ hpt h3)

theorem doSetCall_rinv {p : Port} {r : Run} (k : RInv p r) (hp : p = .telnet) (single noecho : Bool) :
    RInv p (doSetCall r single noecho) := by
  unfold doSetCall
  split
  · exact k
  · split
    · exact add_rinv k.alive _ k.port k.inv k.pinv
    · obtain ⟨s', tx, e1, i1, n1, p1, _⟩ := setCall_N k.inv (k.pinv.nul (by rw [k.port]; exact Or.inl hp)) single noecho
      rw [e1]
      exact add_rinv (r := { r with inputTo := true, noEcho := r.noEcho || noecho }) k.alive _ (p1.trans k.port) i1
        ⟨fun _ => n1, fun hh => by rw [p1, k.port, hp] at hh; simp at hh⟩

theorem doLine_rinv {p : Port} {r : Run} (k : RInv p r) (hp : p = .console) (b : List Byte) : RInv p (doLine r b) := by
  unfold doLine
  split
  · exact k
  · obtain ⟨s', h1, h2, h3, _, h5⟩ := addConsoleLine_N k.inv (k.pinv.nul (Or.inr (k.port.trans hp))) b
    rw [h1]
    exact add_rinv k.alive _ (h5.trans k.port) h2 ⟨fun _ => h3, fun hh => by
      rw [h5, k.port, hp] at hh; simp at hh⟩

theorem workerChunks_len : ∀ (fuel : Nat) (data : List Byte), ∀ c ∈ workerChunks fuel data,
    c.length ≤ consoleMaxLine - consoleReadReserve := by
  intro fuel
  induction fuel with
  | zero => intro data c hc; simp [workerChunks] at hc
  | succ n ih =>
    intro data c hc
    unfold workerChunks at hc
    split at hc
    · cases hc
    · rcases List.mem_cons.mp hc with h | h
      · rw [h, List.length_take]; exact Nat.min_le_left _ _
      · exact ih _ c h

theorem doLineW_rinv {p : Port} {r : Run} (k : RInv p r) (hp : p = .console) (c : List Byte)
    (hc : c.length ≤ consoleMaxLine - consoleReadReserve) : RInv p (doLineW r c) := by
  unfold doLineW
  rw [if_neg (by rw [k.alive]; simp)]
  have h1 : 1 ≤ consoleReadReserve := by decide
  have h2 : consoleReadReserve ≤ consoleMaxLine := by decide
  rw [if_neg (by omega)]
  exact doLine_rinv k hp c

theorem doWpipe_rinv {p : Port} {r : Run} (k : RInv p r) (hp : p = .console) (data : List Byte) : RInv p (doWpipe r data) := by
  unfold doWpipe
  have hl := workerChunks_len (data.length + 1) data
  generalize workerChunks (data.length + 1) data = cs at hl
  induction cs generalizing r with
  | nil => exact k
  | cons c rest ih =>
    simp only [List.foldl_cons]
    exact ih (doLineW_rinv k hp c (hl c List.mem_cons_self)) (fun x hx => hl x (List.mem_cons_of_mem _ hx))

/-- `line` / `wpipe` (console input) only occur on the console port; get_char / input_to / serve are scripted on the
    telnet port -/
def WellFormed (p : Port) (ops : List Op) : Prop :=
  (∀ op ∈ ops, ((∃ b, op = .line b) ∨ (∃ b, op = .wpipe b)) → p = .console) ∧
  (∀ op ∈ ops, (op = .serve ∨ (∃ ne, op = .getchar ne) ∨ (∃ ne, op = .inputto ne)) → p = .telnet)

theorem stepOp_rinv (o : Oracle) {p : Port} {r : Run} (k : RInv p r) (op : Op)
    (hw : ((∃ b, op = .line b) ∨ (∃ b, op = .wpipe b)) → p = .console)
    (hw2 : (op = .serve ∨ (∃ ne, op = .getchar ne) ∨ (∃ ne, op = .inputto ne)) → p = .telnet) :
    RInv p (stepOp o r op) := by
  unfold stepOp
  rw [if_neg (by rw [k.alive]; simp)]
  cases op with
  | send b => exact ⟨k.alive, k.port, ⟨k.inv.textLen, k.inv.se, k.inv.eMax, k.inv.dec⟩, ⟨k.pinv.nul, k.pinv.noflag⟩⟩
  | iflagSingle =>
    dsimp only
    split
    · exact k
    · exact add_rinv k.alive [] k.port ⟨k.inv.textLen, k.inv.se, k.inv.eMax, decInv_fl k.inv.dec _⟩
        ⟨fun hh => nulAfter_fl (k.pinv.nul hh) _, k.pinv.noflag⟩
  | iflagLine =>
    dsimp only
    split
    · exact k
    · exact add_rinv k.alive [] k.port ⟨k.inv.textLen, k.inv.se, k.inv.eMax, decInv_fl k.inv.dec _⟩
        ⟨fun hh => nulAfter_fl (k.pinv.nul hh) _, k.pinv.noflag⟩
  | read => exact doRead_rinv o k
  | chunk b =>
    exact doRead_rinv o (r := { r with s := { r.s with sock := r.s.sock ++ b } })
      ⟨k.alive, k.port, ⟨k.inv.textLen, k.inv.se, k.inv.eMax, k.inv.dec⟩, ⟨k.pinv.nul, k.pinv.noflag⟩⟩
  | extract => exact doExtract_rinv k
  | drain => exact drainLoop_rinv 5000 k
  | finish => exact finishLoop_rinv o 20000 k
  | line b => exact doLine_rinv k (hw (Or.inl ⟨b, rfl⟩)) b
  | wpipe b => exact doWpipe_rinv k (hw (Or.inr ⟨b, rfl⟩)) b
  | snoopOn =>
    dsimp only
    split
    · exact k
    · exact add_rinv (r := { r with snoop := true }) k.alive [] k.port k.inv k.pinv
  | getchar ne => exact doSetCall_rinv k (hw2 (Or.inr (Or.inl ⟨ne, rfl⟩))) true ne
  | inputto ne => exact doSetCall_rinv k (hw2 (Or.inr (Or.inr ⟨ne, rfl⟩))) false ne
  | serve => exact doServe_rinv k (hw2 (Or.inl rfl))

theorem run_rinv (p : Port) (o : Oracle) (ops : List Op) (hw : WellFormed p ops) : RInv p (run p o ops) := by
  unfold run
  have h0 : RInv p { s := S.init p, evs := afterStep (S.init p) } :=
    ⟨rfl, rfl, init_inv p, ⟨fun _ => nulAfter_init p, fun _ => rfl⟩⟩
  suffices H : ∀ (r : Run), RInv p r → WellFormed p ops → RInv p (ops.foldl (stepOp o) r) from H _ h0 hw
  induction ops with
  | nil => intro r k _; exact k
  | cons op ops ih =>
    intro r k hw'
    simp only [List.foldl_cons]
    have hwt : WellFormed p ops :=
      ⟨fun x hx hh => hw'.1 x (List.mem_cons_of_mem _ hx) hh, fun x hx hh => hw'.2 x (List.mem_cons_of_mem _ hx) hh⟩
    exact ih hwt _ (stepOp_rinv o k op (fun hh => hw'.1 op List.mem_cons_self hh)
      (fun hh => hw'.2 op List.mem_cons_self hh)) hwt

end NV.C13
