/-
C13 — specification: what a byte stream *means*, independent of how it was cut into reads and of any buffer.

* telnet port: `toks` reads the stream with the framing grammar the driver really implements (see notes/C13.md):
    data            b                      one text byte
    CR LF | CR NUL                         end of line          (a CR followed by any other byte: both are dropped;
                                                                 CR CR keeps waiting; a bare LF is a text byte)
    IAC IAC                                the text byte 255
    IAC WILL|WONT|DO|DONT opt              negotiation, no text
    IAC SB ... IAC SE                      sub-negotiation, no text (inside: IAC IAC is payload; after IAC <other>
                                           the decoder keeps waiting for SE/IAC)
    IAC <any other byte>                   two-byte command, no text
  `lines` splits the text at end-of-line marks and at NUL text bytes (a NUL ends a command; empty NUL-terminated
  pieces are skipped, empty lines are delivered) and applies backspace/delete editing (`edit`).
* ascii port: `asciiLines` = the LF-terminated pieces, verbatim.
* binary port: the bytes, verbatim, in order.
* console: `consoleLines` = pieces terminated by LF, CR or NUL, empty ones skipped, edited.

`judgeEv` is the oracle used both by the theorems (on model events) and on the traces of the real driver.
It needs only observable things: bytes received, lines delivered, and the logged buffer indices.
-/
import NV.C13.Model

namespace NV.C13

open NV.Gen.C13

/-! ### telnet framing grammar -/
inductive Mode where
  | data | cr | iac | opt | sb | sbIac
  deriving Repr, BEq, DecidableEq

inductive Tok where
  | ch (b : Byte)
  | nl
  deriving Repr, BEq, DecidableEq

def stepTok (m : Mode) (b : Byte) : Mode × List Tok :=
  match m with
  | .data => if b = bIAC then (.iac, []) else if b = bCR then (.cr, []) else (.data, [.ch b])
  | .cr =>
    if b = bIAC then (.iac, []) else if b = bCR then (.cr, [])
    else if b = bLF ∨ b = bNUL then (.data, [.nl]) else (.data, [])
  | .iac =>
    if b = bIAC then (.data, [.ch bIAC])
    else if b = bWILL ∨ b = bWONT ∨ b = bDO ∨ b = bDONT then (.opt, [])
    else if b = bSB then (.sb, [])
    else (.data, [])
  | .opt => (.data, [])
  | .sb => if b = bIAC then (.sbIac, []) else (.sb, [])
  | .sbIac => if b = bIAC then (.sb, []) else if b = bSE then (.data, []) else (.sbIac, [])

/-- the text tokens of a stream read from grammar position `m` -/
def toks (m : Mode) : List Byte → List Tok
  | [] => []
  | b :: r => (stepTok m b).2 ++ toks (stepTok m b).1 r

def modeAfter (m : Mode) : List Byte → Mode
  | [] => m
  | b :: r => modeAfter (stepTok m b).1 r

/-- editing: backspace and delete remove the previous character of the line, if any -/
def edit (l : List Byte) : List Byte :=
  l.foldl (fun acc c => if c = bBS ∨ c = bDEL then acc.dropLast else acc ++ [c]) []

/-- split text tokens into delivered lines; `cur` is the line being collected, last byte first -/
def linesTok (cur : List Byte) : List Tok → List (List Byte)
  | [] => []
  | .nl :: r => edit cur.reverse :: linesTok [] r
  | .ch b :: r =>
    if b = 0 then (if cur = [] then linesTok [] r else edit cur.reverse :: linesTok [] r)
    else linesTok (b :: cur) r

/-- **the command lines a telnet client's byte stream denotes** -/
def lines (stream : List Byte) : List (List Byte) := linesTok [] (toks .data stream)

/-- ascii port: LF-terminated pieces, verbatim -/
def asciiLinesAux (cur : List Byte) : List Byte → List (List Byte)     -- `cur`: last byte first
  | [] => []
  | b :: r => if b = bLF then cur.reverse :: asciiLinesAux [] r else asciiLinesAux (b :: cur) r

def asciiLines (stream : List Byte) : List (List Byte) := asciiLinesAux [] stream

/-- length of the longest piece (terminated or not) of an ascii stream -/
def asciiMaxPiece (cur : Nat) : List Byte → Nat
  | [] => cur
  | b :: r => if b = bLF then max cur (asciiMaxPiece 0 r) else asciiMaxPiece (cur + 1) r

/-- console: pieces terminated by LF, CR or NUL; empty pieces skipped; edited -/
def consoleLinesAux (cur : List Byte) : List Byte → List (List Byte)
  | [] => []
  | b :: r =>
    if b = bLF ∨ b = bCR ∨ b = bNUL then
      (if cur = [] then consoleLinesAux [] r else edit cur.reverse :: consoleLinesAux [] r)
    else consoleLinesAux (b :: cur) r

/-- a console stream without its unterminated last piece -/
def dropPartial (stream : List Byte) : List Byte :=
  (stream.reverse.dropWhile (fun b => !(b = bLF ∨ b = bCR ∨ b = bNUL))).reverse

def consoleLines (stream : List Byte) : List (List Byte) := consoleLinesAux [] stream

/-! ### the side condition of the framing clause
pending text that the driver has decoded but not yet handed out must stay below the discard threshold of
get_user_data: `p` pending bytes are kept iff `(MAX_TEXT - p - 1) / 3 >= MAX_TEXT / 16`. -/
def keepsPending (p : Nat) : Bool := decide ((MAXT - p - 1) / spaceDiv2 ≥ MAXT / compactDiv) && decide (p + 1 ≤ MAXT)

/-! ### oracle over events -/
structure J where
  rx : List Byte := []
  delivered : List (List Byte) := []
  lastS : Nat := 0
  lastE : Nat := 0
  exact : Bool := true          -- the side conditions of the exact-framing clause have held so far
  aborted : Bool := false       -- the current read was left through an error raised by a callback
  destOK : Bool := false        -- the case scripts a callback that destructs the user: `closed` is expected
  bad : List String := []       -- newest first

/-- record a violation; the exact-framing comparisons stop after the first one (one verdict per case is enough, and
    a run-away trace must not make the oracle quadratic) -/
def J.fail (j : J) (what : String) : J := { j with bad := what :: j.bad, exact := false }

def isPrefix : List (List Byte) → List (List Byte) → Bool
  | [], _ => true
  | _ :: _, [] => false
  | a :: as, b :: bs => a == b && isPrefix as bs

def expected (p : Port) (rx : List Byte) : List (List Byte) :=
  match p with
  | .telnet => lines rx
  | .ascii => asciiLines rx
  | .console => consoleLines rx
  | .binary => []

def judgeStep (p : Port) (j : J) (e : Ev) : J :=
  match e with
  | .crash why => j.fail s!"crash {why}"
  | .st s en _ _ fl =>
    let j := if s ≤ en ∧ en + 1 ≤ MAXT then j else j.fail s!"index text_start={s} text_end={en}"
    let j := { j with lastS := s, lastE := en }
    let j := if fl &&& iSingleChar ≠ 0 then { j with exact := false } else j
    match p with
    | .ascii =>
      if j.exact ∧ asciiMaxPiece 0 j.rx + asciiReserve + 1 ≤ MAXT then
        -- every complete line exactly once, in order; after a read that ran to its end nothing is left over
        (if j.aborted then
           (if isPrefix j.delivered (asciiLines j.rx) then j
            else j.fail "ascii-lines delivered are not a prefix of the stream's lines (after a failed callback)")
         else if j.delivered == asciiLines j.rx then j
         else j.fail "ascii-lines delivered differ from the stream's lines")
      else { j with exact := false }
    | .binary =>
      if j.delivered.flatten == j.rx ∧ j.delivered.all (fun l => !l.isEmpty) then j
      else j.fail "binary delivered bytes differ from the stream"
    | _ => j
  | .cberr => { j with aborted := true }
  | .ask n =>
    let j := if n + 1 ≤ MAXT then j else j.fail s!"ask {n} exceeds the input buffer"
    match p with
    | .telnet =>
      if keepsPending (j.lastE - j.lastS) then j
      else
        -- get_user_data discards the whole pending text; complete commands typed ahead go with it (known finding)
        let lost := (expected p j.rx).length - j.delivered.length
        let j := if j.exact ∧ lost > 0 then
            j.fail s!"typeahead-discarded: {lost} complete command line(s) were pending when get_user_data discarded {j.lastE - j.lastS} bytes of unread text"
          else j
        { j with exact := false }
    | _ => j
  | .rx b => { j with rx := j.rx ++ b, aborted := false }     -- a read that got data runs the delivery loop again
  | .cl b =>
    -- console blob: if it does not fit behind text_end it is dropped as a whole - unless only an unfinished
    -- (over-long) line is pending: then that line is discarded first
    if b.length = 0 then j
    else if j.lastE + b.length + 1 ≤ MAXT then { j with rx := j.rx ++ b }
    else if (expected p j.rx).length > j.delivered.length then j
    else
      let kept := dropPartial j.rx
      if b.length + 1 ≤ MAXT then { j with rx := kept ++ b } else { j with rx := kept }
  | .input l => { j with delivered := j.delivered ++ [l] }
  | .cmd l =>
    let j := { j with delivered := j.delivered ++ [l] }
    let j := if l.length + 1 ≤ MAXT then j else j.fail "line longer than the buffer"
    if j.exact ∧ (p == .telnet ∨ p == .console) then
      (if isPrefix j.delivered (expected p j.rx) then j else j.fail "cmd delivered line is not the stream's next line")
    else j
  | .nocmd =>
    if j.exact ∧ (p == .telnet ∨ p == .console) then
      (if j.delivered == expected p j.rx then j else j.fail "nocmd but the stream holds further complete lines")
    else j
  | .closed =>
    if j.destOK then { j with exact := false }
    else { j.fail "closed: the driver dropped the connection although the client did not close it" with exact := false }
  | _ => j

def judgeEv (p : Port) (evs : List Ev) (destOK : Bool := false) : List String :=
  ((evs.foldl (judgeStep p) { destOK := destOK }).bad).reverse

end NV.C13
