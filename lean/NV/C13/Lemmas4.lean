/-
C13 — helper lemmas: get_user_data and add_console_line keep the buffer invariant and never leave the arrays.
-/
import NV.C13.Lemmas3

namespace NV.C13

open NV.Gen.C13

theorem decInv_fl {d : Dec} (h : DecInv d) (f : IFlags) : DecInv { d with fl := f } :=
  ⟨h.sbLen, h.sbPos, h.lastZ⟩

theorem cmdInBuf_ok (s : S) (h : s.tend ≤ s.text.length) : ∃ c, cmdInBuf s = .ok c := by
  unfold cmdInBuf
  rw [if_neg (by omega)]
  split
  · exact ⟨_, rfl⟩
  · dsimp only
    split
    · exact ⟨_, rfl⟩
    · split <;> exact ⟨_, rfl⟩

/-- setting CMD_IN_BUF changes nothing but that flag -/
theorem setCmdFlag_ok (s : S) (h : s.tend ≤ s.text.length) :
    ∃ f, setCmdFlag s = .ok { s with dec := { s.dec with fl := f } } ∧ f.single = s.dec.fl.single := by
  obtain ⟨c, hc⟩ := cmdInBuf_ok s h
  unfold setCmdFlag
  rw [hc]
  cases c
  · exact ⟨s.dec.fl, rfl, rfl⟩
  · exact ⟨_, rfl, rfl⟩

theorem findLF_lt {l : List Byte} {k : Nat} (h : findLF l = some k) : k < l.length := by
  induction l generalizing k with
  | nil => simp [findLF] at h
  | cons a r ih =>
    unfold findLF at h
    split at h
    · injection h with h; subst h; simp
    · cases hr : findLF r with
      | none => simp [hr] at h
      | some j =>
        simp [hr] at h; subst h
        have := ih hr
        simp; omega

/-- the PORT_ASCII line loop stays inside the buffer and keeps `text_start ≤ text_end`, whatever the callbacks do -/
theorem asciiLoop_ok (o : Oracle) (fuel : Nat) (s : S) (evs : List Ev) (hl : s.text.length = MAXT) (hse : s.tstart ≤ s.tend)
    (he : s.tend + 1 ≤ MAXT) :
    ∃ s' evs' e, asciiLoop o fuel s evs = .ok (s', evs', e) ∧ s'.text.length = MAXT ∧ s'.tstart ≤ s'.tend ∧
      s'.tend + 1 ≤ MAXT ∧ s'.dec = s.dec ∧ s'.port = s.port := by
  induction fuel generalizing s evs with
  | zero => exact ⟨s, evs, _, rfl, hl, hse, he, rfl, rfl⟩
  | succ n ih =>
    unfold asciiLoop
    rw [if_neg (by omega)]
    dsimp only
    cases hf : findLF (slice s.text s.tstart s.tend) with
    | none => exact ⟨s, evs, _, rfl, hl, hse, he, rfl, rfl⟩
    | some k =>
      have hk := findLF_lt hf
      rw [slice_length _ _ _ (by omega)] at hk
      have hw : s.tstart + k + ([0] : List Byte).length ≤ s.text.length := by simp; omega
      dsimp only
      rw [writeAt_ok hw]
      dsimp only
      have hlen' : (List.take (s.tstart + k) s.text ++ [0] ++ List.drop (s.tstart + k + ([0] : List Byte).length) s.text).length
          = MAXT := by rw [← hl]; exact writeAt_length (writeAt_ok hw)
      cases ho : o s.cbCount with
      | err => exact ⟨_, _, _, rfl, hlen', by dsimp only; omega, he, rfl, rfl⟩
      | dest => exact ⟨_, _, _, rfl, hlen', by dsimp only; omega, he, rfl, rfl⟩
      | ok =>
        dsimp only
        split
        · exact ⟨_, _, _, rfl, hlen', Nat.le_refl _, by dsimp only; omega, rfl, rfl⟩
        · obtain ⟨s', evs', e, h1, h2, h3, h4, h5, h6⟩ := ih
            { s with text := List.take (s.tstart + k) s.text ++ [0] ++ List.drop (s.tstart + k + ([0] : List Byte).length) s.text,
                     tstart := s.tstart + k + 1, cbCount := s.cbCount + 1 }
            (evs ++ [Ev.input (List.take k (slice s.text s.tstart s.tend))])
            hlen' (by dsimp only; omega) he
          exact ⟨s', evs', e, h1, h2, h3, h4, h5, h6⟩

/-- **get_user_data keeps the invariant**: for every port, every socket content, every decoder state, every
    iflags and every behaviour of the callbacks (return, LPC error, destruct), no access leaves `text[]`,
    `sb_buf[]` or the local `buf[]`, and `text_start ≤ text_end ≤ MAX_TEXT-1` holds afterwards -/
theorem getUserData_ok' (o : Oracle) {s : S} (h : Inv s) :
    ∃ s' evs, getUserData o s = .ok (s', evs) ∧ Inv s' ∧ s'.dec.fl.single = s.dec.fl.single ∧ s'.port = s.port ∧
      (s.port ≠ .telnet → s'.dec = s.dec) := by
  unfold getUserData
  split
  · exact ⟨_, _, rfl, h, rfl, rfl, fun _ => rfl⟩
  · obtain ⟨s1, sp, hcs, ok⟩ := computeSpace_ok h
    rw [hcs]
    dsimp only
    split
    · exact ⟨_, _, rfl, ok.inv, by rw [ok.dec], ok.port, fun _ => ok.dec⟩
    · split
      · exact ⟨_, _, rfl, ⟨ok.inv.textLen, ok.inv.se, ok.inv.eMax, ok.inv.dec⟩, by dsimp only; rw [ok.dec], ok.port, fun _ => ok.dec⟩
      · have htake : (s1.sock.take sp).length ≤ sp := by simp; omega
        have hroomA := ok.roomA
        have c1 : ¬ ((s1.sock.take sp).length ≥ MAXT) := by omega
        rw [if_neg c1]
        have hl1 := ok.inv.textLen
        have hse1 := ok.inv.se
        cases hp : s1.port with
        | telnet =>
          dsimp only
          obtain ⟨r, n', dead, hr, hnd⟩ := copyCharsO_ok o ok.inv.dec s1.cbCount (s1.sock.take sp)
          rw [hr]
          dsimp only
          cases dead with
          | true =>
            simp only [if_true]
            exact ⟨_, _, rfl, ⟨hl1, hse1, ok.inv.eMax, ok.inv.dec⟩, by dsimp only; rw [ok.dec], by dsimp only; rw [← hp, ok.port],
              fun hh => absurd (by rw [← ok.port]; exact hp) hh⟩
          | false =>
            simp only [Bool.false_eq_true, if_false]
            obtain ⟨r0, hr0, ed, eo, _⟩ := hnd rfl
            obtain ⟨r0', hr0', ck⟩ := copyChars_ok ok.inv.dec (s1.sock.take sp)
            rw [hr0] at hr0'; injection hr0' with hr0'; subst hr0'
            have hroomT := ok.roomT (by rw [← ok.port]; exact hp)
            have hout := ck.len
            rw [← eo] at hout
            have hw1 : s1.tend + r.out.length ≤ s1.text.length := by omega
            rw [writeAt_ok hw1]
            dsimp only
            have hl2 := writeAt_length (writeAt_ok hw1)
            have hw2 : s1.tend + r.out.length + ([0] : List Byte).length ≤
                (List.take s1.tend s1.text ++ r.out ++ List.drop (s1.tend + r.out.length) s1.text).length := by
              rw [hl2]; simp; omega
            rw [writeAt_ok hw2]
            dsimp only
            have hl3 := writeAt_length (writeAt_ok hw2)
            obtain ⟨f, hf, hfs⟩ := setCmdFlag_ok
              { s1 with port := Port.telnet, sock := List.drop sp s1.sock,
                        text := List.take (s1.tend + r.out.length) (List.take s1.tend s1.text ++ r.out ++ List.drop (s1.tend + r.out.length) s1.text) ++ [0] ++
                          List.drop (s1.tend + r.out.length + ([0] : List Byte).length) (List.take s1.tend s1.text ++ r.out ++ List.drop (s1.tend + r.out.length) s1.text),
                        tend := s1.tend + r.out.length, dec := r.d, cbCount := n' }
              (by dsimp only; rw [hl3, hl2]; omega)
            rw [hf]
            refine ⟨_, _, rfl, ⟨?_, ?_, ?_, decInv_fl (by rw [ed]; exact ck.inv) f⟩, ?_, by dsimp only; rw [← hp, ok.port],
              fun hh => absurd (by rw [← ok.port]; exact hp) hh⟩
            · dsimp only; rw [hl3, hl2]; exact hl1
            · dsimp only; omega
            · dsimp only; omega
            · dsimp only; dsimp only at hfs; rw [hfs, ed, ck.single, ok.dec]
        | ascii =>
          dsimp only
          have hw1 : s1.tend + (s1.sock.take sp).length ≤ s1.text.length := by omega
          rw [writeAt_ok hw1]
          dsimp only
          have hl2 := writeAt_length (writeAt_ok hw1)
          obtain ⟨s2, evs2, e, h1, h2, h3, h4, h5, h6⟩ := asciiLoop_ok o (s1.tend - s1.tstart + (s1.sock.take sp).length + 1)
            { s1 with port := Port.ascii, sock := List.drop sp s1.sock,
                      text := List.take s1.tend s1.text ++ s1.sock.take sp ++ List.drop (s1.tend + (s1.sock.take sp).length) s1.text,
                      tend := s1.tend + (s1.sock.take sp).length } []
            (by dsimp only; rw [hl2]; exact hl1) (by dsimp only; omega) (by dsimp only; omega)
          rw [h1]
          have hd2 : DecInv s2.dec := by rw [h5]; exact ok.inv.dec
          have hs2 : s2.dec.fl.single = s.dec.fl.single := by rw [h5]; dsimp only; rw [ok.dec]
          have hp2 : s2.port = s.port := by rw [h6]; dsimp only; rw [← hp, ok.port]
          have hdd : s.port ≠ .telnet → s2.dec = s.dec := fun _ => by rw [h5]; dsimp only; exact ok.dec
          cases e with
          | aborted => exact ⟨_, _, rfl, ⟨h2, h3, h4, hd2⟩, hs2, hp2, hdd⟩
          | dead => exact ⟨_, _, rfl, ⟨h2, h3, h4, hd2⟩, hs2, hp2, hdd⟩
          | done =>
            dsimp only
            split
            · rw [if_neg (by omega)]
              have hsl : (slice s2.text s2.tstart s2.tend).length = s2.tend - s2.tstart := slice_length _ _ _ (by omega)
              have hw3 : 0 + (slice s2.text s2.tstart s2.tend).length ≤ s2.text.length := by omega
              rw [writeAt_ok hw3]
              dsimp only
              refine ⟨_, _, rfl, ⟨?_, ?_, ?_, hd2⟩, hs2, hp2, hdd⟩
              · dsimp only; rw [writeAt_length (writeAt_ok hw3)]; exact h2
              · dsimp only; omega
              · dsimp only; omega
            · exact ⟨_, _, rfl, ⟨h2, h3, h4, hd2⟩, hs2, hp2, hdd⟩
        | binary =>
          dsimp only
          cases o s1.cbCount <;>
            exact ⟨_, _, rfl, ⟨hl1, hse1, ok.inv.eMax, ok.inv.dec⟩, by dsimp only; rw [ok.dec], by dsimp only; rw [← hp, ok.port],
              fun _ => ok.dec⟩
        | console =>
          exact ⟨_, _, rfl, ⟨hl1, hse1, ok.inv.eMax, ok.inv.dec⟩, by dsimp only; rw [ok.dec], by dsimp only; rw [← hp, ok.port],
            fun _ => ok.dec⟩

theorem consoleMakeRoom_ok {s : S} (h : Inv s) (len : Nat) :
    ∃ s1, consoleMakeRoom s len = .ok s1 ∧ Inv s1 ∧ s1.dec = s.dec := by
  unfold consoleMakeRoom
  split
  · obtain ⟨c, hc⟩ := cmdInBuf_ok s (by have := h.eMax; have := h.textLen; omega)
    rw [hc]
    cases c
    · simp only [Bool.false_eq_true, if_false]
      exact ⟨_, rfl, ⟨h.textLen, Nat.le_refl _, by dsimp only; decide, h.dec⟩, rfl⟩
    · simp only [if_true]
      exact ⟨_, rfl, h, rfl⟩
  · exact ⟨_, rfl, h, rfl⟩

/-- add_console_line keeps the invariant (a blob that does not fit is dropped as a whole) -/
theorem addConsoleLine_ok' {s : S} (h0 : Inv s) (bytes : List Byte) :
    ∃ s', addConsoleLine s bytes = .ok s' ∧ Inv s' ∧ s'.dec.fl.single = s.dec.fl.single := by
  unfold addConsoleLine
  dsimp only
  split
  · exact ⟨_, rfl, h0, rfl⟩
  obtain ⟨s1, e1, h, d1⟩ := consoleMakeRoom_ok h0 bytes.length
  rw [e1]
  dsimp only
  rw [← d1]
  split
  · exact ⟨_, rfl, h, rfl⟩
  · rename_i hc
    have hl := h.textLen
    have hw1 : s1.tend + (bytes.map (fun b => if b = bLF ∨ b = bCR then bNUL else b)).length ≤ s1.text.length := by
      simp; omega
    rw [writeAt_ok hw1]
    dsimp only
    have hl2 := writeAt_length (writeAt_ok hw1)
    have hw2 : s1.tend + bytes.length + ([0] : List Byte).length ≤
        (List.take s1.tend s1.text ++ bytes.map (fun b => if b = bLF ∨ b = bCR then bNUL else b) ++
          List.drop (s1.tend + (bytes.map (fun b => if b = bLF ∨ b = bCR then bNUL else b)).length) s1.text).length := by
      rw [hl2]; simp; omega
    rw [writeAt_ok hw2]
    dsimp only
    have hl3 := writeAt_length (writeAt_ok hw2)
    obtain ⟨f, hf, hfs⟩ := setCmdFlag_ok
      { s1 with text := List.take (s1.tend + bytes.length) (List.take s1.tend s1.text ++ bytes.map (fun b => if b = bLF ∨ b = bCR then bNUL else b) ++
          List.drop (s1.tend + (bytes.map (fun b => if b = bLF ∨ b = bCR then bNUL else b)).length) s1.text) ++ [0] ++
          List.drop (s1.tend + bytes.length + ([0] : List Byte).length) (List.take s1.tend s1.text ++ bytes.map (fun b => if b = bLF ∨ b = bCR then bNUL else b) ++
          List.drop (s1.tend + (bytes.map (fun b => if b = bLF ∨ b = bCR then bNUL else b)).length) s1.text),
                tend := s1.tend + bytes.length }
      (by dsimp only; rw [hl3, hl2]; omega)
    rw [hf]
    refine ⟨_, rfl, ⟨?_, ?_, ?_, decInv_fl h.dec f⟩, ?_⟩
    · dsimp only; rw [hl3, hl2]; exact hl
    · dsimp only; have := h.se; omega
    · dsimp only; omega
    · dsimp only; exact hfs

theorem getUserData_ok (o : Oracle) {s : S} (h : Inv s) : ∃ s' evs, getUserData o s = .ok (s', evs) ∧ Inv s' :=
  let ⟨s', evs, h1, h2, _, _, _⟩ := getUserData_ok' o h
  ⟨s', evs, h1, h2⟩

theorem addConsoleLine_ok {s : S} (h : Inv s) (bytes : List Byte) : ∃ s', addConsoleLine s bytes = .ok s' ∧ Inv s' :=
  let ⟨s', h1, h2, _⟩ := addConsoleLine_ok' h bytes
  ⟨s', h1, h2⟩

end NV.C13
