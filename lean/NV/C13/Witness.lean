/-
C13 — Lean-checked witnesses.

The defects found for C13 were all repaired in the repository (six `fix:` commits, see notes/C13.md), so there is no
open full-statement counterexample.  What is kept here are witnesses that the repaired statements were *false* for
the old code, phrased over the parts of the model that the repair changed, and evaluations that pin the repaired
behaviour.
-/
import NV.C13.Props

namespace NV.C13

open NV.Gen.C13

/-- `sb_in_bounds` was false for `BYTE sb_buf[SB_SIZE]`: in a decoder state whose array has exactly SB_SIZE bytes
    and that has stored SB_SIZE sub-negotiation bytes (both reached by the stream IAC SB <SB_SIZE bytes>), the
    terminator store of IAC SE is outside the array. -/
theorem sb_terminator_overflows_exact_array (d : Dec) (hlen : d.sbBuf.length = sbSize) (hpos : d.sbPos = sbSize) :
    ∃ e, sbEnd d = .error e := by
  unfold sbEnd sbSet
  rw [hpos, hlen, if_neg (Nat.lt_irrefl _)]
  exact ⟨_, rfl⟩

/-- the framing grammar after the repairs: the byte after IAC AYT is text again, and a full sub-negotiation buffer
    does not change where the sub-negotiation ends -/
theorem ayt_returns_to_data : toks .data [bIAC, bAYT, 120] = [.ch 120] := by decide

/-- an over-long sub-negotiation with a doubled IAC and a plain 0xf0 inside no longer leaks its payload:
    nothing of it is text (model and grammar agree by `stored_text_is_stream_text`) -/
theorem full_sb_payload_is_not_text :
    toks .data ([bIAC, bSB] ++ List.replicate 100 65 ++ [bIAC, bIAC, bSE, 115, 101, 99, bIAC, bSE, bCR, bLF]) = [.nl] := by
  decide

/-- the ascii specification keeps partial lines across reads by construction: it never sees the reads -/
theorem ascii_spec_example : asciiLines ([104, 101, 108] ++ [108, 111, 10]) = [[104, 101, 108, 108, 111]] := by decide

/-! ### closed finding C13-typeahead-discard (fix 57d7cb1): a burst of commands typed ahead is kept -/

/-- 425 times "n" CR LF in one burst -/
def burst : List Byte := (List.replicate 425 [110, 13, 10]).flatten
def burstOps : List FOp := [.send burst, .read, .read, .read, .read, .extract, .extract]

set_option maxRecDepth 10000000 in
/-- after four read events (the later ones are held back) and two extractions: the run is still `clean`, two commands
    have been delivered, and delivered ++ pending ++ what is still in the socket accounts for all 425 commands -/
theorem burst_check :
    (match fRun (fun _ => .ok) { s := S.init .telnet } burstOps with
     | .ok f => f.clean && f.delivered == [[110], [110]] &&
                (f.delivered ++ cmdsOf [] (pend f.s) ++ lines f.s.sock).length == 425 && !f.s.sock.isEmpty
     | .error _ => false) = true := by
  decide

end NV.C13
