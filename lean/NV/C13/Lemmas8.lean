/-
C13 — helper lemmas: exact effect of one telnet read on the pending text (no discard), and the connection between
the buffer-free command splitter `cmdsOf` and the specification `lines`.
-/
import NV.C13.Lemmas7

namespace NV.C13

open NV.Gen.C13

/-- the lines passed to process_input inside a read (PORT_ASCII / PORT_BINARY) -/
def inputsOf : List Ev → List (List Byte)
  | [] => []
  | .input l :: r => l :: inputsOf r
  | _ :: r => inputsOf r

theorem inputsOf_append (a b : List Ev) : inputsOf (a ++ b) = inputsOf a ++ inputsOf b := by
  induction a with
  | nil => rfl
  | cons e r ih => cases e <;> simp [inputsOf, ih]

/-! copy_chars never calls process_input -/
theorem sbEnd_no_input {d : Dec} {r : CC} (h : sbEnd d = .ok r) : inputsOf r.cbs = [] := by
  unfold sbEnd at h
  split at h
  · cases h
  · dsimp only at h
    repeat' split at h
    all_goals first | (cases h; done) | (injection h with h2; subst h2; rfl)

theorem ccByte_no_input {d : Dec} {b : Byte} {r : CC} (h : ccByte d b = .ok r) : inputsOf r.cbs = [] := by
  unfold ccByte at h
  repeat' split at h
  · unfold ccData at h; (try dsimp only at h); repeat' split at h
    all_goals first | (cases h; done) | (injection h with h2; subst h2; rfl)
  · unfold ccSbIac at h; (try dsimp only at h); repeat' split at h
    all_goals first | (cases h; done) | (injection h with h2; subst h2; rfl) | exact sbEnd_no_input h
  · unfold ccIac at h; (try dsimp only at h); repeat' split at h
    all_goals first | (cases h; done) | (injection h with h2; subst h2; rfl)
  · unfold ccDo at h; (try dsimp only at h); repeat' split at h
    all_goals first | (cases h; done) | (injection h with h2; subst h2; rfl)
  · unfold ccWill at h; (try dsimp only at h); repeat' split at h
    all_goals first | (cases h; done) | (injection h with h2; subst h2; rfl)
  · unfold ccDont at h; (try dsimp only at h); repeat' split at h
    all_goals first | (cases h; done) | (injection h with h2; subst h2; rfl)
  · unfold ccWont at h; (try dsimp only at h); repeat' split at h
    all_goals first | (cases h; done) | (injection h with h2; subst h2; rfl)
  · unfold ccSb at h; (try dsimp only at h); repeat' split at h
    all_goals first | (cases h; done) | (injection h with h2; subst h2; rfl)
  · injection h with h2; subst h2; rfl

theorem copyChars_no_input {d : Dec} {c : List Byte} {r : CC} (h : copyChars d c = .ok r) : inputsOf r.cbs = [] := by
  induction c generalizing d r with
  | nil => simp only [copyChars] at h; injection h with h; subst h; rfl
  | cons b rest ih =>
    simp only [copyChars] at h
    cases h1 : ccByte d b with
    | error e => rw [h1] at h; cases h
    | ok r1 =>
      rw [h1] at h; dsimp only at h
      cases h2 : copyChars r1.d rest with
      | error e => rw [h2] at h; cases h
      | ok r2 =>
        rw [h2] at h; dsimp only at h
        injection h with h; subst h
        show inputsOf (r1.cbs ++ r2.cbs) = []
        rw [inputsOf_append, ccByte_no_input h1, ih h2]; rfl
theorem copyCharsO_no_input {o : Oracle} {d : Dec} {n : Nat} {c : List Byte} {r : CC} {n' : Nat} {dead : Bool}
    (h : copyCharsO o d n c = .ok (r, n', dead)) : inputsOf r.cbs = [] := by
  induction c generalizing d n r n' dead with
  | nil =>
    simp only [copyCharsO] at h
    injection h with h; injection h with h _; subst h; rfl
  | cons b rest ih =>
    simp only [copyCharsO] at h
    cases h1 : ccByte d b with
    | error e => rw [h1] at h; cases h
    | ok r1 =>
      rw [h1] at h; dsimp only at h
      have hb := ccByte_no_input h1
      split at h
      · cases h2 : copyCharsO o r1.d n rest with
        | error e => rw [h2] at h; cases h
        | ok res =>
          obtain ⟨r2, n2, d2⟩ := res
          rw [h2] at h
          injection h with h; injection h with h _; subst h
          exact ih (r := r2) h2
      · cases ho : o n with
        | dest =>
          rw [ho] at h
          injection h with h; injection h with h _; subst h
          exact hb
        | ok =>
          rw [ho] at h; dsimp only at h
          cases h2 : copyCharsO o r1.d (n + 1) rest with
          | error e => rw [h2] at h; cases h
          | ok res =>
            obtain ⟨r2, n2, d2⟩ := res
            rw [h2] at h
            injection h with h; injection h with h _; subst h
            show inputsOf (r1.cbs ++ _ ++ r2.cbs) = []
            rw [inputsOf_append, inputsOf_append, hb, ih (r := r2) h2]; rfl
        | err =>
          rw [ho] at h; dsimp only at h
          cases h2 : copyCharsO o r1.d (n + 1) rest with
          | error e => rw [h2] at h; cases h
          | ok res =>
            obtain ⟨r2, n2, d2⟩ := res
            rw [h2] at h
            injection h with h; injection h with h _; subst h
            show inputsOf (r1.cbs ++ _ ++ r2.cbs) = []
            rw [inputsOf_append, inputsOf_append, hb, ih (r := r2) h2]; rfl

/-- the specification's line splitter on tokens is `cmdsOf` on the rendered text -/
theorem linesTok_eq_cmdsOf (cur : List Byte) (ts : List Tok) : linesTok cur ts = cmdsOf cur (renderToks ts) := by
  induction ts generalizing cur with
  | nil => rfl
  | cons t r ih =>
    have hr : renderToks (t :: r) = renderTok t ++ renderToks r := by simp [renderToks]
    rw [hr]
    cases t with
    | nl =>
      have e1 : bSP ≠ 0 := by decide
      have e2 : bBS ≠ 0 := by decide
      have e3 : bNUL = 0 := rfl
      simp only [linesTok, renderTok, List.cons_append, List.nil_append, cmdsOf, if_neg e1, if_neg e2, e3, if_true]
      rw [if_neg (by simp), ih]
      congr 1
      have : (bBS :: bSP :: cur).reverse = cur.reverse ++ [bSP, bBS] := by simp
      rw [this, edit_sp_bs]
    | ch b =>
      simp only [linesTok, renderTok, List.cons_append, List.nil_append, cmdsOf]
      by_cases hb : b = 0
      · simp only [hb, if_true]
        split
        · exact ih []
        · rw [ih []]
      · simp only [hb, if_false]; exact ih _

theorem lines_eq_cmdsOf (stream : List Byte) : lines stream = cmdsOf [] (renderToks (toks .data stream)) :=
  linesTok_eq_cmdsOf [] _

/-- "there is a complete, non-empty command in the pending text" -/
def hasCmd (p : List Byte) : Bool := decide (countNZ (dropZ p) < (dropZ p).length)

theorem dropZ_length_le (p : List Byte) : countZ p ≤ p.length := by
  induction p with
  | nil => simp [countZ]
  | cons a r ih => unfold countZ; split <;> simp; omega

/-- cmd_in_buf in line mode decides `hasCmd` of the pending text -/
theorem cmdInBuf_exact {s : S} (hl : s.tend ≤ s.text.length) (hse : s.tstart ≤ s.tend) (hns : s.dec.fl.single = false) :
    cmdInBuf s = .ok (hasCmd (pend s)) := by
  unfold cmdInBuf
  rw [if_neg (by omega), if_neg (by omega)]
  dsimp only
  have hpl : (slice s.text s.tstart s.tend).length = s.tend - s.tstart := slice_length _ _ _ hl
  split
  · rename_i hz
    have : dropZ (pend s) = [] := by
      simp only [dropZ, pend]
      apply List.drop_eq_nil_of_le; omega
    simp [hasCmd, this]
  · rw [hns]
    simp only [Bool.false_eq_true, if_false]
    simp [hasCmd, dropZ, pend]

theorem setCmdFlag_exact {s : S} (hl : s.tend ≤ s.text.length) (hse : s.tstart ≤ s.tend) (hns : s.dec.fl.single = false) :
    setCmdFlag s = .ok { s with dec := { s.dec with fl := { s.dec.fl with cmdInBuf := s.dec.fl.cmdInBuf || hasCmd (pend s) } } } := by
  unfold setCmdFlag
  rw [cmdInBuf_exact hl hse hns]
  cases hasCmd (pend s)
  · simp
  · simp

/-- below the discard threshold the space computation (with or without compaction) keeps the pending text -/
theorem computeSpace_keep {s : S} (h : Inv s) (hp : s.port = .telnet) (hk : keepsPending (s.tend - s.tstart) = true) :
    ∃ s1 sp, computeSpace s = .ok (s1, sp) ∧ SpaceOK s s1 sp ∧ pend s1 = pend s := by
  obtain ⟨s1, sp, hc, ok⟩ := computeSpace_ok h
  refine ⟨s1, sp, hc, ok, ?_⟩
  have hl := h.textLen
  have hse := h.se
  have hem := h.eMax
  unfold computeSpace at hc
  rw [hp] at hc
  simp only at hc
  rw [if_neg (by omega)] at hc
  split at hc
  · rw [if_neg (by omega), if_neg (by omega)] at hc
    have hsl : (slice s.text s.tstart (s.tend + 1)).length = s.tend + 1 - s.tstart := slice_length _ _ _ (by omega)
    have hw : 0 + (slice s.text s.tstart (s.tend + 1)).length ≤ s.text.length := by omega
    rw [writeAt_ok hw] at hc
    simp only at hc
    rw [if_neg (by omega)] at hc
    have hk' : ¬ ((MAXT - (s.tend - s.tstart) - 1) / spaceDiv2 < MAXT / compactDiv) := by
      simp only [keepsPending, Bool.and_eq_true, decide_eq_true_eq] at hk
      omega
    rw [if_neg hk'] at hc
    injection hc with hc
    injection hc with hc1 _
    rw [← hc1]
    show slice _ 0 (s.tend - s.tstart) = slice s.text s.tstart s.tend
    exact slice_compact hse (by omega) _
  · injection hc with hc
    injection hc with hc1 _
    rw [← hc1]

/-- **one telnet read below the discard threshold**: the pending text grows by exactly what copy_chars produces for
    the bytes taken from the socket; nothing else of the pending text changes -/
theorem telnet_read_exact {o : Oracle} (hnd : NoDest o) {s : S} (h : Inv s) (hp : s.port = .telnet)
    (hns : s.dec.fl.single = false) (hk : keepsPending (s.tend - s.tstart) = true) :
    ∃ s' evs, getUserData o s = .ok (s', evs) ∧ Inv s' ∧ s'.port = .telnet ∧ inputsOf evs = [] ∧
      ((s.sock = [] ∧ pend s' = pend s ∧ s'.dec = s.dec ∧ s'.sock = []) ∨
       (∃ n r, 0 < n ∧ s.sock ≠ [] ∧ copyChars s.dec (s.sock.take n) = .ok r ∧ ChunkOK s.dec (s.sock.take n) r ∧
          pend s' = pend s ++ r.out ∧ s'.sock = s.sock.drop n ∧
          s'.dec = { r.d with fl := { r.d.fl with cmdInBuf := r.d.fl.cmdInBuf || hasCmd (pend s') } })) := by
  obtain ⟨s1, sp, hcs, ok, hpend⟩ := computeSpace_keep h hp hk
  unfold getUserData
  rw [if_neg (by rw [hp]; decide), hcs]
  dsimp only
  have hp1 : s1.port = .telnet := by rw [ok.port]; exact hp
  split
  · rename_i hempty
    have he : s1.sock = [] := by simpa using hempty
    refine ⟨_, _, rfl, ok.inv, hp1, rfl, Or.inl ⟨by rw [← ok.sock]; exact he, hpend, ok.dec, he⟩⟩
  · rename_i hne
    have hne1 : s1.sock ≠ [] := by simpa using hne
    have htn : (s1.sock.take sp) ≠ [] := by
      have := ok.pos
      cases hs : s1.sock with
      | nil => exact absurd hs hne1
      | cons a r => cases sp with
        | zero => omega
        | succ k => simp
    rw [if_neg (by simpa using htn)]
    have htake : (s1.sock.take sp).length ≤ sp := by simp; omega
    have hroomA := ok.roomA
    rw [if_neg (by omega)]
    have hl1 := ok.inv.textLen
    have hse1 := ok.inv.se
    rw [hp1]
    dsimp only
    obtain ⟨r', n', dead, hr', hnd'⟩ := copyCharsO_ok o ok.inv.dec s1.cbCount (s1.sock.take sp)
    have hdead : dead = false := copyCharsO_nodest hnd _ _ _ _ _ _ hr'
    subst hdead
    obtain ⟨r, hr, ed, eo, _⟩ := hnd' rfl
    obtain ⟨r0, hr0, ck⟩ := copyChars_ok ok.inv.dec (s1.sock.take sp)
    rw [hr] at hr0; injection hr0 with hr0; subst hr0
    rw [hr']
    dsimp only
    simp only [Bool.false_eq_true, if_false]
    rw [ed, eo]
    have hroomT := ok.roomT hp
    have hout := ck.len
    have hw1 : s1.tend + r.out.length ≤ s1.text.length := by omega
    rw [writeAt_ok hw1]
    dsimp only
    have hl2 := writeAt_length (writeAt_ok hw1)
    have hw2 : s1.tend + r.out.length + ([0] : List Byte).length ≤
        (List.take s1.tend s1.text ++ r.out ++ List.drop (s1.tend + r.out.length) s1.text).length := by
      rw [hl2]; simp; omega
    rw [writeAt_ok hw2]
    dsimp only
    have hl3 := writeAt_length (writeAt_ok hw2)
    have hsingle : r.d.fl.single = false := by rw [ck.single, ok.dec]; exact hns
    have hpend' : slice (List.take (s1.tend + r.out.length) (List.take s1.tend s1.text ++ r.out ++ List.drop (s1.tend + r.out.length) s1.text) ++ [0] ++
          List.drop (s1.tend + r.out.length + ([0] : List Byte).length) (List.take s1.tend s1.text ++ r.out ++ List.drop (s1.tend + r.out.length) s1.text))
          s1.tstart (s1.tend + r.out.length) = pend s ++ r.out := by
      rw [slice_write_outside (Nat.le_refl _) (by rw [hl2]; omega), slice_write_append hse1 hw1, ← hpend]
      rfl
    rw [setCmdFlag_exact (by dsimp only; rw [hl3, hl2]; omega) (by dsimp only; omega) (by dsimp only; exact hsingle)]
    refine ⟨_, _, rfl, ⟨?_, ?_, ?_, decInv_fl ck.inv _⟩, rfl,
      (by rw [inputsOf_append, inputsOf_append, copyCharsO_no_input hr']; cases r'.tx.isEmpty <;> rfl),
      Or.inr ⟨sp, r, ok.pos, ?_, ?_, ?_, ?_, ?_, ?_⟩⟩
    · dsimp only; rw [hl3, hl2]; exact hl1
    · dsimp only; omega
    · dsimp only; omega
    · rw [← ok.sock]; exact hne1
    · rw [← ok.sock, ← ok.dec]; exact hr
    · rw [← ok.sock, ← ok.dec]; exact ck
    · exact hpend'
    · dsimp only; rw [ok.sock]
    · rfl

end NV.C13
