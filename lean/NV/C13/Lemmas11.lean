/-
C13 — PORT_ASCII end to end: the line loop of get_user_data delivers exactly the LF-terminated pieces.
-/
import NV.C13.Lemmas10

namespace NV.C13

open NV.Gen.C13

theorem slice_write_before {t x : List Byte} {i a b : Nat} (ha : i + x.length ≤ a) (hi : i + x.length ≤ t.length) :
    slice (t.take i ++ x ++ t.drop (i + x.length)) a b = slice t a b := by
  simp only [slice]
  congr 1
  have hl : (t.take i ++ x).length = i + x.length := by simp; omega
  have : a = (t.take i ++ x).length + (a - (i + x.length)) := by omega
  rw [this, List.drop_length_add_append, List.drop_drop]
  congr 1; omega

def countLF : List Byte → Nat
  | [] => 0
  | b :: r => if b = bLF then countLF r + 1 else countLF r

theorem countLF_append (a b : List Byte) : countLF (a ++ b) = countLF a + countLF b := by
  induction a with
  | nil => simp [countLF]
  | cons x r ih => simp only [List.cons_append, countLF]; split <;> omega

theorem countLF_le (a : List Byte) : countLF a ≤ a.length := by
  induction a with
  | nil => simp [countLF]
  | cons x r ih => simp only [countLF, List.length_cons]; split <;> omega

theorem findLF_none {q : List Byte} (h : findLF q = none) : countLF q = 0 ∧ ∀ b ∈ q, b ≠ bLF := by
  induction q with
  | nil => exact ⟨rfl, fun b hb => by cases hb⟩
  | cons a r ih =>
    unfold findLF at h
    split at h
    · cases h
    · rename_i ha
      have hr : findLF r = none := by
        cases hf : findLF r with
        | none => rfl
        | some j => rw [hf] at h; cases h
      obtain ⟨h1, h2⟩ := ih hr
      refine ⟨by simp [countLF, ha, h1], ?_⟩
      intro b hb
      rcases List.mem_cons.mp hb with rfl | hb
      · exact ha
      · exact h2 b hb

theorem findLF_some {q : List Byte} {k : Nat} (h : findLF q = some k) :
    q = q.take k ++ bLF :: q.drop (k + 1) ∧ (∀ b ∈ q.take k, b ≠ bLF) ∧ countLF q = countLF (q.drop (k + 1)) + 1 := by
  induction q generalizing k with
  | nil => simp [findLF] at h
  | cons a r ih =>
    unfold findLF at h
    split at h
    · rename_i ha
      injection h with h; subst h
      exact ⟨by simp [ha], fun b hb => by simp at hb, by simp [countLF, ha]⟩
    · rename_i ha
      cases hf : findLF r with
      | none => rw [hf] at h; cases h
      | some j =>
        rw [hf] at h
        simp only [Option.map_some] at h
        injection h with h; subst h
        obtain ⟨h1, h2, h3⟩ := ih hf
        refine ⟨?_, ?_, ?_⟩
        · simp only [List.take_succ_cons, List.drop_succ_cons, List.cons_append]
          rw [← h1]
        · intro b hb
          simp only [List.take_succ_cons] at hb
          rcases List.mem_cons.mp hb with rfl | hb
          · exact ha
          · exact h2 b hb
        · simp only [List.drop_succ_cons, countLF, if_neg ha]; exact h3

theorem asciiLinesAux_noLF (pre y cur : List Byte) (h : ∀ b ∈ pre, b ≠ bLF) :
    asciiLinesAux cur (pre ++ y) = asciiLinesAux (pre.reverse ++ cur) y := by
  induction pre generalizing cur with
  | nil => rfl
  | cons b r ih =>
    have hb := h b (by simp)
    simp only [List.cons_append, asciiLinesAux, if_neg hb]
    rw [ih _ (fun c hc => h c (by simp [hc]))]
    simp

theorem asciiLinesAux_found {q : List Byte} {k : Nat} (h : findLF q = some k) (x : List Byte) :
    asciiLinesAux [] (q ++ x) = q.take k :: asciiLinesAux [] (q.drop (k + 1) ++ x) := by
  obtain ⟨h1, h2, _⟩ := findLF_some h
  conv => lhs; rw [h1, List.append_assoc]
  rw [asciiLinesAux_noLF _ _ _ h2]
  simp [asciiLinesAux]

/-- the PORT_ASCII loop: all LF-terminated pieces of the text between `text_start` and `text_end` are handed to
    process_input, in order; what stays has no LF -/
theorem asciiLoop_exact (fuel : Nat) (s : S) (evs : List Ev) (hl : s.text.length = MAXT) (hse : s.tstart ≤ s.tend)
    (he : s.tend + 1 ≤ MAXT) (hfuel : countLF (pend s) < fuel) :
    ∃ s' evs' L, asciiLoop fuel s evs = .ok (s', evs') ∧ s'.text.length = MAXT ∧ s'.tstart ≤ s'.tend ∧
      s'.tend + 1 ≤ MAXT ∧ s'.dec = s.dec ∧ s'.port = s.port ∧ s'.sock = s.sock ∧
      inputsOf evs' = inputsOf evs ++ L ∧ findLF (pend s') = none ∧
      ∀ x, asciiLinesAux [] (pend s ++ x) = L ++ asciiLinesAux [] (pend s' ++ x) := by
  induction fuel generalizing s evs with
  | zero => omega
  | succ n ih =>
    unfold asciiLoop
    rw [if_neg (by omega)]
    dsimp only
    have e1 : slice s.text s.tstart s.tend = pend s := rfl
    rw [e1]
    cases hf : findLF (pend s) with
    | none =>
      exact ⟨s, evs, [], rfl, hl, hse, he, rfl, rfl, rfl, by simp, hf, fun x => rfl⟩
    | some k =>
      have hk := findLF_lt hf
      have hpl : (pend s).length = s.tend - s.tstart := pend_length (by omega)
      rw [hpl] at hk
      have hw : s.tstart + k + ([0] : List Byte).length ≤ s.text.length := by simp; omega
      dsimp only
      rw [writeAt_ok hw]
      dsimp only
      have hlen' : (List.take (s.tstart + k) s.text ++ [0] ++ List.drop (s.tstart + k + ([0] : List Byte).length) s.text).length
          = MAXT := by rw [← hl]; exact writeAt_length (writeAt_ok hw)
      obtain ⟨_, _, hcnt⟩ := findLF_some hf
      split
      · rename_i heq
        have hdrop : (pend s).drop (k + 1) = [] := by
          apply List.drop_eq_nil_of_le; omega
        refine ⟨_, _, [(pend s).take k], rfl, hlen', Nat.le_refl _, by dsimp only; omega, rfl, rfl, rfl, ?_, ?_, ?_⟩
        · rw [inputsOf_append]; rfl
        · show findLF (slice _ 0 0) = none
          rw [slice_nil_of_ge _ (Nat.le_refl _)]; rfl
        · intro x
          show _ = _ ++ asciiLinesAux [] (slice _ 0 0 ++ x)
          rw [slice_nil_of_ge _ (Nat.le_refl _), asciiLinesAux_found hf x, hdrop]; rfl
      · rename_i hne
        have hp1 : pend
            ({ s with text := List.take (s.tstart + k) s.text ++ [0] ++ List.drop (s.tstart + k + ([0] : List Byte).length) s.text,
                      tstart := s.tstart + k + 1 } : S) = (pend s).drop (k + 1) := by
          show slice _ (s.tstart + k + 1) s.tend = _
          rw [slice_write_before (by simp) hw, Nat.add_assoc, ← slice_drop]; rfl
        obtain ⟨s', evs', L, h1, h2, h3, h4, h5, h6, h7, h8, h9, h10⟩ := ih
          { s with text := List.take (s.tstart + k) s.text ++ [0] ++ List.drop (s.tstart + k + ([0] : List Byte).length) s.text,
                   tstart := s.tstart + k + 1 } (evs ++ [Ev.input (List.take k (pend s))])
          hlen' (by dsimp only; omega) he (by rw [hp1]; omega)
        refine ⟨s', evs', (pend s).take k :: L, h1, h2, h3, h4, h5, h6, h7, ?_, h9, ?_⟩
        · rw [h8, inputsOf_append]; simp [inputsOf]
        · intro x
          rw [asciiLinesAux_found hf x, ← hp1, h10 x]; rfl

/-- **one PORT_ASCII read while the buffer is not full** -/
theorem ascii_read_exact {s : S} (h : Inv s) (hp : s.port = .ascii) (hts : s.tstart = 0)
    (hnl : findLF (pend s) = none) (hok : s.tend + asciiReserve + 1 ≤ MAXT) :
    ∃ s' evs, getUserData s = .ok (s', evs) ∧ Inv s' ∧ s'.port = .ascii ∧ s'.tstart = 0 ∧ findLF (pend s') = none ∧
      s'.dec = s.dec ∧
      ∃ n, s'.sock = s.sock.drop n ∧
        ∀ x, asciiLinesAux [] (pend s ++ s.sock.take n ++ x) = inputsOf evs ++ asciiLinesAux [] (pend s' ++ x) := by
  have hl := h.textLen; have hse := h.se; have hem := h.eMax
  have har : asciiReserve = 1 := rfl
  unfold getUserData
  rw [if_neg (by rw [hp]; decide)]
  unfold computeSpace
  rw [hp]
  dsimp only
  rw [if_neg (by omega), if_neg (by omega)]
  dsimp only
  split
  · rename_i hempty
    have he : s.sock = [] := by simpa using hempty
    refine ⟨_, _, rfl, h, hp, hts, hnl, rfl, 0, by simp, fun x => ?_⟩
    rw [he]; simp [inputsOf]
  · rename_i hne
    have hne1 : s.sock ≠ [] := by simpa using hne
    have htn : (s.sock.take (MAXT - s.tend - asciiReserve)) ≠ [] := by
      cases hs : s.sock with
      | nil => exact absurd hs hne1
      | cons a r =>
        have : MAXT - s.tend - asciiReserve = (MAXT - s.tend - asciiReserve - 1) + 1 := by omega
        rw [this]; simp
    rw [if_neg (by simpa using htn)]
    have htake : (s.sock.take (MAXT - s.tend - asciiReserve)).length ≤ MAXT - s.tend - asciiReserve := by simp; omega
    rw [if_neg (by omega)]
    have hw1 : s.tend + (s.sock.take (MAXT - s.tend - asciiReserve)).length ≤ s.text.length := by omega
    split
    · rename_i hh; rw [hp] at hh; cases hh
    rotate_left
    · rename_i hh; rw [hp] at hh; cases hh
    · rename_i hh; rw [hp] at hh; cases hh
    rw [writeAt_ok hw1]
    dsimp only
    have hl2 := writeAt_length (writeAt_ok hw1)
    have hp0 : pend
        ({ s with sock := List.drop (MAXT - s.tend - asciiReserve) s.sock,
                  text := List.take s.tend s.text ++ s.sock.take (MAXT - s.tend - asciiReserve) ++
                    List.drop (s.tend + (s.sock.take (MAXT - s.tend - asciiReserve)).length) s.text,
                  tend := s.tend + (s.sock.take (MAXT - s.tend - asciiReserve)).length } : S)
        = pend s ++ s.sock.take (MAXT - s.tend - asciiReserve) := slice_write_append hse hw1
    have hcnt : countLF (pend s ++ s.sock.take (MAXT - s.tend - asciiReserve)) <
        (s.sock.take (MAXT - s.tend - asciiReserve)).length + 1 := by
      rw [countLF_append, (findLF_none hnl).1]
      have := countLF_le (s.sock.take (MAXT - s.tend - asciiReserve)); omega
    obtain ⟨s2, evs2, L, h1, h2, h3, h4, h5, h6, h7, h8, h9, h10⟩ := asciiLoop_exact
      ((s.sock.take (MAXT - s.tend - asciiReserve)).length + 1)
      { s with sock := List.drop (MAXT - s.tend - asciiReserve) s.sock,
               text := List.take s.tend s.text ++ s.sock.take (MAXT - s.tend - asciiReserve) ++
                 List.drop (s.tend + (s.sock.take (MAXT - s.tend - asciiReserve)).length) s.text,
               tend := s.tend + (s.sock.take (MAXT - s.tend - asciiReserve)).length } []
      (by dsimp only; rw [hl2]; exact hl) (by dsimp only; omega) (by dsimp only; omega) (by rw [hp0]; exact hcnt)
    rw [h1]
    dsimp only
    have hL : inputsOf evs2 = L := by simpa [inputsOf] using h8
    split
    · rename_i hpos
      rw [if_neg (by omega)]
      have hsl : (slice s2.text s2.tstart s2.tend).length = s2.tend - s2.tstart := slice_length _ _ _ (by omega)
      have hw3 : 0 + (slice s2.text s2.tstart s2.tend).length ≤ s2.text.length := by omega
      rw [writeAt_ok hw3]
      dsimp only
      have hp3 : pend
          ({ s2 with text := List.take 0 s2.text ++ slice s2.text s2.tstart s2.tend ++
                       List.drop (0 + (slice s2.text s2.tstart s2.tend).length) s2.text,
                     tend := s2.tend - s2.tstart, tstart := 0 } : S)
          = pend s2 := by
        show slice _ 0 (s2.tend - s2.tstart) = _
        rw [← hsl]; simp [slice, pend]
      refine ⟨_, _, rfl, ⟨?_, ?_, ?_, ?_⟩, by rw [h6]; exact hp, rfl, ?_, ?_, MAXT - s.tend - asciiReserve, ?_, ?_⟩
      · dsimp only; rw [writeAt_length (writeAt_ok hw3)]; exact h2
      · dsimp only; omega
      · dsimp only; omega
      · dsimp only; rw [h5]; exact h.dec
      · rw [hp3]; exact h9
      · dsimp only; rw [h5]
      · dsimp only; rw [h7]
      · intro x
        rw [hp3, inputsOf_append, hL]
        have := h10 x
        rw [hp0] at this
        simpa [inputsOf] using this
    · rename_i hz
      have hz0 : s2.tstart = 0 := by omega
      refine ⟨_, _, rfl, ⟨h2, h3, h4, by rw [h5]; exact h.dec⟩, by rw [h6]; exact hp, hz0, h9, by rw [h5], MAXT - s.tend - asciiReserve, h7, ?_⟩
      intro x
      rw [inputsOf_append, hL]
      have := h10 x
      rw [hp0] at this
      simpa [inputsOf] using this

/-- invariant of a clean PORT_ASCII run -/
structure AsciiK (f : F) : Prop where
  inv : Inv f.s
  port : f.s.port = .ascii
  single : f.s.dec.fl.single = false
  flag : f.s.dec.fl.cmdInBuf = false
  ts0 : f.s.tstart = 0
  nolf : findLF (pend f.s) = none
  lines : ∀ x, f.delivered ++ asciiLinesAux [] (pend f.s ++ x) = asciiLines (f.received ++ x)
  sentEq : f.received ++ f.s.sock = f.sent

theorem asciiK_init : AsciiK { s := S.init .ascii } := by
  have hp : pend (S.init .ascii) = [] := slice_nil_of_ge _ (Nat.le_refl _)
  refine ⟨init_inv _, rfl, rfl, rfl, rfl, by rw [hp]; rfl, ?_, rfl⟩
  intro x
  show [] ++ asciiLinesAux [] (pend (S.init .ascii) ++ x) = asciiLines ([] ++ x)
  rw [hp]; rfl

theorem asciiK_step {f f' : F} (op : FOp) (k : f.clean = true → AsciiK f) (h : fStep f op = .ok f') :
    f'.clean = true → AsciiK f' := by
  intro hc'
  cases op with
  | send b =>
    simp only [fStep] at h
    injection h with h; subst h
    have k := k hc'
    exact ⟨⟨k.inv.textLen, k.inv.se, k.inv.eMax, k.inv.dec⟩, k.port, k.single, k.flag, k.ts0, k.nolf, k.lines,
      by show f.received ++ (f.s.sock ++ b) = f.sent ++ b; rw [← List.append_assoc, k.sentEq]⟩
  | read =>
    simp only [fStep] at h
    cases hg : getUserData f.s with
    | error e => rw [hg] at h; cases h
    | ok res =>
      obtain ⟨s', evs⟩ := res
      rw [hg] at h
      injection h with h; subst h
      simp only [Bool.and_eq_true] at hc'
      have k := k hc'.1
      have hok : f.s.tend + asciiReserve + 1 ≤ MAXT := by
        have := hc'.2; simp only [readOK, k.port, decide_eq_true_eq] at this; exact this
      obtain ⟨s2, evs2, hg2, i2, p2, t2, n2, d2, n, hs', hl⟩ := ascii_read_exact k.inv k.port k.ts0 k.nolf hok
      rw [hg] at hg2
      injection hg2 with hg2
      injection hg2 with e1 e2
      subst e1; subst e2
      have hrec : f.s.sock.take (f.s.sock.length - s'.sock.length) = f.s.sock.take n := by
        rw [hs']; exact take_len_sub_drop _ _
      refine ⟨i2, p2, by rw [d2]; exact k.single, by rw [d2]; exact k.flag, t2, n2, ?_, ?_⟩
      · intro x
        show (f.delivered ++ inputsOf evs) ++ asciiLinesAux [] (pend s' ++ x) = asciiLines ((f.received ++ _) ++ x)
        rw [hrec, List.append_assoc, ← hl x, List.append_assoc, List.append_assoc]
        exact k.lines (f.s.sock.take n ++ x)
      · show (f.received ++ _) ++ s'.sock = f.sent
        rw [hrec, hs', List.append_assoc, List.take_append_drop]; exact k.sentEq
  | extract =>
    simp only [fStep] at h
    cases hg : getUserCommand f.s with
    | error e => rw [hg] at h; cases h
    | ok res =>
      obtain ⟨s', r⟩ := res
      rw [hg] at h
      injection h with h; subst h
      simp only [Bool.and_eq_true] at hc'
      have k := k hc'.1
      have hg2 : getUserCommand f.s = .ok (f.s, none) := by
        unfold getUserCommand; rw [k.flag]; rfl
      rw [hg] at hg2
      injection hg2 with hg2
      injection hg2 with e1 e2
      subst e1; subst e2
      exact ⟨k.inv, k.port, k.single, k.flag, k.ts0, k.nolf,
        by intro x; show (f.delivered ++ []) ++ _ = _; rw [List.append_nil]; exact k.lines x, k.sentEq⟩

theorem asciiK_run (ops : List FOp) : ∀ f f', (f.clean = true → AsciiK f) → fRun f ops = .ok f' →
    (f'.clean = true → AsciiK f') := by
  induction ops with
  | nil => intro f f' k h; simp only [fRun] at h; injection h with h; subst h; exact k
  | cons op ops ih =>
    intro f f' k h
    simp only [fRun] at h
    cases hs : fStep f op with
    | error e => rw [hs] at h; cases h
    | ok f1 =>
      rw [hs] at h
      exact ih f1 f' (asciiK_step op k hs) h

theorem asciiLinesAux_pending {q : List Byte} (h : findLF q = none) : asciiLinesAux [] q = [] := by
  have := asciiLinesAux_noLF q [] [] (findLF_none h).2
  simp only [List.append_nil] at this
  rw [this]; rfl

end NV.C13
