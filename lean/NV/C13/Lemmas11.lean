/-
C13 — PORT_ASCII end to end: the line loop of get_user_data delivers exactly the LF-terminated pieces.
-/
import NV.C13.Lemmas10

namespace NV.C13

open NV.Gen.C13

theorem slice_write_before {t x : List Byte} {i a b : Nat} (ha : i + x.length ≤ a) (hi : i + x.length ≤ t.length) :
    slice (t.take i ++ x ++ t.drop (i + x.length)) a b = slice t a b := by
  simp only [slice]
  congr 1
  have hl : (t.take i ++ x).length = i + x.length := by simp; omega
  have : a = (t.take i ++ x).length + (a - (i + x.length)) := by omega
  rw [this, List.drop_length_add_append, List.drop_drop]
  congr 1; omega

def countLF : List Byte → Nat
  | [] => 0
  | b :: r => if b = bLF then countLF r + 1 else countLF r

theorem countLF_append (a b : List Byte) : countLF (a ++ b) = countLF a + countLF b := by
  induction a with
  | nil => simp [countLF]
  | cons x r ih => simp only [List.cons_append, countLF]; split <;> omega

theorem countLF_le (a : List Byte) : countLF a ≤ a.length := by
  induction a with
  | nil => simp [countLF]
  | cons x r ih => simp only [countLF, List.length_cons]; split <;> omega

theorem findLF_none {q : List Byte} (h : findLF q = none) : countLF q = 0 ∧ ∀ b ∈ q, b ≠ bLF := by
  induction q with
  | nil => exact ⟨rfl, fun b hb => by cases hb⟩
  | cons a r ih =>
    unfold findLF at h
    split at h
    · cases h
    · rename_i ha
      have hr : findLF r = none := by
        cases hf : findLF r with
        | none => rfl
        | some j => rw [hf] at h; cases h
      obtain ⟨h1, h2⟩ := ih hr
      refine ⟨by simp [countLF, ha, h1], ?_⟩
      intro b hb
      rcases List.mem_cons.mp hb with rfl | hb
      · exact ha
      · exact h2 b hb

theorem findLF_some {q : List Byte} {k : Nat} (h : findLF q = some k) :
    q = q.take k ++ bLF :: q.drop (k + 1) ∧ (∀ b ∈ q.take k, b ≠ bLF) ∧ countLF q = countLF (q.drop (k + 1)) + 1 := by
  induction q generalizing k with
  | nil => simp [findLF] at h
  | cons a r ih =>
    unfold findLF at h
    split at h
    · rename_i ha
      injection h with h; subst h
      exact ⟨by simp [ha], fun b hb => by simp at hb, by simp [countLF, ha]⟩
    · rename_i ha
      cases hf : findLF r with
      | none => rw [hf] at h; cases h
      | some j =>
        rw [hf] at h
        simp only [Option.map_some] at h
        injection h with h; subst h
        obtain ⟨h1, h2, h3⟩ := ih hf
        refine ⟨?_, ?_, ?_⟩
        · simp only [List.take_succ_cons, List.drop_succ_cons, List.cons_append]
          rw [← h1]
        · intro b hb
          simp only [List.take_succ_cons] at hb
          rcases List.mem_cons.mp hb with rfl | hb
          · exact ha
          · exact h2 b hb
        · simp only [List.drop_succ_cons, countLF, if_neg ha]; exact h3

theorem asciiLinesAux_noLF (pre y cur : List Byte) (h : ∀ b ∈ pre, b ≠ bLF) :
    asciiLinesAux cur (pre ++ y) = asciiLinesAux (pre.reverse ++ cur) y := by
  induction pre generalizing cur with
  | nil => rfl
  | cons b r ih =>
    have hb := h b (by simp)
    simp only [List.cons_append, asciiLinesAux, if_neg hb]
    rw [ih _ (fun c hc => h c (by simp [hc]))]
    simp

theorem asciiLinesAux_found {q : List Byte} {k : Nat} (h : findLF q = some k) (x : List Byte) :
    asciiLinesAux [] (q ++ x) = q.take k :: asciiLinesAux [] (q.drop (k + 1) ++ x) := by
  obtain ⟨h1, h2, _⟩ := findLF_some h
  conv => lhs; rw [h1, List.append_assoc]
  rw [asciiLinesAux_noLF _ _ _ h2]
  simp [asciiLinesAux]

theorem hasAbort_append (a b : List Ev) : hasAbort (a ++ b) = (hasAbort a || hasAbort b) := by
  simp [hasAbort, List.any_append]

/-- the PORT_ASCII loop with failing callbacks: the LF-terminated pieces are handed to process_input in order, each
    exactly once; everything is committed (`text_start` past the line) *before* the callback runs, so when it raises
    an error the rest of the text is still pending, in order; when the loop ends normally what stays has no LF -/
theorem asciiLoop_exact {o : Oracle} (hnd : NoDest o) (fuel : Nat) (s : S) (evs : List Ev) (hl : s.text.length = MAXT)
    (hse : s.tstart ≤ s.tend) (he : s.tend + 1 ≤ MAXT) (hfuel : countLF (pend s) < fuel) :
    ∃ s' evs' L e, asciiLoop o fuel s evs = .ok (s', evs', e) ∧ s'.text.length = MAXT ∧ s'.tstart ≤ s'.tend ∧
      s'.tend + 1 ≤ MAXT ∧ s'.dec = s.dec ∧ s'.port = s.port ∧ s'.sock = s.sock ∧
      inputsOf evs' = inputsOf evs ++ L ∧ e ≠ .dead ∧ (e = .done → findLF (pend s') = none) ∧
      (hasAbort evs = false → hasAbort evs' = false → e = .done) ∧
      ∀ x, asciiLinesAux [] (pend s ++ x) = L ++ asciiLinesAux [] (pend s' ++ x) := by
  induction fuel generalizing s evs with
  | zero => omega
  | succ n ih =>
    unfold asciiLoop
    rw [if_neg (by omega)]
    dsimp only
    have e1 : slice s.text s.tstart s.tend = pend s := rfl
    rw [e1]
    cases hf : findLF (pend s) with
    | none =>
      exact ⟨s, evs, [], _, rfl, hl, hse, he, rfl, rfl, rfl, by simp, by decide, fun _ => hf, fun _ _ => rfl, fun x => rfl⟩
    | some k =>
      have hk := findLF_lt hf
      have hpl : (pend s).length = s.tend - s.tstart := pend_length (by omega)
      rw [hpl] at hk
      have hw : s.tstart + k + ([0] : List Byte).length ≤ s.text.length := by simp; omega
      dsimp only
      rw [writeAt_ok hw]
      dsimp only
      have hlen' : (List.take (s.tstart + k) s.text ++ [0] ++ List.drop (s.tstart + k + ([0] : List Byte).length) s.text).length
          = MAXT := by rw [← hl]; exact writeAt_length (writeAt_ok hw)
      obtain ⟨_, _, hcnt⟩ := findLF_some hf
      have hp1 : ∀ c : Nat, pend
          ({ s with text := List.take (s.tstart + k) s.text ++ [0] ++ List.drop (s.tstart + k + ([0] : List Byte).length) s.text,
                    tstart := s.tstart + k + 1, cbCount := c } : S) = (pend s).drop (k + 1) := by
        intro c
        show slice _ (s.tstart + k + 1) s.tend = _
        rw [slice_write_before (by simp) hw, Nat.add_assoc, ← slice_drop]; rfl
      cases ho : o s.cbCount with
      | dest => exact absurd ho (hnd _)
      | err =>
        dsimp only
        refine ⟨_, _, [(pend s).take k], _, rfl, hlen', by dsimp only; omega, he, rfl, rfl, rfl, ?_, by decide,
          (fun hh => by cases hh), ?_, ?_⟩
        · rw [inputsOf_append, inputsOf_append]; simp [inputsOf]
        · intro _ hh
          rw [hasAbort_append] at hh
          simp only [hasAbort, List.any_cons, List.any_nil, Bool.or_false, Bool.or_eq_false_iff] at hh
          exact absurd hh.2.2 (by decide)
        · intro x
          rw [asciiLinesAux_found hf x, hp1]; rfl
      | ok =>
        dsimp only
        split
        · rename_i heq
          have hdrop : (pend s).drop (k + 1) = [] := by
            apply List.drop_eq_nil_of_le; omega
          refine ⟨_, _, [(pend s).take k], _, rfl, hlen', Nat.le_refl _, by dsimp only; omega, rfl, rfl, rfl, ?_, by decide,
            fun _ => ?_, fun h1 _ => rfl, ?_⟩
          · rw [inputsOf_append]; rfl
          · show findLF (slice _ 0 0) = none
            rw [slice_nil_of_ge _ (Nat.le_refl _)]; rfl
          · intro x
            show _ = _ ++ asciiLinesAux [] (slice _ 0 0 ++ x)
            rw [slice_nil_of_ge _ (Nat.le_refl _), asciiLinesAux_found hf x, hdrop]; rfl
        · rename_i hne
          obtain ⟨s', evs', L, e, h1, h2, h3, h4, h5, h6, h7, h8, h9, h10, h11, h12⟩ := ih
            { s with text := List.take (s.tstart + k) s.text ++ [0] ++ List.drop (s.tstart + k + ([0] : List Byte).length) s.text,
                     tstart := s.tstart + k + 1, cbCount := s.cbCount + 1 } (evs ++ [Ev.input (List.take k (pend s))])
            hlen' (by dsimp only; omega) he (by rw [hp1]; omega)
          refine ⟨s', evs', (pend s).take k :: L, e, h1, h2, h3, h4, h5, h6, h7, ?_, h9, h10, ?_, ?_⟩
          · rw [h8, inputsOf_append]; simp [inputsOf]
          · intro ha hb
            exact h11 (by rw [hasAbort_append, ha]; rfl) hb
          · intro x
            rw [asciiLinesAux_found hf x, ← hp1 (s.cbCount + 1), h12 x]; rfl

/-- PORT_ASCII space computation while the pending text does not fill the buffer: the pending text is kept (moved
    to the front of the buffer if delivered lines were still in front of it) -/
theorem computeSpaceOther_keep {s : S} (h : Inv s) (hok : s.tend - s.tstart + asciiReserve + 1 ≤ MAXT) :
    ∃ s1, computeSpaceOther s = .ok (s1, MAXT - s1.tend - asciiReserve) ∧ Inv s1 ∧ pend s1 = pend s ∧
      s1.tstart = 0 ∧ s1.tend + asciiReserve + 1 ≤ MAXT ∧ s1.dec = s.dec ∧ s1.port = s.port ∧ s1.sock = s.sock ∧
      s1.cbCount = s.cbCount := by
  have hlen := h.textLen; have hse := h.se; have hem := h.eMax
  have har : asciiReserve = 1 := rfl
  unfold computeSpaceOther
  rw [if_neg (by omega)]
  have hsl : (slice s.text s.tstart s.tend).length = s.tend - s.tstart := slice_length _ _ _ (by omega)
  have hw : 0 + (slice s.text s.tstart s.tend).length ≤ s.text.length := by omega
  have ht : ∃ t, (if s.tstart > 0 then writeAt s.text 0 (slice s.text s.tstart s.tend) else .ok s.text) = .ok t ∧
      t.length = MAXT ∧ slice t 0 (s.tend - s.tstart) = pend s := by
    split
    · refine ⟨_, writeAt_ok hw, by rw [writeAt_length (writeAt_ok hw)]; exact hlen, ?_⟩
      rw [← hsl]; simp [slice, pend]
    · rename_i h0
      have : s.tstart = 0 := by omega
      exact ⟨_, rfl, hlen, by rw [this]; simp [pend, this]⟩
  obtain ⟨t, ht1, ht2, ht3⟩ := ht
  rw [ht1]
  dsimp only
  rw [if_neg (by omega), if_neg (by omega)]
  exact ⟨_, rfl, ⟨ht2, Nat.zero_le _, by dsimp only; omega, h.dec⟩, ht3, rfl, by dsimp only; omega, rfl, rfl, rfl, rfl⟩

/-- **one PORT_ASCII read while the pending text does not fill the buffer**, callbacks may raise errors -/
theorem ascii_read_exact {o : Oracle} (hnd : NoDest o) {s : S} (h : Inv s) (hp : s.port = .ascii)
    (hok : s.tend - s.tstart + asciiReserve + 1 ≤ MAXT) :
    ∃ s' evs, getUserData o s = .ok (s', evs) ∧ Inv s' ∧ s'.port = .ascii ∧ s'.dec = s.dec ∧
      (s.sock ≠ [] → hasAbort evs = false → findLF (pend s') = none) ∧
      ∃ n, s'.sock = s.sock.drop n ∧
        ∀ x, asciiLinesAux [] (pend s ++ s.sock.take n ++ x) = inputsOf evs ++ asciiLinesAux [] (pend s' ++ x) := by
  have har : asciiReserve = 1 := rfl
  obtain ⟨s1, hcs, i1, hp1, hts1, hok1, hd1, hpo1, hso1, _⟩ := computeSpaceOther_keep h hok
  have hl := i1.textLen; have hse := i1.se; have hem := i1.eMax
  unfold getUserData
  rw [if_neg (by rw [hp]; decide)]
  unfold computeSpace
  rw [hp]
  dsimp only
  rw [hcs]
  dsimp only
  have hpa : s1.port = .ascii := by rw [hpo1]; exact hp
  split
  · rename_i hempty
    have he : s1.sock = [] := by simpa using hempty
    refine ⟨_, _, rfl, i1, hpa, hd1, ?_, 0, by rw [hso1]; simp, fun x => ?_⟩
    · intro hne; rw [← hso1] at hne; exact absurd he hne
    · rw [hp1]; simp [inputsOf]
  · rename_i hne
    have hne1 : s1.sock ≠ [] := by simpa using hne
    have htn : (s1.sock.take (MAXT - s1.tend - asciiReserve)) ≠ [] := by
      cases hs : s1.sock with
      | nil => exact absurd hs hne1
      | cons a r =>
        have : MAXT - s1.tend - asciiReserve = (MAXT - s1.tend - asciiReserve - 1) + 1 := by omega
        rw [this]; simp
    rw [if_neg (by simpa using htn)]
    have htake : (s1.sock.take (MAXT - s1.tend - asciiReserve)).length ≤ MAXT - s1.tend - asciiReserve := by simp; omega
    rw [if_neg (by omega)]
    have hw1 : s1.tend + (s1.sock.take (MAXT - s1.tend - asciiReserve)).length ≤ s1.text.length := by omega
    split
    · rename_i hh; rw [hpa] at hh; cases hh
    rotate_left
    · rename_i hh; rw [hpa] at hh; cases hh
    · rename_i hh; rw [hpa] at hh; cases hh
    rw [writeAt_ok hw1]
    dsimp only
    have hl2 := writeAt_length (writeAt_ok hw1)
    have hp0 : pend
        ({ s1 with sock := List.drop (MAXT - s1.tend - asciiReserve) s1.sock,
                   text := List.take s1.tend s1.text ++ s1.sock.take (MAXT - s1.tend - asciiReserve) ++
                     List.drop (s1.tend + (s1.sock.take (MAXT - s1.tend - asciiReserve)).length) s1.text,
                   tend := s1.tend + (s1.sock.take (MAXT - s1.tend - asciiReserve)).length } : S)
        = pend s1 ++ s1.sock.take (MAXT - s1.tend - asciiReserve) := slice_write_append hse hw1
    have hp1l : (pend s1).length = s1.tend - s1.tstart := pend_length (by omega)
    have hcnt : countLF (pend s1 ++ s1.sock.take (MAXT - s1.tend - asciiReserve)) <
        s1.tend - s1.tstart + (s1.sock.take (MAXT - s1.tend - asciiReserve)).length + 1 := by
      have := countLF_le (pend s1 ++ s1.sock.take (MAXT - s1.tend - asciiReserve))
      rw [List.length_append, hp1l] at this; omega
    obtain ⟨s2, evs2, L, e, h1, h2, h3, h4, h5, h6, h7, h8, h9, h10, h11, h12⟩ := asciiLoop_exact hnd
      (s1.tend - s1.tstart + (s1.sock.take (MAXT - s1.tend - asciiReserve)).length + 1)
      { s1 with sock := List.drop (MAXT - s1.tend - asciiReserve) s1.sock,
                text := List.take s1.tend s1.text ++ s1.sock.take (MAXT - s1.tend - asciiReserve) ++
                  List.drop (s1.tend + (s1.sock.take (MAXT - s1.tend - asciiReserve)).length) s1.text,
                tend := s1.tend + (s1.sock.take (MAXT - s1.tend - asciiReserve)).length } []
      (by dsimp only; rw [hl2]; exact hl) (by dsimp only; omega) (by dsimp only; omega) (by rw [hp0]; exact hcnt)
    rw [h1]
    have hL : inputsOf evs2 = L := by simpa [inputsOf] using h8
    have hd2 : DecInv s2.dec := by rw [h5]; exact i1.dec
    have hpre : ∀ evs : List Ev, hasAbort ([Ev.ask (MAXT - s1.tend - asciiReserve)] ++
        [Ev.rx (s1.sock.take (MAXT - s1.tend - asciiReserve))] ++ evs) = hasAbort evs := by
      intro evs; rw [hasAbort_append]; rfl
    have hlines : ∀ x, asciiLinesAux [] (pend s ++ s.sock.take (MAXT - s1.tend - asciiReserve) ++ x) =
        L ++ asciiLinesAux [] (pend s2 ++ x) := by
      intro x
      have := h12 x
      rw [hp0, hp1, hso1] at this
      exact this
    cases e with
    | dead => exact absurd rfl h9
    | aborted =>
      refine ⟨_, _, rfl, ⟨h2, h3, h4, hd2⟩, by rw [h6]; exact hpa, by rw [h5]; exact hd1, ?_,
        MAXT - s1.tend - asciiReserve, by rw [h7]; dsimp only; rw [hso1], ?_⟩
      · intro _ hab
        rw [hpre] at hab
        have := h11 rfl hab
        cases this
      · intro x; rw [inputsOf_append, hL]; simpa [inputsOf] using hlines x
    | done =>
      dsimp only
      split
      · rename_i hpos
        rw [if_neg (by omega)]
        have hsl : (slice s2.text s2.tstart s2.tend).length = s2.tend - s2.tstart := slice_length _ _ _ (by omega)
        have hw3 : 0 + (slice s2.text s2.tstart s2.tend).length ≤ s2.text.length := by omega
        rw [writeAt_ok hw3]
        dsimp only
        have hp3 : pend
            ({ s2 with text := List.take 0 s2.text ++ slice s2.text s2.tstart s2.tend ++
                         List.drop (0 + (slice s2.text s2.tstart s2.tend).length) s2.text,
                       tend := s2.tend - s2.tstart, tstart := 0 } : S)
            = pend s2 := by
          show slice _ 0 (s2.tend - s2.tstart) = _
          rw [← hsl]; simp [slice, pend]
        refine ⟨_, _, rfl, ⟨?_, ?_, ?_, hd2⟩, by rw [h6]; exact hpa, by dsimp only; rw [h5]; exact hd1, ?_,
          MAXT - s1.tend - asciiReserve, by dsimp only; rw [h7]; dsimp only; rw [hso1], ?_⟩
        · dsimp only; rw [writeAt_length (writeAt_ok hw3)]; exact h2
        · dsimp only; omega
        · dsimp only; omega
        · intro _ _; rw [hp3]; exact h10 rfl
        · intro x; rw [hp3, inputsOf_append, hL]; simpa [inputsOf] using hlines x
      · refine ⟨_, _, rfl, ⟨h2, h3, h4, hd2⟩, by rw [h6]; exact hpa, by rw [h5]; exact hd1, fun _ _ => h10 rfl,
          MAXT - s1.tend - asciiReserve, by rw [h7]; dsimp only; rw [hso1], ?_⟩
        intro x; rw [inputsOf_append, hL]; simpa [inputsOf] using hlines x

theorem asciiLinesAux_pending {q : List Byte} (h : findLF q = none) : asciiLinesAux [] q = [] := by
  have := asciiLinesAux_noLF q [] [] (findLF_none h).2
  simp only [List.append_nil] at this
  rw [this]; rfl

/-- invariant of a clean PORT_ASCII run whose callbacks may raise errors -/
structure AsciiK (f : F) : Prop where
  inv : Inv f.s
  port : f.s.port = .ascii
  single : f.s.dec.fl.single = false
  flag : f.s.dec.fl.cmdInBuf = false
  /-- every complete line exactly once, in order: the lines handed to process_input so far (whether or not it
      failed), then the lines of (pending text ++ future bytes), are the lines of (received ++ future bytes) -/
  lines : ∀ x, f.delivered ++ asciiLinesAux [] (pend f.s ++ x) = asciiLines (f.received ++ x)
  /-- unless the last read was left through an error, no complete line is waiting in the buffer -/
  fin : f.aborted = false → findLF (pend f.s) = none
  sentEq : f.received ++ f.s.sock = f.sent

theorem asciiK_init : AsciiK { s := S.init .ascii } := by
  have hp : pend (S.init .ascii) = [] := slice_nil_of_ge _ (Nat.le_refl _)
  refine ⟨init_inv _, rfl, rfl, rfl, ?_, fun _ => by rw [hp]; rfl, rfl⟩
  intro x
  show [] ++ asciiLinesAux [] (pend (S.init .ascii) ++ x) = asciiLines ([] ++ x)
  rw [hp]; rfl

theorem asciiK_step {o : Oracle} (hnd : NoDest o) {f f' : F} (op : FOp) (k : f.clean = true → AsciiK f)
    (h : fStep o f op = .ok f') : f'.clean = true → AsciiK f' := by
  intro hc'
  cases op with
  | send b =>
    simp only [fStep] at h
    injection h with h; subst h
    have k := k hc'
    exact ⟨⟨k.inv.textLen, k.inv.se, k.inv.eMax, k.inv.dec⟩, k.port, k.single, k.flag, k.lines, k.fin,
      by show f.received ++ (f.s.sock ++ b) = f.sent ++ b; rw [← List.append_assoc, k.sentEq]⟩
  | read =>
    simp only [fStep] at h
    cases hg : getUserDataH o f.s with
    | error e => rw [hg] at h; cases h
    | ok res =>
      obtain ⟨s', evs⟩ := res
      rw [hg] at h
      injection h with h; subst h
      simp only [Bool.and_eq_true] at hc'
      have k := k hc'.1
      rw [getUserDataH_other o (by rw [k.port]; decide)] at hg
      have hok : f.s.tend - f.s.tstart + asciiReserve + 1 ≤ MAXT := by
        have := hc'.2; simp only [readOK, k.port, decide_eq_true_eq] at this; exact this
      obtain ⟨s2, evs2, hg2, i2, p2, d2, fin2, n, hs', hl⟩ := ascii_read_exact hnd k.inv k.port hok
      rw [hg] at hg2
      injection hg2 with hg2
      injection hg2 with e1 e2
      subst e1; subst e2
      have hrec : f.s.sock.take (f.s.sock.length - s'.sock.length) = f.s.sock.take n := by
        rw [hs']; exact take_len_sub_drop _ _
      refine ⟨i2, p2, by rw [d2]; exact k.single, by rw [d2]; exact k.flag, ?_, ?_, ?_⟩
      · intro x
        show (f.delivered ++ inputsOf evs) ++ asciiLinesAux [] (pend s' ++ x) = asciiLines ((f.received ++ _) ++ x)
        rw [hrec, List.append_assoc, ← hl x, List.append_assoc, List.append_assoc]
        exact k.lines (f.s.sock.take n ++ x)
      · show (if f.s.sock.isEmpty then f.aborted else hasAbort evs) = false → _
        intro hab
        cases hse : f.s.sock with
        | nil =>
          rw [hse] at hab
          have hfa : f.aborted = false := by simpa using hab
          have h0 := hl []
          have h1 := k.fin hfa
          -- nothing was read: the pending text is unchanged up to delivered lines, of which there are none
          rw [hse] at h0
          simp only [List.take_nil, List.append_nil] at h0
          rw [asciiLinesAux_pending h1] at h0
          cases hf : findLF (pend s') with
          | none => rfl
          | some j =>
            have := asciiLinesAux_found hf []
            simp only [List.append_nil] at this
            rw [this] at h0
            have := congrArg List.length h0
            simp at this
        | cons a r =>
          rw [hse] at hab
          exact fin2 (by rw [hse]; simp) (by simpa using hab)
      · show (f.received ++ _) ++ s'.sock = f.sent
        rw [hrec, hs', List.append_assoc, List.take_append_drop]; exact k.sentEq
  | extract =>
    simp only [fStep] at h
    cases hg : getUserCommand f.s with
    | error e => rw [hg] at h; cases h
    | ok res =>
      obtain ⟨s', r⟩ := res
      rw [hg] at h
      injection h with h; subst h
      simp only [Bool.and_eq_true] at hc'
      have k := k hc'.1
      have hg2 : getUserCommand f.s = .ok (f.s, none) := by
        unfold getUserCommand; rw [k.flag]; rfl
      rw [hg] at hg2
      injection hg2 with hg2
      injection hg2 with e1 e2
      subst e1; subst e2
      exact ⟨k.inv, k.port, k.single, k.flag,
        by intro x; show (f.delivered ++ []) ++ _ = _; rw [List.append_nil]; exact k.lines x, k.fin, k.sentEq⟩

theorem asciiK_run {o : Oracle} (hnd : NoDest o) (ops : List FOp) : ∀ f f', (f.clean = true → AsciiK f) →
    fRun o f ops = .ok f' → (f'.clean = true → AsciiK f') := by
  induction ops with
  | nil => intro f f' k h; simp only [fRun] at h; injection h with h; subst h; exact k
  | cons op ops ih =>
    intro f f' k h
    simp only [fRun] at h
    cases hs : fStep o f op with
    | error e => rw [hs] at h; cases h
    | ok f1 =>
      rw [hs] at h
      exact ih f1 f' (asciiK_step hnd op k hs) h

end NV.C13
