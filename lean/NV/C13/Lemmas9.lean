/-
C13 — helper lemmas: exact effect of one get_user_command (line mode, buffer not full) on the pending text.
-/
import NV.C13.Lemmas8

namespace NV.C13

open NV.Gen.C13

theorem cstrOf_take (l : List Byte) (k : Nat) (h : countNZ (l.take k) < (l.take k).length) :
    cstrOf l = takeNZ (l.take k) := by
  induction l generalizing k with
  | nil => simp at h
  | cons a r ih =>
    cases k with
    | zero => simp at h
    | succ k =>
      simp only [List.take_succ_cons] at h ⊢
      unfold cstrOf takeNZ countNZ
      unfold countNZ at h
      split
      · simp
      · rename_i ha
        rw [if_neg ha] at h
        simp only [List.take_succ_cons]
        congr 1
        exact ih k (by simpa using h)

theorem pend_length {s : S} (hl : s.tend ≤ s.text.length) : (pend s).length = s.tend - s.tstart :=
  slice_length _ _ _ hl

/-- result of one extraction on the pending text `p` -/
structure ExtractOK (s s' : S) (r : Option (List Byte)) : Prop where
  inv : Inv s'
  port : s'.port = s.port
  sock : s'.sock = s.sock
  ts : s'.dec.ts = s.dec.ts
  cr : s'.dec.cr = s.dec.cr
  single : s'.dec.fl.single = false
  /-- the list of commands denoted by pending ++ future text loses exactly the delivered line -/
  cmds : ∀ x, cmdsOf [] (pend s ++ x) = r.toList ++ cmdsOf [] (pend s' ++ x)
  /-- CMD_IN_BUF stays an upper bound of "a complete command is pending" -/
  flag : (hasCmd (pend s) = true → s.dec.fl.cmdInBuf = true) → (hasCmd (pend s') = true → s'.dec.fl.cmdInBuf = true)
  /-- no command returned although the flag was accurate: nothing complete is pending -/
  drained : (hasCmd (pend s) = true → s.dec.fl.cmdInBuf = true) → r = none → cmdsOf [] (pend s') = []

theorem hasCmd_false_cmds {p : List Byte} (h : hasCmd p = false) : cmdsOf [] p = [] :=
  cmdsOf_no_complete p (by simpa [hasCmd] using h)

/-- first_cmd_in_buf, only NULs pending: the buffer is reset -/
theorem firstCmd_A {s : S} (h : Inv s) (hA : s.tstart + countZ (pend s) ≥ s.tend) :
    ∃ s1, firstCmd s = .ok (s1, none) ∧ Inv s1 ∧ pend s1 = [] ∧ s1.dec = s.dec ∧ s1.port = s.port ∧ s1.sock = s.sock := by
  have hl := h.textLen; have hse := h.se; have hem := h.eMax
  have hw0 : 0 + ([0] : List Byte).length ≤ s.text.length := by simp; omega
  unfold firstCmd
  rw [if_neg (by omega), if_neg (by omega)]
  dsimp only
  have hA' : s.tstart + countZ (slice s.text s.tstart s.tend) ≥ s.tend := hA
  rw [if_pos hA', writeAt_ok hw0]
  refine ⟨_, rfl, ⟨?_, Nat.le_refl _, by dsimp only; omega, h.dec⟩, slice_nil_of_ge _ (Nat.le_refl _), rfl, rfl, rfl⟩
  dsimp only; rw [writeAt_length (writeAt_ok hw0)]; exact hl

/-- first_cmd_in_buf, a complete command is pending: only `text_start` moves over the leading NULs -/
theorem firstCmd_B {s : S} (h : Inv s) (hns : s.dec.fl.single = false) (hA : ¬ s.tstart + countZ (pend s) ≥ s.tend)
    (hc : hasCmd (pend s) = true) :
    firstCmd s = .ok ({ s with tstart := s.tstart + countZ (pend s) }, some (s.tstart + countZ (pend s))) := by
  have hl := h.textLen; have hse := h.se; have hem := h.eMax
  unfold firstCmd
  rw [if_neg (by omega), if_neg (by omega)]
  dsimp only
  have hA' : ¬ s.tstart + countZ (slice s.text s.tstart s.tend) ≥ s.tend := hA
  rw [if_neg hA', hns]
  simp only [Bool.false_eq_true, if_false]
  have hc' : countNZ (dropZ (pend s)) < (dropZ (pend s)).length := by simpa [hasCmd] using hc
  have hc'' : countNZ (List.drop (countZ (slice s.text s.tstart s.tend)) (slice s.text s.tstart s.tend)) <
      (List.drop (countZ (slice s.text s.tstart s.tend)) (slice s.text s.tstart s.tend)).length := hc'
  rw [if_pos hc'']
  rfl

/-- first_cmd_in_buf, only a partial command pending (buffer not full): it is moved to the start of the buffer -/
theorem firstCmd_C {s : S} (h : Inv s) (hns : s.dec.fl.single = false) (hA : ¬ s.tstart + countZ (pend s) ≥ s.tend)
    (hc : hasCmd (pend s) = false) (hfit : (pend s).length + cutMargin ≤ MAXT) :
    ∃ s1, firstCmd s = .ok (s1, none) ∧ Inv s1 ∧ pend s1 = dropZ (pend s) ∧ s1.dec = s.dec ∧ s1.port = s.port ∧
      s1.sock = s.sock := by
  have hl := h.textLen; have hse := h.se; have hem := h.eMax
  have hpl : (pend s).length = s.tend - s.tstart := pend_length (by omega)
  have hzl := dropZ_length_le (pend s)
  unfold firstCmd
  rw [if_neg (by omega), if_neg (by omega)]
  dsimp only
  have hA' : ¬ s.tstart + countZ (slice s.text s.tstart s.tend) ≥ s.tend := hA
  rw [if_neg hA', hns]
  simp only [Bool.false_eq_true, if_false]
  have hc' : ¬ countNZ (dropZ (pend s)) < (dropZ (pend s)).length := by simpa [hasCmd] using hc
  have hc'' : ¬ countNZ (List.drop (countZ (slice s.text s.tstart s.tend)) (slice s.text s.tstart s.tend)) <
      (List.drop (countZ (slice s.text s.tstart s.tend)) (slice s.text s.tstart s.tend)).length := hc'
  rw [if_neg hc'']
  have hd1 : (dropZ (pend s)).length = s.tend - (s.tstart + countZ (pend s)) := by
    simp only [dropZ, List.length_drop]; omega
  have hw1 : 0 + (dropZ (pend s)).length ≤ s.text.length := by omega
  have e1 : List.drop (countZ (slice s.text s.tstart s.tend)) (slice s.text s.tstart s.tend) = dropZ (pend s) := rfl
  rw [e1, writeAt_ok hw1]
  dsimp only
  have e2 : s.tend - (s.tstart + countZ (slice s.text s.tstart s.tend)) = (dropZ (pend s)).length := hd1.symm
  rw [e2, if_neg (by omega)]
  refine ⟨_, rfl, ⟨?_, Nat.zero_le _, by dsimp only; omega, h.dec⟩, ?_, rfl, rfl, rfl⟩
  · dsimp only; rw [writeAt_length (writeAt_ok hw1)]; exact hl
  · show slice _ 0 (dropZ (pend s)).length = _
    simp [slice]

/-- next_cmd_in_buf: the command at the front of the pending text and the NULs behind it are skipped -/
theorem nextCmd_exact {s : S} (h : Inv s) :
    ∃ s2, nextCmd s = .ok s2 ∧ Inv s2 ∧ pend s2 = dropZ (dropNZ (pend s)) ∧ s2.dec = s.dec ∧ s2.port = s.port ∧
      s2.sock = s.sock := by
  have hl := h.textLen; have hse := h.se; have hem := h.eMax
  have hpl : (pend s).length = s.tend - s.tstart := pend_length (by omega)
  have hw0 : 0 + ([0] : List Byte).length ≤ s.text.length := by simp; omega
  have hdn : (dropNZ (pend s)).length = (pend s).length - countNZ (pend s) := by simp [dropNZ]
  have hz2 := dropZ_length_le (dropNZ (pend s))
  unfold nextCmd
  rw [if_neg (by omega), if_neg (by omega)]
  dsimp only
  have e1 : slice s.text s.tstart s.tend = pend s := rfl
  have e2 : List.drop (countNZ (pend s)) (pend s) = dropNZ (pend s) := rfl
  rw [e1, e2]
  split
  · refine ⟨_, rfl, ⟨hl, by dsimp only; omega, hem, h.dec⟩, ?_, rfl, rfl, rfl⟩
    show slice s.text _ s.tend = _
    rw [Nat.add_assoc, ← slice_drop]
    simp only [dropZ, dropNZ, List.drop_drop]; rfl
  · rw [writeAt_ok hw0]
    refine ⟨_, rfl, ⟨?_, Nat.le_refl _, by dsimp only; omega, h.dec⟩, ?_, rfl, rfl, rfl⟩
    · dsimp only; rw [writeAt_length (writeAt_ok hw0)]; exact hl
    · have : dropZ (dropNZ (pend s)) = [] := by
        simp only [dropZ]; apply List.drop_eq_nil_of_le; omega
      rw [this]; exact slice_nil_of_ge _ (Nat.le_refl _)

theorem hasCmd_nil : hasCmd [] = false := by simp [hasCmd, dropZ, countZ, countNZ]

theorem dropZ_idem (p : List Byte) : dropZ (dropZ p) = dropZ p := by
  cases hd : dropZ p with
  | nil => rfl
  | cons b r => exact dropZ_cons_ne (dropZ_head_ne hd) r

/-- **one get_user_command in line mode, buffer not full** -/
theorem extract_exact {s : S} (h : Inv s) (hns : s.dec.fl.single = false)
    (hfit : (pend s).length + cutMargin ≤ MAXT) :
    ∃ s' r, getUserCommand s = .ok (s', r) ∧ ExtractOK s s' r := by
  have hl := h.textLen; have hse := h.se; have hem := h.eMax
  have hpl : (pend s).length = s.tend - s.tstart := pend_length (by omega)
  unfold getUserCommand
  split
  · rename_i hflag
    have hf : s.dec.fl.cmdInBuf = false := by simpa using hflag
    refine ⟨s, none, rfl, ⟨h, rfl, rfl, rfl, rfl, hns, fun x => rfl, fun hh => hh, ?_⟩⟩
    intro hh _
    cases hc : hasCmd (pend s) with
    | false => exact hasCmd_false_cmds hc
    | true => rw [hh hc] at hf; cases hf
  · by_cases hA : s.tstart + countZ (pend s) ≥ s.tend
    · obtain ⟨s1, h1, i1, p1, d1, po1, so1⟩ := firstCmd_A h hA
      rw [h1]
      dsimp only
      have hdz : dropZ (pend s) = [] := by
        simp only [dropZ]; apply List.drop_eq_nil_of_le; omega
      refine ⟨_, none, rfl, ⟨⟨i1.textLen, i1.se, i1.eMax, decInv_fl i1.dec _⟩, po1, so1, by dsimp only; rw [d1],
        by dsimp only; rw [d1], by dsimp only; rw [d1]; exact hns, ?_, ?_, ?_⟩⟩
      · intro x
        show _ = _ ++ cmdsOf [] (pend s1 ++ x)
        rw [p1, cmdsOf_dropZ (pend s) x, hdz]; rfl
      · intro _ hq
        have : hasCmd (pend s1) = true := hq
        rw [p1, hasCmd_nil] at this; cases this
      · intro _ _
        show cmdsOf [] (pend s1) = []
        rw [p1]; rfl
    · cases hc : hasCmd (pend s) with
      | false =>
        obtain ⟨s1, h1, i1, p1, d1, po1, so1⟩ := firstCmd_C h hns hA hc hfit
        rw [h1]
        dsimp only
        have hnc : hasCmd (dropZ (pend s)) = false := by
          simp only [hasCmd, dropZ_idem]; simpa [hasCmd] using hc
        refine ⟨_, none, rfl, ⟨⟨i1.textLen, i1.se, i1.eMax, decInv_fl i1.dec _⟩, po1, so1, by dsimp only; rw [d1],
          by dsimp only; rw [d1], by dsimp only; rw [d1]; exact hns, ?_, ?_, ?_⟩⟩
        · intro x
          show _ = _ ++ cmdsOf [] (pend s1 ++ x)
          rw [p1]; exact cmdsOf_dropZ (pend s) x
        · intro _ hq
          have : hasCmd (pend s1) = true := hq
          rw [p1, hnc] at this; cases this
        · intro _ _
          show cmdsOf [] (pend s1) = []
          rw [p1]; exact hasCmd_false_cmds hnc
      | true =>
        rw [firstCmd_B h hns hA hc]
        dsimp only
        have hc' : countNZ (dropZ (pend s)) < (dropZ (pend s)).length := by simpa [hasCmd] using hc
        have hzl := dropZ_length_le (pend s)
        have i1 : Inv ({ s with tstart := s.tstart + countZ (pend s) } : S) := ⟨hl, by dsimp only; omega, hem, h.dec⟩
        have p1 : pend ({ s with tstart := s.tstart + countZ (pend s) } : S) = dropZ (pend s) := by
          show slice s.text _ s.tend = _
          rw [← slice_drop]; rfl
        -- the C string at text + text_start
        have hcs : cstrAt s.text (s.tstart + countZ (pend s)) = .ok (takeNZ (dropZ (pend s))) := by
          have hd : dropZ (pend s) = (s.text.drop (s.tstart + countZ (pend s))).take (s.tend - (s.tstart + countZ (pend s))) := by
            rw [← p1]; rfl
          have hmem : (0 : Byte) ∈ dropZ (pend s) := countNZ_lt_mem hc'
          have hmem2 : (0 : Byte) ∈ s.text.drop (s.tstart + countZ (pend s)) := by
            rw [hd] at hmem; exact List.mem_of_mem_take hmem
          rw [cstrAt_ok (by simpa using hmem2)]
          rw [hd] at hc' ⊢
          rw [cstrOf_take _ _ hc']
        rw [hcs]
        dsimp only
        have htl : (takeNZ (dropZ (pend s))).length ≤ (pend s).length := by
          simp only [takeNZ, dropZ, List.length_take, List.length_drop]; omega
        have hel := edit_length_le (takeNZ (dropZ (pend s)))
        have hcm : cutMargin = 2 := rfl
        rw [telnetNeg_eq_edit, if_neg (by omega)]
        obtain ⟨s2, h2, i2, p2, d2, po2, so2⟩ := nextCmd_exact i1
        rw [h2]
        dsimp only
        rw [p1] at p2
        have hns2 : s2.dec.fl.single = false := by rw [d2]; exact hns
        rw [cmdInBuf_exact (by have := i2.eMax; have := i2.textLen; omega) i2.se hns2]
        dsimp only
        have hcmds : ∀ x, cmdsOf [] (pend s ++ x) = [edit (takeNZ (dropZ (pend s)))] ++ cmdsOf [] (pend s2 ++ x) := by
          intro x; rw [p2]; exact cmdsOf_extract_complete (pend s) x hc'
        cases hh : hasCmd (pend s2) with
        | true =>
          simp only [if_true]
          refine ⟨_, _, rfl, ⟨i2, po2, so2, by rw [d2], by rw [d2], hns2, hcmds, ?_, ?_⟩⟩
          · intro hf _; rw [d2]; exact hf hc
          · intro _ hr; cases hr
        | false =>
          simp only [Bool.false_eq_true, if_false]
          refine ⟨_, _, rfl, ⟨⟨i2.textLen, i2.se, i2.eMax, decInv_fl i2.dec _⟩, po2, so2, by dsimp only; rw [d2],
            by dsimp only; rw [d2], by dsimp only; exact hns2, hcmds, ?_, ?_⟩⟩
          · intro _ hq
            have : hasCmd (pend s2) = true := hq
            rw [hh] at this; cases this
          · intro _ hr; cases hr

end NV.C13
