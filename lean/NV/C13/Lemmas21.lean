/-
C13 — the hold test of get_user_data (fix 57d7cb1, closes the finding C13-typeahead-discard): complete commands typed
ahead are never discarded.  A read on the telnet port does exactly one of three things:
  (a) the pending text is below the discard threshold (`keepsPending`): the read is the ordinary one
      (`getUserDataH = getUserData`, so `telnet_read_exact` / `telnet_lines_delivered` speak about the real code);
  (b) it is held back: nothing is read from the socket, nothing changes but CMD_IN_BUF;
  (c) it proceeds although the threshold is exceeded - then NO complete command is pending: what get_user_data
      discards is an unfinished over-long line, which the property allows.
-/
import NV.C13.Lemmas15

namespace NV.C13

open NV.Gen.C13

/-- (c) a read that goes ahead above the threshold finds no complete command pending -/
theorem discard_only_unfinished {s : S} (h : Inv s) (hp : s.port = .telnet)
    (hk : keepsPending (s.tend - s.tstart) = false) (hh : holdRead s = .ok false) : cmdInBuf s = .ok false := by
  rw [← holdRead_above h hp hk]; exact hh

/-- **complete commands typed ahead are never discarded** (telnet port, line mode): whatever is pending, a read event
    is an ordinary read (a), or is held back without touching socket or buffer (b), or finds no complete command
    pending (c) -/
theorem typeahead_never_discarded (o : Oracle) {s : S} (h : Inv s) (hp : s.port = .telnet) (hns : s.dec.fl.single = false) :
    (keepsPending (s.tend - s.tstart) = true ∧ getUserDataH o s = getUserData o s) ∨
    (getUserDataH o s = .ok ({ s with dec := { s.dec with fl := { s.dec.fl with cmdInBuf := true } } }, [])) ∨
    (getUserDataH o s = getUserData o s ∧ hasCmd (pend s) = false) := by
  by_cases hk : keepsPending (s.tend - s.tstart) = true
  · exact Or.inl ⟨hk, getUserDataH_keeps o h hk⟩
  · rcases getUserDataH_cases o h with ⟨hh, _, _⟩ | ⟨hh, hf⟩
    · exact Or.inr (Or.inl hh)
    · refine Or.inr (Or.inr ⟨hh, ?_⟩)
      have hc := discard_only_unfinished h hp (by simpa using hk) hf
      rw [cmdInBuf_exact (by have := h.textLen; have := h.eMax; omega) h.se hns] at hc
      injection hc

end NV.C13
