/- C13 — chunk 3 of the transition-table tie (see Table.lean / TableTie.lean); evaluation by the kernel only -/
import NV.C13.Table

namespace NV.C13

theorem cc_chunk_3 : chunkOk 3 = true := by decide +kernel

end NV.C13
