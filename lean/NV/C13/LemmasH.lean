/-
C13 — the hold test in front of get_user_data (fix 57d7cb1): basic facts used by the schedule theorems.
-/
import NV.C13.Lemmas9

namespace NV.C13

open NV.Gen.C13

theorem hold_divisors : holdDiv = spaceDiv2 ∧ holdCmpDiv = compactDiv ∧ spaceDiv = spaceDiv2 := by decide

theorem holdRead_ok {s : S} (h : Inv s) : ∃ b, holdRead s = .ok b := by
  have hl := h.textLen; have hse := h.se; have hem := h.eMax
  unfold holdRead
  split
  · exact ⟨_, rfl⟩
  · rw [if_neg (by omega)]
    split
    · rw [if_neg (by omega)]
      split
      · exact cmdInBuf_ok s (by omega)
      · exact ⟨_, rfl⟩
    · exact ⟨_, rfl⟩

theorem holdRead_telnet {s : S} (h : holdRead s = .ok true) : s.port = .telnet := by
  unfold holdRead at h
  split at h
  · injection h with h; cases h
  · rename_i hp
    cases hq : s.port with
    | telnet => rfl
    | ascii => rw [hq] at hp; exact absurd (by decide) hp
    | binary => rw [hq] at hp; exact absurd (by decide) hp
    | console => rw [hq] at hp; exact absurd (by decide) hp

theorem holdRead_other {s : S} (hp : s.port ≠ .telnet) : holdRead s = .ok false := by
  have hne : (s.port != Port.telnet) = true := by
    cases hq : s.port with
    | telnet => exact absurd hq hp
    | ascii => decide
    | binary => decide
    | console => decide
  unfold holdRead
  rw [if_pos hne]

/-- get_user_data either holds the read back (nothing is read, nothing changes but CMD_IN_BUF) or does what
    `getUserData` describes -/
theorem getUserDataH_cases (o : Oracle) {s : S} (h : Inv s) :
    (getUserDataH o s = .ok ({ s with dec := { s.dec with fl := { s.dec.fl with cmdInBuf := true } } }, []) ∧
      s.port = .telnet ∧ holdRead s = .ok true) ∨
    (getUserDataH o s = getUserData o s ∧ holdRead s = .ok false) := by
  obtain ⟨b, hb⟩ := holdRead_ok h
  unfold getUserDataH
  rw [hb]
  cases b with
  | true => exact Or.inl ⟨rfl, holdRead_telnet hb, rfl⟩
  | false => exact Or.inr ⟨rfl, rfl⟩

theorem getUserDataH_other (o : Oracle) {s : S} (hp : s.port ≠ .telnet) : getUserDataH o s = getUserData o s := by
  unfold getUserDataH
  rw [holdRead_other hp]

/-- the invariant is kept whether the read is held back or not -/
theorem getUserDataH_ok' (o : Oracle) {s : S} (h : Inv s) :
    ∃ s' evs, getUserDataH o s = .ok (s', evs) ∧ Inv s' ∧ s'.dec.fl.single = s.dec.fl.single ∧ s'.port = s.port ∧
      (s.port ≠ .telnet → s'.dec = s.dec) := by
  rcases getUserDataH_cases o h with ⟨hh, hpt, _⟩ | ⟨hh, _⟩
  · exact ⟨_, _, hh, ⟨h.textLen, h.se, h.eMax, decInv_fl h.dec _⟩, rfl, rfl, fun hn => absurd hpt hn⟩
  · rw [hh]; exact getUserData_ok' o h

/-- (a) below the discard threshold nothing is held back -/
theorem holdRead_keeps {s : S} (h : Inv s) (hk : keepsPending (s.tend - s.tstart) = true) : holdRead s = .ok false := by
  have hl := h.textLen; have hse := h.se; have hem := h.eMax
  obtain ⟨e1, e2, _⟩ := hold_divisors
  unfold keepsPending at hk
  simp only [Bool.and_eq_true, decide_eq_true_eq] at hk
  unfold holdRead
  split
  · rfl
  · rw [if_neg (by omega)]
    split
    · rw [if_neg (by omega), e1, e2, if_neg (by omega)]
    · rfl

theorem getUserDataH_keeps (o : Oracle) {s : S} (h : Inv s) (hk : keepsPending (s.tend - s.tstart) = true) :
    getUserDataH o s = getUserData o s := by
  unfold getUserDataH
  rw [holdRead_keeps h hk]

/-- above the threshold the hold test comes down to cmd_in_buf -/
theorem holdRead_above {s : S} (h : Inv s) (hp : s.port = .telnet) (hk : keepsPending (s.tend - s.tstart) = false) :
    holdRead s = cmdInBuf s := by
  have hl := h.textLen; have hse := h.se; have hem := h.eMax
  obtain ⟨e1, e2, e3⟩ := hold_divisors
  unfold keepsPending at hk
  have hlt : (MAXT - (s.tend - s.tstart) - 1) / spaceDiv2 < MAXT / compactDiv := by
    by_cases hc : (MAXT - (s.tend - s.tstart) - 1) / spaceDiv2 ≥ MAXT / compactDiv
    · have : decide (s.tend - s.tstart + 1 ≤ MAXT) = true := by simp only [decide_eq_true_eq]; omega
      simp only [hc, this, decide_true, Bool.and_self] at hk
      cases hk
    · omega
  have hmono : (MAXT - s.tend - 1) / spaceDiv ≤ (MAXT - (s.tend - s.tstart) - 1) / spaceDiv2 := by
    rw [e3]; exact Nat.div_le_div_right (by omega)
  unfold holdRead
  rw [if_neg (by rw [hp]; decide), if_neg (by omega), if_pos (by omega), if_neg (by omega), e1, e2, if_pos hlt]

theorem holdRead_true {s : S} (h : Inv s) (hp : s.port = .telnet) (hns : s.dec.fl.single = false)
    (hk : keepsPending (s.tend - s.tstart) = false) (hc : hasCmd (pend s) = true) : holdRead s = .ok true := by
  rw [holdRead_above h hp hk, cmdInBuf_exact (by have := h.textLen; have := h.eMax; omega) h.se hns, hc]

end NV.C13
