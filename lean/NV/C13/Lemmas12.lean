/-
C13 — the NUL behind the buffered text: `text[k] = 0` for some `k ≥ text_end` inside the array.  The C code relies
on it wherever it treats `text + text_start` as a C string (single-character mode: first_cmd_in_buf returns the
buffer without looking for the terminator).  It does not hold because the array is cleared (it is not): every
function that moves `text_end` stores a NUL there, or leaves an older one in place.
-/
import NV.C13.Lemmas11

namespace NV.C13

open NV.Gen.C13

def NulAfter (s : S) : Prop := ∃ k, s.tend ≤ k ∧ k < s.text.length ∧ s.text.getD k 1 = 0

theorem getD_write_hi {t x : List Byte} {i k : Nat} (d : Byte) (hk : i + x.length ≤ k) (hi : i + x.length ≤ t.length) :
    (t.take i ++ x ++ t.drop (i + x.length)).getD k d = t.getD k d := by
  have hl : (t.take i ++ x).length = i + x.length := by simp; omega
  simp only [List.getD]
  rw [List.getElem?_append_right (by omega), hl, List.getElem?_drop]
  congr 2; omega

theorem getD_write_zero {t : List Byte} {e : Nat} (he : e < t.length) :
    (t.take e ++ [0] ++ t.drop (e + ([0] : List Byte).length)).getD e 1 = 0 := by
  have hl : (t.take e).length = e := by simp; omega
  simp only [List.getD, List.append_assoc]
  rw [List.getElem?_append_right (by omega), hl]
  simp

theorem mem_drop_of_getD {t : List Byte} {i k : Nat} (hik : i ≤ k) (hk : k < t.length) (h : t.getD k 1 = 0) :
    (t.drop i).contains 0 = true := contains_zero_of_getD hik h

theorem nulAfter_init (p : Port) : NulAfter (S.init p) := by
  refine ⟨0, Nat.le_refl _, ?_, ?_⟩
  · show 0 < (List.replicate textArraySize (0 : Byte)).length
    rw [List.length_replicate]; decide
  · show (List.replicate textArraySize (0 : Byte)).getD 0 1 = 0
    rfl

/-- a write that ends at or below the NUL keeps it -/
theorem nulAfter_write_below {s : S} (h : NulAfter s) {i : Nat} {x : List Byte} (hx : i + x.length ≤ s.tend)
    (hl : s.tend ≤ s.text.length) (e' a' : Nat) (he' : e' ≤ s.tend) (d : Dec) (sk : List Byte) (c : Bool) (n : Nat) :
    NulAfter { s with text := s.text.take i ++ x ++ s.text.drop (i + x.length), tend := e', tstart := a', dec := d,
                      sock := sk, closed := c, cbCount := n } := by
  obtain ⟨k, h1, h2, h3⟩ := h
  refine ⟨k, by dsimp only; omega, ?_, ?_⟩
  · dsimp only; rw [writeAt_length (writeAt_ok (by omega))]; exact h2
  · dsimp only; rw [getD_write_hi 1 (by omega) (by omega)]; exact h3

/-- storing a NUL at the new `text_end` establishes it -/
theorem nulAfter_write_term {t : List Byte} {e : Nat} (he : e < t.length) (p : Port) (a : Nat) (d : Dec)
    (sk : List Byte) (c : Bool) (n : Nat) :
    NulAfter { port := p, text := t.take e ++ [0] ++ t.drop (e + ([0] : List Byte).length), tstart := a, tend := e,
               dec := d, sock := sk, closed := c, cbCount := n } := by
  refine ⟨e, Nat.le_refl _, ?_, getD_write_zero he⟩
  dsimp only; rw [writeAt_length (writeAt_ok (by simp; omega))]; exact he

end NV.C13
